#!/bin/sh
# run_all.sh [quick|thorough]: every claimed check in sequence; summary lines only
tier=${1:-quick}
cd /verif
for p in C01 C02 C03 C04 C05 C06 C07 C08 C09 C10 C11 C12 C13 C14 C15 C16 C17 C18 C19 C20; do
  ./check $p $tier 2>&1 | grep -E "VIOLATION|$p $tier:" | cut -c1-260
done
