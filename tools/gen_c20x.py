#!/usr/bin/env python3
"""gen_c20x.py [out]: writes lean/H8/Props/C20X.lean — the charge of the memory forms proved in C01M / C01N / C01L:
each theorem re-runs the proof script of the handler theorem up to the cost lookups (text taken from the source files,
so the two stay in step) and concludes that the charge is the manual's mix looked up in the final state."""
import os, re, sys
HERE = os.path.dirname(os.path.abspath(__file__))
PROPS = os.path.join(HERE, '..', 'lean', 'H8', 'Props')
OUT = sys.argv[1] if len(sys.argv) > 1 else os.path.join(PROPS, 'C20X.lean')
SRC = os.environ.get('C20X_SRC', PROPS)
# (module, theorem, I count, data kind, data count, operand address over the initial state st, internal states or None, mix)
T = [
    ('C01M', 'MOV_B_LD_IND', 1, '.L', 1, 'getEr st.regs (nib op 3) &&& ADDRESS_MASK', None, '{ i := 1, l := 1 }'),
    ('C01M', 'MOV_B_ST_IND', 1, '.L', 1, 'getEr st.regs (nib op 3 &&& 7) &&& ADDRESS_MASK', None, '{ i := 1, l := 1 }'),
    ('C01M', 'MOV_B_LD_AA8', 1, '.L', 1, 'getAddrAbs8 (op.setWidth 8)', None, '{ i := 1, l := 1 }'),
    ('C01M', 'MOV_W_LD_IND', 1, '.M', 1, 'getEr st.regs (nib op 3) &&& ADDRESS_MASK', None, '{ i := 1, m := 1 }'),
    ('C01N', 'MOV_B_LD_POSTINC', 1, '.L', 1, 'getEr st.regs (nib op 3) &&& ADDRESS_MASK', 2, '{ i := 1, l := 1, n := 2 }'),
    ('C01N', 'MOV_B_ST_PREDEC', 1, '.L', 1, '(getEr st.regs (nib op 3 &&& 7) - 1) &&& ADDRESS_MASK', 2, '{ i := 1, l := 1, n := 2 }'),
    ('C01N', 'MOV_W_ST_IND', 1, '.M', 1, 'getEr st.regs (nib op 3 &&& 7) &&& ADDRESS_MASK', None, '{ i := 1, m := 1 }'),
    ('C01L', 'MOV_L_LD_IND', 2, '.M', 2, 'getEr st.regs (nib op2 3) &&& ADDRESS_MASK', None, '{ i := 2, m := 2 }'),
    ('C01L', 'MOV_L_LD_POSTINC', 2, '.M', 2, 'getEr st.regs (nib op2 3) &&& ADDRESS_MASK', 2, '{ i := 2, m := 2, n := 2 }'),
    ('C01L', 'MOV_L_ST_IND', 2, '.M', 2, 'getEr st.regs (nib op2 3 &&& 7) &&& ADDRESS_MASK', None, '{ i := 2, m := 2 }'),
    ('C01L', 'MOV_L_ST_PREDEC', 2, '.M', 2, '(getEr st.regs (nib op2 3 &&& 7) - 4) &&& ADDRESS_MASK', 2, '{ i := 2, m := 2, n := 2 }'),
    # displacement / absolute forms (C08D / C08W / C08L / C08X) and the remaining C01P forms: relative to the state after
    # the operand words have been fetched
    ('C08D', 'MOV_B_LD_D16', 2, '.L', 1, '(getEr s1.regs (nib op 3) + d.signExtend 32) &&& ADDRESS_MASK', None, '{ i := 2, l := 1 }'),
    ('C08D', 'MOV_B_ST_D16', 2, '.L', 1, '(getEr s1.regs (nib op 3 &&& 7) + d.signExtend 32) &&& ADDRESS_MASK', None, '{ i := 2, l := 1 }'),
    ('C08D', 'MOV_B_LD_AA16', 2, '.L', 1, 'getAddrAbs16 a', None, '{ i := 2, l := 1 }'),
    ('C08D', 'MOV_B_ST_AA16', 2, '.L', 1, 'getAddrAbs16 a', None, '{ i := 2, l := 1 }'),
    ('C08D', 'MOV_B_LD_AA24', 3, '.L', 1, '(hi.setWidth 32 <<< 16) ||| lo.setWidth 32', None, '{ i := 3, l := 1 }'),
    ('C08D', 'MOV_B_ST_AA24', 3, '.L', 1, '(hi.setWidth 32 <<< 16) ||| lo.setWidth 32', None, '{ i := 3, l := 1 }'),
    ('C08W', 'MOV_W_LD_D16', 2, '.M', 1, '(getEr s1.regs (nib op 3) + d.signExtend 32) &&& ADDRESS_MASK', None, '{ i := 2, m := 1 }'),
    ('C08W', 'MOV_W_ST_D16', 2, '.M', 1, '(getEr s1.regs (nib op 3 &&& 7) + d.signExtend 32) &&& ADDRESS_MASK', None, '{ i := 2, m := 1 }'),
    ('C08W', 'MOV_W_LD_AA16', 2, '.M', 1, 'getAddrAbs16 a', None, '{ i := 2, m := 1 }'),
    ('C08W', 'MOV_W_ST_AA16', 2, '.M', 1, 'getAddrAbs16 a', None, '{ i := 2, m := 1 }'),
    ('C08W', 'MOV_W_LD_AA24', 3, '.M', 1, '(hi.setWidth 32 <<< 16) ||| lo.setWidth 32', None, '{ i := 3, m := 1 }'),
    ('C08W', 'MOV_W_ST_AA24', 3, '.M', 1, '(hi.setWidth 32 <<< 16) ||| lo.setWidth 32', None, '{ i := 3, m := 1 }'),
    ('C08L', 'MOV_L_LD_D16', 3, '.M', 2, '(getEr s1.regs (nib op2 3) + d.signExtend 32) &&& ADDRESS_MASK', None, '{ i := 3, m := 2 }'),
    ('C08L', 'MOV_L_ST_D16', 3, '.M', 2, '(getEr s1.regs (nib op2 3 &&& 7) + d.signExtend 32) &&& ADDRESS_MASK', None, '{ i := 3, m := 2 }'),
    ('C08L', 'MOV_L_LD_AA16', 3, '.M', 2, 'getAddrAbs16 a &&& ADDRESS_MASK', None, '{ i := 3, m := 2 }'),
    ('C08L', 'MOV_L_ST_AA16', 3, '.M', 2, 'getAddrAbs16 a &&& ADDRESS_MASK', None, '{ i := 3, m := 2 }'),
    ('C08L', 'MOV_L_LD_AA24', 4, '.M', 2, '((hi.setWidth 32 <<< 16) ||| lo.setWidth 32) &&& ADDRESS_MASK', None, '{ i := 4, m := 2 }'),
    ('C08L', 'MOV_L_ST_AA24', 4, '.M', 2, '((hi.setWidth 32 <<< 16) ||| lo.setWidth 32) &&& ADDRESS_MASK', None, '{ i := 4, m := 2 }'),
    ('C08X', 'MOV_B_LD_D24', 4, '.L', 1, '(getEr s2.regs (nib op 3) + ((hi.setWidth 32 <<< 16) ||| lo.setWidth 32)) &&& ADDRESS_MASK', None, '{ i := 4, l := 1 }'),
    ('C08X', 'MOV_B_ST_D24', 4, '.L', 1, '(getEr s2.regs (nib op 3 &&& 7) + ((hi.setWidth 32 <<< 16) ||| lo.setWidth 32)) &&& ADDRESS_MASK', None, '{ i := 4, l := 1 }'),
    ('C08X', 'MOV_W_LD_D24', 4, '.M', 1, '(getEr s2.regs (nib op 3) + ((hi.setWidth 32 <<< 16) ||| lo.setWidth 32)) &&& ADDRESS_MASK', None, '{ i := 4, m := 1 }'),
    ('C08X', 'MOV_W_ST_D24', 4, '.M', 1, '(getEr s2.regs (nib op 3 &&& 7) + ((hi.setWidth 32 <<< 16) ||| lo.setWidth 32)) &&& ADDRESS_MASK', None, '{ i := 4, m := 1 }'),
    ('C08X', 'MOV_L_LD_D24', 5, '.M', 2, '(getEr s3.regs (nib op2 3) + ((hi.setWidth 32 <<< 16) ||| lo.setWidth 32)) &&& ADDRESS_MASK', None, '{ i := 5, m := 2 }'),
    ('C08X', 'MOV_L_ST_D24', 5, '.M', 2, '(getEr s3.regs (nib op2 3 &&& 7) + ((hi.setWidth 32 <<< 16) ||| lo.setWidth 32)) &&& ADDRESS_MASK', None, '{ i := 5, m := 2 }'),
    ('C01P', 'MOV_B_ST_AA8', 1, '.L', 1, 'getAddrAbs8 (op.setWidth 8)', None, '{ i := 1, l := 1 }'),
    ('C01P', 'MOV_W_LD_POSTINC', 1, '.M', 1, 'getEr st.regs (nib op 3) &&& ADDRESS_MASK', 2, '{ i := 1, m := 1, n := 2 }'),
    ('C01P', 'MOV_W_ST_PREDEC', 1, '.M', 1, '(getEr st.regs (nib op 3 &&& 7) - 2) &&& ADDRESS_MASK', 2, '{ i := 1, m := 1, n := 2 }'),
    # STC.W CCR,<memory> (C07S)
    ('C07S', 'STC_W_IND', 2, '.M', 1, 'getEr st.regs (nib op2 3 &&& 7) &&& ADDRESS_MASK', None, '{ i := 2, m := 1 }'),
    ('C07S', 'STC_W_D16', 3, '.M', 1, '(getEr s1.regs (nib op2 3 &&& 7) + d.signExtend 32) &&& ADDRESS_MASK', None, '{ i := 3, m := 1 }'),
    ('C07S', 'STC_W_AA16', 3, '.M', 1, 'getAddrAbs16 a', None, '{ i := 3, m := 1 }'),
    ('C07S', 'STC_W_AA24', 4, '.M', 1, '(hi.setWidth 32 <<< 16) ||| lo.setWidth 32', None, '{ i := 4, m := 1 }'),
    ('C07S', 'STC_W_D24', 5, '.M', 1, '(getEr s3.regs (nib op2 3) + ((hi.setWidth 32 <<< 16) ||| lo.setWidth 32)) &&& ADDRESS_MASK', None, '{ i := 5, m := 1 }'),
]
out = '''/-
  C20, memory MOV forms (generated by tools/gen_c20x.py from the proof scripts of C01M / C01N / C01L / C01P / C08D / C08W / C08L / C08X / C07S) — the charge of
  each form is the manual's mix: its fetch cycles looked up at the instruction's own address, its data cycles (kind L
  for a byte, M for a word / each half of a long) looked up AT THE OPERAND'S EFFECTIVE ADDRESS, plus the internal
  states of the post-increment / pre-decrement forms — all with the bus settings of the state the instruction leaves
  (a store into the bus controller is charged at the new settings, as the code does).
-/
import H8.Props.C01L
import H8.Props.C01P
import H8.Props.C08L
import H8.Props.C08X
import H8.Props.C07S
import H8.Props.C02I
import H8.Props.C20R
import H8.Props.C20M
set_option linter.unusedSimpArgs false
namespace H8.Props.C20X
open H8 H8.Lemmas H8.Props H8.Props.C01M H8.Props.C01N H8.Props.C01L H8.Props.C01P H8.Props.C08D H8.Props.C08W H8.Props.C08L H8.Props.C08X H8.Props.C07S

/-- `c` = `costI i` + the data cycles `n` × kind `k` at address `a` (+ `extra` internal states), looked up in `s` -/
def ChargedAt (i : BitVec 8) (k : Kind) (n : BitVec 8) (a : BitVec 32) (extra : BitVec 8) (s : Cpu) (c : BitVec 8) : Prop :=
  ∃ c1 c2, costI i s = .ok c1 s ∧ calcStateWithAddr k n a s = .ok c2 s ∧ c = c1 + c2 + extra

set_option hygiene false in
local macro "cost2_keep" : tactic => `(tactic|
  (split at h
   case h_2 => simp at h
   case h_3 => simp at h
   rename_i c1 sa h1; have e1 := costI_state h1; subst e1
   split at h
   case h_2 => simp at h
   case h_3 => simp at h
   rename_i c2 sb2 h2; have e2 := calcStateWithAddr_state h2; subst e2
   injection h with hc hs; subst hs
   exact ⟨c1, c2, h1, h2, by rw [← hc]; simp⟩))

set_option hygiene false in
local macro "cost3_keep" : tactic => `(tactic|
  (split at h
   case h_2 => simp at h
   case h_3 => simp at h
   rename_i c1 sa h1; have e1 := costI_state h1; subst e1
   split at h
   case h_2 => simp at h
   case h_3 => simp at h
   rename_i c2 sb2 h2; have e2 := calcStateWithAddr_state h2; subst e2
   split at h
   case h_2 => simp at h
   case h_3 => simp at h
   rename_i c3 sb3 h3; have e3 := calcState_state h3; subst e3
   have hn := C20M.calcState_N _ _ _ _ h3; subst hn
   injection h with hc hs; subst hs
   exact ⟨c1, c2, h1, h2, hc.symm⟩))

'''
for mod, name, i, kind, n, addr, extra, mix in T:
    src = open(os.path.join(SRC, mod + '.lean')).read()
    m = re.search(r'^theorem %s \(.*?\n(?=\n|/--|theorem |end )' % name, src, re.S | re.M)
    if not m:
        raise SystemExit('theorem %s not found in %s' % (name, mod))
    block = m.group(0)
    head, rest = block.split(' :\n', 1)
    concl, proof = rest.split(' := by\n', 1)
    macro = 'movcost3_subst' if extra is not None else 'movcost_subst'
    if macro not in proof:
        raise SystemExit('%s: cost macro %s not found' % (name, macro))
    prefix = proof[:proof.index('  ' + macro)]
    # the Spec instruction is not needed for the charge: drop hi (and i) from the signature and the script
    head = re.sub(r"\(hi'? : Spec\.instrOf [^\n]*? = some i\) ?", '', head)
    head = re.sub(r"\(hi'? : Spec\.instrOf [^\n]*? = some \(\.stcW ea\)\) ?", '', head).replace(' (ea : Spec.EA)', '')
    head = re.sub(r'\n\s*\n', '\n', head)
    head = head.replace(' (i : Spec.Instr)', '')
    prefix = re.sub(r"  rw \[Spec\.instrOf_\w+\] at hi'?; simp only \[Option\.some\.injEq\] at hi'?; subst hi'?\n", '', prefix)
    prefix = re.sub(r"  rw \[Spec\.instrOf_\w+\] at hi'?; simp only \[Option\.some\.injEq, Spec\.Instr\.stcW\.injEq\] at hi'?; subst hi'?\n", '', prefix)
    ex = extra if extra is not None else 0
    out += '%s :\n    ChargedAt %d %s %d (%s) %d st\' c ∧ Spec.Form.mix .%s = %s := by\n  refine ⟨?_, rfl⟩\n%s  %s\n\n' % (
        head.replace('theorem ' + name, 'theorem cost_' + name), i, kind, n, addr, ex, name, mix, prefix,
        'cost3_keep' if extra is not None else 'cost2_keep')

# ---- register forms with operand words (C02I: W / L immediates): the charge is the fetch cycles only, looked up in a state
# with the operating PC and bus of the state after the operand fetch
T2 = [('C02I', n + '_W_IMM', 2, 's1') for n in ('ADD', 'SUB', 'CMP', 'MOV', 'AND', 'OR', 'XOR')] + \
     [('C02I', n + '_L_IMM', 3, 's2') for n in ('ADD', 'SUB', 'CMP', 'MOV', 'AND', 'OR', 'XOR')]
out += "/-! ### W / L immediate forms (`C02I`): two / three fetch cycles, nothing else -/\n\n"
for mod, name, k, sN in T2:
    src = open(os.path.join(SRC, mod + '.lean')).read()
    m = re.search(r'^theorem %s \(.*?\n(?=\n|/--|theorem |end )' % name, src, re.S | re.M)
    if not m:
        raise SystemExit('theorem %s not found in %s' % (name, mod))
    block = m.group(0)
    head, rest = block.split(' :\n', 1)
    concl, proof = rest.split(' := by\n', 1)
    cut = '  have := costI_state h; subst this\n'
    if cut not in proof:
        raise SystemExit('%s: cost step not found' % name)
    prefix = proof[:proof.index(cut)]
    head = re.sub(r"\(hi'? : Spec\.instrOf [^\n]*? = some i\) ?", '', head)
    head = re.sub(r'\n\s*\n', '\n', head).replace(' (i : Spec.Instr)', '')
    prefix = re.sub(r"  rw \[Spec\.instrOf_\w+\] at hi'?; simp only \[Option\.some\.injEq\] at hi'?; subst hi'?\n", '', prefix)
    prefix = re.sub(r'(?<![\w.])(fetch32_ok|fetch_keeps|x16|x32)\b', r'C02I.\1', prefix)
    out += '%s :\n    C20R.ChargedI %d %s c ∧ Spec.Form.mix .%s = { i := %d } := by\n  refine ⟨?_, rfl⟩\n%s  have hs := costI_state h; subst hs\n  exact ⟨_, h, rfl, rfl⟩\n\n' % (
        head.replace('theorem ' + name, 'theorem cost_' + name), k, sN, name, k, prefix)
out += 'end H8.Props.C20X\n'
open(OUT, 'w').write(out)
print('wrote', OUT, len(T) + len(T2), 'theorems')
