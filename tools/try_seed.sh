#!/bin/sh
# try_seed.sh <patch.diff> <property>...: apply a seeded change to /repo, run the quick checks, undo it.
# The evidence files are put back afterwards: committed evidence must come from the unchanged tree.
patch="$1"; shift
cd /repo || exit 2
git apply "$patch" || { echo "patch does not apply"; exit 2; }
cd /verif
rm -rf /tmp/evidence.keep && cp -r evidence /tmp/evidence.keep
for p in "$@"; do
  VERIF_NO_SEARCH=${VERIF_NO_SEARCH:-} ./check "$p" quick 2>&1 | grep -E "VIOLATION|KNOWN|quick:" | cut -c1-300
done
rm -rf evidence && mv /tmp/evidence.keep evidence
# the replays of a seeded run are scratch output (kept until the next seeded run, never committed)
cd /repo && git checkout -- . && git status --short | head -3
