#!/bin/sh
# regress_seeds.sh [pattern]: apply every seeded change in turn (never committed to /repo), run the quick check of the
# property it breaks, undo it; prints one line per seed. The evidence of the unchanged tree is put back by try_seed.sh.
cd /verif || exit 2
export VERIF_NO_SEARCH=1
for d in seeded/C${1:-}*; do
  id=$(basename "$d"); prop=${id%%-*}
  [ -f "$d/patch.diff" ] || continue
  r=$(tools/try_seed.sh "/verif/$d/patch.diff" "$prop" 2>&1 | grep -E "VIOLATION|quick:" | tr '\n' ' ' | cut -c1-260)
  case "$r" in
    *"VIOLATION property=$prop replay="*"no-failing-input-found"*) echo "$id NFI  $r";;
    *"VIOLATION property=$prop replay="*) echo "$id DETECTED";;
    *) echo "$id MISSED  $r";;
  esac
done
