#!/bin/sh
# update_genref.sh: refresh lean/GenRef/*.lean.ref — the reference copy of the translation (lean/H8/Gen) of the UNCHANGED tree.
# check.py builds the driver from it, for the failing-input search only, when a changed source regenerates into something
# the model no longer compiles against. Run after tools/rs2lean.py on a clean /repo, before committing.
cd /verif/lean || exit 2
[ -z "$(git -C /repo status --short)" ] || { echo "/repo is not clean"; exit 1; }
mkdir -p GenRef
for f in H8/Gen/*.lean; do cp "$f" "GenRef/$(basename "$f").ref"; done
ls GenRef
