#!/usr/bin/env python3
"""survey.py <prop> <mode> [tier]: run the harness for a property and summarise disagreements by form."""
import sys, os, json, collections
sys.path.insert(0, os.path.join(os.path.dirname(os.path.abspath(__file__)), '..'))
import check
pid, mode = sys.argv[1], sys.argv[2]
tier = sys.argv[3] if len(sys.argv) > 3 else 'quick'
known = [k['id'] for k in check.load_known() if k['property'] == pid and k.get('status') == 'open']
log = open('/dev/null', 'w')
r = check.run_mode({'id': pid}, {'mode': mode, 'shards': 16}, tier, int(os.environ.get('VERIF_SEED', '1')), log, known)
print({k: r[k] for k in ('cases', 'in_domain', 'agree', 'corr_mismatch', 'oracle_viol', 'known', 'distinct_nontrivial', 'failed_shards')})
def form_of(s):
    try:
        return s['lean'].split(' | ')[1].split(' ')[2]
    except Exception:
        return '?'
for name, key in (('ORACLE', 'viol_samples'), ('CORR', 'corr_samples')):
    c = collections.Counter(form_of(s) for s in r[key])
    print(name, dict(c))
    seen = set()
    for s in r[key]:
        f = form_of(s)
        if f in seen:
            continue
        seen.add(f)
        print(' ', f, '|', s['case'][:170])
        print('      ', s['why'][:260])
print('dist forms:', len(r['dist']))
