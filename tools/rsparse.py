#!/usr/bin/env python3
"""A small parser for the subset of Rust used by /repo/src (function bodies only).

It is deliberately strict: anything outside the subset raises ParseError, and the
caller then reports the translator obligation for that function as undischarged.

AST (tuples):
  ('num', int, suffix|None)          ('str', text)            ('path', [segments])
  ('call', f, [args])                ('mcall', recv, name, [args])
  ('field', recv, name)              ('index', recv, idx)
  ('unary', op, e)                   ('binary', op, l, r)     ('cast', e, type)
  ('try', e)                         ('if', cond, then, else|None)
  ('iflet', pat, e, then, else|None) ('match', scrut, [(pats, guard, body)])
  ('block', [stmts], tail|None)      ('macro', name, text)
  ('tuple', [es])                    ('closure', params, body)
  ('assign', op, lhs, rhs)           ('range', lo, hi, inclusive)
  ('ref', e)                         ('return', e|None)       ('break',) ('continue',)
  ('loop', body) ('while', cond, body) ('for', pat, iter, body)
statements: ('let', pat, type|None, expr) | ('expr', e) | ('item', text)
patterns:   ('pnum', int) | ('prange', lo, hi) | ('pwild',) | ('pident', name) |
            ('ppath', [segs]) | ('ptuple', [pats]) | ('pstr', s)
"""
import re

class ParseError(Exception):
    pass

TOKEN_RE = re.compile(r"""
    (?P<ws>\s+)
  | (?P<lcomment>//[^\n]*)
  | (?P<bcomment>/\*.*?\*/)
  | (?P<str>b?"(?:\\.|[^"\\])*")
  | (?P<char>b?'(?:\\.|[^'\\])')
  | (?P<life>'[A-Za-z_][A-Za-z0-9_]*)
  | (?P<num>0x[0-9a-fA-F_]+(?:[iu](?:8|16|32|64|size))?|0b[01_]+(?:[iu](?:8|16|32|64|size))?|[0-9][0-9_]*(?:\.[0-9]+)?(?:[iu](?:8|16|32|64|size)|f64|f32)?)
  | (?P<id>[A-Za-z_][A-Za-z0-9_]*!?)
  | (?P<op>\.\.=|<<=|>>=|\.\.|=>|::|->|==|!=|<=|>=|&&|\|\||<<|>>|\+=|-=|\*=|/=|\|=|&=|\^=|[-+*/%&|^!<>=.,;:(){}\[\]#?@])
""", re.X | re.S)


def tokenize(src):
    toks = []
    pos = 0
    while pos < len(src):
        m = TOKEN_RE.match(src, pos)
        if not m:
            raise ParseError("cannot tokenize at %r" % src[pos:pos + 30])
        pos = m.end()
        k = m.lastgroup
        if k in ('ws', 'lcomment', 'bcomment'):
            continue
        toks.append((k, m.group(k)))
    return toks


def parse_num(text):
    m = re.match(r"^(0x[0-9a-fA-F_]+|0b[01_]+|[0-9][0-9_]*)((?:[iu](?:8|16|32|64|size))?)$", text)
    if not m:
        raise ParseError("unsupported number " + text)
    body = m.group(1).replace('_', '')
    return int(body, 0), (m.group(2) or None)


class P:
    def __init__(self, toks):
        self.t = toks
        self.i = 0

    def peek(self, k=0):
        return self.t[self.i + k] if self.i + k < len(self.t) else ('eof', '')

    def at(self, v):
        return self.peek()[1] == v and self.peek()[0] in ('op', 'id')

    def eat(self, v):
        if self.at(v):
            self.i += 1
            return True
        return False

    def expect(self, v):
        if not self.eat(v):
            raise ParseError("expected %r got %r (tok %d)" % (v, self.peek(), self.i))

    def ident(self):
        k, v = self.peek()
        if k != 'id':
            raise ParseError("expected identifier got %r" % (self.peek(),))
        self.i += 1
        return v

    # ---- types (kept as text) ----
    def type_(self):
        start = self.i
        depth = 0
        while True:
            k, v = self.peek()
            if k == 'eof':
                break
            if v in ('<', '(', '['):
                depth += 1
            elif v in ('>', ')', ']'):
                if depth == 0:
                    break
                depth -= 1
            elif v == '>>':
                if depth < 2:
                    break
                depth -= 2
            elif depth == 0 and v in (',', ';', '=', '{', '}', ')', '|', '=>'):
                break
            self.i += 1
        return ' '.join(x[1] for x in self.t[start:self.i])

    # ---- patterns ----
    def pattern(self):
        alts = [self.pattern1()]
        while self.eat('|'):
            alts.append(self.pattern1())
        return alts

    def pnumval(self):
        neg = self.eat('-')
        k, v = self.peek()
        if k == 'num':
            self.i += 1
            n, _ = parse_num(v)
            return -n if neg else n
        if k == 'id':
            # constant path
            segs = [self.ident()]
            while self.eat('::'):
                segs.append(self.ident())
            return ('const', segs)
        raise ParseError("bad pattern number %r" % (self.peek(),))

    def pattern1(self):
        k, v = self.peek()
        if k == 'num' or v == '-':
            lo = self.pnumval()
            if self.eat('..='):
                hi = self.pnumval()
                return ('prange', lo, hi)
            return ('pnum', lo)
        if k == 'str':
            self.i += 1
            return ('pstr', v)
        if v == '_':
            self.i += 1
            return ('pwild',)
        if v == '(':
            self.i += 1
            ps = []
            while not self.at(')'):
                ps.append(self.pattern1())
                if not self.eat(','):
                    break
            self.expect(')')
            return ('ptuple', ps)
        if v == 'mut':
            self.i += 1
            return ('pident', self.ident())
        if v == '&':
            self.i += 1
            return self.pattern1()
        if k == 'id':
            segs = [self.ident()]
            while self.eat('::'):
                segs.append(self.ident())
            if self.eat('..='):
                hi = self.pnumval()
                return ('prange', ('const', segs), hi)
            if self.at('('):
                self.i += 1
                ps = []
                while not self.at(')'):
                    ps.append(self.pattern1())
                    if not self.eat(','):
                        break
                self.expect(')')
                return ('pctor', segs, ps)
            if len(segs) == 1 and segs[0][0].islower():
                return ('pident', segs[0])
            return ('ppath', segs)
        raise ParseError("bad pattern %r" % (self.peek(),))

    # ---- blocks / statements ----
    def block(self):
        self.expect('{')
        stmts = []
        tail = None
        while not self.at('}'):
            if self.eat(';'):
                continue
            if self.at('#'):
                # attribute: skip `#[...]`
                self.i += 1
                self.skip_group('[', ']')
                continue
            if self.at('let'):
                self.i += 1
                pat = self.pattern1()
                ty = None
                if self.eat(':'):
                    ty = self.type_()
                e = None
                if self.eat('='):
                    e = self.expr()
                self.expect(';')
                stmts.append(('let', pat, ty, e))
                continue
            e = self.expr(stmt=True)
            if self.eat(';'):
                stmts.append(('expr', e))
            elif self.at('}'):
                tail = e
            elif e[0] in ('if', 'iflet', 'match', 'block', 'loop', 'while', 'for'):
                stmts.append(('expr', e))
            else:
                raise ParseError("expected ; or } after expression, got %r" % (self.peek(),))
        self.expect('}')
        return ('block', stmts, tail)

    def skip_group(self, o, c):
        self.expect(o)
        depth = 1
        start = self.i
        while depth:
            k, v = self.peek()
            if k == 'eof':
                raise ParseError("unbalanced group")
            if v == o:
                depth += 1
            elif v == c:
                depth -= 1
            self.i += 1
        return self.t[start:self.i - 1]

    # ---- expressions ----
    BIN = [
        (['||'], 1), (['&&'], 2),
        (['==', '!=', '<', '>', '<=', '>='], 3),
        (['|'], 4), (['^'], 5), (['&'], 6), (['<<', '>>'], 7),
        (['+', '-'], 8), (['*', '/', '%'], 9),
    ]
    PREC = {}
    for ops, p in BIN:
        for o in ops:
            PREC[o] = p

    def expr(self, stmt=False, nostruct=False):
        lhs = self.range_expr(nostruct)
        k, v = self.peek()
        if k == 'op' and v in ('=', '+=', '-=', '*=', '/=', '|=', '&=', '^=', '<<=', '>>='):
            self.i += 1
            rhs = self.expr(nostruct=nostruct)
            return ('assign', v, lhs, rhs)
        return lhs

    def range_expr(self, nostruct):
        lo = self.binary(0, nostruct)
        if self.at('..=') or self.at('..'):
            inc = self.peek()[1] == '..='
            self.i += 1
            hi = self.binary(0, nostruct)
            return ('range', lo, hi, inc)
        return lo

    def binary(self, minp, nostruct):
        lhs = self.unary(nostruct)
        while True:
            k, v = self.peek()
            if k == 'id' and v == 'as':
                self.i += 1
                ty = self.ident()
                while self.at('::'):
                    self.i += 1
                    ty += '::' + self.ident()
                lhs = ('cast', lhs, ty)
                continue
            if k == 'op' and v in self.PREC and self.PREC[v] > minp:
                # closure bars / match arm bars are never in operator position here
                p = self.PREC[v]
                self.i += 1
                rhs = self.binary(p, nostruct)
                lhs = ('binary', v, lhs, rhs)
                continue
            break
        return lhs

    def unary(self, nostruct):
        k, v = self.peek()
        if k == 'op' and v in ('!', '-', '*'):
            self.i += 1
            e = self.unary(nostruct)
            return ('unary', v, e)
        if k == 'op' and v == '&':
            self.i += 1
            self.eat('mut')
            e = self.unary(nostruct)
            return ('ref', e)
        if k == 'op' and v == '&&':
            self.i += 1
            e = self.unary(nostruct)
            return ('ref', ('ref', e))
        return self.postfix(nostruct)

    def args(self):
        self.expect('(')
        a = []
        while not self.at(')'):
            a.append(self.expr())
            if not self.eat(','):
                break
        self.expect(')')
        return a

    def postfix(self, nostruct):
        e = self.primary(nostruct)
        while True:
            k, v = self.peek()
            if v == '?' and k == 'op':
                self.i += 1
                e = ('try', e)
            elif v == '.' and k == 'op':
                self.i += 1
                k2, v2 = self.peek()
                if k2 == 'num':
                    self.i += 1
                    e = ('field', e, v2)
                    continue
                name = self.ident()
                if self.at('::'):
                    # turbofish
                    self.i += 1
                    self.skip_group('<', '>')
                if self.at('('):
                    e = ('mcall', e, name, self.args())
                else:
                    e = ('field', e, name)
            elif v == '(' and k == 'op':
                e = ('call', e, self.args())
            elif v == '[' and k == 'op':
                self.i += 1
                idx = self.expr()
                self.expect(']')
                e = ('index', e, idx)
            else:
                break
        return e

    def primary(self, nostruct):
        k, v = self.peek()
        if k == 'num':
            self.i += 1
            if '.' in v or v.endswith('f64'):
                return ('float', v)
            n, suf = parse_num(v)
            return ('num', n, suf)
        if k == 'str':
            self.i += 1
            return ('str', v)
        if k == 'char':
            self.i += 1
            return ('char', v)
        if v == '(':
            self.i += 1
            if self.eat(')'):
                return ('tuple', [])
            e = self.expr()
            if self.eat(','):
                es = [e]
                while not self.at(')'):
                    es.append(self.expr())
                    if not self.eat(','):
                        break
                self.expect(')')
                return ('tuple', es)
            self.expect(')')
            return ('paren', e)
        if v == '{':
            return self.block()
        if v == '|' or v == '||':
            # closure
            params = []
            if v == '||':
                self.i += 1
            else:
                self.i += 1
                while not self.at('|'):
                    params.append(self.pattern1())
                    if self.eat(':'):
                        self.type_()
                    if not self.eat(','):
                        break
                self.expect('|')
            if self.eat('->'):
                self.type_()
            body = self.expr()
            return ('closure', params, body)
        if k == 'id':
            if v == 'if':
                self.i += 1
                if self.at('let'):
                    self.i += 1
                    pat = self.pattern()
                    self.expect('=')
                    e = self.expr(nostruct=True)
                    then = self.block()
                    els = None
                    if self.eat('else'):
                        els = self.primary(False) if self.at('if') else self.block()
                    return ('iflet', pat, e, then, els)
                cond = self.expr(nostruct=True)
                then = self.block()
                els = None
                if self.eat('else'):
                    els = self.primary(False) if self.at('if') else self.block()
                return ('if', cond, then, els)
            if v == 'match':
                self.i += 1
                scrut = self.expr(nostruct=True)
                self.expect('{')
                arms = []
                while not self.at('}'):
                    pats = self.pattern()
                    guard = None
                    if self.eat('if'):
                        guard = self.expr(nostruct=True)
                    self.expect('=>')
                    body = self.expr()
                    self.eat(',')
                    arms.append((pats, guard, body))
                self.expect('}')
                return ('match', scrut, arms)
            if v == 'return':
                self.i += 1
                if self.at(';') or self.at('}') or self.at(','):
                    return ('return', None)
                return ('return', self.expr())
            if v == 'break':
                self.i += 1
                return ('break',)
            if v == 'continue':
                self.i += 1
                return ('continue',)
            if v == 'loop':
                self.i += 1
                return ('loop', self.block())
            if v == 'while':
                self.i += 1
                if self.at('let'):
                    self.i += 1
                    pat = self.pattern()
                    self.expect('=')
                    e = self.expr(nostruct=True)
                    return ('whilelet', pat, e, self.block())
                cond = self.expr(nostruct=True)
                return ('while', cond, self.block())
            if v == 'for':
                self.i += 1
                pat = self.pattern1()
                self.expect('in')
                it = self.expr(nostruct=True)
                return ('for', pat, it, self.block())
            if v == 'move':
                self.i += 1
                return self.primary(nostruct)
            if v.endswith('!'):
                self.i += 1
                o = self.peek()[1]
                c = {'(': ')', '[': ']', '{': '}'}[o]
                toks = self.skip_group(o, c)
                return ('macro', v[:-1], toks)
            # path
            segs = [self.ident()]
            while self.at('::'):
                self.i += 1
                if self.at('<'):
                    self.skip_group('<', '>')
                    continue
                segs.append(self.ident())
            if self.at('{') and not nostruct and segs[-1][0].isupper():
                raise ParseError("struct literal not supported: " + '::'.join(segs))
            return ('path', segs)
        raise ParseError("unexpected token %r (tok %d)" % (self.peek(), self.i))


FN_RE = re.compile(r"\bfn\s+([A-Za-z_][A-Za-z0-9_]*)\s*(?:<[^>{]*>)?\s*\(")


def find_functions(src):
    """Return {name: (params_text, ret_text, body_text)} for every fn in src (non-test part)."""
    cut = src.find('#[cfg(test)]\nmod tests')
    if cut >= 0:
        src = src[:cut]
    out = {}
    for m in FN_RE.finditer(src):
        name = m.group(1)
        i = m.end()
        depth = 1
        while depth and i < len(src):
            if src[i] == '(':
                depth += 1
            elif src[i] == ')':
                depth -= 1
            i += 1
        params = src[m.end():i - 1]
        j = src.find('{', i)
        semi = src.find(';', i)
        if j < 0 or (0 <= semi < j):
            continue
        ret = src[i:j].strip()
        if ret.startswith('->'):
            ret = ret[2:].strip()
        depth = 0
        k = j
        in_str = False
        while k < len(src):
            c = src[k]
            if in_str:
                if c == '\\':
                    k += 1
                elif c == '"':
                    in_str = False
            elif c == '"':
                in_str = True
            elif c == '/' and src[k:k + 2] == '//':
                k = src.find('\n', k)
                if k < 0:
                    break
                continue
            elif c == "'" and re.match(r"'(\\.|[^'\\])'", src[k:k + 4]):
                k += len(re.match(r"'(\\.|[^'\\])'", src[k:k + 4]).group(0)) - 1
            elif c == '{':
                depth += 1
            elif c == '}':
                depth -= 1
                if depth == 0:
                    break
            k += 1
        body = src[j:k + 1]
        out[name] = (params, ret, body)
    return out


def parse_params(params_text):
    ps = []
    depth = 0
    cur = ''
    for c in params_text:
        if c in '<([':
            depth += 1
        elif c in '>)]':
            depth -= 1
        if c == ',' and depth == 0:
            ps.append(cur)
            cur = ''
        else:
            cur += c
    if cur.strip():
        ps.append(cur)
    out = []
    for p in ps:
        p = p.strip()
        if p in ('&self', '&mut self', 'self', 'mut self'):
            out.append(('self', p))
            continue
        name, ty = p.split(':', 1)
        out.append((name.strip().replace('mut ', ''), ty.strip()))
    return out


def parse_body(body_text):
    p = P(tokenize(body_text))
    b = p.block()
    if p.peek()[0] != 'eof':
        raise ParseError("trailing tokens after body")
    return b


if __name__ == '__main__':
    import sys, glob, os
    ok = bad = 0
    root = sys.argv[1] if len(sys.argv) > 1 else '/repo/src'
    for f in sorted(glob.glob(root + '/**/*.rs', recursive=True)):
        src = open(f).read()
        for name, (params, ret, body) in find_functions(src).items():
            try:
                parse_body(body)
                ok += 1
            except ParseError as e:
                bad += 1
                print("FAIL %s::%s: %s" % (os.path.relpath(f, root), name, e))
    print("parsed", ok, "failed", bad)
