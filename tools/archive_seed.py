#!/usr/bin/env python3
"""archive_seed.py <ID> <suffix> <needs> <detected_by>: copy /tmp/mut/<ID>.out into seeded/<ID>-<suffix>/ with meta.json"""
import json, os, shutil, subprocess, sys
pid, suf, needs, det = sys.argv[1:5]
src = '/tmp/mut/%s.out' % (pid if suf == 'a' else pid + suf)
dst = '/verif/seeded/%s-%s' % (pid, suf)
os.makedirs(dst, exist_ok=True)
for f in ('patch.diff', 'demo.diff', 'notes.md'):
    if os.path.exists(os.path.join(src, f)):
        shutil.copy(os.path.join(src, f), dst)
base = subprocess.run(['git', '-C', '/repo', 'rev-parse', '--short', 'HEAD'], capture_output=True, text=True).stdout.strip()
json.dump({"id": "%s-%s" % (pid, suf), "breaks_property": pid, "base_commit": base, "needs_to_manifest": needs,
           "confirmed": "cargo test --offline in the agent's worktree: 226 existing tests pass, only the // DEMO test(s) fail with the change and pass without it (agent's run, notes.md); patch applied to /repo, checks run, then reverted",
           "detected_by": det, "written_by": "independent sub-agent given only the property text and a scratch worktree"},
          open(os.path.join(dst, 'meta.json'), 'w'), indent=1)
print(dst)
