#!/bin/sh
# Build the framework offline from files on disk: Gen from /repo/src, all Lean modules
# (theorems + driver), and the harness (release and overflow-checked profiles).
set -e
cd "$(dirname "$0")"
export CARGO_NET_OFFLINE=true
python3 tools/rs2lean.py
if [ -f tools/gen_isa.py ]; then python3 tools/gen_isa.py; fi
(cd lean && lake build H8 h8drv)
(cd harness && cargo build --offline --profile release && cargo build --offline --profile checked)
echo "setup done"
