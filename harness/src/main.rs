//! Correspondence / oracle harness for the Lean 4 verification of the H8/3069F emulator.
//! The emulator's real modules are compiled in through the symlinks in this directory.
//!
//! Every mode has three parts: `gen` produces self-contained case lines, `Exec::exec` runs one
//! case line on the real code and returns the implementation's canonical result line, `judge`
//! compares it with the Lean driver's reply (Model and Spec).  `replay` re-executes case lines.
#![allow(dead_code)]
mod bus;
mod cpu;
mod elf;
mod ioport;
mod memory;
mod modules;
mod registers;
mod setting;
mod socket;

mod isa;
mod m_bus;
mod m_cost;
mod m_elf;
mod m_run;
mod m_run_gen;
mod m_step;
mod util;

use util::*;

pub trait Mode {
    /// generate this shard's cases
    fn gen(&mut self, ctx: &Ctx, emit: &mut dyn FnMut(String));
    /// run one case on the implementation
    fn exec(&mut self, case: &str) -> String;
    /// compare; returns verdict, distribution key, non-trivial key
    fn judge(&self, ctx: &Ctx, case: &str, imp: &str, drv: &str) -> (Verdict, String, Option<u64>);
}

fn mode_for(name: &str) -> Option<Box<dyn Mode>> {
    match name {
        "cost" => Some(Box::new(m_cost::CostMode::new())),
        "step" => Some(Box::new(m_step::StepMode::new())),
        "elf" => Some(Box::new(m_elf::ElfMode::new())),
        "run" => Some(Box::new(m_run::RunMode::new())),
        "bin" => Some(Box::new(m_run::RunMode::new_bin())),
        "bus09" => Some(Box::new(m_bus::BusMode::new(9))),
        "bus16" => Some(Box::new(m_bus::BusMode::new(16))),
        "bus17" => Some(Box::new(m_bus::BusMode::new(17))),
        _ => None,
    }
}

fn main() {
    *setting::ENABLE_PRINT_OPCODE.write().unwrap() = false;
    *setting::ENABLE_PRINT_MESSAGES.write().unwrap() = false;
    *setting::ENABLE_WAIT_START.write().unwrap() = false;
    let args: Vec<String> = std::env::args().collect();
    let get = |k: &str, d: &str| -> String {
        for i in 1..args.len() {
            if args[i] == k && i + 1 < args.len() {
                return args[i + 1].clone();
            }
        }
        d.to_string()
    };
    if args.len() < 2 {
        eprintln!("usage: h8harness <mode>|replay|distinct --prop Cxx --tier quick|thorough --seed N --shard i --nshards n --out DIR --drv PATH [--replay FILE] [--known ids]");
        std::process::exit(2);
    }
    let mode = args[1].clone();
    if mode == "distinct" {
        println!("{}", util::distinct(&args[2..]));
        return;
    }
    let ctx = Ctx {
        prop: get("--prop", ""),
        tier: get("--tier", "quick"),
        seed: get("--seed", "1").parse().unwrap_or(1),
        shard: get("--shard", "0").parse().unwrap(),
        nshards: get("--nshards", "1").parse().unwrap(),
        out: std::path::PathBuf::from(get("--out", "/tmp/h8work")),
        drv: get("--drv", "/verif/lean/.lake/build/bin/h8drv"),
        replay: {
            let r = get("--replay", "");
            if r.is_empty() {
                None
            } else {
                Some(r)
            }
        },
        known: get("--known", "").split(',').filter(|s| !s.is_empty()).map(|s| s.to_string()).collect(),
    };
    // panics are expected outcomes in some modes; keep the default hook quiet
    if std::env::var("H8_PANIC_VERBOSE").is_err() {
        std::panic::set_hook(Box::new(|_| {}));
    }

    if mode == "replay" {
        let text = std::fs::read_to_string(ctx.replay.as_ref().expect("--replay FILE")).unwrap();
        let mut out = Out::new(&ctx.out);
        let mut lines = Vec::new();
        for line in text.lines().filter(|l| !l.trim().is_empty()) {
            let name = line.split(' ').next().unwrap();
            let mut m = mode_for(mode_of_case(name)).expect("unknown case kind");
            let imp = m.exec(line);
            out.emit(line, &imp);
            lines.push(name.to_string());
        }
        out.finish();
        run_driver(&ctx);
        let mut i = 0;
        for_each_case(&ctx.out, |case, imp, drv| {
            let m = mode_for(mode_of_case(&lines[i])).unwrap();
            let (v, _, _) = m.judge(&ctx, case, imp, drv);
            let vs = match v {
                Verdict::Out => "out-of-domain".to_string(),
                Verdict::Agree => "agree".to_string(),
                Verdict::Corr(d) => format!("CORRESPONDENCE-MISMATCH {}", d),
                Verdict::Oracle(d, k) => format!("ORACLE-VIOLATION {} known={:?}", d, k),
            };
            println!("case: {}\nimpl: {}\nlean: {}\nverdict: {}\n", case, imp, drv, vs);
            i += 1;
        });
        return;
    }

    let mut m = match mode_for(&mode) {
        Some(m) => m,
        None => {
            eprintln!("unknown mode {}", mode);
            std::process::exit(2);
        }
    };
    // corpus first (minimised past failures and known-finding witnesses), then generated cases
    let mut cases: Vec<String> = Vec::new();
    if ctx.shard == 0 {
        let corpus = format!("/verif/corpus/{}/{}.cases", ctx.prop, mode);
        if let Ok(t) = std::fs::read_to_string(&corpus) {
            for l in t.lines().filter(|l| !l.trim().is_empty() && !l.starts_with('#')) {
                cases.push(l.to_string());
            }
        }
    }
    let mut out = Out::new(&ctx.out);
    for c in cases {
        let imp = m.exec(&c);
        out.emit(&c, &imp);
    }
    {
        // generation and execution are interleaved: a second instance of the mode generates
        let mut g = mode_for(&mode).unwrap();
        let mut emit = |c: String| {
            let imp = m.exec(&c);
            out.emit(&c, &imp);
        };
        g.gen(&ctx, &mut emit);
    }
    out.finish();
    run_driver(&ctx);
    let mut t = Tally::default();
    for_each_case(&ctx.out, |case, imp, drv| {
        let (v, key, nt) = m.judge(&ctx, case, imp, drv);
        t.add(case, imp, drv, v, &key, nt);
    });
    t.write(&ctx.out);
}

/// the harness mode that executes a case line starting with this word
fn mode_of_case(word: &str) -> &str {
    match word {
        "cost" => "cost",
        "sweep09" => "bus09",
        w => w,
    }
}
