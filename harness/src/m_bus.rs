//! Histories on the real `Bus` (+ timer, interrupt controller): C09, C16, C17.
//! case:  bus09|bus16|bus17 <op>;<op>;...      ops (hex, except t/s decimal-free hex too):
//!   w<addr>:<val>  Bus::write      r<addr>  Bus::read        p<port>:<val>  Bus::write_port
//!   t<n>           update_modules(n)        s<n>     set cpu_state_sum
//! impl: <per-op results joined by ;> msgs=<m|m|..> pend=<v,v,..> mem=<store:index:val,...>
//! sweep case: sweep09 <lo> <hi>   impl: run-length classification of [lo,hi)
use crate::cpu::Cpu;
use crate::util::*;
use crate::Mode;

pub struct BusMode {
    which: u8,
}

impl BusMode {
    pub fn new(which: u8) -> Self {
        BusMode { which }
    }
}

fn h(s: &str) -> u32 {
    u32::from_str_radix(s, 16).unwrap_or(0)
}

pub fn dump_stores(cpu: &Cpu) -> String {
    fn push(out: &mut String, tag: char, data: &[u8]) {
        let mut i = 0;
        while i < data.len() {
            if i + 8 <= data.len() && data[i..i + 8] == [0u8; 8] {
                i += 8;
                continue;
            }
            if data[i] != 0 {
                if !out.is_empty() {
                    out.push(',');
                }
                out.push_str(&format!("{}:{:x}:{:x}", tag, i, data[i]));
            }
            i += 1;
        }
    }
    let mut out = String::new();
    push(&mut out, 'v', &cpu.bus.exception_handling_vector);
    push(&mut out, 'd', &cpu.bus.dram);
    push(&mut out, 'r', &cpu.bus.memory[..]);
    push(&mut out, 'i', &cpu.bus.io_registrs1);
    push(&mut out, 'j', &cpu.bus.io_registrs2);
    out
}

pub fn exec_history(ops: &str) -> String {
    let mut cpu = Cpu::new();
    let _ = crate::cpu::verif_hooks::take_captured();
    let mut res: Vec<String> = Vec::new();
    for op in ops.split(';').filter(|s| !s.is_empty()) {
        let (k, rest) = op.split_at(1);
        let r = std::panic::catch_unwind(std::panic::AssertUnwindSafe(|| -> String {
            match k {
                "w" => {
                    let mut it = rest.split(':');
                    let a = h(it.next().unwrap_or("0"));
                    let v = h(it.next().unwrap_or("0")) as u8;
                    match cpu.bus.write(a, v) {
                        Ok(()) => "k".into(),
                        Err(_) => "e".into(),
                    }
                }
                "r" => match cpu.bus.read(h(rest)) {
                    Ok(v) => format!("{:x}", v),
                    Err(_) => "e".into(),
                },
                "p" => {
                    let mut it = rest.split(':');
                    let p = h(it.next().unwrap_or("0")) as u8;
                    let v = h(it.next().unwrap_or("0")) as u8;
                    cpu.bus.write_port(p, v);
                    "k".into()
                }
                "t" => match cpu.vh_update_modules(h(rest) as u8) {
                    Ok(()) => "k".into(),
                    Err(_) => "e".into(),
                },
                "s" => {
                    cpu.vh_set_state_sum(h(rest) as usize);
                    "k".into()
                }
                _ => "bad".into(),
            }
        }));
        res.push(r.unwrap_or_else(|_| "P".into()));
    }
    let msgs = crate::cpu::verif_hooks::take_captured().join("|");
    let pend: Vec<String> = cpu.vh_pending().iter().map(|v| format!("{:x}", v)).collect();
    format!("{} msgs={} pend={} mem={}", res.join(";"), msgs, pend.join(","), dump_stores(&cpu))
}

fn exec_sweep(lo: u32, hi: u32) -> String {
    let mut cpu = Cpu::new();
    let mut runs: Vec<String> = Vec::new();
    let mut last = ' ';
    let mut a = lo as u64;
    while a < hi as u64 {
        let addr = a as u32;
        let tag = (addr ^ (addr >> 8) ^ (addr >> 16) ^ 0x5a) as u8 | 1;
        let r = std::panic::catch_unwind(std::panic::AssertUnwindSafe(|| {
            let r0 = cpu.bus.read(addr).is_ok();
            let w = cpu.bus.write(addr, tag).is_ok();
            let rb = cpu.bus.read(addr);
            match (r0, w, rb) {
                (true, true, Ok(v)) if v == tag => 'A',
                (true, true, Ok(_)) => 'B',
                (false, false, Err(_)) => 'N',
                _ => 'X',
            }
        }));
        let c = r.unwrap_or('P');
        if c != last {
            runs.push(format!("{:x}:{}", addr, c));
            last = c;
        }
        a += 1;
    }
    let _ = crate::cpu::verif_hooks::take_captured();
    runs.join(",")
}

const PLAIN_EDGES: [u32; 12] = [0x0, 0xff, 0x400000, 0x5fffff, 0xfee00b, 0xfee0ff, 0xffbf20, 0xffff1f, 0xffff20, 0xffffcf, 0xffffdb, 0xffffe9];
const HOLES: [u32; 12] = [0x100, 0x3fffff, 0x600000, 0xfedfff, 0xfee100, 0xffbf1f, 0xffffea, 0xffffff, 0x1000000, 0x1000010, 0x80000000, 0xffffffff];

fn gen_addr09(rng: &mut Rng) -> u32 {
    match rng.below(10) {
        0 => *rng.pick(&PLAIN_EDGES),
        1 => *rng.pick(&HOLES),
        2 => rng.range(0, 0xff) as u32,
        3 => rng.range(0x400000, 0x5fffff) as u32,
        4 => rng.range(0xffbf20, 0xffff1f) as u32,
        5 => rng.range(0xfee00b, 0xfee0ff) as u32,
        6 => {
            // io2 outside the port DR block
            let a = rng.range(0xffff20, 0xffffe9) as u32;
            if (0xffffd0..=0xffffda).contains(&a) {
                0xffffdb
            } else {
                a
            }
        }
        7 => (*rng.pick(&PLAIN_EDGES)).wrapping_add(rng.range(0, 8) as u32).wrapping_sub(4),
        8 => rng.u32() & 0xffffff,
        _ => rng.u32(),
    }
}

impl Mode for BusMode {
    fn gen(&mut self, ctx: &Ctx, emit: &mut dyn FnMut(String)) {
        let mut rng = ctx.rng(9 + self.which as u64);
        match self.which {
            9 => {
                // address-space sweep: thorough = all 2^24 addresses + a band above; quick = every region
                // boundary +-0x400 and a stratified sample of 64-byte windows
                if ctx.quick() {
                    let mut k = 0u64;
                    for &e in PLAIN_EDGES.iter().chain(HOLES.iter()).chain([0xfee000u32, 0xfee00a, 0xffffd0, 0xffffda].iter()) {
                        k += 1;
                        if ctx.mine(k) {
                            let lo = e.saturating_sub(0x400);
                            let hi = e.saturating_add(0x400);
                            emit(format!("sweep09 {:x} {:x}", lo, hi));
                        }
                    }
                    for _ in 0..(2048 / ctx.nshards) {
                        let lo = (rng.u32() & 0xffffff) & !0x3f;
                        emit(format!("sweep09 {:x} {:x}", lo, lo + 0x40));
                    }
                } else {
                    let chunk = 1u64 << 18;
                    let mut k = 0;
                    let mut lo = 0u64;
                    while lo < (1u64 << 24) + chunk {
                        k += 1;
                        if ctx.mine(k) {
                            emit(format!("sweep09 {:x} {:x}", lo, lo + chunk));
                        }
                        lo += chunk;
                    }
                    for top in [0x7fff_0000u64, 0xffff_0000u64, 0x8000_0000u64] {
                        k += 1;
                        if ctx.mine(k) {
                            emit(format!("sweep09 {:x} {:x}", top, top + 0xffff));
                        }
                    }
                }
                // histories of interleaved writes and reads
                let n = if ctx.quick() { 12_000 } else { 200_000 } / ctx.nshards;
                for _ in 0..n {
                    let len = rng.range(1, 64);
                    let mut pool: Vec<u32> = (0..rng.range(1, 6)).map(|_| gen_addr09(&mut rng)).collect();
                    let mut ops = Vec::new();
                    for _ in 0..len {
                        let a = if rng.chance(2, 3) {
                            *rng.pick(&pool)
                        } else {
                            let a = gen_addr09(&mut rng);
                            pool.push(a);
                            a
                        };
                        // neighbours, so that word/long style adjacency is exercised
                        let a = if rng.chance(1, 4) { a.wrapping_add(rng.range(0, 3) as u32) } else { a };
                        if rng.chance(1, 2) {
                            ops.push(format!("w{:x}:{:x}", a, rng.u8()));
                        } else {
                            ops.push(format!("r{:x}", a));
                        }
                    }
                    emit(format!("bus09 {}", ops.join(";")));
                }
            }
            _ => {}
        }
    }

    fn exec(&mut self, case: &str) -> String {
        let mut it = case.splitn(2, ' ');
        let word = it.next().unwrap_or("");
        let rest = it.next().unwrap_or("");
        if word.starts_with("sweep") {
            let f: Vec<&str> = rest.split(' ').collect();
            return exec_sweep(h(f[0]), h(f.get(1).copied().unwrap_or("0")));
        }
        exec_history(rest)
    }

    fn judge(&self, _ctx: &Ctx, case: &str, imp: &str, drv: &str) -> (Verdict, String, Option<u64>) {
        // drv: "M <same format as impl> | S <spec view> dom=<0|1>"
        let (m, s) = match drv.split_once(" | ") {
            Some((m, s)) => (m.trim_start_matches("M ").to_string(), s.trim_start_matches("S ").to_string()),
            None => (drv.to_string(), String::new()),
        };
        let word = case.split(' ').next().unwrap_or("");
        let dom = field(&s, "dom") == Some("1");
        if word == "sweep09" {
            let key = "sweep".to_string();
            let sv = s.split(' ').next().unwrap_or("");
            let oracle_ok = sweep_matches(imp, sv);
            let v = if !oracle_ok {
                Verdict::Oracle(format!("address classification differs from the memory map: impl {} spec {}", imp, sv), None)
            } else if imp != m {
                Verdict::Corr(format!("impl {} model {}", imp, m))
            } else {
                Verdict::Agree
            };
            return (v, key, Some(fnv(case)));
        }
        let nops = case.matches(';').count() + 1;
        let key = format!("{} len<={}", word, ((nops + 15) / 16) * 16);
        // the spec view for bus09: per-op results and final memory by address
        let imp_ops = imp.split(' ').next().unwrap_or("");
        let spec_ops = s.split(' ').next().unwrap_or("");
        let v = if !dom {
            if imp != m {
                Verdict::Corr(format!("impl [{}] model [{}]", imp, m))
            } else {
                Verdict::Out
            }
        } else {
            let mut why = String::new();
            if imp_ops != spec_ops {
                why = format!("per-op results: impl {} spec {}", imp_ops, spec_ops);
            } else if word == "bus09" {
                let im = mem_by_addr(field(imp, "mem").unwrap_or(""));
                let sm = field(&s, "mem").unwrap_or("").to_string();
                if im != sm {
                    why = format!("final memory: impl {} spec {}", im, sm);
                }
            }
            if !why.is_empty() {
                Verdict::Oracle(why, None)
            } else if imp != m {
                Verdict::Corr(format!("impl [{}] model [{}]", imp, m))
            } else {
                Verdict::Agree
            }
        };
        // non-trivial: the history contains a write that succeeds and a later read of the same address
        let nt = if dom && imp_ops.contains('k') { Some(fnv(case)) } else { None };
        (v, key, nt)
    }
}

/// impl store dump -> "addr:val,..." sorted by address, using the property's region bases
fn mem_by_addr(dump: &str) -> String {
    let mut v: Vec<(u32, u32)> = Vec::new();
    for e in dump.split(',').filter(|e| !e.is_empty()) {
        let f: Vec<&str> = e.split(':').collect();
        if f.len() != 3 {
            continue;
        }
        let base = match f[0] {
            "v" => 0x0,
            "d" => 0x400000,
            "r" => 0xffbf20,
            "i" => 0xfee000,
            _ => 0xffff20,
        };
        v.push((base + h(f[1]), h(f[2])));
    }
    v.sort();
    v.iter().map(|(a, b)| format!("{:x}:{:x}", a, b)).collect::<Vec<_>>().join(",")
}

/// every impl run must carry the spec's class over its whole extent ('?' in the spec = unconstrained)
fn sweep_matches(imp: &str, spec: &str) -> bool {
    fn parse(s: &str) -> Vec<(u64, char)> {
        s.split(',')
            .filter(|e| !e.is_empty())
            .filter_map(|e| {
                let (a, c) = e.split_once(':')?;
                Some((u64::from_str_radix(a, 16).ok()?, c.chars().next()?))
            })
            .collect()
    }
    let a = parse(imp);
    let b = parse(spec);
    if a.is_empty() || b.is_empty() || a[0].0 != b[0].0 {
        return a.is_empty() && b.is_empty();
    }
    // merge the boundaries
    let mut pts: Vec<u64> = a.iter().map(|x| x.0).chain(b.iter().map(|x| x.0)).collect();
    pts.sort();
    pts.dedup();
    let class_at = |v: &Vec<(u64, char)>, p: u64| -> char {
        let mut c = ' ';
        for &(s, k) in v {
            if s <= p {
                c = k
            } else {
                break;
            }
        }
        c
    };
    for p in pts {
        let (ci, cs) = (class_at(&a, p), class_at(&b, p));
        if cs != '?' && ci != cs {
            return false;
        }
    }
    true
}
