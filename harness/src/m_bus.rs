//! Histories on the real `Bus` (+ timer, interrupt controller): C09, C16, C17.
//! case:  bus09|bus16|bus17 <op>;<op>;...      ops (hex, except t/s decimal-free hex too):
//!   w<addr>:<val>  Bus::write      r<addr>  Bus::read        p<port>:<val>  Bus::write_port
//!   t<n>           update_modules(n)        s<n>     set cpu_state_sum
//! impl: <per-op results joined by ;> msgs=<m|m|..> pend=<v,v,..> mem=<store:index:val,...>
//! sweep case: sweep09 <lo> <hi>   impl: run-length classification of [lo,hi)
use crate::cpu::Cpu;
use crate::util::*;
use crate::Mode;

pub struct BusMode {
    which: u8,
}

impl BusMode {
    pub fn new(which: u8) -> Self {
        BusMode { which }
    }
}

fn h(s: &str) -> u32 {
    u32::from_str_radix(s, 16).unwrap_or(0)
}

pub fn dump_stores(cpu: &Cpu) -> String {
    fn push(out: &mut String, tag: char, data: &[u8]) {
        let mut i = 0;
        while i < data.len() {
            if i + 8 <= data.len() && data[i..i + 8] == [0u8; 8] {
                i += 8;
                continue;
            }
            if data[i] != 0 {
                if !out.is_empty() {
                    out.push(',');
                }
                out.push_str(&format!("{}:{:x}:{:x}", tag, i, data[i]));
            }
            i += 1;
        }
    }
    let mut out = String::new();
    push(&mut out, 'v', &cpu.bus.exception_handling_vector);
    push(&mut out, 'd', &cpu.bus.dram);
    push(&mut out, 'r', &cpu.bus.memory[..]);
    push(&mut out, 'i', &cpu.bus.io_registrs1);
    push(&mut out, 'j', &cpu.bus.io_registrs2);
    out
}

pub fn exec_history(ops: &str) -> String {
    let mut cpu = Cpu::new();
    let _ = crate::cpu::verif_hooks::take_captured();
    let mut res: Vec<String> = Vec::new();
    for op in ops.split(';').filter(|s| !s.is_empty()) {
        let (k, rest) = op.split_at(1);
        let r = std::panic::catch_unwind(std::panic::AssertUnwindSafe(|| -> String {
            match k {
                "w" => {
                    let mut it = rest.split(':');
                    let a = h(it.next().unwrap_or("0"));
                    let v = h(it.next().unwrap_or("0")) as u8;
                    match cpu.bus.write(a, v) {
                        Ok(()) => "k".into(),
                        Err(_) => "e".into(),
                    }
                }
                "r" => match cpu.bus.read(h(rest)) {
                    Ok(v) => format!("{:x}", v),
                    Err(_) => "e".into(),
                },
                // word / long accesses through the CPU's helpers (big-endian composition of byte accesses)
                "R" => match cpu.vh_read_w(h(rest)) {
                    Ok(v) => format!("{:x}", v),
                    Err(_) => "e".into(),
                },
                "L" => match cpu.vh_read_l(h(rest)) {
                    Ok(v) => format!("{:x}", v),
                    Err(_) => "e".into(),
                },
                "W" => {
                    let mut it = rest.split(':');
                    let a = h(it.next().unwrap_or("0"));
                    let v = h(it.next().unwrap_or("0")) as u16;
                    match cpu.vh_write_w(a, v) {
                        Ok(()) => "k".into(),
                        Err(_) => "e".into(),
                    }
                }
                "M" => {
                    let mut it = rest.split(':');
                    let a = h(it.next().unwrap_or("0"));
                    let v = h(it.next().unwrap_or("0"));
                    match cpu.vh_write_l(a, v) {
                        Ok(()) => "k".into(),
                        Err(_) => "e".into(),
                    }
                }
                "p" => {
                    let mut it = rest.split(':');
                    let p = h(it.next().unwrap_or("0")) as u8;
                    let v = h(it.next().unwrap_or("0")) as u8;
                    cpu.bus.write_port(p, v);
                    "k".into()
                }
                "t" => match cpu.vh_update_modules(h(rest) as u16) {
                    Ok(()) => "k".into(),
                    Err(_) => "e".into(),
                },
                "s" => {
                    cpu.vh_set_state_sum(u64::from_str_radix(rest, 16).unwrap_or(0) as usize);
                    "k".into()
                }
                _ => "bad".into(),
            }
        }));
        res.push(r.unwrap_or_else(|_| "P".into()));
    }
    let msgs = crate::cpu::verif_hooks::take_captured().join("|");
    let pend: Vec<String> = cpu.vh_pending().iter().map(|v| format!("{:x}", v)).collect();
    format!("{} msgs={} pend={} mem={}", res.join(";"), msgs, pend.join(","), dump_stores(&cpu))
}

fn exec_sweep(lo: u32, hi: u32) -> String {
    let mut cpu = Cpu::new();
    let mut runs: Vec<String> = Vec::new();
    let mut last = ' ';
    let mut a = lo as u64;
    while a < hi as u64 {
        let addr = a as u32;
        let tag = (addr ^ (addr >> 8) ^ (addr >> 16) ^ 0x5a) as u8 | 1;
        let r = std::panic::catch_unwind(std::panic::AssertUnwindSafe(|| {
            let r0 = cpu.bus.read(addr).is_ok();
            let w = cpu.bus.write(addr, tag).is_ok();
            let rb = cpu.bus.read(addr);
            match (r0, w, rb) {
                (true, true, Ok(v)) if v == tag => 'A',
                (true, true, Ok(_)) => 'B',
                (false, false, Err(_)) => 'N',
                _ => 'X',
            }
        }));
        let c = r.unwrap_or('P');
        if c != last {
            runs.push(format!("{:x}:{}", addr, c));
            last = c;
        }
        a += 1;
    }
    let _ = crate::cpu::verif_hooks::take_captured();
    runs.join(",")
}

const PLAIN_EDGES: [u32; 12] = [0x0, 0xff, 0x400000, 0x5fffff, 0xfee00b, 0xfee0ff, 0xffbf20, 0xffff1f, 0xffff20, 0xffffcf, 0xffffdb, 0xffffe9];
const HOLES: [u32; 12] = [0x100, 0x3fffff, 0x600000, 0xfedfff, 0xfee100, 0xffbf1f, 0xffffea, 0xffffff, 0x1000000, 0x1000010, 0x80000000, 0xffffffff];

fn gen_addr09(rng: &mut Rng) -> u32 {
    match rng.below(10) {
        0 => *rng.pick(&PLAIN_EDGES),
        1 => *rng.pick(&HOLES),
        2 => rng.range(0, 0xff) as u32,
        3 => rng.range(0x400000, 0x5fffff) as u32,
        4 => rng.range(0xffbf20, 0xffff1f) as u32,
        5 => rng.range(0xfee00b, 0xfee0ff) as u32,
        6 => {
            // io2 outside the port DR block
            let a = rng.range(0xffff20, 0xffffe9) as u32;
            if (0xffffd0..=0xffffda).contains(&a) {
                0xffffdb
            } else {
                a
            }
        }
        7 => (*rng.pick(&PLAIN_EDGES)).wrapping_add(rng.range(0, 8) as u32).wrapping_sub(4),
        8 => {
            if rng.chance(1, 2) {
                rng.u32() & 0xffffff
            } else {
                // an address constant of the emulator's current source text, or a neighbour
                crate::util::source_number(rng) as u32
            }
        }
        _ => rng.u32(),
    }
}

impl Mode for BusMode {
    fn gen(&mut self, ctx: &Ctx, emit: &mut dyn FnMut(String)) {
        let mut rng = ctx.rng(9 + self.which as u64);
        match self.which {
            9 => {
                // address-space sweep: thorough = all 2^24 addresses + a band above; quick = every region
                // boundary +-0x400 and a stratified sample of 64-byte windows
                if ctx.quick() {
                    let mut k = 0u64;
                    for &e in PLAIN_EDGES.iter().chain(HOLES.iter()).chain([0xfee000u32, 0xfee00a, 0xffffd0, 0xffffda].iter()) {
                        k += 1;
                        if ctx.mine(k) {
                            let lo = e.saturating_sub(0x400);
                            let hi = e.saturating_add(0x400);
                            emit(format!("sweep09 {:x} {:x}", lo, hi));
                        }
                    }
                    for _ in 0..(2048 / ctx.nshards) {
                        let lo = (rng.u32() & 0xffffff) & !0x3f;
                        emit(format!("sweep09 {:x} {:x}", lo, lo + 0x40));
                    }
                } else {
                    let chunk = 1u64 << 18;
                    let mut k = 0;
                    let mut lo = 0u64;
                    while lo < (1u64 << 24) + chunk {
                        k += 1;
                        if ctx.mine(k) {
                            emit(format!("sweep09 {:x} {:x}", lo, lo + chunk));
                        }
                        lo += chunk;
                    }
                    for top in [0x7fff_0000u64, 0xffff_0000u64, 0x8000_0000u64] {
                        k += 1;
                        if ctx.mine(k) {
                            emit(format!("sweep09 {:x} {:x}", top, top + 0xffff));
                        }
                    }
                }
                // word / long accesses at every region boundary +-4, even and odd addresses
                if ctx.shard == 0 {
                    for &e in PLAIN_EDGES.iter().chain(HOLES.iter()) {
                        for d in -5i64..=5 {
                            let a = (e as i64 + d).max(0) as u32;
                            let v = rng.u32() | 0x01020304;
                            emit(format!("bus09 W{:x}:{:x};R{:x};r{:x};r{:x}", a, v & 0xffff, a, a, a.wrapping_add(1)));
                            emit(format!("bus09 M{:x}:{:x};L{:x};R{:x};R{:x};r{:x};r{:x};r{:x};r{:x}", a, v, a, a, a.wrapping_add(2), a, a.wrapping_add(1), a.wrapping_add(2), a.wrapping_add(3)));
                            emit(format!("bus09 w{:x}:{:x};w{:x}:{:x};w{:x}:{:x};w{:x}:{:x};R{:x};L{:x}", a, v & 0xff, a.wrapping_add(1), (v >> 8) & 0xff, a.wrapping_add(2), (v >> 16) & 0xff, a.wrapping_add(3), v >> 24, a, a));
                        }
                    }
                }
                // configuration-then-probe: a store to ONE plain register location (every address of the two
                // register blocks, all-ones and each single bit), then a marker byte stored to and read back
                // from probe addresses in every region and every hole: a plain location must not change how
                // any other address decodes
                {
                    let regs: Vec<u32> = (0xfee00bu32..=0xfee0ff).chain(0xffff20..=0xffffcf).chain(0xffffdb..=0xffffe9).collect();
                    let mut k = 0u64;
                    for &ra in regs.iter() {
                        for vi in 0..9u32 {
                            k += 1;
                            if !ctx.mine(k) {
                                continue;
                            }
                            let val = if vi == 0 { 0xffu32 } else { 1 << (vi - 1) };
                            let mut probes: Vec<u32> = vec![0x0, 0x23, 0xff, 0x100, 0x3fffff, 0x400000, 0x5fffff, 0x600000, 0xa00000, 0xfedfff, 0xfee010, 0xfee100, 0xffbf1f, 0xffbf20, 0xffe000, 0xffe023, 0xffefff, 0xffff1f, 0xffff30, 0xffffea, 0xffffff];
                            for blk in 0..8u32 {
                                probes.push(blk * 0x1000 + rng.range(0x100, 0xfff) as u32);
                            }
                            probes.push(rng.range(0x8000, 0x3fffff) as u32);
                            probes.push(rng.range(0x400000, 0x5fffff) as u32);
                            probes.push(rng.range(0x600000, 0xfedfff) as u32);
                            probes.push(rng.range(0xffbf20, 0xffff1f) as u32);
                            probes.retain(|&p| p != ra);
                            let mut ops = vec![format!("w{:x}:{:x}", ra, val)];
                            for (i, p) in probes.iter().enumerate() {
                                ops.push(format!("w{:x}:{:x}", p, 0x21 + i));
                            }
                            for p in probes.iter() {
                                ops.push(format!("r{:x}", p));
                            }
                            ops.push(format!("r{:x}", ra));
                            emit(format!("bus09 {}", ops.join(";")));
                        }
                    }
                }
                // histories of interleaved writes and reads
                let n = if ctx.quick() { 12_000 } else { 200_000 } / ctx.nshards;
                for _ in 0..n {
                    let len = rng.range(1, 64);
                    let mut pool: Vec<u32> = (0..rng.range(1, 6)).map(|_| gen_addr09(&mut rng)).collect();
                    let mut ops = Vec::new();
                    for _ in 0..len {
                        let a = if rng.chance(2, 3) {
                            *rng.pick(&pool)
                        } else {
                            let a = gen_addr09(&mut rng);
                            pool.push(a);
                            a
                        };
                        // neighbours, so that word/long style adjacency is exercised
                        let a = if rng.chance(1, 4) { a.wrapping_add(rng.range(0, 3) as u32) } else { a };
                        match rng.below(10) {
                            0..=2 => ops.push(format!("w{:x}:{:x}", a, rng.u8())),
                            3..=5 => ops.push(format!("r{:x}", a)),
                            6 => ops.push(format!("W{:x}:{:x}", a, rng.u16())),
                            7 => ops.push(format!("R{:x}", a)),
                            8 => ops.push(format!("M{:x}:{:x}", a, rng.u32())),
                            _ => ops.push(format!("L{:x}", a)),
                        }
                    }
                    emit(format!("bus09 {}", ops.join(";")));
                }
            }
            16 => {
                const VALS: [u8; 8] = [0x00, 0xff, 0x0f, 0xf0, 0x55, 0xaa, 0x01, 0x80];
                let port_ops = |p: u32| -> Vec<String> {
                    let mut v = Vec::new();
                    for x in VALS.iter() {
                        v.push(format!("w{:x}:{:x}", 0xfee000 + p - 1, x));
                        v.push(format!("w{:x}:{:x}", 0xffffd0 + p - 1, x));
                        v.push(format!("p{:x}:{:x}", p, x));
                    }
                    v.push(format!("r{:x}", 0xffffd0 + p - 1));
                    v
                };
                // (a) bounded-exhaustive histories on one port, each followed by a final read
                let depth = if ctx.quick() { 3 } else { 4 };
                let ports: Vec<u32> = if ctx.quick() { vec![1, 5, 0xb] } else { (1..=11).collect() };
                let mut idx = 0u64;
                for &p in &ports {
                    let ops = port_ops(p);
                    let n = ops.len();
                    let total = (n as u64).pow(depth);
                    for code in 0..total {
                        idx += 1;
                        if !ctx.mine(idx) {
                            continue;
                        }
                        let mut c = code;
                        let mut h: Vec<&str> = Vec::new();
                        for _ in 0..depth {
                            h.push(&ops[(c % n as u64) as usize]);
                            c /= n as u64;
                        }
                        emit(format!("bus16 {};r{:x}", h.join(";"), 0xffffd0 + p - 1));
                    }
                }
                // (b) random histories up to length 64 over one or two ports, with time stamps
                let nrand = if ctx.quick() { 20_000 } else { 400_000 } / ctx.nshards;
                for _ in 0..nrand {
                    let p1 = rng.range(1, 11) as u32;
                    let p2 = rng.range(1, 11) as u32;
                    let two = rng.chance(1, 2);
                    let len = rng.range(1, 64);
                    let (o1, o2) = (port_ops(p1), port_ops(p2));
                    let mut h: Vec<String> = Vec::new();
                    // time stamps are the full state count: histories also start just below 2^31, 2^32, 2^53 and far beyond, so that
                    // the count crosses those widths while messages are being emitted
                    let mut t = match rng.below(8) {
                        0 => (1u64 << 32) - rng.below(150000),
                        1 => (1u64 << 31) - rng.below(150000),
                        2 => (1u64 << 53) - rng.below(150000),
                        3 => *rng.pick(&[1u64 << 32, (1 << 32) + 5, 1 << 40, (1 << 62) + 12345, (1 << 33) - 1]),
                        _ => 0,
                    };
                    if t != 0 {
                        h.push(format!("s{:x}", t));
                    }
                    for _ in 0..len {
                        if rng.chance(1, 6) {
                            t += rng.below(100000);
                            h.push(format!("s{:x}", t));
                        }
                        // stores to the port-related configuration registers that are NOT part of the port model (pull-up control P2PCR /
                        // P4PCR / P5PCR, their neighbours): they must not change what a port reads, drives or announces
                        if rng.chance(1, 12) {
                            let a = *rng.pick(&[0xfee03cu32, 0xfee03e, 0xfee03f, 0xfee03d, 0xfee03b, 0xfee00b, 0xffffdb, 0xfee010]);
                            h.push(format!("w{:x}:{:x}", a, *rng.pick(&[0xffu8, 0x0f, 0xf0, 0x55, 0])));
                        }
                        let ops = if two && rng.chance(1, 2) { &o2 } else { &o1 };
                        // reads are a quarter of the operations; values mostly from the covering set
                        if rng.chance(1, 4) {
                            h.push(ops[ops.len() - 1].clone());
                        } else if rng.chance(1, 5) {
                            let pp = if two && rng.chance(1, 2) { p2 } else { p1 };
                            let a = *rng.pick(&[0xfee000 + pp - 1, 0xffffd0 + p1 - 1]);
                            h.push(format!("w{:x}:{:x}", a, rng.u8()));
                        } else {
                            h.push(rng.pick(&ops[..ops.len() - 1]).clone());
                        }
                    }
                    h.push(format!("r{:x}", 0xffffd0 + p1 - 1));
                    h.push(format!("r{:x}", 0xffffd0 + p2 - 1));
                    emit(format!("bus16 {}", h.join(";")));
                }
            }
            17 => {
                let n = if ctx.quick() { 30_000 } else { 400_000 } / ctx.nshards;
                let mut idx = 0u64;
                // every TCR value appears as the first clock selection (x several histories)
                for k in 0..n {
                    idx += 1;
                    let tcr0 = ((k + ctx.shard * 17) % 256) as u8;
                    let mut h: Vec<String> = Vec::new();
                    let clear = (tcr0 >> 3) & 3;
                    let (mut a, mut b) = (rng.u8(), rng.u8());
                    if rng.chance(1, 2) {
                        // small compare values so that matches actually happen
                        a = rng.range(1, 20) as u8;
                        b = rng.range(1, 20) as u8;
                    }
                    if clear == 1 || clear == 2 || rng.chance(3, 4) {
                        if a == 0 {
                            a = 1;
                        }
                        if b == 0 {
                            b = 2;
                        }
                        if a == b {
                            b = b.wrapping_add(1).max(1);
                            if a == b {
                                b = b.wrapping_add(1).max(1);
                            }
                        }
                    }
                    h.push(format!("wffff84:{:x}", a));
                    h.push(format!("wffff86:{:x}", b));
                    if rng.chance(1, 2) {
                        h.push(format!("wffff88:{:x}", if rng.chance(1, 2) { 0xf0 + rng.below(16) as u8 } else { rng.u8() }));
                    }
                    h.push(format!("wffff80:{:x}", tcr0));
                    let len = rng.range(1, 60);
                    for _ in 0..len {
                        match rng.below(12) {
                            0 => {
                                // clock / enable change (CKS 0-3 mostly)
                                let v = if rng.chance(9, 10) { (rng.u8() & 0xf8) | rng.below(4) as u8 } else { rng.u8() };
                                // keep the compare-register side condition when a clear source gets selected
                                let cl = (v >> 3) & 3;
                                let v = if (cl == 1 || cl == 2) && (a == 0 || b == 0 || a == b) { v & 0xe7 } else { v };
                                h.push(format!("wffff80:{:x}", v));
                            }
                            1 => h.push(format!("wffff82:{:x}", if rng.chance(1, 2) { 0 } else { rng.u8() })),
                            2 => h.push("rffff88".to_string()),
                            3 => h.push("rffff82".to_string()),
                            4 => {
                                // a long run of maximal charges (needed for the /8192 clock)
                                for _ in 0..rng.range(8, 40) {
                                    h.push(format!("t{:x}", match rng.below(3) { 0 => 255, 1 => 765, _ => rng.range(200, 765) }));
                                }
                            }
                            5 => h.push(format!("wffff88:{:x}", rng.u8())),
                            _ => h.push(format!("t{:x}", match rng.below(4) {
                                0 => 1,
                                1 => rng.range(1, 8),
                                2 => rng.range(1, 64),
                                _ => rng.range(1, 765),
                            })),
                        }
                    }
                    h.push("rffff88".to_string());
                    h.push("rffff82".to_string());
                    let _ = idx;
                    emit(format!("bus17 {}", h.join(";")));
                }
            }
            _ => {}
        }
    }

    fn exec(&mut self, case: &str) -> String {
        let mut it = case.splitn(2, ' ');
        let word = it.next().unwrap_or("");
        let rest = it.next().unwrap_or("");
        if word.starts_with("sweep") {
            let f: Vec<&str> = rest.split(' ').collect();
            return exec_sweep(h(f[0]), h(f.get(1).copied().unwrap_or("0")));
        }
        exec_history(rest)
    }

    fn judge(&self, _ctx: &Ctx, case: &str, imp: &str, drv: &str) -> (Verdict, String, Option<u64>) {
        // drv: "M <same format as impl> | S <spec view> dom=<0|1>"
        let (m, s) = match drv.split_once(" | ") {
            Some((m, s)) => (m.trim_start_matches("M ").to_string(), s.trim_start_matches("S ").to_string()),
            None => (drv.to_string(), String::new()),
        };
        let word = case.split(' ').next().unwrap_or("");
        let dom = field(&s, "dom") == Some("1");
        if word == "sweep09" {
            let key = "sweep".to_string();
            let sv = s.split(' ').next().unwrap_or("");
            let oracle_ok = sweep_matches(imp, sv);
            let v = if !oracle_ok {
                Verdict::Oracle(format!("address classification differs from the memory map: impl {} spec {}", imp, sv), None)
            } else if imp != m {
                Verdict::Corr(format!("impl {} model {}", imp, m))
            } else {
                Verdict::Agree
            };
            return (v, key, Some(fnv(case)));
        }
        if word == "bus17" {
            let nops = case.matches(';').count() + 1;
            let key = format!("bus17 tcr0-cks={} len<={}", {
                let t = case.split("wffff80:").nth(1).and_then(|x| x.split(';').next()).map(h).unwrap_or(0);
                t & 7
            }, ((nops + 31) / 32) * 32);
            let corr = if imp != m { Some(format!("impl [{}] model [{}]", imp, m)) } else { None };
            if !dom {
                return (match corr { Some(c) => Verdict::Corr(c), None => Verdict::Out }, key, None);
            }
            let imp_ops = imp.split(' ').next().unwrap_or("");
            let spec_ops = s.split(' ').next().unwrap_or("");
            let why = if imp_ops != spec_ops {
                format!("reads: impl {} spec {}", imp_ops, spec_ops)
            } else if field(imp, "pend") != field(&s, "pend") {
                format!("interrupt requests: impl {} spec {}", field(imp, "pend").unwrap_or(""), field(&s, "pend").unwrap_or(""))
            } else {
                String::new()
            };
            let v = if !why.is_empty() { Verdict::Oracle(why, None) } else if let Some(c) = corr { Verdict::Corr(c) } else { Verdict::Agree };
            // non-trivial: the counter actually counted (some read differs from the written start values) or a request was raised
            let nt = if imp.contains("pend=") && (field(imp, "pend").map(|p| !p.is_empty()).unwrap_or(false) || imp_ops.split(';').any(|x| x != "k" && x != "0")) { Some(fnv(case)) } else { None };
            return (v, key, nt);
        }
        if word == "bus16" {
            return judge16(ctx_known(_ctx), case, imp, &m, &s, dom);
        }
        let nops = case.matches(';').count() + 1;
        let key = format!("{} len<={}", word, ((nops + 15) / 16) * 16);
        // the spec view for bus09: per-op results and final memory by address
        let imp_ops = imp.split(' ').next().unwrap_or("");
        let spec_ops = s.split(' ').next().unwrap_or("");
        let v = if !dom {
            if imp != m {
                Verdict::Corr(format!("impl [{}] model [{}]", imp, m))
            } else {
                Verdict::Out
            }
        } else {
            let mut why = String::new();
            if imp_ops != spec_ops {
                why = format!("per-op results: impl {} spec {}", imp_ops, spec_ops);
            } else if word == "bus09" {
                // bytes a straddling (failing) word/long write may or may not have stored are left open by the Spec
                let dc: Vec<&str> = field(&s, "dc").unwrap_or("").split(',').filter(|e| !e.is_empty()).collect();
                let strip = |m: String| -> String {
                    m.split(',').filter(|e| !e.is_empty() && !dc.contains(&e.split(':').next().unwrap_or(""))).collect::<Vec<_>>().join(",")
                };
                let im = strip(mem_by_addr(field(imp, "mem").unwrap_or("")));
                let sm = strip(field(&s, "mem").unwrap_or("").to_string());
                if im != sm {
                    why = format!("final memory: impl {} spec {}", im, sm);
                }
            }
            if !why.is_empty() {
                Verdict::Oracle(why, None)
            } else if imp != m {
                Verdict::Corr(format!("impl [{}] model [{}]", imp, m))
            } else {
                Verdict::Agree
            }
        };
        // non-trivial: the history contains a write that succeeds and a later read of the same address
        let nt = if dom && imp_ops.contains('k') { Some(fnv(case)) } else { None };
        (v, key, nt)
    }
}

/// impl store dump -> "addr:val,..." sorted by address, using the property's region bases
fn mem_by_addr(dump: &str) -> String {
    let mut v: Vec<(u32, u32)> = Vec::new();
    for e in dump.split(',').filter(|e| !e.is_empty()) {
        let f: Vec<&str> = e.split(':').collect();
        if f.len() != 3 {
            continue;
        }
        let base = match f[0] {
            "v" => 0x0,
            "d" => 0x400000,
            "r" => 0xffbf20,
            "i" => 0xfee000,
            _ => 0xffff20,
        };
        v.push((base + h(f[1]), h(f[2])));
    }
    v.sort();
    v.iter().map(|(a, b)| format!("{:x}:{:x}", a, b)).collect::<Vec<_>>().join(",")
}

/// every impl run must carry the spec's class over its whole extent ('?' in the spec = unconstrained)
fn sweep_matches(imp: &str, spec: &str) -> bool {
    fn parse(s: &str) -> Vec<(u64, char)> {
        s.split(',')
            .filter(|e| !e.is_empty())
            .filter_map(|e| {
                let (a, c) = e.split_once(':')?;
                Some((u64::from_str_radix(a, 16).ok()?, c.chars().next()?))
            })
            .collect()
    }
    let a = parse(imp);
    let b = parse(spec);
    if a.is_empty() || b.is_empty() || a[0].0 != b[0].0 {
        return a.is_empty() && b.is_empty();
    }
    // merge the boundaries
    let mut pts: Vec<u64> = a.iter().map(|x| x.0).chain(b.iter().map(|x| x.0)).collect();
    pts.sort();
    pts.dedup();
    let class_at = |v: &Vec<(u64, char)>, p: u64| -> char {
        let mut c = ' ';
        for &(s, k) in v {
            if s <= p {
                c = k
            } else {
                break;
            }
        }
        c
    };
    for p in pts {
        let (ci, cs) = (class_at(&a, p), class_at(&b, p));
        if cs != '?' && ci != cs {
            return false;
        }
    }
    true
}

fn ctx_known(ctx: &Ctx) -> &Vec<String> {
    &ctx.known
}

/// C16: reads must equal the latch Spec; the last `ioport:` message of every port must carry the Spec's
/// driven output (0 if none was ever sent); time stamps must not decrease; messages must be well formed.
fn judge16(known: &Vec<String>, case: &str, imp: &str, m: &str, s: &str, dom: bool) -> (Verdict, String, Option<u64>) {
    let nops = case.matches(';').count() + 1;
    let key = format!("bus16 len<={}", ((nops + 7) / 8) * 8);
    let corr = if imp != m { Some(format!("impl [{}] model [{}]", imp, m)) } else { None };
    if !dom {
        return (match corr { Some(c) => Verdict::Corr(c), None => Verdict::Out }, key, None);
    }
    let imp_ops = imp.split(' ').next().unwrap_or("");
    let spec_ops = s.split(' ').next().unwrap_or("");
    let mut why = String::new();
    if imp_ops != spec_ops {
        why = format!("reads: impl {} spec {}", imp_ops, spec_ops);
    } else {
        let mut last: [u32; 12] = [0; 12];
        let mut t_prev: u64 = 0;
        for msg in field(imp, "msgs").unwrap_or("").split('|').filter(|x| !x.is_empty()) {
            let f: Vec<&str> = msg.split(':').collect();
            if f.len() != 4 || f[0] != "ioport" {
                why = format!("malformed message {}", msg);
                break;
            }
            let p = h(f[1]) as usize;
            let t: u64 = f[3].parse().unwrap_or(u64::MAX);
            if p < 1 || p > 11 || t == u64::MAX {
                why = format!("malformed message {}", msg);
                break;
            }
            if t < t_prev {
                why = format!("time stamp decreases in {}", msg);
                break;
            }
            t_prev = t;
            last[p] = h(f[2]);
        }
        if why.is_empty() {
            for e in field(s, "out").unwrap_or("").split(',').filter(|x| !x.is_empty()) {
                if let Some((p, v)) = e.split_once(':') {
                    if last[h(p) as usize] != h(v) {
                        why = format!("port {}: last announced {:x}, driven output per spec {}", p, last[h(p) as usize], v);
                        break;
                    }
                }
            }
        }
    }
    let kf = field(s, "kf").filter(|k| *k != "-").map(|k| format!("C16-{}", k)).filter(|id| known.contains(id));
    let v = if !why.is_empty() {
        Verdict::Oracle(why, if corr.is_none() { kf } else { None })
    } else if let Some(c) = corr {
        Verdict::Corr(c)
    } else {
        Verdict::Agree
    };
    (v, key, Some(fnv(case)))
}
