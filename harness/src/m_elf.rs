//! C11 / C12: the real `elf::load` on generated ELF32-BE files and argument strings.
//! case: elf path=<file> args=<hex of the UTF-8 argument string>
//! impl: ok er=<..x8> exit=<h> dram=<addr:hexrun;...> other=<number of non-zero bytes outside DRAM> | panic
use crate::cpu::Cpu;
use crate::util::*;
use crate::Mode;

pub struct ElfMode {
    dir: Option<std::path::PathBuf>,
}

impl ElfMode {
    pub fn new() -> Self {
        ElfMode { dir: None }
    }
}

fn be16(v: u16) -> [u8; 2] {
    v.to_be_bytes()
}
fn be32(v: u32) -> [u8; 4] {
    v.to_be_bytes()
}

struct Seg {
    ty: u32,
    off: u32,
    vaddr: u32,
    /// p_paddr - p_vaddr (C11 does not fix it; C12 is stated for 0)
    pdelta: u32,
    filesz: u32,
    memsz: u32,
}

struct Sec {
    name: String,
    ty: u32,
    addr: u32,
    off: u32,
    size: u32,
    link: u32,
    entsize: u32,
}

fn graphic_name(rng: &mut Rng, maxlen: u64) -> String {
    let n = rng.range(1, maxlen);
    (0..n).map(|_| (0x21 + rng.below(0x5e) as u8) as char).collect()
}

/// Build one structurally valid ELF32-BE file (see the quantifier of C11/C12).
pub fn gen_elf(rng: &mut Rng, trailing_nonload: bool, shifted_phys: bool) -> Vec<u8> {
    let mut file: Vec<u8> = vec![0; 52];
    // ---- PT_LOAD segments: ascending, non-overlapping virtual ranges, arbitrary file offsets
    let nload = rng.range(1, 4) as usize;
    let mut segs: Vec<Seg> = Vec::new();
    let mut vaddr: u32 = if rng.chance(1, 2) { 0 } else { 4 * rng.below(64) as u32 };
    let mut blobs: Vec<(usize, Vec<u8>)> = Vec::new(); // (segment index, contents)
    for k in 0..nload {
        let filesz = match rng.below(5) {
            0 => 0,
            1 => rng.range(1, 16) as u32,
            _ => rng.range(1, 3000) as u32,
        };
        let memsz = filesz + if rng.chance(1, 2) { 0 } else { rng.below(600) as u32 };
        // contents: random, or long runs of one byte (0x00 / 0xff / other) so that "skip the zeros" shortcuts show
        let data: Vec<u8> = match rng.below(6) {
            0 => vec![0u8; filesz as usize],
            1 => vec![0xffu8; filesz as usize],
            2 => {
                let mut v: Vec<u8> = Vec::with_capacity(filesz as usize);
                while v.len() < filesz as usize {
                    let b = *rng.pick(&[0u8, 0, 0xff, 0x41, 0x69]);
                    for _ in 0..rng.range(1, 64) {
                        v.push(if rng.chance(1, 8) { rng.u8() } else { b });
                    }
                }
                v.truncate(filesz as usize);
                v
            }
            _ => (0..filesz).map(|_| rng.u8()).collect(),
        };
        let pdelta = if shifted_phys && rng.chance(2, 3) { *rng.pick(&[4u32, 0x40, 0x100, 0x1000, 0x2344]) + 4 * rng.below(8) as u32 } else { 0 };
        segs.push(Seg { ty: 1, off: 0, vaddr, pdelta, filesz, memsz });
        blobs.push((k, data));
        // the next segment: directly adjacent (gap 0..3, any alignment), or after a gap, long-word aligned
        if rng.chance(1, 3) {
            vaddr += memsz + rng.below(4) as u32;
        } else {
            vaddr += memsz + if rng.chance(1, 2) { 0 } else { rng.below(200) as u32 };
            vaddr = (vaddr + 3) & !3;
        }
    }
    let image_end = segs.iter().map(|s| s.vaddr + s.memsz).max().unwrap_or(0);
    // ---- .got inside the file-backed part of one segment
    let got_entries = if rng.chance(1, 6) { 0 } else { rng.below(65) as u32 };
    let cands: Vec<usize> = (0..nload).filter(|&k| segs[k].filesz >= 4 * got_entries.max(1) + 4).collect();
    let (got_addr, got_size) = if let Some(&k) = cands.get(rng.below(cands.len().max(1) as u64) as usize) {
        let room = segs[k].filesz - 4 * got_entries;
        let o = (rng.below(room as u64 + 1) as u32) & !3;
        // entry values incl. ones whose sum with the load base carries into the top byte
        for e in 0..got_entries {
            let v: u32 = match rng.below(5) {
                // boundary values: NULL, tiny offsets, sums that are 0 / 2^32-1 / cross 2^31, already-relocated look-alikes
                4 => *rng.pick(&[0u32, 0, 1, 2, 4, 0xffbe9700, 0xffbe96ff, 0x80000000, 0x7fbe9700, 0xffffffff, 0x7fffffff, 0x416900, 0x00be9700, 0xff000000]),
                0 => 0xffbe9700 + rng.below(0x100) as u32,
                1 => 0xfffffff0 + rng.below(16) as u32,
                2 => rng.below(0x20000) as u32,
                _ => rng.u32(),
            };
            let p = (o + 4 * e) as usize;
            blobs[k].1[p..p + 4].copy_from_slice(&be32(v));
        }
        (segs[k].vaddr + o, 4 * got_entries)
    } else {
        (segs[0].vaddr, 0)
    };
    // ---- place the segment contents in the file in shuffled order with gaps
    let mut order: Vec<usize> = (0..nload).collect();
    for i in (1..order.len()).rev() {
        order.swap(i, rng.below(i as u64 + 1) as usize);
    }
    for &k in &order {
        for _ in 0..rng.below(40) {
            file.push(rng.u8());
        }
        segs[k].off = file.len() as u32;
        file.extend_from_slice(&blobs[k].1);
    }
    // ---- program header table: loads in ascending order, non-load headers anywhere
    let mut pht: Vec<Seg> = Vec::new();
    let nonload_types = [0u32, 2, 4, 6, 7, 0x6474e551, 0x6474e552, 0x70000000];
    // a non-load header: random, or -- as NOTE / TLS / RELRO headers of real files are -- a sub-range of a
    // load segment, or a range that straddles one end of the GOT
    let loads: Vec<(u32, u32, u32, u32)> = segs.iter().map(|s| (s.vaddr, s.off, s.filesz, s.memsz)).collect();
    let mk_nonload = |rng: &mut Rng, memmask: u32| -> Seg {
        let ty = *rng.pick(&nonload_types);
        let pdelta = if rng.chance(1, 2) { 0 } else { rng.u32() & 0xffff };
        match rng.below(4) {
            0 | 1 if !loads.is_empty() => {
                let (v, off, fsz, msz) = loads[rng.below(loads.len() as u64) as usize];
                let o = rng.below(msz.max(1) as u64) as u32;
                let len = rng.below((msz - o.min(msz)) as u64 + 1) as u32;
                Seg { ty, off: off.wrapping_add(o), vaddr: v + o, pdelta, filesz: len.min(fsz.saturating_sub(o)), memsz: len }
            }
            2 if got_size >= 8 => {
                // contains the first (or only the last) entries of the GOT
                let cut = 4 * rng.range(1, (got_size / 4 - 1).max(1) as u64) as u32;
                let (lo, hi) = if rng.chance(2, 3) {
                    (got_addr.saturating_sub(4 * rng.below(16) as u32), got_addr + cut)
                } else {
                    (got_addr + cut, got_addr + got_size + 4 * rng.below(16) as u32)
                };
                Seg { ty, off: rng.u32() & 0xffff, vaddr: lo, pdelta, filesz: hi - lo, memsz: hi - lo }
            }
            _ => Seg { ty, off: rng.u32() & 0xffff, vaddr: rng.u32() & 0xfffff, pdelta, filesz: rng.u32() & 0xffff, memsz: rng.u32() & memmask },
        }
    };
    for s in segs {
        while rng.chance(1, 4) {
            let nl = mk_nonload(rng, 0xfffff);
            pht.push(nl);
        }
        pht.push(s);
    }
    if trailing_nonload || rng.chance(1, 4) {
        let nl = mk_nonload(rng, 0x7ffff);
        pht.push(nl);
    }
    // ---- symbols
    let nsym = rng.range(1, 200) as usize;
    let exit_idx = rng.below(nsym as u64) as usize;
    let exit_val = rng.below(image_end.max(4) as u64) as u32 & !1;
    let mut strtab: Vec<u8> = vec![0];
    let mut syms: Vec<u8> = Vec::new();
    for i in 0..nsym {
        let name = if i == exit_idx {
            "___exit".to_string()
        } else if rng.chance(1, 10) {
            String::new()
        } else if rng.chance(1, 8) {
            // near misses of the exit symbol: only the exact name counts
            rng.pick(&["___exit2", "__exit", "___exi", "____exit", "___EXIT", "_exit", "exit", "___exit_", "x___exit"]).to_string()
        } else {
            let n = graphic_name(rng, 24);
            if n == "___exit" {
                "x".into()
            } else {
                n
            }
        };
        let idx = if name.is_empty() { 0 } else { strtab.len() as u32 };
        if !name.is_empty() {
            strtab.extend_from_slice(name.as_bytes());
            strtab.push(0);
        }
        syms.extend_from_slice(&be32(idx));
        syms.extend_from_slice(&be32(if i == exit_idx { exit_val } else { rng.u32() }));
        // st_size, st_info, st_other, st_shndx: half of the time the values the ELF specification gives a meaning to
        // (bindings / types, visibilities, SHN_UNDEF / small section indices / SHN_ABS / SHN_COMMON / SHN_XINDEX / reserved)
        syms.extend_from_slice(&be32(if rng.chance(1, 2) { *rng.pick(&[0u32, 1, 2, 4, 8]) } else { rng.u32() & 0xffff }));
        if rng.chance(1, 2) {
            syms.push((*rng.pick(&[0u8, 1, 2, 10, 12, 13, 15]) << 4) | *rng.pick(&[0u8, 1, 2, 3, 4, 5, 6, 10, 12, 13, 15]));
            syms.push(*rng.pick(&[0u8, 1, 2, 3]));
            let shndx = match rng.below(4) {
                0 => rng.below(12) as u16,
                1 => *rng.pick(&[0xfff1u16, 0xfff1, 0xfff2, 0xffff, 0xff00, 0xff1f, 0xff20, 0xff3f, 0]),
                _ => rng.u16(),
            };
            syms.extend_from_slice(&be16(shndx));
        } else {
            syms.push(rng.u8());
            syms.push(rng.u8());
            syms.extend_from_slice(&be16(rng.u16()));
        }
    }
    let symtab_off = file.len() as u32;
    file.extend_from_slice(&syms);
    let strtab_off = file.len() as u32;
    file.extend_from_slice(&strtab);
    // ---- sections in shuffled order
    let stack_size = match rng.below(4) {
        0 => 0,
        1 => 0x10000,
        _ => rng.below(0x10001) as u32,
    };
    let mut secs: Vec<Sec> = vec![
        Sec { name: "".into(), ty: 0, addr: 0, off: 0, size: 0, link: 0, entsize: 0 },
        Sec { name: ".text".into(), ty: 1, addr: 0, off: 52, size: 16, link: 0, entsize: 0 },
        Sec { name: ".got".into(), ty: 1, addr: got_addr, off: 0, size: got_size, link: 0, entsize: 4 },
        Sec { name: ".stack".into(), ty: 8, addr: stack_size, off: 0, size: 0, link: 0, entsize: 0 },
        Sec { name: ".symtab".into(), ty: 2, addr: 0, off: symtab_off, size: 16 * nsym as u32, link: 0, entsize: 16 },
        Sec { name: ".strtab".into(), ty: 3, addr: 0, off: strtab_off, size: strtab.len() as u32, link: 0, entsize: 0 },
        Sec { name: ".shstrtab".into(), ty: 3, addr: 0, off: 0, size: 0, link: 0, entsize: 0 },
        Sec { name: ".data".into(), ty: 1, addr: 0x100, off: 60, size: 8, link: 0, entsize: 0 },
        Sec { name: ".bss".into(), ty: 8, addr: 0x200, off: 0, size: 64, link: 0, entsize: 0 },
    ];
    // decoy sections whose names only resemble the ones the loader acts on (exact names count); their fields point
    // into the image so that acting on one of them would change DRAM or the registers
    for _ in 0..rng.below(4) {
        let name = *rng.pick(&[".got.plt", ".gotx", ".go", "got", ".GOT", ".stack2", ".stac", "stack", ".symtab2", ".symta", ".dynsym", ".rela.got", ".comment"]);
        if secs.iter().any(|x| x.name == name) {
            continue;
        }
        secs.push(Sec { name: name.into(), ty: *rng.pick(&[1u32, 2, 8, 3]), addr: if got_size > 0 { got_addr } else { 4 * rng.below(64) as u32 }, off: symtab_off, size: 4 * rng.range(1, 8) as u32, link: 0, entsize: *rng.pick(&[0u32, 4, 16]) });
    }
    for i in (1..secs.len()).rev() {
        secs.swap(i, rng.below(i as u64 + 1) as usize);
    }
    let pos = |secs: &Vec<Sec>, n: &str| secs.iter().position(|s| s.name == n).unwrap() as u32;
    let strtab_i = pos(&secs, ".strtab");
    let shstr_i = pos(&secs, ".shstrtab");
    let symtab_i = pos(&secs, ".symtab") as usize;
    secs[symtab_i].link = strtab_i;
    let mut shstr: Vec<u8> = vec![0];
    let mut name_idx: Vec<u32> = Vec::new();
    for s in &secs {
        if s.name.is_empty() {
            name_idx.push(0);
        } else {
            name_idx.push(shstr.len() as u32);
            shstr.extend_from_slice(s.name.as_bytes());
            shstr.push(0);
        }
    }
    let shstr_off = file.len() as u32;
    file.extend_from_slice(&shstr);
    secs[shstr_i as usize].off = shstr_off;
    secs[shstr_i as usize].size = shstr.len() as u32;
    // ---- tables
    while file.len() % 4 != 0 {
        file.push(0);
    }
    let phoff = file.len() as u32;
    for p in &pht {
        // p_flags / p_align: nothing in C11 / C12 depends on them, so they take every meaningful and some arbitrary values
        let pflags = if rng.chance(1, 2) { rng.below(8) as u32 } else { *rng.pick(&[5u32, 6, 4, 0xf0000000, 0x0ff00005]) };
        let palign = *rng.pick(&[0u32, 1, 2, 4, 4, 0x1000, 0x10000, 3]);
        for v in [p.ty, p.off, p.vaddr, p.vaddr.wrapping_add(p.pdelta), p.filesz, p.memsz, pflags, palign] {
            file.extend_from_slice(&be32(v));
        }
    }
    let shoff = file.len() as u32;
    for (i, s) in secs.iter().enumerate() {
        // sh_flags / sh_info / sh_addralign likewise
        let shflags = if rng.chance(1, 2) { *rng.pick(&[0u32, 1, 2, 3, 4, 6, 7, 0x10, 0x20, 0x30, 0x40, 0x80, 0x200, 0x400]) } else { rng.u32() & 0xfff };
        let shinfo = if rng.chance(1, 2) { 0 } else { rng.below(300) as u32 };
        let shalign = *rng.pick(&[0u32, 1, 2, 4, 4, 8, 16, 3]);
        for v in [name_idx[i], s.ty, shflags, s.addr, s.off, s.size, s.link, shinfo, shalign, s.entsize] {
            file.extend_from_slice(&be32(v));
        }
    }
    // ---- every sixth file: the contents of one segment are the LAST bytes of the file (p_offset + p_filesz = file length: legal,
    //      though no linker lays a file out like that) — the earlier copy of the data stays behind as junk
    if rng.chance(1, 6) {
        let loads: Vec<usize> = pht.iter().enumerate().filter(|(_, p)| p.ty == 1).map(|(i, _)| i).collect();
        let j = rng.below(loads.len() as u64) as usize;
        let data = blobs[j].1.clone();
        if !data.is_empty() {
            let new_off = file.len() as u32;
            file.extend_from_slice(&data);
            let at = phoff as usize + 32 * loads[j] + 4;
            file[at..at + 4].copy_from_slice(&be32(new_off));
        }
    }
    // ---- header
    let mut h: Vec<u8> = vec![0x7f, b'E', b'L', b'F', 1, 2, 1, 0, 0, 0, 0, 0, 0, 0, 0, 0];
    h.extend_from_slice(&be16(2));
    h.extend_from_slice(&be16(46));
    h.extend_from_slice(&be32(1));
    h.extend_from_slice(&be32(0x100));
    h.extend_from_slice(&be32(phoff));
    h.extend_from_slice(&be32(shoff));
    h.extend_from_slice(&be32(0x00810000));
    h.extend_from_slice(&be16(52));
    h.extend_from_slice(&be16(32));
    h.extend_from_slice(&be16(pht.len() as u16));
    h.extend_from_slice(&be16(40));
    h.extend_from_slice(&be16(secs.len() as u16));
    h.extend_from_slice(&be16(shstr_i as u16));
    file[..52].copy_from_slice(&h);
    file
}

/// short blank-free string literals of the loader's current source text
fn source_literals() -> Vec<String> {
    let src = include_str!("elf.rs");
    let mut out: Vec<String> = Vec::new();
    for part in src.split('"').skip(1).step_by(2) {
        if !part.is_empty() && part.len() <= 16 && part.bytes().all(|b| (0x21..0x7f).contains(&b) && b != b'\\' && b != b'{') && !out.iter().any(|x| x == part) {
            out.push(part.to_string());
        }
    }
    out
}

pub fn gen_args(rng: &mut Rng) -> String {
    let nwords = match rng.below(5) {
        0 => 0,
        1 => 32,
        _ => rng.below(33),
    };
    let mut s = String::new();
    let blank = |rng: &mut Rng, s: &mut String, min: u64| {
        for _ in 0..rng.range(min, 4) {
            s.push(if rng.chance(1, 3) { '\t' } else { ' ' });
        }
    };
    if rng.chance(1, 3) {
        blank(rng, &mut s, 1);
    }
    for w in 0..nwords {
        let len = match rng.below(6) {
            0 => 1,
            1 => 200,
            _ => rng.range(1, 40),
        };
        // one word in four comes from the string literals of the CURRENT elf.rs (alone, as a suffix, as a prefix):
        // a comparison against a fixed text in the loader is then exercised, whatever the text is
        let dict = source_literals();
        if !dict.is_empty() && rng.chance(1, 4) {
            let lit = dict[rng.below(dict.len() as u64) as usize].clone();
            let extra: String = (0..rng.range(1, 6)).map(|_| (0x21 + rng.below(0x5e) as u8) as char).collect();
            match rng.below(3) {
                0 => s.push_str(&lit),
                1 => {
                    s.push_str(&extra);
                    s.push_str(&lit);
                }
                _ => {
                    s.push_str(&lit);
                    s.push_str(&extra);
                }
            }
        } else {
            for _ in 0..len {
                s.push((0x21 + rng.below(0x5e) as u8) as char);
            }
        }
        if w + 1 < nwords || rng.chance(1, 3) {
            blank(rng, &mut s, 1);
        }
    }
    s
}

pub fn hex(bytes: &[u8]) -> String {
    bytes.iter().map(|b| format!("{:02x}", b)).collect()
}

fn unhex(s: &str) -> Vec<u8> {
    s.as_bytes().chunks(2).map(|c| u8::from_str_radix(std::str::from_utf8(c).unwrap_or("0"), 16).unwrap_or(0)).collect()
}

/// every 64-byte aligned block of DRAM that contains a non-zero byte, as `addr:hex(64 bytes)`
pub fn dump_dram(d: &[u8]) -> String {
    let mut out: Vec<String> = Vec::new();
    let mut i = 0;
    while i < d.len() {
        let e = (i + 64).min(d.len());
        if d[i..e].iter().any(|b| *b != 0) {
            out.push(format!("{:x}:{}", 0x400000 + i, hex(&d[i..e])));
        }
        i = e;
    }
    out.join(";")
}

impl Mode for ElfMode {
    fn gen(&mut self, ctx: &Ctx, emit: &mut dyn FnMut(String)) {
        let mut rng = ctx.rng(11);
        let dir = ctx.out.join("elf");
        std::fs::create_dir_all(&dir).unwrap();
        let n = if ctx.quick() { 3000 } else { 60000 } / ctx.nshards;
        for k in 0..n {
            // every fifth file has physical addresses above the virtual ones (in the domain of C11, not of C12)
            let file = gen_elf(&mut rng, k % 7 == 3, k % 5 == 2);
            let path = dir.join(format!("f{}.elf", k));
            std::fs::write(&path, &file).unwrap();
            let args = gen_args(&mut rng);
            emit(format!("elf path={} args={}", path.display(), hex(args.as_bytes())));
        }
    }

    fn exec(&mut self, case: &str) -> String {
        let path = field(case, "path").unwrap_or("").to_string();
        let args = String::from_utf8(unhex(field(case, "args").unwrap_or(""))).unwrap_or_default();
        let r = std::panic::catch_unwind(std::panic::AssertUnwindSafe(|| {
            let mut cpu = Cpu::new();
            crate::elf::load(path, &mut cpu, args);
            cpu
        }));
        match r {
            Err(_) => "panic".into(),
            Ok(cpu) => {
                let ers: Vec<String> = cpu.er.iter().map(|e| format!("{:x}", e)).collect();
                let other = cpu.bus.exception_handling_vector.iter().filter(|b| **b != 0).count()
                    + cpu.bus.memory.iter().filter(|b| **b != 0).count()
                    + cpu.bus.io_registrs1.iter().filter(|b| **b != 0).count()
                    + cpu.bus.io_registrs2.iter().filter(|b| **b != 0).count();
                format!("ok er={} exit={:x} dram={} other={:x}", ers.join(","), cpu.exit_addr, dump_dram(&cpu.bus.dram), other)
            }
        }
    }

    fn judge(&self, ctx: &Ctx, case: &str, imp: &str, drv: &str) -> (Verdict, String, Option<u64>) {
        // drv: "M <line> | S <line> dom=<0|1> kf=<id|-> [shape=..]"
        let (m, s) = match drv.split_once(" | ") {
            Some((m, s)) => (m.trim_start_matches("M ").to_string(), s.trim_start_matches("S ").to_string()),
            None => (drv.to_string(), String::new()),
        };
        let dom = field(&s, if ctx.prop == "C11" { "dom11" } else { "dom" }) == Some("1");
        let key = format!("elf {} phys-{}", field(&s, "shape").unwrap_or("-"), field(&s, "phys").unwrap_or("-"));
        let corr = if imp != m { Some(first_diff(imp, &m)) } else { None };
        if !dom {
            return (match corr { Some(c) => Verdict::Corr(c), None => Verdict::Out }, key, None);
        }
        // C11: DRAM image + nothing outside DRAM; C12: registers, exit address (the argument block is part of the image dump)
        let keys: &[&str] = if ctx.prop == "C11" { &["dram", "other"] } else { &["er", "exit", "dram", "other"] };
        // C11 is about the image: blocks below the (64-byte rounded) image end; the stack / argument block is C12's
        // (the block the image ends in is cut at the exact image end `imgx`)
        let imgx = u32::from_str_radix(field(&s, "imgx").unwrap_or("ffffffff"), 16).unwrap_or(u32::MAX);
        let image_part = |d: &str| -> String {
            d.split(';')
                .filter_map(|e| {
                    let (a, h) = e.split_once(':')?;
                    let a = u32::from_str_radix(a, 16).ok()?;
                    if a >= imgx {
                        return None;
                    }
                    let keep = ((imgx - a).min(64) * 2) as usize;
                    let h = &h[..keep.min(h.len())];
                    if h.bytes().all(|c| c == b'0') {
                        None
                    } else {
                        Some(format!("{:x}:{}", a, h))
                    }
                })
                .collect::<Vec<_>>()
                .join(";")
        };
        let mut why = String::new();
        if !imp.starts_with("ok") {
            why = format!("load of a structurally valid file failed: {}", imp);
        } else {
            for k in keys {
                let (a, b) = (field(imp, k).unwrap_or("").to_string(), field(&s, k).unwrap_or("").to_string());
                let (a, b) = if ctx.prop == "C11" && *k == "dram" { (image_part(&a), image_part(&b)) } else { (a, b) };
                if a != b {
                    why = format!("{}: {}", k, first_diff(&a, &b));
                    break;
                }
            }
        }
        let kf = field(&s, "kf").filter(|k| *k != "-").map(|k| format!("{}-{}", ctx.prop, k)).filter(|id| ctx.known.contains(id));
        let v = if !why.is_empty() {
            Verdict::Oracle(why, if corr.is_none() { kf } else { None })
        } else if let Some(c) = corr {
            Verdict::Corr(c)
        } else {
            Verdict::Agree
        };
        (v, key, Some(fnv(case)))
    }
}

/// short description of the first difference of two long lines
pub fn first_diff(a: &str, b: &str) -> String {
    let (ab, bb) = (a.as_bytes(), b.as_bytes());
    let mut i = 0;
    while i < ab.len() && i < bb.len() && ab[i] == bb[i] {
        i += 1;
    }
    let lo = i.saturating_sub(30);
    format!("at char {}: impl ..{} vs expected ..{}", i, &a[lo..(i + 40).min(a.len())], &b[lo..(i + 40).min(b.len())])
}
