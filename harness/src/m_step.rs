//! Single-step / short-sequence execution of the real CPU on prepared states (C01–C08, C10, C14, C15, C20).
//!
//! case: step pc=<h> ccr=<h> er=<h,..x8> bsc=<h,..x5> mem=<addr:hexbytes;...> [n=<steps>] [irq=<k>:<vec>,...] [chk=1]
//!   background memory: every byte of every store = tag(address); `mem=` overrides.
//!   n (default 1) instructions are executed; with `irq=` present every instruction boundary first
//!   injects the requests scheduled for that boundary and calls try_interrupt (n=0: one boundary only).
//! impl: ok cost=<h> pc=<h> ccr=<h> er=<..> mem=<addr:byte,...> msgs=<hex,..> pend=<h,..> trace=<pc,..> | err@k ... | panic@k
use crate::cpu::Cpu;
use crate::isa::*;
use crate::util::*;
use crate::Mode;
use std::collections::BTreeMap;

pub fn tag(a: u32) -> u8 {
    ((((a as u64) * 2654435761u64) % 4294967296u64) / 8192) as u8 ^ ((a / 8) as u8)
}

const BASES: [(u32, u32); 5] = [(0x0, 0x100), (0x400000, 0x200000), (0xffbf20, 0x4000), (0xfee000, 0x100), (0xffff20, 0xca)];

pub struct Machine {
    pub cpu: Cpu,
    shadow: [Vec<u8>; 5],
}

fn store_of(a: u32) -> Option<(usize, usize)> {
    for (k, (b, n)) in BASES.iter().enumerate() {
        if a >= *b && a < *b + *n {
            return Some((k, (a - *b) as usize));
        }
    }
    None
}

impl Machine {
    pub fn new() -> Self {
        let mut cpu = Cpu::new();
        let mut shadow: [Vec<u8>; 5] = Default::default();
        for (k, (b, n)) in BASES.iter().enumerate() {
            shadow[k] = (0..*n).map(|i| tag(*b + i)).collect();
        }
        cpu.bus.exception_handling_vector.copy_from_slice(&shadow[0]);
        cpu.bus.dram.copy_from_slice(&shadow[1]);
        cpu.bus.memory.copy_from_slice(&shadow[2]);
        cpu.bus.io_registrs1.copy_from_slice(&shadow[3]);
        cpu.bus.io_registrs2.copy_from_slice(&shadow[4]);
        Machine { cpu, shadow }
    }

    fn raw(&mut self, k: usize) -> &mut [u8] {
        match k {
            0 => &mut self.cpu.bus.exception_handling_vector,
            1 => &mut self.cpu.bus.dram,
            2 => &mut self.cpu.bus.memory[..],
            3 => &mut self.cpu.bus.io_registrs1,
            _ => &mut self.cpu.bus.io_registrs2,
        }
    }

    fn poke(&mut self, a: u32, v: u8) {
        if let Some((k, i)) = store_of(a) {
            self.raw(k)[i] = v;
            self.shadow[k][i] = v;
        }
    }

    fn restore(&mut self, a: u32) {
        if let Some((k, i)) = store_of(a) {
            let t = tag(a);
            self.raw(k)[i] = t;
            self.shadow[k][i] = t;
        }
    }

    /// addresses whose content differs from the shadow, with the current byte
    fn delta(&mut self) -> Vec<(u32, u8)> {
        let mut out = Vec::new();
        for k in 0..5 {
            let base = BASES[k].0;
            let sh = std::mem::take(&mut self.shadow[k]);
            {
                let cur = self.raw(k);
                if cur[..] != sh[..] {
                    // locate differences chunk-wise
                    let mut i = 0;
                    while i < cur.len() {
                        let e = (i + 4096).min(cur.len());
                        if cur[i..e] != sh[i..e] {
                            for j in i..e {
                                if cur[j] != sh[j] {
                                    out.push((base + j as u32, cur[j]));
                                }
                            }
                        }
                        i = e;
                    }
                }
            }
            self.shadow[k] = sh;
        }
        out.sort();
        out
    }

    pub fn exec_case(&mut self, case: &str) -> String {
        let h = |s: &str| u32::from_str_radix(s, 16).unwrap_or(0);
        let pc = h(field(case, "pc").unwrap_or("0"));
        let ccr = h(field(case, "ccr").unwrap_or("0")) as u8;
        let ers: Vec<u32> = field(case, "er").unwrap_or("").split(',').map(h).collect();
        let bsc: Vec<u32> = field(case, "bsc").unwrap_or("ff,fb,ff,cf,e0").split(',').map(h).collect();
        let n: u32 = field(case, "n").map(h).unwrap_or(1);
        let mut touched: Vec<u32> = Vec::new();
        // the machine is reused: put timer channel 0 back into its reset state
        let _ = self.cpu.bus.write(0xffff80, 0);
        self.restore(0xffff80);
        for (i, a) in [0xfee020u32, 0xfee021, 0xfee022, 0xfee023, 0xfee026].iter().enumerate() {
            self.poke(*a, *bsc.get(i).unwrap_or(&0) as u8);
            touched.push(*a);
        }
        if let Some(m) = field(case, "mem") {
            for e in m.split(';').filter(|e| !e.is_empty()) {
                if let Some((a, bytes)) = e.split_once(':') {
                    let a = h(a);
                    let bs = bytes.as_bytes();
                    for (k, ch) in bs.chunks(2).enumerate() {
                        let v = u8::from_str_radix(std::str::from_utf8(ch).unwrap_or("0"), 16).unwrap_or(0);
                        self.poke(a.wrapping_add(k as u32), v);
                        touched.push(a.wrapping_add(k as u32));
                    }
                }
            }
        }
        let irq: Option<Vec<(u32, u8)>> = field(case, "irq").map(|s| {
            s.split(',')
                .filter(|e| !e.is_empty())
                .filter_map(|e| e.split_once(':').map(|(k, v)| (h(k), h(v) as u8)))
                .collect()
        });
        // tcr=<h>: the guest's earlier write of 8TCR0; mod=1: the run loop's module update after every instruction
        let with_modules = field(case, "mod").is_some();
        if let Some(t) = field(case, "tcr") {
            let t = h(t) as u8;
            let _ = self.cpu.bus.write(0xffff80, t);
            self.poke(0xffff80, t);
            touched.push(0xffff80);
        }
        for i in 0..8 {
            self.cpu.er[i] = *ers.get(i).unwrap_or(&0);
        }
        self.cpu.vh_set_pc(pc);
        self.cpu.vh_set_operating_pc(pc);
        self.cpu.vh_set_ccr(ccr);
        self.cpu.vh_clear_pending();
        self.cpu.vh_set_state_sum(0);
        let _ = crate::cpu::verif_hooks::take_captured();
        let mut cost: u32 = 0;
        let mut trace: Vec<String> = Vec::new();
        let mut outcome = String::new();
        let cpu = &mut self.cpu;
        let mut k = 0u32;
        loop {
            if let Some(sched) = &irq {
                for (b, v) in sched {
                    if *b == k {
                        cpu.vh_request_interrupt(*v);
                    }
                }
                let r = std::panic::catch_unwind(std::panic::AssertUnwindSafe(|| cpu.vh_try_interrupt()));
                match r {
                    Ok(Ok(())) => {}
                    Ok(Err(_)) => {
                        outcome = format!("err@{:x}", k);
                        break;
                    }
                    Err(_) => {
                        outcome = format!("panic@{:x}", k);
                        break;
                    }
                }
            }
            if k >= n {
                break;
            }
            trace.push(format!("{:x}", cpu.vh_pc()));
            let r = std::panic::catch_unwind(std::panic::AssertUnwindSafe(|| cpu.vh_step()));
            let c = match r {
                Ok(Ok(c)) => c,
                Ok(Err(_)) => {
                    outcome = format!("err@{:x}", k);
                    break;
                }
                Err(_) => {
                    outcome = format!("panic@{:x}", k);
                    break;
                }
            };
            cost += c as u32;
            if with_modules {
                // as in Cpu::run: `state * 3`, then update_modules
                let r = std::panic::catch_unwind(std::panic::AssertUnwindSafe(|| cpu.vh_update_modules(u16::from(c) * 3)));
                match r {
                    Ok(Ok(())) => {}
                    Ok(Err(_)) => {
                        outcome = format!("err@{:x}", k);
                        break;
                    }
                    Err(_) => {
                        outcome = format!("panic@{:x}", k);
                        break;
                    }
                }
            }
            k += 1;
        }
        let d = self.delta();
        let msgs: Vec<String> = crate::cpu::verif_hooks::take_captured()
            .iter()
            .map(|m| m.as_bytes().iter().map(|b| format!("{:02x}", b)).collect::<String>())
            .collect();
        let res = if outcome.is_empty() {
            let ers: Vec<String> = self.cpu.er.iter().map(|e| format!("{:x}", e)).collect();
            let mem: Vec<String> = d.iter().map(|(a, v)| format!("{:x}:{:x}", a, v)).collect();
            let pend: Vec<String> = self.cpu.vh_pending().iter().map(|v| format!("{:x}", v)).collect();
            format!(
                "ok cost={:x} pc={:x} ccr={:x} er={} mem={} msgs={} pend={} trace={}",
                cost,
                self.cpu.vh_pc(),
                self.cpu.vh_ccr(),
                ers.join(","),
                mem.join(","),
                msgs.join(","),
                pend.join(","),
                trace.join(",")
            )
        } else if n == 1 && irq.is_none() && !d.is_empty() {
            // a single instruction that fails: what it has written all the same (C09 / C07: a failing access, a rejected
            // opcode changes nothing)
            let mem: Vec<String> = d.iter().map(|(a, v)| format!("{:x}:{:x}", a, v)).collect();
            format!("{} wrote={}", outcome, mem.join(","))
        } else {
            outcome
        };
        for (a, _) in d {
            self.restore(a);
        }
        for a in touched {
            self.restore(a);
        }
        res
    }
}

// ------------------------------------------------------------------------------------ case builder

#[derive(Clone)]
pub struct CaseB {
    pub pc: u32,
    pub ccr: u8,
    pub er: [u32; 8],
    pub bsc: [u8; 5],
    pub mem: BTreeMap<u32, u8>,
    pub n: u32,
    pub irq: Option<Vec<(u32, u8)>>,
    /// Some(tcr): 8TCR0 was written with this value before, and modules are updated after every instruction
    pub modules: Option<u8>,
}

pub const RESET_BSC: [u8; 5] = [0xff, 0xfb, 0xff, 0xcf, 0xe0];

impl CaseB {
    pub fn new() -> Self {
        CaseB { pc: 0xffc000, ccr: 0, er: [0; 8], bsc: RESET_BSC, mem: BTreeMap::new(), n: 1, irq: None, modules: None }
    }
    pub fn put(&mut self, a: u32, bytes: &[u8]) {
        for (k, b) in bytes.iter().enumerate() {
            self.mem.insert(a.wrapping_add(k as u32) & 0xffffff, *b);
        }
    }
    pub fn put_words(&mut self, a: u32, ws: &[u16]) {
        for (k, w) in ws.iter().enumerate() {
            self.put(a + 2 * k as u32, &w.to_be_bytes());
        }
    }
    pub fn line(&self) -> String {
        // merge consecutive bytes
        let mut parts: Vec<String> = Vec::new();
        let mut cur: Option<(u32, u32, String)> = None;
        for (a, b) in &self.mem {
            match &mut cur {
                Some((_, next, s)) if *next == *a => {
                    s.push_str(&format!("{:02x}", b));
                    *next += 1;
                }
                _ => {
                    if let Some((s0, _, s)) = cur.take() {
                        parts.push(format!("{:x}:{}", s0, s));
                    }
                    cur = Some((*a, *a + 1, format!("{:02x}", b)));
                }
            }
        }
        if let Some((s0, _, s)) = cur.take() {
            parts.push(format!("{:x}:{}", s0, s));
        }
        let ers: Vec<String> = self.er.iter().map(|e| format!("{:x}", e)).collect();
        let bsc: Vec<String> = self.bsc.iter().map(|e| format!("{:x}", e)).collect();
        let mut s = format!("step pc={:x} ccr={:x} er={} bsc={} mem={}", self.pc, self.ccr, ers.join(","), bsc.join(","), parts.join(";"));
        if self.n != 1 {
            s.push_str(&format!(" n={:x}", self.n));
        }
        if let Some(q) = &self.irq {
            let v: Vec<String> = q.iter().map(|(k, v)| format!("{:x}:{:x}", k, v)).collect();
            s.push_str(&format!(" irq={}", v.join(",")));
        }
        if let Some(t) = self.modules {
            s.push_str(&format!(" tcr={:x} mod=1", t));
        }
        s
    }
}

/// options steering the instance generator
#[derive(Clone, Copy)]
pub struct GenOpt {
    /// address registers get a non-zero upper byte, sums may wrap modulo 2^24 (C08)
    pub wild_addr: bool,
    /// vary the bus-controller settings (C20)
    pub vary_bsc: bool,
    /// operands may be placed in the vector area
    pub vector_data: bool,
}

pub const PLAIN: GenOpt = GenOpt { wild_addr: false, vary_bsc: false, vector_data: true };

/// six bus settings under which every (area, kind) cost of the areas we use is distinct
pub const BSC_SET: [[u8; 5]; 6] = [
    [0xff, 0xfb, 0xff, 0xcf, 0xe0],
    [0x00, 0xff, 0x5a, 0xe4, 0x20],
    [0xfb, 0xff, 0xa5, 0x1b, 0x00],
    [0x04, 0x00, 0x00, 0x00, 0x00],
    [0xfa, 0xfe, 0x93, 0x6d, 0x20],
    [0x05, 0xff, 0xff, 0xff, 0x20],
];

fn rand_regs(rng: &mut Rng) -> [u32; 8] {
    let mut er = [0u32; 8];
    for e in er.iter_mut() {
        *e = interesting32(rng);
    }
    er
}

/// Build a mostly-valid instance of `form`.  `fixed` pre-assigns field letters.
pub fn instance(form: &Form, rng: &mut Rng, opt: GenOpt, fixed: &BTreeMap<char, u64>) -> CaseB {
    let mut c = CaseB::new();
    c.er = rand_regs(rng);
    c.ccr = rng.u8();
    if opt.vary_bsc {
        c.bsc = *rng.pick(&BSC_SET);
    }
    let nbytes = 2 * form.nwords() as u32;
    c.pc = code_addr(rng, nbytes);
    let mut vals: BTreeMap<char, u64> = BTreeMap::new();
    for (l, n) in &form.fields {
        let v = match fixed.get(l) {
            Some(v) => *v,
            None => rng.next() & ((1u64 << *n) - 1),
        };
        vals.insert(*l, v);
    }
    // branch displacements: even, mostly small
    if form.name.starts_with("BCC_") || form.name.starts_with("BSR_") {
        if !fixed.contains_key(&'x') {
            let n = form.fields[&'x'];
            let mut d = if rng.chance(1, 2) { rng.next() } else { rng.below(64).wrapping_sub(32) } & ((1 << n) - 1);
            d &= !1;
            vals.insert('x', d);
        }
    }
    // stack pointer for call / return / exception forms
    let stacky = form.is_family(&["JSR_", "BSR_", "RTS", "RTE", "TRAPA"]);
    if stacky {
        let mut sp = data_addr(rng, 4, false).max(0x400010);
        if sp < 0x400010 {
            sp = 0xffc000;
        }
        sp &= !3;
        if sp + 8 > 0xffff20 && sp >= 0xffbf20 {
            sp = 0xffff10;
        }
        // word-aligned stack pointers that are not a multiple of 4 are legitimate (e.g. after PUSH.W)
        if rng.chance(1, 4) && sp + 12 < 0xffff20 {
            sp |= 2;
        }
        // stack pointers exactly at a region boundary: the frame then lies in another bus area than SP itself
        if rng.chance(1, 6) {
            let pops = form.name == "RTS" || form.name == "RTE";
            sp = if pops {
                *rng.pick(&[0x5ffffcu32, 0xffff1c, 0x400000, 0xffbf20, 0x5ffffe, 0xffbf1c, 0x5ffff8])
            } else {
                *rng.pick(&[0x600000u32, 0xffff20, 0x400004, 0xffbf24, 0xffbf20, 0x600002, 0x400000, 0, 2, 4])
            };
        }
        c.er[7] = sp | if opt.wild_addr { (rng.u8() as u32) << 24 } else { 0 };
        if form.name == "RTS" || form.name == "RTE" {
            let ret = code_addr(rng, 2);
            let top = rng.u8();
            c.put(sp, &[top, (ret >> 16) as u8, (ret >> 8) as u8, ret as u8]);
        } else if sp >= 0x400004 {
            // room below for the frame: fine by construction (sp >= region start + 16)
        }
    }
    if form.name == "TRAPA" {
        let n = vals[&'i'] as u32;
        if n != 0 {
            let t = code_addr(rng, 2);
            c.put(0x20 + 4 * n, &[rng.u8(), (t >> 16) as u8, (t >> 8) as u8, t as u8]);
        }
    }
    // effective address placement
    if let Some((kind, rl, fl)) = form.ea {
        let size = form.size.max(1);
        let target = data_addr(rng, size, opt.vector_data);
        let hi = if opt.wild_addr { (rng.u8() as u32) << 24 } else { 0 };
        // every twelfth register-indirect operand falls off the edge of a region: below address 0 (the register must wrap on all
        // 32 bits, the access at H'FFFFFx is unmapped and must fail), just below DRAM / on-chip RAM, past the top of a region
        let edge = rng.chance(1, 12);
        // (at the very bottom / top of the 32-bit range the upper byte matters too: half of the edge cases keep it zero)
        let hi = if edge && rng.chance(1, 2) { 0 } else { hi };
        match kind {
            EaKind::Ind | EaKind::PostInc => {
                let r = vals[&rl.unwrap()] as usize & 7;
                c.er[r] = target | hi;
                if edge {
                    c.er[r] = *rng.pick(&[0xffffffu32, 0xfffffe, 0xfffffc, 0x5fffff, 0x5ffffe, 0x5ffffd, 0xff, 0xfe, 0xfd, 0x100, 0x600000, 0xffffea, 0xffffe8]) | hi;
                }
            }
            EaKind::PreDec => {
                let r = vals[&rl.unwrap()] as usize & 7;
                c.er[r] = (target + size) | hi;
                if edge {
                    c.er[r] = *rng.pick(&[0u32, 1, 2, 3, 4, 0x400000, 0x400001, 0x400002, 0x400003, 0xffbf20, 0xffbf21, 0xffbf22, 0x100, 0x102, 0x600000, 0x600002]) | hi;
                }
            }
            EaKind::Disp16 | EaKind::Disp24 => {
                let r = vals[&rl.unwrap()] as usize & 7;
                let bits = if kind == EaKind::Disp16 { 16 } else { 24 };
                let l = fl.unwrap();
                loop {
                    let d = if fixed.contains_key(&l) {
                        vals[&l]
                    } else {
                        match rng.below(4) {
                            0 => rng.below(256),
                            1 => (1u64 << bits) - 1 - rng.below(256),
                            2 => (1u64 << (bits - 1)) - rng.below(2),
                            _ => rng.next() & ((1 << bits) - 1),
                        }
                    };
                    let sd: i64 = if d >> (bits - 1) & 1 == 1 { d as i64 - (1i64 << bits) } else { d as i64 };
                    let base = target as i64 - sd;
                    if opt.wild_addr || (base >= 0 && base < (1 << 24)) || fixed.contains_key(&l) {
                        vals.insert(l, d);
                        c.er[r] = ((base.rem_euclid(1 << 24)) as u32) | hi;
                        break;
                    }
                }
            }
            EaKind::Abs8 => {
                // H'FFFF00-FFFF1F is RAM; the rest of the page is I/O registers
                if !fixed.contains_key(&fl.unwrap()) {
                    let a = if rng.chance(3, 4) { rng.below(0x20) } else { rng.below(256) };
                    vals.insert(fl.unwrap(), a);
                }
            }
            EaKind::Abs16 => {
                if !fixed.contains_key(&fl.unwrap()) {
                    let a = if target >= 0xff8000 { (target & 0xffff) as u64 } else { rng.below(0x100 - size as u64 + 1) & !((size as u64 > 1) as u64) };
                    vals.insert(fl.unwrap(), a);
                }
            }
            EaKind::Abs24 => {
                if !fixed.contains_key(&fl.unwrap()) {
                    vals.insert(fl.unwrap(), target as u64);
                }
            }
            EaKind::MemInd => {
                let a = if fixed.contains_key(&fl.unwrap()) { vals[&fl.unwrap()] } else { rng.below(0x40) * 4 };
                vals.insert(fl.unwrap(), a);
                let t = code_addr(rng, 2);
                c.put(a as u32, &[rng.u8(), (t >> 16) as u8, (t >> 8) as u8, t as u8]);
            }
        }
        // +/- forms: keep the data register away from the address register
        if matches!(kind, EaKind::PostInc | EaKind::PreDec) {
            let rl = rl.unwrap();
            let other = if form.instr.contains(".mem (.postinc") { 'd' } else { 's' };
            if form.fields.contains_key(&other) && !fixed.contains_key(&other) {
                let mut tries = 0;
                while (vals[&other] & 7) == (vals[&rl] & 7) && tries < 16 {
                    let n = form.fields[&other];
                    vals.insert(other, rng.next() & ((1u64 << n) - 1));
                    tries += 1;
                }
            }
        }
    }
    if form.name.starts_with("JMP_REG") || form.name.starts_with("JSR_REG") {
        let r = vals[&'e'] as usize & 7;
        if !(stacky && r == 7) {
            c.er[r] = code_addr(rng, 2) | if opt.wild_addr { (rng.u8() as u32) << 24 } else { 0 };
        }
    }
    if form.name.starts_with("JMP_ABS") || form.name.starts_with("JSR_ABS") {
        if !fixed.contains_key(&'a') {
            vals.insert('a', code_addr(rng, 2) as u64);
        }
    }
    let ws = form.encode(&vals);
    c.put_words(c.pc, &ws);
    c
}

// ------------------------------------------------------------------------------------ the mode

pub struct StepMode {
    m: Option<Machine>,
    forms: Vec<Form>,
}

impl StepMode {
    pub fn new() -> Self {
        StepMode { m: None, forms: load_table("/verif/spec/isa.tbl") }
    }
}

pub fn family(prop: &str) -> Vec<&'static str> {
    match prop {
        "C01" => vec!["MOV_"],
        "C02" => vec!["ADD_", "SUB_", "CMP_", "ADDX_", "NEG_", "INC_", "DEC_", "ADDS_", "SUBS_", "MULXU_", "DIVXU_"],
        "C03" => vec!["AND_", "OR_", "XOR_", "NOT_", "EXTU_", "SHAL_", "SHAR_", "SHLL_", "SHLR_", "ROTL_", "ROTR_", "ROTXL_", "ROTXR_"],
        "C04" => vec!["BSET_", "BCLR_", "BNOT_", "BST_", "BIST_", "BTST_", "BLD_", "BILD_", "BAND_", "BIAND_", "BOR_", "BIOR_", "BXOR_", "BIXOR_"],
        "C05" => vec!["BCC_", "JMP_", "JSR_", "BSR_", "RTS"],
        "C06" => vec!["TRAPA", "RTE"],
        // C09 as seen by a program: every MOV form with a memory operand (observe_at: "through MOV instructions")
        "C09" => vec!["MOV_"],
        _ => vec![""],
    }
}

fn reg_letters(form: &Form) -> Vec<char> {
    form.fields.keys().copied().filter(|c| matches!(c, 's' | 'd' | 'e' | 'n')).collect()
}

impl Mode for StepMode {
    fn gen(&mut self, ctx: &Ctx, emit: &mut dyn FnMut(String)) {
        let mut rng = ctx.rng(100);
        let quick = ctx.quick();
        let prop = ctx.prop.as_str();
        let fam = family(prop);
        let forms: Vec<Form> = self.forms.iter().filter(|f| f.valid && f.is_family(&fam)).cloned().collect();
        let mut idx: u64 = 0;
        let mut mine = |ctx: &Ctx| {
            idx += 1;
            ctx.mine(idx)
        };
        let none: BTreeMap<char, u64> = BTreeMap::new();
        match prop {
            "C01" | "C02" | "C03" | "C04" | "C05" | "C06" | "C08" | "C09" | "C20" => {
                let opt = match prop {
                    "C08" => GenOpt { wild_addr: true, vary_bsc: false, vector_data: true },
                    "C20" => GenOpt { wild_addr: false, vary_bsc: true, vector_data: true },
                    _ => PLAIN,
                };
                let forms: Vec<Form> = if prop == "C08" {
                    self.forms.iter().filter(|f| f.valid && (f.ea.is_some() || f.is_family(&["JSR_", "BSR_", "RTS", "RTE", "TRAPA", "JMP_REG"]))).cloned().collect()
                } else if prop == "C20" {
                    self.forms.iter().filter(|f| f.valid).cloned().collect()
                } else if prop == "C09" {
                    forms.into_iter().filter(|f| f.ea.is_some()).collect()
                } else {
                    forms
                };
                for form in &forms {
                    // (a0) single-word forms with at most 12 variable bits: EVERY encoding of the form once (register numbers x
                    //      immediate values), so that no single encoding can be treated specially unseen
                    let allbits: usize = form.fields.values().sum();
                    if form.words.len() == 1 && allbits <= 12 && form.ea.is_none() {
                        let letters: Vec<char> = form.fields.keys().copied().collect();
                        for combo in 0..(1u64 << allbits) {
                            if !mine(ctx) {
                                continue;
                            }
                            let mut fixed = BTreeMap::new();
                            let mut x = combo;
                            for l in &letters {
                                let n = form.fields[l];
                                fixed.insert(*l, x & ((1 << n) - 1));
                                x >>= n;
                            }
                            emit(instance(form, &mut rng, opt, &fixed).line());
                        }
                    }
                    // (a) every combination of the register fields (up to 256), a few instances each
                    let regs = reg_letters(form);
                    let total: u64 = regs.iter().map(|l| 1u64 << form.fields[l]).product();
                    let reps = if quick { 2 } else { 12 };
                    for combo in 0..total.min(4096) {
                        let mut fixed = BTreeMap::new();
                        let mut x = combo;
                        for l in &regs {
                            let n = form.fields[l];
                            fixed.insert(*l, x & ((1 << n) - 1));
                            x >>= n;
                        }
                        for _ in 0..reps {
                            if mine(ctx) {
                                emit(instance(form, &mut rng, opt, &fixed).line());
                            }
                        }
                    }
                    // (b) all 256 initial CCR values
                    for ccr in 0..256u32 {
                        if mine(ctx) {
                            let mut c = instance(form, &mut rng, opt, &none);
                            c.ccr = ccr as u8;
                            emit(c.line());
                        }
                    }
                    // (c) random instances
                    let extra = if quick { 300 } else { 6000 };
                    for _ in 0..extra {
                        if mine(ctx) {
                            emit(instance(form, &mut rng, opt, &none).line());
                        }
                    }
                    // (c') C01 / C04 / C05 / C20: the same with non-zero upper bytes in the address registers (the operand address is
                    //      the low 24 bits; the register itself must still change by exactly the operand size)
                    if (prop == "C01" || prop == "C05" || prop == "C04" || prop == "C20") && !opt.wild_addr {
                        let wild = GenOpt { wild_addr: true, ..opt };
                        for _ in 0..(if quick { 100 } else { 2000 }) {
                            if mine(ctx) {
                                emit(instance(form, &mut rng, wild, &none).line());
                            }
                        }
                    }
                    // (d) immediates / bit numbers / conditions / small absolute fields: every value
                    for l in ['i', 'c', 'a'] {
                        if let Some(n) = form.fields.get(&l) {
                            if *n <= 8 {
                                for v in 0..(1u64 << *n) {
                                    for _ in 0..(if quick { 2 } else { 8 }) {
                                        if mine(ctx) {
                                            let mut fixed = BTreeMap::new();
                                            fixed.insert(l, v);
                                            emit(instance(form, &mut rng, opt, &fixed).line());
                                        }
                                    }
                                }
                            }
                        }
                    }
                }
                // property-specific sweeps
                match prop {
                    "C05" => {
                        self.gen_branch_table(ctx, &forms, &mut rng, emit);
                        self.gen_call_programs(ctx, &mut rng, emit);
                        return;
                    }
                    "C06" => {
                        self.gen_entry_cases(ctx, &mut rng, emit);
                        return;
                    }
                    "C02" | "C03" => self.gen_value_sweeps(ctx, &forms, &mut rng, &mut idx_dummy(), emit),
                    "C04" => self.gen_bit_cube(ctx, &forms, &mut rng, emit),
                    "C09" => self.gen_abs32(ctx, &mut rng, emit),
                    _ => {}
                }
            }
            "C07" => {
                self.gen_all_words(ctx, &mut rng, emit);
                // every valid form with well-formed operands (mapped, aligned, in-range), so that "a valid encoding of an
                // implemented instruction is executed" is judged for each form on its own and not only where the
                // word sweeps happen to meet a usable register file
                let valid: Vec<Form> = self.forms.iter().filter(|f| f.valid).cloned().collect();
                let reps = if quick { 12 } else { 200 };
                let mut k: u64 = 0;
                for form in &valid {
                    for _ in 0..reps {
                        k += 1;
                        if ctx.mine(k) {
                            emit(instance(form, &mut rng, PLAIN, &none).line());
                        }
                    }
                    // ... and every value of its register / small immediate fields (up to 64 combinations)
                    let small: Vec<char> = form.fields.iter().filter(|(c, n)| matches!(**c, 's' | 'd' | 'e' | 'n' | 'i' | 'c') && **n <= 4).map(|(c, _)| *c).collect();
                    let total: u64 = small.iter().map(|l| 1u64 << form.fields[l]).product();
                    if total > 1 && total <= 64 {
                        for combo in 0..total {
                            let mut fixed = BTreeMap::new();
                            let mut x = combo;
                            for l in &small {
                                let n = form.fields[l];
                                fixed.insert(*l, x & ((1 << n) - 1));
                                x >>= n;
                            }
                            for _ in 0..(if quick { 2 } else { 8 }) {
                                k += 1;
                                if ctx.mine(k) {
                                    emit(instance(form, &mut rng, PLAIN, &fixed).line());
                                }
                            }
                        }
                    }
                }
            }
            "C14" => self.gen_syscalls(ctx, &mut rng, emit),
            "C15" => self.gen_adversarial(ctx, &mut rng, emit),
            "C10" => self.gen_irq_programs(ctx, &mut rng, emit),
            _ => {}
        }
    }

    fn exec(&mut self, case: &str) -> String {
        if self.m.is_none() {
            self.m = Some(Machine::new());
        }
        self.m.as_mut().unwrap().exec_case(case)
    }

    fn judge(&self, ctx: &Ctx, case: &str, imp: &str, drv: &str) -> (Verdict, String, Option<u64>) {
        judge_step(ctx, case, imp, drv)
    }
}

fn idx_dummy() -> u64 {
    0
}

impl StepMode {
    /// 8-bit operand pairs x carry-in for byte forms, 16-bit values against partners, 32-bit boundary pairs
    fn gen_value_sweeps(&self, ctx: &Ctx, forms: &[Form], rng: &mut Rng, _i: &mut u64, emit: &mut dyn FnMut(String)) {
        let quick = ctx.quick();
        let mut idx: u64 = 0;
        for form in forms {
            let is_b = form.instr.contains(" .B ") || form.name.ends_with("_B") || form.name.contains("_B_") || form.name.starts_with("ADDX") ;
            let is_w = form.instr.contains(" .W ");
            let two_reg = form.fields.contains_key(&'s') && form.fields.contains_key(&'d');
            let has_imm = form.fields.contains_key(&'i');
            if is_b && !form.name.starts_with("MULXU") && !form.name.starts_with("DIVXU") {
                // all (dest, src) pairs x C in {0,1}; quick: a 1/8 lattice offset by the seed
                let stride = if quick { 8 } else { 1 };
                let off = (ctx.seed % stride as u64) as u32;
                for d in 0..256u32 {
                    for s in 0..256u32 {
                        if (d * 256 + s + off) % stride != 0 {
                            continue;
                        }
                        for cin in 0..2u8 {
                            idx += 1;
                            if !ctx.mine(idx) {
                                continue;
                            }
                            let mut fixed = BTreeMap::new();
                            // distinct registers for src and dst: R1L (9) <- R2H (2)
                            let (rd, rs) = (9u64, 2u64);
                            if two_reg {
                                fixed.insert('d', rd);
                                fixed.insert('s', rs);
                            } else {
                                fixed.insert('d', rd);
                            }
                            if has_imm {
                                fixed.insert('i', s as u64);
                            }
                            let mut c = instance(form, rng, PLAIN, &fixed);
                            c.er[1] = (c.er[1] & 0xffffff00) | d;
                            c.er[2] = (c.er[2] & 0xffff00ff) | (s << 8);
                            c.ccr = (c.ccr & 0xfe) | cin;
                            emit(c.line());
                            if !two_reg && !has_imm {
                                break; // unary: the src loop is irrelevant
                            }
                        }
                        if !two_reg && !has_imm {
                            break;
                        }
                    }
                }
            } else if is_w || form.name.ends_with("_W") || form.name.contains("_W_") {
                // every 16-bit value against partners
                let stride = if quick { 16 } else { 1 };
                for d in (0..65536u32).filter(|d| (d + ctx.seed as u32) % stride == 0) {
                    let partners: Vec<u32> = vec![0, 1, 0xffff, d, !d & 0xffff, (d & 0xfff) | 0x8000, (d & 0xf) | 0x7ff0, rng.u16() as u32, rng.u16() as u32];
                    let np = if two_reg || has_imm { if quick { 4 } else { partners.len() } } else { 1 };
                    for k in 0..np {
                        idx += 1;
                        if !ctx.mine(idx) {
                            continue;
                        }
                        let s = if quick { *rng.pick(&partners) } else { partners[k] };
                        let mut fixed = BTreeMap::new();
                        fixed.insert('d', 1u64); // R1
                        if two_reg {
                            fixed.insert('s', 10u64); // E2
                        }
                        if has_imm {
                            fixed.insert('i', s as u64);
                        }
                        let mut c = instance(form, rng, PLAIN, &fixed);
                        c.er[1] = (c.er[1] & 0xffff0000) | d;
                        c.er[2] = (c.er[2] & 0x0000ffff) | (s << 16);
                        emit(c.line());
                    }
                }
            } else {
                // 32-bit: boundary set x itself + random
                let n = if quick { 3000 } else { 60000 };
                for _ in 0..n {
                    idx += 1;
                    if !ctx.mine(idx) {
                        continue;
                    }
                    if rng.chance(1, 3) {
                        // RELATED operands: the two differ in exactly one bit, by a power of two, or are complements up to one
                        // bit (results like 0x80000000 / 0 / all-ones, carries out of one position) — register against
                        // register and register against immediate
                        let v = if rng.chance(1, 2) { interesting32(rng) } else { rng.u32() };
                        let anyk = rng.below(32) as u32;
                        let k = *rng.pick(&[31u32, 31, 30, 0, 15, 16, 7, 8, anyk]);
                        let p = match rng.below(5) {
                            0 => v ^ (1 << k),
                            1 => v.wrapping_add(1 << k),
                            2 => v.wrapping_sub(1 << k),
                            3 => !v ^ (1 << k),
                            _ => v.wrapping_neg(),
                        };
                        let mut fixed = BTreeMap::new();
                        if form.fields.get(&'i').copied().unwrap_or(0) == 32 {
                            fixed.insert('i', p as u64);
                        }
                        let mut c = instance(form, rng, PLAIN, &fixed);
                        let swap = rng.chance(1, 2);
                        for (j, e) in c.er.iter_mut().enumerate() {
                            *e = if (j % 2 == 0) != swap { v } else { p };
                        }
                        emit(c.line());
                        continue;
                    }
                    let mut c = instance(form, rng, PLAIN, &BTreeMap::new());
                    if rng.chance(1, 4) {
                        // equal operands / complements
                        let v = interesting32(rng);
                        for e in c.er.iter_mut() {
                            *e = if rng.chance(1, 2) { v } else { !v };
                        }
                    }
                    emit(c.line());
                }
            }
        }
    }

    /// C04: the full 256 x 8 x 2 cube for every op x location
    fn gen_bit_cube(&self, ctx: &Ctx, forms: &[Form], rng: &mut Rng, emit: &mut dyn FnMut(String)) {
        let mut idx: u64 = 0;
        let quick = ctx.quick();
        for form in forms {
            for v in 0..256u32 {
                for bit in 0..8u64 {
                    for cin in 0..2u8 {
                        idx += 1;
                        if !ctx.mine(idx) {
                            continue;
                        }
                        if quick && (v + bit as u32 + ctx.seed as u32) % 2 == 1 {
                            continue;
                        }
                        let mut fixed = BTreeMap::new();
                        let by_reg = form.fields.contains_key(&'n');
                        if by_reg {
                            fixed.insert('n', 11u64); // R3L holds the bit number
                        } else {
                            fixed.insert('i', bit);
                        }
                        if form.fields.contains_key(&'d') {
                            fixed.insert('d', 2u64); // R2H operand
                        }
                        let mut c = instance(form, rng, PLAIN, &fixed);
                        c.ccr = (c.ccr & 0xfe) | cin;
                        if by_reg {
                            // all bit-number register values 0-255 over the run: bit + 8*random
                            c.er[3] = (c.er[3] & 0xffffff00) | (bit as u32) | ((rng.below(32) as u32) << 3);
                        }
                        if form.fields.contains_key(&'d') {
                            c.er[2] = (c.er[2] & 0xffff00ff) | (v << 8);
                        } else {
                            // memory operand: find the EA and preload the byte
                            let ea = match form.ea {
                                Some((EaKind::Ind, Some(_), _)) => {
                                    // which register? read back the encoded field
                                    let w0 = ((c.mem[&c.pc] as u16) << 8) | c.mem[&(c.pc + 1)] as u16;
                                    let r = ((w0 >> 4) & 7) as usize;
                                    // the bit-number register must not be the address register
                                    c.er[r] & 0xffffff
                                }
                                _ => {
                                    let w0 = ((c.mem[&c.pc] as u16) << 8) | c.mem[&(c.pc + 1)] as u16;
                                    0xffff00 | (w0 & 0xff) as u32
                                }
                            };
                            c.put(ea, &[v as u8]);
                            // keep the instruction bytes intact if the operand landed on them
                        }
                        emit(c.line());
                    }
                }
            }
        }
    }

    /// C05: 16 conditions x 256 CCR x both forms, all even 8-bit displacements
    fn gen_branch_table(&self, ctx: &Ctx, forms: &[Form], rng: &mut Rng, emit: &mut dyn FnMut(String)) {
        let mut idx: u64 = 0;
        for form in forms.iter().filter(|f| f.name == "BSR_D16" || f.name == "BSR_D8") {
            let ds: Vec<u64> = if form.name == "BSR_D16" {
                vec![0, 2, 0x7e, 0x80, 0xfe, 0x100, 0x7ffc, 0x7ffe, 0x8000, 0x8002, 0xff00, 0xff80, 0xfffc, 0xfffe]
            } else {
                vec![0, 2, 0x7c, 0x7e, 0x80, 0x82, 0xfc, 0xfe]
            };
            for d in ds {
                for _ in 0..4 {
                    idx += 1;
                    if !ctx.mine(idx) {
                        continue;
                    }
                    let mut fixed = BTreeMap::new();
                    fixed.insert('x', d);
                    emit(instance(form, rng, PLAIN, &fixed).line());
                }
            }
        }
        for form in forms.iter().filter(|f| f.name.starts_with("BCC_")) {
            for cnd in 0..16u64 {
                for ccr in 0..256u32 {
                    idx += 1;
                    if !ctx.mine(idx) {
                        continue;
                    }
                    let mut fixed = BTreeMap::new();
                    fixed.insert('c', cnd);
                    let mut c = instance(form, rng, PLAIN, &fixed);
                    c.ccr = ccr as u8;
                    emit(c.line());
                }
            }
            if form.name == "BCC_D16" {
                // boundary 16-bit displacements (sign change, extremes, around zero), taken and not taken
                for d in [0u64, 2, 4, 0x7e, 0x80, 0xfe, 0x100, 0x7ffc, 0x7ffe, 0x8000, 0x8002, 0x8004, 0xff00, 0xff7e, 0xff80, 0xfffc, 0xfffe, 0x4000, 0xc000] {
                    for cnd in [0u64, 1, 6, 7, 4, 5] {
                        for _ in 0..3 {
                            idx += 1;
                            if !ctx.mine(idx) {
                                continue;
                            }
                            let mut fixed = BTreeMap::new();
                            fixed.insert('c', cnd);
                            fixed.insert('x', d);
                            emit(instance(form, rng, PLAIN, &fixed).line());
                        }
                    }
                }
            }
            if form.name == "BCC_D8" {
                for d in (0..256u64).step_by(2) {
                    for cnd in [0u64, 6, 7] {
                        idx += 1;
                        if !ctx.mine(idx) {
                            continue;
                        }
                        let mut fixed = BTreeMap::new();
                        fixed.insert('c', cnd);
                        fixed.insert('x', d);
                        emit(instance(form, rng, PLAIN, &fixed).line());
                    }
                }
            }
        }
    }
}

/// random valid UTF-8 text of exactly `len` bytes (ASCII, NUL, newline, backslash, 2-4 byte characters)
pub fn utf8_text(rng: &mut Rng, len: usize) -> Vec<u8> {
    let mut out: Vec<u8> = Vec::new();
    while out.len() < len {
        let room = len - out.len();
        let c: char = match rng.below(10) {
            0 => '\0',
            1 => '\n',
            2 => '\\',
            3 if room >= 2 => char::from_u32(0x80 + rng.below(0x780) as u32).unwrap_or('é'),
            4 if room >= 3 => char::from_u32(0x3040 + rng.below(0x60) as u32).unwrap_or('あ'),
            5 if room >= 4 => char::from_u32(0x1f600 + rng.below(0x40) as u32).unwrap_or('😀'),
            6 => ':',
            _ => (0x20 + rng.below(0x5f) as u8) as char,
        };
        let mut buf = [0u8; 4];
        let e = c.encode_utf8(&mut buf);
        if e.len() <= room {
            out.extend_from_slice(e.as_bytes());
        }
    }
    out
}

impl StepMode {
    /// C10: main program + handlers ending in RTE, requests injected at arbitrary instruction boundaries
    fn gen_irq_programs(&self, ctx: &Ctx, rng: &mut Rng, emit: &mut dyn FnMut(String)) {
        let n = if ctx.quick() { 3000 } else { 40000 } / ctx.nshards;
        for _ in 0..n {
            let mut c = CaseB::new();
            c.er = rand_regs(rng);
            // mostly unmasked at the start; sometimes masked throughout (requests must then stay pending)
            c.ccr = if rng.chance(1, 6) { rng.u8() | 0x80 } else { rng.u8() & 0x7f };
            c.er[7] = (if rng.chance(1, 2) { 0xffe800 } else { 0x41f000 } + 4 * rng.below(64) as u32 + if rng.chance(1, 4) { 2 } else { 0 }) | if rng.chance(1, 4) { (rng.u8() as u32) << 24 } else { 0 };
            let base: u32 = if rng.chance(1, 2) { 0xffc000 } else { 0x416900 } + 0x400 * rng.below(4) as u32;
            // main: a counted loop over a few ALU instructions on ER0-ER3, then a self-loop
            let mut ws: Vec<u16> = Vec::new();
            let body = rng.range(1, 5) as usize;
            c.er[4] = (c.er[4] & 0xffff0000) | rng.range(1, 6) as u32; // loop counter in R4
            let alu: [u16; 10] = [0x0801, 0x0912, 0x0a81, 0x1823, 0x0b02, 0x1b51, 0x1002, 0x1193, 0x1603, 0x0c10];
            for _ in 0..body {
                ws.push(*rng.pick(&alu));
            }
            ws.push(0x1b54); // DEC.W #1,R4
            let back = -(2 * (body as i32 + 2));
            ws.push(0x4600 | (back as u8 as u16)); // BNE loop
            if rng.chance(1, 2) {
                // a call to a leaf that the interrupts may land in
                ws.push(0x5500 | 0x04); // BSR +4  -> skips the next two instructions
                ws.push(0x40fe); // BRA . (end of main, reached after the leaf returns)
                ws.push(0x0b03); // (skipped)
                ws.push(0x0a0b); // leaf: INC.B R3L
                ws.push(0x5470); // RTS
            } else {
                ws.push(0x40fe); // BRA .
            }
            c.put_words(base, &ws);
            c.pc = base;
            // handlers
            let nv = rng.range(1, 4) as usize;
            let mut vectors: Vec<u8> = Vec::new();
            for k in 0..nv {
                let v = loop {
                    let v = rng.range(1, 63) as u8;
                    if !vectors.contains(&v) {
                        break v;
                    }
                };
                vectors.push(v);
                let h = 0xffd800 + 0x20 * k as u32;
                let hbody: Vec<u16> = match rng.below(3) {
                    0 => vec![0x5670],                         // RTE only
                    1 => vec![0x0a0e, 0x5670],                 // INC.B R6L ; RTE
                    _ => vec![0x0b05, 0x0a0e, 0x0b05, 0x5670], // ADDS #1,ER5 ; INC.B R6L ; ADDS #1,ER5 ; RTE
                };
                c.put_words(h, &hbody);
                c.put(4 * v as u32, &[rng.u8(), (h >> 16) as u8, (h >> 8) as u8, h as u8]);
            }
            // schedule: bursts, repeats, requests while handlers run
            // one program in twelve: a deep queue (tens to a hundred-odd requests outstanding at once, around the powers of
            // two a fixed-depth queue would have), with enough steps to drain it
            let deep = rng.chance(1, 12);
            let nreq = if deep { *rng.pick(&[15u64, 16, 17, 31, 32, 33, 34, 40, 63, 64, 65, 100, 129]) } else { rng.range(0, 10) };
            let steps = if deep { 5 * nreq as u32 + 30 } else { rng.range(20, 120) as u32 };
            let mut sched: Vec<(u32, u8)> = Vec::new();
            let mut k = 0u32;
            for _ in 0..nreq {
                if !rng.chance(1, 3) && !(deep && rng.chance(9, 10)) {
                    k += rng.below(12) as u32;
                }
                if k >= steps {
                    break;
                }
                sched.push((k, *rng.pick(&vectors)));
            }
            c.n = steps;
            c.irq = Some(sched);
            emit(c.line());
            // the same program without any request (transparency reference)
            let mut c0 = c.clone();
            c0.irq = Some(vec![]);
            emit(c0.line());
        }
    }

    /// C15: arbitrary words x adversarial register files x CCR x bus settings, from every mapped region incl. its last bytes
    fn gen_adversarial(&self, ctx: &Ctx, rng: &mut Rng, emit: &mut dyn FnMut(String)) {
        const EDGE: [u32; 30] = [
            0, 1, 2, 3, 4, 5, 0xffffffff, 0xfffffffe, 0xfffffffd, 0xfffffffc, 0x00ffffff, 0x01000000, 0xffbf20, 0xffbf1f, 0xffbf21, 0xffff1f, 0xffff20,
            0x400000, 0x3fffff, 0x5fffff, 0x600000, 0xff, 0x100, 0xfee000, 0xfee0ff, 0xffffe9, 0xffffea, 0x80000000, 0x7fffffff, 0x5ffffd,
        ];
        const CODE_ENDS: [u32; 14] = [0xffff1e, 0xffff1c, 0xffff1a, 0x5ffffe, 0x5ffffc, 0x5ffffa, 0xfe, 0xfc, 0xfee0fe, 0xffffe8, 0xffbf20, 0x400000, 0x0, 0xfee000];
        let quick = ctx.quick();
        let stride: u32 = if quick { 2 } else { 1 };
        let mut idx = 0u64;
        let adv_regs = |rng: &mut Rng| -> [u32; 8] {
            let mut er = [0u32; 8];
            for e in er.iter_mut() {
                *e = match rng.below(4) {
                    0 => interesting32(rng),
                    _ => *rng.pick(&EDGE),
                };
            }
            er
        };
        for w0 in 0..=0xffffu32 {
            if (w0 + ctx.seed as u32) % stride != 0 {
                continue;
            }
            for rep in 0..(if quick { 2 } else { 8 }) {
                idx += 1;
                if !ctx.mine(idx) {
                    continue;
                }
                let mut c = CaseB::new();
                c.er = adv_regs(rng);
                c.ccr = rng.u8();
                c.bsc = if rng.chance(1, 2) { RESET_BSC } else { [rng.u8(), rng.u8(), rng.u8(), rng.u8(), rng.u8()] };
                c.pc = if rep % 2 == 0 { *rng.pick(&CODE_ENDS) } else { code_addr(rng, 2) };
                let tail = [rng.u16(), if rng.chance(1, 2) { 0x6ba0 } else { rng.u16() }, rng.u16(), rng.u16()];
                c.put_words(c.pc, &[w0 as u16, tail[0], tail[1], tail[2], tail[3]]);
                // vectors / frames with adversarial contents so that control transfers go to bad places too
                if rng.chance(1, 4) {
                    let v = *rng.pick(&EDGE);
                    c.put((rng.below(64) * 4) as u32, &v.to_be_bytes());
                }
                c.n = if rng.chance(1, 4) { rng.range(2, 5) as u32 } else { 1 };
                if rng.chance(1, 3) {
                    c.modules = Some(rng.u8());
                }
                emit(c.line());
            }
        }
        // every valid form with adversarial registers (so that the dangerous handlers are hit often)
        let forms: Vec<Form> = self.forms.iter().filter(|f| f.valid).cloned().collect();
        for form in &forms {
            for _ in 0..(if quick { 300 } else { 3000 }) {
                idx += 1;
                if !ctx.mine(idx) {
                    continue;
                }
                let mut c = instance(form, rng, GenOpt { wild_addr: true, vary_bsc: true, vector_data: true }, &BTreeMap::new());
                let keep = c.er;
                c.er = adv_regs(rng);
                // keep about half of the well-formed operand registers
                for i in 0..8 {
                    if rng.chance(1, 2) {
                        c.er[i] = keep[i];
                    }
                }
                if rng.chance(1, 4) {
                    c.bsc = [rng.u8(), rng.u8(), rng.u8(), rng.u8(), rng.u8()];
                }
                emit(c.line());
            }
        }
        // system calls with adversarial argument blocks
        for _ in 0..(if quick { 4000 } else { 40000 }) {
            idx += 1;
            if !ctx.mine(idx) {
                continue;
            }
            let mut c = CaseB::new();
            c.er = adv_regs(rng);
            c.er[0] = *rng.pick(&[104u32, 113, 104, 113, 0, 0xffffffff, 0x10068, 0xffff0071, 0x00680068, 104 << 16, 0x80000068, 0x10071]);
            c.pc = code_addr(rng, 2);
            c.put_words(c.pc, &[0x5700]);
            if rng.chance(2, 3) {
                let argp = 0xffd000 + 4 * rng.below(256) as u32;
                c.er[1] = argp | if rng.chance(1, 4) { 0xff000000 } else { 0 };
                for k in 0..3 {
                    let v = if rng.chance(1, 2) { *rng.pick(&EDGE) } else { interesting32(rng) };
                    c.put(argp + 4 * k, &v.to_be_bytes());
                }
            }
            emit(c.line());
        }
        // the guest programs the timer: every byte value stored to every 8-bit-timer register by every store
        // form, then the run loop's module update after each instruction
        let regs8: [u32; 10] = [0xffff80, 0xffff82, 0xffff84, 0xffff86, 0xffff88, 0xffff81, 0xffff83, 0xffff90, 0xffff89, 0xffff8f];
        for v in 0..=255u32 {
            for (ri, reg) in regs8.iter().enumerate() {
                for variant in 0..4u32 {
                    idx += 1;
                    if !ctx.mine(idx) || (quick && ri > 4 && (v + variant) % 4 != 0) {
                        continue;
                    }
                    let mut c = CaseB::new();
                    c.er = adv_regs(rng);
                    c.er[7] = 0xffcf00;
                    c.ccr = rng.u8();
                    c.pc = code_addr(rng, 2);
                    let lo = (*reg & 0xffff) as u16;
                    let mut prog: Vec<u16> = vec![0xf800 | v as u16];
                    match variant {
                        0 => prog.push(0x3800 | (*reg & 0xff) as u16),
                        1 => prog.extend_from_slice(&[0x6a88, lo]),
                        2 => prog.extend_from_slice(&[0x6aa8, 0x00ff, lo]),
                        _ => {
                            c.er[1] = *reg | if rng.chance(1, 2) { 0x5a000000 } else { 0 };
                            prog.push(0x6898);
                        }
                    }
                    let nops = rng.range(1, 6) as usize;
                    for _ in 0..nops {
                        prog.push(0x0a00 | rng.below(16) as u16); // INC.B Rd
                    }
                    c.n = (2 + nops) as u32;
                    c.put_words(c.pc, &prog);
                    // counter and compare registers near a match / overflow
                    if rng.chance(1, 2) {
                        let t = rng.u8();
                        c.put(0xffff88, &[t]);
                        c.put(0xffff84, &[t.wrapping_add(rng.below(3) as u8)]);
                        c.put(0xffff86, &[t.wrapping_add(rng.below(3) as u8)]);
                    }
                    c.modules = Some(match rng.below(4) {
                        0 => 0,
                        1 => rng.u8(),
                        _ => (rng.u8() & 0xf8) | rng.below(8) as u8,
                    });
                    emit(c.line());
                }
            }
        }
    }

    /// C14: TRAPA #0 system calls: write (104), set_handler (113) followed by an interrupt of that vector, other ids
    fn gen_syscalls(&self, ctx: &Ctx, rng: &mut Rng, emit: &mut dyn FnMut(String)) {
        let n = if ctx.quick() { 20_000 } else { 300_000 } / ctx.nshards;
        for k in 0..n {
            let mut c = CaseB::new();
            c.er = rand_regs(rng);
            c.ccr = rng.u8();
            c.er[7] = data_addr(rng, 4, false).max(0x400040) & !3;
            c.pc = code_addr(rng, 2);
            c.put_words(c.pc, &[0x5700]);
            // argument block in RAM or DRAM, away from the code
            let mut argp = if rng.chance(1, 2) { 0xffd000 + 4 * rng.below(512) as u32 } else { 0x430000 + 4 * rng.below(4096) as u32 };
            // the argument block exactly at the top of a region: set_handler's block is two longs, write's three — neither call
            // may look at the long behind its block (behind DRAM there is a hole, behind on-chip RAM the I/O registers)
            if rng.chance(1, 10) {
                let two = matches!(k % 10, 6..=8);
                argp = if two { *rng.pick(&[0x5ffff8u32, 0xffff18, 0x5ffff8, 0x5ffff4]) } else { *rng.pick(&[0x5ffff4u32, 0xffff14, 0x5ffff0]) };
                if c.pc >= 0x5fffe0 && c.pc < 0x600000 || c.pc >= 0xffff00 {
                    c.pc = 0xffc000;
                    c.put_words(c.pc, &[0x5700]);
                }
            }
            c.er[1] = argp;
            match k % 10 {
                0..=5 => {
                    // write
                    c.er[0] = 104;
                    let len = match rng.below(6) {
                        0 => 0,
                        1 => rng.range(1, 4) as usize,
                        2 => rng.range(1, 64) as usize,
                        3 => 4096,
                        _ => rng.range(1, 4096) as usize,
                    };
                    let buf = if rng.chance(1, 2) { 0xffc000 + rng.below(0x1000) as u32 } else { 0x440000 + rng.below(0x10000) as u32 };
                    let buf = if buf >= 0xffc000 && buf + len as u32 > 0xffd000 { 0x440000 } else { buf };
                    let text = if rng.chance(1, 25) {
                        // invalid UTF-8 (outside the statement: model-only comparison)
                        let mut t = utf8_text(rng, len.max(1));
                        let i = rng.below(t.len() as u64) as usize;
                        t[i] = 0xff;
                        t
                    } else {
                        utf8_text(rng, len)
                    };
                    c.put(buf, &text);
                    let fd = rng.u32();
                    c.put(argp, &fd.to_be_bytes());
                    c.put(argp + 4, &buf.to_be_bytes());
                    c.put(argp + 8, &(text.len() as u32).to_be_bytes());
                    if rng.chance(1, 8) {
                        // a second call right behind the first
                        c.put_words(c.pc + 2, &[0x5700]);
                        c.n = 2;
                    }
                }
                6..=8 => {
                    // set_handler, then an interrupt of that vector at the next boundary
                    c.er[0] = 113;
                    let v: u32 = match rng.below(4) {
                        0 => rng.below(256) as u32,
                        1 => *rng.pick(&[0u32, 1, 63, 64, 255, 0x100, 0xffffffff]),
                        _ => rng.range(1, 63) as u32,
                    };
                    let addr = if rng.chance(3, 4) { code_addr(rng, 2) } else { rng.u32() & 0x00ffffff & !1 };
                    // the argument block may lie on the very memory the call writes: its address field on the GOT-save slot
                    // H'FFFD10 + 4V (or the block across it), or on the vector slot 4V itself — both fields are read before anything
                    // is written
                    let mut argp = argp;
                    if (1..=63).contains(&v) && rng.chance(1, 10) {
                        argp = match rng.below(4) {
                            0 => 0xfffd0c + 4 * v,
                            1 => 0xfffd10 + 4 * v,
                            2 => 0xfffd0e + 4 * v,
                            _ => (4 * v).saturating_sub(4),
                        };
                        c.er[1] = argp;
                    }
                    c.put(argp, &v.to_be_bytes());
                    c.put(argp + 4, &addr.to_be_bytes());
                    c.ccr &= 0x7f;
                    c.n = 1;
                    c.irq = Some(vec![(1, (v & 0xff) as u8)]);
                    if v == 0 || v > 63 {
                        // ignored vectors: the (tagged) vector table must stay as it is; interrupt a neighbour instead
                        c.irq = Some(vec![(1, rng.range(1, 63) as u8)]);
                    } else if rng.chance(1, 3) {
                        // the request is already queued (and masked) when the handler is installed: it must stay queued, and
                        // once the program unmasks (ANDC #H'7F,CCR behind the call) it enters the new handler
                        c.ccr |= 0x80;
                        let other = rng.range(1, 63) as u8;
                        c.irq = Some(match rng.below(3) {
                            0 => vec![(0, v as u8)],
                            1 => vec![(0, other), (0, v as u8)],
                            _ => vec![(0, v as u8), (0, other)],
                        });
                        if rng.chance(1, 2) {
                            c.put_words(c.pc + 2, &[0x067f]);
                            c.n = 2;
                        }
                    }
                }
                _ => {
                    // unsupported call numbers must stop execution
                    c.er[0] = match rng.below(4) {
                        0 => 0,
                        1 => 103,
                        2 => 105,
                        _ => match rng.below(3) {
                            // only the whole 32-bit ER0 selects a call: the low word alone must not
                            0 => ((rng.range(1, 0xffff) as u32) << 16) | *rng.pick(&[104u32, 113]),
                            1 => *rng.pick(&[104u32, 113]) << 16,
                            _ => rng.u32(),
                        },
                    };
                    if c.er[0] == 104 || c.er[0] == 113 {
                        c.er[0] = 1;
                    }
                }
            }
            emit(c.line());
        }
    }

    /// registers that make memory operands mostly valid
    /// C09: MOV.B/W/L through a 32-bit absolute address field at or above 2^24 whose low 24 bits name an existing location
    fn gen_abs32(&self, ctx: &Ctx, rng: &mut Rng, emit: &mut dyn FnMut(String)) {
        let n = if ctx.quick() { 600 } else { 20_000 };
        for k in 0..n {
            if !ctx.mine(k as u64 + 1) {
                continue;
            }
            let low: u32 = match rng.below(6) {
                0 => 0xffc100 + 2 * rng.below(0x400) as u32,
                1 => 0x400100 + 2 * rng.below(0x8000) as u32,
                2 => 2 * rng.below(0x7c) as u32,
                3 => 0xfee010 + 2 * rng.below(0x70) as u32,
                4 => 0xffff30 + 2 * rng.below(0x20) as u32,
                _ => *rng.pick(&[0xffbf20u32, 0xffff1c, 0x400000, 0x5ffffc, 0x0, 0xfc]),
            };
            let anyb = rng.range(1, 255) as u32;
            let top: u32 = *rng.pick(&[0x01u32, 0x01, 0x7f, 0x80, 0xff, 0x10, anyb]);
            let r = rng.below(16) as u16;
            let store = rng.chance(2, 3);
            let mut c = CaseB::new();
            c.er = rand_regs(rng);
            c.ccr = rng.u8();
            c.pc = if low >= 0xffc000 { 0x418000 + 2 * rng.below(0x100) as u32 } else { 0xffc800 + 2 * rng.below(0x100) as u32 };
            let hi = ((top << 8) | (low >> 16)) as u16;
            let lo = (low & 0xffff) as u16;
            let ws: Vec<u16> = match rng.below(3) {
                0 => vec![0x6a20 | if store { 0x80 } else { 0 } | r, hi, lo],
                1 => vec![0x6b20 | if store { 0x80 } else { 0 } | r, hi, lo],
                _ => vec![0x0100, 0x6b20 | if store { 0x80 } else { 0 } | (r & 7), hi, lo],
            };
            c.put_words(c.pc, &ws);
            // known contents at the aliased location
            c.put(low, &[0x5a, 0xa5, 0x3c, 0xc3]);
            emit(c.line());
        }
    }

    fn addr_regs(rng: &mut Rng) -> [u32; 8] {
        let mut er = [0u32; 8];
        for e in er.iter_mut() {
            *e = if rng.chance(2, 3) { data_addr(rng, 4, true) } else { interesting32(rng) };
        }
        er[7] = (data_addr(rng, 4, false).max(0x400010) & !3) | if rng.chance(1, 3) { 2 } else { 0 };
        er
    }

    /// C07: every first word, and every second / third word of the multi-word prefixes
    fn gen_all_words(&self, ctx: &Ctx, rng: &mut Rng, emit: &mut dyn FnMut(String)) {
        let quick = ctx.quick();
        let mut idx: u64 = 0;
        let stride: u32 = if quick { 4 } else { 1 };
        let off = (ctx.seed % stride as u64) as u32;
        let mut one = |ws: &[u16], rng: &mut Rng, idx: &mut u64| {
            *idx += 1;
            if !ctx.mine(*idx) {
                return;
            }
            let mut c = CaseB::new();
            c.er = Self::addr_regs(rng);
            c.ccr = rng.u8();
            c.pc = code_addr(rng, 12);
            // vectors / frames so that control transfers have somewhere to go
            c.put_words(c.pc, ws);
            emit(c.line());
        };
        // (a) all first words x following-word policies (zeros, random, most plausible continuation)
        for w0 in 0..=0xffffu32 {
            for policy in 0..3 {
                if (w0 + policy + off) % stride != 0 && !quick {
                    continue;
                }
                // quick: every first word exactly once, the continuation policy rotating with the word and the seed
                if quick && (w0 + off) % 3 != policy {
                    continue;
                }
                let tail: [u16; 4] = match policy {
                    0 => [0, 0, 0, 0],
                    1 => [rng.u16(), rng.u16(), rng.u16(), rng.u16()],
                    _ => [(rng.u16() & 0x00ff) | *rng.pick(&[0x6900u16, 0x6b00, 0x6d00, 0x6f00, 0x7800, 0x6a00, 0x6300, 0x6700, 0x7000]), 0x6b20 | (rng.u16() & 0x8f), rng.u16() & 0xff, rng.u16()],
                };
                one(&[w0 as u16, tail[0], tail[1], tail[2], tail[3]], rng, &mut idx);
            }
        }
        // (b) all second words of every prefix class
        let prefixes: Vec<u16> = vec![0x0100, 0x0140, 0x01f0, 0x01c0, 0x01d0, 0x7800, 0x7810, 0x7870, 0x7c00, 0x7c30, 0x7d10, 0x7d70, 0x7e08, 0x7eff, 0x7f10, 0x7fb2, 0x6a00, 0x6a20, 0x6a80, 0x6aa5, 0x6b00, 0x6b29, 0x6ba0, 0x5800, 0x58c0, 0x7b5c, 0x7bd4, 0x0f00, 0x7a08];
        for &p in &prefixes {
            for w1 in 0..=0xffffu32 {
                if quick && (w1 + off + p as u32) % (stride * 4) != 0 {
                    continue;
                }
                one(&[p, w1 as u16, if rng.chance(1, 2) { 0x6ba0 } else { 0x6b20 | (rng.u16() & 0x8f) }, rng.u16() & 0x00ff, rng.u16()], rng, &mut idx);
            }
        }
        // (c) third words after 0100 78r0 / 0140 78r0 / 78r0 6A2x
        for &(p0, p1) in &[(0x0100u16, 0x7800u16), (0x0100, 0x7890), (0x0140, 0x7810), (0x0140, 0x7820)] {
            for w2 in 0..=0xffffu32 {
                if quick && (w2 + off) % (stride * 8) != 0 {
                    continue;
                }
                one(&[p0, p1, w2 as u16, rng.u16() & 0x00ff, rng.u16()], rng, &mut idx);
            }
        }
        // (d) the three-word families with an operand that EXISTS: after 0100 78r0 / 0140 78r0 every third word with high byte 6A / 6B
        //     (the load / store tag and the register field live there), base register in on-chip RAM or DRAM and a small displacement,
        //     so that a wrongly accepted encoding executes instead of failing on an unmapped operand
        for &p0 in &[0x0100u16, 0x0140] {
            for r in [1u16, 5, 7] {
                for w2 in (0x6a00u32..=0x6bff).chain([0x6900u32, 0x6d20, 0x6f20, 0x7820, 0x6b21, 0x6ba1].into_iter()) {
                    idx += 1;
                    if !ctx.mine(idx) {
                        continue;
                    }
                    let mut c = CaseB::new();
                    c.er = Self::addr_regs(rng);
                    c.er[r as usize] = if rng.chance(1, 2) { 0xffc100 + 4 * rng.below(64) as u32 } else { 0x420000 + 4 * rng.below(64) as u32 };
                    c.ccr = rng.u8();
                    c.pc = 0xffc800 + 2 * rng.below(64) as u32;
                    c.put_words(c.pc, &[p0, 0x7800 | (r << 4), w2 as u16, 0x0000, (rng.u16() & 0x3c)]);
                    emit(c.line());
                }
            }
        }
    }

    /// C06: interrupt entry for every vector, TRAPA, and entry + RTE round trips (nested)
    fn gen_entry_cases(&self, ctx: &Ctx, rng: &mut Rng, emit: &mut dyn FnMut(String)) {
        let mut idx: u64 = 0;
        let reps = if ctx.quick() { 6 } else { 60 };
        for v in 1..64u32 {
            for ccr in 0..256u32 {
                if ctx.quick() && (ccr + v + ctx.seed as u32) % 4 != 0 {
                    continue;
                }
                idx += 1;
                if !ctx.mine(idx) {
                    continue;
                }
                // entry alone (n=0), I clear so that it is accepted; every 8th with I set (stays pending)
                let mut c = CaseB::new();
                c.er = rand_regs(rng);
                c.er[7] = (data_addr(rng, 4, false).max(0x400010) & !3) | if rng.chance(1, 3) { 2 } else { 0 };
                c.ccr = if ccr % 8 == 7 { ccr as u8 | 0x80 } else { ccr as u8 & 0x7f };
                c.pc = code_addr(rng, 2);
                let t = code_addr(rng, 2);
                c.put(4 * v, &[rng.u8(), (t >> 16) as u8, (t >> 8) as u8, t as u8]);
                c.n = 0;
                c.irq = Some(vec![(0, v as u8)]);
                emit(c.line());
                // entry followed by RTE at the handler: context restored
                let mut c2 = c.clone();
                c2.n = 1;
                c2.put_words(t, &[0x5670]);
                emit(c2.line());
            }
        }
        for _ in 0..reps * 200 {
            idx += 1;
            if !ctx.mine(idx) {
                continue;
            }
            // nested: TRAPA #a at pc; handler a does TRAPA #b; handler b RTE; then RTE
            let mut c = CaseB::new();
            c.er = rand_regs(rng);
            c.er[7] = (data_addr(rng, 4, false).max(0x400040) & !3) | if rng.chance(1, 3) { 2 } else { 0 } | if rng.chance(1, 3) { (rng.u8() as u32) << 24 } else { 0 };
            c.ccr = rng.u8();
            c.pc = code_addr(rng, 2);
            let a = rng.range(1, 3) as u32;
            let mut b = rng.range(1, 3) as u32;
            if b == a {
                b = a % 3 + 1;
            }
            let (ha, hb) = (0xffd000 + 0x100 * rng.below(8) as u32, 0x418000 + 0x100 * rng.below(8) as u32);
            c.put(0x20 + 4 * a, &[rng.u8(), (ha >> 16) as u8, (ha >> 8) as u8, ha as u8]);
            c.put(0x20 + 4 * b, &[rng.u8(), (hb >> 16) as u8, (hb >> 8) as u8, hb as u8]);
            c.put_words(c.pc, &[0x5700 | ((a as u16) << 4)]);
            c.put_words(ha, &[0x5700 | ((b as u16) << 4), 0x5670]);
            c.put_words(hb, &[0x5670]);
            c.n = 4;
            emit(c.line());
        }
        // plain single TRAPA / RTE instances over all CCR
        let forms: Vec<Form> = self.forms.iter().filter(|f| f.valid && f.is_family(&["TRAPA", "RTE"])).cloned().collect();
        for form in &forms {
            for ccr in 0..256u32 {
                for _ in 0..(if ctx.quick() { 2 } else { 16 }) {
                    idx += 1;
                    if !ctx.mine(idx) {
                        continue;
                    }
                    let mut fixed = BTreeMap::new();
                    if form.name == "TRAPA" {
                        fixed.insert('i', rng.range(1, 3));
                    }
                    let wild = rng.chance(1, 3);
                    let mut c = instance(form, rng, GenOpt { wild_addr: wild, vary_bsc: false, vector_data: false }, &fixed);
                    c.ccr = ccr as u8;
                    emit(c.line());
                }
            }
        }
    }

    /// C05: generated call/return programs (nesting depth 1..8), all call forms, RTS
    fn gen_call_programs(&self, ctx: &Ctx, rng: &mut Rng, emit: &mut dyn FnMut(String)) {
        let n = if ctx.quick() { 4000 } else { 60000 } / ctx.nshards;
        for _ in 0..n {
            let depth = rng.range(1, 8) as usize;
            let mut c = CaseB::new();
            c.er = rand_regs(rng);
            c.ccr = rng.u8();
            let sp_hi = if rng.chance(1, 3) { (rng.u8() as u32) << 24 } else { 0 };
            c.er[7] = (if rng.chance(1, 2) { 0xffe800 } else { 0x41f000 } + 4 * rng.below(64) as u32 + if rng.chance(1, 4) { 2 } else { 0 }) | sp_hi;
            // function k lives at base + 0x40*k; code region RAM or DRAM
            let base: u32 = if rng.chance(1, 2) { 0xffc000 } else { 0x416900 } + 0x400 * rng.below(8) as u32;
            let faddr = |k: usize| base + 0x40 * k as u32;
            let mut steps = 0u32;
            for k in 0..=depth {
                let mut ws: Vec<u16> = Vec::new();
                // a harmless ALU instruction on a scratch register (ADDS #1,ER3 / INC.B R4L)
                if rng.chance(1, 2) {
                    ws.push(0x0b03);
                    steps += 1;
                }
                if k < depth {
                    let here = faddr(k) + 2 * ws.len() as u32;
                    let target = faddr(k + 1);
                    match rng.below(5) {
                        0 => {
                            // BSR d:8
                            let d = target.wrapping_sub(here + 2) as i32;
                            if (-128..128).contains(&d) {
                                ws.push(0x5500 | (d as u8 as u16));
                            } else {
                                ws.push(0x5c00);
                                ws.push(target.wrapping_sub(here + 4) as u16);
                            }
                        }
                        1 => {
                            ws.push(0x5c00);
                            ws.push(target.wrapping_sub(here + 4) as u16);
                        }
                        2 => {
                            ws.push(0x5e00 | ((target >> 16) as u16 & 0xff));
                            ws.push(target as u16);
                        }
                        3 => {
                            // JSR @ER(k%6), register preloaded with the target (upper byte arbitrary)
                            let r = (k % 6) as u16;
                            c.er[r as usize] = target | ((rng.u8() as u32) << 24);
                            ws.push(0x5d00 | (r << 4));
                        }
                        _ => {
                            // JSR @@aa:8 through a vector slot
                            let slot = 0x40 + 4 * k as u32;
                            c.put(slot, &[rng.u8(), (target >> 16) as u8, (target >> 8) as u8, target as u8]);
                            ws.push(0x5f00 | slot as u16);
                        }
                    }
                    steps += 1;
                    if rng.chance(1, 2) {
                        ws.push(0x0a0c); // INC.B R4L after the call returns
                        steps += 1;
                    }
                }
                if k > 0 {
                    ws.push(0x5470);
                    steps += 1;
                } else {
                    ws.push(0x0b04); // ADDS #1,ER4: the last instruction of main
                    steps += 1;
                }
                c.put_words(faddr(k), &ws);
            }
            c.pc = faddr(0);
            c.n = steps;
            emit(c.line());
        }
    }
}

// ------------------------------------------------------------------------------------ judging

fn parse_mem(s: &str) -> BTreeMap<u32, u32> {
    let mut m = BTreeMap::new();
    for e in s.split(',').filter(|e| !e.is_empty()) {
        if let Some((a, v)) = e.split_once(':') {
            m.insert(u32::from_str_radix(a, 16).unwrap_or(0), u32::from_str_radix(v, 16).unwrap_or(0));
        }
    }
    m
}

/// compare an `ok ...` implementation line with a model/spec line field by field.
/// `dc`: don't-care markers of the Spec; `with_cost`: compare cost= too.  Returns the first difference.
/// initial memory overrides of a step case (`mem=addr:hexbytes;...`)
fn case_mem(case: &str) -> BTreeMap<u32, u32> {
    let mut m = BTreeMap::new();
    for e in field(case, "mem").unwrap_or("").split(';').filter(|e| !e.is_empty()) {
        if let Some((a, bytes)) = e.split_once(':') {
            let a = u32::from_str_radix(a, 16).unwrap_or(0);
            for (k, ch) in bytes.as_bytes().chunks(2).enumerate() {
                let v = u32::from_str_radix(std::str::from_utf8(ch).unwrap_or("0"), 16).unwrap_or(0);
                m.insert(a.wrapping_add(k as u32), v);
            }
        }
    }
    m
}

pub fn diff_state(case: &str, imp: &str, other: &str, dc: &[&str], with_cost: bool, case_ccr: u8) -> Option<String> {
    for key in ["pc", "er", "msgs", "pend", "trace"] {
        let a = field(imp, key);
        let b = field(other, key);
        if b.is_some() && a != b {
            return Some(format!("{}: impl {} expected {}", key, a.unwrap_or("-"), b.unwrap_or("-")));
        }
    }
    if with_cost {
        if field(imp, "cost") != field(other, "cost") {
            return Some(format!("cost: impl {} expected {}", field(imp, "cost").unwrap_or("-"), field(other, "cost").unwrap_or("-")));
        }
    }
    let ca = u32::from_str_radix(field(imp, "ccr").unwrap_or("0"), 16).unwrap_or(0);
    let cb = u32::from_str_radix(field(other, "ccr").unwrap_or("0"), 16).unwrap_or(0);
    let mask = if dc.contains(&"ui") { 0xbf } else { 0xff };
    if (ca & mask) != (cb & mask) {
        return Some(format!("ccr: impl {:02x} expected {:02x} (initial {:02x})", ca, cb, case_ccr));
    }
    let mut ma = parse_mem(field(imp, "mem").unwrap_or(""));
    let mut mb = parse_mem(field(other, "mem").unwrap_or(""));
    for d in dc {
        if let Some(a) = d.strip_prefix("m:") {
            let a = u32::from_str_radix(a, 16).unwrap_or(0);
            ma.remove(&a);
            mb.remove(&a);
        }
        if let Some(a) = d.strip_prefix("stcw:") {
            // the word at a must hold CCR in at least one byte; nothing else about it is fixed
            let a = u32::from_str_radix(a, 16).unwrap_or(0);
            // a byte the instruction left unchanged is absent from the delta: its value is the case's initial content
            let init = case_mem(case);
            let cur = |m: &BTreeMap<u32, u32>, x: u32| m.get(&x).copied().unwrap_or_else(|| init.get(&x).copied().unwrap_or(tag(x) as u32));
            let (b0, b1) = (cur(&ma, a), cur(&ma, (a + 1) & 0xffffff));
            ma.remove(&a);
            ma.remove(&((a + 1) & 0xffffff));
            mb.remove(&a);
            mb.remove(&((a + 1) & 0xffffff));
            if b0 != case_ccr as u32 && b1 != case_ccr as u32 {
                return Some(format!("stc.w: neither byte of the word at {:x} holds CCR {:02x} ({:02x} {:02x})", a, case_ccr, b0, b1));
            }
        }
    }
    if ma != mb {
        return Some(format!("memory: impl {:x?} expected {:x?}", ma, mb));
    }
    None
}

/// the top byte of the 32-bit address field when the instruction at pc is MOV.B/W @aa:24 (6A2r / 6AAr / 6B2r / 6BAr) or
/// MOV.L @aa:24 (0100 6B2r / 6BAr)
fn abs32_top(case: &str) -> Option<u32> {
    let pc = u32::from_str_radix(field(case, "pc")?, 16).ok()?;
    let mem = case_mem(case);
    let word = |a: u32| -> Option<u32> { Some((*mem.get(&a)? << 8) | *mem.get(&(a + 1))?) };
    let mut a = pc;
    let mut w = word(a)?;
    if w == 0x0100 {
        a += 2;
        w = word(a)?;
        if w & 0xff70 != 0x6b20 {
            return None;
        }
    } else if !(w & 0xff70 == 0x6a20 || w & 0xff70 == 0x6b20) {
        return None;
    }
    Some(word(a + 2)? >> 8)
}

fn clip_s(x: &str) -> String {
    x.chars().take(200).collect()
}

fn allowed_tags(prop: &str) -> &'static [&'static str] {
    match prop {
        "C04" => &["io"],
        "C08" => &["hibyte", "wrapsum", "sethandler"],
        "C14" => &["syscall", "sethandler"],
        "C15" => &["io", "hibyte", "wrapsum", "syscall", "sethandler", "sfr", "oddaddr", "overlap", "divzero", "divovf", "oddtarget", "pcwrap", "unmapped", "wrap", "badutf8"],
        "C07" => &["io", "hibyte", "syscall", "sethandler"],
        // the charge of a word / long operand does not depend on the address being even (what such an access does to the state is left open)
        "C20" => &["oddaddr"],
        _ => &[],
    }
}

pub fn judge_step(ctx: &Ctx, case: &str, imp: &str, drv: &str) -> (Verdict, String, Option<u64>) {
    // drv: "M <line> | S <line> | D kf=<id|->"
    let parts: Vec<&str> = drv.split(" | ").collect();
    let m = parts.get(0).map(|s| s.trim_start_matches("M ")).unwrap_or("");
    let s = parts.get(1).map(|s| s.trim_start_matches("S ")).unwrap_or("");
    let d = parts.get(2).copied().unwrap_or("");
    let kf = field(d, "kf").filter(|k| *k != "-").map(|k| format!("{}-{}", ctx.prop, k));
    let prop = ctx.prop.as_str();
    let sw: Vec<&str> = s.split(' ').collect();
    let class = sw.get(0).copied().unwrap_or("?");
    let form = sw.get(1).copied().unwrap_or("-");
    let case_ccr = u8::from_str_radix(field(case, "ccr").unwrap_or("0"), 16).unwrap_or(0);
    let imp_class = imp.split(|c| c == ' ' || c == '@').next().unwrap_or("?");
    let key = format!("{} {}", class, form);
    let model_known = !m.starts_with("none");
    // correspondence: exact equality with the model of the code (when the model covers the case)
    let corr = if !model_known {
        None
    } else if imp_class == "ok" && m.starts_with("ok") {
        diff_state(case, imp, m, &[], true, case_ccr)
    } else if imp.split(' ').next() == m.split(' ').next() {
        None
    } else {
        Some(format!("outcome: impl {} model {}", imp.split(' ').next().unwrap_or(""), m.split(' ').next().unwrap_or("")))
    };
    let tags: Vec<&str> = field(s, "tags").unwrap_or("").split(',').filter(|t| !t.is_empty()).collect();
    let dc: Vec<&str> = field(s, "dc").unwrap_or("").split(',').filter(|t| !t.is_empty()).collect();
    let fam = family(prop);
    let in_family = (fam.iter().any(|p| form.starts_with(p)) || ((form == "IRQ" || form == "SEQ") && matches!(prop, "C05" | "C06" | "C10")))
        && !(prop == "C06" && form == "TRAPA" && tags.contains(&"syscall"));
    let tags_ok = tags.iter().all(|t| allowed_tags(prop).contains(t));
    // C15: the only requirement is "never a panic"
    if prop == "C15" {
        let v = if imp_class == "panic" {
            let k = if corr.is_none() { kf.clone().filter(|id| ctx.known.contains(id)) } else { None };
            Verdict::Oracle(format!("the emulator panicked ({})", imp), k)
        } else if let Some(c) = corr {
            Verdict::Corr(c)
        } else {
            Verdict::Agree
        };
        let hk = fnv(&format!("{}{}", key, imp_class));
        return (v, key, Some(hk));
    }
    // C09, "anything at or above 2^24 makes reads and writes fail with an access error and changes nothing", through the
    // absolute-address helpers: MOV.B/W/L with a 32-bit address field whose top byte is not zero must stop with an error and
    // must not have stored anything (in particular not at the location with the same low 24 bits)
    if prop == "C09" {
        if let Some(top) = abs32_top(case) {
            if top != 0 {
                let why = if imp_class == "ok" {
                    Some(format!("the access is at or above 2^24 and must fail, impl executed it: {}", clip_s(imp)))
                } else if let Some(w) = field(imp, "wrote").filter(|w| !w.is_empty()) {
                    Some(format!("the access at or above 2^24 fails but memory has changed: {}", clip_s(w)))
                } else {
                    None
                };
                let v = match why {
                    Some(w) => Verdict::Oracle(w, None),
                    None => match corr {
                        Some(c) => Verdict::Corr(c),
                        None => Verdict::Agree,
                    },
                };
                return (v, "abs32".to_string(), Some(fnv(case)));
            }
        }
    }
    // a data access to an unmapped address must fail (C09), whatever the instruction: nothing else about the case is judged
    let unmapped_only = tags.contains(&"unmapped") && tags.iter().all(|t| *t == "unmapped" || allowed_tags(prop).contains(t));
    let oracle: Option<Option<String>> = match class {
        "valid" if in_family && unmapped_only && !tags_ok && prop != "C20" => Some(if imp_class == "ok" {
            Some(format!("{} accesses unmapped memory and must fail with an access error, impl executed it: {}", form, clip_s(imp)))
        } else {
            None
        }),
        "valid" if in_family && tags_ok => Some(if imp_class != "ok" {
            Some(format!("valid {} must execute, impl says {}", form, imp))
        } else if prop == "C20" {
            // C20 is about the charge only; the state is C01-C08's subject
            if field(imp, "cost") != field(s, "cost") {
                Some(format!("cost: impl {} expected {}", field(imp, "cost").unwrap_or("-"), field(s, "cost").unwrap_or("-")))
            } else {
                None
            }
        } else {
            diff_state(case, imp, s, &dc, false, case_ccr)
        }),
        "unimpl" | "reject" | "fetchfault" if prop == "C07" || prop == "C14" => Some(if imp_class == "ok" {
            Some(format!("{} {} must stop with an error, impl executed it: {}", class, form, imp))
        } else if imp_class == "panic" {
            None // a panic is C15's subject; for C07 it still "stops"
        } else {
            None
        }),
        _ => None,
    };
    let v = match oracle {
        None => match corr {
            Some(c) => Verdict::Corr(c),
            None => Verdict::Out,
        },
        Some(Some(why)) => {
            let k = if corr.is_none() { kf.filter(|id| ctx.known.contains(id)) } else { None };
            Verdict::Oracle(why, k)
        }
        Some(None) => match corr {
            Some(c) => Verdict::Corr(c),
            None => Verdict::Agree,
        },
    };
    // distinct non-trivial: distinct (form, register fields, region of pc, region of first data address, ccr class) where
    // the instruction changes some state besides PC
    let nt = match (&v, class) {
        (Verdict::Out, _) => None,
        (_, "valid") => {
            let w0 = field(case, "mem").unwrap_or("").split(';').next().unwrap_or("").to_string();
            Some(fnv(&format!("{}|{}|{}", form, w0, field(imp, "er").unwrap_or(""))))
        }
        _ => Some(fnv(&format!("{}|{}", key, field(case, "mem").unwrap_or("")))),
    };
    (v, key, nt)
}
