//! Shared harness utilities: PRNG, shard context, result accounting.
use std::collections::BTreeMap;
use std::fs::File;
use std::io::{BufRead, BufReader, BufWriter, Write};
use std::path::{Path, PathBuf};

/// SplitMix64 — every random choice of a shard derives from one state.
#[derive(Clone)]
pub struct Rng(pub u64);
impl Rng {
    pub fn new(seed: u64) -> Self {
        Rng(seed.wrapping_mul(0x9E3779B97F4A7C15) ^ 0xD1B54A32D192ED03)
    }
    pub fn next(&mut self) -> u64 {
        self.0 = self.0.wrapping_add(0x9E3779B97F4A7C15);
        let mut z = self.0;
        z = (z ^ (z >> 30)).wrapping_mul(0xBF58476D1CE4E5B9);
        z = (z ^ (z >> 27)).wrapping_mul(0x94D049BB133111EB);
        z ^ (z >> 31)
    }
    pub fn below(&mut self, n: u64) -> u64 {
        if n == 0 {
            0
        } else {
            self.next() % n
        }
    }
    pub fn range(&mut self, lo: u64, hi: u64) -> u64 {
        lo + self.below(hi - lo + 1)
    }
    pub fn chance(&mut self, num: u64, den: u64) -> bool {
        self.below(den) < num
    }
    pub fn pick<'a, T>(&mut self, xs: &'a [T]) -> &'a T {
        &xs[self.below(xs.len() as u64) as usize]
    }
    pub fn u8(&mut self) -> u8 {
        self.next() as u8
    }
    pub fn u16(&mut self) -> u16 {
        self.next() as u16
    }
    pub fn u32(&mut self) -> u32 {
        self.next() as u32
    }
}

pub struct Ctx {
    pub prop: String,
    pub tier: String,
    pub seed: u64,
    pub shard: u64,
    pub nshards: u64,
    pub out: PathBuf,
    pub drv: String,
    pub replay: Option<String>,
    pub known: Vec<String>,
}

impl Ctx {
    pub fn quick(&self) -> bool {
        self.tier != "thorough"
    }
    pub fn rng(&self, stream: u64) -> Rng {
        Rng::new(self.seed ^ (self.shard.wrapping_mul(0xA24BAED4963EE407)) ^ stream.wrapping_mul(0x9FB21C651E98DF25))
    }
    /// true if item number `i` of an enumerated sweep belongs to this shard
    pub fn mine(&self, i: u64) -> bool {
        i % self.nshards == self.shard
    }
}

pub struct Out {
    pub cases: BufWriter<File>,
    pub imp: BufWriter<File>,
    pub n: u64,
}

impl Out {
    pub fn new(dir: &Path) -> Self {
        std::fs::create_dir_all(dir).unwrap();
        Out {
            cases: BufWriter::with_capacity(1 << 20, File::create(dir.join("cases.txt")).unwrap()),
            imp: BufWriter::with_capacity(1 << 20, File::create(dir.join("impl.txt")).unwrap()),
            n: 0,
        }
    }
    pub fn emit(&mut self, case: &str, imp: &str) {
        debug_assert!(!case.contains('\n') && !imp.contains('\n'));
        self.cases.write_all(case.as_bytes()).unwrap();
        self.cases.write_all(b"\n").unwrap();
        self.imp.write_all(imp.as_bytes()).unwrap();
        self.imp.write_all(b"\n").unwrap();
        self.n += 1;
    }
    pub fn finish(mut self) -> u64 {
        self.cases.flush().unwrap();
        self.imp.flush().unwrap();
        self.n
    }
}

/// Run the Lean driver over cases.txt, producing drv.txt.
pub fn run_driver(ctx: &Ctx) {
    let cases = File::open(ctx.out.join("cases.txt")).unwrap();
    let drv = File::create(ctx.out.join("drv.txt")).unwrap();
    // the driver runs under an address-space limit so that a runaway case cannot exhaust the machine
    let st = std::process::Command::new("sh")
        .arg("-c")
        .arg(format!("ulimit -v 8000000; exec {}", ctx.drv))
        .stdin(cases)
        .stdout(drv)
        .status()
        .expect("cannot run h8drv");
    if !st.success() {
        eprintln!("h8drv failed: {:?}", st);
        std::process::exit(3);
    }
}

#[derive(Default)]
pub struct Tally {
    pub cases: u64,
    pub in_domain: u64,
    pub agree: u64,
    pub corr_mismatch: u64,
    pub oracle_viol: u64,
    pub known: BTreeMap<String, u64>,
    pub dist: BTreeMap<String, u64>,
    pub nontrivial: std::collections::HashSet<u64>,
    pub corr_samples: Vec<String>,
    pub viol_samples: Vec<String>,
    pub known_samples: BTreeMap<String, String>,
    pub samples: Vec<String>,
    pub per_key: BTreeMap<String, u32>,
}

pub fn fnv(s: &str) -> u64 {
    let mut h: u64 = 0xcbf29ce484222325;
    for b in s.as_bytes() {
        h ^= *b as u64;
        h = h.wrapping_mul(0x100000001b3);
    }
    h
}

pub enum Verdict {
    /// outside the property's domain: counted, not compared
    Out,
    Agree,
    /// implementation differs from the Lean model of the code
    Corr(String),
    /// implementation contradicts the Spec (property violated); optional known-finding id
    Oracle(String, Option<String>),
}

impl Tally {
    pub fn add(&mut self, case: &str, imp: &str, drv: &str, v: Verdict, dist_key: &str, nontrivial_key: Option<u64>) {
        self.cases += 1;
        *self.dist.entry(dist_key.to_string()).or_insert(0) += 1;
        if let Some(k) = nontrivial_key {
            self.nontrivial.insert(k);
        }
        if self.samples.len() < 3 || (self.cases % 9973 == 0 && self.samples.len() < 12) {
            self.samples.push(format!("{} => impl[{}] lean[{}]", case, imp, drv));
        }
        match v {
            Verdict::Out => {}
            Verdict::Agree => {
                self.in_domain += 1;
                self.agree += 1;
            }
            Verdict::Corr(d) => {
                self.in_domain += 1;
                self.corr_mismatch += 1;
                let pk = self.per_key.entry(format!("c{}", dist_key)).or_insert(0);
                *pk += 1;
                if *pk <= 2 && self.corr_samples.len() < 300 {
                    self.corr_samples.push(format!("{{\"case\":{:?},\"impl\":{:?},\"lean\":{:?},\"why\":{:?}}}", case, imp, drv, d));
                }
            }
            Verdict::Oracle(d, kf) => {
                self.in_domain += 1;
                match kf {
                    Some(id) => {
                        *self.known.entry(id.clone()).or_insert(0) += 1;
                        self.known_samples
                            .entry(id)
                            .or_insert_with(|| format!("{{\"case\":{:?},\"impl\":{:?},\"lean\":{:?},\"why\":{:?}}}", case, imp, drv, d));
                    }
                    None => {
                        self.oracle_viol += 1;
                        let pk = self.per_key.entry(format!("v{}", dist_key)).or_insert(0);
                        *pk += 1;
                        if *pk <= 2 && self.viol_samples.len() < 300 {
                            self.viol_samples
                                .push(format!("{{\"case\":{:?},\"impl\":{:?},\"lean\":{:?},\"why\":{:?}}}", case, imp, drv, d));
                        }
                    }
                }
            }
        }
    }

    pub fn write(&self, dir: &Path) {
        let mut f = File::create(dir.join("result.json")).unwrap();
        let js = |v: &Vec<String>| v.join(",");
        let dist: Vec<String> = self.dist.iter().map(|(k, v)| format!("{:?}:{}", k, v)).collect();
        let known: Vec<String> = self.known.iter().map(|(k, v)| format!("{:?}:{}", k, v)).collect();
        let ks: Vec<String> = self.known_samples.iter().map(|(k, v)| format!("{:?}:{}", k, v)).collect();
        let samples: Vec<String> = self.samples.iter().map(|s| format!("{:?}", s)).collect();
        {
            let mut nb = BufWriter::new(File::create(dir.join("nt.bin")).unwrap());
            for h in self.nontrivial.iter() {
                nb.write_all(&h.to_le_bytes()).unwrap();
            }
            nb.flush().unwrap();
        }
        write!(
            f,
            "{{\"cases\":{},\"in_domain\":{},\"agree\":{},\"corr_mismatch\":{},\"oracle_viol\":{},\"known\":{{{}}},\"known_samples\":{{{}}},\"dist\":{{{}}},\"nontrivial_shard\":{},\"corr_samples\":[{}],\"viol_samples\":[{}],\"samples\":[{}]}}",
            self.cases,
            self.in_domain,
            self.agree,
            self.corr_mismatch,
            self.oracle_viol,
            known.join(","),
            ks.join(","),
            dist.join(","),
            self.nontrivial.len(),
            js(&self.corr_samples),
            js(&self.viol_samples),
            samples.join(",")
        )
        .unwrap();
    }
}

/// Iterate the three line-aligned files.
pub fn for_each_case(dir: &Path, mut f: impl FnMut(&str, &str, &str)) {
    let a = BufReader::new(File::open(dir.join("cases.txt")).unwrap());
    let b = BufReader::new(File::open(dir.join("impl.txt")).unwrap());
    let c = BufReader::new(File::open(dir.join("drv.txt")).unwrap());
    let mut ib = b.lines();
    let mut ic = c.lines();
    for la in a.lines() {
        let la = la.unwrap();
        let lb = ib.next().expect("impl.txt short").unwrap();
        let lc = match ic.next() {
            Some(x) => x.unwrap(),
            None => {
                eprintln!("drv.txt shorter than cases.txt");
                std::process::exit(3);
            }
        };
        f(&la, &lb, &lc);
    }
}

/// value of `key=` in a space separated line
pub fn field<'a>(line: &'a str, key: &str) -> Option<&'a str> {
    for tok in line.split(' ') {
        if let Some(rest) = tok.strip_prefix(key) {
            if let Some(v) = rest.strip_prefix('=') {
                return Some(v);
            }
        }
    }
    None
}

/// `distinct f1 f2 ...`: number of distinct u64 values over the given nt.bin files
pub fn distinct(files: &[String]) -> u64 {
    let mut v: Vec<u64> = Vec::new();
    for f in files {
        let b = std::fs::read(f).unwrap_or_default();
        for c in b.chunks_exact(8) {
            v.push(u64::from_le_bytes(c.try_into().unwrap()));
        }
    }
    v.sort_unstable();
    v.dedup();
    v.len() as u64
}

/// Every integer literal of the emulator's CURRENT source text (the crate's `src/`, which links into `/repo/src`; the harness's
/// own files are left out). Generators mix these values — and their neighbours — into register contents and addresses, so that a
/// comparison against any constant in the code, whatever the constant is, is exercised from both sides.
pub fn source_numbers() -> &'static Vec<u64> {
    static N: std::sync::OnceLock<Vec<u64>> = std::sync::OnceLock::new();
    N.get_or_init(|| {
        fn scan(text: &str, out: &mut std::collections::BTreeSet<u64>) {
            let b = text.as_bytes();
            let mut i = 0;
            while i < b.len() {
                let c = b[i];
                let prev_ident = i > 0 && (b[i - 1].is_ascii_alphanumeric() || b[i - 1] == b'_');
                if c.is_ascii_digit() && !prev_ident {
                    let (radix, mut j) = if c == b'0' && i + 1 < b.len() && (b[i + 1] == b'x' || b[i + 1] == b'X') {
                        (16, i + 2)
                    } else if c == b'0' && i + 1 < b.len() && b[i + 1] == b'b' {
                        (2, i + 2)
                    } else {
                        (10, i)
                    };
                    let mut v: u64 = 0;
                    let mut digits = 0;
                    let mut ok = true;
                    while j < b.len() {
                        let d = b[j];
                        if d == b'_' {
                            j += 1;
                            continue;
                        }
                        let dv = match (d as char).to_digit(radix) {
                            Some(x) => x as u64,
                            None => break,
                        };
                        match v.checked_mul(radix as u64).and_then(|x| x.checked_add(dv)) {
                            Some(x) => v = x,
                            None => {
                                ok = false;
                            }
                        }
                        digits += 1;
                        j += 1;
                    }
                    if ok && digits > 0 {
                        out.insert(v);
                    }
                    // skip a type suffix / the rest of the token
                    while j < b.len() && (b[j].is_ascii_alphanumeric() || b[j] == b'_') {
                        j += 1;
                    }
                    i = j.max(i + 1);
                } else {
                    i += 1;
                }
            }
        }
        fn walk(dir: &Path, out: &mut std::collections::BTreeSet<u64>) {
            let mut entries: Vec<PathBuf> = match std::fs::read_dir(dir) {
                Ok(rd) => rd.filter_map(|e| e.ok().map(|e| e.path())).collect(),
                Err(_) => return,
            };
            entries.sort();
            for p in entries {
                let name = p.file_name().and_then(|n| n.to_str()).unwrap_or("").to_string();
                if p.is_dir() {
                    walk(&p, out);
                } else if name.ends_with(".rs") && !name.starts_with("m_") && !matches!(name.as_str(), "main.rs" | "util.rs" | "isa.rs") {
                    if let Ok(t) = std::fs::read_to_string(&p) {
                        scan(&t, out);
                    }
                }
            }
        }
        let mut out = std::collections::BTreeSet::new();
        walk(Path::new(concat!(env!("CARGO_MANIFEST_DIR"), "/src")), &mut out);
        out.into_iter().collect()
    })
}

/// a value of the source-literal pool or one of its neighbours (0 when the pool is empty)
pub fn source_number(rng: &mut Rng) -> u64 {
    let pool = source_numbers();
    if pool.is_empty() {
        return 0;
    }
    let v = pool[rng.below(pool.len() as u64) as usize];
    match rng.below(4) {
        0 => v.wrapping_sub(1),
        1 => v.wrapping_add(1),
        _ => v,
    }
}
