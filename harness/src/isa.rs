//! spec/isa.tbl reader and mostly-valid instruction instance generator.
use crate::util::Rng;
use std::collections::BTreeMap;

#[derive(Clone, Copy, PartialEq, Eq, Debug)]
pub enum EaKind {
    Ind,
    Disp16,
    Disp24,
    PostInc,
    PreDec,
    Abs8,
    Abs16,
    Abs24,
    MemInd,
}

#[derive(Clone)]
pub struct Form {
    pub name: String,
    /// per word: 16 entries MSB first: '0' | '1' | field letter
    pub words: Vec<[char; 16]>,
    pub valid: bool,
    pub instr: String,
    /// field letter -> number of bits
    pub fields: BTreeMap<char, usize>,
    pub ea: Option<(EaKind, Option<char>, Option<char>)>, // kind, register letter, disp/abs letter
    pub size: u32,                                          // operand size in bytes of the memory access (0 = none)
    pub mix: String,
}

fn parse_word(tok: &str) -> [char; 16] {
    let mut bits: Vec<char> = Vec::new();
    let cs: Vec<char> = tok.chars().collect();
    let mut i = 0;
    while i < cs.len() {
        let c = cs[i];
        if c == '[' {
            for k in 1..=4 {
                bits.push(cs[i + k]);
            }
            i += 6;
        } else if c.is_ascii_hexdigit() && !c.is_ascii_lowercase() {
            let v = c.to_digit(16).unwrap();
            for k in (0..4).rev() {
                bits.push(if (v >> k) & 1 == 1 { '1' } else { '0' });
            }
            i += 1;
        } else {
            for _ in 0..4 {
                bits.push(c);
            }
            i += 1;
        }
    }
    assert!(bits.len() == 16, "bad pattern {}", tok);
    let mut a = ['0'; 16];
    a.copy_from_slice(&bits);
    a
}

pub fn load_table(path: &str) -> Vec<Form> {
    let text = std::fs::read_to_string(path).expect("isa.tbl");
    let mut out = Vec::new();
    for line in text.lines() {
        if line.trim().is_empty() || line.trim_start().starts_with('#') {
            continue;
        }
        let f: Vec<&str> = line.split('|').map(|s| s.trim()).collect();
        let words: Vec<[char; 16]> = f[1].split_whitespace().map(parse_word).collect();
        let valid = f[2] == "V";
        let mix = f.get(3).copied().unwrap_or("").to_string();
        let instr = f.get(4).copied().unwrap_or("").to_string();
        let mut fields = BTreeMap::new();
        for w in &words {
            for &b in w.iter() {
                if b != '0' && b != '1' {
                    *fields.entry(b).or_insert(0) += 1;
                }
            }
        }
        // addressing mode from the instruction text
        let mut ea = None;
        let kinds = [
            (".ind ", EaKind::Ind),
            (".disp16 ", EaKind::Disp16),
            (".disp24 ", EaKind::Disp24),
            (".postinc ", EaKind::PostInc),
            (".predec ", EaKind::PreDec),
            (".abs8 ", EaKind::Abs8),
            (".abs16 ", EaKind::Abs16),
            (".abs24 ", EaKind::Abs24),
            (".memind ", EaKind::MemInd),
        ];
        for (pat, k) in kinds.iter() {
            if let Some(p) = instr.find(pat) {
                // `.jmp (.abs24 a)` is a target, not a data access
                if (instr.starts_with(".jmp") || instr.starts_with(".jsr")) && *k == EaKind::Abs24 {
                    continue;
                }
                let rest: Vec<char> = instr[p + pat.len()..].chars().collect();
                let l1 = rest.get(0).copied();
                let l2 = if rest.get(1) == Some(&' ') { rest.get(2).copied() } else { None };
                ea = Some(match k {
                    EaKind::Ind | EaKind::PostInc | EaKind::PreDec => (*k, l1, None),
                    EaKind::Disp16 | EaKind::Disp24 => (*k, l1, l2),
                    _ => (*k, None, l1),
                });
            }
        }
        let size = if instr.contains(".mov .B") || instr.starts_with(".bit") {
            1
        } else if instr.contains(".mov .W") || instr.starts_with(".stcW") {
            2
        } else if instr.contains(".mov .L") || instr.contains(".memind") {
            4
        } else {
            0
        };
        out.push(Form { name: f[0].to_string(), words, valid, instr, fields, ea, size, mix });
    }
    out
}

impl Form {
    pub fn nwords(&self) -> usize {
        self.words.len()
    }

    /// encode with the given field values
    pub fn encode(&self, vals: &BTreeMap<char, u64>) -> Vec<u16> {
        let mut left: BTreeMap<char, usize> = self.fields.clone();
        let mut out = Vec::new();
        for w in &self.words {
            let mut v: u16 = 0;
            for &b in w.iter() {
                v <<= 1;
                match b {
                    '0' => {}
                    '1' => v |= 1,
                    c => {
                        let n = left.get_mut(&c).unwrap();
                        *n -= 1;
                        let fv = vals.get(&c).copied().unwrap_or(0);
                        v |= ((fv >> *n) & 1) as u16;
                    }
                }
            }
            out.push(v);
        }
        out
    }

    pub fn is_family(&self, prefixes: &[&str]) -> bool {
        prefixes.iter().any(|p| self.name.starts_with(p))
    }
}

/// value pools
pub fn interesting32(rng: &mut Rng) -> u32 {
    const B: [u32; 28] = [
        0, 1, 2, 0x7f, 0x80, 0xff, 0x100, 0x7fff, 0x8000, 0xffff, 0x10000, 0x7fffffff, 0x80000000, 0xffffffff, 0xfffffffe, 0x0fffffff,
        0x10000000, 0x0fff, 0x1000, 0x0f, 0x10, 0x11223344, 0xaabbccdd, 0x55555555, 0xaaaaaaaa, 0x00ff00ff, 0xff00ff00, 0x80808080,
    ];
    match rng.below(7) {
        // a constant of the emulator's current source text (or a neighbour), in the low bits or shifted up
        6 => {
            let v = crate::util::source_number(rng) as u32;
            match rng.below(4) {
                0 => v << 16,
                1 => v << 24 | (rng.u32() & 0xffffff),
                _ => v,
            }
        }
        0 => *rng.pick(&B),
        1 => (*rng.pick(&B)).wrapping_add(rng.range(0, 2) as u32).wrapping_sub(1),
        2 => 1u32 << rng.below(32),
        3 => !(1u32 << rng.below(32)),
        4 => {
            // equal low 4 / 12 / 28 bits patterns for carry chains
            let k = *rng.pick(&[4u32, 8, 12, 16, 28]);
            let m = if k == 32 { u32::MAX } else { (1u32 << k) - 1 };
            (rng.u32() & !m) | (if rng.chance(1, 2) { m } else { 0 })
        }
        _ => rng.u32(),
    }
}

/// mapped data addresses (24-bit): on-chip RAM, DRAM, vector area, with both ends
pub fn data_addr(rng: &mut Rng, size: u32, allow_vector: bool) -> u32 {
    let (lo, hi) = match rng.below(if allow_vector { 7 } else { 6 }) {
        0 | 1 => (0xffbf20u32, 0xffff1fu32),
        2 | 3 => (0x400000, 0x5fffff),
        4 => (0x416900, 0x418000),
        5 => (0xffbf20, 0xffc000),
        _ => (0x0, 0xff),
    };
    let hi = hi + 1 - size.max(1);
    let a = match rng.below(6) {
        0 => lo,
        1 => hi,
        2 => lo + rng.range(0, 16) as u32,
        3 => hi - rng.range(0, 16).min((hi - lo) as u64) as u32,
        _ => rng.range(lo as u64, hi as u64) as u32,
    };
    if size > 1 {
        a & !1
    } else {
        a
    }
}

pub fn code_addr(rng: &mut Rng, nbytes: u32) -> u32 {
    let (lo, hi) = match rng.below(5) {
        0 | 1 => (0xffbf20u32, 0xffff1fu32),
        2 => (0x400000, 0x5fffff),
        _ => (0x416900, 0x420000),
    };
    let hi = (hi + 1 - nbytes) & !1;
    (match rng.below(8) {
        0 => lo,
        1 => hi,
        _ => rng.range(lo as u64, hi as u64) as u32,
    }) & !1
}
