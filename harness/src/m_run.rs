//! The whole `Cpu::run` loop on the real emulator (C13, C18).
//!
//! case: run exit=<h> er=<h,..x8> ccr=<h> mem=<addr:hex;...> lines=<hex,hex,...> plan=<n,...> wait=<0|1> [tcp=1] [kind=<label>]
//!   memory starts zeroed (`Cpu::new()`); ER2 is the start address, as after `elf::load`.
//!   lines = control-socket lines (hex of the UTF-8 text), all queued before the run starts;
//!   plan  = how many of them each successive poll of the socket delivers (exhausted plan: all the rest).
//!   tcp=1: a real TCP connection through `Socket::connect` (send/receive worker threads, framing);
//!          the lines are written by a client in random chunks, the bytes the emulator sends are `wire=`.
//! impl: <finished|stopped|error|panic|hang> sum=<dec> pc=<h> ccr=<h> er=<..> mem=<addr:byte,..> pins=<..x11> msgs=<hex,..> wire=<hex|-> rerun=<same|diff|->
use crate::cpu::Cpu;
use crate::util::*;
use crate::Mode;
use std::collections::BTreeMap;
use std::io::{Read, Write};
use std::sync::mpsc;
use std::time::Duration;

pub struct RunMode {
    counter: u32,
    bin: bool,
}

impl RunMode {
    pub fn new() -> Self {
        RunMode { counter: 0, bin: false }
    }
    /// cases for the release binary (`elf=` field): main.rs + elf::load + Cpu::run end to end
    pub fn new_bin() -> Self {
        RunMode { counter: 0, bin: true }
    }
}

/// Run the emulator binary on an ELF file with `-m` and return what can be observed from outside:
/// outcome, total state count and exit code from the log, the message sequence from stdout.
fn run_binary(elf: &str, args: &str) -> String {
    let bin = std::env::var("H8_BIN").unwrap_or_else(|_| "/verif/work/repo-target/release/koge29_h8-3069f_emulator".to_string());
    let mut cmd = std::process::Command::new("timeout");
    cmd.arg("60").arg(&bin).arg("--elf").arg(elf).arg("-m").arg("--log").arg("info");
    if !args.is_empty() {
        cmd.arg(format!("--args={}", args));
    }
    let out = match cmd.output() {
        Ok(o) => o,
        Err(e) => return format!("spawnfail:{}", e.to_string().replace(' ', "_")),
    };
    let stdout = String::from_utf8_lossy(&out.stdout).to_string();
    let stderr = String::from_utf8_lossy(&out.stderr).to_string();
    let log = format!("{}\n{}", stderr, stdout);
    // stdout = console text of the guest interleaved with `msg: <message>` lines, unescaped: compared as a whole
    let outb = &out.stdout;
    let mut hh: u64 = 0xcbf29ce484222325;
    for b in outb.iter() {
        hh ^= *b as u64;
        hh = hh.wrapping_mul(0x100000001b3);
    }
    let find = |key: &str| -> Option<String> {
        log.lines().find_map(|l| l.split_once(key).map(|(_, v)| v.trim().to_string()))
    };
    let outcome = match out.status.code() {
        Some(0) if log.contains("Finished program") => "finished",
        Some(0) => "stopped",
        Some(124) => "hang",
        // main() unwraps the Err that run() returns for a failing instruction
        Some(101) if log.contains("An error occurred when executing the opcode") => "error",
        Some(101) => "panic",
        _ => "error",
    };
    let sum = find("state: ").map(|v| v.split(',').next().unwrap_or("").trim().to_string()).unwrap_or_default();
    let code = find("Exit Code: ").unwrap_or_default();
    format!("{} sum={} exitcode={} outlen={} outfnv={:x} outhead={} rerun=-", outcome, sum, code, outb.len(), hh, hex(&outb[..outb.len().min(160)]))
}

fn h(s: &str) -> u32 {
    u32::from_str_radix(s, 16).unwrap_or(0)
}

fn unhex(s: &str) -> Vec<u8> {
    s.as_bytes().chunks(2).map(|c| u8::from_str_radix(std::str::from_utf8(c).unwrap_or("0"), 16).unwrap_or(0)).collect()
}

pub fn hex(bytes: &[u8]) -> String {
    bytes.iter().map(|b| format!("{:02x}", b)).collect()
}

#[derive(Clone)]
struct RunCase {
    exit: u32,
    er: [u32; 8],
    ccr: u8,
    mem: Vec<(u32, u8)>,
    lines: Vec<String>,
    plan: Vec<usize>,
    wait: bool,
    tcp: bool,
}

fn parse_case(case: &str) -> RunCase {
    let mut er = [0u32; 8];
    for (i, v) in field(case, "er").unwrap_or("").split(',').enumerate() {
        if i < 8 {
            er[i] = h(v);
        }
    }
    let mut mem = Vec::new();
    for e in field(case, "mem").unwrap_or("").split(';').filter(|e| !e.is_empty()) {
        if let Some((a, bytes)) = e.split_once(':') {
            for (k, b) in unhex(bytes).iter().enumerate() {
                mem.push((h(a).wrapping_add(k as u32), *b));
            }
        }
    }
    // every line is the hex of its UTF-8 text; the empty line is written "-"
    let lines: Vec<String> = field(case, "lines")
        .unwrap_or("")
        .split(',')
        .filter(|e| !e.is_empty())
        .map(|e| if e == "-" { String::new() } else { String::from_utf8_lossy(&unhex(e)).to_string() })
        .collect();
    RunCase {
        exit: h(field(case, "exit").unwrap_or("0")),
        er,
        ccr: h(field(case, "ccr").unwrap_or("0")) as u8,
        mem,
        lines,
        plan: field(case, "plan").unwrap_or("").split(',').filter(|e| !e.is_empty()).map(|e| h(e) as usize).collect(),
        wait: field(case, "wait") == Some("1"),
        tcp: field(case, "tcp") == Some("1"),
    }
}

fn poke(cpu: &mut Cpu, a: u32, v: u8) {
    let a = a & 0xffffff;
    match a {
        0..=0xff => cpu.bus.exception_handling_vector[a as usize] = v,
        0x400000..=0x5fffff => cpu.bus.dram[(a - 0x400000) as usize] = v,
        0xfee000..=0xfee0ff => cpu.bus.io_registrs1[(a - 0xfee000) as usize] = v,
        0xffbf20..=0xffff1f => cpu.bus.memory[(a - 0xffbf20) as usize] = v,
        0xffff20..=0xffffe9 => cpu.bus.io_registrs2[(a - 0xffff20) as usize] = v,
        _ => {}
    }
}

fn nonzero(cpu: &Cpu) -> Vec<(u32, u8)> {
    let mut out = Vec::new();
    let mut scan = |base: u32, s: &[u8]| {
        let mut i = 0;
        while i < s.len() {
            let e = (i + 4096).min(s.len());
            if s[i..e].iter().any(|b| *b != 0) {
                for j in i..e {
                    if s[j] != 0 {
                        out.push((base + j as u32, s[j]));
                    }
                }
            }
            i = e;
        }
    };
    scan(0, &cpu.bus.exception_handling_vector);
    scan(0x400000, &cpu.bus.dram);
    scan(0xfee000, &cpu.bus.io_registrs1);
    scan(0xffbf20, &cpu.bus.memory[..]);
    scan(0xffff20, &cpu.bus.io_registrs2);
    out
}

fn prepare(rc: &RunCase) -> Cpu {
    let mut cpu = Cpu::new();
    for (a, v) in &rc.mem {
        poke(&mut cpu, *a, *v);
    }
    cpu.er = rc.er;
    cpu.vh_set_ccr(rc.ccr);
    cpu.exit_addr = rc.exit;
    cpu
}

fn describe(cpu: &Cpu, outcome: &str, msgs: &[String], wire: Option<Vec<u8>>) -> String {
    let ers: Vec<String> = cpu.er.iter().map(|e| format!("{:x}", e)).collect();
    let mem: Vec<String> = nonzero(cpu).iter().map(|(a, v)| format!("{:x}:{:x}", a, v)).collect();
    let pins: Vec<String> = cpu.bus.io_port_in.iter().map(|v| format!("{:x}", v)).collect();
    let ms: Vec<String> = msgs.iter().map(|m| hex(m.as_bytes())).collect();
    format!(
        "{} sum={} pc={:x} ccr={:x} er={} mem={} pins={} msgs={} wire={}",
        outcome,
        cpu.vh_state_sum(),
        cpu.vh_pc(),
        cpu.vh_ccr(),
        ers.join(","),
        mem.join(","),
        pins.join(","),
        ms.join(","),
        match wire {
            Some(w) => hex(&w),
            None => "-".to_string(),
        }
    )
}

/// one execution of the case on its own thread (the hooks' capture buffer and batch plan are thread-local)
fn run_once(rc: RunCase, port: u16, chunk_seed: u64) -> String {
    let (res_tx, res_rx) = mpsc::channel::<String>();
    let rc2 = rc.clone();
    let (to_emu_tx, to_emu_rx) = mpsc::channel::<String>();
    let rescue_tx = to_emu_tx.clone();
    std::thread::spawn(move || {
        let rc = rc2;
        *crate::setting::ENABLE_WAIT_START.write().unwrap() = rc.wait;
        let mut cpu = prepare(&rc);
        let _ = crate::cpu::verif_hooks::take_captured();
        let mut client: Option<std::thread::JoinHandle<Vec<u8>>> = None;
        let mut keep_tx: Option<mpsc::Sender<String>> = None;
        if rc.tcp {
            let addr = format!("127.0.0.1:{}", port);
            let lines = rc.lines.clone();
            let addr2 = addr.clone();
            client = Some(std::thread::spawn(move || {
                // connect (the listener appears when the emulator binds), write the lines in random chunks,
                // then read everything the emulator sends until it closes the connection
                let mut stream = None;
                for _ in 0..5000 {
                    if let Ok(s) = std::net::TcpStream::connect(&addr2) {
                        stream = Some(s);
                        break;
                    }
                    std::thread::sleep(Duration::from_millis(1));
                }
                let mut stream = match stream {
                    Some(s) => s,
                    None => return b"NOCONNECT".to_vec(),
                };
                let _ = stream.set_nodelay(true);
                let mut rng = Rng::new(chunk_seed);
                let mut all: Vec<u8> = Vec::new();
                for l in &lines {
                    all.extend_from_slice(l.as_bytes());
                    all.push(b'\n');
                }
                let mut i = 0;
                while i < all.len() {
                    let n = match rng.below(4) {
                        0 => 1,
                        1 => all.len() - i,
                        _ => rng.range(1, 40) as usize,
                    }
                    .min(all.len() - i);
                    if stream.write_all(&all[i..i + n]).is_err() {
                        break;
                    }
                    let _ = stream.flush();
                    i += n;
                    if rng.chance(1, 3) {
                        std::thread::sleep(Duration::from_micros(rng.below(300)));
                    }
                }
                let mut got = Vec::new();
                let _ = stream.set_read_timeout(Some(Duration::from_secs(20)));
                let _ = stream.read_to_end(&mut got);
                got
            }));
            if cpu.connect_socket(&addr).is_err() {
                let _ = res_tx.send("bindfail".to_string());
                return;
            }
        } else {
            let (from_emu_tx, _from_emu_rx) = mpsc::channel::<String>();
            for l in &rc.lines {
                let _ = to_emu_tx.send(l.clone());
            }
            keep_tx = Some(to_emu_tx);
            // the receiving end is dropped: sends fail only if the emulator treats that as an error; keep it alive
            std::mem::forget(_from_emu_rx);
            cpu.vh_attach_socket(crate::socket::Socket::vh_from_channels(from_emu_tx, to_emu_rx));
            crate::cpu::verif_hooks::set_batch_plan(rc.plan.clone());
        }
        let r = std::panic::catch_unwind(std::panic::AssertUnwindSafe(|| cpu.run()));
        crate::cpu::verif_hooks::set_batch_plan(Vec::new());
        let msgs = crate::cpu::verif_hooks::take_captured();
        let outcome = match &r {
            Ok(Ok(())) => {
                if cpu.vh_pc() == rc.exit {
                    "finished"
                } else {
                    "stopped"
                }
            }
            Ok(Err(_)) => "error",
            Err(_) => "panic",
        };
        let line_wo_wire = describe(&cpu, outcome, &msgs, None);
        let line = if rc.tcp {
            // closing the emulator's side: dropping the Cpu drops every Sender, the send worker drains and shuts down
            drop(cpu);
            let wire = client.take().map(|c| c.join().unwrap_or_default()).unwrap_or_default();
            let base = line_wo_wire.rsplit_once(" wire=").map(|x| x.0.to_string()).unwrap_or(line_wo_wire);
            format!("{} wire={}", base, hex(&wire))
        } else {
            line_wo_wire
        };
        drop(keep_tx);
        let _ = res_tx.send(line);
    });
    // a run that does not end is a violation; after three of them in a shard the verdict is settled and later cases get a shorter
    // leash, so that a change which makes every run hang does not cost 40 s per case
    static HANGS: std::sync::atomic::AtomicUsize = std::sync::atomic::AtomicUsize::new(0);
    let leash = if HANGS.load(std::sync::atomic::Ordering::Relaxed) >= 3 { 6 } else { 40 };
    match res_rx.recv_timeout(Duration::from_secs(leash)) {
        Ok(s) => s,
        Err(_) => {
            HANGS.fetch_add(1, std::sync::atomic::Ordering::Relaxed);
            // the run did not end: get the thread out of the loop (a stop line on its own) so that it does not
            // keep a core busy for the rest of the shard; the case is reported as a hang
            for _ in 0..3 {
                let _ = rescue_tx.send("cmd:stop".to_string());
                std::thread::sleep(Duration::from_millis(50));
            }
            let _ = res_rx.recv_timeout(Duration::from_secs(2));
            "hang".to_string()
        }
    }
}

impl Mode for RunMode {
    fn gen(&mut self, ctx: &Ctx, emit: &mut dyn FnMut(String)) {
        crate::m_run_gen::generate(ctx, self.bin, emit);
    }

    fn exec(&mut self, case: &str) -> String {
        if let Some(elf) = field(case, "elf") {
            let args = String::from_utf8_lossy(&unhex(field(case, "args").unwrap_or(""))).to_string();
            return run_binary(elf, &args);
        }
        let rc = parse_case(case);
        let mut first = String::new();
        for attempt in 0..8 {
            self.counter += 1;
            let port = 20000 + ((std::process::id().wrapping_mul(2654435761) >> 8).wrapping_add(self.counter * 7 + attempt) % 30000) as u16;
            first = run_once(rc.clone(), port, fnv(case) ^ attempt as u64);
            if first != "bindfail" && !first.contains("wire=4e4f434f4e4e454354") {
                break;
            }
        }
        // determinism: the same case again, this time with the host kept busy by spinning threads
        let rerun = if field(case, "rerun") == Some("1") {
            let stop = std::sync::Arc::new(std::sync::atomic::AtomicBool::new(false));
            let mut hs = Vec::new();
            for _ in 0..6 {
                let s = stop.clone();
                hs.push(std::thread::spawn(move || {
                    let mut x = 1u64;
                    while !s.load(std::sync::atomic::Ordering::Relaxed) {
                        x = x.wrapping_mul(6364136223846793005).wrapping_add(1);
                        std::hint::black_box(x);
                    }
                }));
            }
            self.counter += 1;
            let port = 20000 + ((std::process::id().wrapping_mul(2654435761) >> 8).wrapping_add(self.counter * 7) % 30000) as u16;
            let second = run_once(rc.clone(), port, fnv(case) ^ 0x55);
            stop.store(true, std::sync::atomic::Ordering::Relaxed);
            for t in hs {
                let _ = t.join();
            }
            if second == first {
                "same"
            } else {
                "diff"
            }
        } else {
            "-"
        };
        format!("{} rerun={}", first, rerun)
    }

    fn judge(&self, ctx: &Ctx, case: &str, imp: &str, drv: &str) -> (Verdict, String, Option<u64>) {
        let (m, s) = match drv.split_once(" | ") {
            Some((m, s)) => (m.trim_start_matches("M ").to_string(), s.trim_start_matches("S ").to_string()),
            None => (drv.to_string(), String::new()),
        };
        let kind = field(case, "kind").unwrap_or("-").to_string();
        let key = format!("run {}", kind);
        if field(case, "elf").is_some() {
            // the binary, seen from outside: outcome, total, exit code (ER0 as the log prints it) and the message sequence
            let outcome = imp.split(' ').next().unwrap_or("");
            let m_outcome = m.split(' ').next().unwrap_or("");
            let er0 = field(&m, "er").unwrap_or("").split(',').next().map(|x| u32::from_str_radix(x, 16).unwrap_or(0)).unwrap_or(0);
            let mut why = String::new();
            if outcome == "hang" || outcome == "panic" || outcome.starts_with("spawnfail") {
                why = format!("the binary ended as {}", outcome);
            } else if m_outcome == "fuel" {
                // the program is longer than the bound on loop iterations the Lean driver evaluates the model with: not compared
                return (Verdict::Out, key, None);
            } else if outcome != m_outcome {
                why = format!("the binary ended as {}, the model of run() as {}", outcome, m_outcome);
            } else if outcome == "finished" {
                if field(imp, "sum") != field(&m, "sum") {
                    why = format!("state total printed by the binary {} vs {}", field(imp, "sum").unwrap_or(""), field(&m, "sum").unwrap_or(""));
                } else if field(imp, "exitcode").unwrap_or("") != er0.to_string() {
                    why = format!("exit code printed by the binary {} vs ER0 = {}", field(imp, "exitcode").unwrap_or(""), er0);
                } else {
                    // what the binary must have printed: console text of each write call, then one `msg:` line per message
                    let mut want: Vec<u8> = Vec::new();
                    for e in field(&m, "msgs").unwrap_or("").split(',').filter(|e| !e.is_empty()) {
                        let b = unhex(e);
                        if let Some(t) = b.strip_prefix(b"stdout:") {
                            want.extend_from_slice(t);
                        }
                        want.extend_from_slice(b"msg: ");
                        want.extend_from_slice(&b);
                        want.push(b'\n');
                    }
                    let mut hh: u64 = 0xcbf29ce484222325;
                    for b in want.iter() {
                        hh ^= *b as u64;
                        hh = hh.wrapping_mul(0x100000001b3);
                    }
                    if field(imp, "outlen").unwrap_or("") != want.len().to_string() || field(imp, "outfnv").unwrap_or("") != format!("{:x}", hh) {
                        why = format!("stdout of the binary ({} bytes, starts {}) is not the console text and message lines of the run ({} bytes, starts {})",
                            field(imp, "outlen").unwrap_or(""), field(imp, "outhead").unwrap_or(""), want.len(), hex(&want[..want.len().min(160)]));
                    }
                }
            }
            let v = if why.is_empty() { Verdict::Agree } else { Verdict::Corr(why) };
            return (v, key, Some(fnv(case)));
        }
        let tcp = field(case, "tcp") == Some("1");
        // ---- correspondence: everything the model prints, except the wire bytes when no TCP connection was used
        let strip = |x: &str| -> String {
            let x = x.rsplit_once(" rerun=").map(|p| p.0).unwrap_or(x);
            // a run that ends with an error returns only the error: the half-executed instruction's state is not compared
            let first = x.split(' ').next().unwrap_or("");
            if first == "error" || first == "panic" {
                return format!("{} sum={} msgs={}", first, field(x, "sum").unwrap_or(""), field(x, "msgs").unwrap_or(""));
            }
            if tcp {
                x.to_string()
            } else {
                x.rsplit_once(" wire=").map(|p| p.0).unwrap_or(x).to_string()
            }
        };
        // (a program longer than the Lean driver's bound on loop iterations is not compared)
        let corr = if m.starts_with("fuel") {
            None
        } else if strip(imp) != strip(&m) { Some(format!("impl [{}] model [{}]", clip(&strip(imp)), clip(&strip(&m)))) } else { None };
        let outcome = imp.split(' ').next().unwrap_or("");
        let mut why = String::new();
        let mut dom = true;
        if outcome == "hang" {
            why = "the run did not end (no result within 40 s)".into();
        } else if outcome == "panic" {
            // the only panic the model of the code has is the instruction fetch from unmapped memory (C15's known
            // finding); a guest that jumps there is outside what C13 / C18 state
            let modelled = m.split(' ').next() == Some("panic");
            if ctx.prop == "C15" {
                let id = "C15-FETCH-PANIC".to_string();
                let known = modelled && corr.is_none() && ctx.known.contains(&id);
                return (Verdict::Oracle("the emulator panicked".into(), if known { Some(id) } else { None }), key, Some(fnv(case)));
            } else if modelled {
                dom = false;
            } else {
                why = "the emulator panicked".into();
            }
        }
        let view = s.split(' ').next().unwrap_or("");
        if why.is_empty() && dom && view == "prog" {
            // ---- C13: the program alone
            let sfield = |k: &str| field(&s, k).unwrap_or("").to_string();
            let ifield = |k: &str| field(imp, k).unwrap_or("").to_string();
            let send = s.split(' ').nth(1).unwrap_or("");
            let tags: Vec<&str> = field(&s, "tags").unwrap_or("").split(',').filter(|t| !t.is_empty()).collect();
            let soft = ["syscall", "sfr", "io", "sethandler"];
            if send == "fuel" || tags.iter().any(|t| !soft.contains(t)) {
                dom = false;
            } else if send.starts_with("error") {
                if outcome != "error" {
                    why = format!("the program must stop with an error ({}), the run ended as {}", send, outcome);
                }
            } else {
                let sync_only = |x: &str| -> Vec<String> {
                    x.split(',').filter(|e| e.starts_with("73796e633a")).map(|e| e.to_string()).collect()
                };
                if outcome != "finished" {
                    why = format!("the run must reach the exit address; it ended as {}", outcome);
                } else if ifield("sum") != sfield("sum") {
                    why = format!("state total {} but the instructions executed were charged {}", ifield("sum"), sfield("sum"));
                } else if sync_only(&ifield("msgs")) != sync_only(&sfield("msgs")) {
                    why = format!("sync messages {:?}, expected {:?}", sync_only(&ifield("msgs")), sync_only(&sfield("msgs")));
                } else if ifield("pc") != sfield("pc") || ifield("er") != sfield("er") {
                    why = format!("final registers pc={} er={} expected pc={} er={}", ifield("pc"), ifield("er"), sfield("pc"), sfield("er"));
                } else if {
                    // what the peripherals saw: the timer's counter and status flags at the end
                    let tm = |x: &str| -> Vec<String> { x.split(',').filter(|e| e.starts_with("ffff88:") || e.starts_with("ffff82:")).map(|e| e.to_string()).collect() };
                    tm(&ifield("mem")) != tm(&sfield("mem"))
                } {
                    why = "timer counter / flags at the end differ from counting every charged state once".into();
                } else if !tags.iter().any(|t| *t == "sfr" || *t == "io") && (ifield("mem") != sfield("mem") || ifield("msgs") != sfield("msgs")) {
                    why = "final memory or message sequence differs from the reference execution".into();
                }
            }
            if why.is_empty() && dom && field(imp, "rerun") == Some("diff") {
                why = "two runs of the same program and arguments differ (under host load)".into();
            }
        } else if why.is_empty() && dom && view == "ctl" {
            // ---- C18: the meaning of the received lines, independent of batching
            let rc = parse_case(case);
            let mut expect: BTreeMap<u32, u8> = BTreeMap::new();
            for (a, v) in &rc.mem {
                expect.insert(*a & 0xffffff, *v);
            }
            for (a, v) in [(0xfee020u32, 0xffu8), (0xfee021, 0xfb), (0xfee022, 0xff), (0xfee023, 0xcf), (0xfee026, 0xe0)] {
                expect.insert(a, v);
            }
            let code: Vec<u32> = rc.mem.iter().map(|(a, _)| *a & 0xffffff).collect();
            let mut ports = false;
            for e in field(&s, "stores").unwrap_or("").split(',').filter(|e| !e.is_empty()) {
                if let Some((a, v)) = e.split_once(':') {
                    let a64 = u64::from_str_radix(a, 16).unwrap_or(u64::MAX);
                    let v = h(v) as u8;
                    if a64 > 0xffffffff {
                        continue;
                    }
                    let a = a64 as u32;
                    if a > 0xffffff {
                        continue; // beyond the 24-bit space: unmapped, ignored
                    }
                    let plain = (a <= 0xff) || (0x400000..=0x5fffff).contains(&a) || (0xffbf20..=0xffff1f).contains(&a);
                    let special = (0xfee000..=0xfee0ff).contains(&a) || (0xffff20..=0xffffe9).contains(&a);
                    let port_reg = (0xfee000..=0xfee00a).contains(&a) || (0xffffd0..=0xffffda).contains(&a);
                    if port_reg {
                        // direction / data register of a port: what the data register then shows is C16's subject, but the
                        // pin levels set by ioport lines (below) are still C18's
                        ports = true;
                    } else if special || code.contains(&a) {
                        dom = false; // peripheral registers / the running code: outside what C18 states
                    } else if plain {
                        expect.insert(a, v);
                    }
                }
            }
            let mut pins = [0u8; 11];
            for e in field(&s, "setpins").unwrap_or("").split(',').filter(|e| !e.is_empty()) {
                if let Some((p, v)) = e.split_once(':') {
                    let p = h(p) as usize;
                    if p >= 1 && p <= 11 {
                        pins[p - 1] = h(v) as u8;
                    }
                }
            }
            // all port bits are inputs in these cases (DDR = 0): the data register shows the pin levels
            for p in 0..11u32 {
                expect.insert(0xffffd0 + p, pins[p as usize]);
            }
            // the guest of these cases never executes a store; a line that lets it run to the exit is fine
            let want_mem: Vec<String> = expect.iter().filter(|(_, v)| **v != 0).map(|(a, v)| format!("{:x}:{:x}", a, v)).collect();
            let want_pins: Vec<String> = pins.iter().map(|v| format!("{:x}", v)).collect();
            let stopped = field(&s, "stopped") == Some("1");
            if dom && !tcp {
                if stopped && outcome != "stopped" && outcome != "finished" {
                    why = format!("cmd:stop was received but the run ended as {}", outcome);
                } else if {
                    let port_cell = |e: &&str| -> bool {
                        let a = u32::from_str_radix(e.split(':').next().unwrap_or(""), 16).unwrap_or(0);
                        (0xfee000..=0xfee00a).contains(&a) || (0xffffd0..=0xffffda).contains(&a)
                    };
                    let got: Vec<&str> = field(imp, "mem").unwrap_or("").split(',').filter(|e| !e.is_empty() && !(ports && port_cell(e))).collect();
                    let want: Vec<&str> = want_mem.iter().map(|x| x.as_str()).filter(|e| !(ports && port_cell(e))).collect();
                    got != want
                } {
                    why = format!("memory after the lines: [{}], expected from the lines in order: [{}]", clip(field(imp, "mem").unwrap_or("")), clip(&want_mem.join(",")));
                } else if field(imp, "pins").unwrap_or("") != want_pins.join(",") {
                    why = format!("pin levels {} expected {}", field(imp, "pins").unwrap_or(""), want_pins.join(","));
                } else if outcome == "stopped" || outcome == "finished" {
                    // pause / start in arrival order: the guest executes between two polls iff the lines so far leave it started
                    let ran = field(&s, "ran") == Some("1");
                    let sum = field(imp, "sum").unwrap_or("0");
                    if !ran && sum != "0" {
                        why = format!("the lines leave the guest paused at the end of every poll, yet it executed ({} states)", sum);
                    } else if ran && sum == "0" {
                        why = "the lines leave the guest started at the end of a poll, yet it never executed".into();
                    }
                }
            }
            // TCP cases: every line precedes cmd:start, so the stores have all been applied before the guest runs; the guest writes
            // only its own data area (H'FFC200-H'FFC4FF), ports and timers — every other stored plain cell must hold the last value sent
            if why.is_empty() && tcp && dom && (outcome == "finished" || outcome == "stopped") {
                let got: BTreeMap<u32, u8> = field(imp, "mem").unwrap_or("").split(',').filter_map(|e| {
                    let (a, v) = e.split_once(':')?;
                    Some((u32::from_str_radix(a, 16).ok()?, u8::from_str_radix(v, 16).ok()?))
                }).collect();
                let mut last: BTreeMap<u32, u8> = BTreeMap::new();
                for e in field(&s, "stores").unwrap_or("").split(',').filter(|e| !e.is_empty()) {
                    if let Some((a, v)) = e.split_once(':') {
                        if let Ok(a) = u32::from_str_radix(a, 16) {
                            let plain = (a <= 0xff) || (0x400000..=0x5fffff).contains(&a) || (0xffbf20..=0xffff1f).contains(&a);
                            if plain && !(0xffc200..0xffc500).contains(&a) && !code.contains(&a) {
                                last.insert(a, h(v) as u8);
                            }
                        }
                    }
                }
                for (a, v) in &last {
                    let g = got.get(a).copied().unwrap_or(0);
                    if g != *v {
                        why = format!("u8 line for {:x} sent over TCP before cmd:start: memory holds {:x}, the last value sent was {:x}", a, g, v);
                        break;
                    }
                }
            }
            // outgoing framing (TCP cases): the receiver recovers exactly the emitted messages, in order
            if why.is_empty() && tcp {
                let wire = unhex(field(imp, "wire").unwrap_or(""));
                let emitted: Vec<Vec<u8>> = field(imp, "msgs").unwrap_or("").split(',').filter(|e| !e.is_empty()).map(unhex).collect();
                match unframe(&wire) {
                    None => why = "the byte stream does not end with a newline-terminated line".into(),
                    Some(got) => {
                        if got != emitted {
                            let k = got.iter().zip(emitted.iter()).position(|(a, b)| a != b).unwrap_or(got.len().min(emitted.len()));
                            why = format!("received {} lines for {} emitted messages; first difference at message #{}", got.len(), emitted.len(), k);
                        }
                    }
                }
            }
        }
        let v = if !why.is_empty() {
            Verdict::Oracle(why, None)
        } else if let Some(c) = corr {
            Verdict::Corr(c)
        } else if !dom {
            Verdict::Out
        } else {
            Verdict::Agree
        };
        (v, key, Some(fnv(case)))
    }
}

fn clip(s: &str) -> String {
    if s.len() > 600 {
        format!("{}…({} bytes)", &s[..600], s.len())
    } else {
        s.to_string()
    }
}

/// receiver side of the framing: split at newlines, undo `\\` and `\n` escapes
pub fn unframe(wire: &[u8]) -> Option<Vec<Vec<u8>>> {
    if wire.is_empty() {
        return Some(Vec::new());
    }
    if *wire.last().unwrap() != b'\n' {
        return None;
    }
    let mut out = Vec::new();
    for line in wire[..wire.len() - 1].split(|b| *b == b'\n') {
        let mut m = Vec::new();
        let mut i = 0;
        while i < line.len() {
            if line[i] == b'\\' && i + 1 < line.len() && line[i + 1] == b'\\' {
                m.push(b'\\');
                i += 2;
            } else if line[i] == b'\\' && i + 1 < line.len() && line[i + 1] == b'n' {
                m.push(b'\n');
                i += 2;
            } else {
                m.push(line[i]);
                i += 1;
            }
        }
        out.push(m);
    }
    Some(out)
}
