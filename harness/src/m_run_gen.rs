//! Case generators for the `run` mode: guest programs (C13) and control-line sequences (C18).
use crate::cpu::Cpu;
use crate::m_run::hex;
use crate::util::*;
use std::collections::BTreeMap;

pub const CODE: u32 = 0x400000;
const SP0: u32 = 0xffcf00;

/// tiny assembler for the instruction forms the generator uses
pub struct Asm {
    pub base: u32,
    pub b: Vec<u8>,
}

impl Asm {
    pub fn new(base: u32) -> Self {
        Asm { base, b: Vec::new() }
    }
    pub fn here(&self) -> u32 {
        self.base + self.b.len() as u32
    }
    pub fn w(&mut self, x: u16) {
        self.b.push((x >> 8) as u8);
        self.b.push(x as u8);
    }
    pub fn mov_b_imm(&mut self, rd: u8, imm: u8) {
        self.w(0xf000 | ((rd as u16) << 8) | imm as u16);
    }
    pub fn mov_w_imm(&mut self, rd: u8, imm: u16) {
        self.w(0x7900 | rd as u16);
        self.w(imm);
    }
    pub fn mov_l_imm(&mut self, erd: u8, imm: u32) {
        self.w(0x7a00 | erd as u16);
        self.w((imm >> 16) as u16);
        self.w(imm as u16);
    }
    pub fn st_b_abs24(&mut self, rs: u8, a: u32) {
        self.w(0x6aa0 | rs as u16);
        self.w((a >> 16) as u16 & 0xff);
        self.w(a as u16);
    }
    pub fn st_b_abs8(&mut self, rs: u8, a: u8) {
        self.w(0x3000 | ((rs as u16) << 8) | a as u16);
    }
    pub fn ld_b_abs8(&mut self, rd: u8, a: u8) {
        self.w(0x2000 | ((rd as u16) << 8) | a as u16);
    }
    pub fn st_w_abs24(&mut self, rs: u8, a: u32) {
        self.w(0x6ba0 | rs as u16);
        self.w((a >> 16) as u16 & 0xff);
        self.w(a as u16);
    }
    pub fn ld_l_d24(&mut self, ers: u8, erd: u8, d: u32) {
        self.w(0x0100);
        self.w(0x7800 | ((ers as u16) << 4));
        self.w(0x6b20 | erd as u16);
        self.w((d >> 16) as u16 & 0xff);
        self.w(d as u16);
    }
    pub fn dec_w(&mut self, rd: u8) {
        self.w(0x1b50 | rd as u16);
    }
    pub fn dec_b(&mut self, rd: u8) {
        self.w(0x1a00 | rd as u16);
    }
    pub fn inc_b(&mut self, rd: u8) {
        self.w(0x0a00 | rd as u16);
    }
    pub fn bcc(&mut self, cc: u8, target: u32) {
        let d = target.wrapping_sub(self.here() + 2) as i32;
        assert!((-128..=127).contains(&d), "branch out of range");
        self.w(0x4000 | ((cc as u16) << 8) | (d as u8) as u16);
    }
    pub fn jsr(&mut self, a: u32) {
        self.w(0x5e00 | ((a >> 16) as u16 & 0xff));
        self.w(a as u16);
    }
    pub fn jmp(&mut self, a: u32) {
        self.w(0x5a00 | ((a >> 16) as u16 & 0xff));
        self.w(a as u16);
    }
    pub fn bsr(&mut self, target: u32) {
        let d = target.wrapping_sub(self.here() + 2) as i32;
        assert!((-128..=127).contains(&d));
        self.w(0x5500 | (d as u8) as u16);
    }
    pub fn rts(&mut self) {
        self.w(0x5470);
    }
    pub fn rte(&mut self) {
        self.w(0x5670);
    }
    pub fn trapa0(&mut self) {
        self.w(0x5700);
    }
    /// a register-only instruction that cannot fault: operand registers R0-R2/ER0-ER2 only... (R3 is the loop counter, ER7 the stack)
    pub fn alu(&mut self, rng: &mut Rng) {
        let s = rng.below(3) as u16; // RnH of R0-R2
        let d = rng.below(3) as u16;
        let sl = s | if rng.chance(1, 2) { 8 } else { 0 };
        let dl = d | if rng.chance(1, 2) { 8 } else { 0 };
        match rng.below(14) {
            0 => self.w(0x0800 | (sl << 4) | dl),           // ADD.B
            1 => self.w(0x0900 | (s << 4) | d),             // ADD.W
            2 => self.w(0x0a80 | (s << 4) | d),             // ADD.L
            3 => self.w(0x1500 | (sl << 4) | dl),           // XOR.B
            4 => self.w(0x0a00 | dl),                       // INC.B
            5 => self.w(0x1700 | dl),                       // NOT.B
            6 => self.w(0x1010 | d),                        // SHLL.W
            7 => self.w(0x1750 | d),                        // EXTU.W
            8 => self.w(0x0b00 | d),                        // ADDS #1
            9 => self.w(0x5000 | (sl << 4) | d),            // MULXU.B
            10 => self.w(0xf000 | (dl << 8) | rng.u8() as u16), // MOV.B #imm
            11 => self.w(0x0c00 | (sl << 4) | dl),          // MOV.B Rs,Rd
            12 => self.w(0x1d00 | (s << 4) | d),            // CMP.W
            _ => self.w(0x1800 | (sl << 4) | dl),           // SUB.B
        }
    }
}

#[derive(Clone)]
pub struct Prog {
    pub mem: BTreeMap<u32, u8>,
    pub er: [u32; 8],
    pub ccr: u8,
    pub exit: u32,
}

impl Prog {
    pub fn new() -> Self {
        let mut er = [0u32; 8];
        er[2] = CODE;
        er[7] = SP0;
        er[6] = 0x410000; // base register of the long-displacement loads
        Prog { mem: BTreeMap::new(), er, ccr: 0x80, exit: 0 }
    }
    pub fn put(&mut self, a: u32, bytes: &[u8]) {
        for (k, b) in bytes.iter().enumerate() {
            self.mem.insert(a + k as u32, *b);
        }
    }
    pub fn mem_field(&self) -> String {
        let mut parts: Vec<String> = Vec::new();
        let mut cur: Option<(u32, u32, String)> = None;
        for (a, b) in &self.mem {
            match &mut cur {
                Some((_, next, s)) if *next == *a => {
                    s.push_str(&format!("{:02x}", b));
                    *next += 1;
                }
                _ => {
                    if let Some((s0, _, s)) = cur.take() {
                        parts.push(format!("{:x}:{}", s0, s));
                    }
                    cur = Some((*a, *a + 1, format!("{:02x}", b)));
                }
            }
        }
        if let Some((s0, _, s)) = cur.take() {
            parts.push(format!("{:x}:{}", s0, s));
        }
        parts.join(";")
    }
    pub fn line(&self, lines: &[String], plan: &[usize], wait: bool, extra: &str) -> String {
        let ers: Vec<String> = self.er.iter().map(|e| format!("{:x}", e)).collect();
        let ls: Vec<String> = lines.iter().map(|l| if l.is_empty() { "-".to_string() } else { hex(l.as_bytes()) }).collect();
        let pl: Vec<String> = plan.iter().map(|n| format!("{:x}", n)).collect();
        format!(
            "run exit={:x} er={} ccr={:x} mem={} lines={} plan={} wait={} {}",
            self.exit,
            ers.join(","),
            self.ccr,
            self.mem_field(),
            ls.join(","),
            pl.join(","),
            if wait { 1 } else { 0 },
            extra
        )
        .trim_end()
        .to_string()
    }
}

/// Dry run on the real emulator without pacing: (total after each instruction, number of instructions).
/// Used only to tune loop counts so that totals land where the generator wants them.
fn dry_total(p: &Prog, max_steps: usize) -> Option<(usize, usize, usize)> {
    let r = std::panic::catch_unwind(std::panic::AssertUnwindSafe(|| {
        let mut cpu = Cpu::new();
        for (a, v) in &p.mem {
            let a = *a & 0xffffff;
            match a {
                0..=0xff => cpu.bus.exception_handling_vector[a as usize] = *v,
                0x400000..=0x5fffff => cpu.bus.dram[(a - 0x400000) as usize] = *v,
                0xffbf20..=0xffff1f => cpu.bus.memory[(a - 0xffbf20) as usize] = *v,
                _ => {}
            }
        }
        cpu.er = p.er;
        cpu.vh_set_ccr(p.ccr);
        cpu.vh_set_pc(p.er[2]);
        let _ = cpu.vh_init_registers();
        let mut total = 0usize;
        let mut last = 0usize;
        for n in 0..max_steps {
            if cpu.vh_try_interrupt().is_err() {
                return None;
            }
            let c = match cpu.vh_step() {
                Ok(c) => c,
                Err(_) => return None,
            };
            let st = u16::from(c) * 3;
            total += st as usize;
            last = st as usize;
            cpu.vh_set_state_sum(total);
            if cpu.vh_update_modules(st).is_err() {
                return None;
            }
            if cpu.vh_pc() == p.exit {
                return Some((total, last, n + 1));
            }
        }
        None
    }));
    let _ = crate::cpu::verif_hooks::take_captured();
    r.ok().flatten()
}

/// optional prologue: the guest slows the external bus down (3-state access, 3 wait states everywhere)
fn slow_bus(a: &mut Asm, rng: &mut Rng) {
    let astcr = *rng.pick(&[0xffu8, 0xfb, 0x0f, 0xff]);
    let wcrh = *rng.pick(&[0xffu8, 0xaa, 0x00, 0xff]);
    let wcrl = *rng.pick(&[0xffu8, 0xcf, 0x3c, 0xff]);
    a.mov_b_imm(8, astcr);
    a.st_b_abs24(8, 0xfee021);
    a.mov_b_imm(8, wcrh);
    a.st_b_abs24(8, 0xfee022);
    a.mov_b_imm(8, wcrl);
    a.st_b_abs24(8, 0xfee023);
}

struct Shape {
    slow: bool,
    body: Vec<u8>,      // loop body (position independent, register-only or absolute stores)
    kind: &'static str,
    text: Option<Vec<u8>>,
    handler: bool,
}

/// program: [prologue] MOV.W #outer,R4; O: MOV.W #inner,R3; L: body; DEC.W R3; BNE L; DEC.W R4; BNE O; fillers; exit:
fn build(shape: &Shape, rng_seed: u64, outer: u16, inner: u16, fillers: usize) -> Prog {
    build_at(shape, rng_seed, outer, inner, fillers, CODE, 0xffc200)
}

/// the same program assembled at `code_base`, its system-call argument block at `data_base` and text at +0x100
fn build_at(shape: &Shape, rng_seed: u64, outer: u16, inner: u16, fillers: usize, code_base: u32, data_base: u32) -> Prog {
    let mut rng = Rng::new(rng_seed);
    let mut p = Prog::new();
    p.er[2] = code_base;
    let mut a = Asm::new(code_base);
    if shape.kind == "heavy" && code_base != CODE {
        a.mov_l_imm(6, 0x410000); // base register of the long-displacement loads (a loaded program starts with ER6 = 0)
    }
    if shape.slow {
        slow_bus(&mut a, &mut rng);
    }
    if shape.kind == "ports" {
        // DDR of port 4 := 0xff (all outputs), then the loop writes a counter to its DR
        a.mov_b_imm(8, 0xff);
        a.st_b_abs24(8, 0xfee003);
    }
    if shape.handler {
        // install a CMIA0 handler (vector 36) through set_handler and start the 8-bit timer
        let argp = 0xffc100u32;
        p.put(argp, &36u32.to_be_bytes());
        // handler address patched below
        a.mov_l_imm(0, 113);
        a.mov_l_imm(1, argp);
        a.trapa0();
        let tcora = rng.range(40, 200) as u8; // a period long enough for the handler to finish
        a.mov_b_imm(8, tcora);
        a.st_b_abs24(8, 0xffff84); // TCORA0
        a.mov_b_imm(8, tcora.wrapping_add(rng.range(1, 50) as u8).max(1));
        a.st_b_abs24(8, 0xffff86); // TCORB0: non-zero and different (the timer statement's side condition)
        a.mov_b_imm(8, 0x49); // CMIEA | clear on compare match A | clock/8
        a.st_b_abs24(8, 0xffff80);
    }
    a.mov_w_imm(4, outer.max(1));
    let o = a.here();
    a.mov_w_imm(3, inner.max(1));
    let l = a.here();
    a.b.extend_from_slice(&shape.body);
    a.dec_w(3);
    a.bcc(6, l); // BNE
    a.dec_w(4);
    a.bcc(6, o);
    if let Some(text) = &shape.text {
        // write(1, text, len) through TRAPA #0
        let argp = data_base;
        let buf = data_base + 0x100;
        p.put(argp, &1u32.to_be_bytes());
        p.put(argp + 4, &buf.to_be_bytes());
        p.put(argp + 8, &(text.len() as u32).to_be_bytes());
        p.put(buf, text);
        a.mov_l_imm(0, 104);
        a.mov_l_imm(1, argp);
        a.trapa0();
    }
    for k in 0..fillers {
        a.inc_b(8 + (k % 3) as u8);
    }
    p.exit = a.here();
    if shape.handler {
        // handler: INC.B R5L ; RTE   (after the exit address)
        let haddr = a.here() + 2;
        a.w(0); // never executed gap so that exit != handler
        let hb = [0x0au8, 0x0d, 0x56, 0x70];
        a.b.extend_from_slice(&hb);
        p.put(0xffc104, &haddr.to_be_bytes());
        p.ccr = 0x00; // interrupts enabled
    }
    p.put(code_base, &a.b);
    p
}

fn random_body(rng: &mut Rng, kind: &'static str) -> Vec<u8> {
    let mut a = Asm::new(0);
    match kind {
        "heavy" => {
            // long-displacement loads from DRAM: the most expensive instruction form
            a.ld_l_d24(6, 5, 0x1000 + 4 * rng.below(64) as u32);
        }
        "ports" => {
            a.inc_b(9);
            a.st_b_abs8(9, 0xd3); // P4DR
        }
        "calls" => {
            // filled in by the caller (needs absolute addresses); here: plain ALU
            for _ in 0..rng.range(1, 4) {
                a.alu(rng);
            }
        }
        _ => {
            for _ in 0..rng.range(0, 6) {
                a.alu(rng);
            }
            if rng.chance(1, 3) {
                a.st_w_abs24(rng.below(3) as u8, 0xffc400 + 2 * rng.below(64) as u32);
            }
        }
    }
    a.b
}

pub fn utf8_sample(rng: &mut Rng, n: usize) -> Vec<u8> {
    let pool: [&str; 14] = ["a", "Z", "0", " ", "\n", "\\", "\\n", "\\\\", "é", "日本", "😀", ":", "\r", "\t"];
    let mut s = String::new();
    for _ in 0..n {
        s.push_str(*rng.pick(&pool));
    }
    s.into_bytes()
}

/// C13 programs
fn gen_programs(ctx: &Ctx, emit: &mut dyn FnMut(String)) {
    let mut rng = ctx.rng(13);
    let quick = ctx.quick();
    const T: usize = 2_000_000;
    // ---- short programs: straight-line blocks, small loops, calls, console output, port writes
    let per = |n: u64| -> u64 { ((n + ctx.nshards - 1) / ctx.nshards).max(1) };
    let nshort = per(if quick { 320 } else { 4000 });
    for k in 0..nshort {
        let kind = *rng.pick(&["alu", "alu", "ports", "heavy", "alu"]);
        let shape = Shape { slow: rng.chance(1, 3), body: random_body(&mut rng, kind), kind, text: if rng.chance(1, 2) { let n = rng.below(40) as usize; Some(utf8_sample(&mut rng, n)) } else { None }, handler: false };
        let p = build(&shape, rng.u32() as u64, rng.range(1, 3) as u16, rng.range(1, 30) as u16, rng.below(6) as usize);
        emit(p.line(&[], &[], false, &format!("kind=short-{} rerun={}", kind, if k % 10 == 0 { 1 } else { 0 })));
    }
    // ---- call programs
    for _ in 0..per(if quick { 64 } else { 800 }) {
        let mut p = Prog::new();
        let mut a = Asm::new(CODE);
        let n = rng.range(1, 200) as u16;
        a.mov_w_imm(3, n);
        let l = a.here();
        let sub = CODE + 0x100;
        if rng.chance(1, 2) {
            a.jsr(sub);
        } else {
            a.jsr(sub + 0x10);
        }
        a.alu(&mut rng);
        a.dec_w(3);
        a.bcc(6, l);
        p.exit = a.here();
        p.put(CODE, &a.b);
        let mut s = Asm::new(sub);
        s.alu(&mut rng);
        s.bsr(sub + 0x10);
        s.rts();
        p.put(sub, &s.b);
        let mut s2 = Asm::new(sub + 0x10);
        s2.alu(&mut rng);
        s2.alu(&mut rng);
        s2.rts();
        p.put(sub + 0x10, &s2.b);
        emit(p.line(&[], &[], false, "kind=calls rerun=0"));
    }
    // ---- failing programs: an instruction that fails ends the run with that error
    for _ in 0..per(if quick { 64 } else { 800 }) {
        let mut p = Prog::new();
        let mut a = Asm::new(CODE);
        for _ in 0..rng.range(0, 20) {
            a.alu(&mut rng);
        }
        match rng.below(4) {
            0 => a.w(0x0000),                          // NOP: not implemented by the emulator
            1 => a.w(0x0180),                          // SLEEP
            2 => {
                a.mov_l_imm(1, 0x00800000);            // unmapped data address
                a.w(0x6810);                           // MOV.B @ER1,R0H
            }
            _ => a.w(0x0f00),                          // DAA
        }
        for _ in 0..3 {
            a.alu(&mut rng);
        }
        p.exit = a.here();
        p.put(CODE, &a.b);
        emit(p.line(&[], &[], false, "kind=failing rerun=0"));
    }
    // ---- long programs around the sync thresholds (tuned by dry runs)
    let nlong = per(if quick { 32 } else { 400 });
    for k in 0..nlong {
        let kind = *rng.pick(&["heavy", "heavy", "alu", "ports"]);
        let shape = Shape { slow: kind == "heavy" || rng.chance(1, 2), body: random_body(&mut rng, kind), kind, text: None, handler: false };
        let seed = rng.u32() as u64;
        // measure: base + outer*(o + inner*i) + fillers*q
        let t = |outer: u16, inner: u16, f: usize| dry_total(&build(&shape, seed, outer, inner, f), 3_000_000).map(|x| x.0);
        let (t11, t12, t21, t110) = match (t(1, 1, 0), t(1, 2, 0), t(2, 1, 0), t(1, 1, 10)) {
            (Some(a), Some(b), Some(c), Some(d)) => (a, b, c, d),
            _ => continue,
        };
        let i = t12 - t11; // one inner iteration
        let o = t21 - t11 - i; // one outer iteration without its inner iterations
        let q = (t110 - t11) / 10; // one filler
        if i == 0 || q == 0 {
            continue;
        }
        let m = (if quick { 1 + (k % 2) } else { 1 + (k % 3) }) as usize;
        let target = m * T;
        // total(outer=1, inner=n, f) = t11 + (n-1)*i + f*q ; use outer loops when n would not fit 16 bits
        let mut outer = 1usize;
        while (target.saturating_sub(t11)) / (outer * i) > 60000 {
            outer += 1;
        }
        // total(outer, inner, f) = t11 + (outer-1)*(o+i) + outer*(inner-1)*i + f*q
        let fixed = t11 + (outer - 1) * (o + i);
        let inner = 1 + (target.saturating_sub(fixed + 2 * i * outer)) / (outer * i);
        let before = fixed + outer * (inner - 1) * i;
        // variants: the last instruction crosses the threshold / ends just below / well beyond
        let need = target.saturating_sub(before);
        let f_cross = (need + q - 1) / q; // smallest f with total >= target: the f-th filler crosses
        for (name, f) in [("cross-last", f_cross.max(1)), ("just-below", f_cross.max(2) - 1), ("beyond", f_cross + 1 + rng.below(40) as usize)] {
            if f > 4000 {
                continue;
            }
            let p = build(&shape, seed, outer as u16, inner as u16, f);
            emit(p.line(&[], &[], false, &format!("kind=long-{}-{} rerun={}", kind, name, if name == "cross-last" { 1 } else { 0 })));
        }
    }
    // ---- totals that land EXACTLY on a multiple of the interval at an instruction boundary. Every charge is a multiple
    //      of 3, so the first multiple that can be hit exactly is the third (6,000,000): the message is due there, not one
    //      instruction later — both when the run goes on and when that instruction is the one that reaches the exit
    for _ in 0..per(if quick { 16 } else { 240 }) {
        let kind = *rng.pick(&["heavy", "alu", "heavy"]);
        let shape = Shape { slow: true, body: random_body(&mut rng, kind), kind, text: None, handler: false };
        let seed = rng.u32() as u64;
        let t = |outer: u16, inner: u16, f: usize| dry_total(&build(&shape, seed, outer, inner, f), 3_000_000).map(|x| x.0);
        let (t11, t12, t21, t110) = match (t(1, 1, 0), t(1, 2, 0), t(2, 1, 0), t(1, 1, 10)) {
            (Some(a), Some(b), Some(c), Some(d)) => (a, b, c, d),
            _ => continue,
        };
        let i = t12 - t11;
        let o = t21 - t11 - i;
        let q = (t110 - t11) / 10;
        if i == 0 || q == 0 {
            continue;
        }
        let target = 3 * T;
        let mut outer = 1usize;
        while (target.saturating_sub(t11)) / (outer * i) > 60000 {
            outer += 1;
        }
        let fixed = t11 + (outer - 1) * (o + i);
        let inner0 = 1 + (target.saturating_sub(fixed + 2 * i * outer)) / (outer * i);
        // fewer inner iterations until the remainder is a whole number of fillers
        let mut found = None;
        for d in 0..(q.min(64)) {
            if inner0 <= d + 1 {
                break;
            }
            let inner = inner0 - d;
            let before = fixed + outer * (inner - 1) * i;
            let need = target - before;
            if need % q == 0 && need / q >= 1 && need / q <= 4000 {
                found = Some((inner, need / q));
                break;
            }
        }
        let (inner, f) = match found {
            Some(x) => x,
            None => continue,
        };
        for (name, extra) in [("at-exit", 0usize), ("mid-run", 1 + rng.below(6) as usize)] {
            let p = build(&shape, seed, outer as u16, inner as u16, f + extra);
            // the prediction is linear in the counts: keep the case only if a dry run confirms the exact landing
            let hit = match name {
                "at-exit" => dry_total(&p, 3_000_000).map(|x| x.0 == target).unwrap_or(false),
                _ => dry_total(&build(&shape, seed, outer as u16, inner as u16, f), 3_000_000).map(|x| x.0 == target).unwrap_or(false),
            };
            if hit {
                emit(p.line(&[], &[], false, &format!("kind=long-{}-exact-{} rerun=0", kind, name)));
            }
        }
    }
    // ---- the timer running across the run, with an interrupt handler (beyond the quantifier: model comparison;
    //      also: peripherals see the same states that are counted)
    for _ in 0..per(if quick { 32 } else { 400 }) {
        let shape = Shape { slow: false, body: random_body(&mut rng, "alu"), kind: "timer", text: None, handler: true };
        let p = build(&shape, rng.u32() as u64, 1, rng.range(20, 3000) as u16, rng.below(5) as usize);
        emit(p.line(&[], &[], false, "kind=timer rerun=0"));
    }
    // ---- the timer counting (no interrupts) up to the very last instruction: TCNT at the exit shows what peripherals saw
    for _ in 0..per(if quick { 64 } else { 800 }) {
        let mut p = Prog::new();
        let mut a = Asm::new(CODE);
        a.mov_b_imm(8, *rng.pick(&[0x01u8, 0x02, 0x01]));
        a.st_b_abs24(8, 0xffff80);
        for _ in 0..rng.range(1, 60) {
            a.alu(&mut rng);
        }
        p.exit = a.here();
        p.put(CODE, &a.b);
        emit(p.line(&[], &[], false, "kind=timer-count rerun=0"));
    }
}

// ------------------------------------------------------------------------------------------ C18

fn spin_prog() -> Prog {
    let mut p = Prog::new();
    p.put(CODE, &[0x40, 0xfe]); // BRA .
    p.exit = 0x00fffffe; // never reached
    p
}

fn good_line(rng: &mut Rng) -> String {
    match rng.below(10) {
        0 => "cmd:pause".into(),
        1 => "cmd:start".into(),
        2..=5 => {
            let a = match rng.below(6) {
                0 => 0xffbf20 + rng.below(0x4000) as u32,
                1 => 0x400100 + rng.below(0x1fff00) as u32,
                2 => 0xffc000 + rng.below(16) as u32,
                3 => 0x410000 + rng.below(16) as u32,
                4 => *rng.pick(&[0xffbf20u32, 0xffff1f, 0x5fffff, 0x400002, 0xff, 0x0]),
                _ => *rng.pick(&[0x100u32, 0x3fffff, 0x600000, 0xffbf1f, 0xffffea, 0x1000000, 0xffffffff, 0xfee100]), // unmapped: ignored
            };
            let v = rng.u8();
            match rng.below(5) {
                0 => format!("u8:{:X}:{:X}", a, v),
                1 => format!("u8:+{:x}:{:02x}", a, v),
                2 => format!("u8:{:08x}:{:x}", a, v),
                _ => format!("u8:{:x}:{:x}", a, v),
            }
        }
        _ => format!("ioport:{:x}:{:x}", *rng.pick(&[1u32, 2, 3, 4, 5, 6, 7, 8, 9, 10, 11, 0, 12, 0xff]), rng.u8()),
    }
}

fn bad_line(rng: &mut Rng) -> String {
    let pool: [&str; 44] = [
        "", "cmd", "cmd:", "cmd:pause:now", "cmd:stop:", ":cmd:stop", "cmd::stop", "CMD:stop", "cmd:Stop", "cmd: stop", "cmd:stop ", " cmd:stop", "cmd:halt", "cmd:start:1:2",
        "u8", "u8:", "u8:ffc000", "u8:ffc000:", "u8::12", "u8:ffc000:100", "u8:ffc000:-1", "u8:100000000:12", "u8:ffc000:1:2", "u8:0xffc000:12", "u8:ffc000:0x12", "u8:ffc0g0:12",
        "u8: ffc000:12", "u8:ffc000:12 ", "u8:+:12", "u8:ffc000:+", "U8:ffc000:12", "u8:ｆｆ:12",
        "ioport", "ioport:1", "ioport:1:", "ioport::1", "ioport:100:1", "ioport:1:100", "ioport:1:2:3", "ioport:-1:2", "IOPORT:1:2",
        "sync:2000000", "hello world", ":::",
    ];
    if rng.chance(1, 25) {
        // very long lines and numbers (C15: must be ignored, never crash)
        let n = rng.range(100, 5000) as usize;
        return match rng.below(4) {
            0 => format!("u8:{}:1", "f".repeat(n)),
            1 => format!("u8:ffc000:{}", "0".repeat(n) + "1ff"),
            2 => ":".repeat(n),
            _ => format!("cmd:{}", "stop".repeat(n)),
        };
    }
    if rng.chance(1, 5) {
        // a numeric field that overflows its type but whose low bits are a valid value: must be ignored, not truncated
        let d = *rng.pick(&['1', '2', '8', 'f', 'F']);
        let port = rng.range(1, 11);
        let a = *rng.pick(&[0xffc000u32, 0xffbf20, 0x400100, 0xffc001, 0x410000]) + rng.below(8) as u32;
        let v = rng.u8();
        return match rng.below(6) {
            0 => format!("ioport:{}{:02x}:{:x}", d, port, v),
            1 => format!("ioport:{}00{:02x}:{:x}", d, port, v),
            2 => format!("ioport:{:x}:{}{:02x}", port, d, v),
            3 => format!("u8:{}{:08x}:{:x}", d, a, v),
            4 => format!("u8:{:x}:{}{:02x}", a, d, v),
            _ => format!("u8:{:x}:{}000000{:02x}", a, d, v),
        };
    }
    if rng.chance(1, 6) {
        // random printable garbage with colons
        let n = rng.range(0, 24);
        (0..n).map(|_| *rng.pick(&['c', 'm', 'd', 'u', '8', ':', ':', 's', 't', 'o', 'p', 'f', '0', '+', '-', ' ', 'é'])).collect()
    } else {
        rng.pick(&pool).to_string()
    }
}

fn random_plan(rng: &mut Rng, n: usize) -> Vec<usize> {
    match rng.below(5) {
        0 => vec![n],                         // everything queued before one poll
        1 => vec![1; n],                      // one line per poll
        2 => vec![],                          // plan exhausted at once: also "all"
        3 => {
            let mut v = Vec::new();
            let mut left = n;
            while left > 0 {
                let k = (rng.below(4) as usize).min(left);
                v.push(k);
                left -= k;
            }
            v
        }
        _ => {
            let mut v = Vec::new();
            let mut left = n;
            while left > 0 {
                let k = (rng.range(1, 9) as usize).min(left);
                v.push(k);
                left -= k;
                for _ in 0..rng.below(3) {
                    v.push(0);
                }
            }
            v
        }
    }
}

fn gen_control(ctx: &Ctx, emit: &mut dyn FnMut(String)) {
    let mut rng = ctx.rng(18);
    let quick = ctx.quick();
    let per = |n: u64| -> u64 { ((n + ctx.nshards - 1) / ctx.nshards).max(1) };
    let nseq = per(if quick { 800 } else { 16000 });
    for _ in 0..nseq {
        // one history in fifteen is long (around the depths a fixed-size queue would have): a batch may then hold hundreds of lines
        let n = if rng.chance(1, 15) { *rng.pick(&[63usize, 64, 65, 127, 128, 129, 255, 256, 257, 600]) } else { rng.range(1, 40) as usize };
        let mut lines: Vec<String> = Vec::new();
        let porty = rng.chance(1, 4);
        let other = rng.u8();
        let vals = [0u8, 0xff, 0x5a, 0xa5, other];
        for _ in 0..n {
            lines.push(if porty && rng.chance(2, 3) {
                // port histories over few values: direction and data register stores interleaved with pin lines, so that a pin
                // line often carries the value the data register (or the pins) already hold — it must still be acted on
                let any = rng.range(1, 11) as u32;
                let port = *rng.pick(&[1u32, 2, 1, 4, 11, any]);
                let v = *rng.pick(&vals);
                match rng.below(5) {
                    0 => format!("u8:{:x}:{:x}", 0xfee000 + port - 1, *rng.pick(&[0u8, 0xff, 0x0f, v])),
                    1 => format!("u8:{:x}:{:x}", 0xffffd0 + port - 1, v),
                    _ => format!("ioport:{:x}:{:x}", port, v),
                }
            } else if rng.chance(1, 3) {
                bad_line(&mut rng)
            } else {
                good_line(&mut rng)
            });
        }
        if rng.chance(1, 6) {
            let k = rng.below(lines.len() as u64) as usize;
            lines.insert(k, "cmd:stop".into());
        }
        lines.push("cmd:stop".into());
        let wait = rng.chance(1, 3);
        // the same sequence under several partitions into polling batches
        let p = spin_prog();
        let total = lines.len();
        emit(p.line(&lines, &vec![total], wait, "kind=ctl-all"));
        emit(p.line(&lines, &vec![1; total], wait, "kind=ctl-one-per-poll"));
        for _ in 0..2 {
            emit(p.line(&lines, &random_plan(&mut rng, total), wait, "kind=ctl-random"));
        }
    }
    // ---- a real TCP connection: lines arrive in whatever chunks the network gives while the guest is held
    //      (wait-start), then the program runs and everything it emits comes back framed
    let ntcp = per(if quick { 96 } else { 1600 });
    for k in 0..ntcp {
        let mut lines: Vec<String> = Vec::new();
        for _ in 0..rng.range(0, 30) {
            let l = if rng.chance(1, 3) { bad_line(&mut rng) } else { good_line(&mut rng) };
            // the receiving worker reads lines: a raw CR/LF inside a line cannot be sent as one line
            if l == "cmd:start" || l.contains('\n') {
                continue;
            }
            // stores into the guest's code or data would change the program that is about to run
            let low = l.to_lowercase();
            if low.starts_with("u8:") && (low.contains("4000") || low.contains("ffc2") || low.contains("ffc3")) {
                continue;
            }
            lines.push(l);
        }
        lines.push("cmd:start".into());
        // guest: bursts of port writes (>= 66 messages queued at once), console output with newlines, backslashes, UTF-8
        let burst = k % 3 != 2;
        let shape = Shape {
            slow: false,
            body: random_body(&mut rng, if burst { "ports" } else { "alu" }),
            kind: if burst { "ports" } else { "alu" },
            text: { let n = 1 + rng.below(60) as usize; Some(utf8_sample(&mut rng, n)) },
            handler: false,
        };
        let p = build(&shape, rng.u32() as u64, 1, if burst { rng.range(70, 400) as u16 } else { rng.range(1, 20) as u16 }, rng.below(4) as usize);
        emit(p.line(&lines, &[], true, &format!("tcp=1 kind=tcp-{}", if burst { "burst" } else { "text" })));
    }
}

/// Minimal ELF32-BE executable: one PT_LOAD at vaddr 0 holding `image`, sections .stack / .symtab / .strtab / .shstrtab.
pub fn elf_for_image(image: &[u8], exit_off: u32, stack: u32) -> Vec<u8> {
    let be16 = |v: u16| v.to_be_bytes();
    let be32 = |v: u32| v.to_be_bytes();
    let mut f: Vec<u8> = vec![0; 52];
    let seg_off = f.len() as u32;
    f.extend_from_slice(image);
    while f.len() % 4 != 0 {
        f.push(0);
    }
    // symbols: null, ___exit
    let strtab: Vec<u8> = b"\0___exit\0".to_vec();
    let symtab_off = f.len() as u32;
    for (name, value) in [(0u32, 0u32), (1, exit_off)] {
        f.extend_from_slice(&be32(name));
        f.extend_from_slice(&be32(value));
        f.extend_from_slice(&be32(0));
        f.extend_from_slice(&[0, 0]);
        f.extend_from_slice(&be16(1));
    }
    let strtab_off = f.len() as u32;
    f.extend_from_slice(&strtab);
    let names = ["", ".text", ".stack", ".symtab", ".strtab", ".shstrtab"];
    let mut shstr: Vec<u8> = vec![0];
    let mut idx: Vec<u32> = Vec::new();
    for n in names.iter() {
        if n.is_empty() {
            idx.push(0);
        } else {
            idx.push(shstr.len() as u32);
            shstr.extend_from_slice(n.as_bytes());
            shstr.push(0);
        }
    }
    let shstr_off = f.len() as u32;
    f.extend_from_slice(&shstr);
    while f.len() % 4 != 0 {
        f.push(0);
    }
    let phoff = f.len() as u32;
    for v in [1u32, seg_off, 0, 0, image.len() as u32, image.len() as u32, 7, 4] {
        f.extend_from_slice(&be32(v));
    }
    let shoff = f.len() as u32;
    // name, type, flags, addr, offset, size, link, info, align, entsize
    let secs: [[u32; 10]; 6] = [
        [idx[0], 0, 0, 0, 0, 0, 0, 0, 0, 0],
        [idx[1], 1, 6, 0, seg_off, image.len() as u32, 0, 0, 4, 0],
        [idx[2], 8, 3, stack, 0, 0, 0, 0, 4, 0],
        [idx[3], 2, 0, 0, symtab_off, 32, 4, 0, 4, 16],
        [idx[4], 3, 0, 0, strtab_off, strtab.len() as u32, 0, 0, 1, 0],
        [idx[5], 3, 0, 0, shstr_off, shstr.len() as u32, 0, 0, 1, 0],
    ];
    for s in secs.iter() {
        for v in s.iter() {
            f.extend_from_slice(&be32(*v));
        }
    }
    let mut h: Vec<u8> = vec![0x7f, b'E', b'L', b'F', 1, 2, 1, 0, 0, 0, 0, 0, 0, 0, 0, 0];
    h.extend_from_slice(&be16(2));
    h.extend_from_slice(&be16(46));
    h.extend_from_slice(&be32(1));
    h.extend_from_slice(&be32(0));
    h.extend_from_slice(&be32(phoff));
    h.extend_from_slice(&be32(shoff));
    h.extend_from_slice(&be32(0x00810000));
    h.extend_from_slice(&be16(52));
    h.extend_from_slice(&be16(32));
    h.extend_from_slice(&be16(1));
    h.extend_from_slice(&be16(40));
    h.extend_from_slice(&be16(6));
    h.extend_from_slice(&be16(5));
    f[..52].copy_from_slice(&h);
    f
}

/// C13, end to end: the same kinds of programs as ELF files for the release binary (`main.rs`: argument parsing,
/// `elf::load`, `Cpu::run`, `-m` message printing)
fn gen_binary_cases(ctx: &Ctx, emit: &mut dyn FnMut(String)) {
    let mut rng = ctx.rng(131);
    let quick = ctx.quick();
    let per = |n: u64| -> u64 { ((n + ctx.nshards - 1) / ctx.nshards).max(1) };
    let dir = ctx.out.join("elf");
    std::fs::create_dir_all(&dir).unwrap();
    const BASE: u32 = 0x416900;
    const DATA_OFF: u32 = 0x1000;
    for k in 0..per(if quick { 48 } else { 600 }) {
        let long = k % 6 == 5;
        let kind = *rng.pick(&["alu", "ports", "heavy", "alu"]);
        let text = if rng.chance(2, 3) {
            // console output: ends with a newline so that it cannot run into the next `msg:` line on stdout
            let n = rng.below(30) as usize;
            let mut t = utf8_sample(&mut rng, n);
            t.retain(|b| *b != b'\r');
            t.extend_from_slice(b"\n");
            Some(t)
        } else {
            None
        };
        let shape = Shape { slow: kind == "heavy" || rng.chance(1, 3), body: random_body(&mut rng, kind), kind, text, handler: false };
        let (outer, inner) = if long { (rng.range(1, 3) as u16, rng.range(20000, 60000) as u16) } else { (rng.range(1, 3) as u16, rng.range(1, 200) as u16) };
        let p = build_at(&shape, rng.u32() as u64, outer, inner, rng.below(6) as usize, BASE, BASE + DATA_OFF);
        // image = code at offset 0, data block at DATA_OFF
        let mut image = vec![0u8; (DATA_OFF + 0x400) as usize];
        for (a, v) in &p.mem {
            if *a >= BASE && ((*a - BASE) as usize) < image.len() {
                image[(*a - BASE) as usize] = *v;
            }
        }
        let elf = elf_for_image(&image, p.exit - BASE, 0x400 + 4 * rng.below(64) as u32);
        let path = dir.join(format!("p{}.elf", k));
        std::fs::write(&path, &elf).unwrap();
        let args = if rng.chance(1, 2) { String::new() } else { crate::m_elf::gen_args(&mut rng) };
        // the initial state the binary will start from: the real loader, in-process
        let path_s = path.display().to_string();
        let loaded = std::panic::catch_unwind(std::panic::AssertUnwindSafe(|| {
            let mut cpu = Cpu::new();
            crate::elf::load(path_s.clone(), &mut cpu, args.clone());
            cpu
        }));
        let cpu = match loaded {
            Ok(c) => c,
            Err(_) => continue,
        };
        let mut q = Prog::new();
        q.er = cpu.er;
        q.ccr = cpu.vh_ccr();
        q.exit = cpu.exit_addr;
        for (i, b) in cpu.bus.dram.iter().enumerate() {
            if *b != 0 {
                q.mem.insert(0x400000 + i as u32, *b);
            }
        }
        emit(q.line(&[], &[], false, &format!("kind=bin-{}{} elf={} args={}", kind, if long { "-long" } else { "" }, path.display(), hex(args.as_bytes()))));
    }
}

pub fn generate(ctx: &Ctx, bin: bool, emit: &mut dyn FnMut(String)) {
    if bin {
        return gen_binary_cases(ctx, emit);
    }
    match ctx.prop.as_str() {
        "C13" => gen_programs(ctx, emit),
        "C18" => gen_control(ctx, emit),
        _ => {
            gen_programs(ctx, emit);
            gen_control(ctx, emit);
        }
    }
}
