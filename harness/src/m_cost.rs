//! C19: Cpu::calc_state_with_addr under every per-area bus-controller setting.
use crate::cpu::{Cpu, StateType};
use crate::registers::{ABWCR, ASTCR, DRCRA, WCRH, WCRL};
use crate::util::*;
use crate::Mode;

pub struct CostMode {
    cpu: Cpu,
}

impl CostMode {
    pub fn new() -> Self {
        CostMode { cpu: Cpu::new() }
    }
}

const KINDS: [&str; 6] = ["I", "J", "K", "L", "M", "N"];

impl Mode for CostMode {
    fn gen(&mut self, ctx: &Ctx, emit: &mut dyn FnMut(String)) {
        let mut rng = ctx.rng(19);
        // addresses: on-chip RAM ends + middle, both ends + middle of all eight areas, region borders
        let mut addrs: Vec<u32> = vec![0xffbf20, 0xffbf21, 0xffdf00, 0xffff1e, 0xffff1f, 0xffbf1f, 0xfedfff, 0xfee100, 0xffffea, 0xffffff];
        for a in 0..8u32 {
            let s = a << 21;
            addrs.extend_from_slice(&[s, s + 1, s + 0x0fffff, s + 0x1ffffe, s + 0x1fffff]);
        }
        // a few addresses outside the domain (I/O registers, >= 2^24): compared with the model only
        addrs.extend_from_slice(&[0xfee020, 0xffff80, 0x1000000, 0xffffffff, 0x80000000]);
        let mut idx: u64 = 0;
        // exhaustive per-area setting space: width x states x wait(0-3) x DRAS(0-7) = 128 per area
        for &addr in &addrs {
            let area = ((addr >> 21) & 7) as u8;
            for width in 0..2u8 {
                for st3 in 0..2u8 {
                    for wait in 0..4u8 {
                        for dras in 0..8u8 {
                            for k in 0..6usize {
                                for n in 1..=5u8 {
                                    idx += 1;
                                    if !ctx.mine(idx) {
                                        continue;
                                    }
                                    let mut b = [rng.u8(), rng.u8(), rng.u8(), rng.u8(), rng.u8()];
                                    b[0] = (b[0] & !(1 << area)) | (width << area);
                                    b[1] = (b[1] & !(1 << area)) | (st3 << area);
                                    if area < 4 {
                                        b[3] = (b[3] & !(3 << (2 * area))) | (wait << (2 * area));
                                    } else {
                                        b[2] = (b[2] & !(3 << (2 * (area - 4)))) | (wait << (2 * (area - 4)));
                                    }
                                    b[4] = (b[4] & 0x1f) | (dras << 5);
                                    emit(format!("cost {:x} {:x} {:x} {:x} {:x} {} {:x} {:x}", b[0], b[1], b[2], b[3], b[4], KINDS[k], n, addr));
                                }
                            }
                        }
                    }
                }
            }
        }
        // random settings, random addresses, counts 0..=5 and a few larger ones (model-only)
        let extra = if ctx.quick() { 40_000 } else { 1_600_000 } / ctx.nshards;
        for _ in 0..extra {
            let b = [rng.u8(), rng.u8(), rng.u8(), rng.u8(), rng.u8()];
            let addr = if rng.chance(9, 10) { rng.u32() & 0xffffff } else { rng.u32() };
            let n = if rng.chance(9, 10) { rng.range(0, 5) as u8 } else { rng.u8() % 19 };
            emit(format!("cost {:x} {:x} {:x} {:x} {:x} {} {:x} {:x}", b[0], b[1], b[2], b[3], b[4], KINDS[rng.below(6) as usize], n, addr));
        }
    }

    fn exec(&mut self, case: &str) -> String {
        let f: Vec<&str> = case.split(' ').collect();
        if f.len() != 9 {
            return "bad-case".into();
        }
        let h = |s: &str| u32::from_str_radix(s, 16).unwrap_or(0);
        let cpu = &mut self.cpu;
        cpu.bus.write(ABWCR, h(f[1]) as u8).unwrap();
        cpu.bus.write(ASTCR, h(f[2]) as u8).unwrap();
        cpu.bus.write(WCRH, h(f[3]) as u8).unwrap();
        cpu.bus.write(WCRL, h(f[4]) as u8).unwrap();
        cpu.bus.write(DRCRA, h(f[5]) as u8).unwrap();
        let st = match f[6] {
            "I" => StateType::I,
            "J" => StateType::J,
            "K" => StateType::K,
            "L" => StateType::L,
            "M" => StateType::M,
            _ => StateType::N,
        };
        let (n, addr) = (h(f[7]) as u8, h(f[8]));
        let r = std::panic::catch_unwind(std::panic::AssertUnwindSafe(|| cpu.calc_state_with_addr(st, n, addr)));
        match r {
            Ok(Ok(v)) => format!("ok {:x}", v),
            Ok(Err(_)) => "err".to_string(),
            Err(_) => "panic".to_string(),
        }
    }

    fn judge(&self, _ctx: &Ctx, case: &str, imp: &str, drv: &str) -> (Verdict, String, Option<u64>) {
        // drv: "M <ok v|err> | S <v> dom=<0|1>"
        let mut parts = drv.split(" | ");
        let m = parts.next().unwrap_or("").trim_start_matches("M ").to_string();
        let s = parts.next().unwrap_or("").to_string();
        let dom = field(&s, "dom") == Some("1");
        let sv = s.split(' ').nth(1).unwrap_or("?");
        let f: Vec<&str> = case.split(' ').collect();
        let key = format!("kind={} area={}", f[6], (u32::from_str_radix(f[8], 16).unwrap_or(0) >> 21).min(8));
        let spec_ok = imp == format!("ok {}", sv);
        let v = if dom && !spec_ok {
            Verdict::Oracle(format!("impl {} but spec {} (model {})", imp, sv, m), None)
        } else if imp != m {
            // multiplication overflow in overflow-checked builds is outside C19 (n > 5): the model wraps
            Verdict::Corr(format!("impl {} but model {}", imp, m))
        } else if dom {
            Verdict::Agree
        } else {
            Verdict::Out
        };
        let nt = if dom { Some(fnv(case)) } else { None };
        (v, key, nt)
    }
}
