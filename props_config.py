"""Per-property configuration of check.py: theorem modules, translator obligations, harness runs."""

PROPS = {
    'C19': {
        'lean': ['H8.Props.C19'],
        'gen': ['consts', 'buscost'],
        'runs': [{'mode': 'cost', 'shards': 8}],
        'exhaustive': True,
        'rule': ('exhaustive: 51 addresses (on-chip RAM ends/middle, both ends + middle of all eight areas, region borders, '
                 'a few out-of-domain) x per-area setting space (bus width x access states x wait 0-3 x DRAM select 0-7) x 6 kinds x '
                 'n=1..5 with the other areas\' bits random, plus seeded random settings/addresses/counts; through the public '
                 'Cpu::calc_state_with_addr. distinct non-trivial = distinct in-domain (settings, kind, n, address) tuples.'),
        'assumptions': ['reads of ABWCR/ASTCR/WCRH/WCRL/DRCRA by the cost function never fail (they are plain io_registrs1 bytes; '
                        'checked by the harness, which programs them through Bus::write)'],
    },
    'C09': {
        'lean': ['H8.Props.C09'],
        'gen': ['consts', 'busmap'],
        'runs': [{'mode': 'bus09', 'shards': 16}, {'mode': 'step', 'shards': 16}],
        'rule': ('(a) address-space sweep through the real Bus::read/Bus::write (read, write a tag, read back) classified per '
                 'address and compared with the property\'s ranges: thorough = all 2^24 addresses plus bands near 2^31/2^32, '
                 'quick = every region boundary +-0x400 and 2048 random 64-byte windows; (b) seeded random histories of 1-64 '
                 'interleaved byte writes/reads over region edges, holes, >=2^24 and random addresses, with per-op results and '
                 'the complete final contents of all five stores compared against an abstract address->byte map. '
                 'word / long operations through the CPU\'s access helpers (hooks) at all region boundaries +-5; '
                 '(c) step run: every MOV form with a memory operand (all addressing modes, @aa:8/16/24 incl. the sign-extended '
                 'halves of aa:16) executed by the real Cpu from a tagged memory, complete state delta compared with the Spec. '
                 'distinct non-trivial = distinct sweeps, and distinct histories containing at least one successful write.'),
        'assumptions': [],
    },
    'C01': {
        'lean': ['H8.Props.C01', 'H8.Props.C08', 'H8.Props.C01M', 'H8.Props.C01N', 'H8.Props.C01L', 'H8.Props.C02I', 'H8.Props.C08D', 'H8.Props.C01P', 'H8.Props.C08W', 'H8.Props.C08L', 'H8.Props.C08X'],
        'gen': ['consts', 'buscost', 'busmap', 'dispatch'],
        'runs': [{'mode': 'step', 'shards': 16}],
        'rule': "single-step cases on the real Cpu (fetch+exec through the verif hook) from a tagged background memory (every byte = hash of its address) with the full register file, CCR, PC, cost and the complete delta of all five stores compared: per form of spec/isa.tbl every combination of the register fields (x2), all 256 initial CCR values, every value of immediate/bit/condition fields, seeded random instances with boundary-value register files and operand addresses at both ends of on-chip RAM, DRAM and the vector area; address registers with zero upper byte (the upper byte is C08's subject). distinct non-trivial = distinct (form, first instruction bytes, resulting register file) triples of in-domain cases.",
        'assumptions': ['the hand-written Model/Cpu.lean mirrors the Rust handlers (checked by the correspondence run on every case); only its dispatch tables are regenerated from source'],
    },
    'C02': {
        'lean': ['H8.Props.C02', 'H8.Props.C02M', 'H8.Props.C02I'],
        'gen': ['consts', 'buscost', 'busmap', 'dispatch'],
        'runs': [{'mode': 'step', 'shards': 16}],
        'rule': 'single-step cases on the real Cpu (fetch+exec through the verif hook) from a tagged background memory (every byte = hash of its address) with the full register file, CCR, PC, cost and the complete delta of all five stores compared: per form of spec/isa.tbl every combination of the register fields (x2), all 256 initial CCR values, every value of immediate/bit/condition fields, seeded random instances with boundary-value register files and operand addresses at both ends of on-chip RAM, DRAM and the vector area; byte forms: the (dest, src, carry-in) lattice (quick: 1/8 of all 131072 triples, offset by the seed; thorough: all), word forms: every 16-bit value against partner values, long forms: carry-chain boundary values. distinct non-trivial = distinct (form, first instruction bytes, resulting register file) triples of in-domain cases.',
        'assumptions': ['the hand-written Model/Cpu.lean mirrors the Rust handlers (checked by the correspondence run on every case); only its dispatch tables are regenerated from source'],
    },
    'C03': {
        'lean': ['H8.Props.C03', 'H8.Props.C02I', 'H8.Props.C03L', 'H8.Props.C03S'],
        'gen': ['consts', 'buscost', 'busmap', 'dispatch'],
        'runs': [{'mode': 'step', 'shards': 16}],
        'rule': 'single-step cases on the real Cpu (fetch+exec through the verif hook) from a tagged background memory (every byte = hash of its address) with the full register file, CCR, PC, cost and the complete delta of all five stores compared: per form of spec/isa.tbl every combination of the register fields (x2), all 256 initial CCR values, every value of immediate/bit/condition fields, seeded random instances with boundary-value register files and operand addresses at both ends of on-chip RAM, DRAM and the vector area; 8/16-bit operands swept as in C02 with both carry-in values for ROTXL/ROTXR. distinct non-trivial = distinct (form, first instruction bytes, resulting register file) triples of in-domain cases.',
        'assumptions': ['the hand-written Model/Cpu.lean mirrors the Rust handlers (checked by the correspondence run on every case); only its dispatch tables are regenerated from source'],
    },
    'C04': {
        'lean': ['H8.Props.C04', 'H8.Props.C04H', 'H8.Props.C04M', 'H8.Props.C04N'],
        'gen': ['consts', 'buscost', 'busmap', 'dispatch'],
        'runs': [{'mode': 'step', 'shards': 16}],
        'rule': 'single-step cases on the real Cpu (fetch+exec through the verif hook) from a tagged background memory (every byte = hash of its address) with the full register file, CCR, PC, cost and the complete delta of all five stores compared: per form of spec/isa.tbl every combination of the register fields (x2), all 256 initial CCR values, every value of immediate/bit/condition fields, seeded random instances with boundary-value register files and operand addresses at both ends of on-chip RAM, DRAM and the vector area; the 256 x 8 x 2 (operand byte, bit number, C) cube for every op x location (quick: half of it), bit-number registers holding 0-255. distinct non-trivial = distinct (form, first instruction bytes, resulting register file) triples of in-domain cases.',
        'assumptions': ['the hand-written Model/Cpu.lean mirrors the Rust handlers (checked by the correspondence run on every case); only its dispatch tables are regenerated from source'],
    },
    'C05': {
        'lean': ['H8.Props.C05', 'H8.Lemmas.MemBE', 'H8.Props.C05H', 'H8.Props.C05S', 'H8.Props.C06S'],
        'gen': ['consts', 'buscost', 'busmap', 'dispatch'],
        'runs': [{'mode': 'step', 'shards': 16}],
        'rule': 'single-step cases on the real Cpu (fetch+exec through the verif hook) from a tagged background memory (every byte = hash of its address) with the full register file, CCR, PC, cost and the complete delta of all five stores compared: per form of spec/isa.tbl every combination of the register fields (x2), all 256 initial CCR values, every value of immediate/bit/condition fields, seeded random instances with boundary-value register files and operand addresses at both ends of on-chip RAM, DRAM and the vector area; 16 conditions x 256 CCR x both Bcc forms, all even 8-bit displacements, return frames with non-zero top byte. distinct non-trivial = distinct (form, first instruction bytes, resulting register file) triples of in-domain cases.',
        'assumptions': ['the hand-written Model/Cpu.lean mirrors the Rust handlers (checked by the correspondence run on every case); only its dispatch tables are regenerated from source'],
    },
    'C06': {
        'lean': ['H8.Props.C06', 'H8.Lemmas.BusPure', 'H8.Props.C06H', 'H8.Props.C06T', 'H8.Props.C06S'],
        'gen': ['consts', 'buscost', 'busmap', 'dispatch'],
        'runs': [{'mode': 'step', 'shards': 16}],
        'rule': 'single-step cases on the real Cpu (fetch+exec through the verif hook) from a tagged background memory (every byte = hash of its address) with the full register file, CCR, PC, cost and the complete delta of all five stores compared: per form of spec/isa.tbl every combination of the register fields (x2), all 256 initial CCR values, every value of immediate/bit/condition fields, seeded random instances with boundary-value register files and operand addresses at both ends of on-chip RAM, DRAM and the vector area; TRAPA #1-#3 and RTE with all CCR values, vector contents with non-zero top byte, interrupt entry through the controller hooks (n=0 cases). distinct non-trivial = distinct (form, first instruction bytes, resulting register file) triples of in-domain cases.',
        'assumptions': ['the hand-written Model/Cpu.lean mirrors the Rust handlers (checked by the correspondence run on every case); only its dispatch tables are regenerated from source'],
    },
    'C07': {
        'lean': ['H8.Props.C07', 'H8.Props.C07R.Base', 'H8.Props.C07R.P01', 'H8.Props.C07R.P02', 'H8.Props.C07R.P03', 'H8.Props.C07R.P04', 'H8.Props.C07R.P05', 'H8.Props.C07R.P06', 'H8.Props.C07R.P07', 'H8.Props.C07R.P08', 'H8.Props.C07R.P09', 'H8.Props.C07R.P10', 'H8.Props.C07R.P11', 'H8.Props.C07R.P12', 'H8.Props.C07R.P13', 'H8.Props.C07E', 'H8.Props.C07E2', 'H8.Props.C07S'],
        'gen': ['consts', 'buscost', 'busmap', 'dispatch'],
        'runs': [{'mode': 'step', 'shards': 16}],
        'rule': 'single-step cases on the real Cpu (fetch+exec through the verif hook) from a tagged background memory (every byte = hash of its address) with the full register file, CCR, PC, cost and the complete delta of all five stores compared: per form of spec/isa.tbl every combination of the register fields (x2), all 256 initial CCR values, every value of immediate/bit/condition fields, seeded random instances with boundary-value register files and operand addresses at both ends of on-chip RAM, DRAM and the vector area; plus all 65,536 first words and all second words of every prefix class (see the C07 generator). distinct non-trivial = distinct (form, first instruction bytes, resulting register file) triples of in-domain cases.',
        'assumptions': ['the hand-written Model/Cpu.lean mirrors the Rust handlers (checked by the correspondence run on every case); only its dispatch tables are regenerated from source'],
    },
    'C08': {
        'lean': ['H8.Props.C08', 'H8.Props.C08D', 'H8.Props.C08W', 'H8.Props.C08L', 'H8.Props.C08X'],
        'gen': ['consts', 'buscost', 'busmap', 'dispatch'],
        'runs': [{'mode': 'step', 'shards': 16}],
        'rule': 'single-step cases on the real Cpu (fetch+exec through the verif hook) from a tagged background memory (every byte = hash of its address) with the full register file, CCR, PC, cost and the complete delta of all five stores compared: per form of spec/isa.tbl every combination of the register fields (x2), all 256 initial CCR values, every value of immediate/bit/condition fields, seeded random instances with boundary-value register files and operand addresses at both ends of on-chip RAM, DRAM and the vector area; base registers with every upper byte, sums that wrap modulo 2^24, all EA kinds incl. stack and @@aa:8. distinct non-trivial = distinct (form, first instruction bytes, resulting register file) triples of in-domain cases.',
        'assumptions': ['the hand-written Model/Cpu.lean mirrors the Rust handlers (checked by the correspondence run on every case); only its dispatch tables are regenerated from source'],
    },
    'C20': {
        'lean': ['H8.Props.C20', 'H8.Props.C19', 'H8.Props.C20R', 'H8.Props.C20M', 'H8.Props.C20X', 'H8.Props.C20Y', 'H8.Props.C20Z', 'H8.Props.C20E'],
        'gen': ['consts', 'buscost', 'busmap', 'dispatch'],
        'runs': [{'mode': 'step', 'shards': 16}],
        'rule': 'single-step cases on the real Cpu (fetch+exec through the verif hook) from a tagged background memory (every byte = hash of its address) with the full register file, CCR, PC, cost and the complete delta of all five stores compared: per form of spec/isa.tbl every combination of the register fields (x2), all 256 initial CCR values, every value of immediate/bit/condition fields, seeded random instances with boundary-value register files and operand addresses at both ends of on-chip RAM, DRAM and the vector area; six bus-controller settings under which every (area, kind) cost is distinct; only the charge is compared. distinct non-trivial = distinct (form, first instruction bytes, resulting register file) triples of in-domain cases.',
        'assumptions': ['the hand-written Model/Cpu.lean mirrors the Rust handlers (checked by the correspondence run on every case); only its dispatch tables are regenerated from source'],
    },
    'C10': {
        'lean': ['H8.Props.C10', 'H8.Props.C06', 'H8.Props.C10H', 'H8.Props.C06S'],
        'gen': ['consts', 'busmap', 'dispatch', 'buscost'],
        'runs': [{'mode': 'step', 'shards': 16}],
        'rule': 'generated programs (counted ALU loop, optional BSR/RTS leaf, final self-loop) with 1-4 handlers ending in RTE (RTE only / counter increments), vectors 1-63 installed, CCR.I clear or set at start, 20-120 instruction boundaries, schedules of 0-10 requests incl. bursts at one boundary, repeats and requests while a handler runs; every program also runs without requests. The real try_interrupt+step loop is driven through the hooks; the trace of PCs at every boundary, the pending queue and the complete final state are compared with Model and Spec. distinct non-trivial = distinct programs x schedules.',
        'assumptions': ['handlers used by the generator keep I set until RTE (the emulator implements no instruction that clears I other than RTE)'],
    },
    'C11': {
        'lean': ['H8.Props.C11'],
        'gen': ['consts'],
        'runs': [{'mode': 'elf', 'shards': 16}],
        'rule': 'generated ELF32-BE executables: 1-4 ascending non-overlapping PT_LOAD segments with arbitrary offsets / sizes (filesz <= memsz, incl. zero-size and .bss-only), interleaved non-load program headers (also trailing), shuffled section-header order, p_paddr equal to p_vaddr or (every fifth file) above it, .got of 0-64 entries anywhere inside a segment with entry values incl. ones whose sum carries into the top byte / wraps, .stack, .symtab/.strtab; loaded by the real elf::load into a fresh Cpu; all non-zero 64-byte DRAM blocks below the image end, the last one cut at the exact image end (and that no other array changed) compared with Model (exact) and Spec (expected image). distinct non-trivial = distinct files.',
        'assumptions': ['structurally valid files only (the statement\'s domain); truncated / malformed files are out of scope of C11 and make the loader return an error or panic',
                        'p_paddr is free but not below p_vaddr: the loader places the process environment (C12) from the highest p_paddr extent, which then cannot land on the image'],
    },
    'C12': {
        'lean': ['H8.Props.C12', 'H8.Props.C12W', 'H8.Props.C12S'],
        'gen': ['consts'],
        'runs': [{'mode': 'elf', 'shards': 16}],
        'rule': 'the same generated executables with .stack sizes 0-64 KiB, symbol tables of 1-200 symbols with ___exit at any index, argument strings over printable ASCII with arbitrary runs of blanks / tabs, 0-32 words up to 200 bytes; ER0, ER1, ER2, ER5, ER7, exit address and every non-zero DRAM block (argv table, strings) compared with Model (exact) and Spec (layout recomputed from the property statement); layoutOk (regions ordered, disjoint, inside DRAM) evaluated per case. distinct non-trivial = distinct (file, argument string) pairs.',
        'assumptions': ['p_paddr = p_vaddr and PT_LOAD entries in ascending order (the statement\'s domain)'],
    },
    'C13': {
        'lean': ['H8.Props.C13'],
        'gen': ['consts', 'busmap', 'dispatch', 'buscost'],
        'runs': [{'mode': 'run', 'shards': 16, 'profile': 'release'}, {'mode': 'run', 'shards': 16, 'profile': 'checked'},
                 {'mode': 'bin', 'shards': 8, 'profile': 'release'}],
        'rule': 'whole Cpu::run executions in-process (channel-backed socket, captured messages): generated guest programs — straight-line blocks, counted and nested loops, JSR/BSR/RTS calls, port writes, console output through the write system call, programs that reprogram the bus controller, programs that must fail (unimplemented opcode, unmapped access), the 8-bit timer counting / interrupting across the run — with loop counts tuned by dry runs so that the total lands just below, exactly on (the last instruction crosses) and beyond the 1st-3rd multiple of 2,000,000; final total, sync message sequence, registers, PC, memory, messages, timer counter compared with the Model (exact) and with the Spec run (instruction by instruction, charged = 3 x bus-cycle cost, timer advanced one state at a time); selected cases are run twice, the second time with 6 spinning host threads per shard (96 on 16 cores), and must be identical. Run in the release profile and with overflow checks. Mode bin: the same kinds of programs wrapped into ELF files (one PT_LOAD, .stack, .symtab with ___exit) and run by the emulator\'s own release binary built from /repo (main.rs argument parsing, elf::load, Cpu::run, -m message printing): outcome, state total and exit code from its log and the printed message sequence compared with the model of run() started from the state the real loader produces in-process.',
        'assumptions': ['wall-clock pacing (spin_sleep) is not modelled: it reads and writes no emulator state; its independence is checked by the reruns under host load',
                        'the factor 3 ("temporary speed adjustment") is taken as part of the amount charged'],
    },
    'C18': {
        'lean': ['H8.Props.C18'],
        'gen': ['consts', 'busmap', 'dispatch', 'buscost'],
        'runs': [{'mode': 'run', 'shards': 16}],
        'rule': 'control-line sequences over a grammar (well-formed cmd/u8/ioport lines incl. upper-case hex, leading +, leading zeros, unmapped addresses; malformed: wrong field counts, empty fields, bad hex, overflow, signs, blanks, prefixes, unknown kinds, non-ASCII, empty line), every sequence under four partitions into polling batches (all before one poll, one per poll, two random partitions with empty polls) fed to the real Cpu::run through a channel-backed Socket with a planned batch size per poll; final memory, pin levels, pause/stop outcome compared with the Model (same partition, exact) and with the Spec (meaning of the lines in arrival order, independent of the partition). TCP cases: a real Socket::connect over loopback with wait-start, lines written in random chunks, guest programs emitting bursts of >= 70 port messages and console text with newlines / backslashes / multi-byte UTF-8; the bytes received are unframed and must equal the captured messages in order.',
        'assumptions': ['u8 lines aimed at peripheral registers or at the running code are compared with the Model only', 'in TCP cases every line precedes cmd:start (the guest is held), so the arbitrary network batching cannot interleave with execution'],
    },
    'C14': {
        'lean': ['H8.Props.C14'],
        'gen': ['consts', 'busmap', 'dispatch', 'buscost'],
        'runs': [{'mode': 'step', 'shards': 16}],
        'rule': 'TRAPA #0 cases: write (ER0=104) with argument blocks and buffers in on-chip RAM and DRAM, lengths 0-4096, valid UTF-8 incl. NUL, newline, backslash, 2-4 byte characters (a few invalid sequences, model-only), back-to-back calls; set_handler (ER0=113) with vectors 0-255 and beyond followed by an interrupt of that vector at the next boundary; other call numbers. Captured messages, registers, CCR, PC, memory delta compared with Model and Spec. distinct non-trivial = distinct cases whose Spec result is valid.',
        'assumptions': ["the console stream (print!) is observed only through the identical string handed to send_stdout_message; the binary's stdout is compared in C13"],
    },
    'C15': {
        'lean': ['H8.Props.C15', 'H8.Lemmas.NoPanic', 'H8.Props.C15N', 'H8.Props.C15F'],
        'gen': ['consts', 'busmap', 'dispatch', 'buscost'],
        'runs': [{'mode': 'step', 'shards': 16, 'profile': 'release'}, {'mode': 'step', 'shards': 16, 'profile': 'checked'},
                 {'mode': 'run', 'shards': 16, 'profile': 'checked'}],
        'rule': '(step mode now also programs the 8-bit timer registers with every byte value through every store form and runs the module update of the run loop after each instruction; run mode: the whole Cpu::run loop in the overflow-checking build on the C13 programs and on control-line sequences over the fuzzing grammar of C18 incl. very long and garbage lines) every first instruction word (quick: every second) x adversarial register files (0, 1, 0xFFFFFFFF, region edges, odd values, 2^24, 2^31) x random CCR x reset/random bus-controller settings, executed from the last bytes of every mapped region and from ordinary code addresses, 1-5 instructions; every valid form with half-adversarial registers; system calls with adversarial argument blocks; run in the release profile AND in release+overflow-checks+debug-assertions under catch_unwind. Outcome class ok/err/panic compared with the Model; any panic is a violation unless it is the modelled fetch panic. distinct non-trivial = distinct (Spec class, form, outcome) triples.',
        'assumptions': ['aborts that are not Rust panics (allocation failure, stack overflow, panics inside dependencies) are only observable by the harness, not by a theorem', "control-channel lines are fuzzed in C18's run-loop check (same never-panic oracle)"],
    },
    'C16': {
        'lean': ['H8.Props.C16'],
        'gen': ['consts', 'busmap'],
        'runs': [{'mode': 'bus16', 'shards': 16}],
        'rule': 'histories over {write DDR v, write DR v, external pin v, read DR} with v from {00,FF,0F,F0,55,AA,01,80} through Bus::write / Bus::read / Bus::write_port with captured ioport messages: bounded-exhaustive to depth 3 (quick; ports 1,5,B) / depth 4 (thorough; all 11 ports) each followed by a read, plus seeded random histories to length 64 over one or two interleaved ports with time stamps. Reads, last announced value per port vs driven output, message format and time-stamp monotonicity are checked against the latch Spec. distinct non-trivial = distinct histories.',
        'assumptions': ['PortM (Props/C16.lean) restates for one port the expressions of Model/Bus.lean; the correspondence run executes Model/Bus.lean against the real Bus on every history'],
    },
    'C17': {
        'lean': ['H8.Props.C17'],
        'gen': ['consts', 'busmap'],
        'runs': [{'mode': 'bus17', 'shards': 16}],
        'rule': "histories on the real Bus + timer through Bus::write, update_modules (hook) and the pending queue: every TCR value as first clock selection, TCORA/TCORB/TCNT start values (small and random; the statement's side condition kept when a clear source is selected), 1-60 operations mixing charges of 1-255 states (incl. runs of 8-40 maximal charges for /8192), TCR/TCSR/TCNT writes and TCNT/TCSR reads; compared per read and on the request list with the tick-by-tick reference. distinct non-trivial = distinct histories in which the counter counted or a request was raised.",
        'assumptions': ['the Spec pins the phase after a clock selection to 0 (the statement allows any constant phase; 0 is what the repaired code uses)'],
    },
}
