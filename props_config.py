"""Per-property configuration of check.py: theorem modules, translator obligations, harness runs."""

PROPS = {
    'C19': {
        'lean': ['H8.Props.C19'],
        'gen': ['consts', 'buscost'],
        'runs': [{'mode': 'cost', 'shards': 8}],
        'exhaustive': True,
        'rule': ('exhaustive: 51 addresses (on-chip RAM ends/middle, both ends + middle of all eight areas, region borders, '
                 'a few out-of-domain) x per-area setting space (bus width x access states x wait 0-3 x DRAM select 0-7) x 6 kinds x '
                 'n=1..5 with the other areas\' bits random, plus seeded random settings/addresses/counts; through the public '
                 'Cpu::calc_state_with_addr. distinct non-trivial = distinct in-domain (settings, kind, n, address) tuples.'),
        'assumptions': ['reads of ABWCR/ASTCR/WCRH/WCRL/DRCRA by the cost function never fail (they are plain io_registrs1 bytes; '
                        'checked by the harness, which programs them through Bus::write)'],
    },
    'C09': {
        'lean': ['H8.Props.C09'],
        'gen': ['consts', 'busmap'],
        'runs': [{'mode': 'bus09', 'shards': 16}],
        'rule': ('(a) address-space sweep through the real Bus::read/Bus::write (read, write a tag, read back) classified per '
                 'address and compared with the property\'s ranges: thorough = all 2^24 addresses plus bands near 2^31/2^32, '
                 'quick = every region boundary +-0x400 and 2048 random 64-byte windows; (b) seeded random histories of 1-64 '
                 'interleaved byte writes/reads over region edges, holes, >=2^24 and random addresses, with per-op results and '
                 'the complete final contents of all five stores compared against an abstract address->byte map. '
                 'distinct non-trivial = distinct sweeps, and distinct histories containing at least one successful write.'),
        'assumptions': ['16/32-bit accesses are exercised through the CPU step harness (C01/C08), not here'],
    },
    'C01': {
        'lean': ['H8.Props.C01', 'H8.Props.C08'],
        'gen': ['consts', 'buscost', 'busmap', 'dispatch'],
        'runs': [{'mode': 'step', 'shards': 16}],
        'rule': "single-step cases on the real Cpu (fetch+exec through the verif hook) from a tagged background memory (every byte = hash of its address) with the full register file, CCR, PC, cost and the complete delta of all five stores compared: per form of spec/isa.tbl every combination of the register fields (x2), all 256 initial CCR values, every value of immediate/bit/condition fields, seeded random instances with boundary-value register files and operand addresses at both ends of on-chip RAM, DRAM and the vector area; address registers with zero upper byte (the upper byte is C08's subject). distinct non-trivial = distinct (form, first instruction bytes, resulting register file) triples of in-domain cases.",
        'assumptions': ['the hand-written Model/Cpu.lean mirrors the Rust handlers (checked by the correspondence run on every case); only its dispatch tables are regenerated from source'],
    },
    'C02': {
        'lean': ['H8.Props.C02'],
        'gen': ['consts', 'buscost', 'busmap', 'dispatch'],
        'runs': [{'mode': 'step', 'shards': 16}],
        'rule': 'single-step cases on the real Cpu (fetch+exec through the verif hook) from a tagged background memory (every byte = hash of its address) with the full register file, CCR, PC, cost and the complete delta of all five stores compared: per form of spec/isa.tbl every combination of the register fields (x2), all 256 initial CCR values, every value of immediate/bit/condition fields, seeded random instances with boundary-value register files and operand addresses at both ends of on-chip RAM, DRAM and the vector area; byte forms: the (dest, src, carry-in) lattice (quick: 1/8 of all 131072 triples, offset by the seed; thorough: all), word forms: every 16-bit value against partner values, long forms: carry-chain boundary values. distinct non-trivial = distinct (form, first instruction bytes, resulting register file) triples of in-domain cases.',
        'assumptions': ['the hand-written Model/Cpu.lean mirrors the Rust handlers (checked by the correspondence run on every case); only its dispatch tables are regenerated from source'],
    },
    'C03': {
        'lean': ['H8.Props.C03'],
        'gen': ['consts', 'buscost', 'busmap', 'dispatch'],
        'runs': [{'mode': 'step', 'shards': 16}],
        'rule': 'single-step cases on the real Cpu (fetch+exec through the verif hook) from a tagged background memory (every byte = hash of its address) with the full register file, CCR, PC, cost and the complete delta of all five stores compared: per form of spec/isa.tbl every combination of the register fields (x2), all 256 initial CCR values, every value of immediate/bit/condition fields, seeded random instances with boundary-value register files and operand addresses at both ends of on-chip RAM, DRAM and the vector area; 8/16-bit operands swept as in C02 with both carry-in values for ROTXL/ROTXR. distinct non-trivial = distinct (form, first instruction bytes, resulting register file) triples of in-domain cases.',
        'assumptions': ['the hand-written Model/Cpu.lean mirrors the Rust handlers (checked by the correspondence run on every case); only its dispatch tables are regenerated from source'],
    },
    'C04': {
        'lean': ['H8.Props.C04'],
        'gen': ['consts', 'buscost', 'busmap', 'dispatch'],
        'runs': [{'mode': 'step', 'shards': 16}],
        'rule': 'single-step cases on the real Cpu (fetch+exec through the verif hook) from a tagged background memory (every byte = hash of its address) with the full register file, CCR, PC, cost and the complete delta of all five stores compared: per form of spec/isa.tbl every combination of the register fields (x2), all 256 initial CCR values, every value of immediate/bit/condition fields, seeded random instances with boundary-value register files and operand addresses at both ends of on-chip RAM, DRAM and the vector area; the 256 x 8 x 2 (operand byte, bit number, C) cube for every op x location (quick: half of it), bit-number registers holding 0-255. distinct non-trivial = distinct (form, first instruction bytes, resulting register file) triples of in-domain cases.',
        'assumptions': ['the hand-written Model/Cpu.lean mirrors the Rust handlers (checked by the correspondence run on every case); only its dispatch tables are regenerated from source'],
    },
    'C05': {
        'lean': ['H8.Props.C05', 'H8.Lemmas.MemBE'],
        'gen': ['consts', 'buscost', 'busmap', 'dispatch'],
        'runs': [{'mode': 'step', 'shards': 16}],
        'rule': 'single-step cases on the real Cpu (fetch+exec through the verif hook) from a tagged background memory (every byte = hash of its address) with the full register file, CCR, PC, cost and the complete delta of all five stores compared: per form of spec/isa.tbl every combination of the register fields (x2), all 256 initial CCR values, every value of immediate/bit/condition fields, seeded random instances with boundary-value register files and operand addresses at both ends of on-chip RAM, DRAM and the vector area; 16 conditions x 256 CCR x both Bcc forms, all even 8-bit displacements, return frames with non-zero top byte. distinct non-trivial = distinct (form, first instruction bytes, resulting register file) triples of in-domain cases.',
        'assumptions': ['the hand-written Model/Cpu.lean mirrors the Rust handlers (checked by the correspondence run on every case); only its dispatch tables are regenerated from source'],
    },
    'C06': {
        'lean': ['H8.Props.C06'],
        'gen': ['consts', 'buscost', 'busmap', 'dispatch'],
        'runs': [{'mode': 'step', 'shards': 16}],
        'rule': 'single-step cases on the real Cpu (fetch+exec through the verif hook) from a tagged background memory (every byte = hash of its address) with the full register file, CCR, PC, cost and the complete delta of all five stores compared: per form of spec/isa.tbl every combination of the register fields (x2), all 256 initial CCR values, every value of immediate/bit/condition fields, seeded random instances with boundary-value register files and operand addresses at both ends of on-chip RAM, DRAM and the vector area; TRAPA #1-#3 and RTE with all CCR values, vector contents with non-zero top byte, interrupt entry through the controller hooks (n=0 cases). distinct non-trivial = distinct (form, first instruction bytes, resulting register file) triples of in-domain cases.',
        'assumptions': ['the hand-written Model/Cpu.lean mirrors the Rust handlers (checked by the correspondence run on every case); only its dispatch tables are regenerated from source'],
    },
    'C07': {
        'lean': ['H8.Props.C07'],
        'gen': ['consts', 'buscost', 'busmap', 'dispatch'],
        'runs': [{'mode': 'step', 'shards': 16}],
        'rule': 'single-step cases on the real Cpu (fetch+exec through the verif hook) from a tagged background memory (every byte = hash of its address) with the full register file, CCR, PC, cost and the complete delta of all five stores compared: per form of spec/isa.tbl every combination of the register fields (x2), all 256 initial CCR values, every value of immediate/bit/condition fields, seeded random instances with boundary-value register files and operand addresses at both ends of on-chip RAM, DRAM and the vector area; plus all 65,536 first words and all second words of every prefix class (see the C07 generator). distinct non-trivial = distinct (form, first instruction bytes, resulting register file) triples of in-domain cases.',
        'assumptions': ['the hand-written Model/Cpu.lean mirrors the Rust handlers (checked by the correspondence run on every case); only its dispatch tables are regenerated from source'],
    },
    'C08': {
        'lean': ['H8.Props.C08'],
        'gen': ['consts', 'buscost', 'busmap', 'dispatch'],
        'runs': [{'mode': 'step', 'shards': 16}],
        'rule': 'single-step cases on the real Cpu (fetch+exec through the verif hook) from a tagged background memory (every byte = hash of its address) with the full register file, CCR, PC, cost and the complete delta of all five stores compared: per form of spec/isa.tbl every combination of the register fields (x2), all 256 initial CCR values, every value of immediate/bit/condition fields, seeded random instances with boundary-value register files and operand addresses at both ends of on-chip RAM, DRAM and the vector area; base registers with every upper byte, sums that wrap modulo 2^24, all EA kinds incl. stack and @@aa:8. distinct non-trivial = distinct (form, first instruction bytes, resulting register file) triples of in-domain cases.',
        'assumptions': ['the hand-written Model/Cpu.lean mirrors the Rust handlers (checked by the correspondence run on every case); only its dispatch tables are regenerated from source'],
    },
    'C20': {
        'lean': ['H8.Props.C20', 'H8.Props.C19'],
        'gen': ['consts', 'buscost', 'busmap', 'dispatch'],
        'runs': [{'mode': 'step', 'shards': 16}],
        'rule': 'single-step cases on the real Cpu (fetch+exec through the verif hook) from a tagged background memory (every byte = hash of its address) with the full register file, CCR, PC, cost and the complete delta of all five stores compared: per form of spec/isa.tbl every combination of the register fields (x2), all 256 initial CCR values, every value of immediate/bit/condition fields, seeded random instances with boundary-value register files and operand addresses at both ends of on-chip RAM, DRAM and the vector area; six bus-controller settings under which every (area, kind) cost is distinct; only the charge is compared. distinct non-trivial = distinct (form, first instruction bytes, resulting register file) triples of in-domain cases.',
        'assumptions': ['the hand-written Model/Cpu.lean mirrors the Rust handlers (checked by the correspondence run on every case); only its dispatch tables are regenerated from source'],
    },
}
