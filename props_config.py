"""Per-property configuration of check.py: theorem modules, translator obligations, harness runs."""

PROPS = {
    'C19': {
        'lean': ['H8.Props.C19'],
        'gen': ['consts', 'buscost'],
        'runs': [{'mode': 'cost', 'shards': 8}],
        'exhaustive': True,
        'rule': ('exhaustive: 51 addresses (on-chip RAM ends/middle, both ends + middle of all eight areas, region borders, '
                 'a few out-of-domain) x per-area setting space (bus width x access states x wait 0-3 x DRAM select 0-7) x 6 kinds x '
                 'n=1..5 with the other areas\' bits random, plus seeded random settings/addresses/counts; through the public '
                 'Cpu::calc_state_with_addr. distinct non-trivial = distinct in-domain (settings, kind, n, address) tuples.'),
        'assumptions': ['reads of ABWCR/ASTCR/WCRH/WCRL/DRCRA by the cost function never fail (they are plain io_registrs1 bytes; '
                        'checked by the harness, which programs them through Bus::write)'],
    },
}
