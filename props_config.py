"""Per-property configuration of check.py: theorem modules, translator obligations, harness runs."""

PROPS = {
    'C19': {
        'lean': ['H8.Props.C19'],
        'gen': ['consts', 'buscost'],
        'runs': [{'mode': 'cost', 'shards': 8}],
        'exhaustive': True,
        'rule': ('exhaustive: 51 addresses (on-chip RAM ends/middle, both ends + middle of all eight areas, region borders, '
                 'a few out-of-domain) x per-area setting space (bus width x access states x wait 0-3 x DRAM select 0-7) x 6 kinds x '
                 'n=1..5 with the other areas\' bits random, plus seeded random settings/addresses/counts; through the public '
                 'Cpu::calc_state_with_addr. distinct non-trivial = distinct in-domain (settings, kind, n, address) tuples.'),
        'assumptions': ['reads of ABWCR/ASTCR/WCRH/WCRL/DRCRA by the cost function never fail (they are plain io_registrs1 bytes; '
                        'checked by the harness, which programs them through Bus::write)'],
    },
    'C09': {
        'lean': ['H8.Props.C09'],
        'gen': ['consts', 'busmap'],
        'runs': [{'mode': 'bus09', 'shards': 16}],
        'rule': ('(a) address-space sweep through the real Bus::read/Bus::write (read, write a tag, read back) classified per '
                 'address and compared with the property\'s ranges: thorough = all 2^24 addresses plus bands near 2^31/2^32, '
                 'quick = every region boundary +-0x400 and 2048 random 64-byte windows; (b) seeded random histories of 1-64 '
                 'interleaved byte writes/reads over region edges, holes, >=2^24 and random addresses, with per-op results and '
                 'the complete final contents of all five stores compared against an abstract address->byte map. '
                 'distinct non-trivial = distinct sweeps, and distinct histories containing at least one successful write.'),
        'assumptions': ['16/32-bit accesses are exercised through the CPU step harness (C01/C08), not here'],
    },
}
