/-
  Machine state shared by Model and Spec: byte stores, bus, timer, CPU.
  Plain data; Spec calls none of Model's functions.
-/
import Std.Data.HashMap
import H8.Basic
import H8.Gen.Consts
import H8.Gen.BusMap
namespace H8

/-- Outcome of an operation of the emulator: a value, an `anyhow` error (all error messages are
    identified), or a Rust panic. -/
inductive Out (α : Type) where
  | ok (a : α)
  | err
  | panic
  deriving Repr

instance [BEq α] : BEq (Out α) where
  beq
    | .ok a, .ok b => a == b
    | .err, .err => true
    | .panic, .panic => true
    | _, _ => false

/-- A byte array as background contents plus an overlay of written cells.  Only `get_set_eq`
    and `get_set_ne` are ever used about it. -/
structure Mem where
  base : Nat → BitVec 8
  ov : Std.HashMap Nat (BitVec 8)

namespace Mem
def get (m : Mem) (i : Nat) : BitVec 8 := m.ov.getD i (m.base i)
def set (m : Mem) (i : Nat) (v : BitVec 8) : Mem := { m with ov := m.ov.insert i v }
def zero : Mem := { base := fun _ => 0#8, ov := {} }
def ofBase (f : Nat → BitVec 8) : Mem := { base := f, ov := {} }

@[simp] theorem get_set_eq (m : Mem) (i : Nat) (v : BitVec 8) : (m.set i v).get i = v := by
  simp [get, set]

@[simp] theorem get_set_ne (m : Mem) (i j : Nat) (v : BitVec 8) (h : i ≠ j) : (m.set i v).get j = m.get j := by
  simp [get, set, Std.HashMap.getD_insert, h]

theorem get_set (m : Mem) (i j : Nat) (v : BitVec 8) : (m.set i v).get j = if i = j then v else m.get j := by
  by_cases h : i = j
  · subst h; simp
  · simp [h]
end Mem

/-- 8-bit timer channel 0 (`Timer8_0` in src/modules/timer8.rs). -/
structure Timer where
  state : Nat := 0          -- residual states (u16)
  prescaler : Nat := 0      -- 0 = stopped, else 8 / 64 / 8192
  cmib : Bool := false
  cmia : Bool := false
  ovi : Bool := false
  clearedBy : Nat := 0      -- 0 Forbidden, 1 CompareA, 2 CompareInputB, 3 InputB
  deriving Repr, BEq, DecidableEq

/-- `Bus` of src/bus.rs, plus the timer it reaches through `module_manager`, plus the log of
    messages handed to `send_message` (newest first). -/
structure Bus where
  vector : Mem
  dram : Mem
  ram : Mem
  io1 : Mem
  io2 : Mem
  portIn : Mem              -- io_port_in, 11 bytes
  stateSum : Nat := 0       -- cpu_state_sum
  msgs : List String := []
  timer : Timer := {}

namespace Bus
def store (b : Bus) : StoreId → Mem
  | .vector => b.vector | .dram => b.dram | .ram => b.ram | .io1 => b.io1 | .io2 => b.io2

def setStore (b : Bus) (s : StoreId) (m : Mem) : Bus :=
  match s with
  | .vector => { b with vector := m } | .dram => { b with dram := m } | .ram => { b with ram := m }
  | .io1 => { b with io1 := m } | .io2 => { b with io2 := m }

/-- all stores zero (what `Bus::new` creates) -/
def zero : Bus :=
  { vector := Mem.zero, dram := Mem.zero, ram := Mem.zero, io1 := Mem.zero, io2 := Mem.zero, portIn := Mem.zero }
end Bus

/-- The register file ER0–ER7 as one 256-bit vector (ER0 in bits 0–31).  Declared with
    `notation`, not `abbrev`: `bv_decide` must see the width. -/
notation "Regs" => BitVec 256

structure Cpu where
  regs : Regs := 0
  ccr : BitVec 8 := 0
  pc : BitVec 32 := 0
  opc : BitVec 32 := 0        -- operating_pc
  bus : Bus
  pending : List (BitVec 8) := []   -- interrupt_requests, head = oldest
  exitAddr : BitVec 32 := 0
  stateSum : Nat := 0
  out : List String := []     -- console output of the `__write` system call (newest first)

end H8
