/-
  `NP m`: the computation `m` of the model never ends in `Res.panic`, from any state.
  Closed under the monad operations; the primitives of the model (bus, registers, CCR, cost) are `NP`
  — everything except `fetch`, whose `unwrap` is the open finding C15-FETCH-PANIC.
-/
import H8.Lemmas.Handlers
import H8.Props.C09
namespace H8.Lemmas
open H8

def NP {α : Type} (m : M α) : Prop := ∀ s, m s ≠ .panic

theorem NP_pure {α} (a : α) : NP (pure a : M α) := fun _ => by simp
theorem NP_get : NP M.get := fun _ => by simp
theorem NP_modify (f : Cpu → Cpu) : NP (M.modify f) := fun _ => by simp
theorem NP_fail {α} : NP (M.fail : M α) := fun _ => by simp [M.fail]

theorem NP_bind {α β} {m : M α} {f : α → M β} (hm : NP m) (hf : ∀ a, NP (f a)) : NP (m >>= f) := by
  intro s
  rw [bind_ok]
  cases h : m s with
  | ok a s' => exact hf a s'
  | err => simp
  | panic => exact absurd h (hm s)

theorem NP_ite {α} {c : Prop} [Decidable c] {a b : M α} (ha : NP a) (hb : NP b) : NP (if c then a else b) := by
  split <;> assumption

theorem NP_seq {α β} {m : M α} {k : M β} (hm : NP m) (hk : NP k) : NP (do let _ ← m; k) :=
  NP_bind hm (fun _ => hk)

/-! ### primitives -/

theorem NP_busRead (a : BitVec 32) : NP (busRead a) := by
  intro st
  unfold busRead
  have := Props.C09.read_never_panics st.bus a
  cases h : st.bus.read a <;> simp_all

theorem NP_busWrite (a : BitVec 32) (v : BitVec 8) : NP (busWrite a v) := by
  intro st
  unfold busWrite
  have := Props.C09.write_never_panics st.bus a v
  cases h : st.bus.write a v <;> simp_all

theorem NP_readRnB (f : BitVec 8) : NP (readRnB f) := fun _ => by unfold readRnB; split <;> simp
theorem NP_writeRnB (f v : BitVec 8) : NP (writeRnB f v) := fun _ => by unfold writeRnB; split <;> simp
theorem NP_readRnW (f : BitVec 8) : NP (readRnW f) := fun _ => by unfold readRnW; split <;> simp
theorem NP_writeRnW (f : BitVec 8) (v : BitVec 16) : NP (writeRnW f v) := fun _ => by unfold writeRnW; split <;> simp
theorem NP_readRnL (f : BitVec 8) : NP (readRnL f) := fun _ => by unfold readRnL; split <;> simp
theorem NP_writeRnL (f : BitVec 8) (v : BitVec 32) : NP (writeRnL f v) := fun _ => by unfold writeRnL; split <;> simp

theorem NP_readRn (sz : Sz) (f : BitVec 8) : NP (readRn sz f) := by
  cases sz <;> simp only [readRn]
  · exact NP_bind (NP_readRnB f) (fun _ => NP_pure _)
  · exact NP_bind (NP_readRnW f) (fun _ => NP_pure _)
  · exact NP_readRnL f

theorem NP_writeRn (sz : Sz) (f : BitVec 8) (v : BitVec 32) : NP (writeRn sz f v) := by
  cases sz <;> simp only [writeRn]
  · exact NP_writeRnB _ _
  · exact NP_writeRnW _ _
  · exact NP_writeRnL _ _

theorem NP_changeCcr (bit : Nat) (on : Bool) : NP (changeCcr bit on) := fun _ => by simp
theorem NP_readCcr (bit : Nat) : NP (readCcr bit) := fun _ => by simp
theorem NP_writeCcr_ite (bit : Nat) (c : Bool) : NP (writeCcr bit (if c then 1 else 0)) := fun _ => by
  rw [writeCcr_ite]; simp
theorem NP_writeCcr_zero (bit : Nat) : NP (writeCcr bit 0) := fun _ => by rw [writeCcr_zero]; simp
theorem NP_writeCcr_one (bit : Nat) : NP (writeCcr bit 1) := fun _ => by rw [writeCcr_one]; simp

theorem NP_calcStateWithAddr (k : Kind) (n : BitVec 8) (a : BitVec 32) : NP (calcStateWithAddr k n a) := fun _ => by
  unfold calcStateWithAddr; split <;> simp
theorem NP_calcState (k : Kind) (n : BitVec 8) : NP (calcState k n) := fun s => by
  unfold calcState; split
  · simp
  · exact NP_calcStateWithAddr _ _ _ s
theorem NP_costI (n : BitVec 8) : NP (costI n) := NP_calcState _ _

theorem NP_pcDisp (d : BitVec 32) : NP (pcDisp d) := fun _ => by
  unfold pcDisp; simp only; split <;> (try split) <;> simp

end H8.Lemmas
