/-
  Helper lemmas: the Spec's register accessors (case analysis on the register number) agree
  with the Model's shift-based accessors on the 256-bit register file, for every register
  number and every register file.
-/
import H8.Model.Cpu
import H8.Spec.Sem
import Std.Tactic.BVDecide
namespace H8.Lemmas
open H8

theorem bv3_cases (i : BitVec 3) : i = 0 ∨ i = 1 ∨ i = 2 ∨ i = 3 ∨ i = 4 ∨ i = 5 ∨ i = 6 ∨ i = 7 := by
  bv_decide

theorem getER_eq (r : Regs) (i : BitVec 3) : Spec.getER r i = getEr r (i.setWidth 8) := by
  rcases bv3_cases i with h | h | h | h | h | h | h | h <;> subst h <;>
    simp only [Spec.getER, getEr, shOf] <;> bv_decide

theorem setER_eq (r : Regs) (i : BitVec 3) (v : BitVec 32) : Spec.setER r i v = setEr r (i.setWidth 8) v := by
  rcases bv3_cases i with h | h | h | h | h | h | h | h <;> subst h <;>
    simp only [Spec.setER, setEr, shOf] <;> bv_decide

end H8.Lemmas
