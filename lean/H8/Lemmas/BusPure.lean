/-
  Word / long reads of the model as pure functions of the bus: reading does not change the machine and its result
  depends on the bus alone; writing changes the bus alone.
-/
import H8.Lemmas.Handlers
namespace H8.Lemmas
open H8

def liftOut {α} (o : Out α) (s : Cpu) : Res α :=
  match o with | .ok v => .ok v s | .err => .err | .panic => .panic

def rdW (b : Bus) (a : BitVec 32) : Out (BitVec 16) :=
  match b.read a with
  | .ok hi => (match b.read (a + 1) with
      | .ok lo => .ok ((hi.setWidth 16 <<< 8) ||| lo.setWidth 16) | .err => .err | .panic => .panic)
  | .err => .err | .panic => .panic

def rdL (b : Bus) (a : BitVec 32) : Out (BitVec 32) :=
  match rdW b a with
  | .ok hi => (match rdW b (a + 2) with
      | .ok lo => .ok ((hi.setWidth 32 <<< 16) ||| lo.setWidth 32) | .err => .err | .panic => .panic)
  | .err => .err | .panic => .panic

theorem busRead_eq_lift (a : BitVec 32) (s : Cpu) : busRead a s = liftOut (s.bus.read a) s := by
  unfold busRead liftOut; cases s.bus.read a <;> rfl

theorem readAbs24W_eq_lift (a : BitVec 32) (s : Cpu) : readAbs24W a s = liftOut (rdW s.bus a) s := by
  simp only [readAbs24W, bind_ok, pure_ok, busRead_eq_lift, rdW, liftOut]
  cases s.bus.read a <;> simp <;> cases s.bus.read (a + 1) <;> simp

theorem readAbs24L_eq_lift (a : BitVec 32) (s : Cpu) : readAbs24L a s = liftOut (rdL s.bus a) s := by
  simp only [readAbs24L, bind_ok, pure_ok, readAbs24W_eq_lift, rdL, liftOut]
  cases rdW s.bus a <;> simp <;> cases rdW s.bus (a + 2) <;> simp

/-- a successful long read leaves the machine alone, and any machine with the same bus reads the same -/
theorem readAbs24L_ok (a : BitVec 32) (s s1 : Cpu) (v : BitVec 32) (h : readAbs24L a s = .ok v s1) :
    s1 = s ∧ ∀ s' : Cpu, s'.bus = s.bus → readAbs24L a s' = .ok v s' := by
  rw [readAbs24L_eq_lift] at h
  unfold liftOut at h
  cases e : rdL s.bus a <;> rw [e] at h <;> simp at h
  refine ⟨h.2.symm, fun s' hb => ?_⟩
  rw [readAbs24L_eq_lift, hb, e]; simp [liftOut, h.1]

theorem busWrite_only_bus (a : BitVec 32) (v : BitVec 8) (s s' : Cpu) (h : busWrite a v s = .ok () s') :
    s' = { s with bus := s'.bus } := by
  unfold busWrite at h
  cases e : s.bus.write a v <;> rw [e] at h <;> simp at h
  rw [← h]

theorem writeAbs24W_only_bus (a : BitVec 32) (v : BitVec 16) (s s' : Cpu) (h : writeAbs24W a v s = .ok () s') :
    s' = { s with bus := s'.bus } := by
  simp only [writeAbs24W, bind_ok] at h
  split at h
  case h_2 => simp at h
  case h_3 => simp at h
  rename_i u s1 h1
  have e1 := busWrite_only_bus _ _ _ _ h1
  have e2 := busWrite_only_bus _ _ _ _ h
  rw [e2, e1]

theorem writeAbs24L_only_bus (a : BitVec 32) (v : BitVec 32) (s s' : Cpu) (h : writeAbs24L a v s = .ok () s') :
    s' = { s with bus := s'.bus } := by
  simp only [writeAbs24L, bind_ok] at h
  split at h
  case h_2 => simp at h
  case h_3 => simp at h
  rename_i u s1 h1
  have e1 := writeAbs24W_only_bus _ _ _ _ h1
  have e2 := writeAbs24W_only_bus _ _ _ _ h
  rw [e2, e1]

end H8.Lemmas
