/-
  Helper lemmas: the cost lookup of the model succeeds whenever the costed address is a 24-bit
  address (uses C09: the bus-controller registers are readable; C19: the translated cost function
  is total on 24-bit addresses).
-/
import H8.Lemmas.Handlers
import H8.Props.C09
import H8.Props.C19
namespace H8.Lemmas
open H8

theorem bsc_readable (b : Bus) (a : Nat) (h : Spec.accessible a) (h32 : a < 2 ^ 32) :
    ∃ v, b.read (BitVec.ofNat 32 a) = .ok v := by
  apply (Props.C09.read_ok_iff b (BitVec.ofNat 32 a)).mpr
  simpa [BitVec.toNat_ofNat, Nat.mod_eq_of_lt h32] using h

theorem costAt_total (s : Cpu) (k : Kind) (n : BitVec 8) (addr : BitVec 32)
    (ha : BitVec.ule addr 0xffffff#32 = true) : ∃ c, costAt s k n addr = some c := by
  obtain ⟨v1, h1⟩ := bsc_readable s.bus Gen.ABWCR (by unfold Spec.accessible Gen.ABWCR; omega) (by unfold Gen.ABWCR; omega)
  obtain ⟨v2, h2⟩ := bsc_readable s.bus Gen.ASTCR (by unfold Spec.accessible Gen.ASTCR; omega) (by unfold Gen.ASTCR; omega)
  obtain ⟨v3, h3⟩ := bsc_readable s.bus Gen.WCRH (by unfold Spec.accessible Gen.WCRH; omega) (by unfold Gen.WCRH; omega)
  obtain ⟨v4, h4⟩ := bsc_readable s.bus Gen.WCRL (by unfold Spec.accessible Gen.WCRL; omega) (by unfold Gen.WCRL; omega)
  obtain ⟨v5, h5⟩ := bsc_readable s.bus Gen.DRCRA (by unfold Spec.accessible Gen.DRCRA; omega) (by unfold Gen.DRCRA; omega)
  unfold costAt
  simp only [h1, h2, h3, h4, h5]
  have := Props.C19.cost_total v1 v2 v3 v4 v5 k n addr ha
  simp only [R8.isErr, this]
  simp

theorem calcStateWithAddr_total (s : Cpu) (k : Kind) (n : BitVec 8) (addr : BitVec 32)
    (ha : BitVec.ule addr 0xffffff#32 = true) : ∃ c, calcStateWithAddr k n addr s = .ok c s := by
  obtain ⟨c, hc⟩ := costAt_total s k n addr ha
  exact ⟨c, by simp [calcStateWithAddr, hc]⟩

/-- fetch cycles are costed at the instruction's own address: a 24-bit address always has a cost -/
theorem costI_total (s : Cpu) (n : BitVec 8) (ha : BitVec.ule s.opc 0xffffff#32 = true) :
    ∃ c, costI n s = .ok c s := by
  unfold costI calcState
  simpa using calcStateWithAddr_total s .I n s.opc ha

/-- the handler has only changed registers / flags: the cost is still looked up at the same `opc` -/
theorem costI_total' (s : Cpu) (n : BitVec 8) (opc0 : BitVec 32) (h : s.opc = opc0)
    (ha : BitVec.ule opc0 0xffffff#32 = true) : ∃ c, costI n s = .ok c s :=
  costI_total s n (h ▸ ha)

end H8.Lemmas
