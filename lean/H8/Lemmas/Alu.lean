/-
  Helper lemmas: the Model's ALU procedures (transcribed from the Rust code: comparisons, widened
  sums, overflowing_add) compute exactly the Spec's kernels (the manual's boolean carry/borrow
  formulas), for every operand value at 8, 16 and 32 bits and every incoming CCR.
-/
import H8.Lemmas.Regs
namespace H8.Lemmas
open H8

/-! ### monad plumbing -/

@[simp] theorem bind_ok {α β} (m : M α) (f : α → M β) (s : Cpu) :
    (m >>= f) s = match m s with | .ok a s' => f a s' | .err => .err | .panic => .panic := rfl

@[simp] theorem pure_ok {α} (a : α) (s : Cpu) : (pure a : M α) s = .ok a s := rfl

@[simp] theorem modify_ok (f : Cpu → Cpu) (s : Cpu) : M.modify f s = .ok () (f s) := rfl
@[simp] theorem get_ok (s : Cpu) : M.get s = .ok s s := rfl

@[simp] theorem changeCcr_ok (bit : Nat) (on : Bool) (s : Cpu) :
    changeCcr bit on s = .ok () { s with ccr := changeCcrV s.ccr bit on } := rfl

/-- `write_ccr(bit, if c {1} else {0})` never panics and is `change_ccr(bit, c)` -/
@[simp] theorem writeCcr_ite (bit : Nat) (c : Bool) (s : Cpu) :
    writeCcr bit (if c then 1 else 0) s = .ok () { s with ccr := changeCcrV s.ccr bit c } := by
  cases c <;> simp [writeCcr]

@[simp] theorem writeCcr_zero (bit : Nat) (s : Cpu) :
    writeCcr bit 0 s = .ok () { s with ccr := changeCcrV s.ccr bit false } := by
  simp [writeCcr]

@[simp] theorem writeCcr_one (bit : Nat) (s : Cpu) :
    writeCcr bit 1 s = .ok () { s with ccr := changeCcrV s.ccr bit true } := by
  simp [writeCcr]

@[simp] theorem readCcr_ok (bit : Nat) (s : Cpu) : readCcr bit s = .ok ((s.ccr >>> bit) &&& 1) s := rfl

/-! ### ADD / SUB / CMP -/

local macro "alu_flags" : tactic => `(tactic|
  (simp only [Spec.alu2K, Spec.alu1K, Spec.addFlags, Spec.subFlags, Spec.nzClearV, Spec.setFlag, Spec.carryAt, Spec.borrowAt,
     Spec.flag, changeCcrV] <;> bv_decide))

/-- closes `proc d s st = .ok r { st with ccr := (Spec kernel).2 }` -/
local macro "proc_eq" defs:term : tactic => `(tactic|
  (simp only [$defs:term, bind_ok, pure_ok, writeCcr_ite, writeCcr_zero, writeCcr_one, changeCcr_ok, readCcr_ok, modify_ok, get_ok,
     bne_iff_ne, ne_eq, ite_not]
   try (congr 2 <;> alu_flags)))

theorem addProc8 (d s : BitVec 8) (st : Cpu) :
    addProc d s st = .ok (d + s) { st with ccr := (Spec.alu2K .add d s st.ccr).2 } := by
  proc_eq addProc

theorem addProc16 (d s : BitVec 16) (st : Cpu) :
    addProc d s st = .ok (d + s) { st with ccr := (Spec.alu2K .add d s st.ccr).2 } := by
  proc_eq addProc

theorem addProc32 (d s : BitVec 32) (st : Cpu) :
    addProc d s st = .ok (d + s) { st with ccr := (Spec.alu2K .add d s st.ccr).2 } := by
  proc_eq addProc

theorem subCalc8 (d s : BitVec 8) (st : Cpu) :
    subCalc d s st = .ok (d - s) { st with ccr := (Spec.alu2K .sub d s st.ccr).2 } := by
  proc_eq subCalc

theorem subCalc16 (d s : BitVec 16) (st : Cpu) :
    subCalc d s st = .ok (d - s) { st with ccr := (Spec.alu2K .sub d s st.ccr).2 } := by
  proc_eq subCalc

theorem subCalc32 (d s : BitVec 32) (st : Cpu) :
    subCalc d s st = .ok (d - s) { st with ccr := (Spec.alu2K .sub d s st.ccr).2 } := by
  proc_eq subCalc

theorem negProc8 (d : BitVec 8) (st : Cpu) :
    negProc d st = .ok (0 - d) { st with ccr := (Spec.alu1K .neg d st.ccr).2 } := by
  proc_eq negProc

theorem negProc16 (d : BitVec 16) (st : Cpu) :
    negProc d st = .ok (0 - d) { st with ccr := (Spec.alu1K .neg d st.ccr).2 } := by
  proc_eq negProc

theorem negProc32 (d : BitVec 32) (st : Cpu) :
    negProc d st = .ok (0 - d) { st with ccr := (Spec.alu1K .neg d st.ccr).2 } := by
  proc_eq negProc

theorem notProc8 (d : BitVec 8) (st : Cpu) :
    notProc d st = .ok (~~~d) { st with ccr := (Spec.alu1K .not d st.ccr).2 } := by
  proc_eq notProc

theorem notProc16 (d : BitVec 16) (st : Cpu) :
    notProc d st = .ok (~~~d) { st with ccr := (Spec.alu1K .not d st.ccr).2 } := by
  proc_eq notProc

theorem notProc32 (d : BitVec 32) (st : Cpu) :
    notProc d st = .ok (~~~d) { st with ccr := (Spec.alu1K .not d st.ccr).2 } := by
  proc_eq notProc

theorem addxProc_eq (d s : BitVec 8) (st : Cpu) :
    addxProc d s st = .ok (d + s + ((st.ccr >>> cC) &&& 1))
      { st with ccr := (Spec.alu2K .addx d s st.ccr).2 } := by
  simp only [addxProc, bind_ok, pure_ok, writeCcr_ite, readCcr_ok, modify_ok]
  congr 2
  generalize st.ccr = c
  alu_flags

/-- result of ADDX as the Spec computes it -/
theorem addx_result (d s : BitVec 8) (ccr : BitVec 8) :
    (Spec.alu2K .addx d s ccr).1 = some (d + s + ((ccr >>> cC) &&& 1)) := by
  simp only [Spec.alu2K, Spec.flag, Option.some.injEq]
  bv_decide

/-! ### shifts and rotates: the model's (result, N, Z, V, C) tuple against the Spec kernel -/

/-- CCR after the four `write_ccr` calls of a shift/rotate handler -/
def shiftCcr (ccr : BitVec 8) (n z v c : Bool) : BitVec 8 :=
  changeCcrV (changeCcrV (changeCcrV (changeCcrV ccr cN n) cZ z) cV v) cC c

local macro "shift_eq" : tactic => `(tactic|
  (unfold shiftK Spec.alu1K shiftCcr
   simp only [Prod.mk.injEq]
   unfold Spec.setFlag changeCcrV
   (try unfold Spec.flag)
   constructor <;> bv_decide))

theorem shll8 (d : BitVec 8) (ccr : BitVec 8) :
    (let (r, n, z, v, c) := shiftK .shll d ccr; (r, shiftCcr ccr n z v c)) = Spec.alu1K .shll d ccr := by shift_eq
theorem shll16 (d : BitVec 16) (ccr : BitVec 8) :
    (let (r, n, z, v, c) := shiftK .shll d ccr; (r, shiftCcr ccr n z v c)) = Spec.alu1K .shll d ccr := by shift_eq
theorem shll32 (d : BitVec 32) (ccr : BitVec 8) :
    (let (r, n, z, v, c) := shiftK .shll d ccr; (r, shiftCcr ccr n z v c)) = Spec.alu1K .shll d ccr := by shift_eq
theorem shlr8 (d : BitVec 8) (ccr : BitVec 8) :
    (let (r, n, z, v, c) := shiftK .shlr d ccr; (r, shiftCcr ccr n z v c)) = Spec.alu1K .shlr d ccr := by shift_eq
theorem shlr16 (d : BitVec 16) (ccr : BitVec 8) :
    (let (r, n, z, v, c) := shiftK .shlr d ccr; (r, shiftCcr ccr n z v c)) = Spec.alu1K .shlr d ccr := by shift_eq
theorem shlr32 (d : BitVec 32) (ccr : BitVec 8) :
    (let (r, n, z, v, c) := shiftK .shlr d ccr; (r, shiftCcr ccr n z v c)) = Spec.alu1K .shlr d ccr := by shift_eq
theorem shar8 (d : BitVec 8) (ccr : BitVec 8) :
    (let (r, n, z, v, c) := shiftK .shar d ccr; (r, shiftCcr ccr n z v c)) = Spec.alu1K .shar d ccr := by shift_eq
theorem shar16 (d : BitVec 16) (ccr : BitVec 8) :
    (let (r, n, z, v, c) := shiftK .shar d ccr; (r, shiftCcr ccr n z v c)) = Spec.alu1K .shar d ccr := by shift_eq
theorem shar32 (d : BitVec 32) (ccr : BitVec 8) :
    (let (r, n, z, v, c) := shiftK .shar d ccr; (r, shiftCcr ccr n z v c)) = Spec.alu1K .shar d ccr := by shift_eq
theorem rotl8 (d : BitVec 8) (ccr : BitVec 8) :
    (let (r, n, z, v, c) := shiftK .rotl d ccr; (r, shiftCcr ccr n z v c)) = Spec.alu1K .rotl d ccr := by shift_eq
theorem rotl16 (d : BitVec 16) (ccr : BitVec 8) :
    (let (r, n, z, v, c) := shiftK .rotl d ccr; (r, shiftCcr ccr n z v c)) = Spec.alu1K .rotl d ccr := by shift_eq
theorem rotl32 (d : BitVec 32) (ccr : BitVec 8) :
    (let (r, n, z, v, c) := shiftK .rotl d ccr; (r, shiftCcr ccr n z v c)) = Spec.alu1K .rotl d ccr := by shift_eq
theorem rotr8 (d : BitVec 8) (ccr : BitVec 8) :
    (let (r, n, z, v, c) := shiftK .rotr d ccr; (r, shiftCcr ccr n z v c)) = Spec.alu1K .rotr d ccr := by shift_eq
theorem rotr16 (d : BitVec 16) (ccr : BitVec 8) :
    (let (r, n, z, v, c) := shiftK .rotr d ccr; (r, shiftCcr ccr n z v c)) = Spec.alu1K .rotr d ccr := by shift_eq
theorem rotr32 (d : BitVec 32) (ccr : BitVec 8) :
    (let (r, n, z, v, c) := shiftK .rotr d ccr; (r, shiftCcr ccr n z v c)) = Spec.alu1K .rotr d ccr := by shift_eq
theorem rotxl8 (d : BitVec 8) (ccr : BitVec 8) :
    (let (r, n, z, v, c) := shiftK .rotxl d ccr; (r, shiftCcr ccr n z v c)) = Spec.alu1K .rotxl d ccr := by shift_eq
theorem rotxl16 (d : BitVec 16) (ccr : BitVec 8) :
    (let (r, n, z, v, c) := shiftK .rotxl d ccr; (r, shiftCcr ccr n z v c)) = Spec.alu1K .rotxl d ccr := by shift_eq
theorem rotxl32 (d : BitVec 32) (ccr : BitVec 8) :
    (let (r, n, z, v, c) := shiftK .rotxl d ccr; (r, shiftCcr ccr n z v c)) = Spec.alu1K .rotxl d ccr := by shift_eq
theorem rotxr8 (d : BitVec 8) (ccr : BitVec 8) :
    (let (r, n, z, v, c) := shiftK .rotxr d ccr; (r, shiftCcr ccr n z v c)) = Spec.alu1K .rotxr d ccr := by shift_eq
theorem rotxr16 (d : BitVec 16) (ccr : BitVec 8) :
    (let (r, n, z, v, c) := shiftK .rotxr d ccr; (r, shiftCcr ccr n z v c)) = Spec.alu1K .rotxr d ccr := by shift_eq
theorem rotxr32 (d : BitVec 32) (ccr : BitVec 8) :
    (let (r, n, z, v, c) := shiftK .rotxr d ccr; (r, shiftCcr ccr n z v c)) = Spec.alu1K .rotxr d ccr := by shift_eq

end H8.Lemmas
