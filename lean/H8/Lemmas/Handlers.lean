/-
  Helper lemmas for handler-level theorems: register accessors on opcode nibbles never fail,
  cost lookups do not change the state, Spec register accessors agree with the Model's.
-/
import H8.Lemmas.Alu
namespace H8.Lemmas
open H8

theorem nib_le_15 (op : BitVec 16) (k : Nat) : (nib op k).ule 15#8 = true := by
  unfold nib; bv_decide

@[simp] theorem readRnB_nib (op : BitVec 16) (k : Nat) (s : Cpu) :
    readRnB (nib op k) s = .ok (rdB s.regs (nib op k)) s := by
  simp [readRnB, nib_le_15]

@[simp] theorem writeRnB_nib (op : BitVec 16) (k : Nat) (v : BitVec 8) (s : Cpu) :
    writeRnB (nib op k) v s = .ok () { s with regs := wrB s.regs (nib op k) v } := by
  simp [writeRnB, nib_le_15]

@[simp] theorem readRnW_nib (op : BitVec 16) (k : Nat) (s : Cpu) :
    readRnW (nib op k) s = .ok (rdW s.regs (nib op k)) s := by
  simp [readRnW, nib_le_15]

@[simp] theorem writeRnW_nib (op : BitVec 16) (k : Nat) (v : BitVec 16) (s : Cpu) :
    writeRnW (nib op k) v s = .ok () { s with regs := wrW s.regs (nib op k) v } := by
  simp [writeRnW, nib_le_15]

theorem readRnL_ok (f : BitVec 8) (s : Cpu) (h : f.ule 7#8 = true) :
    readRnL f s = .ok (getEr s.regs f) s := by
  simp [readRnL, h]

theorem writeRnL_ok (f : BitVec 8) (v : BitVec 32) (s : Cpu) (h : f.ule 7#8 = true) :
    writeRnL f v s = .ok () { s with regs := setEr s.regs f v } := by
  simp [writeRnL, h]

/-- cost lookups leave the state alone -/
theorem calcStateWithAddr_state {k n a} {s s' : Cpu} {c : BitVec 8}
    (h : calcStateWithAddr k n a s = .ok c s') : s' = s := by
  unfold calcStateWithAddr at h
  split at h <;> simp at h
  exact h.2.symm

theorem calcState_state {k n} {s s' : Cpu} {c : BitVec 8} (h : calcState k n s = .ok c s') : s' = s := by
  unfold calcState at h
  split at h
  · simp at h
  · exact calcStateWithAddr_state h

theorem costI_state {n} {s s' : Cpu} {c : BitVec 8} (h : costI n s = .ok c s') : s' = s := calcState_state h

/-! ### Spec register accessors in the Model's vocabulary -/

theorem bv4_lo3 (i : BitVec 4) : (Spec.lo3 i).setWidth 8 = (i.setWidth 8) &&& 7 := by
  unfold Spec.lo3; bv_decide

theorem getR8_eq (r : Regs) (i : BitVec 4) : Spec.getR8 r i = rdB r (i.setWidth 8) := by
  simp only [Spec.getR8, getER_eq, rdB, getEr, shOf, Spec.lo3]
  bv_decide

theorem setR8_eq (r : Regs) (i : BitVec 4) (v : BitVec 8) : Spec.setR8 r i v = wrB r (i.setWidth 8) v := by
  simp only [Spec.setR8, getER_eq, setER_eq, wrB, getEr, setEr, shOf, Spec.lo3]
  bv_decide

theorem getR16_eq (r : Regs) (i : BitVec 4) : Spec.getR16 r i = rdW r (i.setWidth 8) := by
  simp only [Spec.getR16, getER_eq, rdW, getEr, shOf, Spec.lo3]
  bv_decide

theorem setR16_eq (r : Regs) (i : BitVec 4) (v : BitVec 16) : Spec.setR16 r i v = wrW r (i.setWidth 8) v := by
  simp only [Spec.setR16, getER_eq, setER_eq, wrW, getEr, setEr, shOf, Spec.lo3]
  bv_decide

end H8.Lemmas
