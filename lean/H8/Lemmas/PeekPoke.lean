/-
  The Model's bus (generated decoder + stores) seen through the Spec's `regionOf` / `peek` / `poke`.
-/
import H8.Model.Cpu
import H8.Spec.Sem
import H8.Lemmas.Handlers
namespace H8.Lemmas
open H8

/-- a byte read of the model is the Spec's `peek` on mapped addresses and an error elsewhere -/
theorem read_eq_peek (b : Bus) (a : BitVec 32) :
    b.read a = if Spec.regionOf a.toNat == .none then .err else .ok (Spec.peek b a.toNat) := by
  unfold Bus.read Gen.read_decode Spec.regionOf Spec.peek Spec.regionOf
  generalize a.toNat = n
  by_cases h1 : n ≤ 0xff
  · have hs : n < Gen.storeSize .vector := by simp [Gen.storeSize]; omega
    simp [h1, hs, Bus.store]
  · by_cases h2 : 0x400000 ≤ n ∧ n ≤ 0x5fffff
    · have : ¬ (0xfee000 ≤ n ∧ n ≤ 0xfee0ff) := by omega
      have hs : n - 0x400000 < Gen.storeSize .dram := by simp [Gen.storeSize]; omega
      simp [h1, h2, this, hs, Bus.store]
    · by_cases h3 : 0xfee000 ≤ n ∧ n ≤ 0xfee0ff
      · have hs : n - 0xfee000 < Gen.storeSize .io1 := by simp [Gen.storeSize]; omega
        simp [h1, h2, h3, hs, Bus.store]
      · by_cases h4 : 0xffbf20 ≤ n ∧ n ≤ 0xffff1f
        · have hs : n - 0xffbf20 < Gen.storeSize .ram := by simp [Gen.storeSize]; omega
          simp [h1, h2, h3, h4, hs, Bus.store]
        · by_cases h5 : 0xffff20 ≤ n ∧ n ≤ 0xffffe9
          · have hs : n - 0xffff20 < Gen.storeSize .io2 := by simp [Gen.storeSize]; omega
            simp [h1, h2, h3, h4, h5, hs, Bus.store]
          · simp [h1, h2, h3, h4, h5]

theorem busRead_peek (a : BitVec 32) (s s' : Cpu) (v : BitVec 8) (h : busRead a s = .ok v s') :
    s' = s ∧ v = Spec.peek s.bus a.toNat ∧ Spec.regionOf a.toNat ≠ .none := by
  unfold busRead at h
  rw [read_eq_peek] at h
  by_cases hr : Spec.regionOf a.toNat == .none
  · simp [hr] at h
  · simp only [hr] at h
    simp at h
    refine ⟨h.2.symm, h.1.symm, by simpa using hr⟩

/-- a byte write of the model to a mapped address that is not a special-function register (port DDR / DR,
    8TCR0) is the Spec's `poke` -/
theorem write_eq_poke (b : Bus) (a : BitVec 32) (v : BitVec 8)
    (hm : Spec.regionOf a.toNat ≠ .none) (hs : Spec.isSfr a.toNat = false) :
    b.write a v = .ok (Spec.poke b a.toNat v) := by
  unfold Bus.write Gen.write_decode Spec.poke
  unfold Spec.regionOf at hm ⊢
  unfold Spec.isSfr at hs
  generalize a.toNat = n at hm hs ⊢
  simp only [Bool.or_eq_false_iff, decide_eq_false_iff_not, beq_eq_false_iff_ne, ne_eq] at hs
  obtain ⟨⟨hs1, hs2⟩, hs3⟩ := hs
  by_cases h1 : n ≤ 0xff
  · have hsz : n < Gen.storeSize .vector := by simp [Gen.storeSize]; omega
    simp [h1, hsz, Bus.store, Bus.setStore]
  · by_cases h2 : 0x400000 ≤ n ∧ n ≤ 0x5fffff
    · have : ¬ (0xfee000 ≤ n ∧ n ≤ 0xfee0ff) := by omega
      have hsz : n - 0x400000 < Gen.storeSize .dram := by simp [Gen.storeSize]; omega
      simp [h1, h2, this, hsz, Bus.store, Bus.setStore]
    · by_cases h3 : 0xfee000 ≤ n ∧ n ≤ 0xfee0ff
      · have hsz : n - 0xfee000 < Gen.storeSize .io1 := by simp [Gen.storeSize]; omega
        have hd : ¬ (Gen.DDR_LO ≤ n ∧ n ≤ Gen.DDR_HI) := by simp [Gen.DDR_LO, Gen.DDR_HI]; omega
        have ht : n ≠ Gen.TCR0_8 := by simp [Gen.TCR0_8]; omega
        simp [h1, h2, h3, hsz, hd, ht, Bus.writeRegisters]
      · by_cases h4 : 0xffbf20 ≤ n ∧ n ≤ 0xffff1f
        · have hsz : n - 0xffbf20 < Gen.storeSize .ram := by simp [Gen.storeSize]; omega
          simp [h1, h2, h3, h4, hsz, Bus.store, Bus.setStore]
        · by_cases h5 : 0xffff20 ≤ n ∧ n ≤ 0xffffe9
          · have hsz : n - 0xffff20 < Gen.storeSize .io2 := by simp [Gen.storeSize]; omega
            have hd : ¬ (Gen.DR_LO ≤ n ∧ n ≤ Gen.DR_HI) := by simp [Gen.DR_LO, Gen.DR_HI]; omega
            have ht : n ≠ Gen.TCR0_8 := by simp [Gen.TCR0_8]; omega
            simp [h1, h2, h3, h4, h5, hsz, hd, ht, Bus.writeRegisters]
          · simp [h1, h2, h3, h4, h5] at hm

theorem busWrite_poke (a : BitVec 32) (v : BitVec 8) (s s' : Cpu) (h : busWrite a v s = .ok () s')
    (hs : Spec.isSfr a.toNat = false) : s' = { s with bus := Spec.poke s.bus a.toNat v } := by
  unfold busWrite at h
  by_cases hm : Spec.regionOf a.toNat = .none
  · -- unmapped: the write fails
    have : s.bus.write a v = .err := by
      unfold Bus.write Gen.write_decode
      unfold Spec.regionOf at hm
      generalize a.toNat = n at hm
      by_cases h1 : n ≤ 0xff
      · simp [h1] at hm
      · by_cases h2 : 0x400000 ≤ n ∧ n ≤ 0x5fffff
        · simp [h1, h2] at hm
        · by_cases h3 : 0xfee000 ≤ n ∧ n ≤ 0xfee0ff
          · simp [h1, h2, h3] at hm
          · by_cases h4 : 0xffbf20 ≤ n ∧ n ≤ 0xffff1f
            · simp [h1, h2, h3, h4] at hm
            · by_cases h5 : 0xffff20 ≤ n ∧ n ≤ 0xffffe9
              · simp [h1, h2, h3, h4, h5] at hm
              · simp [h1, h2, h3, h4, h5]
    simp [this] at h
  · rw [write_eq_poke _ _ _ hm hs] at h
    simp at h
    exact h.symm

end H8.Lemmas
