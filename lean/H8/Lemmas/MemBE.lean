/-
  Helper lemmas: big-endian word/long accesses of the model compose the byte accesses of C09.
-/
import H8.Lemmas.Handlers
import H8.Props.C09
namespace H8.Lemmas
open H8 H8.Spec

/-- `busWrite` to plain storage succeeds; afterwards that byte reads back and every other address
    reads as before; nothing but `bus` changes -/
theorem busWrite_plain (st : Cpu) (a : BitVec 32) (v : BitVec 8) (hp : plain a.toNat) :
    ∃ b', busWrite a v st = .ok () { st with bus := b' } ∧ b'.read a = .ok v ∧
      (∀ a', a' ≠ a → b'.read a' = st.bus.read a') := by
  obtain ⟨s, i, b', hd, hw, hcells⟩ := Props.C09.write_plain_cells st.bus a v hp
  refine ⟨b', ?_, ?_, ?_⟩
  · simp [busWrite, hw]
  · obtain ⟨b'', hw', hr⟩ := Props.C09.read_write_same st.bus a v hp
    rw [hw] at hw'; cases hw'; exact hr
  · intro a' hne
    obtain ⟨b'', hw', hr⟩ := Props.C09.read_write_other st.bus a a' v hp hne
    rw [hw] at hw'; cases hw'; exact hr

theorem busRead_eq (st : Cpu) (b : Bus) (hb : st.bus = b) (a : BitVec 32) (v : BitVec 8) (h : b.read a = .ok v) :
    busRead a st = .ok v st := by
  subst hb; simp [busRead, h]

/-- A word written big-endian to plain storage at `a`, `a+1` reads back unchanged. -/
theorem word_roundtrip (st : Cpu) (a : BitVec 32) (v : BitVec 16)
    (h0 : plain a.toNat) (h1 : plain (a + 1).toNat) :
    ∃ st', writeAbs24W a v st = .ok () st' ∧ readAbs24W a st' = .ok v st' ∧
      st'.regs = st.regs ∧ st'.ccr = st.ccr ∧ st'.pc = st.pc ∧
      (∀ x, x ≠ a → x ≠ a + 1 → st'.bus.read x = st.bus.read x) := by
  have hne : a + 1 ≠ a := by bv_decide
  obtain ⟨b1, hw1, hr1, ho1⟩ := busWrite_plain st a ((v >>> 8).setWidth 8) h0
  obtain ⟨b2, hw2, hr2, ho2⟩ := busWrite_plain { st with bus := b1 } (a + 1) (v.setWidth 8) h1
  refine ⟨{ st with bus := b2 }, ?_, ?_, rfl, rfl, rfl, ?_⟩
  · simp only [writeAbs24W, bind_ok, hw1, hw2]
  · have ra : b2.read a = .ok ((v >>> 8).setWidth 8) := by
      rw [ho2 a (Ne.symm hne)]; exact hr1
    simp only [readAbs24W, bind_ok, pure_ok, busRead_eq { st with bus := b2 } b2 rfl a _ ra, busRead_eq { st with bus := b2 } b2 rfl (a + 1) _ hr2]
    congr 1
    bv_decide
  · intro x hx0 hx1
    rw [ho2 x hx1]
    exact ho1 x hx0

/-- reading a word only looks at its two bytes -/
theorem readAbs24W_congr (s1 s2 : Cpu) (a : BitVec 32) (v : BitVec 16)
    (h0 : s2.bus.read a = s1.bus.read a) (h1 : s2.bus.read (a + 1) = s1.bus.read (a + 1))
    (h : readAbs24W a s1 = .ok v s1) : readAbs24W a s2 = .ok v s2 := by
  simp only [readAbs24W, bind_ok, pure_ok, busRead] at h ⊢
  rw [h0]
  cases hr0 : s1.bus.read a with
  | err => rw [hr0] at h; simp at h
  | panic => rw [hr0] at h; simp at h
  | ok v0 =>
    rw [hr0] at h
    simp only at h ⊢
    rw [h1]
    cases hr1 : s1.bus.read (a + 1) with
    | err => rw [hr1] at h; simp at h
    | panic => rw [hr1] at h; simp at h
    | ok v1 =>
      rw [hr1] at h
      simp only [Res.ok.injEq] at h ⊢
      exact ⟨h.1, trivial⟩

/-- A long written big-endian to plain storage at `a … a+3` reads back unchanged; registers, CCR, PC and
    every other address are untouched (the frame discipline of C05/C06 rests on this). -/
theorem long_roundtrip (st : Cpu) (a : BitVec 32) (v : BitVec 32)
    (h0 : plain a.toNat) (h1 : plain (a + 1).toNat) (h2 : plain (a + 2).toNat) (h3 : plain (a + 3).toNat) :
    ∃ st', writeAbs24L a v st = .ok () st' ∧ readAbs24L a st' = .ok v st' ∧
      st'.regs = st.regs ∧ st'.ccr = st.ccr ∧ st'.pc = st.pc ∧
      (∀ x, x ≠ a → x ≠ a + 1 → x ≠ a + 2 → x ≠ a + 3 → st'.bus.read x = st.bus.read x) := by
  have e3 : a + 2 + 1 = a + 3 := by bv_decide
  obtain ⟨s1, hw1, hr1, hg1, hc1, hp1, ho1⟩ := word_roundtrip st a ((v >>> 16).setWidth 16) h0 h1
  obtain ⟨s2, hw2, hr2, hg2, hc2, hp2, ho2⟩ := word_roundtrip s1 (a + 2) (v.setWidth 16) h2 (by rw [e3]; exact h3)
  refine ⟨s2, ?_, ?_, hg2.trans hg1, hc2.trans hc1, hp2.trans hp1, ?_⟩
  · simp only [writeAbs24L, bind_ok, hw1, hw2]
  · have hr1' : readAbs24W a s2 = .ok ((v >>> 16).setWidth 16) s2 := by
      apply readAbs24W_congr s1 s2 a _ _ _ hr1
      · exact ho2 a (by bv_decide) (by bv_decide)
      · exact ho2 (a + 1) (by bv_decide) (by bv_decide)
    simp only [readAbs24L, bind_ok, pure_ok, hr1', hr2]
    congr 1
    bv_decide
  · intro x x0 x1 x2 x3
    rw [ho2 x x2 (by rw [e3]; exact x3)]
    exact ho1 x x0 x1

end H8.Lemmas
