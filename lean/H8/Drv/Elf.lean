import H8.Model.Elf
import H8.Spec.Elf
import H8.Drv.Util
namespace H8.Drv
open H8

def hexNib (n : Nat) : Char := toHexDigit (n % 16)
def hex2 (n : Nat) : String := String.ofList [hexNib (n / 16), hexNib n]

def bytesOfHex (s : String) : ByteArray :=
  let rec go : List Char → ByteArray → ByteArray
    | a :: b :: rest, acc => go rest (acc.push ((hexDigit? a).getD 0 * 16 + (hexDigit? b).getD 0).toUInt8)
    | _, acc => acc
  go s.toList ByteArray.empty

/-- 64-byte aligned blocks of DRAM containing a non-zero byte: `addr:hex` -/
def dumpBlocks (get : Nat → Nat) (addrs : List Nat) : String :=
  let blocks := (addrs.map (· / 64)).eraseDups.toArray.qsort (· < ·) |>.toList
  let parts := blocks.filterMap fun b =>
    let bs := (List.range 64).map (fun k => get (b * 64 + k))
    if bs.all (· == 0) then none else some s!"{toHex (b * 64)}:{String.join (bs.map hex2)}"
  ";".intercalate parts

def erLine (assign : List (Nat × Nat)) : String :=
  ",".intercalate ((List.range 8).map fun i =>
    toHex ((assign.foldl (fun cur (j, v) => if j == i then v else cur) 0)))

def elfLine (toks : List String) : IO String := do
  let path := (field? toks "path").getD ""
  let args := (String.fromUTF8? (bytesOfHex ((field? toks "args").getD ""))).getD ""
  let f ← IO.FS.readBinFile path
  -- Model
  let m := match Elf.load f args Mem.zero with
    | none => "panic"
    | some l =>
      let cells : List (Nat × BitVec 8) := l.dram.ov.toList
      let addrs : List Nat := cells.map (fun (p : Nat × BitVec 8) => 0x400000 + p.1)
      let dram := dumpBlocks (fun a => (l.dram.get (a - 0x400000)).toNat) addrs
      s!"ok er={erLine l.er} exit={toHex (l.exitAddr.getD 0)} dram={dram} other=0"
  -- Spec
  let wf := Spec.Elf.wellFormed f && Spec.Elf.layoutOk f args
  -- C11 does not ask for p_paddr = p_vaddr: whatever is placed after the image may then start up to physSlack higher
  let wf11 := Spec.Elf.wellFormedFor false f && Spec.Elf.layoutOkSlack (Spec.Elf.physSlack f + 8) f args
  let e := Spec.Elf.expected f args
  let dram := dumpBlocks (fun a => e.mem.getD a 0) (e.mem.toList.map (·.1))
  let ers := erLine [(0, e.er0), (1, e.er1), (2, e.er2), (5, e.er5), (7, e.er7)]
  let phs := Spec.Elf.phdrs f
  let trailing := match phs.getLast? with | some p => p.ty != 1 | none => false
  let shape := s!"loads{(Spec.Elf.loads f).length}-ph{phs.length}{if trailing then "-trailnonload" else ""}"
  let kf := if trailing then "LAST-PHDR" else "-"
  pure s!"M {m} | S ok er={ers} exit={toHex (e.exit.getD 0)} dram={dram} other=0 dom={if wf then 1 else 0} dom11={if wf11 then 1 else 0} imgx={toHex (Spec.Elf.BASE + Spec.Elf.imageEnd f)} phys={if Spec.Elf.physSlack f == 0 then "same" else "shifted"} kf={kf} imgend={toHex ((Spec.Elf.BASE + Spec.Elf.imageEnd f + 63) / 64 * 64)} shape={shape}"

end H8.Drv
