import H8.Spec.Sem
import H8.Model.Exec
import H8.Drv.Util
namespace H8.Drv
open H8

def tagByte (a : Nat) : BitVec 8 :=
  BitVec.ofNat 8 ((((a * 2654435761) % 4294967296) / 8192) ^^^ (a / 8))

/-- bus whose every cell holds `tag(address)` -/
def taggedBus : Bus :=
  { vector := Mem.ofBase (fun i => tagByte i)
    dram := Mem.ofBase (fun i => tagByte (0x400000 + i))
    ram := Mem.ofBase (fun i => tagByte (0xffbf20 + i))
    io1 := Mem.ofBase (fun i => tagByte (0xfee000 + i))
    io2 := Mem.ofBase (fun i => tagByte (0xffff20 + i))
    portIn := Mem.zero }

def regsOf (ers : List Nat) : Regs :=
  (ers.zipIdx).foldl (fun r (v, k) => r ||| ((BitVec.ofNat 256 (v % 2^32)) <<< (32 * k))) 0

def hexBytes (s : String) : List Nat :=
  let cs := s.toList
  let rec go : List Char → List Nat
    | a :: b :: rest => ((hexDigit? a).getD 0 * 16 + (hexDigit? b).getD 0) :: go rest
    | _ => []
  go cs

structure StepCase where
  cpu : Cpu
  bsc : List Nat
  n : Nat
  irq : Option (List (Nat × Nat))
  modules : Bool := false

def parseStep (toks : List String) : StepCase :=
  let pc := hexD ((field? toks "pc").getD "0")
  let ccr := hexD ((field? toks "ccr").getD "0")
  let ers := ((field? toks "er").getD "").splitOn "," |>.map hexD
  let bsc := ((field? toks "bsc").getD "ff,fb,ff,cf,e0").splitOn "," |>.map hexD
  let n := match field? toks "n" with | some s => hexD s | none => 1
  let irq := (field? toks "irq").map (fun s => (s.splitOn ",").filter (· ≠ "") |>.map (fun e =>
    match e.splitOn ":" with | [k, v] => (hexD k, hexD v) | _ => (0, 0)))
  let bus := taggedBus
  let pokes : List (Nat × Nat) :=
    (([0xfee020, 0xfee021, 0xfee022, 0xfee023, 0xfee026].zip bsc)) ++
    (((field? toks "mem").getD "").splitOn ";" |>.filter (· ≠ "") |>.flatMap (fun e =>
      match e.splitOn ":" with
      | [a, bytes] => (hexBytes bytes).zipIdx.map (fun (b, k) => ((hexD a + k) % 2^24, b))
      | _ => []))
  let bus := pokes.foldl (fun b (a, v) => Spec.poke b a (BitVec.ofNat 8 v)) bus
  -- tcr=<h>: an earlier guest write of 8TCR0
  let bus := match field? toks "tcr" with
    | some t =>
      let v := BitVec.ofNat 8 (hexD t)
      let bus := Spec.poke bus 0xffff80 v
      { bus with timer := bus.timer.updateTcr v }
    | none => bus
  { cpu := { regs := regsOf ers, ccr := BitVec.ofNat 8 ccr, pc := BitVec.ofNat 32 pc, opc := BitVec.ofNat 32 pc, bus := bus },
    bsc := bsc, n := n, irq := irq, modules := (field? toks "mod").isSome }

def sortedCells (m : Mem) : List (Nat × BitVec 8) :=
  (m.ov.toList.toArray.qsort (fun a b => a.1 < b.1)).toList

/-- cells of `b1` that differ from `b0`, as absolute addresses -/
def busDelta (b0 b1 : Bus) : List (Nat × BitVec 8) :=
  let d (base : Nat) (m0 m1 : Mem) := (sortedCells m1).filterMap (fun (i, v) => if m0.get i != v then some (base + i, v) else none)
  d 0 b0.vector b1.vector ++ d 0x400000 b0.dram b1.dram ++ d 0xfee000 b0.io1 b1.io1 ++
  d 0xffbf20 b0.ram b1.ram ++ d 0xffff20 b0.io2 b1.io2

def erList (r : Regs) : String :=
  ",".intercalate ((List.range 8).map (fun k => bvHex ((r >>> (32 * k)).setWidth 32)))

def hexOfString (s : String) : String :=
  String.join (s.toUTF8.toList.map (fun b => let h := toHex b.toNat; if h.length < 2 then "0" ++ h else h))

def stateFields (c0 c1 : Cpu) (trace : List Nat) : String :=
  let mem := ",".intercalate ((busDelta c0.bus c1.bus).map (fun (a, v) => s!"{toHex a}:{bvHex v}"))
  let msgs := ",".intercalate (c1.bus.msgs.reverse.map hexOfString)
  let pend := ",".intercalate (c1.pending.map bvHex)
  let tr := ",".intercalate (trace.map toHex)
  s!"pc={bvHex c1.pc} ccr={bvHex c1.ccr} er={erList c1.regs} mem={mem} msgs={msgs} pend={pend} trace={tr}"

/-! ### Spec run -/

structure SpecRun where
  cpu : Cpu
  cost : Nat := 0
  tags : List String := []
  dc : List String := []
  trace : List Nat := []
  form : String := "-"

inductive SpecEnd where
  | ok (r : SpecRun)
  | stop (cls : String) (form : String)

instance : Inhabited SpecEnd := ⟨.stop "?" "-"⟩

def addUnique (xs ys : List String) : List String := ys.foldl (fun acc y => if acc.contains y then acc else acc ++ [y]) xs

partial def specLoop (sc : StepCase) (k : Nat) (r : SpecRun) : SpecEnd :=
  let b := sc.bsc.map (BitVec.ofNat 8)
  let costOf (cs) := Spec.costOf (b.getD 0 0) (b.getD 1 0) (b.getD 2 0) (b.getD 3 0) (b.getD 4 0) cs
  -- boundary: inject scheduled requests, try to accept one
  let r := match sc.irq with
    | none => r
    | some sched =>
      let newReqs := sched.filter (fun (kk, _) => kk == k) |>.map (fun (_, v) => BitVec.ofNat 8 v)
      let cpu := { r.cpu with pending := r.cpu.pending ++ newReqs }
      match Spec.boundary cpu with
      | none => { r with cpu := cpu }
      | some (_, e) => { r with cpu := e.cpu, tags := addUnique r.tags e.tags, dc := addUnique r.dc e.dc }
  if k ≥ sc.n then .ok r else
  let r := { r with trace := r.trace ++ [r.cpu.pc.toNat] }
  match Spec.step r.cpu with
  | .undef => .stop "undef" "-"
  | .unimpl f => .stop "unimpl" f.name
  | .fetchFault => .stop "fetchfault" "-"
  | .reject f _ => .stop "reject" f.name
  | .valid f e =>
    specLoop sc (k + 1) { r with cpu := e.cpu, cost := r.cost + costOf e.charges, tags := addUnique r.tags e.tags,
                                  dc := addUnique r.dc e.dc, form := if sc.n == 1 then f.name else "SEQ" }

def specLine (sc : StepCase) : String :=
  match specLoop sc 0 { cpu := sc.cpu, form := if sc.n == 1 then "-" else "SEQ" } with
  | .stop cls form => s!"{cls} {form}"
  | .ok r =>
    let form := if sc.n == 0 then "IRQ" else r.form
    s!"valid {form} {stateFields sc.cpu r.cpu r.trace} cost={toHex r.cost} tags={",".intercalate r.tags} dc={",".intercalate r.dc}"

/-! ### Model run (mirrors the harness loop around the real `Cpu`) -/

structure ModelRun where
  cpu : Cpu
  cost : Nat := 0
  trace : List Nat := []

partial def modelLoop (sc : StepCase) (k : Nat) (r : ModelRun) : String × Option ModelRun :=
  -- boundary
  let rb : Option (String ⊕ ModelRun) := match sc.irq with
    | none => some (.inr r)
    | some sched =>
      let newReqs := sched.filter (fun (kk, _) => kk == k) |>.map (fun (_, v) => BitVec.ofNat 8 v)
      let cpu := { r.cpu with pending := r.cpu.pending ++ newReqs }
      match tryInterrupt cpu with
      | .ok _ c => some (.inr { r with cpu := c })
      | .err => some (.inl s!"err@{toHex k}")
      | .panic => some (.inl s!"panic@{toHex k}")
  match rb with
  | some (.inl e) => (e, none)
  | none => ("bad", none)
  | some (.inr r) =>
    if k ≥ sc.n then ("ok", some r) else
    let r := { r with trace := r.trace ++ [r.cpu.pc.toNat] }
    match step r.cpu with
    | .ok c cpu =>
      -- as in Cpu::run: `state * 3` (u8), then update_modules
      let cpu := if sc.modules then
          let (b, reqs) := cpu.bus.updateModules (c.toNat * 3)
          { cpu with bus := b, pending := cpu.pending ++ reqs }
        else cpu
      modelLoop sc (k + 1) { r with cpu := cpu, cost := r.cost + c.toNat }
    | .err => (s!"err@{toHex k}", none)
    | .panic => (s!"panic@{toHex k}", none)

def modelLine (sc : StepCase) : String :=
  match modelLoop sc 0 { cpu := sc.cpu } with
  | (_, some r) => s!"ok cost={toHex r.cost} {stateFields sc.cpu r.cpu r.trace}"
  | (e, none) => e

/-- name of the known-finding guard a single-step case falls under ("-" if none): the guards are as
    narrow as the corresponding `…_partial` theorems -/
def kfOf (sc : StepCase) (model : String) : String :=
  if model.startsWith "panic" then "FETCH-PANIC" else
  match Spec.step sc.cpu with
  | .valid f _ =>
    if f == .SHAL_B || f == .SHAL_W || f == .SHAL_L then "SHAL-V"
    else if f == .STC_W_PREDEC then "STCW-PREDEC"
    else "-"
  | _ => "-"

def stepLine (toks : List String) : String :=
  let sc := parseStep toks
  let m := modelLine sc
  s!"M {m} | S {specLine sc} | D kf={kfOf sc m}"

end H8.Drv
