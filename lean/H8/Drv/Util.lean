/- Parsing / printing helpers of the line protocol (hex everywhere, no `0x`). -/
namespace H8.Drv

def hexDigit? (c : Char) : Option Nat :=
  if '0' ≤ c ∧ c ≤ '9' then some (c.toNat - '0'.toNat)
  else if 'a' ≤ c ∧ c ≤ 'f' then some (c.toNat - 'a'.toNat + 10)
  else if 'A' ≤ c ∧ c ≤ 'F' then some (c.toNat - 'A'.toNat + 10)
  else none

def parseHex? (s : String) : Option Nat :=
  if s.isEmpty then none else
  s.foldl (fun acc c => match acc, hexDigit? c with
    | some a, some d => some (a * 16 + d)
    | _, _ => none) (some 0)

def hexD (s : String) : Nat := (parseHex? s).getD 0

def toHexDigit (n : Nat) : Char :=
  if n < 10 then Char.ofNat ('0'.toNat + n) else Char.ofNat ('a'.toNat + n - 10)

partial def toHexAux (n : Nat) (acc : List Char) : List Char :=
  if n < 16 then toHexDigit n :: acc else toHexAux (n / 16) (toHexDigit (n % 16) :: acc)

def toHex (n : Nat) : String := String.ofList (toHexAux n [])

def bvHex {w : Nat} (x : BitVec w) : String := toHex x.toNat

/-- `key=value` lookup in a token list -/
def field? (toks : List String) (key : String) : Option String :=
  toks.findSome? (fun t => if t.startsWith (key ++ "=") then some (t.drop (key.length + 1)).toString else none)

end H8.Drv
