import H8.Gen.BusCost
import H8.Spec.BusCost
import H8.Drv.Util
namespace H8.Drv
open H8

def kindOf? : String → Option Kind
  | "I" => some .I | "J" => some .J | "K" => some .K
  | "L" => some .L | "M" => some .M | "N" => some .N
  | _ => none

/-- `cost abwcr astcr wcrh wcrl drcra kind n addr` -/
def costLine (toks : List String) : String :=
  match toks with
  | [a, b, c, d, e, k, n, addr] =>
    match kindOf? k with
    | none => "bad-case"
    | some kind =>
      let abwcr := BitVec.ofNat 8 (hexD a); let astcr := BitVec.ofNat 8 (hexD b)
      let wcrh := BitVec.ofNat 8 (hexD c); let wcrl := BitVec.ofNat 8 (hexD d)
      let drcra := BitVec.ofNat 8 (hexD e)
      let n8 := BitVec.ofNat 8 (hexD n)
      let ad := BitVec.ofNat 32 (hexD addr)
      let m := Gen.calc_state_with_addr abwcr astcr wcrh wcrl drcra kind n8 ad
      let ms := if R8.isErr m then "err" else "ok " ++ bvHex (R8.val m)
      let s := n8 * Spec.cost1 abwcr astcr wcrh wcrl drcra kind ad
      let dom := Spec.domC19 drcra ad && BitVec.ule n8 5#8 && decide (hexD addr < 2^32)
      s!"M {ms} | S {bvHex s} dom={if dom then 1 else 0}"
  | _ => "bad-case"

end H8.Drv
