import H8.Model.Cpu
import H8.Spec.MemMap
import H8.Spec.Port
import H8.Spec.Timer
import H8.Drv.Util
namespace H8.Drv
open H8

/-- non-zero cells of a zero-based store, sorted by index: `tag:index:val` -/
def dumpMem (tag : String) (m : Mem) : List String :=
  let cells := m.ov.toList.filter (fun (_, v) => v != 0#8)
  let cells := cells.toArray.qsort (fun a b => a.1 < b.1) |>.toList
  cells.map (fun (i, v) => s!"{tag}:{toHex i}:{bvHex v}")

def dumpStores (b : Bus) : String :=
  ",".intercalate (dumpMem "v" b.vector ++ dumpMem "d" b.dram ++ dumpMem "r" b.ram ++ dumpMem "i" b.io1 ++ dumpMem "j" b.io2)

structure HSt where
  bus : Bus := Bus.zero
  pending : List (BitVec 8) := []
  res : Array String := #[]

def hexPair (s : String) : Nat × Nat :=
  match s.splitOn ":" with
  | [a, b] => (hexD a, hexD b)
  | _ => (0, 0)

/-- one operation of a bus history on the Model -/
def stepModel (st : HSt) (op : String) : HSt :=
  let k := op.take 1 |>.toString
  let rest := (op.drop 1).toString
  match k with
  | "w" =>
    let (a, v) := hexPair rest
    if a ≥ 2^32 then { st with res := st.res.push "bad" } else
    match st.bus.write (BitVec.ofNat 32 a) (BitVec.ofNat 8 v) with
    | .ok b' => { st with bus := b', res := st.res.push "k" }
    | .err => { st with res := st.res.push "e" }
    | .panic => { st with res := st.res.push "P" }
  | "r" =>
    match st.bus.read (BitVec.ofNat 32 (hexD rest)) with
    | .ok v => { st with res := st.res.push (bvHex v) }
    | .err => { st with res := st.res.push "e" }
    | .panic => { st with res := st.res.push "P" }
  | "R" | "L" =>
    let a := BitVec.ofNat 32 (hexD rest)
    let c : Cpu := { bus := st.bus }
    let r : Res (BitVec 32) := if k == "R" then (match readAbs24W a c with | .ok v s => .ok (v.setWidth 32) s | .err => .err | .panic => .panic)
                               else readAbs24L a c
    match r with
    | .ok v _ => { st with res := st.res.push (bvHex v) }
    | .err => { st with res := st.res.push "e" }
    | .panic => { st with res := st.res.push "P" }
  | "W" | "M" =>
    let (a, v) := hexPair rest
    let a := BitVec.ofNat 32 a
    let c : Cpu := { bus := st.bus }
    let r := if k == "W" then writeAbs24W a (BitVec.ofNat 16 v) c else writeAbs24L a (BitVec.ofNat 32 v) c
    match r with
    | .ok _ c' => { st with bus := c'.bus, res := st.res.push "k" }
    | .panic => { st with res := st.res.push "P" }
    | .err =>
      -- the byte writes before the failing one have taken effect
      let bytes : List (BitVec 8) := if k == "W" then [BitVec.ofNat 8 (v / 256), BitVec.ofNat 8 v]
        else [BitVec.ofNat 8 (v / 16777216), BitVec.ofNat 8 (v / 65536), BitVec.ofNat 8 (v / 256), BitVec.ofNat 8 v]
      let (b, _) := bytes.zipIdx.foldl (fun (acc : Bus × Bool) (bv, i) =>
        if acc.2 then acc else
        match acc.1.write (a + BitVec.ofNat 32 i) bv with
        | .ok b' => (b', false)
        | _ => (acc.1, true)) (st.bus, false)
      { st with bus := b, res := st.res.push "e" }
  | "p" =>
    let (p, v) := hexPair rest
    { st with bus := st.bus.writePort (p % 256) (BitVec.ofNat 8 v), res := st.res.push "k" }
  | "t" =>
    let (b', reqs) := st.bus.updateModules (hexD rest % 65536)
    { st with bus := b', pending := st.pending ++ reqs, res := st.res.push "k" }
  | "s" =>
    { st with bus := { st.bus with stateSum := hexD rest }, res := st.res.push "k" }
  | _ => { st with res := st.res.push "bad" }

def runModelHistory (ops : String) : String :=
  let st := (ops.splitOn ";").filter (· ≠ "") |>.foldl stepModel {}
  let msgs := "|".intercalate st.bus.msgs.reverse
  let pend := ",".intercalate (st.pending.map bvHex)
  s!"{";".intercalate st.res.toList} msgs={msgs} pend={pend} mem={dumpStores st.bus}"

/-! ### C09 spec view: an abstract partial map from addresses to bytes -/

structure MapSt where
  m : Std.HashMap Nat (BitVec 8) := {}
  res : Array String := #[]
  dom : Bool := true
  dc : List Nat := []        -- addresses left open by a failing multi-byte write

def stepMap09 (st : MapSt) (op : String) : MapSt :=
  let k := op.take 1 |>.toString
  let rest := (op.drop 1).toString
  match k with
  | "w" =>
    let (a, v) := hexPair rest
    if decide (Spec.accessible a) then
      if decide (Spec.plain a) then { st with m := st.m.insert a (BitVec.ofNat 8 v), res := st.res.push "k" }
      else { st with dom := false, res := st.res.push "k" }
    else { st with res := st.res.push "e" }
  | "r" =>
    let a := hexD rest
    if decide (Spec.accessible a) then { st with res := st.res.push (bvHex (st.m.getD a 0#8)), dom := st.dom && !st.dc.contains a }
    else { st with res := st.res.push "e" }
  | "R" | "L" =>
    -- big-endian composition of the consecutive bytes; fails if any of them is inaccessible
    let a := hexD rest
    let n := if k == "R" then 2 else 4
    let addrs := (List.range n).map (a + ·)
    if addrs.all (fun x => decide (Spec.accessible x)) then
      let v := addrs.foldl (fun acc x => acc * 256 + (st.m.getD x 0#8).toNat) 0
      { st with res := st.res.push (toHex v), dom := st.dom && addrs.all (fun x => !st.dc.contains x) }
    else { st with res := st.res.push "e" }
  | "W" | "M" =>
    let (a, v) := hexPair rest
    let n := if k == "W" then 2 else 4
    let addrs := (List.range n).map (a + ·)
    if addrs.all (fun x => decide (Spec.accessible x)) then
      if addrs.all (fun x => decide (Spec.plain x)) then
        let m := (List.range n).foldl (fun m i => m.insert (a + i) (BitVec.ofNat 8 (v / 256 ^ (n - 1 - i)))) st.m
        { st with m := m, res := st.res.push "k" }
      else { st with dom := false, res := st.res.push "k" }
    else
      -- an access that reaches an inaccessible address fails; which of its accessible bytes were stored
      -- before the failure is left open
      { st with res := st.res.push "e", dc := st.dc ++ addrs.filter (fun x => decide (Spec.accessible x)) }
  | _ => { st with dom := false, res := st.res.push "?" }

def runSpec09 (ops : String) : String :=
  let st := (ops.splitOn ";").filter (· ≠ "") |>.foldl stepMap09 {}
  let cells := st.m.toList.filter (fun (_, v) => v != 0#8)
  let cells := cells.toArray.qsort (fun a b => a.1 < b.1) |>.toList
  let mem := ",".intercalate (cells.map (fun (a, v) => s!"{toHex a}:{bvHex v}"))
  s!"{";".intercalate st.res.toList} mem={mem} dom={if st.dom then 1 else 0} dc={",".intercalate (st.dc.map toHex)}"

def bus09Line (ops : String) : String := s!"M {runModelHistory ops} | S {runSpec09 ops}"

/-! ### C16 spec view: eleven latch ports -/

structure PortsSt where
  ports : Array Spec.Port := Array.replicate 11 {}
  res : Array String := #[]
  dom : Bool := true
  safe : Bool := true      -- every DDR write so far was latch-safe (guard of `refines_latch_partial`)

def stepPorts (st : PortsSt) (op : String) : PortsSt :=
  let k := op.take 1 |>.toString
  let rest := (op.drop 1).toString
  let ap (i : Nat) (o : Spec.PortOp) (st : PortsSt) : PortsSt :=
    let p := st.ports[i]!
    let safe := st.safe && decide (Spec.LatchSafe p o)
    let (q, r) := p.step o
    { st with ports := st.ports.set! i q, safe := safe,
              res := st.res.push (match r with | some v => bvHex v | none => "k") }
  match k with
  | "w" =>
    let (a, v) := hexPair rest
    if 0xfee000 ≤ a ∧ a ≤ 0xfee00a then ap (a - 0xfee000) (.writeDDR (BitVec.ofNat 8 v)) st
    else if 0xffffd0 ≤ a ∧ a ≤ 0xffffda then ap (a - 0xffffd0) (.writeDR (BitVec.ofNat 8 v)) st
    -- any other I/O register (pull-up control, bus controller, reserved cells): not part of a port — inert for C16
    else if (0xfee00b ≤ a ∧ a ≤ 0xfee0ff) ∨ (0xffffdb ≤ a ∧ a ≤ 0xffffe9) then { st with res := st.res.push "k" }
    else { st with dom := false, res := st.res.push "?" }
  | "r" =>
    let a := hexD rest
    if 0xffffd0 ≤ a ∧ a ≤ 0xffffda then ap (a - 0xffffd0) .readDR st
    else { st with dom := false, res := st.res.push "?" }
  | "p" =>
    let (p, v) := hexPair rest
    if 1 ≤ p ∧ p ≤ 11 then ap (p - 1) (.pin (BitVec.ofNat 8 v)) st
    else { st with res := st.res.push "k" }     -- other port numbers are ignored
  | "s" => { st with res := st.res.push "k" }
  | _ => { st with dom := false, res := st.res.push "?" }

def runSpec16 (ops : String) : String :=
  let st := (ops.splitOn ";").filter (· ≠ "") |>.foldl stepPorts {}
  let ann := ",".intercalate ((List.range 11).map (fun i => s!"{toHex (i + 1)}:{bvHex (st.ports[i]!).output}"))
  s!"{";".intercalate st.res.toList} out={ann} dom={if st.dom then 1 else 0} kf={if st.safe then "-" else "NO-LATCH"}"

def bus16Line (ops : String) : String := s!"M {runModelHistory ops} | S {runSpec16 ops}"

/-! ### C17 spec view: tick-by-tick timer -/

structure TmrSt where
  t : Spec.Tmr := {}
  res : Array String := #[]
  dom : Bool := true

def stepTmr (st : TmrSt) (op : String) : TmrSt :=
  let k := op.take 1 |>.toString
  let rest := (op.drop 1).toString
  let ok (t : Spec.Tmr) : TmrSt := { st with t := t, res := st.res.push "k" }
  match k with
  | "w" =>
    let (a, v) := hexPair rest
    let b := BitVec.ofNat 8 v
    if a == 0xffff80 then
      let cks := v % 8
      let st' := ok (st.t.writeTcr b)
      -- clock selects 4–7 are outside the statement
      if cks ≥ 4 then { st' with dom := false } else st'
    else if a == 0xffff82 then ok { st.t with tcsr := b }
    else if a == 0xffff84 then ok { st.t with tcora := b }
    else if a == 0xffff86 then ok { st.t with tcorb := b }
    else if a == 0xffff88 then ok { st.t with tcnt := b }
    else { st with dom := false, res := st.res.push "?" }
  | "r" =>
    let a := hexD rest
    let v := if a == 0xffff88 then some st.t.tcnt else if a == 0xffff82 then some st.t.tcsr
      else if a == 0xffff84 then some st.t.tcora else if a == 0xffff86 then some st.t.tcorb else none
    match v with
    | some x => { st with res := st.res.push (bvHex x) }
    | none => { st with dom := false, res := st.res.push "?" }
  | "t" =>
    let n := hexD rest % 65536
    let dom := st.dom && st.t.domain
    { st with t := Spec.Tmr.states n st.t, res := st.res.push "k", dom := dom }
  | _ => { st with dom := false, res := st.res.push "?" }

def runSpec17 (ops : String) : String :=
  let st := (ops.splitOn ";").filter (· ≠ "") |>.foldl stepTmr {}
  let pend := ",".intercalate (st.t.reqs.map toHex)
  s!"{";".intercalate st.res.toList} pend={pend} tcnt={bvHex st.t.tcnt} tcsr={bvHex st.t.tcsr} dom={if st.dom then 1 else 0}"

def bus17Line (ops : String) : String := s!"M {runModelHistory ops} | S {runSpec17 ops}"

/-! ### address-space sweep -/

def sweepTag (a : Nat) : BitVec 8 :=
  BitVec.ofNat 8 ((a ^^^ (a >>> 8) ^^^ (a >>> 16) ^^^ 0x5a) % 256) ||| 1#8

def modelClass (b : Bus) (a : Nat) : Bus × Char :=
  let addr := BitVec.ofNat 32 a
  let tag := sweepTag a
  let r0 := b.read addr
  let w := b.write addr tag
  let b' := match w with | .ok x => x | _ => b
  let rb := b'.read addr
  let c := match r0, w, rb with
    | .panic, _, _ => 'P' | _, .panic, _ => 'P' | _, _, .panic => 'P'
    | .ok _, .ok _, .ok v => if v == tag then 'A' else 'B'
    | .err, .err, .err => 'N'
    | _, _, _ => 'X'
  (b', c)

def specClass (a : Nat) : Char :=
  if decide (Spec.plain a) then 'A'
  else if decide (Spec.accessible a) then '?'
  else 'N'

partial def sweepLoop (a hi : Nat) (b : Bus) (lastM lastS : Char) (accM accS : Array String) : Array String × Array String :=
  if a ≥ hi then (accM, accS) else
  let (b', cm) := modelClass b a
  let cs := specClass a
  let accM := if cm != lastM then accM.push s!"{toHex a}:{cm}" else accM
  let accS := if cs != lastS then accS.push s!"{toHex a}:{cs}" else accS
  sweepLoop (a + 1) hi b' cm cs accM accS

def sweep09Line (toks : List String) : String :=
  match toks with
  | [lo, hi] =>
    let (m, s) := sweepLoop (hexD lo) (min (hexD hi) (2^32)) Bus.zero ' ' ' ' #[] #[]
    s!"M {",".intercalate m.toList} | S {",".intercalate s.toList} dom=1"
  | _ => "bad-case"

end H8.Drv
