import H8.Model.Run
import H8.Spec.Run
import H8.Drv.Step
namespace H8.Drv
open H8

/-! `run` cases: the whole `Cpu::run` loop (C13, C18).
  run pc=<h> exit=<h> er=<h,..x8> ccr=<h> mem=<addr:hex;...> lines=<hex,hex,...> plan=<n,...> wait=<0|1> [wire=1]
  memory starts zeroed (`Cpu::new()`); ER2 is the start address as after `elf::load`. -/

def zeroCpu : Cpu := { bus := Bus.zero }

def strOfHex (s : String) : String :=
  (String.fromUTF8? (ByteArray.mk ((hexBytes s).map (·.toUInt8)).toArray)).getD "?"

structure RunCase where
  cpu : Cpu
  lines : List String
  plan : List Nat
  wait : Bool

def parseRun (toks : List String) : RunCase :=
  let ers := ((field? toks "er").getD "").splitOn "," |>.map hexD
  let pokes : List (Nat × Nat) :=
    (((field? toks "mem").getD "").splitOn ";" |>.filter (· ≠ "") |>.flatMap (fun e =>
      match e.splitOn ":" with
      | [a, bytes] => (hexBytes bytes).zipIdx.map (fun (b, k) => ((hexD a + k) % 2^24, b))
      | _ => []))
  let bus := pokes.foldl (fun b (a, v) => Spec.poke b a (BitVec.ofNat 8 v)) Bus.zero
  let lines := match field? toks "lines" with
    | some s => if s.isEmpty then [] else (s.splitOn ",").map strOfHex
    | none => []
  let plan := match field? toks "plan" with
    | some s => if s.isEmpty then [] else (s.splitOn ",").map hexD
    | none => []
  { cpu := { regs := regsOf ers, ccr := BitVec.ofNat 8 (hexD ((field? toks "ccr").getD "0")),
             exitAddr := BitVec.ofNat 32 (hexD ((field? toks "exit").getD "0")), bus := bus },
    lines := lines, plan := plan, wait := (field? toks "wait") == some "1" }

def endName : Run.End → String
  | .running => "running" | .stopped => "stopped" | .finished => "finished" | .error => "error" | .panic => "panic"

def runFields (c0 c1 : Cpu) : String :=
  let mem := ",".intercalate ((busDelta c0.bus c1.bus).map (fun (a, v) => s!"{toHex a}:{bvHex v}"))
  let msgs := ",".intercalate (c1.bus.msgs.reverse.map hexOfString)
  let pins := ",".intercalate ((List.range 11).map (fun k => bvHex (c1.bus.portIn.get k)))
  s!"sum={c1.stateSum} pc={bvHex c1.pc} ccr={bvHex c1.ccr} er={erList c1.regs} mem={mem} pins={pins} msgs={msgs}"

def FUEL : Nat := 1000000

def modelRunLine (rc : RunCase) : String :=
  match Run.start rc.cpu rc.wait with
  | none => "error"
  | some st =>
    match Run.loop FUEL st (rc.lines.map String.toList) rc.plan with
    | none => "fuel"
    | some (s, e, _) =>
      let wire := String.join (s.cpu.bus.msgs.reverse.map (fun m => String.ofList (Run.frame m.toList)))
      s!"{endName e} {runFields zeroCpu s.cpu} wire={hexOfString wire}"

def specRunLine (rc : RunCase) : String :=
  -- C18 view: meaning of the lines, independent of batching
  let ctl := Spec.Run.applyAll { paused := rc.wait } rc.lines
  let stores := ",".intercalate (ctl.stores.map (fun (a, v) => s!"{toHex a}:{toHex v}"))
  let pins := ",".intercalate (ctl.pins.map (fun (p, v) => s!"{toHex p}:{toHex v}"))
  let ran := Spec.Run.everRuns rc.wait (Spec.Run.batches rc.lines rc.plan)
  let c18 := s!"stores={stores} setpins={pins} stopped={if ctl.stopped then 1 else 0} left={rc.lines.length - ctl.consumed} ran={if ran then 1 else 0}"
  -- C13 view: the program alone (no control lines): run to the exit address
  if !rc.lines.isEmpty || rc.wait then s!"ctl {c18}" else
  let pc0 := (rc.cpu.regs >>> 64).setWidth 32
  let bus := [(0xfee020, 0xff), (0xfee021, 0xfb), (0xfee022, 0xff), (0xfee023, 0xcf), (0xfee026, 0xe0)].foldl
    (fun b (a, v) => Spec.poke b a (BitVec.ofNat 8 v)) rc.cpu.bus
  let (a, stop) := Spec.Run.runLoop FUEL rc.cpu.exitAddr { cpu := { rc.cpu with pc := pc0, bus := bus } }
  let e := match stop with | .finished => "finished" | .error w => s!"error:{w}" | .fuel => "fuel"
  s!"prog {e} {runFields zeroCpu a.cpu} steps={a.steps} tags={",".intercalate a.tags}"

def runLine (toks : List String) : String :=
  let rc := parseRun toks
  s!"M {modelRunLine rc} | S {specRunLine rc}"

end H8.Drv
