/-
  Model of src/elf.rs `load` and the nom parsers it calls (fields at the byte offsets they read,
  big-endian).  `none` = a Rust panic (unwrap / slice index), which structurally valid files never cause.
-/
import H8.State
namespace H8.Elf

abbrev Bytes := ByteArray

def u8At (f : Bytes) (o : Nat) : Option Nat := if h : o < f.size then some (f[o]'h).toNat else none
def be16 (f : Bytes) (o : Nat) : Option Nat := do
  let a ← u8At f o; let b ← u8At f (o + 1); pure (a * 256 + b)
def be32 (f : Bytes) (o : Nat) : Option Nat := do
  let a ← be16 f o; let b ← be16 f (o + 2); pure (a * 65536 + b)

structure Ph where
  ty : Nat
  off : Nat
  vaddr : Nat
  paddr : Nat
  filesz : Nat
  memsz : Nat
  deriving Repr, Inhabited

structure Sh where
  nameIdx : Nat
  ty : Nat
  addr : Nat
  off : Nat
  size : Nat
  link : Nat
  entsize : Nat
  deriving Repr, Inhabited

/-- parse_program_header32 at offset o: type, offset, vaddr, paddr, filesz, memsz, flags, align -/
def parsePh (f : Bytes) (o : Nat) : Option Ph := do
  let ty ← be32 f o; let off ← be32 f (o + 4); let va ← be32 f (o + 8); let pa ← be32 f (o + 12)
  let fs ← be32 f (o + 16); let ms ← be32 f (o + 20); let _ ← be32 f (o + 24); let _ ← be32 f (o + 28)
  pure { ty := ty, off := off, vaddr := va, paddr := pa, filesz := fs, memsz := ms }

/-- parse_section_header32: name, type, flags, addr, offset, size, link, info, align, entsize -/
def parseSh (f : Bytes) (o : Nat) : Option Sh := do
  let n ← be32 f o; let ty ← be32 f (o + 4); let _ ← be32 f (o + 8); let a ← be32 f (o + 12)
  let off ← be32 f (o + 16); let sz ← be32 f (o + 20); let l ← be32 f (o + 24); let _ ← be32 f (o + 28)
  let _ ← be32 f (o + 32); let es ← be32 f (o + 36)
  pure { nameIdx := n, ty := ty, addr := a, off := off, size := sz, link := l, entsize := es }

def parseTable {α} (p : Bytes → Nat → Option α) (f : Bytes) (o : Nat) (stride : Nat) : Nat → Option (List α)
  | 0 => some []
  | n + 1 => do let x ← p f o; let xs ← parseTable p f (o + stride) stride n; pure (x :: xs)

/-- parse_string_table_entry: the longest prefix of ASCII graphic bytes, which must be followed by NUL -/
partial def graphicRun (f : Bytes) (o : Nat) (acc : List Char) : List Char × Nat :=
  match u8At f o with
  | some c => if 0x21 ≤ c ∧ c ≤ 0x7e then graphicRun f (o + 1) (Char.ofNat c :: acc) else (acc.reverse, o)
  | none => (acc.reverse, o)

def cstr (f : Bytes) (o : Nat) : Option String :=
  if o > f.size then none else     -- slicing `&raw[idx..]` beyond the end panics
  let (cs, e) := graphicRun f o []
  match u8At f e with
  | some 0 => some (String.ofList cs)
  | _ => none

def PROGRAM_START : Nat := Gen.PROGRAM_START_ADDR
def DRAM_START : Nat := Gen.AREA2_START_ADDR
def DRAM_SIZE : Nat := Gen.AREA2_SIZE
/-- DRAM index of the load base -/
def OFF0 : Nat := PROGRAM_START - DRAM_START

/-- write one byte into the DRAM store at index i (panics when out of bounds) -/
def pokeDram (d : Mem) (i : Nat) (v : Nat) : Option Mem :=
  if i < DRAM_SIZE then some (d.set i (BitVec.ofNat 8 v)) else none

def copyBytes (f : Bytes) (src dst : Nat) : Nat → Mem → Option Mem
  | 0, d => some d
  | n + 1, d => do let b ← u8At f src; let d' ← pokeDram d dst b; copyBytes f (src + 1) (dst + 1) n d'

def writeBE32 (d : Mem) (i : Nat) (v : Nat) : Option Mem := do
  let d ← pokeDram d i (v / 16777216 % 256)
  let d ← pokeDram d (i + 1) (v / 65536 % 256)
  let d ← pokeDram d (i + 2) (v / 256 % 256)
  pokeDram d (i + 3) (v % 256)

def readBE32 (d : Mem) (i : Nat) : Option Nat :=
  if i + 3 < DRAM_SIZE then
    some ((d.get i).toNat * 16777216 + (d.get (i + 1)).toNat * 65536 + (d.get (i + 2)).toNat * 256 + (d.get (i + 3)).toNat)
  else none

/-- the `.got` loop: each 32-bit entry += PROGRAM_START_ADDR (u32, wrapping in release builds) -/
def relocGot (off0 addr : Nat) : Nat → Nat → Mem → Option Mem
  | 0, _, d => some d
  | n + 1, i, d => do
    let a := off0 + (addr + 4 * i) % 2 ^ 32
    let v ← readBE32 d a
    let d' ← writeBE32 d a ((v + PROGRAM_START) % 2 ^ 32)
    relocGot off0 addr n (i + 1) d'

/-- the PT_LOAD loop: copy p_filesz bytes of each loadable segment to load base + p_vaddr -/
def loadSegments (f : Bytes) (pht : List Ph) (d : Mem) : Option Mem :=
  pht.foldlM (fun d ph =>
    if ph.ty == 1 then
      (if ph.off + ph.filesz > f.size ∨ OFF0 + ph.vaddr + ph.filesz > DRAM_SIZE then none
       else copyBytes f ph.off (OFF0 + ph.vaddr) ph.filesz d)
    else some d) d

/-- the ASCII characters `char::is_whitespace` accepts (the argument strings of C12 are ASCII) -/
def isWs (c : Char) : Bool := c == ' ' || c == '\t' || c == '\n' || c == '\r' || c == '\x0b' || c == '\x0c'

/-- `str::split_whitespace` on a character list: maximal runs of non-whitespace characters, in order.
    `cur` is the word being read, reversed. -/
def splitWsL : List Char → List Char → List (List Char)
  | [], cur => if cur.isEmpty then [] else [cur.reverse]
  | c :: cs, cur =>
    if isWs c then (if cur.isEmpty then splitWsL cs [] else cur.reverse :: splitWsL cs [])
    else splitWsL cs (c :: cur)

def splitWs (s : String) : List String := (splitWsL s.toList []).map String.ofList

structure Loaded where
  dram : Mem
  er : List (Nat × Nat) := []      -- register assignments in order
  exitAddr : Option Nat := none

def setEr (l : Loaded) (i v : Nat) : Loaded := { l with er := l.er ++ [(i, v % 2 ^ 32)] }

/-- write a byte string at consecutive DRAM indices -/
def pokeList (d : Mem) (i : Nat) : List Nat → Option Mem
  | [] => some d
  | b :: bs => do let d' ← pokeDram d i b; pokeList d' (i + 1) bs

/-- one iteration of the argument loop: pointer slot at absolute `argp`, string at absolute `a` -/
def argStep (st : Mem × Nat × Nat) (bytes : List Nat) : Option (Mem × Nat × Nat) := do
  let (d, argp, a) := st
  let d ← writeBE32 d (argp - DRAM_START) (a % 2 ^ 32)
  let d ← pokeList d (a - DRAM_START) bytes
  let d ← pokeDram d (a + bytes.length - DRAM_START) 0
  pure (d, argp + 4, a + bytes.length + 1)

def argLoop (st : Mem × Nat × Nat) : List (List Nat) → Option (Mem × Nat × Nat)
  | [] => some st
  | w :: ws => do let st' ← argStep st w; argLoop st' ws

def align4 (a : Nat) : Nat := (a + 3) / 4 * 4

def strBytes (s : String) : List Nat := s.toUTF8.toList.map (·.toNat)

/-- `.stack` branch: stack pointer, TCB gap, argc/argv table and strings -/
def stackBranch (l : Loaded) (programSize stackSize : Nat) (args : String) : Option Loaded := do
  let a := align4 (PROGRAM_START + programSize + stackSize)
  let l := setEr l 7 (a - 8)
  let a := align4 (a + Gen.SIZE_OF_TCB)
  let argsList := "prog.elf" :: splitWs args
  let l := setEr l 0 argsList.length
  let l := setEr l 1 a
  let (d, _, _) ← argLoop (l.dram, a, a + 4 * (argsList.length + 1)) (argsList.map strBytes)
  pure { l with dram := d }

/-- one entry of the `.symtab` loop: parse the 16-byte entry `k`, look its name up in the string table, and take
    value + load base as the exit address when the name is `___exit` -/
def symStep (f : Bytes) (symOff strOff : Nat) (l : Loaded) (k : Nat) : Option Loaded := do
  let o := symOff + 16 * k
  let nameIdx ← be32 f o; let value ← be32 f (o + 4)
  let _ ← be32 f (o + 8); let _ ← be16 f (o + 12); let _ ← be16 f (o + 14)
  if strOff + nameIdx > f.size then none
  let nm := (cstr f (strOff + nameIdx)).getD "Error"
  if nm == "___exit" then pure { l with exitAddr := some ((value + PROGRAM_START) % 2 ^ 32) } else pure l

/-- `elf::load` -/
def load (f : Bytes) (args : String) (dram0 : Mem) : Option Loaded := do
  -- header (parse_elf_header32): magic, then fields at fixed offsets
  if !(u8At f 0 == some 0x7f && u8At f 1 == some 0x45 && u8At f 2 == some 0x4c && u8At f 3 == some 0x46) then none
  let phoff ← be32 f 28; let shoff ← be32 f 32
  let _ ← be16 f 40; let _ ← be16 f 42
  let phnum ← be16 f 44; let _ ← be16 f 46; let shnum ← be16 f 48; let shstrndx ← be16 f 50
  if shoff > f.size then none
  let sht ← parseTable parseSh f shoff 40 shnum
  let strSec ← sht[shstrndx]?
  let names ← sht.mapM (fun h => cstr f (strSec.off + h.nameIdx))
  if phoff > f.size then none
  let pht ← parseTable parsePh f phoff 32 phnum
  let l : Loaded := setEr { dram := dram0 } 2 PROGRAM_START
  let off0 := OFF0
  -- segments
  let d ← loadSegments f pht l.dram
  let l := { l with dram := d }
  -- sections, in table order
  (sht.zip names).foldlM (fun (l : Loaded) (h, name) =>
    if name == ".got" then do
      let l := setEr l 5 (h.addr + PROGRAM_START)
      let d ← relocGot off0 h.addr (h.size / 4) 0 l.dram
      pure { l with dram := d }
    else if name == ".stack" then do
      let last ← pht.getLast?
      -- the image ends at the highest PT_LOAD extent
      let programSize := (pht.filter (·.ty == 1)).foldl (fun m ph => max m ((ph.memsz + ph.paddr) % 2 ^ 32)) 0
      let _ := last
      stackBranch l programSize h.addr args
    else if name == ".symtab" then do
      if h.entsize == 0 then none
      let n := h.size / h.entsize
      if h.off > f.size then none
      let strSec ← sht[h.link]?
      (List.range n).foldlM (symStep f h.off strSec.off) l
    else pure l) l

end H8.Elf
