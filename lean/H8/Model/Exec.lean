/-
  `Cpu::exec` and the second-level dispatchers: the decision trees come from Gen.Dispatch
  (regenerated from the Rust `match`es on every run); this file only interprets a leaf
  (`callee__arguments`) as the model of that callee.  A leaf the interpreter does not know makes
  the file fail to compile — the translator obligation for that handler is then undischarged.
-/
import H8.Model.Cpu
import H8.Gen.Dispatch
namespace H8
open Gen (Leaf)

/-- handlers that are not themselves dispatchers -/
def leafHandler (l : Leaf) (op op2 : BitVec 16) : Option (M (BitVec 8)) :=
  match l with
  | .unimpl | .bail => some M.fail
  -- MOV
  | .mov_b_rn__opcode => some (movRn .B op)
  | .mov_b_imm__opcode => some (movImm .B op)
  | .mov_b_ern__opcode => some (movErn .B op)
  | .mov_b_disp16__opcode => some (movDisp16 .B op)
  | .mov_b_inc_or_dec__opcode => some (movIncOrDec .B op)
  | .mov_b_abs8__opcode => some (movBAbs8 op)
  | .mov_b_abs16__opcode => some (movAbs16 .B op)
  | .mov_b_abs24__opcode => some (movAbs24 .B op)
  | .mov_b_disp24__opcode_opcode2 => some (movDisp24BW .B op op2)
  | .mov_w_rn__opcode => some (movRn .W op)
  | .mov_w_imm__opcode => some (movImm .W op)
  | .mov_w_ern__opcode => some (movErn .W op)
  | .mov_w_disp16__opcode => some (movDisp16 .W op)
  | .mov_w_inc_or_dec__opcode => some (movIncOrDec .W op)
  | .mov_w_abs16__opcode => some (movAbs16 .W op)
  | .mov_w_abs24__opcode => some (movAbs24 .W op)
  | .mov_w_disp24__opcode_opcode2 => some (movDisp24BW .W op op2)
  | .mov_l_rn__opcode => some (movRn .L op)
  | .mov_l_imm__opcode => some (movImm .L op)
  | .mov_l_ern__opcode2 => some (movErn .L op2)
  | .mov_l_disp16__opcode2 => some (movDisp16 .L op2)
  | .mov_l_disp24__opcode2 => some (movLDisp24 op2)
  | .mov_l_inc_or_dec__opcode2 => some (movIncOrDec .L op2)
  | .mov_l_abs16__opcode2 => some (movAbs16 .L op2)
  | .mov_l_abs24__opcode2 => some (movAbs24 .L op2)
  -- arithmetic
  | .add_b_imm__opcode => some (addBImm op)
  | .add_b_rn__opcode => some (addBRn op)
  | .add_w_imm__opcode => some (addWImm op)
  | .add_w_rn__opcode => some (addWRn op)
  | .add_l_imm__opcode => some (addLImm op)
  | .add_l_rn__opcode => some (addLRn op)
  | .sub_b__opcode => some (subB op)
  | .sub_w_imm__opcode => some (subWImm op)
  | .sub_w_rn__opcode => some (subWRn op)
  | .sub_l_imm__opcode => some (subLImm op)
  | .sub_l_rn__opcode => some (subLRn op)
  | .cmp_b_imm__opcode => some (cmpBImm op)
  | .cmp_b_rn__opcode => some (cmpBRn op)
  | .cmp_w_imm__opcode => some (cmpWImm op)
  | .cmp_w_rn__opcode => some (cmpWRn op)
  | .cmp_l_imm__opcode => some (cmpLImm op)
  | .cmp_l_rn__opcode => some (cmpLRn op)
  | .addx_imm__opcode => some (addxImm op)
  | .addx_rn__opcode => some (addxRn op)
  | .inc_b__opcode => some (inc .B 1 op)
  | .inc_w_1__opcode => some (inc .W 1 op)
  | .inc_w_2__opcode => some (inc .W 2 op)
  | .inc_l_1__opcode => some (inc .L 1 op)
  | .inc_l_2__opcode => some (inc .L 2 op)
  | .dec_b__opcode => some (dec .B 1 op)
  | .dec_w_1__opcode => some (dec .W 1 op)
  | .dec_w_2__opcode => some (dec .W 2 op)
  | .dec_l_1__opcode => some (dec .L 1 op)
  | .dec_l_2__opcode => some (dec .L 2 op)
  | .adds1__opcode => some (addsSubs 1 op)
  | .adds2__opcode => some (addsSubs 2 op)
  | .adds4__opcode => some (addsSubs 4 op)
  | .subs1__opcode => some (addsSubs 0xffffffff op)
  | .subs2__opcode => some (addsSubs 0xfffffffe op)
  | .subs4__opcode => some (addsSubs 0xfffffffc op)
  | .mulxu_b__opcode => some (mulxuB op)
  | .mulxu_w__opcode => some (mulxuW op)
  | .divxu_b__opcode => some (divxuB op)
  | .divxu_w__opcode => some (divxuW op)
  | .neg_b__opcode => some (unary .B negProc op)
  | .neg_w__opcode => some (unary .W negProc op)
  | .neg_l__opcode => some (unary .L negProc op)
  -- logic, shifts
  | .and_b_imm__opcode => some (logicBImm .and op)
  | .and_b_rn__opcode => some (logicRn .and .B op 1)
  | .and_w_imm__opcode => some (logicWImm .and op)
  | .and_w_rn__opcode => some (logicRn .and .W op 1)
  | .and_l_imm__opcode => some (logicLImm .and op)
  | .and_l_rn__opcode_opcode2 => some (logicRn .and .L op2 2)
  | .or_b_imm__opcode => some (logicBImm .or op)
  | .or_b_rn__opcode => some (logicRn .or .B op 1)
  | .or_w_imm__opcode => some (logicWImm .or op)
  | .or_w_rn__opcode => some (logicRn .or .W op 1)
  | .or_l_imm__opcode => some (logicLImm .or op)
  | .or_l_rn__opcode_opcode2 => some (logicRn .or .L op2 2)
  | .xor_b_imm__opcode => some (logicBImm .xor op)
  | .xor_b_rn__opcode => some (logicRn .xor .B op 1)
  | .xor_w_imm__opcode => some (logicWImm .xor op)
  | .xor_w_rn__opcode => some (logicRn .xor .W op 1)
  | .xor_l_imm__opcode => some (logicLImm .xor op)
  | .xor_l_rn__opcode_opcode2 => some (logicRn .xor .L op2 2)
  | .not_b__opcode => some (unary .B notProc op)
  | .not_w__opcode => some (unary .W notProc op)
  | .not_l__opcode => some (unary .L notProc op)
  | .extu_w__opcode => some (extu .W op)
  | .extu_l__opcode => some (extu .L op)
  | .shal_b__opcode => some (shift .shal .B op)
  | .shal_w__opcode => some (shift .shal .W op)
  | .shal_l__opcode => some (shift .shal .L op)
  | .shar_b__opcode => some (shift .shar .B op)
  | .shar_w__opcode => some (shift .shar .W op)
  | .shar_l__opcode => some (shift .shar .L op)
  | .shll_b__opcode => some (shift .shll .B op)
  | .shll_w__opcode => some (shift .shll .W op)
  | .shll_l__opcode => some (shift .shll .L op)
  | .shlr_b__opcode => some (shift .shlr .B op)
  | .shlr_w__opcode => some (shift .shlr .W op)
  | .shlr_l__opcode => some (shift .shlr .L op)
  | .rotl_b__opcode => some (shift .rotl .B op)
  | .rotl_w__opcode => some (shift .rotl .W op)
  | .rotl_l__opcode => some (shift .rotl .L op)
  | .rotr_b__opcode => some (shift .rotr .B op)
  | .rotr_w__opcode => some (shift .rotr .W op)
  | .rotr_l__opcode => some (shift .rotr .L op)
  | .rotxl_b__opcode => some (shift .rotxl .B op)
  | .rotxl_w__opcode => some (shift .rotxl .W op)
  | .rotxl_l__opcode => some (shift .rotxl .L op)
  | .rotxr_b__opcode => some (shift .rotxr .B op)
  | .rotxr_w__opcode => some (shift .rotxr .W op)
  | .rotxr_l__opcode => some (shift .rotxr .L op)
  -- bit manipulation
  | .bset_rn_from_imm__opcode => some (bmodRnImm .set op)
  | .bset_rn_from_rn__opcode => some (bmodRnRn .set op)
  | .bset_ern__opcode_opcode2 => some (bmodErn .set 0x7000 0x6000 op op2)
  | .bset_abs__opcode_opcode2 => some (bmodAbs .set 0x7000 0x6000 op op2)
  | .bnot_rn_from_imm__opcode => some (bmodRnImm .not_ op)
  | .bnot_rn_from_rn__opcode => some (bmodRnRn .not_ op)
  | .bnot_ern__opcode_opcode2 => some (bmodErn .not_ 0x7100 0x6100 op op2)
  | .bnot_abs__opcode_opcode2 => some (bmodAbs .not_ 0x7100 0x6100 op op2)
  | .bclr_rn_from_imm__opcode => some (bmodRnImm .clr op)
  | .bclr_rn_from_rn__opcode => some (bmodRnRn .clr op)
  | .bclr_ern__opcode_opcode2 => some (bmodErn .clr 0x7200 0x6200 op op2)
  | .bclr_abs__opcode_opcode2 => some (bmodAbs .clr 0x7200 0x6200 op op2)
  | .bst_rn__opcode => some (bstRn false op)
  | .bst_ern__opcode_opcode2 => some (bstErn false op op2)
  | .bst_abs__opcode_opcode2 => some (bstAbs false op op2)
  | .bist_rn__opcode => some (bstRn true op)
  | .bist_ern__opcode_opcode2 => some (bstErn true op op2)
  | .bist_abs__opcode_opcode2 => some (bstAbs true op op2)
  | .btst_imm_rn__opcode => some (btstImmRn op)
  | .btst_rn_rn__opcode => some (btstRnRn op)
  | .btst_imm_ern__opcode_opcode2 => some (btstErn false op op2)
  | .btst_rn_ern__opcode_opcode2 => some (btstErn true op op2)
  | .btst_imm_abs__opcode_opcode2 => some (btstAbs false op op2)
  | .btst_rn_abs__opcode_opcode2 => some (btstAbs true op op2)
  | .bld_rn__opcode => some (baccRn .ld op)
  | .bld_ern__opcode_opcode2 => some (baccErn .ld op op2)
  | .bld_abs__opcode_opcode2 => some (baccAbs .ld op op2)
  | .bild_rn__opcode => some (baccRn .ild op)
  | .bild_ern__opcode_opcode2 => some (baccErn .ild op op2)
  | .bild_abs__opcode_opcode2 => some (baccAbs .ild op op2)
  | .band_rn__opcode => some (baccRn .and op)
  | .band_ern__opcode_opcode2 => some (baccErn .and op op2)
  | .band_abs__opcode_opcode2 => some (baccAbs .and op op2)
  | .biand_rn__opcode => some (baccRn .iand op)
  | .biand_ern__opcode_opcode2 => some (baccErn .iand op op2)
  | .biand_abs__opcode_opcode2 => some (baccAbs .iand op op2)
  | .bor_rn__opcode => some (baccRn .or op)
  | .bor_ern__opcode_opcode2 => some (baccErn .or op op2)
  | .bor_abs__opcode_opcode2 => some (baccAbs .or op op2)
  | .bior_rn__opcode => some (baccRn .ior op)
  | .bior_ern__opcode_opcode2 => some (baccErn .ior op op2)
  | .bior_abs__opcode_opcode2 => some (baccAbs .ior op op2)
  | .bxor_rn__opcode => some (baccRn .xor op)
  | .bxor_ern__opcode_opcode2 => some (baccErn .xor op op2)
  | .bxor_abs__opcode_opcode2 => some (baccAbs .xor op op2)
  | .bixor_rn__opcode => some (baccRn .ixor op)
  | .bixor_ern__opcode_opcode2 => some (baccErn .ixor op op2)
  | .bixor_abs__opcode_opcode2 => some (baccAbs .ixor op op2)
  -- branches, calls, returns
  | .bra8__opcode => some (bcc8 0 op)
  | .brn8__ => some (bcc8 1 op)
  | .bhi8__opcode => some (bcc8 2 op)
  | .bls8__opcode => some (bcc8 3 op)
  | .bcc8__opcode => some (bcc8 4 op)
  | .bcs8__opcode => some (bcc8 5 op)
  | .bne8__opcode => some (bcc8 6 op)
  | .beq8__opcode => some (bcc8 7 op)
  | .bvc8__opcode => some (bcc8 8 op)
  | .bvs8__opcode => some (bcc8 9 op)
  | .bpl8__opcode => some (bcc8 10 op)
  | .bmi8__opcode => some (bcc8 11 op)
  | .bge8__opcode => some (bcc8 12 op)
  | .blt8__opcode => some (bcc8 13 op)
  | .bgt8__opcode => some (bcc8 14 op)
  | .ble8__opcode => some (bcc8 15 op)
  | .bra16__ => some (bcc16 0)
  | .brn16__ => some (bcc16 1)
  | .bhi16__ => some (bcc16 2)
  | .bls16__ => some (bcc16 3)
  | .bcc16__ => some (bcc16 4)
  | .bcs16__ => some (bcc16 5)
  | .bne16__ => some (bcc16 6)
  | .beq16__ => some (bcc16 7)
  | .bvc16__ => some (bcc16 8)
  | .bvs16__ => some (bcc16 9)
  | .bpl16__ => some (bcc16 10)
  | .bmi16__ => some (bcc16 11)
  | .bge16__ => some (bcc16 12)
  | .blt16__ => some (bcc16 13)
  | .bgt16__ => some (bcc16 14)
  | .ble16__ => some (bcc16 15)
  | .bsr_disp16__opcode => some (bsrDisp8 op)      -- the Rust names are one size off: bsr_disp16 = BSR d:8
  | .bsr_disp24__opcode => some (bsrDisp16 op)
  | .jmp_ern__opcode => some (jmpErn op)
  | .jmp_abs__opcode => some (jmpAbs op)
  | .jmp_indirect__opcode => some (jmpIndirect op)
  | .jsr_ern__opcode => some (jsrErn op)
  | .jsr_abs__opcode => some (jsrAbs op)
  | .jsr_indirect__opcode => some (jsrIndirect op)
  | .rts__ => some rts
  | .rte__ => some rte
  | .trapa__opcode => some (trapa op)
  -- STC
  | .stc_b__opcode => some (stcB op)
  | .stc_w_ern__opcode2 => some (stcWErn op2)
  | .stc_w_disp16__opcode2 => some (stcWDisp16 op2)
  | .stc_w_disp24__opcode2 => some (stcWDisp24 op2)
  | .stc_w_inc_ern__opcode2 => some (stcWIncErn op2)
  | .stc_abs16__ => some stcAbs16
  | .stc_abs24__ => some stcAbs24
  -- dispatchers and fetch continuations: handled by `runLeaf` (listed explicitly so that a leaf
  -- unknown to this interpreter is a compile error, not a silent failure)
  | .mov_b__opcode | .mov_b_abs_16_or_24__opcode | .mov_w__opcode | .mov_l__opcode | .add_b__opcode
  | .add_w__opcode | .add_l__opcode | .sub_w__opcode | .sub_l__opcode | .bcc__opcode | .jmp__opcode
  | .jsr__opcode | .pfx_exec_route_0 | .pfx_exec_route_1 | .pfx_exec_route_2 | .pfx_exec_route_3
  | .pfx_exec_route_4 | .pfx_exec_route_5 | .pfx_exec_route_6 | .pfx_mov_l_route_0 => none

/-- leaves that are dispatchers or continuations after a `fetch()`; `fuel` bounds the nesting
    (exec → mov_b → mov_b_abs_16_or_24 is the deepest chain) -/
def runLeaf : Nat → Leaf → BitVec 16 → BitVec 16 → M (BitVec 8)
  | 0, _, _, _ => M.fail
  | fuel + 1, l, op, op2 =>
    match leafHandler l op op2 with
    | some h => h
    | none =>
      match l with
      | .mov_b__opcode => runLeaf fuel (Gen.mov_b_route op) op op2
      | .mov_b_abs_16_or_24__opcode => runLeaf fuel (Gen.mov_b_abs_16_or_24_route op) op op2
      | .mov_w__opcode => runLeaf fuel (Gen.mov_w_route op) op op2
      | .mov_l__opcode => runLeaf fuel (Gen.mov_l_route op) op op2
      | .add_b__opcode => runLeaf fuel (Gen.add_b_route op) op op2
      | .add_w__opcode => runLeaf fuel (Gen.add_w_route op) op op2
      | .add_l__opcode => runLeaf fuel (Gen.add_l_route op) op op2
      | .sub_w__opcode => runLeaf fuel (Gen.sub_w_route op) op op2
      | .sub_l__opcode => runLeaf fuel (Gen.sub_l_route op) op op2
      | .bcc__opcode => runLeaf fuel (Gen.bcc_route op) op op2
      | .jmp__opcode => runLeaf fuel (Gen.jmp_route op) op op2
      | .jsr__opcode => runLeaf fuel (Gen.jsr_route op) op op2
      | .pfx_exec_route_0 => do let w ← fetch; runLeaf fuel (Gen.exec_route_0 op w) op w
      | .pfx_exec_route_1 => do let w ← fetch; runLeaf fuel (Gen.exec_route_1 op w) op w
      | .pfx_exec_route_2 => do let w ← fetch; runLeaf fuel (Gen.exec_route_2 op w) op w
      | .pfx_exec_route_3 => do let w ← fetch; runLeaf fuel (Gen.exec_route_3 op w) op w
      | .pfx_exec_route_4 => do let w ← fetch; runLeaf fuel (Gen.exec_route_4 op w) op w
      | .pfx_exec_route_5 => do let w ← fetch; runLeaf fuel (Gen.exec_route_5 op w) op w
      | .pfx_exec_route_6 => do let w ← fetch; runLeaf fuel (Gen.exec_route_6 op w) op w
      | .pfx_mov_l_route_0 => do let w ← fetch; runLeaf fuel (Gen.mov_l_route_0 op w) op w
      | _ => M.fail

/-- `Cpu::exec(opcode)` -/
def exec (op : BitVec 16) : M (BitVec 8) := runLeaf 6 (Gen.exec_route op) op 0

/-- one instruction: `fetch` + `exec` -/
def step : M (BitVec 8) := do
  let op ← fetch
  exec op

end H8
