/-
  Model of src/cpu.rs, src/cpu/addressing_mode/*.rs and src/cpu/instruction/*.rs: the code as it
  exists, function by function, same order of effects, same error and panic sites.  Where several
  Rust functions are textually identical up to the integer type (B/W/L) one width-generic
  definition is instantiated; every per-size deviation stays visible.

  Hand-written (Tier H of DESIGN.md); tied to the code by the correspondence harness, and its
  opcode dispatch is additionally proved equal to Gen.Dispatch (regenerated from `Cpu::exec`).
-/
import H8.Model.Bus
import H8.Gen.BusCost
namespace H8

/-! ## result / state monad -/

inductive Res (α : Type) where
  | ok (a : α) (s : Cpu)
  | err
  | panic

abbrev M (α : Type) := Cpu → Res α

namespace M
@[inline] def pure' (a : α) : M α := fun s => .ok a s
@[inline] def bind' (m : M α) (f : α → M β) : M β := fun s =>
  match m s with
  | .ok a s' => f a s'
  | .err => .err
  | .panic => .panic
instance : Monad M where
  pure := pure'
  bind := bind'
def fail : M α := fun _ => .err
def panic : M α := fun _ => .panic
def get : M Cpu := fun s => .ok s s
def modify (f : Cpu → Cpu) : M Unit := fun s => .ok () (f s)
end M

open M

inductive Sz where | B | W | L
  deriving DecidableEq, Repr

def Sz.bytes : Sz → BitVec 32 | .B => 1 | .W => 2 | .L => 4
/-- kind and count of the data cycles of one operand access -/
def Sz.dataKind : Sz → Kind | .B => .L | _ => .M
def Sz.dataCount : Sz → BitVec 8 | .L => 2 | _ => 1

def ADDRESS_MASK : BitVec 32 := 0x00ffffff#32

/-! ## CCR (src/cpu.rs) -/

/-- `change_ccr(target, onoff)` -/
def changeCcrV (ccr : BitVec 8) (bit : Nat) (on : Bool) : BitVec 8 :=
  if on then ccr ||| (1#8 <<< bit) else ccr &&& ~~~(1#8 <<< bit)

def changeCcr (bit : Nat) (on : Bool) : M Unit := modify fun s => { s with ccr := changeCcrV s.ccr bit on }

/-- `write_ccr(target, val)`: panics unless val is 0 or 1 -/
def writeCcr (bit : Nat) (val : BitVec 8) : M Unit :=
  if val == 0 then changeCcr bit false else if val == 1 then changeCcr bit true else M.panic

def readCcr (bit : Nat) : M (BitVec 8) := fun s => .ok ((s.ccr >>> bit) &&& 1) s

notation "cC" => (0 : Nat)
notation "cV" => (1 : Nat)
notation "cZ" => (2 : Nat)
notation "cN" => (3 : Nat)
notation "cH" => (5 : Nat)
notation "cI" => (7 : Nat)

/-! ## registers (addressing_mode/rn.rs) -/

def shOf (i : BitVec 8) : BitVec 8 := (i &&& 7) <<< 5
def getEr (r : Regs) (i : BitVec 8) : BitVec 32 := (r >>> shOf i).setWidth 32
def setEr (r : Regs) (i : BitVec 8) (v : BitVec 32) : Regs :=
  (r &&& ~~~(0xffffffff#256 <<< shOf i)) ||| (v.setWidth 256 <<< shOf i)

/-- value read by `read_rn_b` for a valid field (0–7 RnH, 8–15 RnL) -/
def rdB (r : Regs) (f : BitVec 8) : BitVec 8 :=
  if f.ule 7 then (getEr r f >>> 8).setWidth 8 else (getEr r (f - 8)).setWidth 8

def wrB (r : Regs) (f : BitVec 8) (v : BitVec 8) : Regs :=
  if f.ule 7 then setEr r f ((getEr r f &&& 0xffff00ff) ||| (v.setWidth 32 <<< 8))
  else setEr r (f - 8) ((getEr r (f - 8) &&& 0xffffff00) ||| v.setWidth 32)

def rdW (r : Regs) (f : BitVec 8) : BitVec 16 :=
  if f.ule 7 then (getEr r f).setWidth 16 else (getEr r (f - 8) >>> 16).setWidth 16

def wrW (r : Regs) (f : BitVec 8) (v : BitVec 16) : Regs :=
  if f.ule 7 then setEr r f ((getEr r f &&& 0xffff0000) ||| v.setWidth 32)
  else setEr r (f - 8) ((getEr r (f - 8) &&& 0x0000ffff) ||| (v.setWidth 32 <<< 16))

/-- read_rn_b: fields 0–15 are valid, anything else is `bail!` -/
def readRnB (f : BitVec 8) : M (BitVec 8) := fun s =>
  if f.ule 15 then .ok (rdB s.regs f) s else .err

def writeRnB (f : BitVec 8) (v : BitVec 8) : M Unit := fun s =>
  if f.ule 15 then .ok () { s with regs := wrB s.regs f v } else .err

def readRnW (f : BitVec 8) : M (BitVec 16) := fun s =>
  if f.ule 15 then .ok (rdW s.regs f) s else .err

def writeRnW (f : BitVec 8) (v : BitVec 16) : M Unit := fun s =>
  if f.ule 15 then .ok () { s with regs := wrW s.regs f v } else .err

/-- read_rn_l: only 0–7 -/
def readRnL (f : BitVec 8) : M (BitVec 32) := fun s =>
  if f.ule 7 then .ok (getEr s.regs f) s else .err

def writeRnL (f : BitVec 8) (v : BitVec 32) : M Unit := fun s =>
  if f.ule 7 then .ok () { s with regs := setEr s.regs f v } else .err

/-- size-indexed view of read_rn_b/w/l (value zero-extended) -/
def readRn : Sz → BitVec 8 → M (BitVec 32)
  | .B, f => do let v ← readRnB f; pure (v.setWidth 32)
  | .W, f => do let v ← readRnW f; pure (v.setWidth 32)
  | .L, f => readRnL f

def writeRn : Sz → BitVec 8 → BitVec 32 → M Unit
  | .B, f, v => writeRnB f (v.setWidth 8)
  | .W, f, v => writeRnW f (v.setWidth 16)
  | .L, f, v => writeRnL f v

/-- `Cpu::get_nibble_opcode(opcode, order)`, order 1..4 -/
def nib (op : BitVec 16) (order : Nat) : BitVec 8 := ((op >>> (4 * (4 - order))).setWidth 8) &&& 0xf

/-! ## bus access from the CPU (addressing_mode/abs.rs) -/

def busRead (a : BitVec 32) : M (BitVec 8) := fun s =>
  match s.bus.read a with
  | .ok v => .ok v s
  | .err => .err
  | .panic => .panic

def busWrite (a : BitVec 32) (v : BitVec 8) : M Unit := fun s =>
  match s.bus.write a v with
  | .ok b => .ok () { s with bus := b }
  | .err => .err
  | .panic => .panic

def readAbs24W (a : BitVec 32) : M (BitVec 16) := do
  let hi ← busRead a
  let lo ← busRead (a + 1)
  pure ((hi.setWidth 16 <<< 8) ||| lo.setWidth 16)

def writeAbs24W (a : BitVec 32) (v : BitVec 16) : M Unit := do
  busWrite a ((v >>> 8).setWidth 8)
  busWrite (a + 1) (v.setWidth 8)

def readAbs24L (a : BitVec 32) : M (BitVec 32) := do
  let hi ← readAbs24W a
  let lo ← readAbs24W (a + 2)
  pure ((hi.setWidth 32 <<< 16) ||| lo.setWidth 32)

def writeAbs24L (a : BitVec 32) (v : BitVec 32) : M Unit := do
  writeAbs24W a ((v >>> 16).setWidth 16)
  writeAbs24W (a + 2) (v.setWidth 16)

def readMem : Sz → BitVec 32 → M (BitVec 32)
  | .B, a => do let v ← busRead a; pure (v.setWidth 32)
  | .W, a => do let v ← readAbs24W a; pure (v.setWidth 32)
  | .L, a => readAbs24L a

def writeMem : Sz → BitVec 32 → BitVec 32 → M Unit
  | .B, a, v => busWrite a (v.setWidth 8)
  | .W, a, v => writeAbs24W a (v.setWidth 16)
  | .L, a, v => writeAbs24L a v

def getAddrAbs8 (a : BitVec 8) : BitVec 32 := 0xffff00#32 ||| a.setWidth 32
def getAddrAbs16 (a : BitVec 16) : BitVec 32 :=
  if a &&& 0x8000 == 0 then a.setWidth 32 else 0xff0000#32 ||| a.setWidth 32

/-! ## effective addresses (ern.rs, disp.rs, inc_ern.rs, dec_ern.rs) -/

def getAddrErn (f : BitVec 8) : M (BitVec 32) := do let a ← readRnL f; pure (a &&& ADDRESS_MASK)

def getAddrDisp16 (f : BitVec 8) (disp : BitVec 16) : M (BitVec 32) := do
  let a ← readRnL f
  pure ((a + disp.signExtend 32) &&& ADDRESS_MASK)

def getAddrDisp24 (f : BitVec 8) (disp : BitVec 32) : M (BitVec 32) := do
  let a ← readRnL f
  pure ((a + disp) &&& ADDRESS_MASK)

def readIncErn (sz : Sz) (f : BitVec 8) : M (BitVec 32) := do
  let reg ← readRnL f
  let v ← readMem sz (reg &&& ADDRESS_MASK)
  writeRnL f (reg + sz.bytes)
  pure v

def writeIncErn (sz : Sz) (f : BitVec 8) (v : BitVec 32) : M Unit := do
  let reg ← readRnL f
  writeMem sz (reg &&& ADDRESS_MASK) v
  writeRnL f (reg + sz.bytes)

def writeDecErn (sz : Sz) (f : BitVec 8) (v : BitVec 32) : M Unit := do
  let a ← readRnL f
  writeMem sz ((a - sz.bytes) &&& ADDRESS_MASK) v
  writeRnL f (a - sz.bytes)

/-! ## fetch and bus-cycle cost (src/cpu.rs) -/

/-- `fetch()`: unwraps the bus reads — an unmapped PC is a panic -/
def fetch : M (BitVec 16) := fun s =>
  let pc := s.pc &&& ~~~1#32
  match s.bus.read pc, s.bus.read (pc + 1) with
  | .ok hi, .ok lo => .ok ((hi.setWidth 16 <<< 8) ||| lo.setWidth 16) { s with opc := pc, pc := s.pc + 2 }
  | _, _ => .panic

def fetch32 : M (BitVec 32) := do
  let hi ← fetch
  let lo ← fetch
  pure ((hi.setWidth 32 <<< 16) ||| lo.setWidth 32)

/-- value of `calc_state_with_addr` in state `s` (`none` = error): reads the five bus-controller bytes
    (`self.bus.read(ABWCR)?` …) and applies the translated cost function -/
def costAt (s : Cpu) (k : Kind) (n : BitVec 8) (addr : BitVec 32) : Option (BitVec 8) :=
  let rd (a : Nat) : Option (BitVec 8) := match s.bus.read (BitVec.ofNat 32 a) with | .ok v => some v | _ => none
  match rd Gen.ABWCR, rd Gen.ASTCR, rd Gen.WCRH, rd Gen.WCRL, rd Gen.DRCRA with
  | some abwcr, some astcr, some wcrh, some wcrl, some drcra =>
    let r := Gen.calc_state_with_addr abwcr astcr wcrh wcrl drcra k n addr
    if R8.isErr r then none else some (R8.val r)
  | _, _, _, _, _ => none

def calcStateWithAddr (k : Kind) (n : BitVec 8) (addr : BitVec 32) : M (BitVec 8) := fun s =>
  match costAt s k n addr with
  | some c => .ok c s
  | none => .err

/-- `calc_state`: L and M need an address -/
def calcState (k : Kind) (n : BitVec 8) : M (BitVec 8) := fun s =>
  if k == .L || k == .M then .err else calcStateWithAddr k n s.opc s

/-! ## ALU procedures -/

/-- mov_b/w/l_proc_pcc -/
def movPcc {n : Nat} (v : BitVec n) : M Unit := do
  changeCcr cN v.msb
  changeCcr cZ (v == 0)
  writeCcr cV 0

def movPccSz : Sz → BitVec 32 → M Unit
  | .B, v => movPcc (v.setWidth 8)
  | .W, v => movPcc (v.setWidth 16)
  | .L, v => movPcc v

/-- add_b/w/l_proc: H from the low n−4 bits, C from the widened sum -/
def addProc {n : Nat} (dest src : BitVec n) : M (BitVec n) := do
  let value := dest + src
  let overflowed := BitVec.saddOverflow dest src
  let lowMask : BitVec n := (BitVec.allOnes n) >>> 4
  writeCcr cH (if BitVec.ult lowMask ((dest &&& lowMask) + (src &&& lowMask)) then 1 else 0)
  writeCcr cN (if value.msb then 1 else 0)
  writeCcr cZ (if value == 0 then 1 else 0)
  writeCcr cV (if overflowed then 1 else 0)
  writeCcr cC (if BitVec.ult ((BitVec.allOnes n).setWidth (n + n)) (dest.setWidth (n + n) + src.setWidth (n + n)) then 1 else 0)
  pure value

/-- sub_b/w/l_calc -/
def subCalc {n : Nat} (dest src : BitVec n) : M (BitVec n) := do
  let result := dest - src
  let overflowed := BitVec.ssubOverflow dest src
  let lowMask : BitVec n := (BitVec.allOnes n) >>> 4
  changeCcr cH (BitVec.ult (dest &&& lowMask) (src &&& lowMask))
  changeCcr cN result.msb
  changeCcr cZ (result == 0)
  changeCcr cV overflowed
  changeCcr cC (BitVec.ult dest src)
  pure result

/-- addx_proc (8 bit) -/
def addxProc (dest src : BitVec 8) : M (BitVec 8) := do
  let carry ← readCcr cC
  let v1 := dest + src
  let o1 := BitVec.saddOverflow dest src
  let value := v1 + carry
  -- i8::overflowing_add_unsigned(carry)
  let o2 := (!v1.msb) && value.msb
  writeCcr cH (if BitVec.ult 0x0f#8 ((dest &&& 0x0f) + (src &&& 0x0f) + carry) then 1 else 0)
  writeCcr cN (if value.msb then 1 else 0)
  -- `if value != 0 { self.write_ccr(CCR::Z, 0); }`
  modify fun st => { st with ccr := if value != 0 then changeCcrV st.ccr cZ false else st.ccr }
  writeCcr cV (if o1 != o2 then 1 else 0)
  writeCcr cC (if BitVec.ult 0xff#16 (dest.setWidth 16 + src.setWidth 16 + carry.setWidth 16) then 1 else 0)
  pure value

/-- neg_b/w/l_proc -/
def negProc {n : Nat} (value : BitVec n) : M (BitVec n) := do
  let result := 0 - value
  let lowMask : BitVec n := (BitVec.allOnes n) >>> 4
  changeCcr cH (BitVec.ult 0 (value &&& lowMask))
  changeCcr cN result.msb
  changeCcr cZ (result == 0)
  changeCcr cV (value == (1 <<< (n - 1)))
  changeCcr cC (BitVec.ult 0 value)
  pure result

/-- run a width-generic procedure at the operand size on zero-extended values -/
def atSz2 (sz : Sz) (f : {n : Nat} → BitVec n → BitVec n → M (BitVec n)) (a b : BitVec 32) : M (BitVec 32) :=
  match sz with
  | .B => do let r ← f (a.setWidth 8) (b.setWidth 8); pure (r.setWidth 32)
  | .W => do let r ← f (a.setWidth 16) (b.setWidth 16); pure (r.setWidth 32)
  | .L => f a b

def atSz1 (sz : Sz) (f : {n : Nat} → BitVec n → M (BitVec n)) (a : BitVec 32) : M (BitVec 32) :=
  match sz with
  | .B => do let r ← f (a.setWidth 8); pure (r.setWidth 32)
  | .W => do let r ← f (a.setWidth 16); pure (r.setWidth 32)
  | .L => f a

/-- cost helper: I×n at the instruction -/
def costI (n : BitVec 8) : M (BitVec 8) := calcState .I n

/-! ## MOV (mov_b.rs, mov_w.rs, mov_l.rs) -/

def iBase : Sz → BitVec 8 | .L => 2 | _ => 1

def movRn (sz : Sz) (op : BitVec 16) : M (BitVec 8) := do
  let srcF := if sz == .L then nib op 3 &&& 0x07 else nib op 3
  let v ← readRn sz srcF
  writeRn sz (nib op 4) v
  movPccSz sz v
  costI 1

def movImm (sz : Sz) (op : BitVec 16) : M (BitVec 8) :=
  match sz with
  | .B => do
    writeRnB (nib op 2) (op.setWidth 8)
    movPcc (op.setWidth 8)
    costI 1
  | .W => do
    let imm ← fetch
    writeRnW (nib op 4) imm
    movPcc imm
    costI 2
  | .L => do
    let imm ← fetch32
    writeRnL ((op &&& 0x000f).setWidth 8) imm
    movPcc imm
    costI 3

/-- mov_*_ern; `w` is the word that carries the register fields (opcode, or opcode2 for MOV.L) -/
def movErn (sz : Sz) (w : BitVec 16) : M (BitVec 8) := do
  if w &&& 0x0080 == 0 then
    let r := nib w 3
    let a ← getAddrErn r
    let v ← readMem sz a
    writeRn sz (nib w 4) v
    movPccSz sz v
    let c1 ← costI (iBase sz)
    let c2 ← calcStateWithAddr sz.dataKind sz.dataCount a
    pure (c1 + c2)
  else
    let r := nib w 3 &&& 0x07
    let a ← getAddrErn r
    let v ← readRn sz (nib w 4)
    writeMem sz a v
    movPccSz sz v
    let c1 ← costI (iBase sz)
    let c2 ← calcStateWithAddr sz.dataKind sz.dataCount a
    pure (c1 + c2)

def movDisp16 (sz : Sz) (w : BitVec 16) : M (BitVec 8) := do
  let disp ← fetch
  if w &&& 0x0080 == 0 then
    let r := nib w 3
    let a ← getAddrDisp16 r disp
    let v ← readMem sz a
    writeRn sz (nib w 4) v
    movPccSz sz v
    let c1 ← costI (iBase sz + 1)
    let c2 ← calcStateWithAddr sz.dataKind sz.dataCount a
    pure (c1 + c2)
  else
    let r := nib w 3 &&& 0x07
    let a ← getAddrDisp16 r disp
    let v ← readRn sz (nib w 4)
    writeMem sz a v
    movPccSz sz v
    let c1 ← costI (iBase sz + 1)
    let c2 ← calcStateWithAddr sz.dataKind sz.dataCount a
    pure (c1 + c2)

/-- mov_b_disp24 / mov_w_disp24 (opcode = 78r0, opcode2 = 6A2d/6AAs or 6B2d/6BAs) -/
def movDisp24BW (sz : Sz) (op op2 : BitVec 16) : M (BitVec 8) := do
  let disp ← fetch32
  let loadTag : BitVec 16 := if sz == .B then 0x6a20 else 0x6b20
  if op2 &&& 0xfff0 == loadTag then
    let r := nib op 3
    let a ← getAddrDisp24 r disp
    let v ← readMem sz a
    writeRn sz (nib op2 4) v
    movPccSz sz v
    let c1 ← costI 4
    let c2 ← calcStateWithAddr sz.dataKind 1 a
    pure (c1 + c2)
  else
    let r := nib op 3 &&& 0x07
    let a ← getAddrDisp24 r disp
    let v ← readRn sz (nib op2 4)
    writeMem sz a v
    movPccSz sz v
    let c1 ← costI 4
    let c2 ← calcStateWithAddr sz.dataKind 1 a
    pure (c1 + c2)

/-- mov_l_disp24(opcode2 = 78r0) -/
def movLDisp24 (op2 : BitVec 16) : M (BitVec 8) := do
  let op3 ← fetch
  let disp ← fetch32
  if op2 &&& 0x0080 == 0 then
    let r := nib op2 3
    let a ← getAddrDisp24 r disp
    let v ← readAbs24L a
    writeRnL (nib op3 4) v
    movPcc v
    let c1 ← costI 5
    let c2 ← calcStateWithAddr .M 2 a
    pure (c1 + c2)
  else
    let r := nib op2 3 &&& 0x07
    let a ← getAddrDisp24 r disp
    let v ← readRnL (nib op3 4)
    writeAbs24L a v
    movPcc v
    let c1 ← costI 5
    let c2 ← calcStateWithAddr .M 2 a
    pure (c1 + c2)

def movIncOrDec (sz : Sz) (w : BitVec 16) : M (BitVec 8) := do
  if w &&& 0x0080 == 0 then
    let r := nib w 3
    let reg ← readRnL r
    let a := reg &&& ADDRESS_MASK
    let v ← readIncErn sz r
    writeRn sz (nib w 4) v
    movPccSz sz v
    let c1 ← costI (iBase sz)
    let c2 ← calcStateWithAddr sz.dataKind sz.dataCount a
    let c3 ← calcState .N 2
    pure (c1 + c2 + c3)
  else
    let r := nib w 3 &&& 0x07
    let reg ← readRnL r
    let a := (reg - sz.bytes) &&& ADDRESS_MASK
    let v ← readRn sz (nib w 4)
    writeDecErn sz r v
    movPccSz sz v
    let c1 ← costI (iBase sz)
    let c2 ← calcStateWithAddr sz.dataKind sz.dataCount a
    let c3 ← calcState .N 2
    pure (c1 + c2 + c3)

def movBAbs8 (op : BitVec 16) : M (BitVec 8) := do
  let a := getAddrAbs8 (op.setWidth 8)
  if op &&& 0xf000 == 0x2000 then
    let v ← busRead a
    writeRnB (nib op 2) v
    movPcc v
  else
    let v ← readRnB (nib op 2)
    busWrite a v
    movPcc v
  let c1 ← costI 1
  let c2 ← calcStateWithAddr .L 1 a
  pure (c1 + c2)

/-- mov_*_abs16; `w` carries the register field, load iff `w & 0xfff0 == tag` -/
def movAbs16 (sz : Sz) (w : BitVec 16) : M (BitVec 8) := do
  let abs ← fetch
  let a := getAddrAbs16 abs
  let loadTag : BitVec 16 := if sz == .B then 0x6a00 else 0x6b00
  if w &&& 0xfff0 == loadTag then
    let v ← readMem sz a
    writeRn sz (nib w 4) v
    movPccSz sz v
  else
    let v ← readRn sz (nib w 4)
    writeMem sz a v
    movPccSz sz v
  let c1 ← costI (iBase sz + 1)
  let c2 ← calcStateWithAddr sz.dataKind sz.dataCount a
  pure (c1 + c2)

def movAbs24 (sz : Sz) (w : BitVec 16) : M (BitVec 8) := do
  let a ← fetch32
  let loadTag : BitVec 16 := if sz == .B then 0x6a20 else 0x6b20
  if w &&& 0xfff0 == loadTag then
    let v ← readMem sz a
    writeRn sz (nib w 4) v
    movPccSz sz v
  else
    let v ← readRn sz (nib w 4)
    writeMem sz a v
    movPccSz sz v
  let c1 ← costI (iBase sz + 2)
  let c2 ← calcStateWithAddr sz.dataKind sz.dataCount a
  pure (c1 + c2)

/-! ## arithmetic -/

/-- add_b_imm / add_b_rn / add_w_* / add_l_* / sub_* / cmp_* share this shape:
    read dest, obtain src, run `proc`, optionally write back, charge I×k -/
def aluImmB (proc : BitVec 8 → BitVec 8 → M (BitVec 8)) (wb : Bool) (op : BitVec 16) : M (BitVec 8) := do
  let r := nib op 2
  let d ← readRnB r
  let res ← proc d (op.setWidth 8)
  if wb then writeRnB r res
  costI 1

def addBImm (op : BitVec 16) : M (BitVec 8) := aluImmB addProc true op

def addBRn (op : BitVec 16) : M (BitVec 8) := do
  let rd := nib op 4
  let d ← readRnB rd
  let s ← readRnB (nib op 3)
  let r ← addProc d s
  writeRnB rd r
  costI 1

def addWImm (op : BitVec 16) : M (BitVec 8) := do
  let imm ← fetch
  let r := nib op 4
  let d ← readRnW r
  let res ← addProc d imm
  writeRnW r res
  costI 2

def addWRn (op : BitVec 16) : M (BitVec 8) := do
  let rd := nib op 4
  let d ← readRnW rd
  let s ← readRnW (nib op 3)
  let r ← addProc d s
  writeRnW rd r
  costI 1

def addLImm (op : BitVec 16) : M (BitVec 8) := do
  let imm ← fetch32
  let r := nib op 4
  let d ← readRnL r
  let res ← addProc d imm
  writeRnL r res
  costI 3

def addLRn (op : BitVec 16) : M (BitVec 8) := do
  let rd := nib op 4
  let d ← readRnL rd
  let s ← readRnL (nib op 3 &&& 0x7)
  let r ← addProc d s
  writeRnL rd r
  costI 1

def subB (op : BitVec 16) : M (BitVec 8) := do
  let rd := nib op 4
  let d ← readRnB rd
  let s ← readRnB (nib op 3)
  let r ← subCalc d s
  writeRnB rd r
  costI 1

def subWImm (op : BitVec 16) : M (BitVec 8) := do
  let imm ← fetch
  let r := nib op 4
  let d ← readRnW r
  let res ← subCalc d imm
  writeRnW r res
  costI 2

def subWRn (op : BitVec 16) : M (BitVec 8) := do
  let rd := nib op 4
  let d ← readRnW rd
  let s ← readRnW (nib op 3)
  let r ← subCalc d s
  writeRnW rd r
  costI 1

def subLImm (op : BitVec 16) : M (BitVec 8) := do
  let imm ← fetch32
  let r := nib op 4
  let d ← readRnL r
  let res ← subCalc d imm
  writeRnL r res
  costI 3

def subLRn (op : BitVec 16) : M (BitVec 8) := do
  let rd := nib op 4
  let d ← readRnL rd
  let s ← readRnL (nib op 3 &&& 0x7)
  let r ← subCalc d s
  writeRnL rd r
  costI 1

def cmpBImm (op : BitVec 16) : M (BitVec 8) := aluImmB subCalc false op

def cmpBRn (op : BitVec 16) : M (BitVec 8) := do
  let s ← readRnB (nib op 3)
  let d ← readRnB (nib op 4)
  let _ ← subCalc d s
  costI 1

def cmpWImm (op : BitVec 16) : M (BitVec 8) := do
  let imm ← fetch
  let d ← readRnW (nib op 4)
  let _ ← subCalc d imm
  costI 2

def cmpWRn (op : BitVec 16) : M (BitVec 8) := do
  let s ← readRnW (nib op 3)
  let d ← readRnW (nib op 4)
  let _ ← subCalc d s
  costI 1

def cmpLImm (op : BitVec 16) : M (BitVec 8) := do
  let d ← readRnL (nib op 4)
  let imm ← fetch32
  let _ ← subCalc d imm
  costI 3

def cmpLRn (op : BitVec 16) : M (BitVec 8) := do
  let s ← readRnL (nib op 3 &&& 0x7)
  let d ← readRnL (nib op 4)
  let _ ← subCalc d s
  costI 1

def addxImm (op : BitVec 16) : M (BitVec 8) := aluImmB addxProc true op

def addxRn (op : BitVec 16) : M (BitVec 8) := do
  let rd := nib op 4
  let d ← readRnB rd
  let s ← readRnB (nib op 3)
  let r ← addxProc d s
  writeRnB rd r
  costI 1

/-- neg_b/w/l, not_b/w/l, … : unary register operations `Rd := proc Rd` -/
def unary (sz : Sz) (proc : {n : Nat} → BitVec n → M (BitVec n)) (op : BitVec 16) : M (BitVec 8) := do
  let r := nib op 4
  let d ← readRn sz r
  let res ← atSz1 sz proc d
  writeRn sz r res
  costI 1

/-- inc_b / inc_w_1 / inc_w_2 / inc_l_1 / inc_l_2: the register is written before the flags -/
def inc (sz : Sz) (k : Nat) (op : BitVec 16) : M (BitVec 8) := do
  let r := nib op 4
  let d ← readRn sz r
  let bits : Nat := match sz with | .B => 8 | .W => 16 | .L => 32
  let res := (d + BitVec.ofNat 32 k) &&& (if bits == 32 then 0xffffffff else (1 <<< bits) - 1)
  writeRn sz r res
  let msb := res.getLsbD (bits - 1)
  writeCcr cN (if msb then 1 else 0)
  writeCcr cZ (if res == 0 then 1 else 0)
  let top : BitVec 32 := 1 <<< (bits - 1)
  let v := if k == 1 then res == top else (res == top || res == top + 1)
  writeCcr cV (if v then 1 else 0)
  costI 1

/-- dec_b / dec_w_1 / dec_w_2 / dec_l_1 / dec_l_2 -/
def dec (sz : Sz) (k : Nat) (op : BitVec 16) : M (BitVec 8) := do
  let r := nib op 4
  let d ← readRn sz r
  let res ← match sz with
    | .B => do
      let x : BitVec 8 := d.setWidth 8
      let r8 := x - BitVec.ofNat 8 k
      pure (r8.setWidth 32, r8.msb, r8 == 0, BitVec.ssubOverflow x (BitVec.ofNat 8 k))
    | .W => do
      let x : BitVec 16 := d.setWidth 16
      let r16 := x - BitVec.ofNat 16 k
      pure (r16.setWidth 32, r16.msb, r16 == 0, BitVec.ssubOverflow x (BitVec.ofNat 16 k))
    | .L => do
      let r32 := d - BitVec.ofNat 32 k
      pure (r32, r32.msb, r32 == 0, BitVec.ssubOverflow d (BitVec.ofNat 32 k))
  writeRn sz r res.1
  changeCcr cN res.2.1
  changeCcr cZ res.2.2.1
  changeCcr cV res.2.2.2
  costI 1

def addsSubs (delta : BitVec 32) (op : BitVec 16) : M (BitVec 8) := do
  let r := nib op 4
  let v ← readRnL r
  writeRnL r (v + delta)
  costI 1

def mulxuB (op : BitVec 16) : M (BitVec 8) := do
  let rsI := nib op 3
  let rdI := nib op 4
  let rs ← readRnB rsI
  let rd ← readRnW rdI
  writeRnW rdI ((rd &&& 0xff) * rs.setWidth 16)
  let c1 ← costI 1
  let c2 ← calcState .N 12
  pure (c1 + c2)

def mulxuW (op : BitVec 16) : M (BitVec 8) := do
  let rsI := nib op 3
  let rdI := nib op 4
  let rs ← readRnW rsI
  let rd ← readRnL rdI
  writeRnL rdI ((rd &&& 0xffff) * rs.setWidth 32)
  let c1 ← costI 1
  let c2 ← calcState .N 20
  pure (c1 + c2)

def divxuB (op : BitVec 16) : M (BitVec 8) := do
  let rdI := nib op 4
  let rsI := nib op 3
  let rd ← readRnW rdI
  let rs ← readRnB rsI
  writeCcr cN (if rs.msb then 1 else 0)
  writeCcr cZ (if rs == 0 then 1 else 0)
  let q : BitVec 16 := if rs == 0 then 0 else rd / rs.setWidth 16
  let r : BitVec 16 := if rs == 0 then 0 else rd % rs.setWidth 16
  writeRnW rdI ((r <<< 8) ||| (q &&& 0xff))
  let c1 ← costI 1
  let c2 ← calcState .N 12
  pure (c1 + c2)

def divxuW (op : BitVec 16) : M (BitVec 8) := do
  let rdI := nib op 4 &&& 0b111
  let rsI := nib op 3
  let rd ← readRnL rdI
  let rs ← readRnW rsI
  writeCcr cN (if rs.msb then 1 else 0)
  writeCcr cZ (if rs == 0 then 1 else 0)
  let q : BitVec 32 := if rs == 0 then 0 else rd / rs.setWidth 32
  let r : BitVec 32 := if rs == 0 then 0 else rd % rs.setWidth 32
  writeRnL rdI ((r <<< 16) ||| (q &&& 0xffff))
  let c1 ← costI 1
  let c2 ← calcState .N 20
  pure (c1 + c2)

/-! ## logic, shifts, rotates -/

/-- N, Z by result, V := 0 (and.rs / or.rs / xor.rs / not.rs) -/
def logicFlags {n : Nat} (r : BitVec n) : M Unit := do
  writeCcr cN (if r.msb then 1 else 0)
  writeCcr cZ (if r == 0 then 1 else 0)
  writeCcr cV 0

def logicFlagsSz : Sz → BitVec 32 → M Unit
  | .B, v => logicFlags (v.setWidth 8)
  | .W, v => logicFlags (v.setWidth 16)
  | .L, v => logicFlags v

inductive LOp where | and | or | xor
def LOp.ap (o : LOp) (a b : BitVec 32) : BitVec 32 := match o with | .and => a &&& b | .or => a ||| b | .xor => a ^^^ b

def logicBImm (o : LOp) (op : BitVec 16) : M (BitVec 8) := do
  let r := nib op 2
  let d ← readRnB r
  let res := o.ap (d.setWidth 32) ((op.setWidth 8).setWidth 32)
  writeRnB r (res.setWidth 8)
  logicFlagsSz .B res
  costI 1

/-- and_b_rn, and_w_rn (src nibble 3, dest nibble 4) -/
def logicRn (o : LOp) (sz : Sz) (w : BitVec 16) (icount : BitVec 8) : M (BitVec 8) := do
  let rs := nib w 3
  let rd := nib w 4
  let a ← readRn sz rs
  let b ← readRn sz rd
  let res := o.ap a b
  writeRn sz rd res
  logicFlagsSz sz res
  costI icount

def logicWImm (o : LOp) (op : BitVec 16) : M (BitVec 8) := do
  let imm ← fetch
  let r := nib op 4
  let d ← readRnW r
  let res := o.ap (d.setWidth 32) (imm.setWidth 32)
  writeRnW r (res.setWidth 16)
  logicFlagsSz .W res
  costI 2

def logicLImm (o : LOp) (op : BitVec 16) : M (BitVec 8) := do
  let imm ← fetch32
  let r := nib op 4
  let d ← readRnL r
  let res := o.ap d imm
  writeRnL r res
  logicFlagsSz .L res
  costI 3

def notProc {n : Nat} (d : BitVec n) : M (BitVec n) := do
  let r := ~~~d
  changeCcr cN r.msb; changeCcr cZ (r == 0); changeCcr cV false
  pure r

def extu (sz : Sz) (op : BitVec 16) : M (BitVec 8) := do
  let r := nib op 4
  let d ← readRn sz r
  let res := d &&& (if sz == .W then 0x00ff else 0x0000ffff)
  writeRn sz r res
  writeCcr cN 0
  writeCcr cZ (if res == 0 then 1 else 0)
  writeCcr cV 0
  costI 1

inductive ShOp where | shal | shar | shll | shlr | rotl | rotr | rotxl | rotxr

/-- shal.rs … rotxr.rs: (result, N, Z, V, C) -/
def shiftK {n : Nat} (o : ShOp) (src : BitVec n) (ccr : BitVec 8) : BitVec n × Bool × Bool × Bool × Bool :=
  let top : BitVec n := 1 <<< (n - 1)
  let cin : Bool := ccr.getLsbD 0
  match o with
  | .shal => let r := src <<< 1; (r, src.getLsbD (n - 2), r == 0, src.msb, src.msb)   -- V = old msb (as the code does)
  | .shll => let r := src <<< 1; (r, src.getLsbD (n - 2), r == 0, false, src.msb)
  | .shar => let r := (src >>> 1) ||| (src &&& top); (r, r.msb, r == 0, false, src.getLsbD 0)
  | .shlr => let r := src >>> 1; (r, false, r == 0, false, src.getLsbD 0)
  | .rotl => let r := (src <<< 1) ||| (src >>> (n - 1)); (r, r.msb, r == 0, false, r.getLsbD 0)
  | .rotr => let r := (src >>> 1) ||| (src <<< (n - 1)); (r, r.msb, r == 0, false, src.getLsbD 0)
  | .rotxl => let r := (src <<< 1) ||| (BitVec.ofBool cin).setWidth n; (r, r.msb, r == 0, false, src.msb)
  | .rotxr => let r := (src >>> 1) ||| ((BitVec.ofBool cin).setWidth n <<< (n - 1)); (r, r.msb, r == 0, false, src.getLsbD 0)

def shift (o : ShOp) (sz : Sz) (op : BitVec 16) : M (BitVec 8) := do
  let r := nib op 4
  let src ← readRn sz r
  let s ← M.get
  let (res, fn, fz, fv, fc) := match sz with
    | .B => let (x, a, b, c, d) := shiftK o (src.setWidth 8) s.ccr; (x.setWidth 32, a, b, c, d)
    | .W => let (x, a, b, c, d) := shiftK o (src.setWidth 16) s.ccr; (x.setWidth 32, a, b, c, d)
    | .L => shiftK o src s.ccr
  writeRn sz r res
  writeCcr cN (if fn then 1 else 0)
  writeCcr cZ (if fz then 1 else 0)
  writeCcr cV (if fv then 1 else 0)
  writeCcr cC (if fc then 1 else 0)
  costI 1

/-! ## bit manipulation -/

inductive BLoc where | rn | ern | abs
inductive BMod where | set | clr | not_

def BMod.ap (m : BMod) (v : BitVec 8) (bit : BitVec 8) : BitVec 8 :=
  match m with
  | .set => v ||| (1#8 <<< bit)
  | .clr => v &&& ~~~(1#8 <<< bit)
  | .not_ => v ^^^ (1#8 <<< bit)

/-- bset/bclr/bnot_rn_from_imm -/
def bmodRnImm (m : BMod) (op : BitVec 16) : M (BitVec 8) := do
  let r := nib op 4
  let v ← readRnB r
  let imm := nib op 3 &&& 7
  writeRnB r (m.ap v imm)
  costI 1

/-- bset/bclr/bnot_rn_from_rn -/
def bmodRnRn (m : BMod) (op : BitVec 16) : M (BitVec 8) := do
  let rb := nib op 3
  let rv := nib op 4
  let bit ← readRnB rb
  let v ← readRnB rv
  writeRnB rv (m.ap v (bit &&& 7))
  costI 1

/-- bset/bclr/bnot_ern(opcode, opcode2): `immTag` = 0x7000/0x7200/0x7100, `rnTag` = 0x6000/0x6200/0x6100 -/
def bmodErn (m : BMod) (immTag rnTag : BitVec 16) (op op2 : BitVec 16) : M (BitVec 8) := do
  let re := nib op 3
  let a ← getAddrErn re
  if op2 &&& 0xff0f == immTag then
    let v ← busRead a
    let imm := nib op2 3 &&& 7
    busWrite a (m.ap v imm)
  else if op2 &&& 0xff0f == rnTag then
    let bit ← readRnB (nib op2 3)
    let v ← busRead a
    busWrite a (m.ap v (bit &&& 7))
  else M.fail
  let c1 ← costI 2
  let c2 ← calcStateWithAddr .L 2 a
  pure (c1 + c2)

def bmodAbs (m : BMod) (immTag rnTag : BitVec 16) (op op2 : BitVec 16) : M (BitVec 8) := do
  let a := getAddrAbs8 (op.setWidth 8)
  if op2 &&& 0xff0f == immTag then
    let imm := nib op2 3 &&& 7
    let v ← busRead a
    busWrite a (m.ap v imm)
  else if op2 &&& 0xff0f == rnTag then
    let bit ← readRnB (nib op2 3)
    let v ← busRead a
    busWrite a (m.ap v (bit &&& 7))
  else M.fail
  let c1 ← costI 2
  let c2 ← calcStateWithAddr .L 2 a
  pure (c1 + c2)

/-- bst / bist: `inv` selects BIST -/
def bstVal (inv : Bool) (v : BitVec 8) (imm : BitVec 8) (ccr : BitVec 8) : BitVec 8 :=
  let c : BitVec 8 := if inv then ~~~ccr &&& 1 else ccr &&& 1
  if c == 1 then v ||| (c <<< imm) else v &&& ~~~(1#8 <<< imm)

def bstRn (inv : Bool) (op : BitVec 16) : M (BitVec 8) := do
  let r := nib op 4
  let v ← readRnB r
  let imm := nib op 3 &&& 7
  let s ← M.get
  writeRnB r (bstVal inv v imm s.ccr)
  costI 1

def bstErn (inv : Bool) (op op2 : BitVec 16) : M (BitVec 8) := do
  let r := nib op 3
  let a ← getAddrErn r
  let v ← busRead a
  let imm := nib op2 3 &&& 7
  let s ← M.get
  busWrite a (bstVal inv v imm s.ccr)
  let c1 ← costI 2
  let c2 ← calcStateWithAddr .L 2 a
  pure (c1 + c2)

def bstAbs (inv : Bool) (op op2 : BitVec 16) : M (BitVec 8) := do
  let imm := nib op2 3 &&& 7
  let a := getAddrAbs8 (op.setWidth 8)
  let v ← busRead a
  let s ← M.get
  busWrite a (bstVal inv v imm s.ccr)
  let c1 ← costI 2
  let c2 ← calcStateWithAddr .L 2 a
  pure (c1 + c2)

/-- btst: Z := ¬bit -/
def btstSet (v bit : BitVec 8) : M Unit := changeCcr cZ (((v >>> (bit &&& 7)) &&& 1) == 0)

def btstImmRn (op : BitVec 16) : M (BitVec 8) := do
  let v ← readRnB (nib op 4)
  btstSet v (nib op 3)
  costI 1

def btstRnRn (op : BitVec 16) : M (BitVec 8) := do
  let rn ← readRnB (nib op 3)
  let v ← readRnB (nib op 4)
  btstSet v rn
  costI 1

def btstErn (byReg : Bool) (op op2 : BitVec 16) : M (BitVec 8) := do
  let e := nib op 3
  let a ← getAddrErn e
  let v ← busRead a
  let bit ← if byReg then readRnB (nib op2 3) else pure (nib op2 3)
  btstSet v bit
  let c1 ← costI 2
  let c2 ← calcStateWithAddr .L 1 a
  pure (c1 + c2)

def btstAbs (byReg : Bool) (op op2 : BitVec 16) : M (BitVec 8) := do
  let a := getAddrAbs8 (op.setWidth 8)
  let v ← busRead a
  let bit ← if byReg then readRnB (nib op2 3) else pure (nib op2 3)
  btstSet v bit
  let c1 ← costI 2
  let c2 ← calcStateWithAddr .L 1 a
  pure (c1 + c2)

inductive BAcc where | ld | ild | and | iand | or | ior | xor | ixor

/-- value handed to `write_ccr(C, …)` by bld/bild/band/biand/bor/bior/bxor/bixor -/
def BAcc.ap (o : BAcc) (v imm c : BitVec 8) : BitVec 8 :=
  let sh := v >>> imm
  match o with
  | .ld => sh &&& 1
  | .ild => (sh ^^^ 1) &&& 1
  | .and => sh &&& c
  | .iand => ~~~sh &&& c
  | .or => (sh &&& 1) ||| c
  | .ior => (~~~sh &&& 1) ||| c
  | .xor => (sh &&& 1) ^^^ c
  | .ixor => (~~~sh &&& 1) ^^^ c

def baccRn (o : BAcc) (op : BitVec 16) : M (BitVec 8) := do
  let v ← readRnB (nib op 4)
  let imm := nib op 3 &&& 7
  let c ← readCcr cC
  writeCcr cC (o.ap v imm c)
  costI 1

def baccErn (o : BAcc) (op op2 : BitVec 16) : M (BitVec 8) := do
  let r := nib op 3
  let a ← getAddrErn r
  let v ← busRead a
  let imm := nib op2 3 &&& 7
  let c ← readCcr cC
  writeCcr cC (o.ap v imm c)
  let c1 ← costI 2
  let c2 ← calcStateWithAddr .L 1 a
  pure (c1 + c2)

def baccAbs (o : BAcc) (op op2 : BitVec 16) : M (BitVec 8) := do
  let imm := nib op2 3 &&& 7
  let a := getAddrAbs8 (op.setWidth 8)
  let v ← busRead a
  let c ← readCcr cC
  writeCcr cC (o.ap v imm c)
  let c1 ← costI 2
  let c2 ← calcStateWithAddr .L 1 a
  pure (c1 + c2)

/-! ## branches, calls, returns (bcc.rs, bsr.rs, jmp.rs, jsr.rs, rts.rs, rte.rs, pc.rs) -/

/-- pc_disp8 / pc_disp16: checked_add_signed, then the target must be even -/
def pcDisp (d : BitVec 32) : M Unit := fun s =>
  let sum : Int := s.pc.toNat + d.toInt
  if sum < 0 ∨ sum ≥ 2 ^ 32 then .err
  else
    let pc := s.pc + d
    if pc.getLsbD 0 then .err else .ok () { s with pc := pc }

/-- the 16 predicates of bxx8 / bxx16 on `read_ccr` bits -/
def bccTaken (c : BitVec 4) (ccr : BitVec 8) : Bool :=
  let C := (ccr >>> 0) &&& 1; let V := (ccr >>> 1) &&& 1; let Z := (ccr >>> 2) &&& 1; let N := (ccr >>> 3) &&& 1
  match c.toNat with
  | 0 => true
  | 1 => false
  | 2 => (C ||| Z) == 0
  | 3 => (C ||| Z) == 1
  | 4 => C == 0
  | 5 => C == 1
  | 6 => Z == 0
  | 7 => Z == 1
  | 8 => V == 0
  | 9 => V == 1
  | 10 => N == 0
  | 11 => N == 1
  | 12 => (N ^^^ V) == 0
  | 13 => (N ^^^ V) == 1
  | 14 => (Z ||| (N ^^^ V)) == 0
  | _ => (Z ||| (N ^^^ V)) == 1

/-- bra8 … ble8: `c` is the position of the function in the condition table -/
def bcc8 (c : BitVec 4) (op : BitVec 16) : M (BitVec 8) := do
  let s ← M.get
  if bccTaken c s.ccr then pcDisp ((op.setWidth 8).signExtend 32)
  costI 2

/-- bra16 … ble16 -/
def bcc16 (c : BitVec 4) : M (BitVec 8) := do
  let op2 ← fetch
  let s ← M.get
  if bccTaken c s.ccr then pcDisp (op2.signExtend 32)
  let c1 ← costI 2
  let c2 ← calcState .N 2
  pure (c1 + c2)

def bsrDisp8 (op : BitVec 16) : M (BitVec 8) := do
  let sp ← readRnL 7
  let a := (sp - 4) &&& ADDRESS_MASK
  let s ← M.get
  writeDecErn .L 7 s.pc
  modify fun s => { s with pc := s.pc + (op.setWidth 8).signExtend 32 }
  let c1 ← costI 2
  let c2 ← calcStateWithAddr .K 2 a
  pure (c1 + c2)

def bsrDisp16 (_op : BitVec 16) : M (BitVec 8) := do
  let sp ← readRnL 7
  let a := (sp - 4) &&& ADDRESS_MASK
  let op2 ← fetch
  let s ← M.get
  writeDecErn .L 7 s.pc
  modify fun s => { s with pc := s.pc + op2.signExtend 32 }
  let c1 ← costI 2
  let c2 ← calcStateWithAddr .K 2 a
  let c3 ← calcState .N 2
  pure (c1 + c2 + c3)

def jmpErn (op : BitVec 16) : M (BitVec 8) := do
  let a ← readRnL (nib op 3)
  modify fun s => { s with pc := a &&& ADDRESS_MASK }
  costI 2

def jmpAbs (op : BitVec 16) : M (BitVec 8) := do
  let lo ← fetch
  modify fun s => { s with pc := ((op &&& 0x00ff).setWidth 32 <<< 16) ||| lo.setWidth 32 }
  let c1 ← costI 2
  let c2 ← calcState .N 2
  pure (c1 + c2)

def jmpIndirect (op : BitVec 16) : M (BitVec 8) := do
  let va : BitVec 32 := (op &&& 0x00ff).setWidth 32
  let t ← readAbs24L va
  modify fun s => { s with pc := t &&& ADDRESS_MASK }
  let c1 ← costI 2
  let c2 ← calcStateWithAddr .J 2 va
  let c3 ← calcState .N 2
  pure (c1 + c2 + c3)

def jsrErn (op : BitVec 16) : M (BitVec 8) := do
  let sp ← readRnL 7
  let a := (sp - 4) &&& ADDRESS_MASK
  let s ← M.get
  writeDecErn .L 7 s.pc
  let t ← readRnL (nib op 3)
  modify fun s => { s with pc := t &&& ADDRESS_MASK }
  let c1 ← costI 2
  let c2 ← calcStateWithAddr .K 2 a
  pure (c1 + c2)

def jsrAbs (op : BitVec 16) : M (BitVec 8) := do
  let sp ← readRnL 7
  let a := (sp - 4) &&& ADDRESS_MASK
  let op2 ← fetch
  let s ← M.get
  writeDecErn .L 7 s.pc
  modify fun s => { s with pc := ((op &&& 0x00ff).setWidth 32 <<< 16) ||| op2.setWidth 32 }
  let c1 ← costI 2
  let c2 ← calcStateWithAddr .K 2 a
  let c3 ← calcState .N 2
  pure (c1 + c2 + c3)

def jsrIndirect (op : BitVec 16) : M (BitVec 8) := do
  let va : BitVec 32 := (op &&& 0x00ff).setWidth 32
  let sp ← readRnL 7
  let sa := (sp - 4) &&& ADDRESS_MASK
  let s ← M.get
  writeDecErn .L 7 s.pc
  let t ← readAbs24L va
  modify fun s => { s with pc := t &&& ADDRESS_MASK }
  let c1 ← costI 2
  let c2 ← calcStateWithAddr .J 2 va
  let c3 ← calcStateWithAddr .K 2 sa
  pure (c1 + c2 + c3)

def rts : M (BitVec 8) := do
  let sp ← readRnL 7
  let a := sp &&& ADDRESS_MASK
  let v ← readIncErn .L 7
  modify fun s => { s with pc := v &&& ADDRESS_MASK }
  let c1 ← costI 2
  let c2 ← calcStateWithAddr .K 2 a
  let c3 ← calcState .N 2
  pure (c1 + c2 + c3)

def rte : M (BitVec 8) := do
  let sp ← readRnL 7
  let a := sp &&& ADDRESS_MASK
  let v ← readIncErn .L 7
  modify fun s => { s with ccr := (v >>> 24).setWidth 8, pc := v &&& ADDRESS_MASK }
  let c1 ← costI 2
  let c2 ← calcStateWithAddr .K 2 a
  let c3 ← calcState .N 2
  pure (c1 + c2 + c3)

/-! ## TRAPA and the MES system calls (trapa.rs), interrupts (interrupt_controller.rs) -/

/-- bytes of the `__write` buffer: reads `arg1 + i` for i in 0..arg2 -/
def readBytes : Nat → BitVec 32 → List (BitVec 8) → M (List (BitVec 8))
  | 0, _, acc => pure acc.reverse
  | n + 1, a, acc => do let b ← busRead a; readBytes n (a + 1) (b :: acc)

def trapaEmulateMes2 : M Unit := do
  let id ← readRnL 0
  if id == 113 then
    let argAddr ← readRnL 1
    let arg0 ← readAbs24L argAddr
    let arg1 ← readAbs24L (argAddr + 4)
    if BitVec.ult arg0 1 ∨ BitVec.ule 64 arg0 then pure ()
    else
      writeAbs24L (arg0 * 4) (arg1 + 0x5a000000)
      let s ← M.get
      writeAbs24L (0xfffd10 + arg0 * 4) (getEr s.regs 5)
  else if id == 104 then
    let argAddr ← readRnL 1
    let _arg0 ← readAbs24L argAddr
    let arg1 ← readAbs24L (argAddr + 4)
    let arg2 ← readAbs24L (argAddr + 8)
    let bytes ← readBytes arg2.toNat arg1 []
    match String.fromUTF8? (ByteArray.mk (bytes.map (fun b => b.toNat.toUInt8)).toArray) with
    | none => M.fail
    | some str =>
      modify fun s => { s with out := str :: s.out, bus := { s.bus with msgs := ("stdout:" ++ str) :: s.bus.msgs } }
  else M.fail

def trapa (op : BitVec 16) : M (BitVec 8) := do
  let sp ← readRnL 7
  let a := (sp - 4) &&& ADDRESS_MASK
  let imm := nib op 3
  let vecAddr : BitVec 32 := (0x20#8 + 4 * imm).setWidth 32
  if imm == 0 then trapaEmulateMes2
  else
    let s ← M.get
    writeDecErn .L 7 ((s.ccr.setWidth 32 <<< 24) ||| s.pc)
    let dest ← readAbs24L vecAddr
    modify fun s => { s with pc := dest &&& ADDRESS_MASK }
    writeCcr cI 1
  let c1 ← costI 2
  let c2 ← calcStateWithAddr .J 2 vecAddr
  let c3 ← calcStateWithAddr .K 2 a
  let c4 ← calcState .N 4
  pure (c1 + c2 + c3 + c4)

/-- `Cpu::interrupt(vector)` -/
def interrupt (vector : BitVec 8) : M Unit := do
  let s ← M.get
  writeDecErn .L 7 ((s.ccr.setWidth 32 <<< 24) ||| s.pc)
  let vecAddr : BitVec 32 := (4#8 * vector).setWidth 32
  let dest ← readAbs24L vecAddr
  modify fun s => { s with pc := dest &&& ADDRESS_MASK }
  writeCcr cI 1

/-- `Cpu::try_interrupt()` -/
def tryInterrupt : M Unit := do
  let i ← readCcr cI
  if i == 1 then pure ()
  else
    let s ← M.get
    match s.pending with
    | [] => pure ()
    | v :: rest =>
      modify fun s => { s with pending := rest }
      interrupt v

/-! ## STC (stc.rs) -/

def stcB (op : BitVec 16) : M (BitVec 8) := do
  let s ← M.get
  writeRnB (nib op 4) s.ccr
  costI 1

def stcWErn (op2 : BitVec 16) : M (BitVec 8) := do
  let e := nib op2 3 &&& 0b111
  let reg ← readRnL e
  let a := reg &&& ADDRESS_MASK
  let s ← M.get
  writeAbs24W a (s.ccr.setWidth 16)
  let c1 ← costI 2
  let c2 ← calcStateWithAddr .M 1 a
  pure (c1 + c2)

def stcWDisp16 (op2 : BitVec 16) : M (BitVec 8) := do
  let e := nib op2 3 &&& 0b111
  let disp ← fetch
  let a ← getAddrDisp16 e disp
  let s ← M.get
  writeAbs24W a (s.ccr.setWidth 16)
  let c1 ← costI 3
  let c2 ← calcStateWithAddr .M 1 a
  pure (c1 + c2)

def stcWDisp24 (op2 : BitVec 16) : M (BitVec 8) := do
  let e := nib op2 3
  let op3 ← fetch
  if op3 != 0x6ba0 then M.fail
  else
    let disp ← fetch32
    let a ← getAddrDisp24 e disp
    let s ← M.get
    writeAbs24W a (s.ccr.setWidth 16)
    let c1 ← costI 5
    let c2 ← calcStateWithAddr .M 1 a
    pure (c1 + c2)

/-- `stc_w_inc_ern`: the code post-increments (the manual's form is @-ERd) -/
def stcWIncErn (op2 : BitVec 16) : M (BitVec 8) := do
  let e := nib op2 3 &&& 0b111
  let reg ← readRnL e
  let a := reg &&& ADDRESS_MASK
  let s ← M.get
  writeIncErn .W e (s.ccr.setWidth 32)
  let c1 ← costI 2
  let c2 ← calcStateWithAddr .M 1 a
  let c3 ← calcState .N 2
  pure (c1 + c2 + c3)

def stcAbs16 : M (BitVec 8) := do
  let addr ← fetch
  let a := getAddrAbs16 addr
  let s ← M.get
  writeAbs24W a (s.ccr.setWidth 16)
  let c1 ← costI 3
  let c2 ← calcStateWithAddr .M 1 a
  pure (c1 + c2)

def stcAbs24 : M (BitVec 8) := do
  let a ← fetch32
  let s ← M.get
  writeAbs24W a (s.ccr.setWidth 16)
  let c1 ← costI 4
  let c2 ← calcStateWithAddr .M 1 a
  pure (c1 + c2)

end H8
