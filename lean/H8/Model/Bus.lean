/-
  Model of src/bus.rs, src/ioport.rs, src/modules.rs, src/modules/timer8.rs — function by
  function, same order of effects.  Address decoding comes from Gen.BusMap (regenerated from
  the Rust `match` on every run); constants come from Gen.Consts.
-/
import H8.State
namespace H8


def hex (n : Nat) : String := String.ofList (Nat.toDigits 16 n)

/-- `Bus::read` -/
def Bus.read (b : Bus) (addr : BitVec 32) : Out (BitVec 8) :=
  match Gen.read_decode addr.toNat with
  | none => .err
  | some (s, i) => if i < Gen.storeSize s then .ok ((b.store s).get i) else .panic

/-- `Bus::send_message` (the log stands for the channel / console) -/
def Bus.sendMessage (b : Bus) (m : String) : Bus := { b with msgs := m :: b.msgs }

/-- `Bus::send_io_port_value`: `ioport:{:x}:{:x}:{}` -/
def Bus.sendIoPortValue (b : Bus) (port : Nat) (value : BitVec 8) : Bus :=
  b.sendMessage s!"ioport:{hex port}:{hex value.toNat}:{b.stateSum}"

def ddrIndex (port : Nat) : Nat := Gen.IO_PORT_1_DDR_ADDR + port - 1 - Gen.IO_REGISTERS1_START_ADDR
def drIndex (port : Nat) : Nat := Gen.IO_PORT_1_DR_ADDR + port - 1 - Gen.IO_REGISTERS2_EMC1_START_ADDR

def Bus.readDdr (b : Bus) (port : Nat) : BitVec 8 := b.io1.get (ddrIndex port)
def Bus.readDr (b : Bus) (port : Nat) : BitVec 8 := b.io2.get (drIndex port)
def Bus.writeDr (b : Bus) (port : Nat) (v : BitVec 8) : Bus := { b with io2 := b.io2.set (drIndex port) v }

/-- `Bus::write_port` (external pin levels of a port) -/
def Bus.writePort (b : Bus) (port : Nat) (value : BitVec 8) : Bus :=
  if 1 ≤ port ∧ port ≤ 0xb then
    let b := { b with portIn := b.portIn.set (port - 1) value }
    let ddr := b.readDdr port
    let dr := (b.readDr port &&& ddr) ||| (~~~ddr &&& value)
    b.writeDr port dr
  else b

/-- `Bus::on_write_ddr` -/
def Bus.onWriteDdr (b : Bus) (addr : Nat) (ddr : BitVec 8) : Bus :=
  let b := { b with io1 := b.io1.set (addr - Gen.IO_REGISTERS1_START_ADDR) ddr }
  let port := (addr - Gen.IO_PORT_1_DDR_ADDR) % 256 + 1
  let dr := (b.readDr port &&& ddr) ||| (~~~ddr &&& b.portIn.get (port - 1))
  let b := b.writeDr port dr
  let ioPortOut := b.readDr port &&& ddr
  b.sendIoPortValue port ioPortOut

/-- `Bus::on_write_dr` -/
def Bus.onWriteDr (b : Bus) (addr : Nat) (dr : BitVec 8) : Bus :=
  let port := (addr - Gen.IO_PORT_1_DR_ADDR) % 256 + 1
  let ddr := b.readDdr port
  let realDr := (dr &&& ddr) ||| (~~~ddr &&& b.portIn.get (port - 1))
  let b := b.writeDr port realDr
  let ioPortOut := dr &&& ddr
  b.sendIoPortValue port ioPortOut

/-- clock select of `update_tcr`: CKS 0 stops the clock, 1–3 select /8, /64, /8192, 4–7 (external /
    cascade, not implemented) leave the divisor alone -/
def newPrescaler (old : Nat) (cks : BitVec 8) : Nat :=
  if cks == 0#8 then 0 else if cks == 1#8 then 8 else if cks == 2#8 then 64 else if cks == 3#8 then 8192 else old

/-- `Timer8_0::update_tcr` -/
def Timer.updateTcr (t : Timer) (tcr : BitVec 8) : Timer :=
  let p := newPrescaler t.prescaler (tcr &&& 0x07#8)
  { t with cmib := tcr &&& 0x80#8 != 0#8, cmia := tcr &&& 0x40#8 != 0#8, ovi := tcr &&& 0x20#8 != 0#8,
           clearedBy := ((tcr &&& 0x18#8) >>> 3).toNat,
           prescaler := p,
           -- a newly selected clock starts a fresh period
           state := if p != t.prescaler then 0 else t.state }

/-- `ModuleManager::write_registers` -/
def Bus.writeRegisters (b : Bus) (addr : Nat) (value : BitVec 8) : Bus :=
  if addr = Gen.TCR0_8 then { b with timer := b.timer.updateTcr value } else b

/-- `Bus::write` -/
def Bus.write (b : Bus) (addr : BitVec 32) (value : BitVec 8) : Out Bus :=
  let a := addr.toNat
  match Gen.write_decode a with
  | none => .err
  | some (s, i) =>
    if ¬ i < Gen.storeSize s then .panic else
    match s with
    | .io1 =>
      if Gen.DDR_LO ≤ a ∧ a ≤ Gen.DDR_HI then
        if value != b.io1.get i then .ok (b.onWriteDdr a value) else .ok b
      else .ok (Bus.writeRegisters { b with io1 := b.io1.set i value } a value)
    | .io2 =>
      if Gen.DR_LO ≤ a ∧ a ≤ Gen.DR_HI then
        if value != b.io2.get i then .ok (b.onWriteDr a value) else .ok b
      else .ok (Bus.writeRegisters { b with io2 := b.io2.set i value } a value)
    | s => .ok (b.setStore s ((b.store s).set i value))

/-- index of an I/O register inside io_registrs2 -/
def io2Index (addr : Nat) : Nat := addr - Gen.IO_REGISTERS2_EMC1_START_ADDR

/-- One counting step of `update_timer8_0`'s `while` loop; returns the interrupt requests raised. -/
def Bus.timerTick (b : Bus) : Bus × List (BitVec 8) :=
  let t := b.timer
  let tcnt0 := b.io2.get (io2Index Gen.TCNT0_8)
  let tcnt1 := tcnt0 + 1#8
  let overflowed := tcnt0 == 0xff#8
  let tcora := b.io2.get (io2Index Gen.TCORA0)
  let tcorb := b.io2.get (io2Index Gen.TCORB0)
  let tcsr := b.io2.get (io2Index Gen.TCSR0_8)
  -- CMFA
  let hitA := tcnt1 == tcora
  let tcsr := if hitA then tcsr ||| 0x40#8 else tcsr
  let tcnt2 := if hitA && t.clearedBy == 1 then 0#8 else tcnt1
  let reqA := if hitA && t.cmia then [36#8] else []
  -- CMFB
  let hitB := tcnt2 == tcorb
  let tcsr := if hitB then tcsr ||| 0x80#8 else tcsr
  let tcnt3 := if hitB && t.clearedBy == 2 then 0#8 else tcnt2
  let reqB := if hitB && t.cmib then [37#8] else []
  -- OVF
  let tcsr := if overflowed then tcsr ||| 0x20#8 else tcsr
  let reqO := if overflowed && t.ovi then [39#8] else []
  let io2 := (b.io2.set (io2Index Gen.TCNT0_8) tcnt3).set (io2Index Gen.TCSR0_8) tcsr
  ({ b with io2 := io2 }, reqA ++ reqB ++ reqO)

def Bus.timerTicks : Nat → Bus → List (BitVec 8) → Bus × List (BitVec 8)
  | 0, b, acc => (b, acc)
  | n + 1, b, acc => let (b', r) := b.timerTick; Bus.timerTicks n b' (acc ++ r)

/-- `Timer8_0::update_timer8_0` (= `ModuleManager::update_modules`): charge `state` states. -/
def Bus.updateModules (b : Bus) (state : Nat) : Bus × List (BitVec 8) :=
  let t := b.timer
  if t.prescaler = 0 then (b, []) else
  let st := t.state + state
  let count := st / t.prescaler
  let b := { b with timer := { t with state := st - t.prescaler * count } }
  Bus.timerTicks count b []

end H8
