/-
  Model of `Cpu::run` (src/cpu.rs) — the loop around one instruction — of the control-line parser in it
  and in src/cpu/messages.rs (`parse_u8`, `parse_ioport`), and of the outgoing framing of
  src/socket.rs (`start_send_worker`).  Wall-clock pacing (the 1 ms sleeps) is not modelled: it reads no
  emulator state and writes none (the variables `count_1msec`, `sleep_time`, `loop_time` feed nothing else).
-/
import H8.Model.Exec
namespace H8.Run
open H8

/-! ## control lines -/

/-- `u32::from_str_radix(s, 16)` / `u8::from_str_radix(s, 16)` with the given bound: an optional leading
    `+`, then at least one hex digit, value below `bound`; anything else is an error -/
def hexDigit (c : Char) : Option Nat :=
  if '0' ≤ c ∧ c ≤ '9' then some (c.toNat - '0'.toNat)
  else if 'a' ≤ c ∧ c ≤ 'f' then some (c.toNat - 'a'.toNat + 10)
  else if 'A' ≤ c ∧ c ≤ 'F' then some (c.toNat - 'A'.toNat + 10)
  else none

def hexDigits (bound : Nat) : List Char → Nat → Option Nat
  | [], acc => some acc
  | c :: cs, acc =>
    match hexDigit c with
    | none => none
    | some d => let v := acc * 16 + d; if v < bound then hexDigits bound cs v else none

def fromStrRadix16 (bound : Nat) (s : List Char) : Option Nat :=
  match s with
  | [] => none
  | ['+'] => none
  | ['-'] => none
  | '+' :: cs => hexDigits bound cs 0
  | cs => hexDigits bound cs 0

/-- `str::split(':')` -/
def splitColon : List Char → List (List Char)
  | [] => [[]]
  | c :: cs =>
    match splitColon cs with
    | [] => [[]]       -- unreachable
    | f :: fs => if c == ':' then [] :: f :: fs else (c :: f) :: fs

/-- what one received line makes the loop do -/
inductive Ctl where
  | pause | start | stop
  | u8 (addr value : Nat)
  | ioport (port value : Nat)
  | ignore
  deriving Repr, DecidableEq

def parseLine (line : List Char) : Ctl :=
  match splitColon line with
  | [['c', 'm', 'd'], a] =>
    if a == "pause".toList then .pause else if a == "start".toList then .start
    else if a == "stop".toList then .stop else .ignore
  | [['u', '8'], a, v] =>
    match fromStrRadix16 (2 ^ 32) a, fromStrRadix16 256 v with
    | some a, some v => .u8 a v
    | _, _ => .ignore
  | [['i', 'o', 'p', 'o', 'r', 't'], p, v] =>
    match fromStrRadix16 256 p, fromStrRadix16 256 v with
    | some p, some v => .ioport p v
    | _, _ => .ignore
  | _ => .ignore

/-! ## the loop -/

structure St where
  cpu : Cpu
  paused : Bool := false
  sync : Nat := 0            -- sync_count

instance : Inhabited St := ⟨{ cpu := { bus := Bus.zero } }⟩

inductive End where
  | running | stopped | finished | error | panic
  deriving Repr, DecidableEq, Inhabited

/-- apply one control line (`stopped` ends the run; later lines of the batch are never looked at) -/
def applyCtl (s : St) (c : Ctl) : St × End :=
  match c with
  | .pause => ({ s with paused := true }, .running)
  | .start => ({ s with paused := false }, .running)
  | .stop => (s, .stopped)
  | .u8 a v =>
    -- parse_u8: a failing bus write is logged and ignored
    match s.cpu.bus.write (BitVec.ofNat 32 a) (BitVec.ofNat 8 v) with
    | .ok b => ({ s with cpu := { s.cpu with bus := b } }, .running)
    | .err => (s, .running)
    | .panic => (s, .panic)
  | .ioport p v => ({ s with cpu := { s.cpu with bus := s.cpu.bus.writePort p (BitVec.ofNat 8 v) } }, .running)
  | .ignore => (s, .running)

def applyBatch (s : St) : List (List Char) → St × End
  | [] => (s, .running)
  | l :: ls =>
    match applyCtl s (parseLine l) with
    | (s', .running) => applyBatch s' ls
    | r => r

/-- `send_message` at Cpu level: the log shared with the bus -/
def sendMsg (c : Cpu) (m : String) : Cpu := { c with bus := c.bus.sendMessage m }

/-- the accounting after an instruction that was charged `state` (already multiplied): state_sum,
    the bus's copy, sync_count / sync message -/
def account (s : St) (state : Nat) : St :=
  let sum := s.cpu.stateSum + state
  let cpu := { s.cpu with stateSum := sum, bus := { s.cpu.bus with stateSum := sum } }
  let sync := s.sync + state
  if sync ≥ Gen.SYNC_MESSAGE_INTERVAL then
    { s with cpu := sendMsg cpu s!"sync:{sum}", sync := sync - Gen.SYNC_MESSAGE_INTERVAL }
  else { s with cpu := cpu, sync := sync }

/-- the part of one loop iteration after the socket lines: interrupt, fetch, exec, accounting,
    modules, exit test -/
def iterate (s : St) : St × End :=
  match tryInterrupt s.cpu with
  | .err => (s, .error)
  | .panic => (s, .panic)
  | .ok _ c1 =>
    match step c1 with
    | .err => ({ s with cpu := c1 }, .error)
    | .panic => ({ s with cpu := c1 }, .panic)
    | .ok cost c2 =>
      let state := cost.toNat * 3                  -- `u16::from(state) * 3`
      let s := account { s with cpu := c2 } state
      let (b, reqs) := s.cpu.bus.updateModules state
      let cpu := { s.cpu with bus := b, pending := s.cpu.pending ++ reqs }
      let s := { s with cpu := cpu }
      if cpu.pc == cpu.exitAddr then (s, .finished) else (s, .running)

/-- one full iteration given the lines this poll delivered -/
def iteration (s : St) (batch : List (List Char)) : St × End :=
  match applyBatch s batch with
  | (s, .running) => if s.paused then (s, .running) else iterate s
  | r => r

/-- the part of `run` before the loop: optional `ready`, PC := ER2, `init_registers` -/
def start (c : Cpu) (waitStart : Bool) : Option St :=
  let c := if waitStart then sendMsg c "ready" else c
  let c := { c with pc := (c.regs >>> 64).setWidth 32 }
  let w (b : Option Bus) (a : Nat) (v : Nat) : Option Bus :=
    b.bind fun b => match b.write (BitVec.ofNat 32 a) (BitVec.ofNat 8 v) with | .ok b => some b | _ => none
  let b := w (w (w (w (w (some c.bus) Gen.ABWCR 0xff) Gen.ASTCR 0xfb) Gen.WCRH 0xff) Gen.WCRL 0xcf) Gen.DRCRA 0xe0
  b.map fun b => { cpu := { c with bus := b }, paused := waitStart }

/-- the socket as the loop sees it: a queue of received lines and the planned batch sizes (an exhausted
    plan delivers everything that is queued) -/
def takeBatch (queue : List (List Char)) (plan : List Nat) : List (List Char) × List (List Char) × List Nat :=
  match plan with
  | [] => (queue, [], [])
  | n :: rest => (queue.take n, queue.drop n, rest)

/-- `run` with a bound on the number of loop iterations (`none` = bound reached) -/
def loop : Nat → St → List (List Char) → List Nat → Option (St × End × List (List Char))
  | 0, _, _, _ => none
  | fuel + 1, s, queue, plan =>
    let (batch, queue, plan) := takeBatch queue plan
    match iteration s batch with
    | (s, .running) => loop fuel s queue plan
    | (s, e) => some (s, e, queue)

/-! ## outgoing framing (`start_send_worker`) -/

/-- `message.replace('\\', "\\\\").replace('\n', "\\n") + "\n"` on characters -/
def escape : List Char → List Char
  | [] => []
  | c :: cs =>
    if c == '\\' then '\\' :: '\\' :: escape cs
    else if c == '\n' then '\\' :: 'n' :: escape cs
    else c :: escape cs

def frame (m : List Char) : List Char := escape m ++ ['\n']

/-- the receiver's inverse -/
def unescape : List Char → List Char
  | [] => []
  | '\\' :: '\\' :: cs => '\\' :: unescape cs
  | '\\' :: 'n' :: cs => '\n' :: unescape cs
  | c :: cs => c :: unescape cs

/-- the two sequential `replace` calls, literally -/
def replaceBackslash : List Char → List Char
  | [] => []
  | c :: cs => if c == '\\' then '\\' :: '\\' :: replaceBackslash cs else c :: replaceBackslash cs

def replaceNewline : List Char → List Char
  | [] => []
  | c :: cs => if c == '\n' then '\\' :: 'n' :: replaceNewline cs else c :: replaceNewline cs

end H8.Run
