/-
  Basic vocabulary shared by Gen (translated from the Rust source), Model and Spec.
  Core + Std only, so that the driver links as a `lean_exe`.
-/
namespace H8

/-- Bus-cycle kinds (`StateType` in src/cpu.rs). -/
inductive Kind where
  | I | J | K | L | M | N
  deriving DecidableEq, Repr, Inhabited

/-- The five backing stores of `Bus` (src/bus.rs). -/
inductive StoreId where
  | vector | dram | ram | io1 | io2
  deriving DecidableEq, Repr, Inhabited

/-- Encoding of a Rust `Result<uN>` / `Result<bool>` as `BitVec (N+1)`: the top bit is the
    error flag (all errors are identified).  `bv_decide` sees through this encoding, which it
    cannot do for `Option`/`Except`. -/
def Rbind_8_8 (r : BitVec 9) (f : BitVec 8 → BitVec 9) : BitVec 9 :=
  if r.getLsbD 8 then 0x100#9 else f (r.setWidth 8)

def Rbind_1_8 (r : BitVec 2) (f : Bool → BitVec 9) : BitVec 9 :=
  if r.getLsbD 1 then 0x100#9 else f (r.getLsbD 0)

def Rbind_8_1 (r : BitVec 9) (f : BitVec 8 → BitVec 2) : BitVec 2 :=
  if r.getLsbD 8 then 0x2#2 else f (r.setWidth 8)

def Rbind_1_1 (r : BitVec 2) (f : Bool → BitVec 2) : BitVec 2 :=
  if r.getLsbD 1 then 0x2#2 else f (r.getLsbD 0)

/-- decode helpers for the encoded results -/
def R8.isErr (r : BitVec 9) : Bool := r.getLsbD 8
def R8.val (r : BitVec 9) : BitVec 8 := r.setWidth 8

end H8
