/-
  C13 / C18 reference, written from the property statements.

  C13: a run executes instructions in order until PC = exit address; the total advances by the amount
  charged for each instruction (3 × its bus-cycle cost — the emulator's fixed "speed adjustment" — the same
  amount everywhere); `sync:<total>` exactly once each time the total passes another multiple of 2,000,000.
  C18: what the received lines mean, and how outgoing messages are framed.
-/
import H8.Spec.Sem
import H8.Spec.Timer
namespace H8.Spec.Run
open H8 H8.Spec

def INTERVAL : Nat := 2000000
def SPEED : Nat := 3

/-! ### C13 -/

structure Acc where
  cpu : Cpu
  total : Nat := 0
  steps : Nat := 0
  tags : List String := []
  tmr : Tmr := {}            -- 8-bit timer channel 0, counted one state at a time (Spec/Timer.lean)
  tcr : BitVec 8 := 0        -- last value of 8TCR0 seen

instance : Inhabited Acc := ⟨{ cpu := { bus := Bus.zero } }⟩

inductive Stop where
  | finished | error (why : String) | fuel
  deriving Repr, Inhabited

def bscOf (b : Bus) : BitVec 8 × BitVec 8 × BitVec 8 × BitVec 8 × BitVec 8 :=
  (peek b 0xfee020, peek b 0xfee021, peek b 0xfee022, peek b 0xfee023, peek b 0xfee026)

/-- bus cycles charged for one executed instruction; a system call is charged as the TRAPA performing it -/
def chargesFor (s : Cpu) (e : Eff) : List (Kind × Nat × BitVec 32) :=
  if e.tags.contains "syscall" then
    let sp := getER s.regs 7
    chargesOf (Form.mix .TRAPA) s.pc 0 ((sp - 4) &&& 0xffffff) 0x20
  else e.charges

def addTags (xs ys : List String) : List String := ys.foldl (fun acc y => if acc.contains y then acc else y :: acc) xs

/-- one instruction of the run -/
def stepRun (a : Acc) : Acc ⊕ Stop :=
  -- instruction boundary: the oldest pending interrupt request is accepted if CCR.I is clear
  let a := match Spec.boundary a.cpu with
    | some (_, e) => { a with cpu := e.cpu, tags := addTags a.tags e.tags }
    | none => a
  match Spec.step a.cpu with
  | .undef => .inr (.error "undef")
  | .unimpl _ => .inr (.error "unimpl")
  | .fetchFault => .inr (.error "fetchfault")
  | .reject _ _ => .inr (.error "reject")
  | .valid _ e =>
    -- charged at the bus-controller settings in force when the instruction completes
    let (abwcr, astcr, wcrh, wcrl, drcra) := bscOf e.cpu.bus
    let charged := SPEED * costOf abwcr astcr wcrh wcrl drcra (chargesFor a.cpu e)
    let total := a.total + charged
    let cpu := { e.cpu with stateSum := total, bus := { e.cpu.bus with stateSum := total } }
    -- passing another multiple of the interval: exactly one sync message, carrying the new total
    let cpu := if total / INTERVAL > a.total / INTERVAL then
        { cpu with bus := { cpu.bus with msgs := s!"sync:{total}" :: cpu.bus.msgs } } else cpu
    -- peripherals see the same amount: the timer advances by `charged` states, one at a time
    let tcr' := peek cpu.bus 0xffff80
    let t : Tmr := if tcr' != a.tcr then a.tmr.writeTcr tcr' else a.tmr
    let t := { t with tcnt := peek cpu.bus 0xffff88, tcsr := peek cpu.bus 0xffff82, tcora := peek cpu.bus 0xffff84,
                      tcorb := peek cpu.bus 0xffff86, reqs := [] }
    let ttags := if t.div != 0 && !t.domain then ["timerdom"] else if (tcr' &&& 7).toNat ≥ 4 then ["timerext"] else []
    let t : Tmr := if t.div == 0 then t else t.states charged
    let bus := poke (poke cpu.bus 0xffff88 t.tcnt) 0xffff82 t.tcsr
    let cpu := { cpu with bus := bus, pending := cpu.pending ++ t.reqs.map (BitVec.ofNat 8) }
    .inl { cpu := cpu, total := total, steps := a.steps + 1, tags := addTags (addTags a.tags e.tags) ttags,
           tmr := { t with reqs := [] }, tcr := tcr' }

partial def runLoop (fuel : Nat) (exit : BitVec 32) (a : Acc) : Acc × Stop :=
  if fuel == 0 then (a, .fuel) else
  match stepRun a with
  | .inr s => (a, s)
  | .inl a' => if a'.cpu.pc == exit then (a', .finished) else runLoop (fuel - 1) exit a'

/-! ### C18: received lines -/

def hexVal? (s : String) (bound : Nat) : Option Nat :=
  let body := if s.startsWith "+" then (s.drop 1).toString else s
  if body.isEmpty then none
  else if !(body.all fun c => c.isDigit || ('a' ≤ c && c ≤ 'f') || ('A' ≤ c && c ≤ 'F')) then none
  else
    let v := body.foldl (fun acc c =>
      acc * 16 + (if c.isDigit then c.toNat - 48 else if 'a' ≤ c && c ≤ 'f' then c.toNat - 87 else c.toNat - 55)) 0
    if v < bound then some v else none

inductive Act where
  | pause | start | stop | store (a v : Nat) | pins (p v : Nat) | nothing
  deriving Repr, DecidableEq

/-- meaning of one received line; anything malformed or unknown means nothing -/
def act (line : String) : Act :=
  match line.splitOn ":" with
  | ["cmd", "pause"] => .pause
  | ["cmd", "start"] => .start
  | ["cmd", "stop"] => .stop
  | ["u8", a, v] => match hexVal? a (2 ^ 32), hexVal? v 256 with | some a, some v => .store a v | _, _ => .nothing
  | ["ioport", p, v] => match hexVal? p 256, hexVal? v 256 with | some p, some v => .pins p v | _, _ => .nothing
  | _ => .nothing

/-- what an observer can tell afterwards: stored bytes (plain memory), pin levels per port, whether the
    run was stopped, how many lines were never reached -/
structure Ctl where
  stores : List (Nat × Nat) := []       -- in order
  pins : List (Nat × Nat) := []
  stopped : Bool := false
  consumed : Nat := 0
  paused : Bool := false

def applyAll (c : Ctl) : List String → Ctl
  | [] => c
  | l :: ls =>
    if c.stopped then c else
    let c := { c with consumed := c.consumed + 1 }
    match act l with
    | .pause => applyAll { c with paused := true } ls
    | .start => applyAll { c with paused := false } ls
    | .stop => { c with stopped := true }
    | .store a v => applyAll { c with stores := c.stores ++ [(a, v)] } ls
    | .pins p v => applyAll { c with pins := c.pins ++ [(p, v)] } ls
    | .nothing => applyAll c ls

/-- the lines as they are handed over poll by poll: `plan` = number of lines per poll; when the plan is used up the
    rest arrives at once -/
def batches (lines : List String) : List Nat → List (List String)
  | [] => [lines]
  | n :: rest => lines.take n :: batches (lines.drop n) rest

/-- Does the guest ever get to execute an instruction?  The lines of a poll are acted on in arrival order; between
    two polls the guest executes iff it is then neither paused nor stopped.  (`cmd:start` followed by `cmd:pause` in
    one poll leaves it paused; the same two lines in two polls let it run in between.) -/
def everRuns (paused : Bool) : List (List String) → Bool
  | [] => !paused
  | b :: bs =>
    let c := applyAll { paused := paused } b
    if c.stopped then false
    else if !c.paused then true
    else everRuns true bs

/-! ### C18: outgoing framing -/

/-- the receiver's view: split the byte stream at newlines, undo the two escapes -/
def unescape : List Char → List Char
  | '\\' :: '\\' :: cs => '\\' :: unescape cs
  | '\\' :: 'n' :: cs => '\n' :: unescape cs
  | c :: cs => c :: unescape cs
  | [] => []

def wireLines (wire : String) : List String :=
  let parts := wire.splitOn "\n"
  -- a well-formed stream ends with a newline: the last part is empty
  (parts.dropLast).map fun p => String.ofList (unescape p.toList)

end H8.Spec.Run
