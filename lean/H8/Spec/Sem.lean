/-
  Spec: reference semantics of the H8/300H instructions, written from the programming manual's
  operation and condition-code sections (DESIGN.md Appendix B) and the property statements.
  Independent of the Rust code, of Gen and of Model: it uses only the shared state records.

  Layout: pure kernels first (flags, ALU, bit operations, branch conditions, effective addresses) —
  these are what the Model is proved equal to — then the state-level `exec`, then `step`.
-/
import H8.State
import H8.Spec.Table
import H8.Spec.BusCost
import H8.Spec.MemMap
namespace H8.Spec
open H8

/-! ## CCR -/

/-- CCR bit numbers: I UI H U N Z V C = 7 … 0 -/
notation "bC" => (0 : Nat)
notation "bV" => (1 : Nat)
notation "bZ" => (2 : Nat)
notation "bN" => (3 : Nat)
notation "bH" => (5 : Nat)
notation "bUI" => (6 : Nat)
notation "bI" => (7 : Nat)

def setFlag (ccr : BitVec 8) (bit : Nat) (v : Bool) : BitVec 8 :=
  if v then ccr ||| (1#8 <<< bit) else ccr &&& ~~~(1#8 <<< bit)

def flag (ccr : BitVec 8) (bit : Nat) : Bool := ccr.getLsbD bit

/-- N and Z from a result, V := 0 (MOV, logic operations) -/
def nzClearV {n : Nat} (r : BitVec n) (ccr : BitVec 8) : BitVec 8 :=
  setFlag (setFlag (setFlag ccr bN r.msb) bZ (r == 0)) bV false

/-! ## ALU kernels (width-generic; the half-carry bit is `n - 5`) -/

/-- carry out of bit `k` of `d + s (+cin)` by the manual's formula: Dk·Sk + Dk·¬Rk + Sk·¬Rk -/
def carryAt {n : Nat} (d s r : BitVec n) (k : Nat) : Bool :=
  (d.getLsbD k && s.getLsbD k) || (d.getLsbD k && !r.getLsbD k) || (s.getLsbD k && !r.getLsbD k)

/-- borrow out of bit `k` of `d - s`: Sk·¬Dk + ¬Dk·Rk + Sk·Rk -/
def borrowAt {n : Nat} (d s r : BitVec n) (k : Nat) : Bool :=
  (s.getLsbD k && !d.getLsbD k) || (!d.getLsbD k && r.getLsbD k) || (s.getLsbD k && r.getLsbD k)

def addFlags {n : Nat} (d s r : BitVec n) (ccr : BitVec 8) : BitVec 8 :=
  let ccr := setFlag ccr bH (carryAt d s r (n - 5))
  let ccr := setFlag ccr bN r.msb
  let ccr := setFlag ccr bZ (r == 0)
  let ccr := setFlag ccr bV ((d.msb && s.msb && !r.msb) || (!d.msb && !s.msb && r.msb))
  setFlag ccr bC (carryAt d s r (n - 1))

def subFlags {n : Nat} (d s r : BitVec n) (ccr : BitVec 8) : BitVec 8 :=
  let ccr := setFlag ccr bH (borrowAt d s r (n - 5))
  let ccr := setFlag ccr bN r.msb
  let ccr := setFlag ccr bZ (r == 0)
  let ccr := setFlag ccr bV ((d.msb && !s.msb && !r.msb) || (!d.msb && s.msb && r.msb))
  setFlag ccr bC (borrowAt d s r (n - 1))

/-- two-operand ALU: (value written back — `none` for CMP —, new CCR) -/
def alu2K {n : Nat} (op : Alu2) (d s : BitVec n) (ccr : BitVec 8) : Option (BitVec n) × BitVec 8 :=
  match op with
  | .add => let r := d + s; (some r, addFlags d s r ccr)
  | .sub => let r := d - s; (some r, subFlags d s r ccr)
  | .cmp => let r := d - s; (none, subFlags d s r ccr)
  | .and => let r := d &&& s; (some r, nzClearV r ccr)
  | .or => let r := d ||| s; (some r, nzClearV r ccr)
  | .xor => let r := d ^^^ s; (some r, nzClearV r ccr)
  | .addx =>
    -- Rd + Rs + C; H and C include the incoming carry; Z is only ever cleared
    let cin : BitVec n := (BitVec.ofBool (flag ccr bC)).setWidth n
    let r := d + s + cin
    let c' := addFlags d s r ccr
    (some r, setFlag c' bZ (flag ccr bZ && r == 0))

/-- one-operand ALU on the low `n` bits of a register: (result, new CCR) -/
def alu1K {n : Nat} (op : Alu1) (d : BitVec n) (ccr : BitVec 8) : BitVec n × BitVec 8 :=
  let nz (r : BitVec n) (c : BitVec 8) := setFlag (setFlag c bN r.msb) bZ (r == 0)
  match op with
  | .not => let r := ~~~d; (r, nzClearV r ccr)
  | .neg =>
    let r := 0 - d
    (r, subFlags (0 : BitVec n) d r ccr)
  | .extu =>
    -- zero-extend the low half
    let r := d &&& ((1 <<< (n / 2)) - 1)
    (r, setFlag (setFlag (setFlag ccr bN false) bZ (r == 0)) bV false)
  | .inc1 => let r := d + 1; (r, setFlag (nz r ccr) bV (!d.msb && r.msb))
  | .inc2 => let r := d + 2; (r, setFlag (nz r ccr) bV (!d.msb && r.msb))
  | .dec1 => let r := d - 1; (r, setFlag (nz r ccr) bV (d.msb && !r.msb))
  | .dec2 => let r := d - 2; (r, setFlag (nz r ccr) bV (d.msb && !r.msb))
  | .shal => let r := d <<< 1; (r, setFlag (setFlag (nz r ccr) bV (d.msb != r.msb)) bC d.msb)
  | .shll => let r := d <<< 1; (r, setFlag (setFlag (nz r ccr) bV false) bC d.msb)
  | .shar => let r := d.sshiftRight 1; (r, setFlag (setFlag (nz r ccr) bV false) bC (d.getLsbD 0))
  | .shlr => let r := d >>> 1; (r, setFlag (setFlag (nz r ccr) bV false) bC (d.getLsbD 0))
  | .rotl => let r := d.rotateLeft 1; (r, setFlag (setFlag (nz r ccr) bV false) bC d.msb)
  | .rotr => let r := d.rotateRight 1; (r, setFlag (setFlag (nz r ccr) bV false) bC (d.getLsbD 0))
  | .rotxl =>
    let r := (d <<< 1) ||| (BitVec.ofBool (flag ccr bC)).setWidth n
    (r, setFlag (setFlag (nz r ccr) bV false) bC d.msb)
  | .rotxr =>
    let r := (d >>> 1) ||| ((BitVec.ofBool (flag ccr bC)).setWidth n <<< (n - 1))
    (r, setFlag (setFlag (nz r ccr) bV false) bC (d.getLsbD 0))

/-! ## bit manipulation kernel -/

/-- (new operand byte, new CCR) -/
def bitK (op : BitOp) (v : BitVec 8) (n : BitVec 3) (ccr : BitVec 8) : BitVec 8 × BitVec 8 :=
  let m : BitVec 8 := 1#8 <<< n
  let b : Bool := ((v >>> n) &&& 1#8) == 1#8
  let c : Bool := flag ccr bC
  match op with
  | .bset => (v ||| m, ccr)
  | .bclr => (v &&& ~~~m, ccr)
  | .bnot => (v ^^^ m, ccr)
  | .bst => (if c then v ||| m else v &&& ~~~m, ccr)
  | .bist => (if !c then v ||| m else v &&& ~~~m, ccr)
  | .btst => (v, setFlag ccr bZ (!b))
  | .bld => (v, setFlag ccr bC b)
  | .bild => (v, setFlag ccr bC (!b))
  | .band => (v, setFlag ccr bC (c && b))
  | .biand => (v, setFlag ccr bC (c && !b))
  | .bor => (v, setFlag ccr bC (c || b))
  | .bior => (v, setFlag ccr bC (c || !b))
  | .bxor => (v, setFlag ccr bC (c != b))
  | .bixor => (v, setFlag ccr bC (c != !b))

def BitOp.writes : BitOp → Bool
  | .bset | .bclr | .bnot | .bst | .bist => true
  | _ => false

/-! ## branch conditions -/

def cond (c : BitVec 4) (ccr : BitVec 8) : Bool :=
  let C := flag ccr bC; let V := flag ccr bV; let Z := flag ccr bZ; let N := flag ccr bN
  match c.toNat with
  | 0 => true            -- BRA
  | 1 => false           -- BRN
  | 2 => !(C || Z)       -- BHI
  | 3 => C || Z          -- BLS
  | 4 => !C              -- BCC
  | 5 => C               -- BCS
  | 6 => !Z              -- BNE
  | 7 => Z               -- BEQ
  | 8 => !V              -- BVC
  | 9 => V               -- BVS
  | 10 => !N             -- BPL
  | 11 => N              -- BMI
  | 12 => !(N != V)      -- BGE
  | 13 => N != V         -- BLT
  | 14 => !(Z || (N != V))   -- BGT
  | _ => Z || (N != V)       -- BLE

/-! ## registers -/

def getER (r : Regs) (i : BitVec 3) : BitVec 32 :=
  match i.toNat with
  | 0 => r.extractLsb' 0 32 | 1 => r.extractLsb' 32 32 | 2 => r.extractLsb' 64 32
  | 3 => r.extractLsb' 96 32 | 4 => r.extractLsb' 128 32 | 5 => r.extractLsb' 160 32
  | 6 => r.extractLsb' 192 32 | _ => r.extractLsb' 224 32

def setER (r : Regs) (i : BitVec 3) (v : BitVec 32) : Regs :=
  let put (k : Nat) : Regs := (r &&& ~~~(0xffffffff#256 <<< k)) ||| (v.setWidth 256 <<< k)
  match i.toNat with
  | 0 => put 0 | 1 => put 32 | 2 => put 64 | 3 => put 96
  | 4 => put 128 | 5 => put 160 | 6 => put 192 | _ => put 224

def lo3 (r : BitVec 4) : BitVec 3 := r.setWidth 3

/-- byte register: 0–7 = RnH (bits 15–8 of ERn), 8–15 = RnL (bits 7–0) -/
def getR8 (r : Regs) (i : BitVec 4) : BitVec 8 :=
  let e := getER r (lo3 i)
  if i.getLsbD 3 then e.extractLsb' 0 8 else e.extractLsb' 8 8

def setR8 (r : Regs) (i : BitVec 4) (v : BitVec 8) : Regs :=
  let e := getER r (lo3 i)
  let e' := if i.getLsbD 3 then (e &&& 0xffffff00#32) ||| v.setWidth 32
            else (e &&& 0xffff00ff#32) ||| (v.setWidth 32 <<< 8)
  setER r (lo3 i) e'

/-- word register: 0–7 = Rn (low half of ERn), 8–15 = En (high half) -/
def getR16 (r : Regs) (i : BitVec 4) : BitVec 16 :=
  let e := getER r (lo3 i)
  if i.getLsbD 3 then e.extractLsb' 16 16 else e.extractLsb' 0 16

def setR16 (r : Regs) (i : BitVec 4) (v : BitVec 16) : Regs :=
  let e := getER r (lo3 i)
  let e' := if i.getLsbD 3 then (e &&& 0x0000ffff#32) ||| (v.setWidth 32 <<< 16)
            else (e &&& 0xffff0000#32) ||| v.setWidth 32
  setER r (lo3 i) e'

/-- read a register operand of the given size, zero-extended to 32 bits -/
def getReg (sz : Sz) (r : Regs) (i : BitVec 4) : BitVec 32 :=
  match sz with
  | .B => (getR8 r i).setWidth 32
  | .W => (getR16 r i).setWidth 32
  | .L => getER r (lo3 i)

def setReg (sz : Sz) (r : Regs) (i : BitVec 4) (v : BitVec 32) : Regs :=
  match sz with
  | .B => setR8 r i (v.setWidth 8)
  | .W => setR16 r i (v.setWidth 16)
  | .L => setER r (lo3 i) v

/-! ## effective addresses (24-bit) -/

/-- address designated by a memory operand, before any register update; for `@-ERn` the
    address is that of the already decremented register -/
def eaOf (sz : Sz) (r : Regs) : EA → BitVec 24
  | .ind n => (getER r n).setWidth 24
  | .disp16 n d => (getER r n).setWidth 24 + d.signExtend 24
  | .disp24 n d => (getER r n).setWidth 24 + d
  | .postinc n => (getER r n).setWidth 24
  | .predec n => ((getER r n) - BitVec.ofNat 32 sz.bytes).setWidth 24
  | .abs8 a => 0xffff00#24 ||| a.setWidth 24
  | .abs16 a => a.signExtend 24
  | .abs24 a => a

/-- register file after the access: `@ERn+` adds, `@-ERn` subtracts the operand size (full 32 bits) -/
def eaRegs (sz : Sz) (r : Regs) : EA → Regs
  | .postinc n => setER r n (getER r n + BitVec.ofNat 32 sz.bytes)
  | .predec n => setER r n (getER r n - BitVec.ofNat 32 sz.bytes)
  | _ => r

/-! ## memory as seen by the Spec: the five regions of C09, raw cells, no side effects -/

inductive Region where | vec | dram | io1 | ram | io2 | none
  deriving DecidableEq, Repr

def regionOf (a : Nat) : Region :=
  if a ≤ 0xff then .vec
  else if 0x400000 ≤ a ∧ a ≤ 0x5fffff then .dram
  else if 0xfee000 ≤ a ∧ a ≤ 0xfee0ff then .io1
  else if 0xffbf20 ≤ a ∧ a ≤ 0xffff1f then .ram
  else if 0xffff20 ≤ a ∧ a ≤ 0xffffe9 then .io2
  else .none

def peek (b : Bus) (a : Nat) : BitVec 8 :=
  match regionOf a with
  | .vec => b.vector.get a
  | .dram => b.dram.get (a - 0x400000)
  | .io1 => b.io1.get (a - 0xfee000)
  | .ram => b.ram.get (a - 0xffbf20)
  | .io2 => b.io2.get (a - 0xffff20)
  | .none => 0

def poke (b : Bus) (a : Nat) (v : BitVec 8) : Bus :=
  match regionOf a with
  | .vec => { b with vector := b.vector.set a v }
  | .dram => { b with dram := b.dram.set (a - 0x400000) v }
  | .io1 => { b with io1 := b.io1.set (a - 0xfee000) v }
  | .ram => { b with ram := b.ram.set (a - 0xffbf20) v }
  | .io2 => { b with io2 := b.io2.set (a - 0xffff20) v }
  | .none => b

/-- registers whose CPU writes have peripheral side effects (ports C16, timer control C17) -/
def isSfr (a : Nat) : Bool :=
  (0xfee000 ≤ a ∧ a ≤ 0xfee00a) || (0xffffd0 ≤ a ∧ a ≤ 0xffffda) || a == 0xffff80

/-- consecutive byte addresses of an access, modulo 2^24 -/
def bytesAt (a : BitVec 24) (n : Nat) : List Nat := (List.range n).map (fun k => (a.toNat + k) % 2 ^ 24)

/-- big-endian load of `n` bytes -/
def loadBE (b : Bus) (a : BitVec 24) (n : Nat) : BitVec 32 :=
  (bytesAt a n).foldl (fun acc x => (acc <<< 8) ||| (peek b x).setWidth 32) 0

/-- big-endian store of the low `n` bytes of `v` -/
def storeBE (b : Bus) (a : BitVec 24) (n : Nat) (v : BitVec 32) : Bus :=
  ((bytesAt a n).zipIdx).foldl (fun bus (x, k) => poke bus x ((v >>> (8 * (n - 1 - k))).setWidth 8)) b

/-- domain tags of a data access -/
def accessTags (a : BitVec 24) (n : Nat) (write : Bool) : List String :=
  let bs := bytesAt a n
  (if bs.any (fun x => regionOf x == .none) then ["unmapped"] else []) ++
  (if bs.any (fun x => regionOf x == .io1 || regionOf x == .io2) then ["io"] else []) ++
  (if write && bs.any isSfr then ["sfr"] else []) ++
  (if n > 1 ∧ a.toNat % 2 = 1 then ["oddaddr"] else [])

/-! ## state-level semantics -/

/-- Effects of one instruction as the Spec prescribes them. -/
structure Eff where
  cpu : Cpu
  /-- (kind, address) of the bus cycles charged, with the mix's counts: cost = Σ count·cost1 -/
  charges : List (Kind × Nat × BitVec 32) := []
  /-- reasons why the case lies outside a property's stated domain -/
  tags : List String := []
  /-- locations the Spec leaves open: "ui" (CCR.UI), "m:<addr>" (one memory byte), "stcw:<addr>" -/
  dc : List String := []

inductive StepRes where
  | undef                                   -- undefined encoding: unconstrained
  | unimpl (f : Form)                       -- must stop with an error
  | fetchFault                              -- instruction bytes not in mapped memory: must be an error
  | reject (f : Form) (why : String)        -- valid form whose execution must end in an error
  | valid (f : Form) (e : Eff)

def szBits : Sz → Nat | .B => 8 | .W => 16 | .L => 32

/-- run a width-generic kernel at the operand size -/
def alu2At (op : Alu2) (sz : Sz) (d s : BitVec 32) (ccr : BitVec 8) : Option (BitVec 32) × BitVec 8 :=
  match sz with
  | .B => let (r, c) := alu2K op (d.setWidth 8) (s.setWidth 8) ccr; (r.map (·.setWidth 32), c)
  | .W => let (r, c) := alu2K op (d.setWidth 16) (s.setWidth 16) ccr; (r.map (·.setWidth 32), c)
  | .L => alu2K op d s ccr

def alu1At (op : Alu1) (sz : Sz) (d : BitVec 32) (ccr : BitVec 8) : BitVec 32 × BitVec 8 :=
  match sz with
  | .B => let (r, c) := alu1K op (d.setWidth 8) ccr; (r.setWidth 32, c)
  | .W => let (r, c) := alu1K op (d.setWidth 16) ccr; (r.setWidth 32, c)
  | .L => alu1K op d ccr

def movFlags (sz : Sz) (v : BitVec 32) (ccr : BitVec 8) : BitVec 8 :=
  match sz with
  | .B => nzClearV (v.setWidth 8) ccr
  | .W => nzClearV (v.setWidth 16) ccr
  | .L => nzClearV v ccr

def z24 (a : BitVec 24) : BitVec 32 := a.setWidth 32

/-- address register of a memory operand, if any -/
def EA.reg? : EA → Option (BitVec 3)
  | .ind n | .disp16 n _ | .disp24 n _ | .postinc n | .predec n => some n
  | _ => none

def EA.isIncDec : EA → Bool
  | .postinc _ | .predec _ => true
  | _ => false

/-- does data register `i` (of size `sz`) overlap address register `n`? -/
def overlaps (i : BitVec 4) (n : BitVec 3) : Bool := lo3 i == n

/-- do the four bytes at `a` and the four bytes at `b` share an address?  (A stack frame pushed onto the vector that
    is read by the same instruction: the manual does not say which happens first — left open, tag `overlap`.) -/
def overlap4 (a b : BitVec 24) : Bool :=
  (List.range 4).any fun i => (List.range 4).any fun j => (a.toNat + i) % 2 ^ 24 == (b.toNat + j) % 2 ^ 24

/-- push a 32-bit frame: SP := SP − 4 (full 32 bits), frame at the low 24 bits of the new SP -/
def push32 (s : Cpu) (v : BitVec 32) : Cpu × BitVec 24 :=
  let sp := getER s.regs 7 - 4
  let a : BitVec 24 := sp.setWidth 24
  ({ s with regs := setER s.regs 7 sp, bus := storeBE s.bus a 4 v }, a)

def pop32 (s : Cpu) : Cpu × BitVec 32 × BitVec 24 :=
  let sp := getER s.regs 7
  let a : BitVec 24 := sp.setWidth 24
  ({ s with regs := setER s.regs 7 (sp + 4) }, loadBE s.bus a 4, a)

def low24 (v : BitVec 32) : BitVec 32 := v &&& 0x00ffffff#32

/-- `count` cycles of `kind` at `addr`, omitted when the count is 0 -/
def chg (kind : Kind) (count : Nat) (addr : BitVec 32) : List (Kind × Nat × BitVec 32) :=
  if count = 0 then [] else [(kind, count, addr)]

/-- charges of a form: I at the instruction, L/M at the operand, K at the stack, J at the vector -/
def chargesOf (mix : Mix) (pc0 : BitVec 32) (ea : BitVec 32) (stack : BitVec 32) (vec : BitVec 32) :
    List (Kind × Nat × BitVec 32) :=
  chg .I mix.i pc0 ++ chg .J mix.j vec ++ chg .K mix.k stack ++ chg .L mix.l ea ++ chg .M mix.m ea ++ chg .N mix.n pc0

/-- MES system call performed by `TRAPA #0` (C14): 104 = write, 113 = set_handler -/
def syscall (s : Cpu) : Option (Cpu × List String × List String) :=
  let id := getER s.regs 0
  let argp : BitVec 24 := (getER s.regs 1).setWidth 24
  if id == 104 then
    let buf : BitVec 24 := (loadBE s.bus (argp + 4) 4).setWidth 24
    let len := (loadBE s.bus (argp + 8) 4).toNat
    -- longer than the largest mapped region: necessarily leaves mapped memory (outside the statement)
    if len > 0x200000 then some (s, ["unmapped"], []) else
    let bytes := (List.range len).map (fun k => peek s.bus ((buf.toNat + k) % 2 ^ 24))
    let tags :=
      accessTags argp 12 false ++
      (if (List.range len).any (fun k => regionOf ((buf.toNat + k) % 2 ^ 24) == .none) then ["unmapped"] else []) ++
      (if (loadBE s.bus (argp + 4) 4).toNat + len > 2 ^ 24 then ["wrap"] else []) ++
      (if (getER s.regs 1).toNat + 12 > 2 ^ 24 then ["wrap"] else [])
    match String.fromUTF8? (ByteArray.mk (bytes.map (fun b => b.toNat.toUInt8)).toArray) with
    | some str =>
      some ({ s with out := str :: s.out, bus := { s.bus with msgs := ("stdout:" ++ str) :: s.bus.msgs } }, tags, [])
    | none => some (s, "badutf8" :: tags, [])
  else if id == 113 then
    let v := loadBE s.bus argp 4
    let addr := loadBE s.bus (argp + 4) 4
    let tags := accessTags argp 8 false ++ (if (getER s.regs 1).toNat + 8 > 2 ^ 24 then ["wrap"] else [])
    if 1 ≤ v.toNat ∧ v.toNat ≤ 63 then
      -- the vector entry's low 24 bits become `addr`; how MES stores it (and its GOT bookkeeping at
      -- H'FFFD10+4v) is left open: only "a later interrupt of that vector enters addr" is required
      let va : BitVec 24 := BitVec.ofNat 24 (4 * v.toNat)
      let ga : BitVec 24 := BitVec.ofNat 24 (0xfffd10 + 4 * v.toNat)
      let bus := storeBE s.bus va 4 ((addr &&& 0x00ffffff#32) ||| 0x5a000000#32)
      let bus := storeBE bus ga 4 (getER s.regs 5)
      let hx (n : Nat) : String := String.ofList (Nat.toDigits 16 n)
      some ({ s with bus := bus }, "sethandler" :: tags,
        [s!"m:{hx (4 * v.toNat)}"] ++ (List.range 4).map (fun k => s!"m:{hx (0xfffd10 + 4 * v.toNat + k)}"))
    else some (s, tags, [])
  else none

/-- Semantics of one decoded instruction. `pc0` = address of the instruction, `len` = its length in
    bytes; `s.pc` is not consulted. -/
def exec (f : Form) (i : Instr) (pc0 : BitVec 32) (len : Nat) (s : Cpu) : StepRes :=
  let next : BitVec 32 := pc0 + BitVec.ofNat 32 len
  let mix := f.mix
  let fin (s' : Cpu) (ea stack vec : BitVec 32) (tags dc : List String) : StepRes :=
    .valid f { cpu := s', charges := chargesOf mix pc0 ea stack vec, tags := tags, dc := dc }
  match i with
  | .mov sz src dst =>
    let n := sz.bytes
    match src, dst with
    | .reg rs, .reg rd =>
      let v := getReg sz s.regs rs
      fin { s with regs := setReg sz s.regs rd v, ccr := movFlags sz v s.ccr, pc := next } 0 0 0 [] []
    | .imm v, .reg rd =>
      fin { s with regs := setReg sz s.regs rd v, ccr := movFlags sz v s.ccr, pc := next } 0 0 0 [] []
    | .mem ea, .reg rd =>
      let a := eaOf sz s.regs ea
      let v := loadBE s.bus a n
      let regs := eaRegs sz s.regs ea
      let tags := accessTags a n false ++
        (match ea.reg? with | some r => if ea.isIncDec && overlaps rd r then ["overlap"] else [] | none => [])
      fin { s with regs := setReg sz regs rd v, ccr := movFlags sz v s.ccr, pc := next } (z24 a) 0 0 tags []
    | .reg rs, .mem ea =>
      let a := eaOf sz s.regs ea
      let v := getReg sz s.regs rs
      let regs := eaRegs sz s.regs ea
      let tags := accessTags a n true ++
        (match ea.reg? with | some r => if ea.isIncDec && overlaps rs r then ["overlap"] else [] | none => [])
      fin { s with regs := regs, bus := storeBE s.bus a n v, ccr := movFlags sz v s.ccr, pc := next } (z24 a) 0 0 tags []
    | _, _ => .undef
  | .alu2 op sz src rd =>
    let sv := match src with | .reg rs => getReg sz s.regs rs | .imm v => v | .mem _ => 0
    let d := getReg sz s.regs rd
    let (r, ccr) := alu2At op sz d sv s.ccr
    let regs := match r with | some v => setReg sz s.regs rd v | none => s.regs
    fin { s with regs := regs, ccr := ccr, pc := next } 0 0 0 [] []
  | .alu1 op sz rd =>
    let d := getReg sz s.regs rd
    let (r, ccr) := alu1At op sz d s.ccr
    fin { s with regs := setReg sz s.regs rd r, ccr := ccr, pc := next } 0 0 0 [] []
  | .adds k rd => fin { s with regs := setER s.regs rd (getER s.regs rd + k), pc := next } 0 0 0 [] []
  | .subs k rd => fin { s with regs := setER s.regs rd (getER s.regs rd - k), pc := next } 0 0 0 [] []
  | .mulxu sz rs rd =>
    match sz with
    | .B =>
      -- Rd(16) := RdL × Rs(8), unsigned; no flag
      let a := (getR16 s.regs rd).setWidth 8
      let r : BitVec 16 := a.setWidth 16 * (getR8 s.regs rs).setWidth 16
      fin { s with regs := setR16 s.regs rd r, pc := next } 0 0 0 [] []
    | _ =>
      let a := (getER s.regs (lo3 rd)).setWidth 16
      let r : BitVec 32 := a.setWidth 32 * (getR16 s.regs rs).setWidth 32
      fin { s with regs := setER s.regs (lo3 rd) r, pc := next } 0 0 0 [] []
  | .divxu sz rs rd =>
    match sz with
    | .B =>
      let d := getR16 s.regs rd
      let v := getR8 s.regs rs
      let q := d / v.setWidth 16
      let rem := d % v.setWidth 16
      let tags := (if v == 0 then ["divzero"] else []) ++ (if decide (q.toNat > 0xff) then ["divovf"] else [])
      let ccr := setFlag (setFlag s.ccr bN v.msb) bZ (v == 0)
      fin { s with regs := setR16 s.regs rd ((rem <<< 8) ||| (q &&& 0xff)), ccr := ccr, pc := next } 0 0 0 tags []
    | _ =>
      let d := getER s.regs (lo3 rd)
      let v := getR16 s.regs rs
      let q := d / v.setWidth 32
      let rem := d % v.setWidth 32
      let tags := (if v == 0 then ["divzero"] else []) ++ (if decide (q.toNat > 0xffff) then ["divovf"] else [])
      let ccr := setFlag (setFlag s.ccr bN v.msb) bZ (v == 0)
      fin { s with regs := setER s.regs (lo3 rd) ((rem <<< 16) ||| (q &&& 0xffff)), ccr := ccr, pc := next } 0 0 0 tags []
  | .bit op loc sel =>
    let n : BitVec 3 := match sel with | .imm k => k | .reg r => (getR8 s.regs r).setWidth 3
    match loc with
    | .reg r =>
      let (v', ccr) := bitK op (getR8 s.regs r) n s.ccr
      fin { s with regs := setR8 s.regs r v', ccr := ccr, pc := next } 0 0 0 [] []
    | .ind e =>
      let a : BitVec 24 := (getER s.regs e).setWidth 24
      let (v', ccr) := bitK op (peek s.bus a.toNat) n s.ccr
      let bus := if op.writes then poke s.bus a.toNat v' else s.bus
      fin { s with bus := bus, ccr := ccr, pc := next } (z24 a) 0 0 (accessTags a 1 op.writes) []
    | .abs8 aa =>
      let a : BitVec 24 := 0xffff00#24 ||| aa.setWidth 24
      let (v', ccr) := bitK op (peek s.bus a.toNat) n s.ccr
      let bus := if op.writes then poke s.bus a.toNat v' else s.bus
      fin { s with bus := bus, ccr := ccr, pc := next } (z24 a) 0 0 (accessTags a 1 op.writes) []
  | .bcc c disp =>
    let t := next + disp
    if cond c s.ccr then
      let tags := (if t.getLsbD 0 then ["oddtarget"] else []) ++
        (if decide (next.toNat + disp.toInt.toNat ≥ 2 ^ 24 ∧ disp.toInt ≥ 0) ∨ decide (disp.toInt < 0 ∧ next.toNat < (-disp.toInt).toNat)
          then ["pcwrap"] else [])
      fin { s with pc := low24 t } 0 0 0 tags []
    else fin { s with pc := next } 0 0 0 [] []
  | .jmp t =>
    match t with
    | .reg r => fin { s with pc := low24 (getER s.regs r) } 0 0 0 [] []
    | .abs24 a => fin { s with pc := z24 a } 0 0 0 [] []
    | .memind aa =>
      let va : BitVec 24 := aa.setWidth 24
      fin { s with pc := low24 (loadBE s.bus va 4) } 0 0 (z24 va) (accessTags va 4 false) []
  | .jsr t =>
    let (s1, fa) := push32 s next
    let tags := accessTags fa 4 true
    let dc := [s!"m:{String.ofList (Nat.toDigits 16 fa.toNat)}"]   -- top byte of the frame is reserved
    match t with
    | .reg r =>
      -- the manual's operation is sequential — PC → @−SP, then EAd → PC — so JSR @ER7 jumps to the decremented SP
      fin { s1 with pc := low24 (getER s1.regs r) } 0 (z24 fa) 0 tags dc
    | .abs24 a => fin { s1 with pc := z24 a } 0 (z24 fa) 0 tags dc
    | .memind aa =>
      let va : BitVec 24 := aa.setWidth 24
      fin { s1 with pc := low24 (loadBE s.bus va 4) } 0 (z24 fa) (z24 va)
        (tags ++ accessTags va 4 false ++ (if overlap4 fa va then ["overlap"] else [])) dc
  | .bsr disp =>
    let (s1, fa) := push32 s next
    let t := next + disp
    let tags := accessTags fa 4 true ++ (if t.getLsbD 0 then ["oddtarget"] else []) ++
      (if decide (t.toNat ≥ 2 ^ 24) then ["pcwrap"] else [])
    fin { s1 with pc := low24 t } 0 (z24 fa) 0 tags [s!"m:{String.ofList (Nat.toDigits 16 fa.toNat)}"]
  | .rts =>
    let (s1, v, fa) := pop32 s
    fin { s1 with pc := low24 v } 0 (z24 fa) 0 (accessTags fa 4 false) []
  | .rte =>
    let (s1, v, fa) := pop32 s
    fin { s1 with pc := low24 v, ccr := (v >>> 24).setWidth 8 } 0 (z24 fa) 0 (accessTags fa 4 false) []
  | .trapa n =>
    if n == 0 then
      match syscall s with
      | some (s', tags, dc) =>
        -- system call: not a hardware instruction; its cost is outside C20
        .valid f { cpu := { s' with pc := next }, charges := [], tags := "syscall" :: tags, dc := dc }
      | none => .reject f "unsupported system call"
    else
      let frame := (s.ccr.setWidth 32 <<< 24) ||| low24 next
      let (s1, fa) := push32 s frame
      let va : BitVec 24 := BitVec.ofNat 24 (0x20 + 4 * n.toNat)
      let tgt := low24 (loadBE s.bus va 4)
      fin { s1 with pc := tgt, ccr := setFlag s.ccr bI true } 0 (z24 fa) (z24 va)
        (accessTags fa 4 true ++ accessTags va 4 false ++ (if overlap4 fa va then ["overlap"] else [])) ["ui"]
  | .stcB rd => fin { s with regs := setR8 s.regs rd s.ccr, pc := next } 0 0 0 [] []
  | .stcW ea =>
    let a := eaOf .W s.regs ea
    let regs := eaRegs .W s.regs ea
    let w : BitVec 32 := (s.ccr.setWidth 32 <<< 8) ||| s.ccr.setWidth 32
    fin { s with regs := regs, bus := storeBE s.bus a 2 w, pc := next } (z24 a) 0 0 (accessTags a 2 true)
      [s!"stcw:{String.ofList (Nat.toDigits 16 a.toNat)}"]

/-- Interrupt / exception entry through vector `v` (C06): frame CCR‖PC24 at SP−4, I := 1, PC from the
    low 24 bits of the long at 4·v.  UI is left open. -/
def interruptEntry (s : Cpu) (v : BitVec 8) : Eff :=
  let frame := (s.ccr.setWidth 32 <<< 24) ||| low24 s.pc
  let (s1, fa) := push32 s frame
  let va : BitVec 24 := BitVec.ofNat 24 (4 * v.toNat)
  let tgt := low24 (loadBE s.bus va 4)
  { cpu := { s1 with pc := tgt, ccr := setFlag s.ccr bI true },
    tags := accessTags fa 4 true ++ accessTags va 4 false ++ (if overlap4 fa va then ["overlap"] else []), dc := ["ui"] }

/-- Instruction boundary (C10): the oldest pending request is accepted iff CCR.I is clear. -/
def boundary (s : Cpu) : Option (BitVec 8 × Eff) :=
  match s.pending with
  | [] => none
  | v :: rest => if flag s.ccr bI then none else some (v, interruptEntry { s with pending := rest } v)

/-- instruction word at an even address; `none` if one of its bytes is unmapped -/
def fetchWord (b : Bus) (a : Nat) : Option (BitVec 16) :=
  if regionOf (a % 2 ^ 24) == .none ∨ regionOf ((a + 1) % 2 ^ 24) == .none then none
  else some (((peek b (a % 2 ^ 24)).setWidth 16 <<< 8) ||| (peek b ((a + 1) % 2 ^ 24)).setWidth 16)

/-- Decode and execute the instruction at `s.pc`. -/
def step (s : Cpu) : StepRes :=
  let pc := s.pc.toNat
  let w (k : Nat) : Option (BitVec 16) := fetchWord s.bus (pc + 2 * k)
  let g (k : Nat) : BitVec 16 := (w k).getD 0
  if pc ≥ 2 ^ 24 ∨ pc % 2 = 1 then .fetchFault else
  match w 0 with
  | none => .fetchFault
  | some w0 =>
    let f := classify w0 (g 1) (g 2) (g 3) (g 4)
    -- all words of the instruction must be fetchable
    if (List.range f.len).any (fun k => (w k).isNone) then .fetchFault else
    match f.status with
    | .undefined => .undef
    | .unimplemented => .unimpl f
    | .valid =>
      match instrOf f w0 (g 1) (g 2) (g 3) (g 4) with
      | none => .undef
      | some i => exec f i s.pc (2 * f.len) s

/-- total states of a list of charges under the given bus-controller settings -/
def costOf (abwcr astcr wcrh wcrl drcra : BitVec 8) (cs : List (Kind × Nat × BitVec 32)) : Nat :=
  cs.foldl (fun acc (k, n, a) => acc + n * (cost1 abwcr astcr wcrh wcrl drcra k a).toNat) 0

end H8.Spec
