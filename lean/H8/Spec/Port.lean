/-
  C16 reference: an I/O port = data latch + direction register + external pins.
-/
namespace H8.Spec

structure Port where
  ddr : BitVec 8 := 0
  latch : BitVec 8 := 0     -- what the CPU last wrote to DR
  pin : BitVec 8 := 0       -- external levels
  announced : BitVec 8 := 0 -- value of the last `ioport:` message (0 before any)
  deriving DecidableEq, Repr, Inhabited

inductive PortOp where
  | writeDDR (v : BitVec 8)
  | writeDR (v : BitVec 8)
  | pin (v : BitVec 8)
  | readDR
  deriving DecidableEq, Repr

/-- reading DR: per bit the latch where the bit is an output, the pin level where it is an input -/
def Port.readDR (p : Port) : BitVec 8 := (p.latch &&& p.ddr) ||| (p.pin &&& ~~~p.ddr)

/-- value driven on the pins -/
def Port.output (p : Port) : BitVec 8 := p.latch &&& p.ddr

/-- one operation; returns the value read (for `readDR`) -/
def Port.step (p : Port) : PortOp → Port × Option (BitVec 8)
  | .writeDDR v => let q := { p with ddr := v }; ({ q with announced := q.output }, none)
  | .writeDR v => let q := { p with latch := v }; ({ q with announced := q.output }, none)
  | .pin v => ({ p with pin := v }, none)
  | .readDR => (p, some p.readDR)

def Port.run (p : Port) : List PortOp → Port × List (BitVec 8)
  | [] => (p, [])
  | op :: ops =>
    let (q, r) := p.step op
    let (q', rs) := q.run ops
    (q', (match r with | some v => [v] | none => []) ++ rs)

/-- an operation is latch-safe in state `s` if it does not switch a bit to output whose latched value
    differs from the pin level (the only situation in which a missing data latch is observable) -/
def LatchSafe (s : Port) : PortOp → Prop
  | .writeDDR v => (v &&& ~~~s.ddr) &&& (s.latch ^^^ s.pin) = 0
  | _ => True

instance (s : Port) (op : PortOp) : Decidable (LatchSafe s op) := by
  cases op <;> unfold LatchSafe <;> infer_instance

end H8.Spec
