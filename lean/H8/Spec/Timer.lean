/-
  C17 reference: 8-bit timer channel 0, one state at a time.
-/
namespace H8.Spec

structure Tmr where
  div : Nat := 0            -- 0 = no clock, else 8 / 64 / 8192
  phase : Nat := 0          -- states since the last count (0 ≤ phase < div)
  cmieb : Bool := false
  cmiea : Bool := false
  ovie : Bool := false
  cclr : Nat := 0           -- 0 none, 1 compare match A, 2 compare match B, 3 external (never)
  tcnt : BitVec 8 := 0
  tcsr : BitVec 8 := 0
  tcora : BitVec 8 := 0
  tcorb : BitVec 8 := 0
  reqs : List Nat := []     -- interrupt requests raised so far, in order
  deriving DecidableEq, Repr, Inhabited

/-- one count of TCNT -/
def Tmr.tick (t : Tmr) : Tmr :=
  let ovf := t.tcnt == 0xff#8
  let c1 := t.tcnt + 1
  let hitA := c1 == t.tcora
  let c2 := if hitA && t.cclr == 1 then 0#8 else c1
  let hitB := c2 == t.tcorb
  let c3 := if hitB && t.cclr == 2 then 0#8 else c2
  let tcsr := t.tcsr ||| (if hitA then 0x40#8 else 0) ||| (if hitB then 0x80#8 else 0) ||| (if ovf then 0x20#8 else 0)
  let reqs := t.reqs ++ (if hitA && t.cmiea then [36] else []) ++ (if hitB && t.cmieb then [37] else []) ++
    (if ovf && t.ovie then [39] else [])
  { t with tcnt := c3, tcsr := tcsr, reqs := reqs }

/-- one elapsed state -/
def Tmr.state1 (t : Tmr) : Tmr :=
  if t.div = 0 then t
  else if t.phase + 1 ≥ t.div then ({ t with phase := 0 }).tick
  else { t with phase := t.phase + 1 }

/-- `n` elapsed states, one at a time -/
def Tmr.states : Nat → Tmr → Tmr
  | 0, t => t
  | n + 1, t => Tmr.states n t.state1

/-- CPU write to TCR: enables, clear source, clock select (CKS 4–7 = external/cascade: divisor kept).
    A newly selected clock starts a fresh period. -/
def Tmr.writeTcr (t : Tmr) (v : BitVec 8) : Tmr :=
  let cks := (v &&& 7).toNat
  let div := if cks = 0 then 0 else if cks = 1 then 8 else if cks = 2 then 64 else if cks = 3 then 8192 else t.div
  { t with cmieb := v.getLsbD 7, cmiea := v.getLsbD 6, ovie := v.getLsbD 5, cclr := ((v >>> 3) &&& 3).toNat,
           div := div, phase := if div = t.div then t.phase else 0 }

/-- the statement's side condition on the compare registers -/
def Tmr.domain (t : Tmr) : Bool :=
  t.cclr == 0 || t.cclr == 3 || (t.tcora != t.tcorb && t.tcora != 0 && t.tcorb != 0)

end H8.Spec
