/- C09 reference: the guest-visible address map, literals from the property statement. -/
namespace H8.Spec

/-- An address is accessible iff it lies in the vector area, DRAM, I/O registers 1, on-chip RAM
    or I/O registers 2.  Anything else — including everything at or above 2^24 — is not. -/
def accessible (a : Nat) : Prop :=
  a ≤ 0xff ∨ (0x400000 ≤ a ∧ a ≤ 0x5fffff) ∨ (0xfee000 ≤ a ∧ a ≤ 0xfee0ff) ∨
  (0xffbf20 ≤ a ∧ a ≤ 0xffff1f) ∨ (0xffff20 ≤ a ∧ a ≤ 0xffffe9)

instance (a : Nat) : Decidable (accessible a) := by unfold accessible; infer_instance

/-- Port direction registers P1DDR–PBDDR and data registers P1DR–PBDR (C16's subject). -/
def isDdr (a : Nat) : Prop := 0xfee000 ≤ a ∧ a ≤ 0xfee00a
def isDr (a : Nat) : Prop := 0xffffd0 ≤ a ∧ a ≤ 0xffffda
instance (a : Nat) : Decidable (isDdr a) := by unfold isDdr; infer_instance
instance (a : Nat) : Decidable (isDr a) := by unfold isDr; infer_instance

/-- Plain storage: accessible and not a port register. -/
def plain (a : Nat) : Prop := accessible a ∧ ¬ isDdr a ∧ ¬ isDr a
instance (a : Nat) : Decidable (plain a) := by unfold plain; infer_instance

/-- the DDR and DR address of the port a port-register address belongs to -/
def portOf (a : Nat) : Nat := if isDdr a then a - 0xfee000 else a - 0xffffd0
def ddrAddr (p : Nat) : Nat := 0xfee000 + p
def drAddr (p : Nat) : Nat := 0xffffd0 + p

end H8.Spec
