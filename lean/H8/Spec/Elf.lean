/-
  C11 / C12 reference: what a structurally valid ELF32-BE executable must look like in DRAM and
  in the registers after loading (MES process environment).  Written from the property statements;
  reads the file directly (own field readers), independent of Model/Elf.lean.
-/
import Std.Data.HashMap
namespace H8.Spec.Elf

def BASE : Nat := 0x416900          -- load base
def DRAM_LO : Nat := 0x400000
def DRAM_HI : Nat := 0x5fffff

def byteAt (f : ByteArray) (o : Nat) : Nat := if h : o < f.size then (f[o]'h).toNat else 0
def half (f : ByteArray) (o : Nat) : Nat := byteAt f o * 256 + byteAt f (o + 1)
def word (f : ByteArray) (o : Nat) : Nat := half f o * 65536 + half f (o + 2)

structure Seg where
  ty : Nat
  off : Nat
  vaddr : Nat
  paddr : Nat
  filesz : Nat
  memsz : Nat
  deriving Repr

structure Sect where
  name : String
  addr : Nat
  off : Nat
  size : Nat
  link : Nat
  entsize : Nat
  deriving Repr

def phdrs (f : ByteArray) : List Seg :=
  let phoff := word f 28; let phnum := half f 44
  (List.range phnum).map fun k =>
    let o := phoff + 32 * k
    { ty := word f o, off := word f (o + 4), vaddr := word f (o + 8), paddr := word f (o + 12),
      filesz := word f (o + 16), memsz := word f (o + 20) }

/-- NUL-terminated name at offset o (graphic ASCII) -/
partial def nameAt (f : ByteArray) (o : Nat) (acc : List Char := []) : String :=
  let c := byteAt f o
  if c == 0 ∨ o ≥ f.size then String.ofList acc.reverse else nameAt f (o + 1) (Char.ofNat c :: acc)

def sections (f : ByteArray) : List Sect :=
  let shoff := word f 32; let shnum := half f 48; let strndx := half f 50
  let stroff := word f (shoff + 40 * strndx + 16)
  (List.range shnum).map fun k =>
    let o := shoff + 40 * k
    { name := nameAt f (stroff + word f o), addr := word f (o + 12), off := word f (o + 16), size := word f (o + 20),
      link := word f (o + 24), entsize := word f (o + 36) }

def loads (f : ByteArray) : List Seg := (phdrs f).filter (·.ty == 1)

/-- structurally valid per the quantifier of C11 (`samePhys = false`: p_paddr is free, as long as it is not below
p_vaddr, so that whatever the loader places "after the image" stays above it) or of C12 (`samePhys = true`:
p_paddr = p_vaddr) -/
def wellFormedFor (samePhys : Bool) (f : ByteArray) : Bool :=
  let ls := loads f
  let secs := sections f
  let got := secs.filter (·.name == ".got")
  f.size ≥ 52 &&
  byteAt f 0 == 0x7f && byteAt f 1 == 0x45 && byteAt f 2 == 0x4c && byteAt f 3 == 0x46 &&
  byteAt f 4 == 1 && byteAt f 5 == 2 &&
  1 ≤ ls.length && ls.length ≤ 4 &&
  ls.all (fun s => s.filesz ≤ s.memsz && s.off + s.filesz ≤ f.size && BASE + s.vaddr + s.memsz ≤ DRAM_HI + 1 &&
    (if samePhys then s.paddr == s.vaddr else s.vaddr ≤ s.paddr)) &&
  -- ascending and non-overlapping
  (ls.zip (ls.drop 1)).all (fun (a, b) => a.vaddr + a.memsz ≤ b.vaddr) &&
  got.length ≤ 1 &&
  got.all (fun g => g.size % 4 == 0 && (g.size == 0 || ls.any (fun s => s.vaddr ≤ g.addr && g.addr + g.size ≤ s.vaddr + s.filesz))) &&
  (secs.filter (·.name == ".stack")).length == 1 && (secs.filter (·.name == ".symtab")).length ≤ 1

def wellFormed (f : ByteArray) : Bool := wellFormedFor true f

/-- how far the physical addresses lie above the virtual ones (0 in the domain of C12) -/
def physSlack (f : ByteArray) : Nat := (loads f).foldl (fun m s => max m (s.paddr - s.vaddr)) 0

/-- image end: the highest PT_LOAD extent -/
def imageEnd (f : ByteArray) : Nat := (loads f).foldl (fun m s => max m (s.vaddr + s.memsz)) 0

def align4 (a : Nat) : Nat := (a + 3) / 4 * 4

def isBlank (c : Char) : Bool := c == ' ' || c == '\t'

/-- whitespace-separated words of the argument string -/
def words (s : String) : List String :=
  let rec go : List Char → List Char → List String → List String
    | [], cur, acc => (if cur.isEmpty then acc else String.ofList cur.reverse :: acc).reverse
    | c :: cs, cur, acc =>
      if isBlank c then go cs [] (if cur.isEmpty then acc else String.ofList cur.reverse :: acc)
      else go cs (c :: cur) acc
  go s.toList [] []

structure Expect where
  mem : Std.HashMap Nat Nat := {}       -- absolute address → byte (only non-zero bytes matter)
  er0 : Nat := 0
  er1 : Nat := 0
  er2 : Nat := 0
  er5 : Nat := 0
  er7 : Nat := 0
  exit : Option Nat := none

def put (m : Std.HashMap Nat Nat) (a v : Nat) : Std.HashMap Nat Nat := m.insert a (v % 256)
def put32 (m : Std.HashMap Nat Nat) (a v : Nat) : Std.HashMap Nat Nat :=
  put (put (put (put m a (v / 16777216)) (a + 1) (v / 65536)) (a + 2) (v / 256)) (a + 3) v

def expected (f : ByteArray) (args : String) : Expect :=
  let ls := loads f
  let secs := sections f
  -- every byte of the file contents of every PT_LOAD segment at BASE + p_vaddr
  let mem := ls.foldl (fun m s => (List.range s.filesz).foldl (fun m i => put m (BASE + s.vaddr + i) (byteAt f (s.off + i))) m) {}
  -- every GOT entry = its value in the file + BASE (once), big-endian
  let got := secs.find? (·.name == ".got")
  let mem := match got with
    | none => mem
    | some g =>
      match ls.find? (fun s => s.vaddr ≤ g.addr && g.addr + g.size ≤ s.vaddr + s.filesz) with
      | none => mem
      | some s => (List.range (g.size / 4)).foldl (fun m i =>
          put32 m (BASE + g.addr + 4 * i) ((word f (s.off + (g.addr - s.vaddr) + 4 * i) + BASE) % 2 ^ 32)) mem
  -- stack, TCB, argument block above the image
  let stackSize := match secs.find? (·.name == ".stack") with | some s => s.addr | none => 0
  let stackEnd := align4 (BASE + imageEnd f + stackSize)
  let argv := align4 (stackEnd + 88)
  let ws := "prog.elf" :: words args
  let strings0 := argv + 4 * (ws.length + 1)
  let (mem, _, _) := ws.foldl (fun (m, slot, sa) w =>
    let bytes := w.toUTF8
    let m := put32 m slot sa
    let m := (List.range bytes.size).foldl (fun m k => put m (sa + k) (bytes[k]!).toNat) m
    (put m (sa + bytes.size) 0, slot + 4, sa + bytes.size + 1)) (mem, argv, strings0)
  -- exit address: value of symbol ___exit + BASE
  let exit := match secs.find? (·.name == ".symtab") with
    | none => none
    | some st =>
      let stroff := match secs[st.link]? with | some s => s.off | none => 0
      let n := if st.entsize == 0 then 0 else st.size / st.entsize
      (List.range n).foldl (fun e k =>
        let o := st.off + 16 * k
        if nameAt f (stroff + word f o) == "___exit" then some ((word f (o + 4) + BASE) % 2 ^ 32) else e) none
  { mem := mem, er0 := ws.length, er1 := argv, er2 := BASE,
    er5 := match got with | some g => (BASE + g.addr) % 2 ^ 32 | none => 0,
    er7 := stackEnd - 8, exit := exit }

/-- layout facts of C12: regions ordered, disjoint, inside DRAM -/
def layoutOkSlack (slack : Nat) (f : ByteArray) (args : String) : Bool :=
  let stackSize := match (sections f).find? (·.name == ".stack") with | some s => s.addr | none => 0
  let stackLo := BASE + imageEnd f
  let stackEnd := align4 (stackLo + stackSize)
  let argv := align4 (stackEnd + 88)
  let ws := "prog.elf" :: words args
  let total := argv + 4 * (ws.length + 1) + ws.foldl (fun n w => n + w.toUTF8.size + 1) 0
  total + slack ≤ DRAM_HI + 1 && stackEnd ≥ stackLo + stackSize && argv ≥ stackEnd + 88

def layoutOk (f : ByteArray) (args : String) : Bool := layoutOkSlack 0 f args

end H8.Spec.Elf
