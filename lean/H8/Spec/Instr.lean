/-
  Spec: abstract syntax of the H8/300H instructions the properties talk about.
  Hand-written; independent of the Rust code.
-/
import H8.Basic
namespace H8.Spec

inductive Sz where | B | W | L
  deriving DecidableEq, Repr, Inhabited

def Sz.bytes : Sz → Nat | .B => 1 | .W => 2 | .L => 4

/-- memory operand addressing modes -/
inductive EA where
  | ind (r : BitVec 3)                       -- @ERn
  | disp16 (r : BitVec 3) (d : BitVec 16)    -- @(d:16,ERn)
  | disp24 (r : BitVec 3) (d : BitVec 24)    -- @(d:24,ERn)
  | postinc (r : BitVec 3)                   -- @ERn+
  | predec (r : BitVec 3)                    -- @-ERn
  | abs8 (a : BitVec 8)                      -- @aa:8
  | abs16 (a : BitVec 16)                    -- @aa:16
  | abs24 (a : BitVec 24)                    -- @aa:24
  deriving DecidableEq, Repr

inductive Opnd where
  | reg (r : BitVec 4)       -- byte: R0H–R7H,R0L–R7L; word: R0–R7,E0–E7; long: ER0–ER7 (r < 8)
  | imm (v : BitVec 32)
  | mem (ea : EA)
  deriving DecidableEq, Repr

inductive Alu2 where | add | sub | cmp | and | or | xor | addx
  deriving DecidableEq, Repr

inductive Alu1 where
  | not | neg | extu | inc1 | inc2 | dec1 | dec2
  | shal | shar | shll | shlr | rotl | rotr | rotxl | rotxr
  deriving DecidableEq, Repr

inductive BitOp where
  | bset | bclr | bnot | bst | bist | btst | bld | bild | band | biand | bor | bior | bxor | bixor
  deriving DecidableEq, Repr

inductive BitLoc where
  | reg (r : BitVec 4) | ind (r : BitVec 3) | abs8 (a : BitVec 8)
  deriving DecidableEq, Repr

inductive BitSel where
  | imm (i : BitVec 3) | reg (r : BitVec 4)
  deriving DecidableEq, Repr

inductive Tgt where
  | reg (r : BitVec 3) | abs24 (a : BitVec 24) | memind (a : BitVec 8)
  deriving DecidableEq, Repr

inductive Instr where
  | mov (sz : Sz) (src dst : Opnd)
  | alu2 (op : Alu2) (sz : Sz) (src : Opnd) (rd : BitVec 4)
  | alu1 (op : Alu1) (sz : Sz) (rd : BitVec 4)
  | adds (k : BitVec 32) (rd : BitVec 3)
  | subs (k : BitVec 32) (rd : BitVec 3)
  | mulxu (sz : Sz) (rs rd : BitVec 4)
  | divxu (sz : Sz) (rs rd : BitVec 4)
  | bit (op : BitOp) (loc : BitLoc) (sel : BitSel)
  | bcc (c : BitVec 4) (disp : BitVec 32)
  | jmp (t : Tgt)
  | jsr (t : Tgt)
  | bsr (disp : BitVec 32)
  | rts
  | rte
  | trapa (n : BitVec 2)
  | stcB (rd : BitVec 4)
  | stcW (ea : EA)
  deriving DecidableEq, Repr

inductive Status where | valid | unimplemented | undefined
  deriving DecidableEq, Repr, Inhabited

/-- counts of I, J, K, L, M, N bus cycles -/
structure Mix where
  i : Nat := 0
  j : Nat := 0
  k : Nat := 0
  l : Nat := 0
  m : Nat := 0
  n : Nat := 0
  deriving DecidableEq, Repr, Inhabited

def z4 (x : BitVec 3) : BitVec 4 := x.setWidth 4
def zx8 (x : BitVec 8) : BitVec 32 := x.setWidth 32
def zx16 (x : BitVec 16) : BitVec 32 := x.setWidth 32
def sx8 (x : BitVec 8) : BitVec 32 := x.signExtend 32
def sx16 (x : BitVec 16) : BitVec 32 := x.signExtend 32

end H8.Spec
