/-
  C19 reference: bus-cycle cost as the property states it (H8/3069F bus controller).
  Independent of the Rust code and of Gen; reads only five register bytes.
-/
import H8.Basic
namespace H8.Spec
open H8

/-- On-chip RAM (property C09/C19 literals). -/
def inRam (a : BitVec 32) : Bool := BitVec.ule 0xffbf20#32 a && BitVec.ule a 0xffff1f#32

/-- On-chip I/O register ranges: excluded from C19/C20 (their timing is a documented TODO). -/
def inIoRegs (a : BitVec 32) : Bool :=
  (BitVec.ule 0xfee000#32 a && BitVec.ule a 0xfee0ff#32) ||
  (BitVec.ule 0xffff20#32 a && BitVec.ule a 0xffffe9#32)

/-- Area number 0–7 of a 24-bit address = its top three bits. -/
def areaOf (a : BitVec 32) : BitVec 8 := ((a >>> 21) &&& 7#32).setWidth 8

def bitOf (x k : BitVec 8) : Bool := ((x >>> k) &&& 1#8) == 1#8

/-- Programmed wait states of area k: two bits per area, WCRL for areas 0–3, WCRH for 4–7. -/
def waitOf (wcrh wcrl k : BitVec 8) : BitVec 8 :=
  if BitVec.ult k 4#8 then (wcrl >>> (2#8 * k)) &&& 3#8 else (wcrh >>> (2#8 * (k - 4#8))) &&& 3#8

/-- DRAM area select (DRCRA bits 7–5): 1 → area 2; 2,3 → areas 2–3; 4 → 2–4; ≥5 → 2–5. -/
def isDram (drcra k : BitVec 8) : Bool :=
  let dras := drcra >>> 5#8
  (k == 2#8 && BitVec.ule 1#8 dras) || (k == 3#8 && BitVec.ule 2#8 dras) ||
  (k == 4#8 && BitVec.ule 4#8 dras) || (k == 5#8 && BitVec.ule 5#8 dras)

/-- Kinds that move a word: instruction fetch, branch address read, stack, word data. -/
def isWordKind : Kind → Bool
  | .I | .J | .K | .M => true
  | .L | .N => false

/-- States for ONE bus cycle of the given kind at address `a`. -/
def cost1 (abwcr astcr wcrh wcrl drcra : BitVec 8) (kind : Kind) (a : BitVec 32) : BitVec 8 :=
  if kind == Kind.N then 1#8
  else if inRam a then 2#8
  else
    let k := areaOf a
    let accesses : BitVec 8 := if bitOf abwcr k && isWordKind kind then 2#8 else 1#8
    let per : BitVec 8 :=
      if isDram drcra k then 4#8 + waitOf wcrh wcrl k
      else if !bitOf astcr k then 2#8
      else 3#8 + waitOf wcrh wcrl k
    accesses * per

/-- Domain of C19: a 24-bit address in on-chip RAM or in one of the eight areas, not an on-chip
    I/O register; areas 3–5 only with DRAM select 0 or 1. -/
def domC19 (drcra : BitVec 8) (a : BitVec 32) : Bool :=
  BitVec.ule a 0xffffff#32 && !inIoRegs a &&
  (!(BitVec.ule 3#8 (areaOf a) && BitVec.ule (areaOf a) 5#8) || BitVec.ule (drcra >>> 5#8) 1#8)

/-- The bits of the bus-controller registers that belong to area k. -/
def sameAreaSettings (k : BitVec 8) (abwcr astcr wcrh wcrl drcra abwcr' astcr' wcrh' wcrl' drcra' : BitVec 8) : Bool :=
  (bitOf abwcr k == bitOf abwcr' k) && (bitOf astcr k == bitOf astcr' k) &&
  (waitOf wcrh wcrl k == waitOf wcrh' wcrl' k) && (isDram drcra k == isDram drcra' k)

end H8.Spec
