/-
  C07, part 3 — every VALID encoding is routed to the handler of exactly the instruction it encodes.

  One theorem per valid row of spec/isa.tbl (207): for ALL word sequences that match the row's fixed bits
  — every value of every operand field — the decision trees regenerated from `Cpu::exec` and the
  second-level dispatchers (`Gen.exec_route`, `Gen.mov_b_route`, …, `Gen.exec_route_k` after a prefix word)
  lead to the leaf named in the statement.  The expected leaves were written down once (from the repaired
  code) and are part of this hand-kept file: they are NOT regenerated, so a change of the dispatch in the
  Rust source that sends some encoding of a form elsewhere breaks the corresponding theorem.
  `Model.Exec.leafHandler` maps the leaf to the handler the per-form theorems of C01–C06 are about.
-/
import Std.Tactic.BVDecide
import H8.Gen.Dispatch
import H8.Spec.Table
namespace H8.Props.C07R
open H8 H8.Spec

set_option hygiene false in
macro "route_tac" pl:ident : tactic => `(tactic|
  (rw [$pl:ident] at hp; simp only [Bool.and_eq_true, beq_iff_eq] at hp
   simp only [Gen.exec_route, Gen.exec_route_0, Gen.exec_route_1, Gen.exec_route_2, Gen.exec_route_3, Gen.exec_route_4,
     Gen.exec_route_5, Gen.exec_route_6, Gen.mov_b_route, Gen.mov_b_abs_16_or_24_route, Gen.mov_w_route, Gen.mov_l_route,
     Gen.mov_l_route_0, Gen.add_b_route, Gen.add_w_route, Gen.add_l_route, Gen.sub_w_route, Gen.sub_l_route, Gen.bcc_route,
     Gen.jmp_route, Gen.jsr_route]
   bv_decide))
/-- the leaf of each of the 16 branch conditions (BRA, BRN, BHI, BLS, BCC, BCS, BNE, BEQ, BVC, BVS, BPL, BMI, BGE, BLT,
    BGT, BLE), 8-bit and 16-bit displacement forms -/
def bcc8Leaf (c : BitVec 4) : Gen.Leaf := if c == 0#4 then .bra8__opcode else if c == 1#4 then .brn8__ else if c == 2#4 then .bhi8__opcode else if c == 3#4 then .bls8__opcode else if c == 4#4 then .bcc8__opcode else if c == 5#4 then .bcs8__opcode else if c == 6#4 then .bne8__opcode else if c == 7#4 then .beq8__opcode else if c == 8#4 then .bvc8__opcode else if c == 9#4 then .bvs8__opcode else if c == 10#4 then .bpl8__opcode else if c == 11#4 then .bmi8__opcode else if c == 12#4 then .bge8__opcode else if c == 13#4 then .blt8__opcode else if c == 14#4 then .bgt8__opcode else .ble8__opcode
def bcc16Leaf (c : BitVec 4) : Gen.Leaf := if c == 0#4 then .bra16__ else if c == 1#4 then .brn16__ else if c == 2#4 then .bhi16__ else if c == 3#4 then .bls16__ else if c == 4#4 then .bcc16__ else if c == 5#4 then .bcs16__ else if c == 6#4 then .bne16__ else if c == 7#4 then .beq16__ else if c == 8#4 then .bvc16__ else if c == 9#4 then .bvs16__ else if c == 10#4 then .bpl16__ else if c == 11#4 then .bmi16__ else if c == 12#4 then .bge16__ else if c == 13#4 then .blt16__ else if c == 14#4 then .bgt16__ else .ble16__


/-- first use of `bv_decide` on `Gen.Leaf`: its enum encoding helpers are generated here, once, so that the
    parts (which are imported together) do not each generate their own copy -/
theorem leaf_enum_warmup (w : BitVec 16) : (if w == 0#16 then Gen.Leaf.unimpl else Gen.Leaf.bail) ≠ Gen.Leaf.rts__ := by
  bv_decide

end H8.Props.C07R
