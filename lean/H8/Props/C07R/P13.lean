-- part 13 of the valid-form routing theorems (see Base.lean)
import H8.Props.C07R.Base
namespace H8.Props.C07R
open H8 H8.Spec

theorem route_BSET_RN_AA8 (w0 w1 w2 w3 w4 : BitVec 16) (hp : Form.pat .BSET_RN_AA8 w0 w1 w2 w3 w4 = true) :
    Gen.exec_route w0 = .pfx_exec_route_6 ∧
      Gen.exec_route_6 w0 w1 = .bset_abs__opcode_opcode2 := by
  refine ⟨?_, ?_⟩ <;> route_tac pat_BSET_RN_AA8

theorem route_BNOT_RN_AA8 (w0 w1 w2 w3 w4 : BitVec 16) (hp : Form.pat .BNOT_RN_AA8 w0 w1 w2 w3 w4 = true) :
    Gen.exec_route w0 = .pfx_exec_route_6 ∧
      Gen.exec_route_6 w0 w1 = .bnot_abs__opcode_opcode2 := by
  refine ⟨?_, ?_⟩ <;> route_tac pat_BNOT_RN_AA8

theorem route_BCLR_RN_AA8 (w0 w1 w2 w3 w4 : BitVec 16) (hp : Form.pat .BCLR_RN_AA8 w0 w1 w2 w3 w4 = true) :
    Gen.exec_route w0 = .pfx_exec_route_6 ∧
      Gen.exec_route_6 w0 w1 = .bclr_abs__opcode_opcode2 := by
  refine ⟨?_, ?_⟩ <;> route_tac pat_BCLR_RN_AA8

theorem route_BST_AA8 (w0 w1 w2 w3 w4 : BitVec 16) (hp : Form.pat .BST_AA8 w0 w1 w2 w3 w4 = true) :
    Gen.exec_route w0 = .pfx_exec_route_6 ∧
      Gen.exec_route_6 w0 w1 = .bst_abs__opcode_opcode2 := by
  refine ⟨?_, ?_⟩ <;> route_tac pat_BST_AA8

theorem route_BIST_AA8 (w0 w1 w2 w3 w4 : BitVec 16) (hp : Form.pat .BIST_AA8 w0 w1 w2 w3 w4 = true) :
    Gen.exec_route w0 = .pfx_exec_route_6 ∧
      Gen.exec_route_6 w0 w1 = .bist_abs__opcode_opcode2 := by
  refine ⟨?_, ?_⟩ <;> route_tac pat_BIST_AA8

theorem route_BSET_I_AA8 (w0 w1 w2 w3 w4 : BitVec 16) (hp : Form.pat .BSET_I_AA8 w0 w1 w2 w3 w4 = true) :
    Gen.exec_route w0 = .pfx_exec_route_6 ∧
      Gen.exec_route_6 w0 w1 = .bset_abs__opcode_opcode2 := by
  refine ⟨?_, ?_⟩ <;> route_tac pat_BSET_I_AA8

theorem route_BNOT_I_AA8 (w0 w1 w2 w3 w4 : BitVec 16) (hp : Form.pat .BNOT_I_AA8 w0 w1 w2 w3 w4 = true) :
    Gen.exec_route w0 = .pfx_exec_route_6 ∧
      Gen.exec_route_6 w0 w1 = .bnot_abs__opcode_opcode2 := by
  refine ⟨?_, ?_⟩ <;> route_tac pat_BNOT_I_AA8

theorem route_BCLR_I_AA8 (w0 w1 w2 w3 w4 : BitVec 16) (hp : Form.pat .BCLR_I_AA8 w0 w1 w2 w3 w4 = true) :
    Gen.exec_route w0 = .pfx_exec_route_6 ∧
      Gen.exec_route_6 w0 w1 = .bclr_abs__opcode_opcode2 := by
  refine ⟨?_, ?_⟩ <;> route_tac pat_BCLR_I_AA8

theorem route_ADD_B_IMM (w0 w1 w2 w3 w4 : BitVec 16) (hp : Form.pat .ADD_B_IMM w0 w1 w2 w3 w4 = true) :
    Gen.exec_route w0 = .add_b__opcode ∧
      Gen.add_b_route w0 = .add_b_imm__opcode := by
  refine ⟨?_, ?_⟩ <;> route_tac pat_ADD_B_IMM

theorem route_ADDX_IMM (w0 w1 w2 w3 w4 : BitVec 16) (hp : Form.pat .ADDX_IMM w0 w1 w2 w3 w4 = true) :
    Gen.exec_route w0 = .addx_imm__opcode := by route_tac pat_ADDX_IMM

theorem route_CMP_B_IMM (w0 w1 w2 w3 w4 : BitVec 16) (hp : Form.pat .CMP_B_IMM w0 w1 w2 w3 w4 = true) :
    Gen.exec_route w0 = .cmp_b_imm__opcode := by route_tac pat_CMP_B_IMM

theorem route_OR_B_IMM (w0 w1 w2 w3 w4 : BitVec 16) (hp : Form.pat .OR_B_IMM w0 w1 w2 w3 w4 = true) :
    Gen.exec_route w0 = .or_b_imm__opcode := by route_tac pat_OR_B_IMM

theorem route_XOR_B_IMM (w0 w1 w2 w3 w4 : BitVec 16) (hp : Form.pat .XOR_B_IMM w0 w1 w2 w3 w4 = true) :
    Gen.exec_route w0 = .xor_b_imm__opcode := by route_tac pat_XOR_B_IMM

theorem route_AND_B_IMM (w0 w1 w2 w3 w4 : BitVec 16) (hp : Form.pat .AND_B_IMM w0 w1 w2 w3 w4 = true) :
    Gen.exec_route w0 = .and_b_imm__opcode := by route_tac pat_AND_B_IMM

theorem route_MOV_B_IMM (w0 w1 w2 w3 w4 : BitVec 16) (hp : Form.pat .MOV_B_IMM w0 w1 w2 w3 w4 = true) :
    Gen.exec_route w0 = .mov_b__opcode ∧
      Gen.mov_b_route w0 = .mov_b_imm__opcode := by
  refine ⟨?_, ?_⟩ <;> route_tac pat_MOV_B_IMM


end H8.Props.C07R
