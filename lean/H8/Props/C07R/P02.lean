-- part 2 of the valid-form routing theorems (see Base.lean)
import H8.Props.C07R.Base
namespace H8.Props.C07R
open H8 H8.Spec

theorem route_STC_W_D16 (w0 w1 w2 w3 w4 : BitVec 16) (hp : Form.pat .STC_W_D16 w0 w1 w2 w3 w4 = true) :
    Gen.exec_route w0 = .pfx_exec_route_0 ∧
      Gen.exec_route_0 w0 w1 = .stc_w_disp16__opcode2 := by
  refine ⟨?_, ?_⟩ <;> route_tac pat_STC_W_D16

theorem route_STC_W_D24 (w0 w1 w2 w3 w4 : BitVec 16) (hp : Form.pat .STC_W_D24 w0 w1 w2 w3 w4 = true) :
    Gen.exec_route w0 = .pfx_exec_route_0 ∧
      Gen.exec_route_0 w0 w1 = .stc_w_disp24__opcode2 := by
  refine ⟨?_, ?_⟩ <;> route_tac pat_STC_W_D24

theorem route_OR_L_RR (w0 w1 w2 w3 w4 : BitVec 16) (hp : Form.pat .OR_L_RR w0 w1 w2 w3 w4 = true) :
    Gen.exec_route w0 = .pfx_exec_route_1 ∧
      Gen.exec_route_1 w0 w1 = .or_l_rn__opcode_opcode2 := by
  refine ⟨?_, ?_⟩ <;> route_tac pat_OR_L_RR

theorem route_XOR_L_RR (w0 w1 w2 w3 w4 : BitVec 16) (hp : Form.pat .XOR_L_RR w0 w1 w2 w3 w4 = true) :
    Gen.exec_route w0 = .pfx_exec_route_1 ∧
      Gen.exec_route_1 w0 w1 = .xor_l_rn__opcode_opcode2 := by
  refine ⟨?_, ?_⟩ <;> route_tac pat_XOR_L_RR

theorem route_AND_L_RR (w0 w1 w2 w3 w4 : BitVec 16) (hp : Form.pat .AND_L_RR w0 w1 w2 w3 w4 = true) :
    Gen.exec_route w0 = .pfx_exec_route_1 ∧
      Gen.exec_route_1 w0 w1 = .and_l_rn__opcode_opcode2 := by
  refine ⟨?_, ?_⟩ <;> route_tac pat_AND_L_RR

theorem route_STC_B (w0 w1 w2 w3 w4 : BitVec 16) (hp : Form.pat .STC_B w0 w1 w2 w3 w4 = true) :
    Gen.exec_route w0 = .stc_b__opcode := by route_tac pat_STC_B

theorem route_ADD_B_RR (w0 w1 w2 w3 w4 : BitVec 16) (hp : Form.pat .ADD_B_RR w0 w1 w2 w3 w4 = true) :
    Gen.exec_route w0 = .add_b__opcode ∧
      Gen.add_b_route w0 = .add_b_rn__opcode := by
  refine ⟨?_, ?_⟩ <;> route_tac pat_ADD_B_RR

theorem route_ADD_W_RR (w0 w1 w2 w3 w4 : BitVec 16) (hp : Form.pat .ADD_W_RR w0 w1 w2 w3 w4 = true) :
    Gen.exec_route w0 = .add_w__opcode ∧
      Gen.add_w_route w0 = .add_w_rn__opcode := by
  refine ⟨?_, ?_⟩ <;> route_tac pat_ADD_W_RR

theorem route_INC_B (w0 w1 w2 w3 w4 : BitVec 16) (hp : Form.pat .INC_B w0 w1 w2 w3 w4 = true) :
    Gen.exec_route w0 = .inc_b__opcode := by route_tac pat_INC_B

theorem route_ADD_L_RR (w0 w1 w2 w3 w4 : BitVec 16) (hp : Form.pat .ADD_L_RR w0 w1 w2 w3 w4 = true) :
    Gen.exec_route w0 = .add_l__opcode ∧
      Gen.add_l_route w0 = .add_l_rn__opcode := by
  refine ⟨?_, ?_⟩ <;> route_tac pat_ADD_L_RR

theorem route_ADDS_1 (w0 w1 w2 w3 w4 : BitVec 16) (hp : Form.pat .ADDS_1 w0 w1 w2 w3 w4 = true) :
    Gen.exec_route w0 = .adds1__opcode := by route_tac pat_ADDS_1

theorem route_ADDS_2 (w0 w1 w2 w3 w4 : BitVec 16) (hp : Form.pat .ADDS_2 w0 w1 w2 w3 w4 = true) :
    Gen.exec_route w0 = .adds2__opcode := by route_tac pat_ADDS_2

theorem route_ADDS_4 (w0 w1 w2 w3 w4 : BitVec 16) (hp : Form.pat .ADDS_4 w0 w1 w2 w3 w4 = true) :
    Gen.exec_route w0 = .adds4__opcode := by route_tac pat_ADDS_4

theorem route_INC_W_1 (w0 w1 w2 w3 w4 : BitVec 16) (hp : Form.pat .INC_W_1 w0 w1 w2 w3 w4 = true) :
    Gen.exec_route w0 = .inc_w_1__opcode := by route_tac pat_INC_W_1

theorem route_INC_W_2 (w0 w1 w2 w3 w4 : BitVec 16) (hp : Form.pat .INC_W_2 w0 w1 w2 w3 w4 = true) :
    Gen.exec_route w0 = .inc_w_2__opcode := by route_tac pat_INC_W_2

theorem route_INC_L_1 (w0 w1 w2 w3 w4 : BitVec 16) (hp : Form.pat .INC_L_1 w0 w1 w2 w3 w4 = true) :
    Gen.exec_route w0 = .inc_l_1__opcode := by route_tac pat_INC_L_1


end H8.Props.C07R
