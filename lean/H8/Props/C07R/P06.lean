-- part 6 of the valid-form routing theorems (see Base.lean)
import H8.Props.C07R.Base
namespace H8.Props.C07R
open H8 H8.Spec

theorem route_DEC_W_2 (w0 w1 w2 w3 w4 : BitVec 16) (hp : Form.pat .DEC_W_2 w0 w1 w2 w3 w4 = true) :
    Gen.exec_route w0 = .dec_w_2__opcode := by route_tac pat_DEC_W_2

theorem route_DEC_L_1 (w0 w1 w2 w3 w4 : BitVec 16) (hp : Form.pat .DEC_L_1 w0 w1 w2 w3 w4 = true) :
    Gen.exec_route w0 = .dec_l_1__opcode := by route_tac pat_DEC_L_1

theorem route_DEC_L_2 (w0 w1 w2 w3 w4 : BitVec 16) (hp : Form.pat .DEC_L_2 w0 w1 w2 w3 w4 = true) :
    Gen.exec_route w0 = .dec_l_2__opcode := by route_tac pat_DEC_L_2

theorem route_CMP_B_RR (w0 w1 w2 w3 w4 : BitVec 16) (hp : Form.pat .CMP_B_RR w0 w1 w2 w3 w4 = true) :
    Gen.exec_route w0 = .cmp_b_rn__opcode := by route_tac pat_CMP_B_RR

theorem route_CMP_W_RR (w0 w1 w2 w3 w4 : BitVec 16) (hp : Form.pat .CMP_W_RR w0 w1 w2 w3 w4 = true) :
    Gen.exec_route w0 = .cmp_w_rn__opcode := by route_tac pat_CMP_W_RR

theorem route_CMP_L_RR (w0 w1 w2 w3 w4 : BitVec 16) (hp : Form.pat .CMP_L_RR w0 w1 w2 w3 w4 = true) :
    Gen.exec_route w0 = .cmp_l_rn__opcode := by route_tac pat_CMP_L_RR

theorem route_MOV_B_LD_AA8 (w0 w1 w2 w3 w4 : BitVec 16) (hp : Form.pat .MOV_B_LD_AA8 w0 w1 w2 w3 w4 = true) :
    Gen.exec_route w0 = .mov_b__opcode ∧
      Gen.mov_b_route w0 = .mov_b_abs8__opcode := by
  refine ⟨?_, ?_⟩ <;> route_tac pat_MOV_B_LD_AA8

theorem route_MOV_B_ST_AA8 (w0 w1 w2 w3 w4 : BitVec 16) (hp : Form.pat .MOV_B_ST_AA8 w0 w1 w2 w3 w4 = true) :
    Gen.exec_route w0 = .mov_b__opcode ∧
      Gen.mov_b_route w0 = .mov_b_abs8__opcode := by
  refine ⟨?_, ?_⟩ <;> route_tac pat_MOV_B_ST_AA8

theorem route_BCC_D8 (w0 w1 w2 w3 w4 : BitVec 16) (hp : Form.pat .BCC_D8 w0 w1 w2 w3 w4 = true) :
    Gen.exec_route w0 = .bcc__opcode ∧
      Gen.bcc_route w0 = bcc8Leaf (w0.extractLsb' 8 4) := by
  refine ⟨?_, ?_⟩
  · route_tac pat_BCC_D8
  · rw [pat_BCC_D8] at hp; simp only [Bool.and_eq_true, beq_iff_eq] at hp
    simp only [Gen.bcc_route, bcc8Leaf]
    bv_decide

theorem route_MULXU_B (w0 w1 w2 w3 w4 : BitVec 16) (hp : Form.pat .MULXU_B w0 w1 w2 w3 w4 = true) :
    Gen.exec_route w0 = .mulxu_b__opcode := by route_tac pat_MULXU_B

theorem route_DIVXU_B (w0 w1 w2 w3 w4 : BitVec 16) (hp : Form.pat .DIVXU_B w0 w1 w2 w3 w4 = true) :
    Gen.exec_route w0 = .divxu_b__opcode := by route_tac pat_DIVXU_B

theorem route_MULXU_W (w0 w1 w2 w3 w4 : BitVec 16) (hp : Form.pat .MULXU_W w0 w1 w2 w3 w4 = true) :
    Gen.exec_route w0 = .mulxu_w__opcode := by route_tac pat_MULXU_W

theorem route_DIVXU_W (w0 w1 w2 w3 w4 : BitVec 16) (hp : Form.pat .DIVXU_W w0 w1 w2 w3 w4 = true) :
    Gen.exec_route w0 = .divxu_w__opcode := by route_tac pat_DIVXU_W

theorem route_RTS (w0 w1 w2 w3 w4 : BitVec 16) (hp : Form.pat .RTS w0 w1 w2 w3 w4 = true) :
    Gen.exec_route w0 = .rts__ := by route_tac pat_RTS

theorem route_BSR_D8 (w0 w1 w2 w3 w4 : BitVec 16) (hp : Form.pat .BSR_D8 w0 w1 w2 w3 w4 = true) :
    Gen.exec_route w0 = .bsr_disp16__opcode := by route_tac pat_BSR_D8

theorem route_RTE (w0 w1 w2 w3 w4 : BitVec 16) (hp : Form.pat .RTE w0 w1 w2 w3 w4 = true) :
    Gen.exec_route w0 = .rte__ := by route_tac pat_RTE


end H8.Props.C07R
