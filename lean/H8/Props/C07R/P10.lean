-- part 10 of the valid-form routing theorems (see Base.lean)
import H8.Props.C07R.Base
namespace H8.Props.C07R
open H8 H8.Spec

theorem route_BLD_R (w0 w1 w2 w3 w4 : BitVec 16) (hp : Form.pat .BLD_R w0 w1 w2 w3 w4 = true) :
    Gen.exec_route w0 = .bld_rn__opcode := by route_tac pat_BLD_R

theorem route_BILD_R (w0 w1 w2 w3 w4 : BitVec 16) (hp : Form.pat .BILD_R w0 w1 w2 w3 w4 = true) :
    Gen.exec_route w0 = .bild_rn__opcode := by route_tac pat_BILD_R

theorem route_MOV_B_LD_D24 (w0 w1 w2 w3 w4 : BitVec 16) (hp : Form.pat .MOV_B_LD_D24 w0 w1 w2 w3 w4 = true) :
    Gen.exec_route w0 = .pfx_exec_route_2 ∧
      Gen.exec_route_2 w0 w1 = .mov_b_disp24__opcode_opcode2 := by
  refine ⟨?_, ?_⟩ <;> route_tac pat_MOV_B_LD_D24

theorem route_MOV_B_ST_D24 (w0 w1 w2 w3 w4 : BitVec 16) (hp : Form.pat .MOV_B_ST_D24 w0 w1 w2 w3 w4 = true) :
    Gen.exec_route w0 = .pfx_exec_route_2 ∧
      Gen.exec_route_2 w0 w1 = .mov_b_disp24__opcode_opcode2 := by
  refine ⟨?_, ?_⟩ <;> route_tac pat_MOV_B_ST_D24

theorem route_MOV_W_LD_D24 (w0 w1 w2 w3 w4 : BitVec 16) (hp : Form.pat .MOV_W_LD_D24 w0 w1 w2 w3 w4 = true) :
    Gen.exec_route w0 = .pfx_exec_route_2 ∧
      Gen.exec_route_2 w0 w1 = .mov_w_disp24__opcode_opcode2 := by
  refine ⟨?_, ?_⟩ <;> route_tac pat_MOV_W_LD_D24

theorem route_MOV_W_ST_D24 (w0 w1 w2 w3 w4 : BitVec 16) (hp : Form.pat .MOV_W_ST_D24 w0 w1 w2 w3 w4 = true) :
    Gen.exec_route w0 = .pfx_exec_route_2 ∧
      Gen.exec_route_2 w0 w1 = .mov_w_disp24__opcode_opcode2 := by
  refine ⟨?_, ?_⟩ <;> route_tac pat_MOV_W_ST_D24

theorem route_MOV_W_IMM (w0 w1 w2 w3 w4 : BitVec 16) (hp : Form.pat .MOV_W_IMM w0 w1 w2 w3 w4 = true) :
    Gen.exec_route w0 = .mov_w__opcode ∧
      Gen.mov_w_route w0 = .mov_w_imm__opcode := by
  refine ⟨?_, ?_⟩ <;> route_tac pat_MOV_W_IMM

theorem route_ADD_W_IMM (w0 w1 w2 w3 w4 : BitVec 16) (hp : Form.pat .ADD_W_IMM w0 w1 w2 w3 w4 = true) :
    Gen.exec_route w0 = .add_w__opcode ∧
      Gen.add_w_route w0 = .add_w_imm__opcode := by
  refine ⟨?_, ?_⟩ <;> route_tac pat_ADD_W_IMM

theorem route_CMP_W_IMM (w0 w1 w2 w3 w4 : BitVec 16) (hp : Form.pat .CMP_W_IMM w0 w1 w2 w3 w4 = true) :
    Gen.exec_route w0 = .cmp_w_imm__opcode := by route_tac pat_CMP_W_IMM

theorem route_SUB_W_IMM (w0 w1 w2 w3 w4 : BitVec 16) (hp : Form.pat .SUB_W_IMM w0 w1 w2 w3 w4 = true) :
    Gen.exec_route w0 = .sub_w__opcode ∧
      Gen.sub_w_route w0 = .sub_w_imm__opcode := by
  refine ⟨?_, ?_⟩ <;> route_tac pat_SUB_W_IMM

theorem route_OR_W_IMM (w0 w1 w2 w3 w4 : BitVec 16) (hp : Form.pat .OR_W_IMM w0 w1 w2 w3 w4 = true) :
    Gen.exec_route w0 = .or_w_imm__opcode := by route_tac pat_OR_W_IMM

theorem route_XOR_W_IMM (w0 w1 w2 w3 w4 : BitVec 16) (hp : Form.pat .XOR_W_IMM w0 w1 w2 w3 w4 = true) :
    Gen.exec_route w0 = .xor_w_imm__opcode := by route_tac pat_XOR_W_IMM

theorem route_AND_W_IMM (w0 w1 w2 w3 w4 : BitVec 16) (hp : Form.pat .AND_W_IMM w0 w1 w2 w3 w4 = true) :
    Gen.exec_route w0 = .and_w_imm__opcode := by route_tac pat_AND_W_IMM

theorem route_MOV_L_IMM (w0 w1 w2 w3 w4 : BitVec 16) (hp : Form.pat .MOV_L_IMM w0 w1 w2 w3 w4 = true) :
    Gen.exec_route w0 = .mov_l__opcode ∧
      Gen.mov_l_route w0 = .mov_l_imm__opcode := by
  refine ⟨?_, ?_⟩ <;> route_tac pat_MOV_L_IMM

theorem route_ADD_L_IMM (w0 w1 w2 w3 w4 : BitVec 16) (hp : Form.pat .ADD_L_IMM w0 w1 w2 w3 w4 = true) :
    Gen.exec_route w0 = .add_l__opcode ∧
      Gen.add_l_route w0 = .add_l_imm__opcode := by
  refine ⟨?_, ?_⟩ <;> route_tac pat_ADD_L_IMM

theorem route_CMP_L_IMM (w0 w1 w2 w3 w4 : BitVec 16) (hp : Form.pat .CMP_L_IMM w0 w1 w2 w3 w4 = true) :
    Gen.exec_route w0 = .cmp_l_imm__opcode := by route_tac pat_CMP_L_IMM


end H8.Props.C07R
