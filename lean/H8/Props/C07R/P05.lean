-- part 5 of the valid-form routing theorems (see Base.lean)
import H8.Props.C07R.Base
namespace H8.Props.C07R
open H8 H8.Spec

theorem route_NOT_B (w0 w1 w2 w3 w4 : BitVec 16) (hp : Form.pat .NOT_B w0 w1 w2 w3 w4 = true) :
    Gen.exec_route w0 = .not_b__opcode := by route_tac pat_NOT_B

theorem route_NOT_W (w0 w1 w2 w3 w4 : BitVec 16) (hp : Form.pat .NOT_W w0 w1 w2 w3 w4 = true) :
    Gen.exec_route w0 = .not_w__opcode := by route_tac pat_NOT_W

theorem route_NOT_L (w0 w1 w2 w3 w4 : BitVec 16) (hp : Form.pat .NOT_L w0 w1 w2 w3 w4 = true) :
    Gen.exec_route w0 = .not_l__opcode := by route_tac pat_NOT_L

theorem route_EXTU_W (w0 w1 w2 w3 w4 : BitVec 16) (hp : Form.pat .EXTU_W w0 w1 w2 w3 w4 = true) :
    Gen.exec_route w0 = .extu_w__opcode := by route_tac pat_EXTU_W

theorem route_EXTU_L (w0 w1 w2 w3 w4 : BitVec 16) (hp : Form.pat .EXTU_L w0 w1 w2 w3 w4 = true) :
    Gen.exec_route w0 = .extu_l__opcode := by route_tac pat_EXTU_L

theorem route_NEG_B (w0 w1 w2 w3 w4 : BitVec 16) (hp : Form.pat .NEG_B w0 w1 w2 w3 w4 = true) :
    Gen.exec_route w0 = .neg_b__opcode := by route_tac pat_NEG_B

theorem route_NEG_W (w0 w1 w2 w3 w4 : BitVec 16) (hp : Form.pat .NEG_W w0 w1 w2 w3 w4 = true) :
    Gen.exec_route w0 = .neg_w__opcode := by route_tac pat_NEG_W

theorem route_NEG_L (w0 w1 w2 w3 w4 : BitVec 16) (hp : Form.pat .NEG_L w0 w1 w2 w3 w4 = true) :
    Gen.exec_route w0 = .neg_l__opcode := by route_tac pat_NEG_L

theorem route_SUB_B_RR (w0 w1 w2 w3 w4 : BitVec 16) (hp : Form.pat .SUB_B_RR w0 w1 w2 w3 w4 = true) :
    Gen.exec_route w0 = .sub_b__opcode := by route_tac pat_SUB_B_RR

theorem route_SUB_W_RR (w0 w1 w2 w3 w4 : BitVec 16) (hp : Form.pat .SUB_W_RR w0 w1 w2 w3 w4 = true) :
    Gen.exec_route w0 = .sub_w__opcode ∧
      Gen.sub_w_route w0 = .sub_w_rn__opcode := by
  refine ⟨?_, ?_⟩ <;> route_tac pat_SUB_W_RR

theorem route_DEC_B (w0 w1 w2 w3 w4 : BitVec 16) (hp : Form.pat .DEC_B w0 w1 w2 w3 w4 = true) :
    Gen.exec_route w0 = .dec_b__opcode := by route_tac pat_DEC_B

theorem route_SUB_L_RR (w0 w1 w2 w3 w4 : BitVec 16) (hp : Form.pat .SUB_L_RR w0 w1 w2 w3 w4 = true) :
    Gen.exec_route w0 = .sub_l__opcode ∧
      Gen.sub_l_route w0 = .sub_l_rn__opcode := by
  refine ⟨?_, ?_⟩ <;> route_tac pat_SUB_L_RR

theorem route_SUBS_1 (w0 w1 w2 w3 w4 : BitVec 16) (hp : Form.pat .SUBS_1 w0 w1 w2 w3 w4 = true) :
    Gen.exec_route w0 = .subs1__opcode := by route_tac pat_SUBS_1

theorem route_SUBS_2 (w0 w1 w2 w3 w4 : BitVec 16) (hp : Form.pat .SUBS_2 w0 w1 w2 w3 w4 = true) :
    Gen.exec_route w0 = .subs2__opcode := by route_tac pat_SUBS_2

theorem route_SUBS_4 (w0 w1 w2 w3 w4 : BitVec 16) (hp : Form.pat .SUBS_4 w0 w1 w2 w3 w4 = true) :
    Gen.exec_route w0 = .subs4__opcode := by route_tac pat_SUBS_4

theorem route_DEC_W_1 (w0 w1 w2 w3 w4 : BitVec 16) (hp : Form.pat .DEC_W_1 w0 w1 w2 w3 w4 = true) :
    Gen.exec_route w0 = .dec_w_1__opcode := by route_tac pat_DEC_W_1


end H8.Props.C07R
