-- part 3 of the valid-form routing theorems (see Base.lean)
import H8.Props.C07R.Base
namespace H8.Props.C07R
open H8 H8.Spec

theorem route_INC_L_2 (w0 w1 w2 w3 w4 : BitVec 16) (hp : Form.pat .INC_L_2 w0 w1 w2 w3 w4 = true) :
    Gen.exec_route w0 = .inc_l_2__opcode := by route_tac pat_INC_L_2

theorem route_MOV_B_RR (w0 w1 w2 w3 w4 : BitVec 16) (hp : Form.pat .MOV_B_RR w0 w1 w2 w3 w4 = true) :
    Gen.exec_route w0 = .mov_b__opcode ∧
      Gen.mov_b_route w0 = .mov_b_rn__opcode := by
  refine ⟨?_, ?_⟩ <;> route_tac pat_MOV_B_RR

theorem route_MOV_W_RR (w0 w1 w2 w3 w4 : BitVec 16) (hp : Form.pat .MOV_W_RR w0 w1 w2 w3 w4 = true) :
    Gen.exec_route w0 = .mov_w__opcode ∧
      Gen.mov_w_route w0 = .mov_w_rn__opcode := by
  refine ⟨?_, ?_⟩ <;> route_tac pat_MOV_W_RR

theorem route_ADDX_RR (w0 w1 w2 w3 w4 : BitVec 16) (hp : Form.pat .ADDX_RR w0 w1 w2 w3 w4 = true) :
    Gen.exec_route w0 = .addx_rn__opcode := by route_tac pat_ADDX_RR

theorem route_MOV_L_RR (w0 w1 w2 w3 w4 : BitVec 16) (hp : Form.pat .MOV_L_RR w0 w1 w2 w3 w4 = true) :
    Gen.exec_route w0 = .mov_l__opcode ∧
      Gen.mov_l_route w0 = .mov_l_rn__opcode := by
  refine ⟨?_, ?_⟩ <;> route_tac pat_MOV_L_RR

theorem route_SHLL_B (w0 w1 w2 w3 w4 : BitVec 16) (hp : Form.pat .SHLL_B w0 w1 w2 w3 w4 = true) :
    Gen.exec_route w0 = .shll_b__opcode := by route_tac pat_SHLL_B

theorem route_SHLL_W (w0 w1 w2 w3 w4 : BitVec 16) (hp : Form.pat .SHLL_W w0 w1 w2 w3 w4 = true) :
    Gen.exec_route w0 = .shll_w__opcode := by route_tac pat_SHLL_W

theorem route_SHLL_L (w0 w1 w2 w3 w4 : BitVec 16) (hp : Form.pat .SHLL_L w0 w1 w2 w3 w4 = true) :
    Gen.exec_route w0 = .shll_l__opcode := by route_tac pat_SHLL_L

theorem route_SHAL_B (w0 w1 w2 w3 w4 : BitVec 16) (hp : Form.pat .SHAL_B w0 w1 w2 w3 w4 = true) :
    Gen.exec_route w0 = .shal_b__opcode := by route_tac pat_SHAL_B

theorem route_SHAL_W (w0 w1 w2 w3 w4 : BitVec 16) (hp : Form.pat .SHAL_W w0 w1 w2 w3 w4 = true) :
    Gen.exec_route w0 = .shal_w__opcode := by route_tac pat_SHAL_W

theorem route_SHAL_L (w0 w1 w2 w3 w4 : BitVec 16) (hp : Form.pat .SHAL_L w0 w1 w2 w3 w4 = true) :
    Gen.exec_route w0 = .shal_l__opcode := by route_tac pat_SHAL_L

theorem route_SHLR_B (w0 w1 w2 w3 w4 : BitVec 16) (hp : Form.pat .SHLR_B w0 w1 w2 w3 w4 = true) :
    Gen.exec_route w0 = .shlr_b__opcode := by route_tac pat_SHLR_B

theorem route_SHLR_W (w0 w1 w2 w3 w4 : BitVec 16) (hp : Form.pat .SHLR_W w0 w1 w2 w3 w4 = true) :
    Gen.exec_route w0 = .shlr_w__opcode := by route_tac pat_SHLR_W

theorem route_SHLR_L (w0 w1 w2 w3 w4 : BitVec 16) (hp : Form.pat .SHLR_L w0 w1 w2 w3 w4 = true) :
    Gen.exec_route w0 = .shlr_l__opcode := by route_tac pat_SHLR_L

theorem route_SHAR_B (w0 w1 w2 w3 w4 : BitVec 16) (hp : Form.pat .SHAR_B w0 w1 w2 w3 w4 = true) :
    Gen.exec_route w0 = .shar_b__opcode := by route_tac pat_SHAR_B

theorem route_SHAR_W (w0 w1 w2 w3 w4 : BitVec 16) (hp : Form.pat .SHAR_W w0 w1 w2 w3 w4 = true) :
    Gen.exec_route w0 = .shar_w__opcode := by route_tac pat_SHAR_W


end H8.Props.C07R
