-- part 12 of the valid-form routing theorems (see Base.lean)
import H8.Props.C07R.Base
namespace H8.Props.C07R
open H8 H8.Spec

theorem route_BCLR_RN_IND (w0 w1 w2 w3 w4 : BitVec 16) (hp : Form.pat .BCLR_RN_IND w0 w1 w2 w3 w4 = true) :
    Gen.exec_route w0 = .pfx_exec_route_4 ∧
      Gen.exec_route_4 w0 w1 = .bclr_ern__opcode_opcode2 := by
  refine ⟨?_, ?_⟩ <;> route_tac pat_BCLR_RN_IND

theorem route_BST_IND (w0 w1 w2 w3 w4 : BitVec 16) (hp : Form.pat .BST_IND w0 w1 w2 w3 w4 = true) :
    Gen.exec_route w0 = .pfx_exec_route_4 ∧
      Gen.exec_route_4 w0 w1 = .bst_ern__opcode_opcode2 := by
  refine ⟨?_, ?_⟩ <;> route_tac pat_BST_IND

theorem route_BIST_IND (w0 w1 w2 w3 w4 : BitVec 16) (hp : Form.pat .BIST_IND w0 w1 w2 w3 w4 = true) :
    Gen.exec_route w0 = .pfx_exec_route_4 ∧
      Gen.exec_route_4 w0 w1 = .bist_ern__opcode_opcode2 := by
  refine ⟨?_, ?_⟩ <;> route_tac pat_BIST_IND

theorem route_BSET_I_IND (w0 w1 w2 w3 w4 : BitVec 16) (hp : Form.pat .BSET_I_IND w0 w1 w2 w3 w4 = true) :
    Gen.exec_route w0 = .pfx_exec_route_4 ∧
      Gen.exec_route_4 w0 w1 = .bset_ern__opcode_opcode2 := by
  refine ⟨?_, ?_⟩ <;> route_tac pat_BSET_I_IND

theorem route_BNOT_I_IND (w0 w1 w2 w3 w4 : BitVec 16) (hp : Form.pat .BNOT_I_IND w0 w1 w2 w3 w4 = true) :
    Gen.exec_route w0 = .pfx_exec_route_4 ∧
      Gen.exec_route_4 w0 w1 = .bnot_ern__opcode_opcode2 := by
  refine ⟨?_, ?_⟩ <;> route_tac pat_BNOT_I_IND

theorem route_BCLR_I_IND (w0 w1 w2 w3 w4 : BitVec 16) (hp : Form.pat .BCLR_I_IND w0 w1 w2 w3 w4 = true) :
    Gen.exec_route w0 = .pfx_exec_route_4 ∧
      Gen.exec_route_4 w0 w1 = .bclr_ern__opcode_opcode2 := by
  refine ⟨?_, ?_⟩ <;> route_tac pat_BCLR_I_IND

theorem route_BTST_RN_AA8 (w0 w1 w2 w3 w4 : BitVec 16) (hp : Form.pat .BTST_RN_AA8 w0 w1 w2 w3 w4 = true) :
    Gen.exec_route w0 = .pfx_exec_route_5 ∧
      Gen.exec_route_5 w0 w1 = .btst_rn_abs__opcode_opcode2 := by
  refine ⟨?_, ?_⟩ <;> route_tac pat_BTST_RN_AA8

theorem route_BTST_I_AA8 (w0 w1 w2 w3 w4 : BitVec 16) (hp : Form.pat .BTST_I_AA8 w0 w1 w2 w3 w4 = true) :
    Gen.exec_route w0 = .pfx_exec_route_5 ∧
      Gen.exec_route_5 w0 w1 = .btst_imm_abs__opcode_opcode2 := by
  refine ⟨?_, ?_⟩ <;> route_tac pat_BTST_I_AA8

theorem route_BOR_AA8 (w0 w1 w2 w3 w4 : BitVec 16) (hp : Form.pat .BOR_AA8 w0 w1 w2 w3 w4 = true) :
    Gen.exec_route w0 = .pfx_exec_route_5 ∧
      Gen.exec_route_5 w0 w1 = .bor_abs__opcode_opcode2 := by
  refine ⟨?_, ?_⟩ <;> route_tac pat_BOR_AA8

theorem route_BIOR_AA8 (w0 w1 w2 w3 w4 : BitVec 16) (hp : Form.pat .BIOR_AA8 w0 w1 w2 w3 w4 = true) :
    Gen.exec_route w0 = .pfx_exec_route_5 ∧
      Gen.exec_route_5 w0 w1 = .bior_abs__opcode_opcode2 := by
  refine ⟨?_, ?_⟩ <;> route_tac pat_BIOR_AA8

theorem route_BXOR_AA8 (w0 w1 w2 w3 w4 : BitVec 16) (hp : Form.pat .BXOR_AA8 w0 w1 w2 w3 w4 = true) :
    Gen.exec_route w0 = .pfx_exec_route_5 ∧
      Gen.exec_route_5 w0 w1 = .bxor_abs__opcode_opcode2 := by
  refine ⟨?_, ?_⟩ <;> route_tac pat_BXOR_AA8

theorem route_BIXOR_AA8 (w0 w1 w2 w3 w4 : BitVec 16) (hp : Form.pat .BIXOR_AA8 w0 w1 w2 w3 w4 = true) :
    Gen.exec_route w0 = .pfx_exec_route_5 ∧
      Gen.exec_route_5 w0 w1 = .bixor_abs__opcode_opcode2 := by
  refine ⟨?_, ?_⟩ <;> route_tac pat_BIXOR_AA8

theorem route_BAND_AA8 (w0 w1 w2 w3 w4 : BitVec 16) (hp : Form.pat .BAND_AA8 w0 w1 w2 w3 w4 = true) :
    Gen.exec_route w0 = .pfx_exec_route_5 ∧
      Gen.exec_route_5 w0 w1 = .band_abs__opcode_opcode2 := by
  refine ⟨?_, ?_⟩ <;> route_tac pat_BAND_AA8

theorem route_BIAND_AA8 (w0 w1 w2 w3 w4 : BitVec 16) (hp : Form.pat .BIAND_AA8 w0 w1 w2 w3 w4 = true) :
    Gen.exec_route w0 = .pfx_exec_route_5 ∧
      Gen.exec_route_5 w0 w1 = .biand_abs__opcode_opcode2 := by
  refine ⟨?_, ?_⟩ <;> route_tac pat_BIAND_AA8

theorem route_BLD_AA8 (w0 w1 w2 w3 w4 : BitVec 16) (hp : Form.pat .BLD_AA8 w0 w1 w2 w3 w4 = true) :
    Gen.exec_route w0 = .pfx_exec_route_5 ∧
      Gen.exec_route_5 w0 w1 = .bld_abs__opcode_opcode2 := by
  refine ⟨?_, ?_⟩ <;> route_tac pat_BLD_AA8

theorem route_BILD_AA8 (w0 w1 w2 w3 w4 : BitVec 16) (hp : Form.pat .BILD_AA8 w0 w1 w2 w3 w4 = true) :
    Gen.exec_route w0 = .pfx_exec_route_5 ∧
      Gen.exec_route_5 w0 w1 = .bild_abs__opcode_opcode2 := by
  refine ⟨?_, ?_⟩ <;> route_tac pat_BILD_AA8


end H8.Props.C07R
