-- part 8 of the valid-form routing theorems (see Base.lean)
import H8.Props.C07R.Base
namespace H8.Props.C07R
open H8 H8.Spec

theorem route_BST_R (w0 w1 w2 w3 w4 : BitVec 16) (hp : Form.pat .BST_R w0 w1 w2 w3 w4 = true) :
    Gen.exec_route w0 = .bst_rn__opcode := by route_tac pat_BST_R

theorem route_BIST_R (w0 w1 w2 w3 w4 : BitVec 16) (hp : Form.pat .BIST_R w0 w1 w2 w3 w4 = true) :
    Gen.exec_route w0 = .bist_rn__opcode := by route_tac pat_BIST_R

theorem route_MOV_B_LD_IND (w0 w1 w2 w3 w4 : BitVec 16) (hp : Form.pat .MOV_B_LD_IND w0 w1 w2 w3 w4 = true) :
    Gen.exec_route w0 = .mov_b__opcode ∧
      Gen.mov_b_route w0 = .mov_b_ern__opcode := by
  refine ⟨?_, ?_⟩ <;> route_tac pat_MOV_B_LD_IND

theorem route_MOV_B_ST_IND (w0 w1 w2 w3 w4 : BitVec 16) (hp : Form.pat .MOV_B_ST_IND w0 w1 w2 w3 w4 = true) :
    Gen.exec_route w0 = .mov_b__opcode ∧
      Gen.mov_b_route w0 = .mov_b_ern__opcode := by
  refine ⟨?_, ?_⟩ <;> route_tac pat_MOV_B_ST_IND

theorem route_MOV_W_LD_IND (w0 w1 w2 w3 w4 : BitVec 16) (hp : Form.pat .MOV_W_LD_IND w0 w1 w2 w3 w4 = true) :
    Gen.exec_route w0 = .mov_w__opcode ∧
      Gen.mov_w_route w0 = .mov_w_ern__opcode := by
  refine ⟨?_, ?_⟩ <;> route_tac pat_MOV_W_LD_IND

theorem route_MOV_W_ST_IND (w0 w1 w2 w3 w4 : BitVec 16) (hp : Form.pat .MOV_W_ST_IND w0 w1 w2 w3 w4 = true) :
    Gen.exec_route w0 = .mov_w__opcode ∧
      Gen.mov_w_route w0 = .mov_w_ern__opcode := by
  refine ⟨?_, ?_⟩ <;> route_tac pat_MOV_W_ST_IND

theorem route_MOV_B_LD_AA16 (w0 w1 w2 w3 w4 : BitVec 16) (hp : Form.pat .MOV_B_LD_AA16 w0 w1 w2 w3 w4 = true) :
    Gen.exec_route w0 = .mov_b__opcode ∧
      Gen.mov_b_route w0 = .mov_b_abs_16_or_24__opcode ∧
      Gen.mov_b_abs_16_or_24_route w0 = .mov_b_abs16__opcode := by
  refine ⟨?_, ?_, ?_⟩ <;> route_tac pat_MOV_B_LD_AA16

theorem route_MOV_B_LD_AA24 (w0 w1 w2 w3 w4 : BitVec 16) (hp : Form.pat .MOV_B_LD_AA24 w0 w1 w2 w3 w4 = true) :
    Gen.exec_route w0 = .mov_b__opcode ∧
      Gen.mov_b_route w0 = .mov_b_abs_16_or_24__opcode ∧
      Gen.mov_b_abs_16_or_24_route w0 = .mov_b_abs24__opcode := by
  refine ⟨?_, ?_, ?_⟩ <;> route_tac pat_MOV_B_LD_AA24

theorem route_MOV_B_ST_AA16 (w0 w1 w2 w3 w4 : BitVec 16) (hp : Form.pat .MOV_B_ST_AA16 w0 w1 w2 w3 w4 = true) :
    Gen.exec_route w0 = .mov_b__opcode ∧
      Gen.mov_b_route w0 = .mov_b_abs_16_or_24__opcode ∧
      Gen.mov_b_abs_16_or_24_route w0 = .mov_b_abs16__opcode := by
  refine ⟨?_, ?_, ?_⟩ <;> route_tac pat_MOV_B_ST_AA16

theorem route_MOV_B_ST_AA24 (w0 w1 w2 w3 w4 : BitVec 16) (hp : Form.pat .MOV_B_ST_AA24 w0 w1 w2 w3 w4 = true) :
    Gen.exec_route w0 = .mov_b__opcode ∧
      Gen.mov_b_route w0 = .mov_b_abs_16_or_24__opcode ∧
      Gen.mov_b_abs_16_or_24_route w0 = .mov_b_abs24__opcode := by
  refine ⟨?_, ?_, ?_⟩ <;> route_tac pat_MOV_B_ST_AA24

theorem route_MOV_W_LD_AA16 (w0 w1 w2 w3 w4 : BitVec 16) (hp : Form.pat .MOV_W_LD_AA16 w0 w1 w2 w3 w4 = true) :
    Gen.exec_route w0 = .mov_w__opcode ∧
      Gen.mov_w_route w0 = .mov_w_abs16__opcode := by
  refine ⟨?_, ?_⟩ <;> route_tac pat_MOV_W_LD_AA16

theorem route_MOV_W_LD_AA24 (w0 w1 w2 w3 w4 : BitVec 16) (hp : Form.pat .MOV_W_LD_AA24 w0 w1 w2 w3 w4 = true) :
    Gen.exec_route w0 = .mov_w__opcode ∧
      Gen.mov_w_route w0 = .mov_w_abs24__opcode := by
  refine ⟨?_, ?_⟩ <;> route_tac pat_MOV_W_LD_AA24

theorem route_MOV_W_ST_AA16 (w0 w1 w2 w3 w4 : BitVec 16) (hp : Form.pat .MOV_W_ST_AA16 w0 w1 w2 w3 w4 = true) :
    Gen.exec_route w0 = .mov_w__opcode ∧
      Gen.mov_w_route w0 = .mov_w_abs16__opcode := by
  refine ⟨?_, ?_⟩ <;> route_tac pat_MOV_W_ST_AA16

theorem route_MOV_W_ST_AA24 (w0 w1 w2 w3 w4 : BitVec 16) (hp : Form.pat .MOV_W_ST_AA24 w0 w1 w2 w3 w4 = true) :
    Gen.exec_route w0 = .mov_w__opcode ∧
      Gen.mov_w_route w0 = .mov_w_abs24__opcode := by
  refine ⟨?_, ?_⟩ <;> route_tac pat_MOV_W_ST_AA24

theorem route_MOV_B_LD_POSTINC (w0 w1 w2 w3 w4 : BitVec 16) (hp : Form.pat .MOV_B_LD_POSTINC w0 w1 w2 w3 w4 = true) :
    Gen.exec_route w0 = .mov_b__opcode ∧
      Gen.mov_b_route w0 = .mov_b_inc_or_dec__opcode := by
  refine ⟨?_, ?_⟩ <;> route_tac pat_MOV_B_LD_POSTINC

theorem route_MOV_B_ST_PREDEC (w0 w1 w2 w3 w4 : BitVec 16) (hp : Form.pat .MOV_B_ST_PREDEC w0 w1 w2 w3 w4 = true) :
    Gen.exec_route w0 = .mov_b__opcode ∧
      Gen.mov_b_route w0 = .mov_b_inc_or_dec__opcode := by
  refine ⟨?_, ?_⟩ <;> route_tac pat_MOV_B_ST_PREDEC


end H8.Props.C07R
