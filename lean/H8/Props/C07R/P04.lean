-- part 4 of the valid-form routing theorems (see Base.lean)
import H8.Props.C07R.Base
namespace H8.Props.C07R
open H8 H8.Spec

theorem route_SHAR_L (w0 w1 w2 w3 w4 : BitVec 16) (hp : Form.pat .SHAR_L w0 w1 w2 w3 w4 = true) :
    Gen.exec_route w0 = .shar_l__opcode := by route_tac pat_SHAR_L

theorem route_ROTXL_B (w0 w1 w2 w3 w4 : BitVec 16) (hp : Form.pat .ROTXL_B w0 w1 w2 w3 w4 = true) :
    Gen.exec_route w0 = .rotxl_b__opcode := by route_tac pat_ROTXL_B

theorem route_ROTXL_W (w0 w1 w2 w3 w4 : BitVec 16) (hp : Form.pat .ROTXL_W w0 w1 w2 w3 w4 = true) :
    Gen.exec_route w0 = .rotxl_w__opcode := by route_tac pat_ROTXL_W

theorem route_ROTXL_L (w0 w1 w2 w3 w4 : BitVec 16) (hp : Form.pat .ROTXL_L w0 w1 w2 w3 w4 = true) :
    Gen.exec_route w0 = .rotxl_l__opcode := by route_tac pat_ROTXL_L

theorem route_ROTL_B (w0 w1 w2 w3 w4 : BitVec 16) (hp : Form.pat .ROTL_B w0 w1 w2 w3 w4 = true) :
    Gen.exec_route w0 = .rotl_b__opcode := by route_tac pat_ROTL_B

theorem route_ROTL_W (w0 w1 w2 w3 w4 : BitVec 16) (hp : Form.pat .ROTL_W w0 w1 w2 w3 w4 = true) :
    Gen.exec_route w0 = .rotl_w__opcode := by route_tac pat_ROTL_W

theorem route_ROTL_L (w0 w1 w2 w3 w4 : BitVec 16) (hp : Form.pat .ROTL_L w0 w1 w2 w3 w4 = true) :
    Gen.exec_route w0 = .rotl_l__opcode := by route_tac pat_ROTL_L

theorem route_ROTXR_B (w0 w1 w2 w3 w4 : BitVec 16) (hp : Form.pat .ROTXR_B w0 w1 w2 w3 w4 = true) :
    Gen.exec_route w0 = .rotxr_b__opcode := by route_tac pat_ROTXR_B

theorem route_ROTXR_W (w0 w1 w2 w3 w4 : BitVec 16) (hp : Form.pat .ROTXR_W w0 w1 w2 w3 w4 = true) :
    Gen.exec_route w0 = .rotxr_w__opcode := by route_tac pat_ROTXR_W

theorem route_ROTXR_L (w0 w1 w2 w3 w4 : BitVec 16) (hp : Form.pat .ROTXR_L w0 w1 w2 w3 w4 = true) :
    Gen.exec_route w0 = .rotxr_l__opcode := by route_tac pat_ROTXR_L

theorem route_ROTR_B (w0 w1 w2 w3 w4 : BitVec 16) (hp : Form.pat .ROTR_B w0 w1 w2 w3 w4 = true) :
    Gen.exec_route w0 = .rotr_b__opcode := by route_tac pat_ROTR_B

theorem route_ROTR_W (w0 w1 w2 w3 w4 : BitVec 16) (hp : Form.pat .ROTR_W w0 w1 w2 w3 w4 = true) :
    Gen.exec_route w0 = .rotr_w__opcode := by route_tac pat_ROTR_W

theorem route_ROTR_L (w0 w1 w2 w3 w4 : BitVec 16) (hp : Form.pat .ROTR_L w0 w1 w2 w3 w4 = true) :
    Gen.exec_route w0 = .rotr_l__opcode := by route_tac pat_ROTR_L

theorem route_OR_B_RR (w0 w1 w2 w3 w4 : BitVec 16) (hp : Form.pat .OR_B_RR w0 w1 w2 w3 w4 = true) :
    Gen.exec_route w0 = .or_b_rn__opcode := by route_tac pat_OR_B_RR

theorem route_XOR_B_RR (w0 w1 w2 w3 w4 : BitVec 16) (hp : Form.pat .XOR_B_RR w0 w1 w2 w3 w4 = true) :
    Gen.exec_route w0 = .xor_b_rn__opcode := by route_tac pat_XOR_B_RR

theorem route_AND_B_RR (w0 w1 w2 w3 w4 : BitVec 16) (hp : Form.pat .AND_B_RR w0 w1 w2 w3 w4 = true) :
    Gen.exec_route w0 = .and_b_rn__opcode := by route_tac pat_AND_B_RR


end H8.Props.C07R
