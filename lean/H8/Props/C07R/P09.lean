-- part 9 of the valid-form routing theorems (see Base.lean)
import H8.Props.C07R.Base
namespace H8.Props.C07R
open H8 H8.Spec

theorem route_MOV_W_LD_POSTINC (w0 w1 w2 w3 w4 : BitVec 16) (hp : Form.pat .MOV_W_LD_POSTINC w0 w1 w2 w3 w4 = true) :
    Gen.exec_route w0 = .mov_w__opcode ∧
      Gen.mov_w_route w0 = .mov_w_inc_or_dec__opcode := by
  refine ⟨?_, ?_⟩ <;> route_tac pat_MOV_W_LD_POSTINC

theorem route_MOV_W_ST_PREDEC (w0 w1 w2 w3 w4 : BitVec 16) (hp : Form.pat .MOV_W_ST_PREDEC w0 w1 w2 w3 w4 = true) :
    Gen.exec_route w0 = .mov_w__opcode ∧
      Gen.mov_w_route w0 = .mov_w_inc_or_dec__opcode := by
  refine ⟨?_, ?_⟩ <;> route_tac pat_MOV_W_ST_PREDEC

theorem route_MOV_B_LD_D16 (w0 w1 w2 w3 w4 : BitVec 16) (hp : Form.pat .MOV_B_LD_D16 w0 w1 w2 w3 w4 = true) :
    Gen.exec_route w0 = .mov_b__opcode ∧
      Gen.mov_b_route w0 = .mov_b_disp16__opcode := by
  refine ⟨?_, ?_⟩ <;> route_tac pat_MOV_B_LD_D16

theorem route_MOV_B_ST_D16 (w0 w1 w2 w3 w4 : BitVec 16) (hp : Form.pat .MOV_B_ST_D16 w0 w1 w2 w3 w4 = true) :
    Gen.exec_route w0 = .mov_b__opcode ∧
      Gen.mov_b_route w0 = .mov_b_disp16__opcode := by
  refine ⟨?_, ?_⟩ <;> route_tac pat_MOV_B_ST_D16

theorem route_MOV_W_LD_D16 (w0 w1 w2 w3 w4 : BitVec 16) (hp : Form.pat .MOV_W_LD_D16 w0 w1 w2 w3 w4 = true) :
    Gen.exec_route w0 = .mov_w__opcode ∧
      Gen.mov_w_route w0 = .mov_w_disp16__opcode := by
  refine ⟨?_, ?_⟩ <;> route_tac pat_MOV_W_LD_D16

theorem route_MOV_W_ST_D16 (w0 w1 w2 w3 w4 : BitVec 16) (hp : Form.pat .MOV_W_ST_D16 w0 w1 w2 w3 w4 = true) :
    Gen.exec_route w0 = .mov_w__opcode ∧
      Gen.mov_w_route w0 = .mov_w_disp16__opcode := by
  refine ⟨?_, ?_⟩ <;> route_tac pat_MOV_W_ST_D16

theorem route_BSET_I (w0 w1 w2 w3 w4 : BitVec 16) (hp : Form.pat .BSET_I w0 w1 w2 w3 w4 = true) :
    Gen.exec_route w0 = .bset_rn_from_imm__opcode := by route_tac pat_BSET_I

theorem route_BNOT_I (w0 w1 w2 w3 w4 : BitVec 16) (hp : Form.pat .BNOT_I w0 w1 w2 w3 w4 = true) :
    Gen.exec_route w0 = .bnot_rn_from_imm__opcode := by route_tac pat_BNOT_I

theorem route_BCLR_I (w0 w1 w2 w3 w4 : BitVec 16) (hp : Form.pat .BCLR_I w0 w1 w2 w3 w4 = true) :
    Gen.exec_route w0 = .bclr_rn_from_imm__opcode := by route_tac pat_BCLR_I

theorem route_BTST_I (w0 w1 w2 w3 w4 : BitVec 16) (hp : Form.pat .BTST_I w0 w1 w2 w3 w4 = true) :
    Gen.exec_route w0 = .btst_imm_rn__opcode := by route_tac pat_BTST_I

theorem route_BOR_R (w0 w1 w2 w3 w4 : BitVec 16) (hp : Form.pat .BOR_R w0 w1 w2 w3 w4 = true) :
    Gen.exec_route w0 = .bor_rn__opcode := by route_tac pat_BOR_R

theorem route_BIOR_R (w0 w1 w2 w3 w4 : BitVec 16) (hp : Form.pat .BIOR_R w0 w1 w2 w3 w4 = true) :
    Gen.exec_route w0 = .bior_rn__opcode := by route_tac pat_BIOR_R

theorem route_BXOR_R (w0 w1 w2 w3 w4 : BitVec 16) (hp : Form.pat .BXOR_R w0 w1 w2 w3 w4 = true) :
    Gen.exec_route w0 = .bxor_rn__opcode := by route_tac pat_BXOR_R

theorem route_BIXOR_R (w0 w1 w2 w3 w4 : BitVec 16) (hp : Form.pat .BIXOR_R w0 w1 w2 w3 w4 = true) :
    Gen.exec_route w0 = .bixor_rn__opcode := by route_tac pat_BIXOR_R

theorem route_BAND_R (w0 w1 w2 w3 w4 : BitVec 16) (hp : Form.pat .BAND_R w0 w1 w2 w3 w4 = true) :
    Gen.exec_route w0 = .band_rn__opcode := by route_tac pat_BAND_R

theorem route_BIAND_R (w0 w1 w2 w3 w4 : BitVec 16) (hp : Form.pat .BIAND_R w0 w1 w2 w3 w4 = true) :
    Gen.exec_route w0 = .biand_rn__opcode := by route_tac pat_BIAND_R


end H8.Props.C07R
