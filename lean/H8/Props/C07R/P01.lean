-- part 1 of the valid-form routing theorems (see Base.lean)
import H8.Props.C07R.Base
namespace H8.Props.C07R
open H8 H8.Spec

theorem route_MOV_L_LD_IND (w0 w1 w2 w3 w4 : BitVec 16) (hp : Form.pat .MOV_L_LD_IND w0 w1 w2 w3 w4 = true) :
    Gen.exec_route w0 = .mov_l__opcode ∧
      Gen.mov_l_route w0 = .pfx_mov_l_route_0 ∧
      Gen.mov_l_route_0 w0 w1 = .mov_l_ern__opcode2 := by
  refine ⟨?_, ?_, ?_⟩ <;> route_tac pat_MOV_L_LD_IND

theorem route_MOV_L_ST_IND (w0 w1 w2 w3 w4 : BitVec 16) (hp : Form.pat .MOV_L_ST_IND w0 w1 w2 w3 w4 = true) :
    Gen.exec_route w0 = .mov_l__opcode ∧
      Gen.mov_l_route w0 = .pfx_mov_l_route_0 ∧
      Gen.mov_l_route_0 w0 w1 = .mov_l_ern__opcode2 := by
  refine ⟨?_, ?_, ?_⟩ <;> route_tac pat_MOV_L_ST_IND

theorem route_MOV_L_LD_AA16 (w0 w1 w2 w3 w4 : BitVec 16) (hp : Form.pat .MOV_L_LD_AA16 w0 w1 w2 w3 w4 = true) :
    Gen.exec_route w0 = .mov_l__opcode ∧
      Gen.mov_l_route w0 = .pfx_mov_l_route_0 ∧
      Gen.mov_l_route_0 w0 w1 = .mov_l_abs16__opcode2 := by
  refine ⟨?_, ?_, ?_⟩ <;> route_tac pat_MOV_L_LD_AA16

theorem route_MOV_L_ST_AA16 (w0 w1 w2 w3 w4 : BitVec 16) (hp : Form.pat .MOV_L_ST_AA16 w0 w1 w2 w3 w4 = true) :
    Gen.exec_route w0 = .mov_l__opcode ∧
      Gen.mov_l_route w0 = .pfx_mov_l_route_0 ∧
      Gen.mov_l_route_0 w0 w1 = .mov_l_abs16__opcode2 := by
  refine ⟨?_, ?_, ?_⟩ <;> route_tac pat_MOV_L_ST_AA16

theorem route_MOV_L_LD_AA24 (w0 w1 w2 w3 w4 : BitVec 16) (hp : Form.pat .MOV_L_LD_AA24 w0 w1 w2 w3 w4 = true) :
    Gen.exec_route w0 = .mov_l__opcode ∧
      Gen.mov_l_route w0 = .pfx_mov_l_route_0 ∧
      Gen.mov_l_route_0 w0 w1 = .mov_l_abs24__opcode2 := by
  refine ⟨?_, ?_, ?_⟩ <;> route_tac pat_MOV_L_LD_AA24

theorem route_MOV_L_ST_AA24 (w0 w1 w2 w3 w4 : BitVec 16) (hp : Form.pat .MOV_L_ST_AA24 w0 w1 w2 w3 w4 = true) :
    Gen.exec_route w0 = .mov_l__opcode ∧
      Gen.mov_l_route w0 = .pfx_mov_l_route_0 ∧
      Gen.mov_l_route_0 w0 w1 = .mov_l_abs24__opcode2 := by
  refine ⟨?_, ?_, ?_⟩ <;> route_tac pat_MOV_L_ST_AA24

theorem route_MOV_L_LD_POSTINC (w0 w1 w2 w3 w4 : BitVec 16) (hp : Form.pat .MOV_L_LD_POSTINC w0 w1 w2 w3 w4 = true) :
    Gen.exec_route w0 = .mov_l__opcode ∧
      Gen.mov_l_route w0 = .pfx_mov_l_route_0 ∧
      Gen.mov_l_route_0 w0 w1 = .mov_l_inc_or_dec__opcode2 := by
  refine ⟨?_, ?_, ?_⟩ <;> route_tac pat_MOV_L_LD_POSTINC

theorem route_MOV_L_ST_PREDEC (w0 w1 w2 w3 w4 : BitVec 16) (hp : Form.pat .MOV_L_ST_PREDEC w0 w1 w2 w3 w4 = true) :
    Gen.exec_route w0 = .mov_l__opcode ∧
      Gen.mov_l_route w0 = .pfx_mov_l_route_0 ∧
      Gen.mov_l_route_0 w0 w1 = .mov_l_inc_or_dec__opcode2 := by
  refine ⟨?_, ?_, ?_⟩ <;> route_tac pat_MOV_L_ST_PREDEC

theorem route_MOV_L_LD_D16 (w0 w1 w2 w3 w4 : BitVec 16) (hp : Form.pat .MOV_L_LD_D16 w0 w1 w2 w3 w4 = true) :
    Gen.exec_route w0 = .mov_l__opcode ∧
      Gen.mov_l_route w0 = .pfx_mov_l_route_0 ∧
      Gen.mov_l_route_0 w0 w1 = .mov_l_disp16__opcode2 := by
  refine ⟨?_, ?_, ?_⟩ <;> route_tac pat_MOV_L_LD_D16

theorem route_MOV_L_ST_D16 (w0 w1 w2 w3 w4 : BitVec 16) (hp : Form.pat .MOV_L_ST_D16 w0 w1 w2 w3 w4 = true) :
    Gen.exec_route w0 = .mov_l__opcode ∧
      Gen.mov_l_route w0 = .pfx_mov_l_route_0 ∧
      Gen.mov_l_route_0 w0 w1 = .mov_l_disp16__opcode2 := by
  refine ⟨?_, ?_, ?_⟩ <;> route_tac pat_MOV_L_ST_D16

theorem route_MOV_L_LD_D24 (w0 w1 w2 w3 w4 : BitVec 16) (hp : Form.pat .MOV_L_LD_D24 w0 w1 w2 w3 w4 = true) :
    Gen.exec_route w0 = .mov_l__opcode ∧
      Gen.mov_l_route w0 = .pfx_mov_l_route_0 ∧
      Gen.mov_l_route_0 w0 w1 = .mov_l_disp24__opcode2 := by
  refine ⟨?_, ?_, ?_⟩ <;> route_tac pat_MOV_L_LD_D24

theorem route_MOV_L_ST_D24 (w0 w1 w2 w3 w4 : BitVec 16) (hp : Form.pat .MOV_L_ST_D24 w0 w1 w2 w3 w4 = true) :
    Gen.exec_route w0 = .mov_l__opcode ∧
      Gen.mov_l_route w0 = .pfx_mov_l_route_0 ∧
      Gen.mov_l_route_0 w0 w1 = .mov_l_disp24__opcode2 := by
  refine ⟨?_, ?_, ?_⟩ <;> route_tac pat_MOV_L_ST_D24

theorem route_STC_W_IND (w0 w1 w2 w3 w4 : BitVec 16) (hp : Form.pat .STC_W_IND w0 w1 w2 w3 w4 = true) :
    Gen.exec_route w0 = .pfx_exec_route_0 ∧
      Gen.exec_route_0 w0 w1 = .stc_w_ern__opcode2 := by
  refine ⟨?_, ?_⟩ <;> route_tac pat_STC_W_IND

theorem route_STC_W_AA16 (w0 w1 w2 w3 w4 : BitVec 16) (hp : Form.pat .STC_W_AA16 w0 w1 w2 w3 w4 = true) :
    Gen.exec_route w0 = .pfx_exec_route_0 ∧
      Gen.exec_route_0 w0 w1 = .stc_abs16__ := by
  refine ⟨?_, ?_⟩ <;> route_tac pat_STC_W_AA16

theorem route_STC_W_AA24 (w0 w1 w2 w3 w4 : BitVec 16) (hp : Form.pat .STC_W_AA24 w0 w1 w2 w3 w4 = true) :
    Gen.exec_route w0 = .pfx_exec_route_0 ∧
      Gen.exec_route_0 w0 w1 = .stc_abs24__ := by
  refine ⟨?_, ?_⟩ <;> route_tac pat_STC_W_AA24

theorem route_STC_W_PREDEC (w0 w1 w2 w3 w4 : BitVec 16) (hp : Form.pat .STC_W_PREDEC w0 w1 w2 w3 w4 = true) :
    Gen.exec_route w0 = .pfx_exec_route_0 ∧
      Gen.exec_route_0 w0 w1 = .stc_w_inc_ern__opcode2 := by
  refine ⟨?_, ?_⟩ <;> route_tac pat_STC_W_PREDEC


end H8.Props.C07R
