-- part 7 of the valid-form routing theorems (see Base.lean)
import H8.Props.C07R.Base
namespace H8.Props.C07R
open H8 H8.Spec

theorem route_TRAPA (w0 w1 w2 w3 w4 : BitVec 16) (hp : Form.pat .TRAPA w0 w1 w2 w3 w4 = true) :
    Gen.exec_route w0 = .trapa__opcode := by route_tac pat_TRAPA

theorem route_BCC_D16 (w0 w1 w2 w3 w4 : BitVec 16) (hp : Form.pat .BCC_D16 w0 w1 w2 w3 w4 = true) :
    Gen.exec_route w0 = .bcc__opcode ∧
      Gen.bcc_route w0 = bcc16Leaf (w0.extractLsb' 4 4) := by
  refine ⟨?_, ?_⟩
  · route_tac pat_BCC_D16
  · rw [pat_BCC_D16] at hp; simp only [Bool.and_eq_true, beq_iff_eq] at hp
    simp only [Gen.bcc_route, bcc16Leaf]
    bv_decide

theorem route_JMP_REG (w0 w1 w2 w3 w4 : BitVec 16) (hp : Form.pat .JMP_REG w0 w1 w2 w3 w4 = true) :
    Gen.exec_route w0 = .jmp__opcode ∧
      Gen.jmp_route w0 = .jmp_ern__opcode := by
  refine ⟨?_, ?_⟩ <;> route_tac pat_JMP_REG

theorem route_JMP_ABS (w0 w1 w2 w3 w4 : BitVec 16) (hp : Form.pat .JMP_ABS w0 w1 w2 w3 w4 = true) :
    Gen.exec_route w0 = .jmp__opcode ∧
      Gen.jmp_route w0 = .jmp_abs__opcode := by
  refine ⟨?_, ?_⟩ <;> route_tac pat_JMP_ABS

theorem route_JMP_MEMIND (w0 w1 w2 w3 w4 : BitVec 16) (hp : Form.pat .JMP_MEMIND w0 w1 w2 w3 w4 = true) :
    Gen.exec_route w0 = .jmp__opcode ∧
      Gen.jmp_route w0 = .jmp_indirect__opcode := by
  refine ⟨?_, ?_⟩ <;> route_tac pat_JMP_MEMIND

theorem route_BSR_D16 (w0 w1 w2 w3 w4 : BitVec 16) (hp : Form.pat .BSR_D16 w0 w1 w2 w3 w4 = true) :
    Gen.exec_route w0 = .bsr_disp24__opcode := by route_tac pat_BSR_D16

theorem route_JSR_REG (w0 w1 w2 w3 w4 : BitVec 16) (hp : Form.pat .JSR_REG w0 w1 w2 w3 w4 = true) :
    Gen.exec_route w0 = .jsr__opcode ∧
      Gen.jsr_route w0 = .jsr_ern__opcode := by
  refine ⟨?_, ?_⟩ <;> route_tac pat_JSR_REG

theorem route_JSR_ABS (w0 w1 w2 w3 w4 : BitVec 16) (hp : Form.pat .JSR_ABS w0 w1 w2 w3 w4 = true) :
    Gen.exec_route w0 = .jsr__opcode ∧
      Gen.jsr_route w0 = .jsr_abs__opcode := by
  refine ⟨?_, ?_⟩ <;> route_tac pat_JSR_ABS

theorem route_JSR_MEMIND (w0 w1 w2 w3 w4 : BitVec 16) (hp : Form.pat .JSR_MEMIND w0 w1 w2 w3 w4 = true) :
    Gen.exec_route w0 = .jsr__opcode ∧
      Gen.jsr_route w0 = .jsr_indirect__opcode := by
  refine ⟨?_, ?_⟩ <;> route_tac pat_JSR_MEMIND

theorem route_BSET_RR (w0 w1 w2 w3 w4 : BitVec 16) (hp : Form.pat .BSET_RR w0 w1 w2 w3 w4 = true) :
    Gen.exec_route w0 = .bset_rn_from_rn__opcode := by route_tac pat_BSET_RR

theorem route_BNOT_RR (w0 w1 w2 w3 w4 : BitVec 16) (hp : Form.pat .BNOT_RR w0 w1 w2 w3 w4 = true) :
    Gen.exec_route w0 = .bnot_rn_from_rn__opcode := by route_tac pat_BNOT_RR

theorem route_BCLR_RR (w0 w1 w2 w3 w4 : BitVec 16) (hp : Form.pat .BCLR_RR w0 w1 w2 w3 w4 = true) :
    Gen.exec_route w0 = .bclr_rn_from_rn__opcode := by route_tac pat_BCLR_RR

theorem route_BTST_RR (w0 w1 w2 w3 w4 : BitVec 16) (hp : Form.pat .BTST_RR w0 w1 w2 w3 w4 = true) :
    Gen.exec_route w0 = .btst_rn_rn__opcode := by route_tac pat_BTST_RR

theorem route_OR_W_RR (w0 w1 w2 w3 w4 : BitVec 16) (hp : Form.pat .OR_W_RR w0 w1 w2 w3 w4 = true) :
    Gen.exec_route w0 = .or_w_rn__opcode := by route_tac pat_OR_W_RR

theorem route_XOR_W_RR (w0 w1 w2 w3 w4 : BitVec 16) (hp : Form.pat .XOR_W_RR w0 w1 w2 w3 w4 = true) :
    Gen.exec_route w0 = .xor_w_rn__opcode := by route_tac pat_XOR_W_RR

theorem route_AND_W_RR (w0 w1 w2 w3 w4 : BitVec 16) (hp : Form.pat .AND_W_RR w0 w1 w2 w3 w4 = true) :
    Gen.exec_route w0 = .and_w_rn__opcode := by route_tac pat_AND_W_RR


end H8.Props.C07R
