-- part 11 of the valid-form routing theorems (see Base.lean)
import H8.Props.C07R.Base
namespace H8.Props.C07R
open H8 H8.Spec

theorem route_SUB_L_IMM (w0 w1 w2 w3 w4 : BitVec 16) (hp : Form.pat .SUB_L_IMM w0 w1 w2 w3 w4 = true) :
    Gen.exec_route w0 = .sub_l__opcode ∧
      Gen.sub_l_route w0 = .sub_l_imm__opcode := by
  refine ⟨?_, ?_⟩ <;> route_tac pat_SUB_L_IMM

theorem route_OR_L_IMM (w0 w1 w2 w3 w4 : BitVec 16) (hp : Form.pat .OR_L_IMM w0 w1 w2 w3 w4 = true) :
    Gen.exec_route w0 = .or_l_imm__opcode := by route_tac pat_OR_L_IMM

theorem route_XOR_L_IMM (w0 w1 w2 w3 w4 : BitVec 16) (hp : Form.pat .XOR_L_IMM w0 w1 w2 w3 w4 = true) :
    Gen.exec_route w0 = .xor_l_imm__opcode := by route_tac pat_XOR_L_IMM

theorem route_AND_L_IMM (w0 w1 w2 w3 w4 : BitVec 16) (hp : Form.pat .AND_L_IMM w0 w1 w2 w3 w4 = true) :
    Gen.exec_route w0 = .and_l_imm__opcode := by route_tac pat_AND_L_IMM

theorem route_BTST_RN_IND (w0 w1 w2 w3 w4 : BitVec 16) (hp : Form.pat .BTST_RN_IND w0 w1 w2 w3 w4 = true) :
    Gen.exec_route w0 = .pfx_exec_route_3 ∧
      Gen.exec_route_3 w0 w1 = .btst_rn_ern__opcode_opcode2 := by
  refine ⟨?_, ?_⟩ <;> route_tac pat_BTST_RN_IND

theorem route_BTST_I_IND (w0 w1 w2 w3 w4 : BitVec 16) (hp : Form.pat .BTST_I_IND w0 w1 w2 w3 w4 = true) :
    Gen.exec_route w0 = .pfx_exec_route_3 ∧
      Gen.exec_route_3 w0 w1 = .btst_imm_ern__opcode_opcode2 := by
  refine ⟨?_, ?_⟩ <;> route_tac pat_BTST_I_IND

theorem route_BOR_IND (w0 w1 w2 w3 w4 : BitVec 16) (hp : Form.pat .BOR_IND w0 w1 w2 w3 w4 = true) :
    Gen.exec_route w0 = .pfx_exec_route_3 ∧
      Gen.exec_route_3 w0 w1 = .bor_ern__opcode_opcode2 := by
  refine ⟨?_, ?_⟩ <;> route_tac pat_BOR_IND

theorem route_BIOR_IND (w0 w1 w2 w3 w4 : BitVec 16) (hp : Form.pat .BIOR_IND w0 w1 w2 w3 w4 = true) :
    Gen.exec_route w0 = .pfx_exec_route_3 ∧
      Gen.exec_route_3 w0 w1 = .bior_ern__opcode_opcode2 := by
  refine ⟨?_, ?_⟩ <;> route_tac pat_BIOR_IND

theorem route_BXOR_IND (w0 w1 w2 w3 w4 : BitVec 16) (hp : Form.pat .BXOR_IND w0 w1 w2 w3 w4 = true) :
    Gen.exec_route w0 = .pfx_exec_route_3 ∧
      Gen.exec_route_3 w0 w1 = .bxor_ern__opcode_opcode2 := by
  refine ⟨?_, ?_⟩ <;> route_tac pat_BXOR_IND

theorem route_BIXOR_IND (w0 w1 w2 w3 w4 : BitVec 16) (hp : Form.pat .BIXOR_IND w0 w1 w2 w3 w4 = true) :
    Gen.exec_route w0 = .pfx_exec_route_3 ∧
      Gen.exec_route_3 w0 w1 = .bixor_ern__opcode_opcode2 := by
  refine ⟨?_, ?_⟩ <;> route_tac pat_BIXOR_IND

theorem route_BAND_IND (w0 w1 w2 w3 w4 : BitVec 16) (hp : Form.pat .BAND_IND w0 w1 w2 w3 w4 = true) :
    Gen.exec_route w0 = .pfx_exec_route_3 ∧
      Gen.exec_route_3 w0 w1 = .band_ern__opcode_opcode2 := by
  refine ⟨?_, ?_⟩ <;> route_tac pat_BAND_IND

theorem route_BIAND_IND (w0 w1 w2 w3 w4 : BitVec 16) (hp : Form.pat .BIAND_IND w0 w1 w2 w3 w4 = true) :
    Gen.exec_route w0 = .pfx_exec_route_3 ∧
      Gen.exec_route_3 w0 w1 = .biand_ern__opcode_opcode2 := by
  refine ⟨?_, ?_⟩ <;> route_tac pat_BIAND_IND

theorem route_BLD_IND (w0 w1 w2 w3 w4 : BitVec 16) (hp : Form.pat .BLD_IND w0 w1 w2 w3 w4 = true) :
    Gen.exec_route w0 = .pfx_exec_route_3 ∧
      Gen.exec_route_3 w0 w1 = .bld_ern__opcode_opcode2 := by
  refine ⟨?_, ?_⟩ <;> route_tac pat_BLD_IND

theorem route_BILD_IND (w0 w1 w2 w3 w4 : BitVec 16) (hp : Form.pat .BILD_IND w0 w1 w2 w3 w4 = true) :
    Gen.exec_route w0 = .pfx_exec_route_3 ∧
      Gen.exec_route_3 w0 w1 = .bild_ern__opcode_opcode2 := by
  refine ⟨?_, ?_⟩ <;> route_tac pat_BILD_IND

theorem route_BSET_RN_IND (w0 w1 w2 w3 w4 : BitVec 16) (hp : Form.pat .BSET_RN_IND w0 w1 w2 w3 w4 = true) :
    Gen.exec_route w0 = .pfx_exec_route_4 ∧
      Gen.exec_route_4 w0 w1 = .bset_ern__opcode_opcode2 := by
  refine ⟨?_, ?_⟩ <;> route_tac pat_BSET_RN_IND

theorem route_BNOT_RN_IND (w0 w1 w2 w3 w4 : BitVec 16) (hp : Form.pat .BNOT_RN_IND w0 w1 w2 w3 w4 = true) :
    Gen.exec_route w0 = .pfx_exec_route_4 ∧
      Gen.exec_route_4 w0 w1 = .bnot_ern__opcode_opcode2 := by
  refine ⟨?_, ?_⟩ <;> route_tac pat_BNOT_RN_IND


end H8.Props.C07R
