/-
  C12, the `___exit` lookup — the `.symtab` loop of the loader's model: it changes nothing but the exit address, and the
  exit address it leaves is value + load base of the LAST entry named `___exit` (the earlier value if there is none) —
  for every file, every table position and every number of entries.
-/
import H8.Model.Elf
namespace H8.Props.C12S
open H8 H8.Elf

/-- what entry `k` contributes: `some (value + base)` iff its name is `___exit` -/
def symExit (f : Bytes) (symOff strOff k : Nat) : Option Nat := do
  let nameIdx ← be32 f (symOff + 16 * k)
  let value ← be32 f (symOff + 16 * k + 4)
  if (cstr f (strOff + nameIdx)).getD "Error" == "___exit" then some ((value + PROGRAM_START) % 2 ^ 32) else none

/-- one step: only the exit address can change, and it changes exactly when the entry is named `___exit` -/
theorem symStep_spec (f : Bytes) (symOff strOff : Nat) (l l' : Loaded) (k : Nat)
    (h : symStep f symOff strOff l k = some l') :
    l'.dram = l.dram ∧ l'.er = l.er ∧
      l'.exitAddr = (match symExit f symOff strOff k with | some a => some a | none => l.exitAddr) := by
  unfold symStep at h
  simp only [Option.bind_eq_bind, Option.pure_def] at h
  cases h0 : be32 f (symOff + 16 * k) with
  | none => rw [h0] at h; simp at h
  | some nameIdx =>
    cases h1 : be32 f (symOff + 16 * k + 4) with
    | none => rw [h0, h1] at h; simp at h
    | some value =>
      rw [h0, h1] at h
      simp only [Option.bind_some] at h
      cases h2 : be32 f (symOff + 16 * k + 8) with
      | none => rw [h2] at h; simp at h
      | some x2 =>
        cases h3 : be16 f (symOff + 16 * k + 12) with
        | none => rw [h2, h3] at h; simp at h
        | some x3 =>
          cases h4 : be16 f (symOff + 16 * k + 14) with
          | none => rw [h2, h3, h4] at h; simp at h
          | some x4 =>
            rw [h2, h3, h4] at h
            simp only [Option.bind_some] at h
            split at h
            · simp at h
            · simp only [symExit, h0, h1, Option.bind_eq_bind, Option.bind_some]
              split at h
              · rename_i hn
                simp only [Option.some.injEq] at h
                subst h
                simp [hn]
              · rename_i hn
                simp only [Option.some.injEq] at h
                subst h
                simp [hn]

/-- the exit address the entries `0 … n-1` leave: the last match wins -/
def exitAfter (f : Bytes) (symOff strOff : Nat) (init : Option Nat) : Nat → Option Nat
  | 0 => init
  | n + 1 => match symExit f symOff strOff n with
    | some a => some a
    | none => exitAfter f symOff strOff init n

/-- **the whole `.symtab` loop**: memory and registers untouched, exit address = the last `___exit` entry's value +
    load base -/
theorem symLoop_spec (f : Bytes) (symOff strOff : Nat) : ∀ (n : Nat) (l l' : Loaded),
    (List.range n).foldlM (symStep f symOff strOff) l = some l' →
    l'.dram = l.dram ∧ l'.er = l.er ∧ l'.exitAddr = exitAfter f symOff strOff l.exitAddr n := by
  intro n
  induction n with
  | zero =>
    intro l l' h
    simp at h
    subst h
    exact ⟨rfl, rfl, rfl⟩
  | succ n ih =>
    intro l l' h
    rw [List.range_succ, List.foldlM_append] at h
    simp only [Option.bind_eq_bind] at h
    cases hm : (List.range n).foldlM (symStep f symOff strOff) l with
    | none => rw [hm] at h; simp at h
    | some lm =>
      rw [hm] at h
      simp only [Option.bind_some, List.foldlM_cons, List.foldlM_nil, Option.bind_eq_bind] at h
      cases hs : symStep f symOff strOff lm n with
      | none => rw [hs] at h; simp at h
      | some l2 =>
        rw [hs] at h
        simp only [Option.bind_some, Option.pure_def, Option.some.injEq] at h
        subst h
        obtain ⟨d1, e1, x1⟩ := ih l lm hm
        obtain ⟨d2, e2, x2⟩ := symStep_spec f symOff strOff lm l2 n hs
        refine ⟨d2.trans d1, e2.trans e1, ?_⟩
        rw [x2, exitAfter]
        cases symExit f symOff strOff n with
        | some a => rfl
        | none => simpa using x1

/-- a table without an entry named `___exit` leaves the exit address alone -/
theorem no_exit_symbol (f : Bytes) (symOff strOff : Nat) (init : Option Nat) (n : Nat)
    (h : ∀ k, k < n → symExit f symOff strOff k = none) : exitAfter f symOff strOff init n = init := by
  induction n with
  | zero => rfl
  | succ n ih =>
    rw [exitAfter, h n (by omega)]
    exact ih (fun k hk => h k (by omega))

/-- if entry `k` is the last one named `___exit`, the exit address is its value + load base -/
theorem last_exit_symbol (f : Bytes) (symOff strOff : Nat) (init : Option Nat) (n k a : Nat) (hk : k < n)
    (hm : symExit f symOff strOff k = some a) (hl : ∀ j, k < j → j < n → symExit f symOff strOff j = none) :
    exitAfter f symOff strOff init n = some a := by
  induction n with
  | zero => omega
  | succ n ih =>
    rw [exitAfter]
    by_cases hkn : k = n
    · subst hkn; rw [hm]
    · rw [hl n (by omega) (by omega)]
      exact ih (by omega) (fun j h1 h2 => hl j h1 (by omega))

end H8.Props.C12S
