/-
  C12 — a loaded program starts in the MES process environment it expects.

  Theorems about `stackBranch` / `argLoop` of `Model/Elf.lean`, for every image size, stack size and
  argument vector (no bound on the number or length of the words):
    * layout arithmetic: the stack region of the declared size starts at the image end, its end is
      4-aligned, SP = end − 8 is 4-aligned, the 88-byte TCB area follows, then the 4-aligned argv table;
    * the argument loop: pointer i holds the address of string i, string i is a byte-exact NUL-terminated
      copy, strings are laid out back to back after the argc+1 pointer slots, the slot after the last
      pointer is not written (stays the zero of fresh DRAM: the null terminator of argv), and nothing else
      is written — so the block overlaps neither the image, the stack nor the TCB area below it.
  Splitting the argument string into words and the symbol-table scan for ___exit are tied to the code by
  correspondence only (Spec.Elf.words / Spec.Elf.expected).
-/
import H8.Props.C11
namespace H8.Props.C12
open H8 H8.Elf H8.Props.C11

/-! ### layout arithmetic -/

theorem align4_spec (a : Nat) : a ≤ align4 a ∧ align4 a < a + 4 ∧ align4 a % 4 = 0 := by
  unfold align4; omega

/-- stack region [base+image, stackEnd), TCB area [stackEnd, stackEnd+88), argv table at `argv`:
    ordered, non-overlapping, SP and argv 4-aligned, SP 8 bytes below the aligned stack end -/
theorem layout_order (base image stack : Nat) (hb : 8 ≤ base) :
    let stackEnd := align4 (base + image + stack)
    let sp := stackEnd - 8
    let argv := align4 (stackEnd + 88)
    base + image + stack ≤ stackEnd ∧ stackEnd < base + image + stack + 4 ∧ stackEnd % 4 = 0 ∧
    sp + 8 = stackEnd ∧ sp % 4 = 0 ∧ base + image ≤ sp + 8 ∧
    stackEnd + 88 ≤ argv ∧ argv % 4 = 0 ∧ argv = stackEnd + 88 := by
  intro stackEnd sp argv
  have h1 := align4_spec (base + image + stack)
  have h2 := align4_spec (stackEnd + 88)
  refine ⟨h1.1, h1.2.1, h1.2.2, ?_, ?_, ?_, h2.1, h2.2.2, ?_⟩
  · show align4 (base + image + stack) - 8 + 8 = align4 (base + image + stack); omega
  · show (align4 (base + image + stack) - 8) % 4 = 0; omega
  · show base + image ≤ align4 (base + image + stack) - 8 + 8; omega
  · show align4 (align4 (base + image + stack) + 88) = align4 (base + image + stack) + 88
    have := h1.2.2
    unfold align4 at *; omega

/-! ### writing a byte string -/

theorem pokeList_spec : ∀ (bs : List Nat) (i : Nat) (d d' : Mem), pokeList d i bs = some d' →
    (∀ k b, bs[k]? = some b → i + k < DRAM_SIZE ∧ d'.get (i + k) = BitVec.ofNat 8 b) ∧
    (∀ j, (j < i ∨ i + bs.length ≤ j) → d'.get j = d.get j) := by
  intro bs
  induction bs with
  | nil =>
    intro i d d' h
    simp [pokeList] at h; subst h
    exact ⟨by intro k b hk; simp at hk, by intro j _; rfl⟩
  | cons b0 rest ih =>
    intro i d d' h
    simp only [pokeList, Option.bind_eq_bind, Option.bind_eq_some_iff] at h
    obtain ⟨d1, hd1, hrest⟩ := h
    obtain ⟨ihA, ihB⟩ := ih (i + 1) d1 d' hrest
    refine ⟨?_, ?_⟩
    · intro k b hk
      cases k with
      | zero =>
        simp at hk; subst hk
        refine ⟨(pokeDram_some hd1).1, ?_⟩
        rw [Nat.add_zero, ihB i (Or.inl (by omega)), pokeDram_get hd1 i]; simp
      | succ k =>
        simp at hk
        have := ihA k b hk
        have e : i + (k + 1) = i + 1 + k := by omega
        rw [e]; exact this
    · intro j hj
      simp only [List.length_cons] at hj
      rw [ihB j (by omega), pokeDram_get hd1 j]
      have : i ≠ j := by omega
      simp [this]

/-! ### the argument loop -/

/-- total size of the strings with their terminators -/
def total : List (List Nat) → Nat
  | [] => 0
  | w :: ws => w.length + 1 + total ws

/-- address of string i when the strings start at `a` -/
def strAddr (a : Nat) : List (List Nat) → Nat → Nat
  | [], _ => a
  | _ :: _, 0 => a
  | w :: ws, i + 1 => strAddr (a + w.length + 1) ws i

theorem strAddr_bounds : ∀ (ws : List (List Nat)) (a i : Nat) (w : List Nat), ws[i]? = some w →
    a ≤ strAddr a ws i ∧ strAddr a ws i + w.length + 1 ≤ a + total ws := by
  intro ws
  induction ws with
  | nil => intro a i w h; simp at h
  | cons w0 rest ih =>
    intro a i w h
    cases i with
    | zero => simp at h; subst h; simp [strAddr, total]; omega
    | succ i =>
      simp at h
      have := ih (a + w0.length + 1) i w h
      simp only [strAddr, total]; omega

/-- One pass of the loader's argument loop over the byte strings `ws`, starting with the pointer table at
    absolute address `argp` and the strings at `a`, where the table (argc slots) ends at or below `a`. -/
theorem argLoop_spec : ∀ (ws : List (List Nat)) (d : Mem) (argp a : Nat) (d' : Mem) (argp' a' : Nat),
    argLoop (d, argp, a) ws = some (d', argp', a') →
    DRAM_START ≤ argp → argp + 4 * ws.length ≤ a → a + total ws ≤ 2 ^ 32 →
    argp' = argp + 4 * ws.length ∧ a' = a + total ws ∧
    (∀ i w, ws[i]? = some w →
        -- pointer i names string i
        readBE32 d' (argp + 4 * i - DRAM_START) = some (strAddr a ws i) ∧
        -- byte-exact copy, inside DRAM
        (∀ k b, w[k]? = some b → strAddr a ws i + k - DRAM_START < DRAM_SIZE ∧
            d'.get (strAddr a ws i + k - DRAM_START) = BitVec.ofNat 8 b) ∧
        -- NUL terminator
        d'.get (strAddr a ws i + w.length - DRAM_START) = 0#8) ∧
    -- nothing but the argc pointer slots and the strings is written
    (∀ j, ¬ (argp - DRAM_START ≤ j ∧ j < argp + 4 * ws.length - DRAM_START) →
          ¬ (a - DRAM_START ≤ j ∧ j < a + total ws - DRAM_START) → d'.get j = d.get j) := by
  intro ws
  induction ws with
  | nil =>
    intro d argp a d' argp' a' h _ _ _
    simp [argLoop] at h
    obtain ⟨rfl, rfl, rfl⟩ := h
    exact ⟨by simp, by simp [total], by intro i w h; simp at h, by intro j _ _; rfl⟩
  | cons w0 rest ih =>
    intro d argp a d' argp' a' h hlo hsep hfit
    simp only [argLoop, Option.bind_eq_bind, Option.bind_eq_some_iff] at h
    obtain ⟨⟨d1, p1, a1⟩, hstep, hrest⟩ := h
    simp only [argStep, Option.bind_eq_bind, Option.bind_eq_some_iff, Option.pure_def, Option.some.injEq,
      Prod.mk.injEq] at hstep
    obtain ⟨dA, hA, dB, hB, dC, hC, rfl, rfl, rfl⟩ := hstep
    simp only [List.length_cons, total] at hsep hfit ⊢
    have hmod : a % 2 ^ 32 = a := Nat.mod_eq_of_lt (by omega)
    rw [hmod] at hA
    obtain ⟨_, hArd, hAfr⟩ := writeBE32_spec hA (by omega)
    obtain ⟨hBbytes, hBfr⟩ := pokeList_spec _ _ _ _ hB
    have hCget := fun j => pokeDram_get hC j
    obtain ⟨ih1, ih2, ih3, ih4⟩ := ih dC (argp + 4) (a + w0.length + 1) d' argp' a' hrest (by omega) (by omega) (by omega)
    -- cells below the rest's ranges are kept by the rest of the loop
    have keep : ∀ j, j < argp + 4 - DRAM_START → d'.get j = dC.get j := by
      intro j hj; exact ih4 j (by omega) (by omega)
    have keepS : ∀ j, a - DRAM_START ≤ j → j < a + w0.length + 1 - DRAM_START → d'.get j = dC.get j := by
      intro j h1 h2; exact ih4 j (by omega) (by omega)
    refine ⟨by omega, by omega, ?_, ?_⟩
    · intro i w hi
      cases i with
      | zero =>
        simp at hi; subst hi
        simp only [strAddr, Nat.mul_zero, Nat.add_zero]
        refine ⟨?_, ?_, ?_⟩
        · -- pointer slot 0: written first, later writes are elsewhere
          have : readBE32 d' (argp - DRAM_START) = readBE32 dA (argp - DRAM_START) := by
            apply readBE32_congr
            intro j h1 h2
            rw [keep j (by omega), hCget j, hBfr j (by omega)]
            have : a + w0.length - DRAM_START ≠ j := by omega
            simp [this]
          rw [this]; exact hArd
        · intro k b hk
          have hklt : k < w0.length := by
            rcases Nat.lt_or_ge k w0.length with h | h
            · exact h
            · rw [List.getElem?_eq_none h] at hk; cases hk
          obtain ⟨hin, hval⟩ := hBbytes k b hk
          have e : a + k - DRAM_START = a - DRAM_START + k := by omega
          rw [e]
          refine ⟨hin, ?_⟩
          rw [keepS _ (by omega) (by omega), hCget]
          have : a + w0.length - DRAM_START ≠ a - DRAM_START + k := by omega
          simp only [this, if_false]; exact hval
        · rw [keepS _ (by omega) (by omega), hCget]; simp
      | succ i =>
        simp at hi
        obtain ⟨q1, q2, q3⟩ := ih3 i w hi
        simp only [strAddr]
        have e : argp + 4 * (i + 1) = argp + 4 + 4 * i := by omega
        rw [e]
        exact ⟨q1, q2, q3⟩
    · intro j hj1 hj2
      rw [ih4 j (by omega) (by omega), hCget j, hBfr j (by omega), hAfr j (by omega)]
      have : a + w0.length - DRAM_START ≠ j := by omega
      simp [this]

/-- The argv null terminator: the slot after the argc pointers is never written by the loop, so it keeps
    the zero of fresh DRAM (the strings start right after it). -/
theorem argv_null_slot (ws : List (List Nat)) (d : Mem) (argp : Nat) (d' : Mem) (p' a' : Nat)
    (h : argLoop (d, argp, argp + 4 * (ws.length + 1)) ws = some (d', p', a'))
    (hlo : DRAM_START ≤ argp) (hfit : argp + 4 * (ws.length + 1) + total ws ≤ 2 ^ 32)
    (hz : ∀ j, argp + 4 * ws.length - DRAM_START ≤ j → j < argp + 4 * ws.length + 4 - DRAM_START → d.get j = 0#8) :
    readBE32 d' (argp + 4 * ws.length - DRAM_START) = readBE32 d (argp + 4 * ws.length - DRAM_START) ∧
    ∀ j, argp + 4 * ws.length - DRAM_START ≤ j → j < argp + 4 * ws.length + 4 - DRAM_START → d'.get j = 0#8 := by
  obtain ⟨_, _, _, hfr⟩ := argLoop_spec ws d argp _ d' p' a' h hlo (by omega) hfit
  have key : ∀ j, argp + 4 * ws.length - DRAM_START ≤ j → j < argp + 4 * ws.length + 4 - DRAM_START →
      d'.get j = d.get j := fun j h1 h2 => hfr j (by omega) (by omega)
  exact ⟨readBE32_congr (fun j h1 h2 => key j (by omega) (by omega)), fun j h1 h2 => by rw [key j h1 h2]; exact hz j h1 h2⟩

/-- the argument block never reaches below the pointer table: image, stack and TCB area are untouched -/
theorem argLoop_below_untouched (ws : List (List Nat)) (d : Mem) (argp : Nat) (d' : Mem) (p' a' : Nat)
    (h : argLoop (d, argp, argp + 4 * (ws.length + 1)) ws = some (d', p', a'))
    (hlo : DRAM_START ≤ argp) (hfit : argp + 4 * (ws.length + 1) + total ws ≤ 2 ^ 32) :
    ∀ j, j < argp - DRAM_START → d'.get j = d.get j := by
  obtain ⟨_, _, _, hfr⟩ := argLoop_spec ws d argp _ d' p' a' h hlo (by omega) hfit
  intro j hj; exact hfr j (by omega) (by omega)

/-! ### `stackBranch` is exactly: three register assignments and the loop -/

theorem stackBranch_eq (l l' : Loaded) (ps ss : Nat) (args : String) (h : stackBranch l ps ss args = some l') :
    let stackEnd := align4 (PROGRAM_START + ps + ss)
    let argv := align4 (stackEnd + Gen.SIZE_OF_TCB)
    let ws := ("prog.elf" :: splitWs args).map strBytes
    ∃ d' p a, argLoop (l.dram, argv, argv + 4 * (ws.length + 1)) ws = some (d', p, a) ∧
      l'.dram = d' ∧ l'.exitAddr = l.exitAddr ∧
      l'.er = l.er ++ [(7, (stackEnd - 8) % 2 ^ 32), (0, ws.length % 2 ^ 32), (1, argv % 2 ^ 32)] := by
  intro stackEnd argv ws
  simp only [stackBranch, Option.bind_eq_bind, Option.bind_eq_some_iff, Option.pure_def] at h
  obtain ⟨⟨d', p, a⟩, hloop, hl⟩ := h
  refine ⟨d', p, a, ?_, ?_, ?_, ?_⟩
  · simpa [ws, argv, stackEnd, setEr] using hloop
  · simp at hl; rw [← hl]
  · simp at hl; rw [← hl]; simp [setEr]
  · simp at hl; rw [← hl]; simp [setEr, ws, argv, stackEnd]

/-! ### non-vacuity -/

example : total [[1, 2, 3], [], [9]] = 7 ∧ strAddr 100 [[1, 2, 3], [], [9]] 2 = 105 := by decide

/-- the TCB size the layout theorem uses is the code's constant -/
theorem tcb_size : Gen.SIZE_OF_TCB = 88 := by decide

end H8.Props.C12
