/-
  C03 — Logic, shift and rotate instructions match the manual bit for bit.

  One theorem per shift/rotate form: for EVERY opcode word of the form (all register numbers),
  EVERY register file and EVERY initial CCR (incl. the carry shifted in by ROTXL/ROTXR), the state
  the handler leaves is the initial state with exactly `regs` and `ccr` replaced by what the Spec
  prescribes: result, N, Z, C = bit shifted out, V = 0; H, U, UI, I untouched.
  SHAL is a known finding (V = old sign bit): see `SHAL_*_partial` and `SHAL_B_finding`.
-/
import H8.Props.Common
set_option linter.unusedSimpArgs false
namespace H8.Props.C03
open H8 H8.Lemmas H8.Props

theorem SHLL_B (op : BitVec 16) (st st' : Cpu) (c : BitVec 8) (i : Spec.Instr)
    (hi : Spec.instrOf .SHLL_B op 0 0 0 0 = some i) (hp : Spec.Form.pat .SHLL_B op 0 0 0 0 = true)
    (h : shift .shll .B op st = .ok c st') :
    st' = { st with regs := (specRegCcr i st).1, ccr := (specRegCcr i st).2 } := by
  shift_handler Spec.instrOf_SHLL_B Spec.pat_SHLL_B

theorem SHLL_W (op : BitVec 16) (st st' : Cpu) (c : BitVec 8) (i : Spec.Instr)
    (hi : Spec.instrOf .SHLL_W op 0 0 0 0 = some i) (hp : Spec.Form.pat .SHLL_W op 0 0 0 0 = true)
    (h : shift .shll .W op st = .ok c st') :
    st' = { st with regs := (specRegCcr i st).1, ccr := (specRegCcr i st).2 } := by
  shift_handler Spec.instrOf_SHLL_W Spec.pat_SHLL_W

theorem SHLL_L (op : BitVec 16) (st st' : Cpu) (c : BitVec 8) (i : Spec.Instr)
    (hi : Spec.instrOf .SHLL_L op 0 0 0 0 = some i) (hp : Spec.Form.pat .SHLL_L op 0 0 0 0 = true)
    (h : shift .shll .L op st = .ok c st') :
    st' = { st with regs := (specRegCcr i st).1, ccr := (specRegCcr i st).2 } := by
  shift_handler Spec.instrOf_SHLL_L Spec.pat_SHLL_L

theorem SHLR_B (op : BitVec 16) (st st' : Cpu) (c : BitVec 8) (i : Spec.Instr)
    (hi : Spec.instrOf .SHLR_B op 0 0 0 0 = some i) (hp : Spec.Form.pat .SHLR_B op 0 0 0 0 = true)
    (h : shift .shlr .B op st = .ok c st') :
    st' = { st with regs := (specRegCcr i st).1, ccr := (specRegCcr i st).2 } := by
  shift_handler Spec.instrOf_SHLR_B Spec.pat_SHLR_B

theorem SHLR_W (op : BitVec 16) (st st' : Cpu) (c : BitVec 8) (i : Spec.Instr)
    (hi : Spec.instrOf .SHLR_W op 0 0 0 0 = some i) (hp : Spec.Form.pat .SHLR_W op 0 0 0 0 = true)
    (h : shift .shlr .W op st = .ok c st') :
    st' = { st with regs := (specRegCcr i st).1, ccr := (specRegCcr i st).2 } := by
  shift_handler Spec.instrOf_SHLR_W Spec.pat_SHLR_W

theorem SHLR_L (op : BitVec 16) (st st' : Cpu) (c : BitVec 8) (i : Spec.Instr)
    (hi : Spec.instrOf .SHLR_L op 0 0 0 0 = some i) (hp : Spec.Form.pat .SHLR_L op 0 0 0 0 = true)
    (h : shift .shlr .L op st = .ok c st') :
    st' = { st with regs := (specRegCcr i st).1, ccr := (specRegCcr i st).2 } := by
  shift_handler Spec.instrOf_SHLR_L Spec.pat_SHLR_L

theorem SHAR_B (op : BitVec 16) (st st' : Cpu) (c : BitVec 8) (i : Spec.Instr)
    (hi : Spec.instrOf .SHAR_B op 0 0 0 0 = some i) (hp : Spec.Form.pat .SHAR_B op 0 0 0 0 = true)
    (h : shift .shar .B op st = .ok c st') :
    st' = { st with regs := (specRegCcr i st).1, ccr := (specRegCcr i st).2 } := by
  shift_handler Spec.instrOf_SHAR_B Spec.pat_SHAR_B

theorem SHAR_W (op : BitVec 16) (st st' : Cpu) (c : BitVec 8) (i : Spec.Instr)
    (hi : Spec.instrOf .SHAR_W op 0 0 0 0 = some i) (hp : Spec.Form.pat .SHAR_W op 0 0 0 0 = true)
    (h : shift .shar .W op st = .ok c st') :
    st' = { st with regs := (specRegCcr i st).1, ccr := (specRegCcr i st).2 } := by
  shift_handler Spec.instrOf_SHAR_W Spec.pat_SHAR_W

theorem SHAR_L (op : BitVec 16) (st st' : Cpu) (c : BitVec 8) (i : Spec.Instr)
    (hi : Spec.instrOf .SHAR_L op 0 0 0 0 = some i) (hp : Spec.Form.pat .SHAR_L op 0 0 0 0 = true)
    (h : shift .shar .L op st = .ok c st') :
    st' = { st with regs := (specRegCcr i st).1, ccr := (specRegCcr i st).2 } := by
  shift_handler Spec.instrOf_SHAR_L Spec.pat_SHAR_L

theorem ROTL_B (op : BitVec 16) (st st' : Cpu) (c : BitVec 8) (i : Spec.Instr)
    (hi : Spec.instrOf .ROTL_B op 0 0 0 0 = some i) (hp : Spec.Form.pat .ROTL_B op 0 0 0 0 = true)
    (h : shift .rotl .B op st = .ok c st') :
    st' = { st with regs := (specRegCcr i st).1, ccr := (specRegCcr i st).2 } := by
  shift_handler Spec.instrOf_ROTL_B Spec.pat_ROTL_B

theorem ROTL_W (op : BitVec 16) (st st' : Cpu) (c : BitVec 8) (i : Spec.Instr)
    (hi : Spec.instrOf .ROTL_W op 0 0 0 0 = some i) (hp : Spec.Form.pat .ROTL_W op 0 0 0 0 = true)
    (h : shift .rotl .W op st = .ok c st') :
    st' = { st with regs := (specRegCcr i st).1, ccr := (specRegCcr i st).2 } := by
  shift_handler Spec.instrOf_ROTL_W Spec.pat_ROTL_W

theorem ROTL_L (op : BitVec 16) (st st' : Cpu) (c : BitVec 8) (i : Spec.Instr)
    (hi : Spec.instrOf .ROTL_L op 0 0 0 0 = some i) (hp : Spec.Form.pat .ROTL_L op 0 0 0 0 = true)
    (h : shift .rotl .L op st = .ok c st') :
    st' = { st with regs := (specRegCcr i st).1, ccr := (specRegCcr i st).2 } := by
  shift_handler Spec.instrOf_ROTL_L Spec.pat_ROTL_L

theorem ROTR_B (op : BitVec 16) (st st' : Cpu) (c : BitVec 8) (i : Spec.Instr)
    (hi : Spec.instrOf .ROTR_B op 0 0 0 0 = some i) (hp : Spec.Form.pat .ROTR_B op 0 0 0 0 = true)
    (h : shift .rotr .B op st = .ok c st') :
    st' = { st with regs := (specRegCcr i st).1, ccr := (specRegCcr i st).2 } := by
  shift_handler Spec.instrOf_ROTR_B Spec.pat_ROTR_B

theorem ROTR_W (op : BitVec 16) (st st' : Cpu) (c : BitVec 8) (i : Spec.Instr)
    (hi : Spec.instrOf .ROTR_W op 0 0 0 0 = some i) (hp : Spec.Form.pat .ROTR_W op 0 0 0 0 = true)
    (h : shift .rotr .W op st = .ok c st') :
    st' = { st with regs := (specRegCcr i st).1, ccr := (specRegCcr i st).2 } := by
  shift_handler Spec.instrOf_ROTR_W Spec.pat_ROTR_W

theorem ROTR_L (op : BitVec 16) (st st' : Cpu) (c : BitVec 8) (i : Spec.Instr)
    (hi : Spec.instrOf .ROTR_L op 0 0 0 0 = some i) (hp : Spec.Form.pat .ROTR_L op 0 0 0 0 = true)
    (h : shift .rotr .L op st = .ok c st') :
    st' = { st with regs := (specRegCcr i st).1, ccr := (specRegCcr i st).2 } := by
  shift_handler Spec.instrOf_ROTR_L Spec.pat_ROTR_L

theorem ROTXL_B (op : BitVec 16) (st st' : Cpu) (c : BitVec 8) (i : Spec.Instr)
    (hi : Spec.instrOf .ROTXL_B op 0 0 0 0 = some i) (hp : Spec.Form.pat .ROTXL_B op 0 0 0 0 = true)
    (h : shift .rotxl .B op st = .ok c st') :
    st' = { st with regs := (specRegCcr i st).1, ccr := (specRegCcr i st).2 } := by
  shift_handler Spec.instrOf_ROTXL_B Spec.pat_ROTXL_B

theorem ROTXL_W (op : BitVec 16) (st st' : Cpu) (c : BitVec 8) (i : Spec.Instr)
    (hi : Spec.instrOf .ROTXL_W op 0 0 0 0 = some i) (hp : Spec.Form.pat .ROTXL_W op 0 0 0 0 = true)
    (h : shift .rotxl .W op st = .ok c st') :
    st' = { st with regs := (specRegCcr i st).1, ccr := (specRegCcr i st).2 } := by
  shift_handler Spec.instrOf_ROTXL_W Spec.pat_ROTXL_W

theorem ROTXL_L (op : BitVec 16) (st st' : Cpu) (c : BitVec 8) (i : Spec.Instr)
    (hi : Spec.instrOf .ROTXL_L op 0 0 0 0 = some i) (hp : Spec.Form.pat .ROTXL_L op 0 0 0 0 = true)
    (h : shift .rotxl .L op st = .ok c st') :
    st' = { st with regs := (specRegCcr i st).1, ccr := (specRegCcr i st).2 } := by
  shift_handler Spec.instrOf_ROTXL_L Spec.pat_ROTXL_L

theorem ROTXR_B (op : BitVec 16) (st st' : Cpu) (c : BitVec 8) (i : Spec.Instr)
    (hi : Spec.instrOf .ROTXR_B op 0 0 0 0 = some i) (hp : Spec.Form.pat .ROTXR_B op 0 0 0 0 = true)
    (h : shift .rotxr .B op st = .ok c st') :
    st' = { st with regs := (specRegCcr i st).1, ccr := (specRegCcr i st).2 } := by
  shift_handler Spec.instrOf_ROTXR_B Spec.pat_ROTXR_B

theorem ROTXR_W (op : BitVec 16) (st st' : Cpu) (c : BitVec 8) (i : Spec.Instr)
    (hi : Spec.instrOf .ROTXR_W op 0 0 0 0 = some i) (hp : Spec.Form.pat .ROTXR_W op 0 0 0 0 = true)
    (h : shift .rotxr .W op st = .ok c st') :
    st' = { st with regs := (specRegCcr i st).1, ccr := (specRegCcr i st).2 } := by
  shift_handler Spec.instrOf_ROTXR_W Spec.pat_ROTXR_W

theorem ROTXR_L (op : BitVec 16) (st st' : Cpu) (c : BitVec 8) (i : Spec.Instr)
    (hi : Spec.instrOf .ROTXR_L op 0 0 0 0 = some i) (hp : Spec.Form.pat .ROTXR_L op 0 0 0 0 = true)
    (h : shift .rotxr .L op st = .ok c st') :
    st' = { st with regs := (specRegCcr i st).1, ccr := (specRegCcr i st).2 } := by
  shift_handler Spec.instrOf_ROTXR_L Spec.pat_ROTXR_L

/-! ### SHAL (known finding C03-SHAL-V): everything but V is as the manual says -/

/-- the model's SHAL kernel agrees with the Spec on the result and on every CCR bit except V -/
theorem SHAL_kernel_partial8 (d : BitVec 8) (ccr : BitVec 8) :
    (shiftK .shal d ccr).1 = (Spec.alu1K .shal d ccr).1 ∧
    (let (_, n, z, v, c) := shiftK .shal d ccr; shiftCcr ccr n z v c) &&& 0xfd#8 = (Spec.alu1K .shal d ccr).2 &&& 0xfd#8 := by
  unfold shiftK Spec.alu1K shiftCcr
  simp only [Spec.setFlag, changeCcrV]
  constructor <;> bv_decide

theorem SHAL_kernel_partial16 (d : BitVec 16) (ccr : BitVec 8) :
    (shiftK .shal d ccr).1 = (Spec.alu1K .shal d ccr).1 ∧
    (let (_, n, z, v, c) := shiftK .shal d ccr; shiftCcr ccr n z v c) &&& 0xfd#8 = (Spec.alu1K .shal d ccr).2 &&& 0xfd#8 := by
  unfold shiftK Spec.alu1K shiftCcr
  simp only [Spec.setFlag, changeCcrV]
  constructor <;> bv_decide

theorem SHAL_kernel_partial32 (d : BitVec 32) (ccr : BitVec 8) :
    (shiftK .shal d ccr).1 = (Spec.alu1K .shal d ccr).1 ∧
    (let (_, n, z, v, c) := shiftK .shal d ccr; shiftCcr ccr n z v c) &&& 0xfd#8 = (Spec.alu1K .shal d ccr).2 &&& 0xfd#8 := by
  unfold shiftK Spec.alu1K shiftCcr
  simp only [Spec.setFlag, changeCcrV]
  constructor <;> bv_decide

/-- …and V agrees exactly when the two top bits of the operand are equal or both…: the code's V is
    the old sign bit, the manual's is "sign changes" -/
theorem SHAL_v_guard8 (d : BitVec 8) (ccr : BitVec 8) :
    ((let (_, n, z, v, c) := shiftK .shal d ccr; shiftCcr ccr n z v c) = (Spec.alu1K .shal d ccr).2)
      ↔ (d.getLsbD 6 = false) := by
  unfold shiftK Spec.alu1K shiftCcr
  simp only [Spec.setFlag, changeCcrV]
  constructor
  · intro h; bv_decide
  · intro h; bv_decide

/-- the full statement fails: witness 0x55 -> 0xAA changes the sign, the code leaves V = 0 -/
theorem SHAL_B_finding : ∃ (d : BitVec 8) (ccr : BitVec 8),
    (let (_, n, z, v, c) := shiftK .shal d ccr; shiftCcr ccr n z v c) ≠ (Spec.alu1K .shal d ccr).2 :=
  ⟨0x55, 0x00, by decide⟩

/-! ### logic: NOT, AND / OR / XOR (byte and word register forms, byte immediates): result, N, Z, V := 0, C and H
     untouched, nothing else changes -/

theorem NOT_B (op : BitVec 16) (st st' : Cpu) (c : BitVec 8) (i : Spec.Instr)
    (hp : Spec.Form.pat .NOT_B op 0 0 0 0 = true)
    (hi : Spec.instrOf .NOT_B op 0 0 0 0 = some i) (h : unary .B notProc op st = .ok c st') :
    st' = { st with regs := (specRegCcr i st).1, ccr := (specRegCcr i st).2 } := by
  unary_handler Spec.instrOf_NOT_B Spec.pat_NOT_B

theorem NOT_W (op : BitVec 16) (st st' : Cpu) (c : BitVec 8) (i : Spec.Instr)
    (hp : Spec.Form.pat .NOT_W op 0 0 0 0 = true)
    (hi : Spec.instrOf .NOT_W op 0 0 0 0 = some i) (h : unary .W notProc op st = .ok c st') :
    st' = { st with regs := (specRegCcr i st).1, ccr := (specRegCcr i st).2 } := by
  unary_handler Spec.instrOf_NOT_W Spec.pat_NOT_W

theorem NOT_L (op : BitVec 16) (st st' : Cpu) (c : BitVec 8) (i : Spec.Instr)
    (hp : Spec.Form.pat .NOT_L op 0 0 0 0 = true)
    (hi : Spec.instrOf .NOT_L op 0 0 0 0 = some i) (h : unary .L notProc op st = .ok c st') :
    st' = { st with regs := (specRegCcr i st).1, ccr := (specRegCcr i st).2 } := by
  unary_handler Spec.instrOf_NOT_L Spec.pat_NOT_L

theorem AND_B_RR (op : BitVec 16) (st st' : Cpu) (c : BitVec 8) (i : Spec.Instr)
    (hp : Spec.Form.pat .AND_B_RR op 0 0 0 0 = true)
    (hi : Spec.instrOf .AND_B_RR op 0 0 0 0 = some i) (h : logicRn .and .B op 1 st = .ok c st') :
    st' = { st with regs := (specRegCcr i st).1, ccr := (specRegCcr i st).2 } := by
  logic_handler Spec.instrOf_AND_B_RR Spec.pat_AND_B_RR

theorem AND_W_RR (op : BitVec 16) (st st' : Cpu) (c : BitVec 8) (i : Spec.Instr)
    (hp : Spec.Form.pat .AND_W_RR op 0 0 0 0 = true)
    (hi : Spec.instrOf .AND_W_RR op 0 0 0 0 = some i) (h : logicRn .and .W op 1 st = .ok c st') :
    st' = { st with regs := (specRegCcr i st).1, ccr := (specRegCcr i st).2 } := by
  logic_handler Spec.instrOf_AND_W_RR Spec.pat_AND_W_RR

theorem AND_B_IMM (op : BitVec 16) (st st' : Cpu) (c : BitVec 8) (i : Spec.Instr)
    (hp : Spec.Form.pat .AND_B_IMM op 0 0 0 0 = true)
    (hi : Spec.instrOf .AND_B_IMM op 0 0 0 0 = some i) (h : logicBImm .and op st = .ok c st') :
    st' = { st with regs := (specRegCcr i st).1, ccr := (specRegCcr i st).2 } := by
  logic_handler Spec.instrOf_AND_B_IMM Spec.pat_AND_B_IMM

theorem OR_B_RR (op : BitVec 16) (st st' : Cpu) (c : BitVec 8) (i : Spec.Instr)
    (hp : Spec.Form.pat .OR_B_RR op 0 0 0 0 = true)
    (hi : Spec.instrOf .OR_B_RR op 0 0 0 0 = some i) (h : logicRn .or .B op 1 st = .ok c st') :
    st' = { st with regs := (specRegCcr i st).1, ccr := (specRegCcr i st).2 } := by
  logic_handler Spec.instrOf_OR_B_RR Spec.pat_OR_B_RR

theorem OR_W_RR (op : BitVec 16) (st st' : Cpu) (c : BitVec 8) (i : Spec.Instr)
    (hp : Spec.Form.pat .OR_W_RR op 0 0 0 0 = true)
    (hi : Spec.instrOf .OR_W_RR op 0 0 0 0 = some i) (h : logicRn .or .W op 1 st = .ok c st') :
    st' = { st with regs := (specRegCcr i st).1, ccr := (specRegCcr i st).2 } := by
  logic_handler Spec.instrOf_OR_W_RR Spec.pat_OR_W_RR

theorem OR_B_IMM (op : BitVec 16) (st st' : Cpu) (c : BitVec 8) (i : Spec.Instr)
    (hp : Spec.Form.pat .OR_B_IMM op 0 0 0 0 = true)
    (hi : Spec.instrOf .OR_B_IMM op 0 0 0 0 = some i) (h : logicBImm .or op st = .ok c st') :
    st' = { st with regs := (specRegCcr i st).1, ccr := (specRegCcr i st).2 } := by
  logic_handler Spec.instrOf_OR_B_IMM Spec.pat_OR_B_IMM

theorem XOR_B_RR (op : BitVec 16) (st st' : Cpu) (c : BitVec 8) (i : Spec.Instr)
    (hp : Spec.Form.pat .XOR_B_RR op 0 0 0 0 = true)
    (hi : Spec.instrOf .XOR_B_RR op 0 0 0 0 = some i) (h : logicRn .xor .B op 1 st = .ok c st') :
    st' = { st with regs := (specRegCcr i st).1, ccr := (specRegCcr i st).2 } := by
  logic_handler Spec.instrOf_XOR_B_RR Spec.pat_XOR_B_RR

theorem XOR_W_RR (op : BitVec 16) (st st' : Cpu) (c : BitVec 8) (i : Spec.Instr)
    (hp : Spec.Form.pat .XOR_W_RR op 0 0 0 0 = true)
    (hi : Spec.instrOf .XOR_W_RR op 0 0 0 0 = some i) (h : logicRn .xor .W op 1 st = .ok c st') :
    st' = { st with regs := (specRegCcr i st).1, ccr := (specRegCcr i st).2 } := by
  logic_handler Spec.instrOf_XOR_W_RR Spec.pat_XOR_W_RR

theorem XOR_B_IMM (op : BitVec 16) (st st' : Cpu) (c : BitVec 8) (i : Spec.Instr)
    (hp : Spec.Form.pat .XOR_B_IMM op 0 0 0 0 = true)
    (hi : Spec.instrOf .XOR_B_IMM op 0 0 0 0 = some i) (h : logicBImm .xor op st = .ok c st') :
    st' = { st with regs := (specRegCcr i st).1, ccr := (specRegCcr i st).2 } := by
  logic_handler Spec.instrOf_XOR_B_IMM Spec.pat_XOR_B_IMM

end H8.Props.C03
