/-
  C08 at handler level, 24-bit displacement — MOV.B through `@(d:24,ERn)`, load and store (78r0 6A2d / 6AAs dddddddd: the
  handler gets the first two words and fetches the two displacement words itself): the byte moved is the one at
  ERn + d modulo 2^24 (the upper byte of ERn takes no part; the encoding's upper displacement byte is zero).
-/
import H8.Props.C08D
set_option linter.unusedSimpArgs false
namespace H8.Props.C08X
open H8 H8.Lemmas H8.Props H8.Props.C01M H8.Props.C01N H8.Props.C08D

set_option hygiene false in
local macro "movcost_subst" : tactic => `(tactic|
  (split at h
   case h_2 => simp at h
   case h_3 => simp at h
   rename_i c1 sa h1; have := costI_state h1; subst this
   split at h
   case h_2 => simp at h
   case h_3 => simp at h
   rename_i c2 sb2 h2; have := calcStateWithAddr_state h2; subst this
   injection h with _ h; subst h))

/-- ERn + d:24 modulo 2^24 -/
theorem disp24_toNat (x : BitVec 32) (hi lo : BitVec 16) (h0 : hi &&& 0xff00#16 = 0x0000#16) :
    ((x + ((hi.setWidth 32 <<< 16) ||| lo.setWidth 32)) &&& ADDRESS_MASK).toNat =
      ((x.setWidth 24 + ((BitVec.setWidth 24 (BitVec.extractLsb' 0 8 hi) <<< 16) ||| BitVec.setWidth 24 (BitVec.extractLsb' 0 16 lo))).toNat + 0) % 2 ^ 24 := by
  have e : (x + ((hi.setWidth 32 <<< 16) ||| lo.setWidth 32)) &&& ADDRESS_MASK =
      (x.setWidth 24 + ((BitVec.setWidth 24 (BitVec.extractLsb' 0 8 hi) <<< 16) ||| BitVec.setWidth 24 (BitVec.extractLsb' 0 16 lo))).setWidth 32 := by
    unfold ADDRESS_MASK; bv_decide
  rw [e]
  have hlt := (x.setWidth 24 + ((BitVec.setWidth 24 (BitVec.extractLsb' 0 8 hi) <<< 16) ||| BitVec.setWidth 24 (BitVec.extractLsb' 0 16 lo))).isLt
  simp only [BitVec.toNat_setWidth, Nat.add_zero]
  omega

/-- MOV.B @(d:24,ERs),Rd -/
theorem MOV_B_LD_D24 (op op2 hi lo : BitVec 16) (st s1 s2 st' : Cpu) (c : BitVec 8) (i : Spec.Instr)
    (hp : Spec.Form.pat .MOV_B_LD_D24 op op2 hi lo 0 = true)
    (hi' : Spec.instrOf .MOV_B_LD_D24 op op2 hi lo 0 = some i) (hf : fetch st = .ok hi s1) (hf2 : fetch s1 = .ok lo s2)
    (h : movDisp24BW .B op op2 st = .ok c st') :
    st' = { s2 with regs := (specRegCcr i s2).1, ccr := (specRegCcr i s2).2 } := by
  rw [Spec.instrOf_MOV_B_LD_D24] at hi'; simp only [Option.some.injEq] at hi'; subst hi'
  rw [Spec.pat_MOV_B_LD_D24] at hp; simp only [Bool.and_eq_true, beq_iff_eq] at hp
  have htag : (op2 &&& 0xfff0 == 0x6a20) = true := by bv_decide
  have h3 : (nib op 3).ule 7#8 = true := by (simp only [nib]; bv_decide)
  simp only [movDisp24BW, bind_ok, fetch32_ok _ _ _ _ _ hf hf2, beq_self_eq_true, if_true, htag, getAddrDisp24, readMem, pure_ok,
    readRnL_ok _ _ h3] at h
  split at h
  case h_2 => simp at h
  case h_3 => simp at h
  rename_i v s3 hb
  split at hb
  case h_2 => simp at hb
  case h_3 => simp at hb
  rename_i vb sb hbb
  simp only [Res.ok.injEq] at hb
  obtain ⟨hv, hs3⟩ := hb
  subst hv; subst hs3
  obtain ⟨e1, e2, _⟩ := busRead_peek _ _ _ _ hbb
  subst e1
  simp only [writeRn, movPccSz, movPcc, writeRnB_nib, bind_ok, pure_ok, changeCcr_ok, writeCcr_zero, Sz.dataKind] at h
  movcost_subst
  simp only [specRegCcr, Spec.exec, Spec.getReg, Spec.setReg, Spec.movFlags, Spec.eaOf, Spec.eaRegs, getR8_eq, setR8_eq,
    getER_eq, loadBE_one, Spec.Sz.bytes]
  have hidx : (BitVec.setWidth 8 (BitVec.setWidth 3 (BitVec.extractLsb' 4 3 op))) = nib op 3 := by
    simp only [nib]; bv_decide
  rw [hidx]
  rw [disp24_toNat _ hi lo hp.1.1.2] at e2
  rw [← e2]
  generalize sb.regs = r; generalize sb.ccr = cc
  congr 1
  all_goals (
    simp only [nib, rdB, wrB, getEr, setEr, shOf, Spec.nzClearV, Spec.setFlag, changeCcrV, Spec.z4, Spec.zx8, Spec.lo3]
    bv_decide)

/-- MOV.B Rs,@(d:24,ERd) -/
theorem MOV_B_ST_D24 (op op2 hi lo : BitVec 16) (st s1 s2 st' : Cpu) (c : BitVec 8) (i : Spec.Instr)
    (hp : Spec.Form.pat .MOV_B_ST_D24 op op2 hi lo 0 = true)
    (hi' : Spec.instrOf .MOV_B_ST_D24 op op2 hi lo 0 = some i) (hf : fetch st = .ok hi s1) (hf2 : fetch s1 = .ok lo s2)
    (h : movDisp24BW .B op op2 st = .ok c st')
    (hsfr : Spec.isSfr ((getEr s2.regs (nib op 3 &&& 7) + ((hi.setWidth 32 <<< 16) ||| lo.setWidth 32)) &&& ADDRESS_MASK).toNat = false) :
    st' = { s2 with regs := (specRegCcrBus i s2).1, ccr := (specRegCcrBus i s2).2.1, bus := (specRegCcrBus i s2).2.2 } := by
  rw [Spec.instrOf_MOV_B_ST_D24] at hi'; simp only [Option.some.injEq] at hi'; subst hi'
  rw [Spec.pat_MOV_B_ST_D24] at hp; simp only [Bool.and_eq_true, beq_iff_eq] at hp
  have htag : (op2 &&& 0xfff0 == 0x6a20) = false := by bv_decide
  have h3 : (nib op 3 &&& 7).ule 7#8 = true := by (simp only [nib]; bv_decide)
  simp only [movDisp24BW, bind_ok, fetch32_ok _ _ _ _ _ hf hf2, beq_self_eq_true, if_true, htag, Bool.false_eq_true, if_false,
    getAddrDisp24, writeMem, readRn, pure_ok, readRnL_ok _ _ h3, readRnB_nib] at h
  split at h
  case h_2 => simp at h
  case h_3 => simp at h
  rename_i u s3 hw
  have e1 := busWrite_poke _ _ _ _ hw hsfr
  subst e1
  simp only [movPccSz, movPcc, bind_ok, pure_ok, changeCcr_ok, writeCcr_zero, Sz.dataKind] at h
  movcost_subst
  simp only [specRegCcrBus, Spec.exec, Spec.getReg, Spec.setReg, Spec.movFlags, Spec.eaOf, Spec.eaRegs, getR8_eq, setR8_eq,
    getER_eq, storeBE_one, Spec.Sz.bytes]
  have hidx : (BitVec.setWidth 8 (BitVec.setWidth 3 (BitVec.extractLsb' 4 3 op))) = nib op 3 &&& 7 := by
    simp only [nib]; bv_decide
  rw [hidx, ← disp24_toNat _ hi lo hp.1.1.2]
  generalize hA : ((getEr s2.regs (nib op 3 &&& 7) + ((hi.setWidth 32 <<< 16) ||| lo.setWidth 32)) &&& ADDRESS_MASK).toNat = A
  generalize s2.regs = r; generalize s2.ccr = cc; generalize s2.bus = bus
  have hn : nib op2 4 = ((op2.extractLsb' 0 4).setWidth 4).setWidth 8 := by simp only [nib]; bv_decide
  rw [hn]
  congr 1
  all_goals (
    try (congr 1)
    all_goals (
      simp only [nib, rdB, wrB, getEr, setEr, shOf, Spec.nzClearV, Spec.setFlag, changeCcrV, Spec.z4, Spec.zx8, Spec.lo3]
      bv_decide))

end H8.Props.C08X
