/-
  C08 at handler level, 24-bit displacement — MOV.B through `@(d:24,ERn)`, load and store (78r0 6A2d / 6AAs dddddddd: the
  handler gets the first two words and fetches the two displacement words itself): the byte moved is the one at
  ERn + d modulo 2^24 (the upper byte of ERn takes no part; the encoding's upper displacement byte is zero).
-/
import H8.Props.C08D
import H8.Props.C08W
import H8.Props.C01L
set_option linter.unusedSimpArgs false
namespace H8.Props.C08X
open H8 H8.Lemmas H8.Props H8.Props.C01M H8.Props.C01N H8.Props.C01L H8.Props.C08D H8.Props.C08W

set_option hygiene false in
local macro "movcost_subst" : tactic => `(tactic|
  (split at h
   case h_2 => simp at h
   case h_3 => simp at h
   rename_i c1 sa h1; have := costI_state h1; subst this
   split at h
   case h_2 => simp at h
   case h_3 => simp at h
   rename_i c2 sb2 h2; have := calcStateWithAddr_state h2; subst this
   injection h with _ h; subst h))

/-- ERn + d:24 modulo 2^24 -/
theorem disp24_toNat (x : BitVec 32) (hi lo : BitVec 16) (h0 : hi &&& 0xff00#16 = 0x0000#16) :
    ((x + ((hi.setWidth 32 <<< 16) ||| lo.setWidth 32)) &&& ADDRESS_MASK).toNat =
      ((x.setWidth 24 + ((BitVec.setWidth 24 (BitVec.extractLsb' 0 8 hi) <<< 16) ||| BitVec.setWidth 24 (BitVec.extractLsb' 0 16 lo))).toNat + 0) % 2 ^ 24 := by
  have e : (x + ((hi.setWidth 32 <<< 16) ||| lo.setWidth 32)) &&& ADDRESS_MASK =
      (x.setWidth 24 + ((BitVec.setWidth 24 (BitVec.extractLsb' 0 8 hi) <<< 16) ||| BitVec.setWidth 24 (BitVec.extractLsb' 0 16 lo))).setWidth 32 := by
    unfold ADDRESS_MASK; bv_decide
  rw [e]
  have hlt := (x.setWidth 24 + ((BitVec.setWidth 24 (BitVec.extractLsb' 0 8 hi) <<< 16) ||| BitVec.setWidth 24 (BitVec.extractLsb' 0 16 lo))).isLt
  simp only [BitVec.toNat_setWidth, Nat.add_zero]
  omega

/-- MOV.B @(d:24,ERs),Rd -/
theorem MOV_B_LD_D24 (op op2 hi lo : BitVec 16) (st s1 s2 st' : Cpu) (c : BitVec 8) (i : Spec.Instr)
    (hp : Spec.Form.pat .MOV_B_LD_D24 op op2 hi lo 0 = true)
    (hi' : Spec.instrOf .MOV_B_LD_D24 op op2 hi lo 0 = some i) (hf : fetch st = .ok hi s1) (hf2 : fetch s1 = .ok lo s2)
    (h : movDisp24BW .B op op2 st = .ok c st') :
    st' = { s2 with regs := (specRegCcr i s2).1, ccr := (specRegCcr i s2).2 } := by
  rw [Spec.instrOf_MOV_B_LD_D24] at hi'; simp only [Option.some.injEq] at hi'; subst hi'
  rw [Spec.pat_MOV_B_LD_D24] at hp; simp only [Bool.and_eq_true, beq_iff_eq] at hp
  have htag : (op2 &&& 0xfff0 == 0x6a20) = true := by bv_decide
  have h3 : (nib op 3).ule 7#8 = true := by (simp only [nib]; bv_decide)
  simp only [movDisp24BW, bind_ok, fetch32_ok _ _ _ _ _ hf hf2, beq_self_eq_true, if_true, htag, getAddrDisp24, readMem, pure_ok,
    readRnL_ok _ _ h3] at h
  split at h
  case h_2 => simp at h
  case h_3 => simp at h
  rename_i v s3 hb
  split at hb
  case h_2 => simp at hb
  case h_3 => simp at hb
  rename_i vb sb hbb
  simp only [Res.ok.injEq] at hb
  obtain ⟨hv, hs3⟩ := hb
  subst hv; subst hs3
  obtain ⟨e1, e2, _⟩ := busRead_peek _ _ _ _ hbb
  subst e1
  simp only [writeRn, movPccSz, movPcc, writeRnB_nib, bind_ok, pure_ok, changeCcr_ok, writeCcr_zero, Sz.dataKind] at h
  movcost_subst
  simp only [specRegCcr, Spec.exec, Spec.getReg, Spec.setReg, Spec.movFlags, Spec.eaOf, Spec.eaRegs, getR8_eq, setR8_eq,
    getER_eq, loadBE_one, Spec.Sz.bytes]
  have hidx : (BitVec.setWidth 8 (BitVec.setWidth 3 (BitVec.extractLsb' 4 3 op))) = nib op 3 := by
    simp only [nib]; bv_decide
  rw [hidx]
  rw [disp24_toNat _ hi lo hp.1.1.2] at e2
  rw [← e2]
  generalize sb.regs = r; generalize sb.ccr = cc
  congr 1
  all_goals (
    simp only [nib, rdB, wrB, getEr, setEr, shOf, Spec.nzClearV, Spec.setFlag, changeCcrV, Spec.z4, Spec.zx8, Spec.lo3]
    bv_decide)

/-- MOV.B Rs,@(d:24,ERd) -/
theorem MOV_B_ST_D24 (op op2 hi lo : BitVec 16) (st s1 s2 st' : Cpu) (c : BitVec 8) (i : Spec.Instr)
    (hp : Spec.Form.pat .MOV_B_ST_D24 op op2 hi lo 0 = true)
    (hi' : Spec.instrOf .MOV_B_ST_D24 op op2 hi lo 0 = some i) (hf : fetch st = .ok hi s1) (hf2 : fetch s1 = .ok lo s2)
    (h : movDisp24BW .B op op2 st = .ok c st')
    (hsfr : Spec.isSfr ((getEr s2.regs (nib op 3 &&& 7) + ((hi.setWidth 32 <<< 16) ||| lo.setWidth 32)) &&& ADDRESS_MASK).toNat = false) :
    st' = { s2 with regs := (specRegCcrBus i s2).1, ccr := (specRegCcrBus i s2).2.1, bus := (specRegCcrBus i s2).2.2 } := by
  rw [Spec.instrOf_MOV_B_ST_D24] at hi'; simp only [Option.some.injEq] at hi'; subst hi'
  rw [Spec.pat_MOV_B_ST_D24] at hp; simp only [Bool.and_eq_true, beq_iff_eq] at hp
  have htag : (op2 &&& 0xfff0 == 0x6a20) = false := by bv_decide
  have h3 : (nib op 3 &&& 7).ule 7#8 = true := by (simp only [nib]; bv_decide)
  simp only [movDisp24BW, bind_ok, fetch32_ok _ _ _ _ _ hf hf2, beq_self_eq_true, if_true, htag, Bool.false_eq_true, if_false,
    getAddrDisp24, writeMem, readRn, pure_ok, readRnL_ok _ _ h3, readRnB_nib] at h
  split at h
  case h_2 => simp at h
  case h_3 => simp at h
  rename_i u s3 hw
  have e1 := busWrite_poke _ _ _ _ hw hsfr
  subst e1
  simp only [movPccSz, movPcc, bind_ok, pure_ok, changeCcr_ok, writeCcr_zero, Sz.dataKind] at h
  movcost_subst
  simp only [specRegCcrBus, Spec.exec, Spec.getReg, Spec.setReg, Spec.movFlags, Spec.eaOf, Spec.eaRegs, getR8_eq, setR8_eq,
    getER_eq, storeBE_one, Spec.Sz.bytes]
  have hidx : (BitVec.setWidth 8 (BitVec.setWidth 3 (BitVec.extractLsb' 4 3 op))) = nib op 3 &&& 7 := by
    simp only [nib]; bv_decide
  rw [hidx, ← disp24_toNat _ hi lo hp.1.1.2]
  generalize hA : ((getEr s2.regs (nib op 3 &&& 7) + ((hi.setWidth 32 <<< 16) ||| lo.setWidth 32)) &&& ADDRESS_MASK).toNat = A
  generalize s2.regs = r; generalize s2.ccr = cc; generalize s2.bus = bus
  have hn : nib op2 4 = ((op2.extractLsb' 0 4).setWidth 4).setWidth 8 := by simp only [nib]; bv_decide
  rw [hn]
  congr 1
  all_goals (
    try (congr 1)
    all_goals (
      simp only [nib, rdB, wrB, getEr, setEr, shOf, Spec.nzClearV, Spec.setFlag, changeCcrV, Spec.z4, Spec.zx8, Spec.lo3]
      bv_decide))

/-! ### word operands -/

theorem disp24_1_toNat (x : BitVec 32) (hi lo : BitVec 16) (h0 : hi &&& 0xff00#16 = 0x0000#16)
    (hm : Spec.regionOf (((x + ((hi.setWidth 32 <<< 16) ||| lo.setWidth 32)) &&& ADDRESS_MASK) + 1).toNat ≠ .none) :
    (((x + ((hi.setWidth 32 <<< 16) ||| lo.setWidth 32)) &&& ADDRESS_MASK) + 1).toNat =
      ((x.setWidth 24 + ((BitVec.setWidth 24 (BitVec.extractLsb' 0 8 hi) <<< 16) ||| BitVec.setWidth 24 (BitVec.extractLsb' 0 16 lo))).toNat + 1) % 2 ^ 24 := by
  rw [addr1_toNat _ hm]
  have e : (x + ((hi.setWidth 32 <<< 16) ||| lo.setWidth 32)).setWidth 24 =
      x.setWidth 24 + ((BitVec.setWidth 24 (BitVec.extractLsb' 0 8 hi) <<< 16) ||| BitVec.setWidth 24 (BitVec.extractLsb' 0 16 lo)) := by
    bv_decide
  rw [e]

/-- MOV.W @(d:24,ERs),Rd -/
theorem MOV_W_LD_D24 (op op2 hi lo : BitVec 16) (st s1 s2 st' : Cpu) (c : BitVec 8) (i : Spec.Instr)
    (hp : Spec.Form.pat .MOV_W_LD_D24 op op2 hi lo 0 = true)
    (hi' : Spec.instrOf .MOV_W_LD_D24 op op2 hi lo 0 = some i) (hf : fetch st = .ok hi s1) (hf2 : fetch s1 = .ok lo s2)
    (h : movDisp24BW .W op op2 st = .ok c st') :
    st' = { s2 with regs := (specRegCcr i s2).1, ccr := (specRegCcr i s2).2 } := by
  rw [Spec.instrOf_MOV_W_LD_D24] at hi'; simp only [Option.some.injEq] at hi'; subst hi'
  rw [Spec.pat_MOV_W_LD_D24] at hp; simp only [Bool.and_eq_true, beq_iff_eq] at hp
  have htag : (op2 &&& 0xfff0 == 0x6b20) = true := by bv_decide
  have hsz : (Sz.W == Sz.B) = false := by decide
  have h3 : (nib op 3).ule 7#8 = true := by (simp only [nib]; bv_decide)
  simp only [movDisp24BW, bind_ok, fetch32_ok _ _ _ _ _ hf hf2, hsz, Bool.false_eq_true, if_false, if_true, htag, getAddrDisp24,
    readMem, readAbs24W, pure_ok, readRnL_ok _ _ h3] at h
  split at h
  case h_2 => simp at h
  case h_3 => simp at h
  rename_i v s3 hb
  split at hb
  case h_2 => simp at hb
  case h_3 => simp at hb
  rename_i w16 sw hw
  split at hw
  case h_2 => simp at hw
  case h_3 => simp at hw
  rename_i vhi sh hhi
  obtain ⟨eh1, eh2, _⟩ := busRead_peek _ _ _ _ hhi
  subst eh1
  split at hw
  case h_2 => simp at hw
  case h_3 => simp at hw
  rename_i vlo sl hlo
  obtain ⟨el1, el2, hml⟩ := busRead_peek _ _ _ _ hlo
  subst el1
  simp only [Res.ok.injEq] at hw
  obtain ⟨hw1, hw2⟩ := hw
  subst hw1; subst hw2
  simp only [Res.ok.injEq] at hb
  obtain ⟨hb1, hb2⟩ := hb
  subst hb1; subst hb2
  simp only [writeRn, movPccSz, movPcc, writeRnW_nib, bind_ok, pure_ok, changeCcr_ok, writeCcr_zero, Sz.dataKind] at h
  movcost_subst
  simp only [specRegCcr, Spec.exec, Spec.getReg, Spec.setReg, Spec.movFlags, Spec.eaOf, Spec.eaRegs, getR16_eq, setR16_eq,
    getER_eq, loadBE_two, Spec.Sz.bytes]
  have hidx : (BitVec.setWidth 8 (BitVec.setWidth 3 (BitVec.extractLsb' 4 3 op))) = nib op 3 := by
    simp only [nib]; bv_decide
  rw [hidx]
  rw [disp24_toNat _ hi lo hp.1.1.2] at eh2
  rw [disp24_1_toNat _ hi lo hp.1.1.2 hml] at el2
  rw [← eh2, ← el2]
  generalize sl.regs = r; generalize sl.ccr = cc
  congr 1
  all_goals (
    simp only [nib, rdW, wrW, getEr, setEr, shOf, Spec.nzClearV, Spec.setFlag, changeCcrV, Spec.z4, Spec.zx16, Spec.lo3]
    bv_decide)

/-- MOV.W Rs,@(d:24,ERd) -/
theorem MOV_W_ST_D24 (op op2 hi lo : BitVec 16) (st s1 s2 st' : Cpu) (c : BitVec 8) (i : Spec.Instr)
    (hp : Spec.Form.pat .MOV_W_ST_D24 op op2 hi lo 0 = true)
    (hi' : Spec.instrOf .MOV_W_ST_D24 op op2 hi lo 0 = some i) (hf : fetch st = .ok hi s1) (hf2 : fetch s1 = .ok lo s2)
    (h : movDisp24BW .W op op2 st = .ok c st')
    (hsfr0 : Spec.isSfr ((getEr s2.regs (nib op 3 &&& 7) + ((hi.setWidth 32 <<< 16) ||| lo.setWidth 32)) &&& ADDRESS_MASK).toNat = false)
    (hsfr1 : Spec.isSfr (((getEr s2.regs (nib op 3 &&& 7) + ((hi.setWidth 32 <<< 16) ||| lo.setWidth 32)) &&& ADDRESS_MASK) + 1).toNat = false) :
    st' = { s2 with regs := (specRegCcrBus i s2).1, ccr := (specRegCcrBus i s2).2.1, bus := (specRegCcrBus i s2).2.2 } := by
  rw [Spec.instrOf_MOV_W_ST_D24] at hi'; simp only [Option.some.injEq] at hi'; subst hi'
  rw [Spec.pat_MOV_W_ST_D24] at hp; simp only [Bool.and_eq_true, beq_iff_eq] at hp
  have htag : (op2 &&& 0xfff0 == 0x6b20) = false := by bv_decide
  have hsz : (Sz.W == Sz.B) = false := by decide
  have h3 : (nib op 3 &&& 7).ule 7#8 = true := by (simp only [nib]; bv_decide)
  simp only [movDisp24BW, bind_ok, fetch32_ok _ _ _ _ _ hf hf2, hsz, htag, Bool.false_eq_true, if_false, getAddrDisp24, writeMem,
    writeAbs24W, readRn, pure_ok, readRnL_ok _ _ h3, readRnW_nib] at h
  split at h
  case h_2 => simp at h
  case h_3 => simp at h
  rename_i u s3 hw
  split at hw
  case h_2 => simp at hw
  case h_3 => simp at hw
  rename_i u0 s0 hw0
  have e0 := busWrite_poke _ _ _ _ hw0 hsfr0
  subst e0
  have hm1 := busWrite_mapped _ _ _ _ hw
  have e1 := busWrite_poke _ _ _ _ hw hsfr1
  subst e1
  simp only [movPccSz, movPcc, bind_ok, pure_ok, changeCcr_ok, writeCcr_zero, Sz.dataKind] at h
  movcost_subst
  simp only [specRegCcrBus, Spec.exec, Spec.getReg, Spec.setReg, Spec.movFlags, Spec.eaOf, Spec.eaRegs, getR16_eq, setR16_eq,
    getER_eq, storeBE_two, Spec.Sz.bytes]
  have hidx : (BitVec.setWidth 8 (BitVec.setWidth 3 (BitVec.extractLsb' 4 3 op))) = nib op 3 &&& 7 := by
    simp only [nib]; bv_decide
  rw [hidx, ← disp24_toNat _ hi lo hp.1.1.2, ← disp24_1_toNat _ hi lo hp.1.1.2 hm1]
  generalize hA : ((getEr s2.regs (nib op 3 &&& 7) + ((hi.setWidth 32 <<< 16) ||| lo.setWidth 32)) &&& ADDRESS_MASK).toNat = A
  generalize hB : (((getEr s2.regs (nib op 3 &&& 7) + ((hi.setWidth 32 <<< 16) ||| lo.setWidth 32)) &&& ADDRESS_MASK) + 1).toNat = B
  generalize s2.regs = r; generalize s2.ccr = cc; generalize s2.bus = bus
  have hn : nib op2 4 = ((op2.extractLsb' 0 4).setWidth 4).setWidth 8 := by simp only [nib]; bv_decide
  rw [hn]
  generalize rdW r _ = w
  have e1 : BitVec.setWidth 8 (BitVec.setWidth 16 (BitVec.setWidth 32 w) >>> 8) = BitVec.setWidth 8 (BitVec.setWidth 32 w >>> 8) := by
    bv_decide
  have e2 : BitVec.setWidth 8 (BitVec.setWidth 16 (BitVec.setWidth 32 w)) = BitVec.setWidth 8 (BitVec.setWidth 32 w) := by
    bv_decide
  rw [e1, e2]
  congr 1

/-! ### long operands (0100 78r0 6B2d / 6BAs dddddddd: the handler runs on the second word and fetches three more) -/

theorem disp24_sum24 (x : BitVec 32) (hi lo : BitVec 16) (h0 : hi &&& 0xff00#16 = 0x0000#16) :
    (x + ((hi.setWidth 32 <<< 16) ||| lo.setWidth 32)).setWidth 24 =
      x.setWidth 24 + ((BitVec.setWidth 24 (BitVec.extractLsb' 0 8 hi) <<< 16) ||| BitVec.setWidth 24 (BitVec.extractLsb' 0 16 lo)) := by
  bv_decide

/-- MOV.L @(d:24,ERs),ERd -/
theorem MOV_L_LD_D24 (op op2 op3 hi lo : BitVec 16) (st s1 s2 s3 st' : Cpu) (c : BitVec 8) (i : Spec.Instr)
    (hp : Spec.Form.pat .MOV_L_LD_D24 op op2 op3 hi lo = true)
    (hi' : Spec.instrOf .MOV_L_LD_D24 op op2 op3 hi lo = some i)
    (hf0 : fetch st = .ok op3 s1) (hf : fetch s1 = .ok hi s2) (hf2 : fetch s2 = .ok lo s3)
    (h : movLDisp24 op2 st = .ok c st') :
    st' = { s3 with regs := (specRegCcr i s3).1, ccr := (specRegCcr i s3).2 } := by
  rw [Spec.instrOf_MOV_L_LD_D24] at hi'; simp only [Option.some.injEq] at hi'; subst hi'
  rw [Spec.pat_MOV_L_LD_D24] at hp; simp only [Bool.and_eq_true, beq_iff_eq] at hp
  have hdir : (op2 &&& 0x0080 == 0) = true := by bv_decide
  have h3 : (nib op2 3).ule 7#8 = true := by (simp only [nib]; bv_decide)
  have h4 : (nib op3 4).ule 7#8 = true := by (simp only [nib]; bv_decide)
  simp only [movLDisp24, bind_ok, hf0, fetch32_ok _ _ _ _ _ hf hf2, hdir, if_true, getAddrDisp24, pure_ok, readRnL_ok _ _ h3] at h
  split at h
  case h_2 => simp at h
  case h_3 => simp at h
  rename_i v s4 hrd
  obtain ⟨es, ev⟩ := readAbs24L_peek _ _ _ _ hrd
  subst es
  simp only [movPcc, writeRnL_ok _ _ _ h4, bind_ok, pure_ok, changeCcr_ok, writeCcr_zero] at h
  movcost_subst
  simp only [specRegCcr, Spec.exec, Spec.getReg, Spec.setReg, Spec.movFlags, Spec.eaOf, Spec.eaRegs, getER_eq, setER_eq,
    Spec.Sz.bytes]
  have hidx : (BitVec.setWidth 8 (BitVec.setWidth 3 (BitVec.extractLsb' 4 3 op2))) = nib op2 3 := by
    simp only [nib]; bv_decide
  have hd : (BitVec.setWidth 8 (Spec.lo3 (Spec.z4 (BitVec.setWidth 3 (BitVec.extractLsb' 0 3 op3))))) = nib op3 4 := by
    simp only [nib, Spec.lo3, Spec.z4]; bv_decide
  rw [hidx, hd, ← disp24_sum24 _ hi lo hp.1.2, ← ev]
  generalize s4.regs = r; generalize s4.ccr = cc
  congr 1

/-- MOV.L ERs,@(d:24,ERd) -/
theorem MOV_L_ST_D24 (op op2 op3 hi lo : BitVec 16) (st s1 s2 s3 st' : Cpu) (c : BitVec 8) (i : Spec.Instr)
    (hp : Spec.Form.pat .MOV_L_ST_D24 op op2 op3 hi lo = true)
    (hi' : Spec.instrOf .MOV_L_ST_D24 op op2 op3 hi lo = some i)
    (hf0 : fetch st = .ok op3 s1) (hf : fetch s1 = .ok hi s2) (hf2 : fetch s2 = .ok lo s3)
    (h : movLDisp24 op2 st = .ok c st')
    (f0 : Spec.isSfr ((getEr s3.regs (nib op2 3 &&& 7) + ((hi.setWidth 32 <<< 16) ||| lo.setWidth 32)) &&& ADDRESS_MASK).toNat = false)
    (f1 : Spec.isSfr (((getEr s3.regs (nib op2 3 &&& 7) + ((hi.setWidth 32 <<< 16) ||| lo.setWidth 32)) &&& ADDRESS_MASK) + 1).toNat = false)
    (f2 : Spec.isSfr (((getEr s3.regs (nib op2 3 &&& 7) + ((hi.setWidth 32 <<< 16) ||| lo.setWidth 32)) &&& ADDRESS_MASK) + 2).toNat = false)
    (f3 : Spec.isSfr (((getEr s3.regs (nib op2 3 &&& 7) + ((hi.setWidth 32 <<< 16) ||| lo.setWidth 32)) &&& ADDRESS_MASK) + 2 + 1).toNat = false) :
    st' = { s3 with regs := (specRegCcrBus i s3).1, ccr := (specRegCcrBus i s3).2.1, bus := (specRegCcrBus i s3).2.2 } := by
  rw [Spec.instrOf_MOV_L_ST_D24] at hi'; simp only [Option.some.injEq] at hi'; subst hi'
  rw [Spec.pat_MOV_L_ST_D24] at hp; simp only [Bool.and_eq_true, beq_iff_eq] at hp
  have hdir : (op2 &&& 0x0080 == 0) = false := by bv_decide
  have h3 : (nib op2 3 &&& 7).ule 7#8 = true := by (simp only [nib]; bv_decide)
  have h4 : (nib op3 4).ule 7#8 = true := by (simp only [nib]; bv_decide)
  simp only [movLDisp24, bind_ok, hf0, fetch32_ok _ _ _ _ _ hf hf2, hdir, Bool.false_eq_true, if_false, getAddrDisp24, pure_ok,
    readRnL_ok _ _ h3, readRnL_ok _ _ h4] at h
  split at h
  case h_2 => simp at h
  case h_3 => simp at h
  rename_i u s4 hw
  have ew := writeAbs24L_poke _ _ _ _ hw f0 f1 f2 f3
  subst ew
  simp only [movPcc, bind_ok, pure_ok, changeCcr_ok, writeCcr_zero] at h
  movcost_subst
  simp only [specRegCcrBus, Spec.exec, Spec.getReg, Spec.setReg, Spec.movFlags, Spec.eaOf, Spec.eaRegs, getER_eq, setER_eq,
    Spec.Sz.bytes]
  have hidx : (BitVec.setWidth 8 (BitVec.setWidth 3 (BitVec.extractLsb' 4 3 op2))) = nib op2 3 &&& 7 := by
    simp only [nib]; bv_decide
  have hd : (BitVec.setWidth 8 (Spec.lo3 (Spec.z4 (BitVec.setWidth 3 (BitVec.extractLsb' 0 3 op3))))) = nib op3 4 := by
    simp only [nib, Spec.lo3, Spec.z4]; bv_decide
  rw [hidx, hd, ← disp24_sum24 _ hi lo hp.1.2]
  generalize s3.regs = r; generalize s3.ccr = cc; generalize s3.bus = bus
  congr 1

end H8.Props.C08X
