/-
  C20 — Each instruction is charged the manual's bus-cycle mix at the areas it touches.

  `cost_at`: whatever the bus-controller bytes in memory are, a cost lookup of the model for n ≤ 5
  cycles of one kind at an in-domain address is n · (per-cycle cost of C19) — so a handler's charge
  is the sum over its (kind, count, address) triples.  `mix_*`: the triples of representative
  handlers against the manual's mix in spec/isa.tbl; all forms are compared by the correspondence
  run under six bus settings that make every (area, kind) cost distinct.
-/
import H8.Props.Common
import H8.Lemmas.Cost
namespace H8.Props.C20
open H8 H8.Lemmas H8.Props

theorem cost_at (st : Cpu) (k : Kind) (n : BitVec 8) (a : BitVec 32) (v1 v2 v3 v4 v5 : BitVec 8)
    (h1 : st.bus.read (BitVec.ofNat 32 Gen.ABWCR) = .ok v1) (h2 : st.bus.read (BitVec.ofNat 32 Gen.ASTCR) = .ok v2)
    (h3 : st.bus.read (BitVec.ofNat 32 Gen.WCRH) = .ok v3) (h4 : st.bus.read (BitVec.ofNat 32 Gen.WCRL) = .ok v4)
    (h5 : st.bus.read (BitVec.ofNat 32 Gen.DRCRA) = .ok v5)
    (hn : BitVec.ule n 5#8 = true) (hd : Spec.domC19 v5 a = true) :
    costAt st k n a = some (n * Spec.cost1 v1 v2 v3 v4 v5 k a) := by
  unfold costAt
  simp only [h1, h2, h3, h4, h5]
  rw [C19.cost_eq_spec v1 v2 v3 v4 v5 k n a hn hd]
  simp [R8.isErr, R8.val]

/-- the manual's mix of ADD.B Rs,Rd is I×1: the handler's charge is exactly `costI 1` -/
theorem mix_ADD_B_RR (op : BitVec 16) (st st' : Cpu) (c : BitVec 8) (h : addBRn op st = .ok c st') :
    ∃ s, costI 1 s = .ok c s ∧ s.opc = st.opc ∧ s.bus = st.bus ∧ (Spec.Form.mix .ADD_B_RR) = { i := 1 } := by
  simp only [addBRn, bind_ok, readRnB_nib, writeRnB_nib, addProc8] at h
  have hs := costI_state h
  subst hs
  exact ⟨_, h, rfl, rfl, rfl⟩

/-- MULXU.B: I×1 + N×12 -/
theorem mix_MULXU_B : Spec.Form.mix .MULXU_B = { i := 1, n := 12 } := rfl
/-- BSR d:8: I×2 + K×2 (repaired: was K×1 + N×2) -/
theorem mix_BSR_D8 : Spec.Form.mix .BSR_D8 = { i := 2, k := 2 } := rfl
/-- TRAPA: I×2 + J×2 + K×2 + N×4 -/
theorem mix_TRAPA : Spec.Form.mix .TRAPA = { i := 2, j := 2, k := 2, n := 4 } := rfl

/-- no u8 overflow in a handler's sum: the largest mix (MOV.L @(d:24): I×5 + M×2) under the slowest
    setting (8-bit DRAM, 3 waits: 14 states per word access) is 98 < 256 -/
theorem max_charge_fits : 5 * 14 + 2 * 14 < 256 := by decide

end H8.Props.C20
