/-
  C19 — Bus-cycle costs follow the bus-controller settings for every area configuration.
  Theorems are about `Gen.calc_state_with_addr`, which tools/rs2lean.py regenerates from
  /repo/src/cpu.rs and /repo/src/bus.rs on every run.
-/
import H8.Gen.BusCost
import H8.Spec.BusCost
import Std.Tactic.BVDecide
namespace H8.Props.C19
open H8 H8.Spec

local macro "unfold_cost" : tactic => `(tactic|
  simp only [Gen.calc_state_with_addr, Gen.get_area_index, Gen.check_dram_area, Gen.get_wait_state,
    Rbind_8_8, Rbind_1_8, cost1, inRam, inIoRegs, areaOf, bitOf, waitOf, isDram, isWordKind, domC19,
    sameAreaSettings, reduceCtorEq, beq_self_eq_true, beq_iff_eq, ↓reduceIte, Bool.false_eq_true] at *)

/-- For every value of ABWCR, ASTCR, WCRH, WCRL, DRCRA (all 2^40 settings), every kind, every
    count 1–5 and every address of the domain, the code charges `n · cost1`. -/
theorem cost_eq_spec (abwcr astcr wcrh wcrl drcra : BitVec 8) (kind : Kind) (n : BitVec 8)
    (a : BitVec 32) (hn : BitVec.ule n 5#8 = true) (ha : domC19 drcra a = true) :
    Gen.calc_state_with_addr abwcr astcr wcrh wcrl drcra kind n a
      = (n * cost1 abwcr astcr wcrh wcrl drcra kind a).setWidth 9 := by
  cases kind <;> unfold_cost <;> bv_decide

/-- The multiplication never overflows the 8-bit result for counts up to 5 (the largest count any
    instruction uses): the 16-bit product fits in 8 bits. -/
theorem cost_no_u8_overflow (abwcr astcr wcrh wcrl drcra : BitVec 8) (kind : Kind) (n : BitVec 8)
    (a : BitVec 32) (hn : BitVec.ule n 5#8 = true) :
    BitVec.ult (n.setWidth 16 * (cost1 abwcr astcr wcrh wcrl drcra kind a).setWidth 16) 256#16 = true := by
  cases kind <;> unfold_cost <;> bv_decide

/-- Linearity: the cost of n cycles is n times the cost of one (in the domain). -/
theorem cost_linear (abwcr astcr wcrh wcrl drcra : BitVec 8) (kind : Kind) (n : BitVec 8)
    (a : BitVec 32) (hn : BitVec.ule n 5#8 = true) (ha : domC19 drcra a = true) :
    (Gen.calc_state_with_addr abwcr astcr wcrh wcrl drcra kind n a).setWidth 8
      = n * (Gen.calc_state_with_addr abwcr astcr wcrh wcrl drcra kind 1#8 a).setWidth 8 := by
  cases kind <;> unfold_cost <;> bv_decide

/-- Locality: two settings that agree on the bits belonging to the accessed area (width bit,
    access-state bit, wait field, DRAM membership of that area) give the same cost, whatever the
    other areas' bits are. -/
theorem cost_local (abwcr astcr wcrh wcrl drcra abwcr' astcr' wcrh' wcrl' drcra' : BitVec 8)
    (kind : Kind) (n : BitVec 8) (a : BitVec 32)
    (ha : BitVec.ule a 0xffffff#32 = true)
    (hs : sameAreaSettings (areaOf a) abwcr astcr wcrh wcrl drcra abwcr' astcr' wcrh' wcrl' drcra' = true) :
    Gen.calc_state_with_addr abwcr astcr wcrh wcrl drcra kind n a
      = Gen.calc_state_with_addr abwcr' astcr' wcrh' wcrl' drcra' kind n a := by
  cases kind <;> unfold_cost <;> bv_decide

/-- The cost function never fails on a 24-bit address. -/
theorem cost_total (abwcr astcr wcrh wcrl drcra : BitVec 8) (kind : Kind) (n : BitVec 8)
    (a : BitVec 32) (ha : BitVec.ule a 0xffffff#32 = true) :
    (Gen.calc_state_with_addr abwcr astcr wcrh wcrl drcra kind n a).getLsbD 8 = false := by
  cases kind <;> unfold_cost <;> bv_decide

/-- …and fails (error, not panic) on every address at or above 2^24 unless the kind is internal. -/
theorem cost_err_above (abwcr astcr wcrh wcrl drcra : BitVec 8) (kind : Kind) (n : BitVec 8)
    (a : BitVec 32) (ha : BitVec.ult 0xffffff#32 a = true) (hk : kind ≠ Kind.N) :
    Gen.calc_state_with_addr abwcr astcr wcrh wcrl drcra kind n a = 0x100#9 := by
  cases kind <;> first | contradiction | (unfold_cost <;> bv_decide)

-- non-vacuity: the reset configuration written by `init_registers`, a DRAM address, is in the domain
example : domC19 0xe0#8 0x416900#32 = true := by decide
example : domC19 0xe0#8 0x600000#32 = false := by decide   -- DRAS=7 makes areas 3–5 DRAM: excluded
example : cost1 0xff 0xfb 0xff 0xcf 0xe0 Kind.I 0x416900#32 = 8#8 := by decide

end H8.Props.C19
