/-
  C16 — I/O ports behave as data latch + direction register + external pins.

  `PortM` is the code's port logic for ONE port (Bus::write's gates, on_write_ddr, on_write_dr,
  write_port of src/bus.rs / src/ioport.rs — the same expressions as Model/Bus.lean, which the
  correspondence run executes through the real Bus).  The code keeps no data latch: DR holds the
  merged value.  Theorems, by induction over arbitrary operation sequences:
    * `announce_invariant`  — the last announced value always equals the driven output DR ∧ DDR;
    * `pin_keeps_outputs`   — external changes never disturb output bits;
    * `refines_latch_partial` — reads and outputs equal the latch Spec as long as no bit is switched
      from input to output while its latched value differs from the pin (guard `LatchSafe`);
    * `no_latch_finding`    — the full refinement fails: DDR=00, DR←FF, DDR←FF reads 00 (known finding).
-/
import H8.Spec.Port
import Std.Tactic.BVDecide
namespace H8.Props.C16
open H8.Spec

/-- the code's state for one port: DDR byte, stored DR byte, pin levels, last message value -/
structure PortM where
  ddr : BitVec 8 := 0
  dr : BitVec 8 := 0
  pin : BitVec 8 := 0
  announced : BitVec 8 := 0
  deriving DecidableEq, Repr

/-- Bus::write on the port's DDR (gate `value != previous`, then on_write_ddr) -/
def PortM.writeDDR (p : PortM) (v : BitVec 8) : PortM :=
  if v != p.ddr then
    let dr := (p.dr &&& v) ||| (~~~v &&& p.pin)
    { p with ddr := v, dr := dr, announced := dr &&& v }
  else p

/-- Bus::write on the port's DR (gate, then on_write_dr) -/
def PortM.writeDR (p : PortM) (v : BitVec 8) : PortM :=
  if v != p.dr then
    { p with dr := (v &&& p.ddr) ||| (~~~p.ddr &&& p.pin), announced := v &&& p.ddr }
  else p

/-- Bus::write_port -/
def PortM.setPin (p : PortM) (v : BitVec 8) : PortM :=
  { p with pin := v, dr := (p.dr &&& p.ddr) ||| (~~~p.ddr &&& v) }

def PortM.step (p : PortM) : PortOp → PortM × Option (BitVec 8)
  | .writeDDR v => (p.writeDDR v, none)
  | .writeDR v => (p.writeDR v, none)
  | .pin v => (p.setPin v, none)
  | .readDR => (p, some p.dr)

def PortM.run (p : PortM) : List PortOp → PortM × List (BitVec 8)
  | [] => (p, [])
  | op :: ops =>
    let (q, r) := p.step op
    let (q', rs) := q.run ops
    (q', (match r with | some v => [v] | none => []) ++ rs)

/-! ### invariants of the code's port logic (every reachable state) -/

/-- stored DR: input bits follow the pins; the last announced value is the driven output -/
def Inv (p : PortM) : Prop := p.dr &&& ~~~p.ddr = p.pin &&& ~~~p.ddr ∧ p.announced = p.dr &&& p.ddr

theorem inv_init : Inv {} := by simp [Inv]

theorem inv_step (p : PortM) (op : PortOp) (h : Inv p) : Inv (p.step op).1 := by
  obtain ⟨h1, h2⟩ := h
  cases op with
  | readDR => exact ⟨h1, h2⟩
  | pin v =>
    simp only [PortM.step, PortM.setPin, Inv]
    constructor <;> bv_decide
  | writeDDR v =>
    simp only [PortM.step, PortM.writeDDR, Inv]
    split
    · simp only; constructor <;> bv_decide
    · exact ⟨h1, h2⟩
  | writeDR v =>
    simp only [PortM.step, PortM.writeDR, Inv]
    split
    · simp only; constructor <;> bv_decide
    · exact ⟨h1, h2⟩

/-- For every operation sequence: the last announced value equals the current output DR ∧ DDR. -/
theorem announce_invariant (ops : List PortOp) (p : PortM) (h : Inv p) : Inv (p.run ops).1 := by
  induction ops generalizing p with
  | nil => exact h
  | cons op ops ih => simp only [PortM.run]; exact ih _ (inv_step p op h)

/-- external changes never disturb output bits, the direction register or the announced value -/
theorem pin_keeps_outputs (p : PortM) (v : BitVec 8) :
    (p.setPin v).dr &&& p.ddr = p.dr &&& p.ddr ∧ (p.setPin v).ddr = p.ddr ∧ (p.setPin v).announced = p.announced := by
  obtain ⟨ddr, dr, pin, ann⟩ := p
  simp only [PortM.setPin]
  refine ⟨?_, trivial, trivial⟩
  bv_decide

/-! ### refinement to the latch Spec -/

/-- simulation relation: same DDR and pins, stored DR = merged view of the latch, same announcement;
    the latch may differ from DR only on input bits -/
def Sim (m : PortM) (s : Port) : Prop :=
  m.ddr = s.ddr ∧ m.pin = s.pin ∧ m.dr = s.readDR ∧ m.announced = s.announced ∧ s.announced = s.output

def LatchSafeAll : Port → List PortOp → Prop
  | _, [] => True
  | s, op :: ops => LatchSafe s op ∧ LatchSafeAll (s.step op).1 ops

instance decLatchSafeAll : (s : Port) → (ops : List PortOp) → Decidable (LatchSafeAll s ops)
  | _, [] => isTrue trivial
  | s, op :: ops =>
    match inferInstanceAs (Decidable (LatchSafe s op)), decLatchSafeAll (s.step op).1 ops with
    | isTrue a, isTrue b => isTrue ⟨a, b⟩
    | isFalse a, _ => isFalse (fun h => a h.1)
    | _, isFalse b => isFalse (fun h => b h.2)

theorem sim_step (m : PortM) (s : Port) (op : PortOp) (h : Sim m s) (hs : LatchSafe s op) :
    Sim (m.step op).1 (s.step op).1 ∧ (m.step op).2 = (s.step op).2 := by
  obtain ⟨mddr, mdr, mpin, mann⟩ := m
  obtain ⟨sddr, slatch, spin, sann⟩ := s
  simp only [Sim, Port.readDR, Port.output] at h
  obtain ⟨h1, h2, h3, h4, h5⟩ := h
  subst h1 h2 h3 h4
  cases op with
  | readDR => simp [PortM.step, Port.step, Sim, Port.readDR, Port.output, h5]
  | pin v =>
    simp only [PortM.step, Port.step, PortM.setPin, Sim, Port.readDR, Port.output, and_true, true_and]
    refine ⟨?_, h5⟩
    bv_decide
  | writeDR v =>
    simp only [PortM.step, Port.step, PortM.writeDR, Sim, Port.readDR, Port.output, and_true]
    split
    · simp only [true_and, and_true]
      bv_decide
    · rename_i hne
      simp only [bne_iff_ne, ne_eq, Decidable.not_not] at hne
      simp only [true_and]
      subst h5
      refine ⟨?_, ?_⟩ <;> bv_decide
  | writeDDR v =>
    simp only [LatchSafe] at hs
    simp only [PortM.step, Port.step, PortM.writeDDR, Sim, Port.readDR, Port.output, and_true]
    split
    · simp only [true_and, and_true]
      refine ⟨?_, ?_⟩ <;> bv_decide
    · rename_i hne
      simp only [bne_iff_ne, ne_eq, Decidable.not_not] at hne
      subst hne h5
      simp

/-- For every latch-safe operation sequence the code's reads (and announcements) are the latch Spec's. -/
theorem refines_latch_partial (ops : List PortOp) (m : PortM) (s : Port) (h : Sim m s) (hs : LatchSafeAll s ops) :
    (m.run ops).2 = (s.run ops).2 ∧ Sim (m.run ops).1 (s.run ops).1 := by
  induction ops generalizing m s with
  | nil => exact ⟨rfl, h⟩
  | cons op ops ih =>
    obtain ⟨hs1, hs2⟩ := hs
    obtain ⟨hsim, hout⟩ := sim_step m s op h hs1
    obtain ⟨ih1, ih2⟩ := ih _ _ hsim hs2
    simp only [PortM.run, Port.run]
    refine ⟨?_, ih2⟩
    simp only [hout, ih1]
    cases (s.step op).snd <;> rfl

/-- The full refinement fails (known finding C16-NO-LATCH): DDR=00, DR←FF, DDR←FF, read. -/
theorem no_latch_finding :
    (PortM.run {} [.writeDR 0xff, .writeDDR 0xff, .readDR]).2 = [0x00] ∧
    (Port.run {} [.writeDR 0xff, .writeDDR 0xff, .readDR]).2 = [0xff] := by decide

-- non-vacuity: a direction-first history is latch-safe and non-trivial
example : LatchSafeAll {} [.writeDDR 0x0f, .writeDR 0xa5, .pin 0xff, .readDR] ∧
    (Port.run {} [.writeDDR 0x0f, .writeDR 0xa5, .pin 0xff, .readDR]).2 = [0xf5] := by decide

end H8.Props.C16
