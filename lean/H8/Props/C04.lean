/-
  C04 — Bit-manipulation instructions affect exactly the addressed bit or flag.
  Kernel theorems: what the code computes from (operand byte, bit number, CCR) is what the Spec's
  `bitK` prescribes, for all 256 bytes × all bit numbers (incl. unmasked register values) × all CCR.
-/
import H8.Props.Common
namespace H8.Props.C04
open H8 H8.Lemmas H8.Props

/-- BSET / BCLR / BNOT: new operand byte (no flag changes) -/
theorem bset_kernel (v bit ccr : BitVec 8) :
    BMod.ap .set v (bit &&& 7) = (Spec.bitK .bset v (bit.setWidth 3) ccr).1 := by
  simp only [BMod.ap, Spec.bitK]; bv_decide
theorem bclr_kernel (v bit ccr : BitVec 8) :
    BMod.ap .clr v (bit &&& 7) = (Spec.bitK .bclr v (bit.setWidth 3) ccr).1 := by
  simp only [BMod.ap, Spec.bitK]; bv_decide
theorem bnot_kernel (v bit ccr : BitVec 8) :
    BMod.ap .not_ v (bit &&& 7) = (Spec.bitK .bnot v (bit.setWidth 3) ccr).1 := by
  simp only [BMod.ap, Spec.bitK]; bv_decide

/-- BST / BIST: the bit becomes C / ¬C, the other seven bits are unchanged -/
theorem bst_kernel (v bit ccr : BitVec 8) :
    bstVal false v (bit &&& 7) ccr = (Spec.bitK .bst v (bit.setWidth 3) ccr).1 := by
  simp only [bstVal, Spec.bitK, Spec.flag]; bv_decide
theorem bist_kernel (v bit ccr : BitVec 8) :
    bstVal true v (bit &&& 7) ccr = (Spec.bitK .bist v (bit.setWidth 3) ccr).1 := by
  simp only [bstVal, Spec.bitK, Spec.flag]; bv_decide

/-- the write-type operations change no flag -/
theorem write_ops_keep_ccr (op : Spec.BitOp) (h : op.writes = true) (v : BitVec 8) (n : BitVec 3) (ccr : BitVec 8) :
    (Spec.bitK op v n ccr).2 = ccr := by
  cases op <;> simp [Spec.BitOp.writes] at h <;> simp [Spec.bitK]

/-- …and change exactly the addressed bit: every other bit of the byte keeps its value -/
theorem write_ops_other_bits (op : Spec.BitOp) (v : BitVec 8) (n : BitVec 3) (ccr : BitVec 8) (k : BitVec 3)
    (hk : k ≠ n) : ((Spec.bitK op v n ccr).1).getLsbD k.toNat = v.getLsbD k.toNat := by
  have hn : n = 0 ∨ n = 1 ∨ n = 2 ∨ n = 3 ∨ n = 4 ∨ n = 5 ∨ n = 6 ∨ n = 7 := by bv_decide
  have hk' : k = 0 ∨ k = 1 ∨ k = 2 ∨ k = 3 ∨ k = 4 ∨ k = 5 ∨ k = 6 ∨ k = 7 := by bv_decide
  rcases hn with h | h | h | h | h | h | h | h <;> subst h <;>
  rcases hk' with h | h | h | h | h | h | h | h <;> subst h <;>
  first
    | (exact absurd rfl hk)
    | (cases op <;> simp only [Spec.bitK, Spec.flag] <;> bv_decide)

/-- BTST: Z := ¬bit, nothing else -/
theorem btst_kernel (v bit ccr : BitVec 8) :
    changeCcrV ccr cZ (((v >>> (bit &&& 7)) &&& 1) == 0) = (Spec.bitK .btst v (bit.setWidth 3) ccr).2 := by
  simp only [changeCcrV, Spec.bitK, Spec.setFlag]; bv_decide

/-- BLD … BIXOR: the value handed to `write_ccr(C, …)` is 0 or 1 (no panic) and is the Spec's new C -/
theorem bacc_is_bit (o : BAcc) (v imm ccr : BitVec 8) :
    BAcc.ap o v (imm &&& 7) ((ccr >>> cC) &&& 1) = 0 ∨ BAcc.ap o v (imm &&& 7) ((ccr >>> cC) &&& 1) = 1 := by
  cases o <;> simp only [BAcc.ap] <;> bv_decide

def accOf : BAcc → Spec.BitOp
  | .ld => .bld | .ild => .bild | .and => .band | .iand => .biand
  | .or => .bor | .ior => .bior | .xor => .bxor | .ixor => .bixor

theorem bacc_kernel (o : BAcc) (v imm ccr : BitVec 8) :
    changeCcrV ccr cC (BAcc.ap o v (imm &&& 7) ((ccr >>> cC) &&& 1) == 1)
      = (Spec.bitK (accOf o) v (imm.setWidth 3) ccr).2 := by
  cases o <;> simp only [BAcc.ap, accOf, changeCcrV, Spec.bitK, Spec.setFlag, Spec.flag] <;> bv_decide

-- non-vacuity: BST with C = 0 clears bit 3 of 0xff
example : bstVal false 0xff 3 0x00 = 0xf7 := by decide

end H8.Props.C04
