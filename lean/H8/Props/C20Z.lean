/-
  C20, calls and returns — BSR d:8, JSR @ERn, RTS and RTE are charged two fetch cycles at the instruction's own
  address plus two stack cycles (kind K) AT THE FRAME'S ADDRESS (the low 24 bits of SP − 4 for the pushes, of SP for
  the pops), plus two internal states for the returns — with the bus settings of the state the instruction leaves.
-/
import H8.Props.C20X
import H8.Props.C05H
set_option linter.unusedSimpArgs false
set_option linter.unusedVariables false
namespace H8.Props.C20Z
open H8 H8.Lemmas H8.Props H8.Props.C06H H8.Props.C05H H8.Props.C20X

set_option hygiene false in
local macro "cost2_keep" : tactic => `(tactic|
  (split at h
   case h_2 => simp at h
   case h_3 => simp at h
   rename_i c1 sa h1; have e1 := costI_state h1; subst e1
   split at h
   case h_2 => simp at h
   case h_3 => simp at h
   rename_i c2 sb2 h2; have e2 := calcStateWithAddr_state h2; subst e2
   injection h with hc hs; subst hs
   exact ⟨c1, c2, h1, h2, by rw [← hc]; simp⟩))

set_option hygiene false in
local macro "cost3_keep" : tactic => `(tactic|
  (split at h
   case h_2 => simp at h
   case h_3 => simp at h
   rename_i c1 sa h1; have e1 := costI_state h1; subst e1
   split at h
   case h_2 => simp at h
   case h_3 => simp at h
   rename_i c2 sb2 h2; have e2 := calcStateWithAddr_state h2; subst e2
   split at h
   case h_2 => simp at h
   case h_3 => simp at h
   rename_i c3 sb3 h3; have e3 := calcState_state h3; subst e3
   have hn := C20M.calcState_N _ _ _ _ h3; subst hn
   injection h with hc hs; subst hs
   exact ⟨c1, c2, h1, h2, hc.symm⟩))

theorem cost_BSR_D8 (op : BitVec 16) (st st' : Cpu) (c : BitVec 8) (h : bsrDisp8 op st = .ok c st') :
    ChargedAt 2 .K 2 (frameAddr st.regs) 0 st' c ∧ Spec.Form.mix .BSR_D8 = { i := 2, k := 2 } := by
  refine ⟨?_, rfl⟩
  simp only [bsrDisp8, bind_ok, readRnL_ok _ _ seven_ok, get_ok] at h
  split at h
  case h_2 => simp at h
  case h_3 => simp at h
  rename_i u s1 hpush
  simp only [modify_ok, pure_ok] at h
  cost2_keep

theorem cost_JSR_REG (op : BitVec 16) (st st' : Cpu) (c : BitVec 8) (h : jsrErn op st = .ok c st') :
    ChargedAt 2 .K 2 (frameAddr st.regs) 0 st' c ∧ Spec.Form.mix .JSR_REG = { i := 2, k := 2 } := by
  refine ⟨?_, rfl⟩
  simp only [jsrErn, bind_ok, readRnL_ok _ _ seven_ok, get_ok] at h
  split at h
  case h_2 => simp at h
  case h_3 => simp at h
  rename_i u s1 hpush
  split at h
  case h_2 => simp at h
  case h_3 => simp at h
  rename_i t s2 ht
  have : s2 = s1 := by
    unfold readRnL at ht
    split at ht
    · simp only [Res.ok.injEq] at ht; exact ht.2.symm
    · simp at ht
  subst this
  simp only [modify_ok, pure_ok] at h
  cost2_keep

theorem cost_RTS (st st' : Cpu) (c : BitVec 8) (h : rts st = .ok c st') :
    ChargedAt 2 .K 2 (getEr st.regs 7 &&& ADDRESS_MASK) 2 st' c ∧ Spec.Form.mix .RTS = { i := 2, k := 2, n := 2 } := by
  refine ⟨?_, rfl⟩
  simp only [rts, bind_ok, readRnL_ok _ _ seven_ok] at h
  split at h
  case h_2 => simp at h
  case h_3 => simp at h
  rename_i v s1 hpop
  simp only [modify_ok, pure_ok] at h
  cost3_keep

theorem cost_RTE (st st' : Cpu) (c : BitVec 8) (h : rte st = .ok c st') :
    ChargedAt 2 .K 2 (getEr st.regs 7 &&& ADDRESS_MASK) 2 st' c ∧ Spec.Form.mix .RTE = { i := 2, k := 2, n := 2 } := by
  refine ⟨?_, rfl⟩
  simp only [rte, bind_ok, readRnL_ok _ _ seven_ok] at h
  split at h
  case h_2 => simp at h
  case h_3 => simp at h
  rename_i v s1 hpop
  simp only [modify_ok, pure_ok] at h
  cost3_keep

end H8.Props.C20Z
