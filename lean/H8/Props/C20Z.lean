/-
  C20, calls and returns — BSR d:8, JSR @ERn, RTS and RTE are charged two fetch cycles at the instruction's own
  address plus two stack cycles (kind K) AT THE FRAME'S ADDRESS (the low 24 bits of SP − 4 for the pushes, of SP for
  the pops), plus two internal states for the returns — with the bus settings of the state the instruction leaves.
-/
import H8.Props.C20X
import H8.Props.C05H
set_option linter.unusedSimpArgs false
set_option linter.unusedVariables false
namespace H8.Props.C20Z
open H8 H8.Lemmas H8.Props H8.Props.C06H H8.Props.C05H H8.Props.C20X

set_option hygiene false in
local macro "cost2_keep" : tactic => `(tactic|
  (split at h
   case h_2 => simp at h
   case h_3 => simp at h
   rename_i c1 sa h1; have e1 := costI_state h1; subst e1
   split at h
   case h_2 => simp at h
   case h_3 => simp at h
   rename_i c2 sb2 h2; have e2 := calcStateWithAddr_state h2; subst e2
   injection h with hc hs; subst hs
   exact ⟨c1, c2, h1, h2, by rw [← hc]; simp⟩))

set_option hygiene false in
local macro "cost3_keep" : tactic => `(tactic|
  (split at h
   case h_2 => simp at h
   case h_3 => simp at h
   rename_i c1 sa h1; have e1 := costI_state h1; subst e1
   split at h
   case h_2 => simp at h
   case h_3 => simp at h
   rename_i c2 sb2 h2; have e2 := calcStateWithAddr_state h2; subst e2
   split at h
   case h_2 => simp at h
   case h_3 => simp at h
   rename_i c3 sb3 h3; have e3 := calcState_state h3; subst e3
   have hn := C20M.calcState_N _ _ _ _ h3; subst hn
   injection h with hc hs; subst hs
   exact ⟨c1, c2, h1, h2, hc.symm⟩))

theorem cost_BSR_D8 (op : BitVec 16) (st st' : Cpu) (c : BitVec 8) (h : bsrDisp8 op st = .ok c st') :
    ChargedAt 2 .K 2 (frameAddr st.regs) 0 st' c ∧ Spec.Form.mix .BSR_D8 = { i := 2, k := 2 } := by
  refine ⟨?_, rfl⟩
  simp only [bsrDisp8, bind_ok, readRnL_ok _ _ seven_ok, get_ok] at h
  split at h
  case h_2 => simp at h
  case h_3 => simp at h
  rename_i u s1 hpush
  simp only [modify_ok, pure_ok] at h
  cost2_keep

theorem cost_JSR_REG (op : BitVec 16) (st st' : Cpu) (c : BitVec 8) (h : jsrErn op st = .ok c st') :
    ChargedAt 2 .K 2 (frameAddr st.regs) 0 st' c ∧ Spec.Form.mix .JSR_REG = { i := 2, k := 2 } := by
  refine ⟨?_, rfl⟩
  simp only [jsrErn, bind_ok, readRnL_ok _ _ seven_ok, get_ok] at h
  split at h
  case h_2 => simp at h
  case h_3 => simp at h
  rename_i u s1 hpush
  split at h
  case h_2 => simp at h
  case h_3 => simp at h
  rename_i t s2 ht
  have : s2 = s1 := by
    unfold readRnL at ht
    split at ht
    · simp only [Res.ok.injEq] at ht; exact ht.2.symm
    · simp at ht
  subst this
  simp only [modify_ok, pure_ok] at h
  cost2_keep

theorem cost_RTS (st st' : Cpu) (c : BitVec 8) (h : rts st = .ok c st') :
    ChargedAt 2 .K 2 (getEr st.regs 7 &&& ADDRESS_MASK) 2 st' c ∧ Spec.Form.mix .RTS = { i := 2, k := 2, n := 2 } := by
  refine ⟨?_, rfl⟩
  simp only [rts, bind_ok, readRnL_ok _ _ seven_ok] at h
  split at h
  case h_2 => simp at h
  case h_3 => simp at h
  rename_i v s1 hpop
  simp only [modify_ok, pure_ok] at h
  cost3_keep

theorem cost_RTE (st st' : Cpu) (c : BitVec 8) (h : rte st = .ok c st') :
    ChargedAt 2 .K 2 (getEr st.regs 7 &&& ADDRESS_MASK) 2 st' c ∧ Spec.Form.mix .RTE = { i := 2, k := 2, n := 2 } := by
  refine ⟨?_, rfl⟩
  simp only [rte, bind_ok, readRnL_ok _ _ seven_ok] at h
  split at h
  case h_2 => simp at h
  case h_3 => simp at h
  rename_i v s1 hpop
  simp only [modify_ok, pure_ok] at h
  cost3_keep

/-! ### branches and jumps: fetch cycles (and two internal states) only; BSR d:16 / JSR @aa:24 as BSR d:8 plus two
    internal states.  The charge is looked up in the state the instruction leaves (only PC / SP / the frame differ from
    the state before, neither of which the lookup reads). -/

/-- `c` = `costI i` in the final state + `n` internal states -/
def ChargedFinal (i n : BitVec 8) (s : Cpu) (c : BitVec 8) : Prop := ∃ c1, costI i s = .ok c1 s ∧ c = c1 + n

set_option hygiene false in
local macro "costIN_keep" : tactic => `(tactic|
  (split at h
   case h_2 => simp at h
   case h_3 => simp at h
   rename_i c1 sa h1; have e1 := costI_state h1; subst e1
   split at h
   case h_2 => simp at h
   case h_3 => simp at h
   rename_i c2 sb h2; have e2 := calcState_state h2; subst e2
   have hn := C20M.calcState_N _ _ _ _ h2; subst hn
   injection h with hc hs; subst hs
   exact ⟨c1, h1, hc.symm⟩))

theorem cost_BCC_D8 (cnd : BitVec 4) (op : BitVec 16) (st st' : Cpu) (c : BitVec 8) (h : bcc8 cnd op st = .ok c st') :
    ChargedFinal 2 0 st' c ∧ Spec.Form.mix .BCC_D8 = { i := 2 } := by
  refine ⟨?_, rfl⟩
  simp only [bcc8, bind_ok, get_ok] at h
  split at h
  · simp only [bind_ok, pure_ok] at h
    split at h
    case h_2 => simp at h
    case h_3 => simp at h
    have hs := costI_state h; subst hs
    exact ⟨c, h, by simp⟩
  · try simp only [pure_ok, bind_ok] at h
    have hs := costI_state h; subst hs
    exact ⟨c, h, by simp⟩

theorem cost_BCC_D16 (cnd : BitVec 4) (st s1 st' : Cpu) (op2 : BitVec 16) (c : BitVec 8)
    (hf : fetch st = .ok op2 s1) (h : bcc16 cnd st = .ok c st') :
    ChargedFinal 2 2 st' c ∧ Spec.Form.mix .BCC_D16 = { i := 2, n := 2 } := by
  refine ⟨?_, rfl⟩
  simp only [bcc16, bind_ok, hf, get_ok] at h
  split at h
  · simp only [bind_ok, pure_ok] at h
    split at h
    case h_2 => simp at h
    case h_3 => simp at h
    costIN_keep
  · simp only [bind_ok, pure_ok] at h
    costIN_keep

theorem cost_JMP_REG (op : BitVec 16) (st st' : Cpu) (c : BitVec 8)
    (hp : Spec.Form.pat .JMP_REG op 0 0 0 0 = true) (h : jmpErn op st = .ok c st') :
    ChargedFinal 2 0 st' c ∧ Spec.Form.mix .JMP_REG = { i := 2 } := by
  refine ⟨?_, rfl⟩
  rw [Spec.pat_JMP_REG] at hp; simp only [Bool.and_eq_true, beq_iff_eq] at hp
  have h3 : (nib op 3).ule 7#8 = true := by (simp only [nib]; bv_decide)
  simp only [jmpErn, bind_ok, readRnL_ok _ _ h3, modify_ok] at h
  have hs := costI_state h; subst hs
  exact ⟨c, h, by simp⟩

theorem cost_JMP_ABS (op lo : BitVec 16) (st s1 st' : Cpu) (c : BitVec 8)
    (hf : fetch st = .ok lo s1) (h : jmpAbs op st = .ok c st') :
    ChargedFinal 2 2 st' c ∧ Spec.Form.mix .JMP_ABS = { i := 2, n := 2 } := by
  refine ⟨?_, rfl⟩
  simp only [jmpAbs, bind_ok, hf, modify_ok, pure_ok] at h
  costIN_keep

theorem cost_BSR_D16 (op op2 : BitVec 16) (st s1 st' : Cpu) (c : BitVec 8)
    (hf : fetch st = .ok op2 s1) (h : bsrDisp16 op st = .ok c st') :
    ChargedAt 2 .K 2 (frameAddr st.regs) 2 st' c ∧ Spec.Form.mix .BSR_D16 = { i := 2, k := 2, n := 2 } := by
  refine ⟨?_, rfl⟩
  simp only [bsrDisp16, bind_ok, readRnL_ok _ _ seven_ok, hf, get_ok] at h
  split at h
  case h_2 => simp at h
  case h_3 => simp at h
  rename_i u s2 hpush
  simp only [modify_ok, pure_ok] at h
  cost3_keep

theorem cost_JSR_ABS (op op2 : BitVec 16) (st s1 st' : Cpu) (c : BitVec 8)
    (hf : fetch st = .ok op2 s1) (h : jsrAbs op st = .ok c st') :
    ChargedAt 2 .K 2 (frameAddr st.regs) 2 st' c ∧ Spec.Form.mix .JSR_ABS = { i := 2, k := 2, n := 2 } := by
  refine ⟨?_, rfl⟩
  simp only [jsrAbs, bind_ok, readRnL_ok _ _ seven_ok, hf, get_ok] at h
  split at h
  case h_2 => simp at h
  case h_3 => simp at h
  rename_i u s2 hpush
  simp only [modify_ok, pure_ok] at h
  cost3_keep

theorem cost_JMP_MEMIND (op : BitVec 16) (st st' : Cpu) (c : BitVec 8) (h : jmpIndirect op st = .ok c st') :
    ChargedAt 2 .J 2 ((op &&& 0x00ff).setWidth 32) 2 st' c ∧ Spec.Form.mix .JMP_MEMIND = { i := 2, j := 2, n := 2 } := by
  refine ⟨?_, rfl⟩
  simp only [jmpIndirect, bind_ok] at h
  split at h
  case h_2 => simp at h
  case h_3 => simp at h
  rename_i t s1 hrd
  simp only [modify_ok, pure_ok] at h
  cost3_keep

/-! ### AND.L / OR.L / XOR.L ERs,ERd (two fetch cycles) and STC.B CCR,Rd (one) -/

set_option hygiene false in
local macro "logicL_cost" pl:ident : tactic => `(tactic|
  (refine ⟨?_, rfl⟩
   rw [$pl:ident] at hp; simp only [Bool.and_eq_true, beq_iff_eq] at hp
   have h3 : (nib op2 3).ule 7#8 = true := by (simp only [nib]; bv_decide)
   have h4 : (nib op2 4).ule 7#8 = true := by (simp only [nib]; bv_decide)
   simp only [logicRn, logicFlagsSz, logicFlags_ok, LOp.ap, readRn, writeRn, bind_ok, pure_ok, get_ok, readRnL_ok _ _ h3,
     readRnL_ok _ _ h4, writeRnL_ok _ _ _ h4, writeCcr_ite, writeCcr_zero, writeCcr_one, changeCcr_ok] at h
   have hs := costI_state h; subst hs
   exact ⟨c, h, by simp⟩))

theorem cost_AND_L_RR (op op2 : BitVec 16) (st st' : Cpu) (c : BitVec 8)
    (hp : Spec.Form.pat .AND_L_RR op op2 0 0 0 = true) (h : logicRn .and .L op2 2 st = .ok c st') :
    ChargedFinal 2 0 st' c ∧ Spec.Form.mix .AND_L_RR = { i := 2 } := by
  logicL_cost Spec.pat_AND_L_RR

theorem cost_OR_L_RR (op op2 : BitVec 16) (st st' : Cpu) (c : BitVec 8)
    (hp : Spec.Form.pat .OR_L_RR op op2 0 0 0 = true) (h : logicRn .or .L op2 2 st = .ok c st') :
    ChargedFinal 2 0 st' c ∧ Spec.Form.mix .OR_L_RR = { i := 2 } := by
  logicL_cost Spec.pat_OR_L_RR

theorem cost_XOR_L_RR (op op2 : BitVec 16) (st st' : Cpu) (c : BitVec 8)
    (hp : Spec.Form.pat .XOR_L_RR op op2 0 0 0 = true) (h : logicRn .xor .L op2 2 st = .ok c st') :
    ChargedFinal 2 0 st' c ∧ Spec.Form.mix .XOR_L_RR = { i := 2 } := by
  logicL_cost Spec.pat_XOR_L_RR

theorem cost_STC_B (op : BitVec 16) (st st' : Cpu) (c : BitVec 8) (h : stcB op st = .ok c st') :
    ChargedFinal 1 0 st' c ∧ Spec.Form.mix .STC_B = { i := 1 } := by
  refine ⟨?_, rfl⟩
  simp only [stcB, bind_ok, get_ok, writeRnB_nib] at h
  have hs := costI_state h; subst hs
  exact ⟨c, h, by simp⟩

/-- JSR @@aa:8: two fetch cycles, two vector-read cycles (kind J) AT THE VECTOR SLOT, two stack cycles (kind K) AT THE
    FRAME'S ADDRESS -/
theorem cost_JSR_MEMIND (op : BitVec 16) (st st' : Cpu) (c : BitVec 8) (h : jsrIndirect op st = .ok c st') :
    (∃ c1 c2 c3, costI 2 st' = .ok c1 st' ∧ calcStateWithAddr .J 2 ((op &&& 0x00ff).setWidth 32) st' = .ok c2 st' ∧
      calcStateWithAddr .K 2 (frameAddr st.regs) st' = .ok c3 st' ∧ c = c1 + c2 + c3) ∧
    Spec.Form.mix .JSR_MEMIND = { i := 2, j := 2, k := 2 } := by
  refine ⟨?_, rfl⟩
  simp only [jsrIndirect, bind_ok, readRnL_ok _ _ seven_ok, get_ok] at h
  split at h
  case h_2 => simp at h
  case h_3 => simp at h
  rename_i u s1 hpush
  split at h
  case h_2 => simp at h
  case h_3 => simp at h
  rename_i t s2 hrd
  simp only [modify_ok, pure_ok] at h
  split at h
  case h_2 => simp at h
  case h_3 => simp at h
  rename_i c1 sa h1; have e1 := costI_state h1; subst e1
  split at h
  case h_2 => simp at h
  case h_3 => simp at h
  rename_i c2 sb2 h2; have e2 := calcStateWithAddr_state h2; subst e2
  split at h
  case h_2 => simp at h
  case h_3 => simp at h
  rename_i c3 sb3 h3; have e3 := calcStateWithAddr_state h3; subst e3
  injection h with hc hs; subst hs
  exact ⟨c1, c2, c3, h1, h2, h3, hc.symm⟩

/-- TRAPA #1-#3: two fetch cycles, two vector-read cycles (J) AT THE TRAP VECTOR, two stack cycles (K) AT THE FRAME'S
    ADDRESS, four internal states -/
theorem cost_TRAPA (op : BitVec 16) (st st' : Cpu) (c : BitVec 8) (h : trapa op st = .ok c st') (hn : (nib op 3 == 0) = false) :
    (∃ c1 c2 c3, costI 2 st' = .ok c1 st' ∧ calcStateWithAddr .J 2 ((0x20#8 + 4 * nib op 3).setWidth 32) st' = .ok c2 st' ∧
      calcStateWithAddr .K 2 (frameAddr st.regs) st' = .ok c3 st' ∧ c = c1 + c2 + c3 + 4) ∧
    Spec.Form.mix .TRAPA = { i := 2, j := 2, k := 2, n := 4 } := by
  refine ⟨?_, rfl⟩
  simp only [trapa, bind_ok, readRnL_ok _ _ seven_ok, hn, Bool.false_eq_true, if_false, get_ok] at h
  split at h
  case h_2 => simp at h
  case h_3 => simp at h
  rename_i u s1 hpush
  split at h
  case h_2 => simp at h
  case h_3 => simp at h
  rename_i dest s2 hvec
  simp only [modify_ok, writeCcr_one, pure_ok] at h
  split at h
  case h_2 => simp at h
  case h_3 => simp at h
  rename_i c1 sa h1; have e1 := costI_state h1; subst e1
  split at h
  case h_2 => simp at h
  case h_3 => simp at h
  rename_i c2 sb2 h2; have e2 := calcStateWithAddr_state h2; subst e2
  split at h
  case h_2 => simp at h
  case h_3 => simp at h
  rename_i c3 sb3 h3; have e3 := calcStateWithAddr_state h3; subst e3
  split at h
  case h_2 => simp at h
  case h_3 => simp at h
  rename_i c4 sb4 h4; have e4 := calcState_state h4; subst e4
  have hn4 := C20M.calcState_N _ _ _ _ h4; subst hn4
  injection h with hc hs; subst hs
  exact ⟨c1, c2, c3, h1, h2, h3, hc.symm⟩

/-- the encoding of STC.W CCR,@-ERd (executed as a post-increment store, known finding C07-STCW-PREDEC): its charge is
    nevertheless the manual's mix — two fetch cycles, one word cycle at the address it stores to, two internal states -/
theorem cost_STC_W_PREDEC (op2 : BitVec 16) (st st' : Cpu) (c : BitVec 8)
    (hp : Spec.Form.pat .STC_W_PREDEC 0x0140 op2 0 0 0 = true) (h : stcWIncErn op2 st = .ok c st')
    (f0 : Spec.isSfr (getEr st.regs (nib op2 3 &&& 7) &&& ADDRESS_MASK).toNat = false)
    (f1 : Spec.isSfr ((getEr st.regs (nib op2 3 &&& 7) &&& ADDRESS_MASK) + 1).toNat = false) :
    ChargedAt 2 .M 1 (getEr st.regs (nib op2 3 &&& 7) &&& ADDRESS_MASK) 2 st' c ∧
    Spec.Form.mix .STC_W_PREDEC = { i := 2, m := 1, n := 2 } := by
  refine ⟨?_, rfl⟩
  rw [Spec.pat_STC_W_PREDEC] at hp; simp only [Bool.and_eq_true, beq_iff_eq] at hp
  have h3 : (nib op2 3 &&& 7).ule 7#8 = true := by (simp only [nib]; bv_decide)
  simp only [stcWIncErn, writeIncErn, writeMem, bind_ok, pure_ok, readRnL_ok _ _ h3, M.get, Sz.bytes] at h
  split at h
  case h_2 => simp at h
  case h_3 => simp at h
  rename_i u s1 hw
  split at hw
  case h_2 => simp at hw
  case h_3 => simp at hw
  rename_i u0 s0 hw0
  have ew := C01P.writeAbs24W_poke _ _ _ _ hw0 f0 f1
  subst ew
  simp only [writeRnL_ok _ _ _ h3, Res.ok.injEq, true_and] at hw
  subst hw
  cost3_keep

end H8.Props.C20Z
