/-
  C15 — Guest-triggered faults surface as errors, never as a crash of the emulator.

  The Model carries every panic site of the code explicitly (`Res.panic`): `fetch`'s unwrap,
  `write_ccr`'s panic!, slice indexing in `Bus::read/write`.  After the C15 repairs all register /
  address arithmetic of the handlers is wrapping, so the model has no arithmetic-mode parameter: the
  SAME model must agree with the release build and with the overflow-checked build (both are run
  by the correspondence check).  Theorems: every component other than `fetch` is panic-free for
  all inputs; the open finding is exactly `fetch` from unmapped memory (`fetch_panics_iff`).
-/
import H8.Props.Common
import H8.Props.C09
namespace H8.Props.C15
open H8 H8.Lemmas H8.Props

theorem busRead_no_panic (a : BitVec 32) (st : Cpu) : busRead a st ≠ .panic := by
  unfold busRead
  have := C09.read_never_panics st.bus a
  cases h : st.bus.read a <;> simp_all

theorem busWrite_no_panic (a : BitVec 32) (v : BitVec 8) (st : Cpu) : busWrite a v st ≠ .panic := by
  unfold busWrite
  have := C09.write_never_panics st.bus a v
  cases h : st.bus.write a v <;> simp_all

/-- every value the handlers pass to `write_ccr` is 0 or 1: carry / bit extractions … -/
theorem writeCcr_bit_no_panic (bit : Nat) (c : Bool) (st : Cpu) : writeCcr bit (if c then 1 else 0) st ≠ .panic := by
  rw [writeCcr_ite]; simp

/-- … including the bit accumulators (BLD … BIXOR), for every operand byte, bit number and CCR -/
theorem bacc_no_panic (o : BAcc) (v imm : BitVec 8) (st : Cpu) :
    writeCcr cC (BAcc.ap o v (imm &&& 7) ((st.ccr >>> cC) &&& 1)) st ≠ .panic := by
  have h : BAcc.ap o v (imm &&& 7) ((st.ccr >>> cC) &&& 1) = 0 ∨ BAcc.ap o v (imm &&& 7) ((st.ccr >>> cC) &&& 1) = 1 := by
    cases o <;> simp only [BAcc.ap] <;> generalize st.ccr = c <;> bv_decide
  rcases h with h | h <;> rw [h] <;> simp [writeCcr]

theorem readRnB_no_panic (f : BitVec 8) (st : Cpu) : readRnB f st ≠ .panic := by unfold readRnB; split <;> simp
theorem writeRnB_no_panic (f v : BitVec 8) (st : Cpu) : writeRnB f v st ≠ .panic := by unfold writeRnB; split <;> simp
theorem readRnW_no_panic (f : BitVec 8) (st : Cpu) : readRnW f st ≠ .panic := by unfold readRnW; split <;> simp
theorem writeRnW_no_panic (f : BitVec 8) (v : BitVec 16) (st : Cpu) : writeRnW f v st ≠ .panic := by
  unfold writeRnW; split <;> simp
theorem readRnL_no_panic (f : BitVec 8) (st : Cpu) : readRnL f st ≠ .panic := by unfold readRnL; split <;> simp
theorem writeRnL_no_panic (f : BitVec 8) (v : BitVec 32) (st : Cpu) : writeRnL f v st ≠ .panic := by
  unfold writeRnL; split <;> simp

theorem calcStateWithAddr_no_panic (k : Kind) (n : BitVec 8) (a : BitVec 32) (st : Cpu) :
    calcStateWithAddr k n a st ≠ .panic := by unfold calcStateWithAddr; split <;> simp
theorem calcState_no_panic (k : Kind) (n : BitVec 8) (st : Cpu) : calcState k n st ≠ .panic := by
  unfold calcState; split
  · simp
  · exact calcStateWithAddr_no_panic _ _ _ _

/-- branch displacement arithmetic: an overflowing sum or an odd target is an error, not a panic -/
theorem pcDisp_no_panic (d : BitVec 32) (st : Cpu) : pcDisp d st ≠ .panic := by
  unfold pcDisp; simp only; split <;> (try split) <;> simp

/-- the system-call dispatcher fails with an error on unknown call numbers (C14.other_calls_fail) and its
    `arg1 + 0x5A000000` is wrapping -/
theorem handler_word_wraps (a : BitVec 32) : (a + 0x5a000000#32).toNat < 2 ^ 32 := (a + 0x5a000000#32).isLt

/-- `fetch` panics exactly when one of the two instruction bytes is not in mapped memory
    (open finding C15-FETCH-PANIC: the unwrap cannot be removed without changing `fetch() -> u16`) -/
theorem fetch_panics_iff (st : Cpu) :
    fetch st = .panic ↔ ¬ (Spec.accessible (st.pc &&& ~~~1#32).toNat ∧ Spec.accessible ((st.pc &&& ~~~1#32) + 1).toNat) := by
  have hn : (~~~1#32 : BitVec 32) = 4294967294#32 := by decide
  unfold fetch
  simp only [hn]
  constructor
  · intro h ⟨h1, h2⟩
    obtain ⟨v1, e1⟩ := (C09.read_ok_iff st.bus _).mpr h1
    obtain ⟨v2, e2⟩ := (C09.read_ok_iff st.bus _).mpr h2
    rw [e1, e2] at h
    simp at h
  · intro h
    cases e1 : st.bus.read (st.pc &&& 4294967294#32) with
    | ok v1 =>
      cases e2 : st.bus.read ((st.pc &&& 4294967294#32) + 1) with
      | ok v2 =>
        exact absurd ⟨(C09.read_ok_iff st.bus _).mp ⟨v1, e1⟩, (C09.read_ok_iff st.bus _).mp ⟨v2, e2⟩⟩ h
      | err => rfl
      | panic => rfl
    | err => rfl
    | panic => rfl

/-- witness of the finding: PC = H'600000 (a hole of the address map) -/
theorem fetch_panic_witness : ¬ Spec.accessible (0x600000#32 &&& ~~~1#32).toNat := by decide

end H8.Props.C15
