/-
  C03, SHAL.B/W/L at handler level (known finding C03-SHAL-V): for every encoding, register file and CCR the handler
  leaves the Spec's registers and the Spec's CCR in every bit except V, and changes nothing else (what V is instead —
  the operand's old sign bit — is `C03.SHAL_v_guard8` / `SHAL_B_finding`).
-/
import H8.Props.C03
set_option linter.unusedSimpArgs false
namespace H8.Props.C03S
open H8 H8.Lemmas H8.Props

set_option hygiene false in
local macro "shal_partial" il:ident pl:ident : tactic => `(tactic|
  (rw [$il:ident] at hi; simp only [Option.some.injEq] at hi; subst hi
   rw [$pl:ident] at hp; simp only [Bool.and_eq_true, beq_iff_eq] at hp
   try (have h4 : (nib op 4).ule 7#8 = true := by (simp only [nib]; bv_decide))
   simp only [shift, readRn, writeRn, bind_ok, pure_ok, get_ok, readRnB_nib, writeRnB_nib, readRnW_nib, writeRnW_nib,
     writeCcr_ite] at h
   try (simp only [readRnL_ok _ _ h4, writeRnL_ok _ _ _ h4, bind_ok, pure_ok, get_ok, writeCcr_ite] at h)
   have := costI_state h; subst this
   refine ⟨?_, ?_, rfl⟩
   all_goals (
     simp only [specRegCcr, Spec.exec, Spec.alu1At, Spec.getReg, Spec.setReg, getR8_eq, setR8_eq, getR16_eq, setR16_eq,
       getER_eq, setER_eq]
     generalize st.regs = r; generalize st.ccr = cc
     unfold shiftK Spec.alu1K
     simp only [nib, rdB, wrB, rdW, wrW, getEr, setEr, shOf, Spec.setFlag, Spec.flag, changeCcrV, Spec.z4, Spec.lo3]
     bv_decide)))

theorem SHAL_B_partial (op : BitVec 16) (st st' : Cpu) (c : BitVec 8) (i : Spec.Instr)
    (hi : Spec.instrOf .SHAL_B op 0 0 0 0 = some i) (hp : Spec.Form.pat .SHAL_B op 0 0 0 0 = true)
    (h : shift .shal .B op st = .ok c st') :
    st'.regs = (specRegCcr i st).1 ∧ st'.ccr &&& 0xfd#8 = (specRegCcr i st).2 &&& 0xfd#8 ∧
      st' = { st with regs := st'.regs, ccr := st'.ccr } := by
  shal_partial Spec.instrOf_SHAL_B Spec.pat_SHAL_B

theorem SHAL_W_partial (op : BitVec 16) (st st' : Cpu) (c : BitVec 8) (i : Spec.Instr)
    (hi : Spec.instrOf .SHAL_W op 0 0 0 0 = some i) (hp : Spec.Form.pat .SHAL_W op 0 0 0 0 = true)
    (h : shift .shal .W op st = .ok c st') :
    st'.regs = (specRegCcr i st).1 ∧ st'.ccr &&& 0xfd#8 = (specRegCcr i st).2 &&& 0xfd#8 ∧
      st' = { st with regs := st'.regs, ccr := st'.ccr } := by
  shal_partial Spec.instrOf_SHAL_W Spec.pat_SHAL_W

theorem SHAL_L_partial (op : BitVec 16) (st st' : Cpu) (c : BitVec 8) (i : Spec.Instr)
    (hi : Spec.instrOf .SHAL_L op 0 0 0 0 = some i) (hp : Spec.Form.pat .SHAL_L op 0 0 0 0 = true)
    (h : shift .shal .L op st = .ok c st') :
    st'.regs = (specRegCcr i st).1 ∧ st'.ccr &&& 0xfd#8 = (specRegCcr i st).2 &&& 0xfd#8 ∧
      st' = { st with regs := st'.regs, ccr := st'.ccr } := by
  shal_partial Spec.instrOf_SHAL_L Spec.pat_SHAL_L

end H8.Props.C03S
