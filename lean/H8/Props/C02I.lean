/-
  Word and long immediates — MOV / ADD / SUB / CMP / AND / OR / XOR `#imm:16,Rd` and `#imm:32,ERd` at handler level.
  These handlers fetch their operand: the theorems are stated relative to the state(s) the fetches leave
  (`hf : fetch st = ok imm s1`, for the long forms a second `hf2 : fetch s1 = ok lo s2`): the handler then leaves the
  registers and flags the Spec prescribes for the instruction encoded by (op, imm[, lo]) and nothing else changes.
  For every encoding, immediate value, register file and CCR.
-/
import H8.Props.C02
import H8.Props.C03
set_option linter.unusedSimpArgs false
namespace H8.Props.C02I
open H8 H8.Lemmas H8.Props

theorem x16 (imm : BitVec 16) : (BitVec.setWidth 16 (BitVec.extractLsb' 0 16 imm)) = imm := by bv_decide

/-- ADD.W #imm,Rd -/
theorem ADD_W_IMM (op imm : BitVec 16) (st s1 st' : Cpu) (c : BitVec 8) (i : Spec.Instr)
    (hi : Spec.instrOf .ADD_W_IMM op imm 0 0 0 = some i) (hf : fetch st = .ok imm s1)
    (h : addWImm op st = .ok c st') :
    st' = { s1 with regs := (specRegCcr i s1).1, ccr := (specRegCcr i s1).2 } := by
  rw [Spec.instrOf_ADD_W_IMM] at hi; simp only [Option.some.injEq] at hi; subst hi
  simp only [addWImm, bind_ok, hf, readRnW_nib, writeRnW_nib, addProc16] at h
  have := costI_state h; subst this
  simp only [specRegCcr, Spec.exec, Spec.alu2At, Spec.getReg, Spec.setReg, getR16_eq, setR16_eq, Spec.alu2K, Option.map, x16]
  generalize s1.regs = r; generalize s1.ccr = cc
  regs_ccr_decide

/-- SUB.W #imm,Rd -/
theorem SUB_W_IMM (op imm : BitVec 16) (st s1 st' : Cpu) (c : BitVec 8) (i : Spec.Instr)
    (hi : Spec.instrOf .SUB_W_IMM op imm 0 0 0 = some i) (hf : fetch st = .ok imm s1)
    (h : subWImm op st = .ok c st') :
    st' = { s1 with regs := (specRegCcr i s1).1, ccr := (specRegCcr i s1).2 } := by
  rw [Spec.instrOf_SUB_W_IMM] at hi; simp only [Option.some.injEq] at hi; subst hi
  simp only [subWImm, bind_ok, hf, readRnW_nib, writeRnW_nib, subCalc16] at h
  have := costI_state h; subst this
  simp only [specRegCcr, Spec.exec, Spec.alu2At, Spec.getReg, Spec.setReg, getR16_eq, setR16_eq, Spec.alu2K, Option.map, x16]
  generalize s1.regs = r; generalize s1.ccr = cc
  regs_ccr_decide

/-- CMP.W #imm,Rd: flags only -/
theorem CMP_W_IMM (op imm : BitVec 16) (st s1 st' : Cpu) (c : BitVec 8) (i : Spec.Instr)
    (hi : Spec.instrOf .CMP_W_IMM op imm 0 0 0 = some i) (hf : fetch st = .ok imm s1)
    (h : cmpWImm op st = .ok c st') :
    st' = { s1 with regs := (specRegCcr i s1).1, ccr := (specRegCcr i s1).2 } := by
  rw [Spec.instrOf_CMP_W_IMM] at hi; simp only [Option.some.injEq] at hi; subst hi
  simp only [cmpWImm, bind_ok, hf, readRnW_nib, subCalc16] at h
  have := costI_state h; subst this
  simp only [specRegCcr, Spec.exec, Spec.alu2At, Spec.getReg, Spec.setReg, getR16_eq, setR16_eq, Spec.alu2K, Option.map, x16]
  generalize s1.regs = r; generalize s1.ccr = cc
  regs_ccr_decide

/-- MOV.W #imm,Rd -/
theorem MOV_W_IMM (op imm : BitVec 16) (st s1 st' : Cpu) (c : BitVec 8) (i : Spec.Instr)
    (hi : Spec.instrOf .MOV_W_IMM op imm 0 0 0 = some i) (hf : fetch st = .ok imm s1)
    (h : movImm .W op st = .ok c st') :
    st' = { s1 with regs := (specRegCcr i s1).1, ccr := (specRegCcr i s1).2 } := by
  rw [Spec.instrOf_MOV_W_IMM] at hi; simp only [Option.some.injEq] at hi; subst hi
  simp only [movImm, bind_ok, hf, writeRnW_nib, movPcc, changeCcr_ok, writeCcr_zero] at h
  have := costI_state h; subst this
  simp only [specRegCcr, Spec.exec, Spec.getReg, Spec.setReg, Spec.movFlags, getR16_eq, setR16_eq, x16]
  generalize s1.regs = r; generalize s1.ccr = cc
  congr 1
  all_goals (
    simp only [nib, rdW, wrW, getEr, setEr, shOf, Spec.nzClearV, Spec.setFlag, changeCcrV, Spec.z4, Spec.zx16, Spec.lo3]
    bv_decide)

/-- AND.W #imm,Rd -/
theorem AND_W_IMM (op imm : BitVec 16) (st s1 st' : Cpu) (c : BitVec 8) (i : Spec.Instr)
    (hi : Spec.instrOf .AND_W_IMM op imm 0 0 0 = some i) (hf : fetch st = .ok imm s1)
    (h : logicWImm .and op st = .ok c st') :
    st' = { s1 with regs := (specRegCcr i s1).1, ccr := (specRegCcr i s1).2 } := by
  rw [Spec.instrOf_AND_W_IMM] at hi; simp only [Option.some.injEq] at hi; subst hi
  simp only [logicWImm, logicFlagsSz, logicFlags_ok, LOp.ap, bind_ok, pure_ok, hf, readRnW_nib, writeRnW_nib, writeCcr_ite,
    writeCcr_zero, writeCcr_one, changeCcr_ok] at h
  have := costI_state h; subst this
  simp only [specRegCcr, Spec.exec, Spec.alu2At, Spec.alu2K, Spec.getReg, Spec.setReg, getR16_eq, setR16_eq, Option.map, x16]
  generalize s1.regs = r; generalize s1.ccr = cc
  congr 1
  all_goals (
    simp only [nib, rdW, wrW, getEr, setEr, shOf, Spec.nzClearV, Spec.setFlag, Spec.flag, changeCcrV, Spec.z4, Spec.lo3,
      Spec.zx16]
    bv_decide)

/-- OR.W #imm,Rd -/
theorem OR_W_IMM (op imm : BitVec 16) (st s1 st' : Cpu) (c : BitVec 8) (i : Spec.Instr)
    (hi : Spec.instrOf .OR_W_IMM op imm 0 0 0 = some i) (hf : fetch st = .ok imm s1)
    (h : logicWImm .or op st = .ok c st') :
    st' = { s1 with regs := (specRegCcr i s1).1, ccr := (specRegCcr i s1).2 } := by
  rw [Spec.instrOf_OR_W_IMM] at hi; simp only [Option.some.injEq] at hi; subst hi
  simp only [logicWImm, logicFlagsSz, logicFlags_ok, LOp.ap, bind_ok, pure_ok, hf, readRnW_nib, writeRnW_nib, writeCcr_ite,
    writeCcr_zero, writeCcr_one, changeCcr_ok] at h
  have := costI_state h; subst this
  simp only [specRegCcr, Spec.exec, Spec.alu2At, Spec.alu2K, Spec.getReg, Spec.setReg, getR16_eq, setR16_eq, Option.map, x16]
  generalize s1.regs = r; generalize s1.ccr = cc
  congr 1
  all_goals (
    simp only [nib, rdW, wrW, getEr, setEr, shOf, Spec.nzClearV, Spec.setFlag, Spec.flag, changeCcrV, Spec.z4, Spec.lo3,
      Spec.zx16]
    bv_decide)

/-- XOR.W #imm,Rd -/
theorem XOR_W_IMM (op imm : BitVec 16) (st s1 st' : Cpu) (c : BitVec 8) (i : Spec.Instr)
    (hi : Spec.instrOf .XOR_W_IMM op imm 0 0 0 = some i) (hf : fetch st = .ok imm s1)
    (h : logicWImm .xor op st = .ok c st') :
    st' = { s1 with regs := (specRegCcr i s1).1, ccr := (specRegCcr i s1).2 } := by
  rw [Spec.instrOf_XOR_W_IMM] at hi; simp only [Option.some.injEq] at hi; subst hi
  simp only [logicWImm, logicFlagsSz, logicFlags_ok, LOp.ap, bind_ok, pure_ok, hf, readRnW_nib, writeRnW_nib, writeCcr_ite,
    writeCcr_zero, writeCcr_one, changeCcr_ok] at h
  have := costI_state h; subst this
  simp only [specRegCcr, Spec.exec, Spec.alu2At, Spec.alu2K, Spec.getReg, Spec.setReg, getR16_eq, setR16_eq, Option.map, x16]
  generalize s1.regs = r; generalize s1.ccr = cc
  congr 1
  all_goals (
    simp only [nib, rdW, wrW, getEr, setEr, shOf, Spec.nzClearV, Spec.setFlag, Spec.flag, changeCcrV, Spec.z4, Spec.lo3,
      Spec.zx16]
    bv_decide)

/-! ### long immediates: two fetches (high word first) -/

theorem fetch32_ok (st s1 s2 : Cpu) (hi lo : BitVec 16) (hf : fetch st = .ok hi s1) (hf2 : fetch s1 = .ok lo s2) :
    fetch32 st = .ok ((hi.setWidth 32 <<< 16) ||| lo.setWidth 32) s2 := by
  simp only [fetch32, bind_ok, pure_ok, hf, hf2]

theorem x32 (hi lo : BitVec 16) :
    (BitVec.setWidth 32 (BitVec.extractLsb' 0 16 hi) <<< 16 ||| BitVec.setWidth 32 (BitVec.extractLsb' 0 16 lo)) =
      (hi.setWidth 32 <<< 16) ||| lo.setWidth 32 := by bv_decide

/-- ADD.L #imm,ERd -/
theorem ADD_L_IMM (op hi lo : BitVec 16) (st s1 s2 st' : Cpu) (c : BitVec 8) (i : Spec.Instr)
    (hp : Spec.Form.pat .ADD_L_IMM op hi lo 0 0 = true)
    (hi' : Spec.instrOf .ADD_L_IMM op hi lo 0 0 = some i) (hf : fetch st = .ok hi s1) (hf2 : fetch s1 = .ok lo s2)
    (h : addLImm op st = .ok c st') :
    st' = { s2 with regs := (specRegCcr i s2).1, ccr := (specRegCcr i s2).2 } := by
  rw [Spec.instrOf_ADD_L_IMM] at hi'; simp only [Option.some.injEq] at hi'; subst hi'
  rw [Spec.pat_ADD_L_IMM] at hp; simp only [Bool.and_eq_true, beq_iff_eq] at hp
  have h4 : (nib op 4).ule 7#8 = true := by (simp only [nib]; bv_decide)
  simp only [addLImm, bind_ok, fetch32_ok _ _ _ _ _ hf hf2, readRnL_ok _ _ h4, writeRnL_ok _ _ _ h4, addProc32] at h
  have := costI_state h; subst this
  simp only [specRegCcr, Spec.exec, Spec.alu2At, Spec.getReg, Spec.setReg, getER_eq, setER_eq, Spec.alu2K, Option.map, x32]
  generalize s2.regs = r; generalize s2.ccr = cc
  generalize (hi.setWidth 32 <<< 16) ||| lo.setWidth 32 = v
  regs_ccr_decide

/-- SUB.L #imm,ERd -/
theorem SUB_L_IMM (op hi lo : BitVec 16) (st s1 s2 st' : Cpu) (c : BitVec 8) (i : Spec.Instr)
    (hp : Spec.Form.pat .SUB_L_IMM op hi lo 0 0 = true)
    (hi' : Spec.instrOf .SUB_L_IMM op hi lo 0 0 = some i) (hf : fetch st = .ok hi s1) (hf2 : fetch s1 = .ok lo s2)
    (h : subLImm op st = .ok c st') :
    st' = { s2 with regs := (specRegCcr i s2).1, ccr := (specRegCcr i s2).2 } := by
  rw [Spec.instrOf_SUB_L_IMM] at hi'; simp only [Option.some.injEq] at hi'; subst hi'
  rw [Spec.pat_SUB_L_IMM] at hp; simp only [Bool.and_eq_true, beq_iff_eq] at hp
  have h4 : (nib op 4).ule 7#8 = true := by (simp only [nib]; bv_decide)
  simp only [subLImm, bind_ok, fetch32_ok _ _ _ _ _ hf hf2, readRnL_ok _ _ h4, writeRnL_ok _ _ _ h4, subCalc32] at h
  have := costI_state h; subst this
  simp only [specRegCcr, Spec.exec, Spec.alu2At, Spec.getReg, Spec.setReg, getER_eq, setER_eq, Spec.alu2K, Option.map, x32]
  generalize s2.regs = r; generalize s2.ccr = cc
  generalize (hi.setWidth 32 <<< 16) ||| lo.setWidth 32 = v
  regs_ccr_decide

theorem fetch_keeps (st s1 : Cpu) (v : BitVec 16) (hf : fetch st = .ok v s1) : s1.regs = st.regs ∧ s1.ccr = st.ccr := by
  unfold fetch at hf
  simp only at hf
  split at hf
  · simp only [Res.ok.injEq] at hf; rw [← hf.2]; exact ⟨rfl, rfl⟩
  · simp at hf

/-- CMP.L #imm,ERd: flags only (the code reads ERd before it fetches the immediate: the fetches do not touch registers) -/
theorem CMP_L_IMM (op hi lo : BitVec 16) (st s1 s2 st' : Cpu) (c : BitVec 8) (i : Spec.Instr)
    (hp : Spec.Form.pat .CMP_L_IMM op hi lo 0 0 = true)
    (hi' : Spec.instrOf .CMP_L_IMM op hi lo 0 0 = some i) (hf : fetch st = .ok hi s1) (hf2 : fetch s1 = .ok lo s2)
    (h : cmpLImm op st = .ok c st') :
    st' = { s2 with regs := (specRegCcr i s2).1, ccr := (specRegCcr i s2).2 } := by
  rw [Spec.instrOf_CMP_L_IMM] at hi'; simp only [Option.some.injEq] at hi'; subst hi'
  rw [Spec.pat_CMP_L_IMM] at hp; simp only [Bool.and_eq_true, beq_iff_eq] at hp
  have h4 : (nib op 4).ule 7#8 = true := by (simp only [nib]; bv_decide)
  simp only [cmpLImm, bind_ok, fetch32_ok _ _ _ _ _ hf hf2, readRnL_ok _ _ h4, subCalc32] at h
  have := costI_state h; subst this
  have hr : st.regs = s2.regs := by rw [(fetch_keeps _ _ _ hf2).1, (fetch_keeps _ _ _ hf).1]
  rw [hr]
  simp only [specRegCcr, Spec.exec, Spec.alu2At, Spec.getReg, Spec.setReg, getER_eq, setER_eq, Spec.alu2K, Option.map, x32]
  generalize s2.regs = r; generalize s2.ccr = cc
  generalize (hi.setWidth 32 <<< 16) ||| lo.setWidth 32 = v
  regs_ccr_decide

/-- MOV.L #imm,ERd -/
theorem MOV_L_IMM (op hi lo : BitVec 16) (st s1 s2 st' : Cpu) (c : BitVec 8) (i : Spec.Instr)
    (hp : Spec.Form.pat .MOV_L_IMM op hi lo 0 0 = true)
    (hi' : Spec.instrOf .MOV_L_IMM op hi lo 0 0 = some i) (hf : fetch st = .ok hi s1) (hf2 : fetch s1 = .ok lo s2)
    (h : movImm .L op st = .ok c st') :
    st' = { s2 with regs := (specRegCcr i s2).1, ccr := (specRegCcr i s2).2 } := by
  rw [Spec.instrOf_MOV_L_IMM] at hi'; simp only [Option.some.injEq] at hi'; subst hi'
  rw [Spec.pat_MOV_L_IMM] at hp; simp only [Bool.and_eq_true, beq_iff_eq] at hp
  have h4 : ((op &&& 0x000f).setWidth 8).ule 7#8 = true := by bv_decide
  simp only [movImm, bind_ok, fetch32_ok _ _ _ _ _ hf hf2, writeRnL_ok _ _ _ h4, movPcc, changeCcr_ok, writeCcr_zero] at h
  have := costI_state h; subst this
  simp only [specRegCcr, Spec.exec, Spec.getReg, Spec.setReg, Spec.movFlags, getER_eq, setER_eq, x32]
  generalize s2.regs = r; generalize s2.ccr = cc
  generalize (hi.setWidth 32 <<< 16) ||| lo.setWidth 32 = v
  congr 1
  all_goals (
    simp only [nib, getEr, setEr, shOf, Spec.nzClearV, Spec.setFlag, changeCcrV, Spec.z4, Spec.lo3]
    bv_decide)

/-- AND.L #imm,ERd -/
theorem AND_L_IMM (op hi lo : BitVec 16) (st s1 s2 st' : Cpu) (c : BitVec 8) (i : Spec.Instr)
    (hp : Spec.Form.pat .AND_L_IMM op hi lo 0 0 = true)
    (hi' : Spec.instrOf .AND_L_IMM op hi lo 0 0 = some i) (hf : fetch st = .ok hi s1) (hf2 : fetch s1 = .ok lo s2)
    (h : logicLImm .and op st = .ok c st') :
    st' = { s2 with regs := (specRegCcr i s2).1, ccr := (specRegCcr i s2).2 } := by
  rw [Spec.instrOf_AND_L_IMM] at hi'; simp only [Option.some.injEq] at hi'; subst hi'
  rw [Spec.pat_AND_L_IMM] at hp; simp only [Bool.and_eq_true, beq_iff_eq] at hp
  have h4 : (nib op 4).ule 7#8 = true := by (simp only [nib]; bv_decide)
  simp only [logicLImm, logicFlagsSz, logicFlags_ok, LOp.ap, bind_ok, pure_ok, fetch32_ok _ _ _ _ _ hf hf2, readRnL_ok _ _ h4,
    writeRnL_ok _ _ _ h4, writeCcr_ite, writeCcr_zero, writeCcr_one, changeCcr_ok] at h
  have := costI_state h; subst this
  simp only [specRegCcr, Spec.exec, Spec.alu2At, Spec.alu2K, Spec.getReg, Spec.setReg, getER_eq, setER_eq, Option.map, x32]
  generalize s2.regs = r; generalize s2.ccr = cc
  generalize (hi.setWidth 32 <<< 16) ||| lo.setWidth 32 = v
  congr 1
  all_goals (
    simp only [nib, getEr, setEr, shOf, Spec.nzClearV, Spec.setFlag, Spec.flag, changeCcrV, Spec.z4, Spec.lo3]
    bv_decide)

/-- OR.L #imm,ERd -/
theorem OR_L_IMM (op hi lo : BitVec 16) (st s1 s2 st' : Cpu) (c : BitVec 8) (i : Spec.Instr)
    (hp : Spec.Form.pat .OR_L_IMM op hi lo 0 0 = true)
    (hi' : Spec.instrOf .OR_L_IMM op hi lo 0 0 = some i) (hf : fetch st = .ok hi s1) (hf2 : fetch s1 = .ok lo s2)
    (h : logicLImm .or op st = .ok c st') :
    st' = { s2 with regs := (specRegCcr i s2).1, ccr := (specRegCcr i s2).2 } := by
  rw [Spec.instrOf_OR_L_IMM] at hi'; simp only [Option.some.injEq] at hi'; subst hi'
  rw [Spec.pat_OR_L_IMM] at hp; simp only [Bool.and_eq_true, beq_iff_eq] at hp
  have h4 : (nib op 4).ule 7#8 = true := by (simp only [nib]; bv_decide)
  simp only [logicLImm, logicFlagsSz, logicFlags_ok, LOp.ap, bind_ok, pure_ok, fetch32_ok _ _ _ _ _ hf hf2, readRnL_ok _ _ h4,
    writeRnL_ok _ _ _ h4, writeCcr_ite, writeCcr_zero, writeCcr_one, changeCcr_ok] at h
  have := costI_state h; subst this
  simp only [specRegCcr, Spec.exec, Spec.alu2At, Spec.alu2K, Spec.getReg, Spec.setReg, getER_eq, setER_eq, Option.map, x32]
  generalize s2.regs = r; generalize s2.ccr = cc
  generalize (hi.setWidth 32 <<< 16) ||| lo.setWidth 32 = v
  congr 1
  all_goals (
    simp only [nib, getEr, setEr, shOf, Spec.nzClearV, Spec.setFlag, Spec.flag, changeCcrV, Spec.z4, Spec.lo3]
    bv_decide)

/-- XOR.L #imm,ERd -/
theorem XOR_L_IMM (op hi lo : BitVec 16) (st s1 s2 st' : Cpu) (c : BitVec 8) (i : Spec.Instr)
    (hp : Spec.Form.pat .XOR_L_IMM op hi lo 0 0 = true)
    (hi' : Spec.instrOf .XOR_L_IMM op hi lo 0 0 = some i) (hf : fetch st = .ok hi s1) (hf2 : fetch s1 = .ok lo s2)
    (h : logicLImm .xor op st = .ok c st') :
    st' = { s2 with regs := (specRegCcr i s2).1, ccr := (specRegCcr i s2).2 } := by
  rw [Spec.instrOf_XOR_L_IMM] at hi'; simp only [Option.some.injEq] at hi'; subst hi'
  rw [Spec.pat_XOR_L_IMM] at hp; simp only [Bool.and_eq_true, beq_iff_eq] at hp
  have h4 : (nib op 4).ule 7#8 = true := by (simp only [nib]; bv_decide)
  simp only [logicLImm, logicFlagsSz, logicFlags_ok, LOp.ap, bind_ok, pure_ok, fetch32_ok _ _ _ _ _ hf hf2, readRnL_ok _ _ h4,
    writeRnL_ok _ _ _ h4, writeCcr_ite, writeCcr_zero, writeCcr_one, changeCcr_ok] at h
  have := costI_state h; subst this
  simp only [specRegCcr, Spec.exec, Spec.alu2At, Spec.alu2K, Spec.getReg, Spec.setReg, getER_eq, setER_eq, Option.map, x32]
  generalize s2.regs = r; generalize s2.ccr = cc
  generalize (hi.setWidth 32 <<< 16) ||| lo.setWidth 32 = v
  congr 1
  all_goals (
    simp only [nib, getEr, setEr, shOf, Spec.nzClearV, Spec.setFlag, Spec.flag, changeCcrV, Spec.z4, Spec.lo3]
    bv_decide)

end H8.Props.C02I
