/-
  C05, calls and returns = the Spec — BSR d:8, JSR @ERn, RTS and RTE at handler level, as EQUALITIES with the Spec's
  instruction semantics (`Spec.exec`): registers (SP on all 32 bits), CCR, PC and memory (the frame: exactly the
  Spec's four `poke`s of the return address; a pop: the big-endian composition of four `peek`s).  The handler runs
  in the state after the instruction word has been fetched: `st.pc` is the address of the following instruction.
  Hypotheses: the four frame bytes are not special-function registers (pushes); the branch target stays inside the
  24-bit space (BSR: the Spec tags the other case `pcwrap`).
-/
import H8.Props.C01L
import H8.Props.C05H
set_option linter.unusedSimpArgs false
set_option linter.unusedVariables false
namespace H8.Props.C05S
open H8 H8.Lemmas H8.Props H8.Props.C01M H8.Props.C01N H8.Props.C01L H8.Props.C06H

/-- the machine state the Spec prescribes after the instruction (the state itself if the Spec rejects it) -/
def specCpu (f : Spec.Form) (i : Spec.Instr) (pc0 : BitVec 32) (len : Nat) (st : Cpu) : Cpu :=
  match Spec.exec f i pc0 len st with
  | .valid _ e => e.cpu
  | _ => st

set_option hygiene false in
local macro "cost_IK" : tactic => `(tactic|
  (split at h
   case h_2 => simp at h
   case h_3 => simp at h
   rename_i c1 sa hc1; have := costI_state hc1; subst this
   split at h
   case h_2 => simp at h
   case h_3 => simp at h
   rename_i c2 sb hc2; have := calcStateWithAddr_state hc2; subst this
   injection h with _ h; subst h))

theorem sp24 (x : BitVec 32) : (x &&& ADDRESS_MASK) = (x.setWidth 24).setWidth 32 := by unfold ADDRESS_MASK; bv_decide

/-- BSR d:8 -/
theorem BSR_D8_spec (op : BitVec 16) (st st' : Cpu) (c : BitVec 8) (pc0 : BitVec 32) (len : Nat)
    (hpc : st.pc = pc0 + BitVec.ofNat 32 len)
    (h : bsrDisp8 op st = .ok c st')
    (f0 : Spec.isSfr ((getEr st.regs 7 - 4) &&& ADDRESS_MASK).toNat = false)
    (f1 : Spec.isSfr (((getEr st.regs 7 - 4) &&& ADDRESS_MASK) + 1).toNat = false)
    (f2 : Spec.isSfr (((getEr st.regs 7 - 4) &&& ADDRESS_MASK) + 2).toNat = false)
    (f3 : Spec.isSfr (((getEr st.regs 7 - 4) &&& ADDRESS_MASK) + 2 + 1).toNat = false)
    (hw : BitVec.ule (st.pc + Spec.sx8 (op.setWidth 8)) 0xffffff#32 = true) :
    st' = specCpu .BSR_D8 (.bsr (Spec.sx8 (op.setWidth 8))) pc0 len st := by
  simp only [bsrDisp8, bind_ok, readRnL_ok _ _ seven_ok, get_ok, writeDecErn, writeMem, Sz.bytes] at h
  split at h
  case h_2 => simp at h
  case h_3 => simp at h
  rename_i u s1 hpush
  split at hpush
  case h_2 => simp at hpush
  case h_3 => simp at hpush
  rename_i u0 s0 hw0
  have ew := writeAbs24L_poke _ _ _ _ hw0 f0 f1 f2 f3
  subst ew
  simp only [writeRnL_ok _ _ _ seven_ok, Res.ok.injEq, true_and] at hpush
  subst hpush
  simp only [modify_ok, pure_ok] at h
  cost_IK
  simp only [specCpu, Spec.exec, Spec.push32, getER_eq, setER_eq, ← hpc]
  have e7 : (BitVec.setWidth 8 (7 : BitVec 3)) = (7 : BitVec 8) := by decide
  simp only [e7]
  congr 1
  simp only [Spec.low24, Spec.sx8] at hw ⊢
  bv_decide

/-- JSR @ERn: the target is ERn as it is after the push -/
theorem JSR_REG_spec (op : BitVec 16) (st st' : Cpu) (c : BitVec 8) (pc0 : BitVec 32) (len : Nat)
    (hp : Spec.Form.pat .JSR_REG op 0 0 0 0 = true)
    (hpc : st.pc = pc0 + BitVec.ofNat 32 len)
    (h : jsrErn op st = .ok c st')
    (f0 : Spec.isSfr ((getEr st.regs 7 - 4) &&& ADDRESS_MASK).toNat = false)
    (f1 : Spec.isSfr (((getEr st.regs 7 - 4) &&& ADDRESS_MASK) + 1).toNat = false)
    (f2 : Spec.isSfr (((getEr st.regs 7 - 4) &&& ADDRESS_MASK) + 2).toNat = false)
    (f3 : Spec.isSfr (((getEr st.regs 7 - 4) &&& ADDRESS_MASK) + 2 + 1).toNat = false) :
    st' = specCpu .JSR_REG (.jsr (.reg ((op.extractLsb' 4 3).setWidth 3))) pc0 len st := by
  rw [Spec.pat_JSR_REG] at hp; simp only [Bool.and_eq_true, beq_iff_eq] at hp
  have h3 : (nib op 3).ule 7#8 = true := by (simp only [nib]; bv_decide)
  simp only [jsrErn, bind_ok, readRnL_ok _ _ seven_ok, get_ok, writeDecErn, writeMem, Sz.bytes] at h
  split at h
  case h_2 => simp at h
  case h_3 => simp at h
  rename_i u s1 hpush
  split at hpush
  case h_2 => simp at hpush
  case h_3 => simp at hpush
  rename_i u0 s0 hw0
  have ew := writeAbs24L_poke _ _ _ _ hw0 f0 f1 f2 f3
  subst ew
  simp only [writeRnL_ok _ _ _ seven_ok, Res.ok.injEq, true_and] at hpush
  subst hpush
  simp only [readRnL_ok _ _ h3, modify_ok, pure_ok] at h
  cost_IK
  simp only [specCpu, Spec.exec, Spec.push32, getER_eq, setER_eq, ← hpc]
  have e7 : (BitVec.setWidth 8 (7 : BitVec 3)) = (7 : BitVec 8) := by decide
  have hidx : (BitVec.setWidth 8 (BitVec.setWidth 3 (BitVec.extractLsb' 4 3 op))) = nib op 3 := by
    simp only [nib]; bv_decide
  simp only [e7, hidx]
  congr 1

/-- RTS: PC := low 24 bits of the long at SP, SP + 4 -/
theorem RTS_spec (st st' : Cpu) (c : BitVec 8) (pc0 : BitVec 32) (len : Nat)
    (h : rts st = .ok c st') :
    st' = specCpu .RTS .rts pc0 len st := by
  simp only [rts, bind_ok, readRnL_ok _ _ seven_ok, readIncErn, readMem] at h
  split at h
  case h_2 => simp at h
  case h_3 => simp at h
  rename_i v s1 hpop
  split at hpop
  case h_2 => simp at hpop
  case h_3 => simp at hpop
  rename_i v0 s0 hrd
  obtain ⟨es, ev⟩ := readAbs24L_peek _ _ _ _ hrd
  subst es
  simp only [writeRnL_ok _ _ _ seven_ok, pure_ok, Res.ok.injEq, Sz.bytes] at hpop
  obtain ⟨hv, hs1⟩ := hpop
  subst hv; subst hs1
  simp only [modify_ok, pure_ok] at h
  split at h
  case h_2 => simp at h
  case h_3 => simp at h
  rename_i c1 sa hc1; have := costI_state hc1; subst this
  split at h
  case h_2 => simp at h
  case h_3 => simp at h
  rename_i c2 sb hc2; have := calcStateWithAddr_state hc2; subst this
  split at h
  case h_2 => simp at h
  case h_3 => simp at h
  rename_i c3 sc hc3; have := calcState_state hc3; subst this
  injection h with _ h; subst h
  simp only [specCpu, Spec.exec, Spec.pop32, getER_eq, setER_eq, Spec.low24]
  have e7 : (BitVec.setWidth 8 (7 : BitVec 3)) = (7 : BitVec 8) := by decide
  simp only [e7, ← ev]
  congr 1

/-- RTE: CCR := top byte, PC := low 24 bits of the long at SP, SP + 4 -/
theorem RTE_spec (st st' : Cpu) (c : BitVec 8) (pc0 : BitVec 32) (len : Nat)
    (h : rte st = .ok c st') :
    st' = specCpu .RTE .rte pc0 len st := by
  simp only [rte, bind_ok, readRnL_ok _ _ seven_ok, readIncErn, readMem] at h
  split at h
  case h_2 => simp at h
  case h_3 => simp at h
  rename_i v s1 hpop
  split at hpop
  case h_2 => simp at hpop
  case h_3 => simp at hpop
  rename_i v0 s0 hrd
  obtain ⟨es, ev⟩ := readAbs24L_peek _ _ _ _ hrd
  subst es
  simp only [writeRnL_ok _ _ _ seven_ok, pure_ok, Res.ok.injEq, Sz.bytes] at hpop
  obtain ⟨hv, hs1⟩ := hpop
  subst hv; subst hs1
  simp only [modify_ok, pure_ok] at h
  split at h
  case h_2 => simp at h
  case h_3 => simp at h
  rename_i c1 sa hc1; have := costI_state hc1; subst this
  split at h
  case h_2 => simp at h
  case h_3 => simp at h
  rename_i c2 sb hc2; have := calcStateWithAddr_state hc2; subst this
  split at h
  case h_2 => simp at h
  case h_3 => simp at h
  rename_i c3 sc hc3; have := calcState_state hc3; subst this
  injection h with _ h; subst h
  simp only [specCpu, Spec.exec, Spec.pop32, getER_eq, setER_eq, Spec.low24]
  have e7 : (BitVec.setWidth 8 (7 : BitVec 3)) = (7 : BitVec 8) := by decide
  simp only [e7, ← ev]
  congr 1

/-! ### forms that fetch a second word: relative to the state after that fetch -/

/-- the 24-bit absolute target of JMP / JSR @aa:24 -/
abbrev abs24 (op lo : BitVec 16) : BitVec 24 :=
  ((op.extractLsb' 0 8).setWidth 24 <<< 16) ||| ((lo.extractLsb' 0 16).setWidth 24)

/-- JMP @aa:24 -/
theorem JMP_ABS_spec (op lo : BitVec 16) (st s1 st' : Cpu) (c : BitVec 8) (pc0 : BitVec 32) (len : Nat)
    (hf : fetch st = .ok lo s1) (h : jmpAbs op st = .ok c st') :
    st' = specCpu .JMP_ABS (.jmp (.abs24 (abs24 op lo))) pc0 len s1 := by
  simp only [jmpAbs, bind_ok, hf, modify_ok, pure_ok] at h
  split at h
  case h_2 => simp at h
  case h_3 => simp at h
  rename_i c1 sa hc1; have := costI_state hc1; subst this
  split at h
  case h_2 => simp at h
  case h_3 => simp at h
  rename_i c2 sb hc2; have := calcState_state hc2; subst this
  injection h with _ h; subst h
  simp only [specCpu, Spec.exec, Spec.z24, abs24]
  have e : ((op &&& 0x00ff).setWidth 32 <<< 16) ||| lo.setWidth 32 =
      BitVec.setWidth 32 (BitVec.setWidth 24 (BitVec.extractLsb' 0 8 op) <<< 16 ||| BitVec.setWidth 24 (BitVec.extractLsb' 0 16 lo)) := by
    bv_decide
  rw [e]

/-- JSR @aa:24 (the code reads SP before the fetch: the fetch does not touch registers) -/
theorem JSR_ABS_spec (op lo : BitVec 16) (st s1 st' : Cpu) (c : BitVec 8) (pc0 : BitVec 32) (len : Nat)
    (hf : fetch st = .ok lo s1) (hpc : s1.pc = pc0 + BitVec.ofNat 32 len)
    (h : jsrAbs op st = .ok c st')
    (f0 : Spec.isSfr ((getEr s1.regs 7 - 4) &&& ADDRESS_MASK).toNat = false)
    (f1 : Spec.isSfr (((getEr s1.regs 7 - 4) &&& ADDRESS_MASK) + 1).toNat = false)
    (f2 : Spec.isSfr (((getEr s1.regs 7 - 4) &&& ADDRESS_MASK) + 2).toNat = false)
    (f3 : Spec.isSfr (((getEr s1.regs 7 - 4) &&& ADDRESS_MASK) + 2 + 1).toNat = false) :
    st' = specCpu .JSR_ABS (.jsr (.abs24 (abs24 op lo))) pc0 len s1 := by
  simp only [jsrAbs, bind_ok, readRnL_ok _ _ seven_ok, hf, get_ok, writeDecErn, writeMem, Sz.bytes] at h
  split at h
  case h_2 => simp at h
  case h_3 => simp at h
  rename_i u s2 hpush
  split at hpush
  case h_2 => simp at hpush
  case h_3 => simp at hpush
  rename_i u0 s0 hw0
  have ew := writeAbs24L_poke _ _ _ _ hw0 f0 f1 f2 f3
  subst ew
  simp only [writeRnL_ok _ _ _ seven_ok, Res.ok.injEq, true_and] at hpush
  subst hpush
  simp only [modify_ok, pure_ok] at h
  split at h
  case h_2 => simp at h
  case h_3 => simp at h
  rename_i c1 sa hc1; have := costI_state hc1; subst this
  split at h
  case h_2 => simp at h
  case h_3 => simp at h
  rename_i c2 sb hc2; have := calcStateWithAddr_state hc2; subst this
  split at h
  case h_2 => simp at h
  case h_3 => simp at h
  rename_i c3 sc hc3; have := calcState_state hc3; subst this
  injection h with _ h; subst h
  simp only [specCpu, Spec.exec, Spec.push32, getER_eq, setER_eq, ← hpc, Spec.z24, abs24]
  have e7 : (BitVec.setWidth 8 (7 : BitVec 3)) = (7 : BitVec 8) := by decide
  simp only [e7]
  have e : ((op &&& 0x00ff).setWidth 32 <<< 16) ||| lo.setWidth 32 =
      BitVec.setWidth 32 (BitVec.setWidth 24 (BitVec.extractLsb' 0 8 op) <<< 16 ||| BitVec.setWidth 24 (BitVec.extractLsb' 0 16 lo)) := by
    bv_decide
  rw [e]

/-- BSR d:16 -/
theorem BSR_D16_spec (op d : BitVec 16) (st s1 st' : Cpu) (c : BitVec 8) (pc0 : BitVec 32) (len : Nat)
    (hf : fetch st = .ok d s1) (hpc : s1.pc = pc0 + BitVec.ofNat 32 len)
    (h : bsrDisp16 op st = .ok c st')
    (f0 : Spec.isSfr ((getEr s1.regs 7 - 4) &&& ADDRESS_MASK).toNat = false)
    (f1 : Spec.isSfr (((getEr s1.regs 7 - 4) &&& ADDRESS_MASK) + 1).toNat = false)
    (f2 : Spec.isSfr (((getEr s1.regs 7 - 4) &&& ADDRESS_MASK) + 2).toNat = false)
    (f3 : Spec.isSfr (((getEr s1.regs 7 - 4) &&& ADDRESS_MASK) + 2 + 1).toNat = false)
    (hw : BitVec.ule (s1.pc + Spec.sx16 d) 0xffffff#32 = true) :
    st' = specCpu .BSR_D16 (.bsr (Spec.sx16 d)) pc0 len s1 := by
  simp only [bsrDisp16, bind_ok, readRnL_ok _ _ seven_ok, hf, get_ok, writeDecErn, writeMem, Sz.bytes] at h
  split at h
  case h_2 => simp at h
  case h_3 => simp at h
  rename_i u s2 hpush
  split at hpush
  case h_2 => simp at hpush
  case h_3 => simp at hpush
  rename_i u0 s0 hw0
  have ew := writeAbs24L_poke _ _ _ _ hw0 f0 f1 f2 f3
  subst ew
  simp only [writeRnL_ok _ _ _ seven_ok, Res.ok.injEq, true_and] at hpush
  subst hpush
  simp only [modify_ok, pure_ok] at h
  split at h
  case h_2 => simp at h
  case h_3 => simp at h
  rename_i c1 sa hc1; have := costI_state hc1; subst this
  split at h
  case h_2 => simp at h
  case h_3 => simp at h
  rename_i c2 sb hc2; have := calcStateWithAddr_state hc2; subst this
  split at h
  case h_2 => simp at h
  case h_3 => simp at h
  rename_i c3 sc hc3; have := calcState_state hc3; subst this
  injection h with _ h; subst h
  simp only [specCpu, Spec.exec, Spec.push32, getER_eq, setER_eq, ← hpc]
  have e7 : (BitVec.setWidth 8 (7 : BitVec 3)) = (7 : BitVec 8) := by decide
  simp only [e7]
  congr 1
  simp only [Spec.low24, Spec.sx16] at hw ⊢
  bv_decide

/-- JMP @@aa:8: PC := low 24 bits of the long at H'0000aa -/
theorem JMP_MEMIND_spec (op : BitVec 16) (st st' : Cpu) (c : BitVec 8) (pc0 : BitVec 32) (len : Nat)
    (h : jmpIndirect op st = .ok c st') :
    st' = specCpu .JMP_MEMIND (.jmp (.memind ((op.extractLsb' 0 8).setWidth 8))) pc0 len st := by
  have hm : (op &&& 0x00ff).setWidth 32 = ((op &&& 0x00ff).setWidth 32 : BitVec 32) &&& ADDRESS_MASK := by
    unfold ADDRESS_MASK; bv_decide
  simp only [jmpIndirect, bind_ok] at h
  rw [hm] at h
  split at h
  case h_2 => simp at h
  case h_3 => simp at h
  rename_i t s1 hrd
  obtain ⟨es, ev⟩ := readAbs24L_peek _ _ _ _ hrd
  subst es
  simp only [modify_ok, pure_ok] at h
  split at h
  case h_2 => simp at h
  case h_3 => simp at h
  rename_i c1 sa hc1; have := costI_state hc1; subst this
  split at h
  case h_2 => simp at h
  case h_3 => simp at h
  rename_i c2 sb hc2; have := calcStateWithAddr_state hc2; subst this
  split at h
  case h_2 => simp at h
  case h_3 => simp at h
  rename_i c3 sc hc3; have := calcState_state hc3; subst this
  injection h with _ h; subst h
  simp only [specCpu, Spec.exec, Spec.low24]
  have e : (BitVec.setWidth 24 (BitVec.setWidth 8 (BitVec.extractLsb' 0 8 op))) = BitVec.setWidth 24 (BitVec.setWidth 32 (op &&& 255#16)) := by
    bv_decide
  rw [e]
  subst ev
  rfl

-- non-vacuity: a frame in on-chip RAM is not a special-function register
example : Spec.isSfr 0xffff00 = false ∧ Spec.isSfr 0xffff03 = false := by decide

end H8.Props.C05S
