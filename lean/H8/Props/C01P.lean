/-
  C01, further memory forms — MOV.B Rs,@aa:8 and MOV.W @ERs+,Rd (POP.W) at handler level,
  in the style of C01M / C01N.
-/
import H8.Props.C01N
set_option linter.unusedSimpArgs false
namespace H8.Props.C01P
open H8 H8.Lemmas H8.Props H8.Props.C01M H8.Props.C01N

set_option hygiene false in
local macro "movcost_subst" : tactic => `(tactic|
  (split at h
   case h_2 => simp at h
   case h_3 => simp at h
   rename_i c1 sa h1; have := costI_state h1; subst this
   split at h
   case h_2 => simp at h
   case h_3 => simp at h
   rename_i c2 sb2 h2; have := calcStateWithAddr_state h2; subst this
   injection h with _ h; subst h))

set_option hygiene false in
local macro "movcost3_subst" : tactic => `(tactic|
  (split at h
   case h_2 => simp at h
   case h_3 => simp at h
   rename_i c1 sa h1; have := costI_state h1; subst this
   split at h
   case h_2 => simp at h
   case h_3 => simp at h
   rename_i c2 sb2 h2; have := calcStateWithAddr_state h2; subst this
   split at h
   case h_2 => simp at h
   case h_3 => simp at h
   rename_i c3 sb3 h3; have := calcState_state h3; subst this
   injection h with _ h; subst h))

/-- MOV.B Rs,@aa:8 (target not a special-function register) -/
theorem MOV_B_ST_AA8 (op : BitVec 16) (st st' : Cpu) (c : BitVec 8) (i : Spec.Instr)
    (hp : Spec.Form.pat .MOV_B_ST_AA8 op 0 0 0 0 = true)
    (hi : Spec.instrOf .MOV_B_ST_AA8 op 0 0 0 0 = some i) (h : movBAbs8 op st = .ok c st')
    (hsfr : Spec.isSfr (getAddrAbs8 (op.setWidth 8)).toNat = false) :
    st' = { st with regs := (specRegCcrBus i st).1, ccr := (specRegCcrBus i st).2.1, bus := (specRegCcrBus i st).2.2 } := by
  rw [Spec.instrOf_MOV_B_ST_AA8] at hi; simp only [Option.some.injEq] at hi; subst hi
  rw [Spec.pat_MOV_B_ST_AA8] at hp; simp only [Bool.and_eq_true, beq_iff_eq] at hp
  have hdir : (op &&& 0xf000 == 0x2000) = false := by bv_decide
  simp only [movBAbs8, hdir, Bool.false_eq_true, if_false, bind_ok, pure_ok, readRnB_nib] at h
  split at h
  case h_2 => simp at h
  case h_3 => simp at h
  rename_i u s1 hw
  have e1 := busWrite_poke _ _ _ _ hw hsfr
  subst e1
  simp only [movPcc, bind_ok, pure_ok, changeCcr_ok, writeCcr_zero] at h
  movcost_subst
  simp only [specRegCcrBus, Spec.exec, Spec.getReg, Spec.setReg, Spec.movFlags, Spec.eaOf, Spec.eaRegs, getR8_eq, setR8_eq,
    getER_eq, storeBE_one, Spec.Sz.bytes]
  have hx : BitVec.setWidth 8 op = BitVec.setWidth 8 (BitVec.extractLsb' 0 8 op) := by bv_decide
  rw [← hx, ← abs8_toNat]
  generalize hA : (getAddrAbs8 (BitVec.setWidth 8 op)).toNat = A
  generalize st.regs = r; generalize st.ccr = cc; generalize st.bus = bus
  congr 1
  all_goals (
    try (congr 1)
    all_goals (
      simp only [nib, rdB, wrB, getEr, setEr, shOf, Spec.nzClearV, Spec.setFlag, changeCcrV, Spec.z4, Spec.zx8, Spec.lo3]
      bv_decide))

/-- MOV.W @ERs+,Rd (POP.W Rd for s = 7) -/
theorem MOV_W_LD_POSTINC (op : BitVec 16) (st st' : Cpu) (c : BitVec 8) (i : Spec.Instr)
    (hp : Spec.Form.pat .MOV_W_LD_POSTINC op 0 0 0 0 = true)
    (hi : Spec.instrOf .MOV_W_LD_POSTINC op 0 0 0 0 = some i) (h : movIncOrDec .W op st = .ok c st') :
    st' = { st with regs := (specRegCcr i st).1, ccr := (specRegCcr i st).2 } := by
  rw [Spec.instrOf_MOV_W_LD_POSTINC] at hi; simp only [Option.some.injEq] at hi; subst hi
  rw [Spec.pat_MOV_W_LD_POSTINC] at hp; simp only [Bool.and_eq_true, beq_iff_eq] at hp
  have hdir : (op &&& 0x0080 == 0) = true := by bv_decide
  have h3 : (nib op 3).ule 7#8 = true := by (simp only [nib]; bv_decide)
  simp only [movIncOrDec, hdir, if_true, readIncErn, readMem, readAbs24W, bind_ok, pure_ok, readRnL_ok _ _ h3] at h
  split at h
  case h_2 => simp at h
  case h_3 => simp at h
  rename_i v s1 hb
  split at hb
  case h_2 => simp at hb
  case h_3 => simp at hb
  rename_i v0 s0 hb0
  split at hb0
  case h_2 => simp at hb0
  case h_3 => simp at hb0
  rename_i w16 sw hw
  split at hw
  case h_2 => simp at hw
  case h_3 => simp at hw
  rename_i vhi sh hhi
  obtain ⟨eh1, eh2, _⟩ := busRead_peek _ _ _ _ hhi
  subst eh1
  split at hw
  case h_2 => simp at hw
  case h_3 => simp at hw
  rename_i vlo sl hlo
  obtain ⟨el1, el2, hml⟩ := busRead_peek _ _ _ _ hlo
  subst el1
  simp only [Res.ok.injEq] at hw
  obtain ⟨hw1, hw2⟩ := hw
  subst hw1; subst hw2
  simp only [Res.ok.injEq] at hb0
  obtain ⟨hv0, hs0⟩ := hb0
  subst hv0; subst hs0
  simp only [writeRnL_ok _ _ _ h3, Res.ok.injEq, Sz.bytes] at hb
  obtain ⟨hv, hs1⟩ := hb
  subst hv; subst hs1
  simp only [writeRn, movPccSz, movPcc, writeRnW_nib, bind_ok, pure_ok, changeCcr_ok, writeCcr_zero, iBase, Sz.dataKind,
    Sz.dataCount] at h
  movcost3_subst
  simp only [specRegCcr, Spec.exec, Spec.getReg, Spec.setReg, Spec.movFlags, Spec.eaOf, Spec.eaRegs, getR16_eq, setR16_eq,
    getER_eq, setER_eq, loadBE_two, Spec.Sz.bytes]
  have hidx : (BitVec.setWidth 8 (BitVec.setWidth 3 (BitVec.extractLsb' 4 3 op))) = nib op 3 := by
    simp only [nib]; bv_decide
  rw [hidx]
  rw [addr_toNat] at eh2
  rw [addr1_toNat _ hml] at el2
  rw [← eh2, ← el2]
  generalize sl.regs = r; generalize sl.ccr = cc
  congr 1
  all_goals (
    simp only [nib, rdW, wrW, getEr, setEr, shOf, Spec.nzClearV, Spec.setFlag, changeCcrV, Spec.z4, Spec.zx16, Spec.lo3]
    bv_decide)

/-- a word store that succeeded, neither byte a special-function register: exactly the Spec's `storeBE` of two bytes -/
theorem writeAbs24W_poke (x : BitVec 32) (v : BitVec 16) (s s' : Cpu)
    (h : writeAbs24W (x &&& ADDRESS_MASK) v s = .ok () s')
    (f0 : Spec.isSfr (x &&& ADDRESS_MASK).toNat = false)
    (f1 : Spec.isSfr ((x &&& ADDRESS_MASK) + 1).toNat = false) :
    s' = { s with bus := Spec.storeBE s.bus (x.setWidth 24) 2 (v.setWidth 32) } := by
  simp only [writeAbs24W, bind_ok] at h
  split at h
  case h_2 => simp at h
  case h_3 => simp at h
  rename_i u0 t0 hw0
  have e0 := busWrite_poke _ _ _ _ hw0 f0
  subst e0
  have m1 := busWrite_mapped _ _ _ _ h
  have e1 := busWrite_poke _ _ _ _ h f1
  subst e1
  rw [storeBE_two, ← addr_toNat, ← addr1_toNat _ m1]
  have b0 : BitVec.setWidth 8 (BitVec.setWidth 32 v >>> 8) = BitVec.setWidth 8 (v >>> 8) := by bv_decide
  have b1 : BitVec.setWidth 8 (BitVec.setWidth 32 v) = BitVec.setWidth 8 v := by bv_decide
  simp only [b0, b1]

/-- MOV.W Rs,@-ERd (PUSH.W Rs for d = 7) with neither byte a special-function register -/
theorem MOV_W_ST_PREDEC (op : BitVec 16) (st st' : Cpu) (c : BitVec 8) (i : Spec.Instr)
    (hp : Spec.Form.pat .MOV_W_ST_PREDEC op 0 0 0 0 = true)
    (hi : Spec.instrOf .MOV_W_ST_PREDEC op 0 0 0 0 = some i) (h : movIncOrDec .W op st = .ok c st')
    (f0 : Spec.isSfr ((getEr st.regs (nib op 3 &&& 7) - 2) &&& ADDRESS_MASK).toNat = false)
    (f1 : Spec.isSfr (((getEr st.regs (nib op 3 &&& 7) - 2) &&& ADDRESS_MASK) + 1).toNat = false) :
    st' = { st with regs := (specRegCcrBus i st).1, ccr := (specRegCcrBus i st).2.1, bus := (specRegCcrBus i st).2.2 } := by
  rw [Spec.instrOf_MOV_W_ST_PREDEC] at hi; simp only [Option.some.injEq] at hi; subst hi
  rw [Spec.pat_MOV_W_ST_PREDEC] at hp; simp only [Bool.and_eq_true, beq_iff_eq] at hp
  have hdir : (op &&& 0x0080 == 0) = false := by bv_decide
  have h3 : (nib op 3 &&& 7).ule 7#8 = true := by (simp only [nib]; bv_decide)
  simp only [movIncOrDec, hdir, Bool.false_eq_true, if_false, writeDecErn, writeMem, readRn, bind_ok, pure_ok,
    readRnL_ok _ _ h3, readRnW_nib, Sz.bytes] at h
  split at h
  case h_2 => simp at h
  case h_3 => simp at h
  rename_i u s1 hw
  split at hw
  case h_2 => simp at hw
  case h_3 => simp at hw
  rename_i u0 s0 hw0
  have ew := writeAbs24W_poke _ _ _ _ hw0 f0 f1
  subst ew
  simp only [writeRnL_ok _ _ _ h3, Res.ok.injEq, true_and] at hw
  subst hw
  simp only [movPccSz, movPcc, bind_ok, pure_ok, changeCcr_ok, writeCcr_zero, iBase, Sz.dataKind, Sz.dataCount] at h
  movcost3_subst
  simp only [specRegCcrBus, Spec.exec, Spec.getReg, Spec.setReg, Spec.movFlags, Spec.eaOf, Spec.eaRegs, getR16_eq, setR16_eq,
    getER_eq, setER_eq, Spec.Sz.bytes]
  have hidx : (BitVec.setWidth 8 (BitVec.setWidth 3 (BitVec.extractLsb' 4 3 op))) = nib op 3 &&& 7 := by
    simp only [nib]; bv_decide
  have hd : nib op 4 = ((op.extractLsb' 0 4).setWidth 4).setWidth 8 := by simp only [nib]; bv_decide
  have htwo : (BitVec.ofNat 32 2) = 2#32 := rfl
  rw [hidx, ← hd, htwo]
  generalize st.regs = r; generalize st.ccr = cc; generalize st.bus = bus
  generalize rdW r (nib op 4) = w
  have e : BitVec.setWidth 32 (BitVec.setWidth 16 (BitVec.setWidth 32 w)) = BitVec.setWidth 32 w := by bv_decide
  rw [e]
  congr 1

end H8.Props.C01P
