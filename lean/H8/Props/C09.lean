/-
  C09 — The guest address space is decoded exactly, without aliasing, big-endian.
  Theorems are about `Bus.read` / `Bus.write` of Model/Bus.lean, whose address decoding
  (`Gen.read_decode`, `Gen.write_decode`, store sizes, port ranges) is regenerated from
  /repo/src/bus.rs on every run.
-/
import H8.Model.Bus
import H8.Spec.MemMap
namespace H8.Props.C09
open H8 H8.Spec

/-! ### decoding -/

/-- The read decoder accepts exactly the accessible addresses, and the index is in bounds. -/
theorem read_decode_iff (a : Nat) :
    (∃ s i, Gen.read_decode a = some (s, i) ∧ i < Gen.storeSize s) ↔ accessible a := by
  unfold Gen.read_decode accessible
  constructor
  · rintro ⟨s, i, h, _⟩
    repeat' split at h
    all_goals first | omega | simp at h
  · intro h
    repeat' split
    all_goals first
      | (refine ⟨_, _, rfl, ?_⟩; simp [Gen.storeSize]; omega)
      | omega

theorem write_decode_eq_read_decode (a : Nat) : Gen.write_decode a = Gen.read_decode a := by
  unfold Gen.write_decode Gen.read_decode; rfl

/-- Whenever the decoder accepts, the index is inside the store (no slice-index panic). -/
theorem decode_in_bounds (a : Nat) (s : StoreId) (i : Nat) (h : Gen.read_decode a = some (s, i)) :
    i < Gen.storeSize s := by
  unfold Gen.read_decode at h
  repeat' split at h
  all_goals first
    | (simp at h; obtain ⟨rfl, rfl⟩ := h; simp [Gen.storeSize]; omega)
    | simp at h

/-- No aliasing: two addresses that decode to the same (store, index) are equal. -/
theorem decode_injective (a a' : Nat) (s : StoreId) (i : Nat)
    (h : Gen.read_decode a = some (s, i)) (h' : Gen.read_decode a' = some (s, i)) : a = a' := by
  unfold Gen.read_decode at h h'
  repeat' split at h
  all_goals (repeat' split at h')
  all_goals first
    | (simp at h; done)
    | (simp at h'; done)
    | (simp at h h'; obtain ⟨hs, hi⟩ := h; obtain ⟨hs', hi'⟩ := h'; subst hs; cases hs' <;> omega)

/-! ### reads and writes -/

/-- A read succeeds iff the address is accessible; it never panics. -/
theorem read_ok_iff (b : Bus) (addr : BitVec 32) :
    (∃ v, b.read addr = .ok v) ↔ accessible addr.toNat := by
  rw [← read_decode_iff]
  unfold Bus.read
  constructor
  · rintro ⟨v, h⟩
    split at h
    · simp at h
    · rename_i s i hd
      by_cases hb : i < Gen.storeSize s
      · exact ⟨s, i, hd, hb⟩
      · simp [hb] at h
  · rintro ⟨s, i, hd, hb⟩
    simp [hd, hb]

theorem read_err_iff (b : Bus) (addr : BitVec 32) :
    b.read addr = .err ↔ ¬ accessible addr.toNat := by
  rw [← read_decode_iff]
  unfold Bus.read
  constructor
  · intro h ⟨s, i, hd, hb⟩
    simp [hd, hb] at h
  · intro h
    split
    · rfl
    · rename_i s i hd
      exact absurd ⟨s, i, hd, decode_in_bounds _ _ _ hd⟩ h

theorem read_never_panics (b : Bus) (addr : BitVec 32) : b.read addr ≠ .panic := by
  unfold Bus.read
  split
  · simp
  · rename_i s i hd
    simp [decode_in_bounds _ _ _ hd]

/-- Everything at or above 2^24 is inaccessible. -/
theorem above_24_bits_inaccessible (a : Nat) (h : 2 ^ 24 ≤ a) : ¬ accessible a := by
  unfold accessible; omega

/-- A write succeeds iff the address is accessible (an error carries no state: nothing changes). -/
theorem write_ok_iff (b : Bus) (addr : BitVec 32) (v : BitVec 8) :
    (∃ b', b.write addr v = .ok b') ↔ accessible addr.toNat := by
  rw [← read_decode_iff, ← funext write_decode_eq_read_decode]
  unfold Bus.write
  constructor
  · rintro ⟨b', h⟩
    simp only at h
    split at h
    · simp at h
    · rename_i s i hd
      by_cases hb : i < Gen.storeSize s
      · exact ⟨s, i, hd, hb⟩
      · simp [hb] at h
  · rintro ⟨s, i, hd, hb⟩
    simp only [hd, hb, not_true_eq_false, ↓reduceIte]
    cases s <;> simp <;> (repeat' split) <;> simp

theorem write_never_panics (b : Bus) (addr : BitVec 32) (v : BitVec 8) : b.write addr v ≠ .panic := by
  unfold Bus.write
  simp only
  split
  · simp
  · rename_i s i hd
    rw [write_decode_eq_read_decode] at hd
    simp only [decode_in_bounds _ _ _ hd, not_true_eq_false, ↓reduceIte]
    cases s <;> simp <;> (repeat' split) <;> simp

/-! ### storage behaviour -/

/-- Effect of a write to plain storage on the five stores: exactly one cell changes. -/
theorem write_plain_cells (b : Bus) (addr : BitVec 32) (v : BitVec 8) (hp : plain addr.toNat) :
    ∃ s i b', Gen.read_decode addr.toNat = some (s, i) ∧ b.write addr v = .ok b' ∧
      ∀ s' j, (b'.store s').get j = if s' = s ∧ j = i then v else (b.store s').get j := by
  obtain ⟨hacc, hddr, hdr⟩ := hp
  obtain ⟨s, i, hd, hb⟩ := (read_decode_iff addr.toNat).mpr hacc
  have hd' : Gen.write_decode addr.toNat = some (s, i) := by rw [write_decode_eq_read_decode]; exact hd
  have hddr' : ¬ (Gen.DDR_LO ≤ addr.toNat ∧ addr.toNat ≤ Gen.DDR_HI) := by
    simpa [isDdr, Gen.DDR_LO, Gen.DDR_HI] using hddr
  have hdr' : ¬ (Gen.DR_LO ≤ addr.toNat ∧ addr.toNat ≤ Gen.DR_HI) := by
    simpa [isDr, Gen.DR_LO, Gen.DR_HI] using hdr
  unfold Bus.write
  simp only [hd', hb, not_true_eq_false, ↓reduceIte]
  cases s
  all_goals simp only [hddr', hdr', ↓reduceIte]
  all_goals refine ⟨_, i, _, hd, rfl, ?_⟩
  all_goals intro s' j
  all_goals cases s'
  all_goals by_cases hij : j = i
  all_goals simp [Bus.store, Bus.setStore, Bus.writeRegisters, Mem.get_set, hij]
  all_goals (try split)
  all_goals (try simp [Bus.store, Mem.get_set, hij])
  all_goals (try (intro h; exact absurd h.symm hij))

/-- A byte written to plain storage is what a later read of that location returns. -/
theorem read_write_same (b : Bus) (addr : BitVec 32) (v : BitVec 8) (hp : plain addr.toNat) :
    ∃ b', b.write addr v = .ok b' ∧ b'.read addr = .ok v := by
  obtain ⟨s, i, b', hd, hw, hcells⟩ := write_plain_cells b addr v hp
  refine ⟨b', hw, ?_⟩
  unfold Bus.read
  simp [hd, decode_in_bounds _ _ _ hd, hcells]

/-- A write to plain storage changes what no other location reads. -/
theorem read_write_other (b : Bus) (addr addr' : BitVec 32) (v : BitVec 8) (hp : plain addr.toNat)
    (hne : addr' ≠ addr) :
    ∃ b', b.write addr v = .ok b' ∧ b'.read addr' = b.read addr' := by
  obtain ⟨s, i, b', hd, hw, hcells⟩ := write_plain_cells b addr v hp
  refine ⟨b', hw, ?_⟩
  unfold Bus.read
  cases hd' : Gen.read_decode addr'.toNat with
  | none => rfl
  | some p =>
    obtain ⟨s', j⟩ := p
    simp only [hcells]
    have : ¬ (s' = s ∧ j = i) := by
      rintro ⟨rfl, rfl⟩
      exact hne (BitVec.eq_of_toNat_eq (decode_injective _ _ _ _ hd' hd))
    simp [this]

/-- A failing write changes nothing: the error outcome carries no new state. -/
theorem write_err_iff (b : Bus) (addr : BitVec 32) (v : BitVec 8) :
    b.write addr v = .err ↔ ¬ accessible addr.toNat := by
  constructor
  · intro h hacc
    obtain ⟨b', hb⟩ := (write_ok_iff b addr v).mpr hacc
    rw [hb] at h; cases h
  · intro h
    have h1 := write_never_panics b addr v
    have h2 : ¬ ∃ b', b.write addr v = .ok b' := fun hx => h ((write_ok_iff b addr v).mp hx)
    cases hw : b.write addr v with
    | ok b' => exact absurd ⟨b', hw⟩ h2
    | err => rfl
    | panic => exact absurd hw h1

/-! ### histories: any interleaving of writes and reads of plain storage refines a map -/

inductive Op where
  | write (a : BitVec 32) (v : BitVec 8)
  | read (a : BitVec 32)

/-- run a history on the model bus, collecting what each read returned (errors as `none`) -/
def runBus : Bus → List Op → List (Option (BitVec 8))
  | _, [] => []
  | b, .write a v :: ops => match b.write a v with
      | .ok b' => runBus b' ops
      | _ => runBus b ops
  | b, .read a :: ops => (match b.read a with | .ok v => some v | _ => none) :: runBus b ops

/-- the abstract memory: a partial map from addresses to bytes -/
def runMap : (BitVec 32 → Option (BitVec 8)) → List Op → List (Option (BitVec 8))
  | _, [] => []
  | m, .write a v :: ops => runMap (fun x => if x = a ∧ accessible a.toNat then some v else m x) ops
  | m, .read a :: ops => m a :: runMap m ops

def absOf (b : Bus) : BitVec 32 → Option (BitVec 8) :=
  fun a => match b.read a with | .ok v => some v | _ => none

def plainOp : Op → Prop
  | .write a _ => plain a.toNat ∨ ¬ accessible a.toNat
  | .read _ => True

/-- For every history of byte writes (to plain storage or to inaccessible addresses) and reads
    (anywhere), the reads return exactly what the abstract map holds. -/
theorem history_refines_map (ops : List Op) (b : Bus) (h : ∀ op ∈ ops, plainOp op) :
    runBus b ops = runMap (absOf b) ops := by
  induction ops generalizing b with
  | nil => rfl
  | cons op ops ih =>
    have hrest : ∀ op ∈ ops, plainOp op := fun o ho => h o (List.mem_cons_of_mem _ ho)
    cases op with
    | read a => simp [runBus, runMap, absOf, ih b hrest]
    | write a v =>
      have hop := h (.write a v) (List.mem_cons_self ..)
      simp only [runBus, runMap]
      rcases hop with hp | hna
      · obtain ⟨b', hw, hsame⟩ := read_write_same b a v hp
        rw [hw]; simp only
        rw [ih b' hrest]
        congr 1
        funext x
        by_cases hx : x = a
        · subst hx; simp [absOf, hsame, hp.1]
        · obtain ⟨b'', hw', hoth⟩ := read_write_other b a x v hp hx
          rw [hw] at hw'; cases hw'
          simp [absOf, hoth, hx]
      · rw [(write_err_iff b a v).mpr hna]; simp only
        rw [ih b hrest]
        congr 1
        funext x
        simp [hna]

-- non-vacuity: a DRAM, a RAM and a vector address are plain storage; a DDR address is not
example : plain 0x416900 ∧ plain 0xffbf20 ∧ plain 0x10 ∧ ¬ plain 0xfee000 ∧ ¬ accessible 0x1000000 := by decide

end H8.Props.C09
