/-
  C06 at handler level — interrupt entry followed by RTE restores the interrupted context exactly.

  `entry_rte_roundtrip`: for every vector, every register file, every CCR and every 24-bit PC, with the
  four frame bytes below SP in plain storage: if `interrupt v` and then `rte` complete, the machine is back in
  the state it was in — all registers (SP included, on all 32 bits), all eight CCR bits, PC — and differs
  from it only in the memory of the frame.  `interrupt_entry`: what entry alone does (SP − 4, I set, frame =
  CCR ‖ PC24 readable at the new SP).
-/
import H8.Props.C06
import H8.Lemmas.BusPure
set_option linter.unusedSimpArgs false
namespace H8.Props.C06H
open H8 H8.Lemmas H8.Props

theorem seven_ok : (7 : BitVec 8).ule 7#8 = true := by decide

/-- entry alone -/
theorem interrupt_entry (v : BitVec 8) (st s3 : Cpu)
    (h : interrupt v st = .ok () s3)
    (h0 : Spec.plain ((getEr st.regs 7 - 4) &&& ADDRESS_MASK).toNat)
    (h1 : Spec.plain (((getEr st.regs 7 - 4) &&& ADDRESS_MASK) + 1).toNat)
    (h2 : Spec.plain (((getEr st.regs 7 - 4) &&& ADDRESS_MASK) + 2).toNat)
    (h3 : Spec.plain (((getEr st.regs 7 - 4) &&& ADDRESS_MASK) + 3).toNat) :
    s3.regs = setEr st.regs 7 (getEr st.regs 7 - 4) ∧
    s3.ccr = changeCcrV st.ccr 7 true ∧
    readAbs24L ((getEr st.regs 7 - 4) &&& ADDRESS_MASK) s3 = .ok ((st.ccr.setWidth 32 <<< 24) ||| st.pc) s3 ∧
    s3 = { st with regs := s3.regs, ccr := s3.ccr, pc := s3.pc, bus := s3.bus } ∧
    (∀ x, x ≠ ((getEr st.regs 7 - 4) &&& ADDRESS_MASK) → x ≠ ((getEr st.regs 7 - 4) &&& ADDRESS_MASK) + 1 →
        x ≠ ((getEr st.regs 7 - 4) &&& ADDRESS_MASK) + 2 → x ≠ ((getEr st.regs 7 - 4) &&& ADDRESS_MASK) + 3 →
        s3.bus.read x = st.bus.read x) := by
  obtain ⟨s1, hw, hr, hg, hc, hp, ho⟩ := long_roundtrip st _ ((st.ccr.setWidth 32 <<< 24) ||| st.pc) h0 h1 h2 h3
  have hob := writeAbs24L_only_bus _ _ _ _ hw
  simp only [interrupt, bind_ok, get_ok, writeDecErn, writeMem, readRnL_ok _ _ seven_ok, Sz.bytes, hw,
    writeRnL_ok _ _ _ seven_ok] at h
  -- the vector read
  split at h
  case h_2 => simp at h
  case h_3 => simp at h
  rename_i dest s2 hvec
  obtain ⟨e2, _⟩ := readAbs24L_ok _ _ _ _ hvec
  subst e2
  simp only [modify_ok, writeCcr_one] at h
  simp only [Res.ok.injEq, true_and] at h
  subst h
  refine ⟨by simp [hg], by simp [hc], ?_, ?_, ?_⟩
  · exact (readAbs24L_ok _ _ _ _ hr).2 _ (by simp)
  · rw [hob]
  · intro x x0 x1 x2 x3
    simpa using ho x x0 x1 x2 x3

/-- **entry, then RTE: the context is restored exactly** -/
theorem entry_rte_roundtrip (v : BitVec 8) (st st2 : Cpu) (c : BitVec 8)
    (h : (interrupt v >>= fun _ => rte) st = .ok c st2)
    (hpc : BitVec.ule st.pc 0xffffff#32 = true)
    (h0 : Spec.plain ((getEr st.regs 7 - 4) &&& ADDRESS_MASK).toNat)
    (h1 : Spec.plain (((getEr st.regs 7 - 4) &&& ADDRESS_MASK) + 1).toNat)
    (h2 : Spec.plain (((getEr st.regs 7 - 4) &&& ADDRESS_MASK) + 2).toNat)
    (h3 : Spec.plain (((getEr st.regs 7 - 4) &&& ADDRESS_MASK) + 3).toNat) :
    st2 = { st with bus := st2.bus } ∧
    (∀ x, x ≠ ((getEr st.regs 7 - 4) &&& ADDRESS_MASK) → x ≠ ((getEr st.regs 7 - 4) &&& ADDRESS_MASK) + 1 →
        x ≠ ((getEr st.regs 7 - 4) &&& ADDRESS_MASK) + 2 → x ≠ ((getEr st.regs 7 - 4) &&& ADDRESS_MASK) + 3 →
        st2.bus.read x = st.bus.read x) := by
  rw [bind_ok] at h
  split at h
  case h_2 => simp at h
  case h_3 => simp at h
  rename_i u s3 hent
  obtain ⟨hregs, hccr, hfr, hshape, hother⟩ := interrupt_entry v st s3 hent h0 h1 h2 h3
  -- RTE in s3
  have hsp : getEr s3.regs 7 = getEr st.regs 7 - 4 := by
    rw [hregs]; generalize st.regs = r; simp only [getEr, setEr, shOf]; bv_decide
  simp only [rte, bind_ok, readIncErn, readMem, readRnL_ok _ _ seven_ok, hsp, hfr, writeRnL_ok _ _ _ seven_ok, pure_ok,
    modify_ok, Sz.bytes] at h
  -- the three cost lookups leave the state alone
  split at h
  case h_2 => simp at h
  case h_3 => simp at h
  rename_i c1 sa hc1
  have := costI_state hc1; subst this
  split at h
  case h_2 => simp at h
  case h_3 => simp at h
  rename_i c2 sb hc2
  have := calcStateWithAddr_state hc2; subst this
  split at h
  case h_2 => simp at h
  case h_3 => simp at h
  rename_i c3 sc hc3
  have := calcState_state hc3; subst this
  simp only [Res.ok.injEq] at h
  obtain ⟨_, hst2⟩ := h
  subst hst2
  obtain ⟨hf1, hf2⟩ := C06.frame_split st.ccr st.pc hpc
  refine ⟨?_, ?_⟩
  · rw [hshape]
    simp only [hregs, hf1, hf2]
    congr 1
    generalize st.regs = r
    simp only [getEr, setEr, shOf]
    bv_decide
  · intro x x0 x1 x2 x3
    simpa using hother x x0 x1 x2 x3

end H8.Props.C06H
