/-
  C04, memory operands — the bit-manipulation instructions on `@ERd` at handler level, for every memory content.

  The operand byte is the byte at the low 24 bits of ERd as the Spec's memory view (`peek` over the regions of C09)
  sees it; BSET / BCLR / BNOT / BST / BIST write back exactly that byte with exactly the addressed bit changed
  (target not a special-function register: ports / timer registers are C16 / C17); BTST, BLD … BIXOR read it and
  change exactly Z resp. C.  Registers, the other CCR bits and every other byte are unchanged.  For every encoding
  of the form (both words), every register file, every CCR and every memory content.
-/
import H8.Props.C04H
import H8.Props.C01M
set_option linter.unusedSimpArgs false
namespace H8.Props.C04M
open H8 H8.Lemmas H8.Props H8.Props.C01M

-- tail of a memory bit instruction: two cost lookups that leave the state alone
set_option hygiene false in
local macro "bitcost_subst" : tactic => `(tactic|
  (split at h
   case h_2 => simp at h
   case h_3 => simp at h
   rename_i c1 sa h1; have := costI_state h1; subst this
   split at h
   case h_2 => simp at h
   case h_3 => simp at h
   rename_i c2 sb2 h2; have := calcStateWithAddr_state h2; subst this
   injection h with _ h; subst h))

-- writing forms on @ERd: read the byte, write the changed byte back.  Context: hp, hi, h, hsfr; `htag` proved before.
set_option hygiene false in
macro "bitw_ind_pre" pl:ident : tactic => `(tactic|
  (rw [$pl:ident] at hp; simp only [Bool.and_eq_true, beq_iff_eq] at hp
   have h3 : (nib op 3).ule 7#8 = true := by (simp only [nib]; bv_decide)
   first
     | (have htag : (op2 &&& 0xff0f == 0x7000) = true := by bv_decide)
     | (have htag : (op2 &&& 0xff0f == 0x7100) = true := by bv_decide)
     | (have htag : (op2 &&& 0xff0f == 0x7200) = true := by bv_decide)
     | (have htag : ((0#1) == (0#1)) = true := by decide)
   simp only [bmodErn, bstErn, getAddrErn, htag, if_true, bind_ok, pure_ok, get_ok, readRnL_ok _ _ h3] at h
   split at h
   case h_2 => simp at h
   case h_3 => simp at h
   rename_i vb sb hbb
   obtain ⟨e1, e2, _⟩ := busRead_peek _ _ _ _ hbb
   subst e1
   split at h
   case h_2 => simp at h
   case h_3 => simp at h
   rename_i u s1 hrw
   have ew := busWrite_poke _ _ _ _ hrw hsfr
   subst ew))

set_option hygiene false in
local macro "bitw_ind" il:ident pl:ident : tactic => `(tactic|
  (rw [$il:ident] at hi; simp only [Option.some.injEq] at hi; subst hi
   bitw_ind_pre $pl:ident
   bitcost_subst
   simp only [specRegCcrBus, Spec.exec, Spec.BitOp.writes, if_true, getER_eq]
   have hidx : (BitVec.setWidth 8 (BitVec.setWidth 3 (BitVec.extractLsb' 4 3 op))) = nib op 3 := by
     simp only [nib]; bv_decide
   rw [hidx]
   have ha : (BitVec.setWidth 24 (getEr sb.regs (nib op 3))).toNat = (getEr sb.regs (nib op 3) &&& ADDRESS_MASK).toNat := by
     rw [addr_toNat]; have := (BitVec.setWidth 24 (getEr sb.regs (nib op 3))).isLt; omega
   rw [ha, e2]
   generalize Spec.peek sb.bus _ = v
   generalize sb.ccr = cc
   congr 2
   simp only [Spec.bitK, BMod.ap, bstVal, nib, Spec.flag]
   bv_decide))


/-- BSET #imm,@ERd: exactly the addressed bit of exactly the addressed byte changes -/
theorem BSET_I_IND (op op2 : BitVec 16) (st st' : Cpu) (c : BitVec 8) (i : Spec.Instr)
    (hp : Spec.Form.pat .BSET_I_IND op op2 0 0 0 = true)
    (hi : Spec.instrOf .BSET_I_IND op op2 0 0 0 = some i) (h : bmodErn .set 0x7000 0x6000 op op2 st = .ok c st')
    (hsfr : Spec.isSfr (getEr st.regs (nib op 3) &&& ADDRESS_MASK).toNat = false) :
    st' = { st with regs := (specRegCcrBus i st).1, ccr := (specRegCcrBus i st).2.1, bus := (specRegCcrBus i st).2.2 } := by
  bitw_ind Spec.instrOf_BSET_I_IND Spec.pat_BSET_I_IND

/-- BNOT #imm,@ERd: exactly the addressed bit of exactly the addressed byte changes -/
theorem BNOT_I_IND (op op2 : BitVec 16) (st st' : Cpu) (c : BitVec 8) (i : Spec.Instr)
    (hp : Spec.Form.pat .BNOT_I_IND op op2 0 0 0 = true)
    (hi : Spec.instrOf .BNOT_I_IND op op2 0 0 0 = some i) (h : bmodErn .not_ 0x7100 0x6100 op op2 st = .ok c st')
    (hsfr : Spec.isSfr (getEr st.regs (nib op 3) &&& ADDRESS_MASK).toNat = false) :
    st' = { st with regs := (specRegCcrBus i st).1, ccr := (specRegCcrBus i st).2.1, bus := (specRegCcrBus i st).2.2 } := by
  bitw_ind Spec.instrOf_BNOT_I_IND Spec.pat_BNOT_I_IND

/-- BCLR #imm,@ERd: exactly the addressed bit of exactly the addressed byte changes -/
theorem BCLR_I_IND (op op2 : BitVec 16) (st st' : Cpu) (c : BitVec 8) (i : Spec.Instr)
    (hp : Spec.Form.pat .BCLR_I_IND op op2 0 0 0 = true)
    (hi : Spec.instrOf .BCLR_I_IND op op2 0 0 0 = some i) (h : bmodErn .clr 0x7200 0x6200 op op2 st = .ok c st')
    (hsfr : Spec.isSfr (getEr st.regs (nib op 3) &&& ADDRESS_MASK).toNat = false) :
    st' = { st with regs := (specRegCcrBus i st).1, ccr := (specRegCcrBus i st).2.1, bus := (specRegCcrBus i st).2.2 } := by
  bitw_ind Spec.instrOf_BCLR_I_IND Spec.pat_BCLR_I_IND

/-- BST #imm,@ERd: exactly the addressed bit of exactly the addressed byte changes -/
theorem BST_IND (op op2 : BitVec 16) (st st' : Cpu) (c : BitVec 8) (i : Spec.Instr)
    (hp : Spec.Form.pat .BST_IND op op2 0 0 0 = true)
    (hi : Spec.instrOf .BST_IND op op2 0 0 0 = some i) (h : bstErn false op op2 st = .ok c st')
    (hsfr : Spec.isSfr (getEr st.regs (nib op 3) &&& ADDRESS_MASK).toNat = false) :
    st' = { st with regs := (specRegCcrBus i st).1, ccr := (specRegCcrBus i st).2.1, bus := (specRegCcrBus i st).2.2 } := by
  bitw_ind Spec.instrOf_BST_IND Spec.pat_BST_IND

/-- BIST #imm,@ERd: exactly the addressed bit of exactly the addressed byte changes -/
theorem BIST_IND (op op2 : BitVec 16) (st st' : Cpu) (c : BitVec 8) (i : Spec.Instr)
    (hp : Spec.Form.pat .BIST_IND op op2 0 0 0 = true)
    (hi : Spec.instrOf .BIST_IND op op2 0 0 0 = some i) (h : bstErn true op op2 st = .ok c st')
    (hsfr : Spec.isSfr (getEr st.regs (nib op 3) &&& ADDRESS_MASK).toNat = false) :
    st' = { st with regs := (specRegCcrBus i st).1, ccr := (specRegCcrBus i st).2.1, bus := (specRegCcrBus i st).2.2 } := by
  bitw_ind Spec.instrOf_BIST_IND Spec.pat_BIST_IND

-- reading forms on @ERd: read the byte, change exactly one flag.  Context: hp, hi, h.
set_option hygiene false in
macro "bitr_ind_pre" pl:ident : tactic => `(tactic|
  (rw [$pl:ident] at hp; simp only [Bool.and_eq_true, beq_iff_eq] at hp
   have h3 : (nib op 3).ule 7#8 = true := by (simp only [nib]; bv_decide)
   simp only [btstErn, baccErn, btstSet, getAddrErn, Bool.false_eq_true, if_false, bind_ok, pure_ok, get_ok, readRnL_ok _ _ h3,
     readCcr_ok, changeCcr_ok] at h
   split at h
   case h_2 => simp at h
   case h_3 => simp at h
   rename_i vb sb hbb
   obtain ⟨e1, e2, _⟩ := busRead_peek _ _ _ _ hbb
   subst e1
   try (rw [C04H.writeCcr_val _ _ _ (C04H.bacc_value _ _ _ _)] at h; simp only [bind_ok] at h)))

set_option hygiene false in
local macro "bitr_ind" il:ident pl:ident : tactic => `(tactic|
  (rw [$il:ident] at hi; simp only [Option.some.injEq] at hi; subst hi
   bitr_ind_pre $pl:ident
   bitcost_subst
   simp only [specRegCcr, Spec.exec, Spec.BitOp.writes, Bool.false_eq_true, if_false, getER_eq]
   have hidx : (BitVec.setWidth 8 (BitVec.setWidth 3 (BitVec.extractLsb' 4 3 op))) = nib op 3 := by
     simp only [nib]; bv_decide
   rw [hidx]
   have ha : (BitVec.setWidth 24 (getEr sb.regs (nib op 3))).toNat = (getEr sb.regs (nib op 3) &&& ADDRESS_MASK).toNat := by
     rw [addr_toNat]; have := (BitVec.setWidth 24 (getEr sb.regs (nib op 3))).isLt; omega
   rw [ha, e2]
   generalize Spec.peek sb.bus _ = v
   generalize sb.ccr = cc
   congr 1
   simp only [Spec.bitK, BAcc.ap, nib, Spec.flag, Spec.setFlag, changeCcrV]
   bv_decide))


/-- BTST #imm,@ERd: Z := ¬bit on @ERd: only the one flag changes; registers and memory are untouched -/
theorem BTST_I_IND (op op2 : BitVec 16) (st st' : Cpu) (c : BitVec 8) (i : Spec.Instr)
    (hp : Spec.Form.pat .BTST_I_IND op op2 0 0 0 = true)
    (hi : Spec.instrOf .BTST_I_IND op op2 0 0 0 = some i) (h : btstErn false op op2 st = .ok c st') :
    st' = { st with regs := (specRegCcr i st).1, ccr := (specRegCcr i st).2 } := by
  bitr_ind Spec.instrOf_BTST_I_IND Spec.pat_BTST_I_IND

/-- BLD on @ERd: only the one flag changes; registers and memory are untouched -/
theorem BLD_IND (op op2 : BitVec 16) (st st' : Cpu) (c : BitVec 8) (i : Spec.Instr)
    (hp : Spec.Form.pat .BLD_IND op op2 0 0 0 = true)
    (hi : Spec.instrOf .BLD_IND op op2 0 0 0 = some i) (h : baccErn .ld op op2 st = .ok c st') :
    st' = { st with regs := (specRegCcr i st).1, ccr := (specRegCcr i st).2 } := by
  bitr_ind Spec.instrOf_BLD_IND Spec.pat_BLD_IND

/-- BILD on @ERd: only the one flag changes; registers and memory are untouched -/
theorem BILD_IND (op op2 : BitVec 16) (st st' : Cpu) (c : BitVec 8) (i : Spec.Instr)
    (hp : Spec.Form.pat .BILD_IND op op2 0 0 0 = true)
    (hi : Spec.instrOf .BILD_IND op op2 0 0 0 = some i) (h : baccErn .ild op op2 st = .ok c st') :
    st' = { st with regs := (specRegCcr i st).1, ccr := (specRegCcr i st).2 } := by
  bitr_ind Spec.instrOf_BILD_IND Spec.pat_BILD_IND

/-- BAND on @ERd: only the one flag changes; registers and memory are untouched -/
theorem BAND_IND (op op2 : BitVec 16) (st st' : Cpu) (c : BitVec 8) (i : Spec.Instr)
    (hp : Spec.Form.pat .BAND_IND op op2 0 0 0 = true)
    (hi : Spec.instrOf .BAND_IND op op2 0 0 0 = some i) (h : baccErn .and op op2 st = .ok c st') :
    st' = { st with regs := (specRegCcr i st).1, ccr := (specRegCcr i st).2 } := by
  bitr_ind Spec.instrOf_BAND_IND Spec.pat_BAND_IND

/-- BIAND on @ERd: only the one flag changes; registers and memory are untouched -/
theorem BIAND_IND (op op2 : BitVec 16) (st st' : Cpu) (c : BitVec 8) (i : Spec.Instr)
    (hp : Spec.Form.pat .BIAND_IND op op2 0 0 0 = true)
    (hi : Spec.instrOf .BIAND_IND op op2 0 0 0 = some i) (h : baccErn .iand op op2 st = .ok c st') :
    st' = { st with regs := (specRegCcr i st).1, ccr := (specRegCcr i st).2 } := by
  bitr_ind Spec.instrOf_BIAND_IND Spec.pat_BIAND_IND

/-- BOR on @ERd: only the one flag changes; registers and memory are untouched -/
theorem BOR_IND (op op2 : BitVec 16) (st st' : Cpu) (c : BitVec 8) (i : Spec.Instr)
    (hp : Spec.Form.pat .BOR_IND op op2 0 0 0 = true)
    (hi : Spec.instrOf .BOR_IND op op2 0 0 0 = some i) (h : baccErn .or op op2 st = .ok c st') :
    st' = { st with regs := (specRegCcr i st).1, ccr := (specRegCcr i st).2 } := by
  bitr_ind Spec.instrOf_BOR_IND Spec.pat_BOR_IND

/-- BIOR on @ERd: only the one flag changes; registers and memory are untouched -/
theorem BIOR_IND (op op2 : BitVec 16) (st st' : Cpu) (c : BitVec 8) (i : Spec.Instr)
    (hp : Spec.Form.pat .BIOR_IND op op2 0 0 0 = true)
    (hi : Spec.instrOf .BIOR_IND op op2 0 0 0 = some i) (h : baccErn .ior op op2 st = .ok c st') :
    st' = { st with regs := (specRegCcr i st).1, ccr := (specRegCcr i st).2 } := by
  bitr_ind Spec.instrOf_BIOR_IND Spec.pat_BIOR_IND

/-- BXOR on @ERd: only the one flag changes; registers and memory are untouched -/
theorem BXOR_IND (op op2 : BitVec 16) (st st' : Cpu) (c : BitVec 8) (i : Spec.Instr)
    (hp : Spec.Form.pat .BXOR_IND op op2 0 0 0 = true)
    (hi : Spec.instrOf .BXOR_IND op op2 0 0 0 = some i) (h : baccErn .xor op op2 st = .ok c st') :
    st' = { st with regs := (specRegCcr i st).1, ccr := (specRegCcr i st).2 } := by
  bitr_ind Spec.instrOf_BXOR_IND Spec.pat_BXOR_IND

/-- BIXOR on @ERd: only the one flag changes; registers and memory are untouched -/
theorem BIXOR_IND (op op2 : BitVec 16) (st st' : Cpu) (c : BitVec 8) (i : Spec.Instr)
    (hp : Spec.Form.pat .BIXOR_IND op op2 0 0 0 = true)
    (hi : Spec.instrOf .BIXOR_IND op op2 0 0 0 = some i) (h : baccErn .ixor op op2 st = .ok c st') :
    st' = { st with regs := (specRegCcr i st).1, ccr := (specRegCcr i st).2 } := by
  bitr_ind Spec.instrOf_BIXOR_IND Spec.pat_BIXOR_IND

/-! ### the same instructions on `@aa:8` (H'FFFF00 | aa) -/

theorem abs8_addr (op : BitVec 16) :
    (0xffff00#24 ||| BitVec.setWidth 24 (BitVec.setWidth 8 (BitVec.extractLsb' 0 8 op))).toNat = (getAddrAbs8 (op.setWidth 8)).toNat := by
  rw [abs8_toNat]
  have hx : BitVec.setWidth 8 op = BitVec.setWidth 8 (BitVec.extractLsb' 0 8 op) := by bv_decide
  rw [hx]
  have := (0xffff00#24 ||| BitVec.setWidth 24 (BitVec.setWidth 8 (BitVec.extractLsb' 0 8 op))).isLt
  omega

set_option hygiene false in
macro "bitw_abs_pre" pl:ident : tactic => `(tactic|
  (rw [$pl:ident] at hp; simp only [Bool.and_eq_true, beq_iff_eq] at hp
   first
     | (have htag : (op2 &&& 0xff0f == 0x7000) = true := by bv_decide)
     | (have htag : (op2 &&& 0xff0f == 0x7100) = true := by bv_decide)
     | (have htag : (op2 &&& 0xff0f == 0x7200) = true := by bv_decide)
     | (have htag : ((0#1) == (0#1)) = true := by decide)
   simp only [bmodAbs, bstAbs, htag, if_true, bind_ok, pure_ok, get_ok] at h
   split at h
   case h_2 => simp at h
   case h_3 => simp at h
   rename_i vb sb hbb
   obtain ⟨e1, e2, _⟩ := busRead_peek _ _ _ _ hbb
   subst e1
   split at h
   case h_2 => simp at h
   case h_3 => simp at h
   rename_i u s1 hrw
   have ew := busWrite_poke _ _ _ _ hrw hsfr
   subst ew))

set_option hygiene false in
local macro "bitw_abs" il:ident pl:ident : tactic => `(tactic|
  (rw [$il:ident] at hi; simp only [Option.some.injEq] at hi; subst hi
   bitw_abs_pre $pl:ident
   bitcost_subst
   simp only [specRegCcrBus, Spec.exec, Spec.BitOp.writes, if_true]
   rw [abs8_addr, e2]
   generalize Spec.peek sb.bus _ = v
   generalize sb.ccr = cc
   congr 2
   simp only [Spec.bitK, BMod.ap, bstVal, nib, Spec.flag]
   bv_decide))


set_option hygiene false in
macro "bitr_abs_pre" pl:ident : tactic => `(tactic|
  (rw [$pl:ident] at hp; simp only [Bool.and_eq_true, beq_iff_eq] at hp
   simp only [btstAbs, baccAbs, btstSet, Bool.false_eq_true, if_false, bind_ok, pure_ok, get_ok, readCcr_ok, changeCcr_ok] at h
   split at h
   case h_2 => simp at h
   case h_3 => simp at h
   rename_i vb sb hbb
   obtain ⟨e1, e2, _⟩ := busRead_peek _ _ _ _ hbb
   subst e1
   try (rw [C04H.writeCcr_val _ _ _ (C04H.bacc_value _ _ _ _)] at h; simp only [bind_ok] at h)))

set_option hygiene false in
local macro "bitr_abs" il:ident pl:ident : tactic => `(tactic|
  (rw [$il:ident] at hi; simp only [Option.some.injEq] at hi; subst hi
   bitr_abs_pre $pl:ident
   bitcost_subst
   simp only [specRegCcr, Spec.exec, Spec.BitOp.writes, Bool.false_eq_true, if_false]
   rw [abs8_addr, e2]
   generalize Spec.peek sb.bus _ = v
   generalize sb.ccr = cc
   congr 1
   simp only [Spec.bitK, BAcc.ap, nib, Spec.flag, Spec.setFlag, changeCcrV]
   bv_decide))


/-- BSET #imm,@aa:8: exactly the addressed bit of exactly the addressed byte changes -/
theorem BSET_I_AA8 (op op2 : BitVec 16) (st st' : Cpu) (c : BitVec 8) (i : Spec.Instr)
    (hp : Spec.Form.pat .BSET_I_AA8 op op2 0 0 0 = true)
    (hi : Spec.instrOf .BSET_I_AA8 op op2 0 0 0 = some i) (h : bmodAbs .set 0x7000 0x6000 op op2 st = .ok c st')
    (hsfr : Spec.isSfr (getAddrAbs8 (op.setWidth 8)).toNat = false) :
    st' = { st with regs := (specRegCcrBus i st).1, ccr := (specRegCcrBus i st).2.1, bus := (specRegCcrBus i st).2.2 } := by
  bitw_abs Spec.instrOf_BSET_I_AA8 Spec.pat_BSET_I_AA8

/-- BNOT #imm,@aa:8: exactly the addressed bit of exactly the addressed byte changes -/
theorem BNOT_I_AA8 (op op2 : BitVec 16) (st st' : Cpu) (c : BitVec 8) (i : Spec.Instr)
    (hp : Spec.Form.pat .BNOT_I_AA8 op op2 0 0 0 = true)
    (hi : Spec.instrOf .BNOT_I_AA8 op op2 0 0 0 = some i) (h : bmodAbs .not_ 0x7100 0x6100 op op2 st = .ok c st')
    (hsfr : Spec.isSfr (getAddrAbs8 (op.setWidth 8)).toNat = false) :
    st' = { st with regs := (specRegCcrBus i st).1, ccr := (specRegCcrBus i st).2.1, bus := (specRegCcrBus i st).2.2 } := by
  bitw_abs Spec.instrOf_BNOT_I_AA8 Spec.pat_BNOT_I_AA8

/-- BCLR #imm,@aa:8: exactly the addressed bit of exactly the addressed byte changes -/
theorem BCLR_I_AA8 (op op2 : BitVec 16) (st st' : Cpu) (c : BitVec 8) (i : Spec.Instr)
    (hp : Spec.Form.pat .BCLR_I_AA8 op op2 0 0 0 = true)
    (hi : Spec.instrOf .BCLR_I_AA8 op op2 0 0 0 = some i) (h : bmodAbs .clr 0x7200 0x6200 op op2 st = .ok c st')
    (hsfr : Spec.isSfr (getAddrAbs8 (op.setWidth 8)).toNat = false) :
    st' = { st with regs := (specRegCcrBus i st).1, ccr := (specRegCcrBus i st).2.1, bus := (specRegCcrBus i st).2.2 } := by
  bitw_abs Spec.instrOf_BCLR_I_AA8 Spec.pat_BCLR_I_AA8

/-- BST #imm,@aa:8: exactly the addressed bit of exactly the addressed byte changes -/
theorem BST_AA8 (op op2 : BitVec 16) (st st' : Cpu) (c : BitVec 8) (i : Spec.Instr)
    (hp : Spec.Form.pat .BST_AA8 op op2 0 0 0 = true)
    (hi : Spec.instrOf .BST_AA8 op op2 0 0 0 = some i) (h : bstAbs false op op2 st = .ok c st')
    (hsfr : Spec.isSfr (getAddrAbs8 (op.setWidth 8)).toNat = false) :
    st' = { st with regs := (specRegCcrBus i st).1, ccr := (specRegCcrBus i st).2.1, bus := (specRegCcrBus i st).2.2 } := by
  bitw_abs Spec.instrOf_BST_AA8 Spec.pat_BST_AA8

/-- BIST #imm,@aa:8: exactly the addressed bit of exactly the addressed byte changes -/
theorem BIST_AA8 (op op2 : BitVec 16) (st st' : Cpu) (c : BitVec 8) (i : Spec.Instr)
    (hp : Spec.Form.pat .BIST_AA8 op op2 0 0 0 = true)
    (hi : Spec.instrOf .BIST_AA8 op op2 0 0 0 = some i) (h : bstAbs true op op2 st = .ok c st')
    (hsfr : Spec.isSfr (getAddrAbs8 (op.setWidth 8)).toNat = false) :
    st' = { st with regs := (specRegCcrBus i st).1, ccr := (specRegCcrBus i st).2.1, bus := (specRegCcrBus i st).2.2 } := by
  bitw_abs Spec.instrOf_BIST_AA8 Spec.pat_BIST_AA8

/-- BTST #imm,@aa:8: Z := ¬bit on @aa:8: only the one flag changes; registers and memory are untouched -/
theorem BTST_I_AA8 (op op2 : BitVec 16) (st st' : Cpu) (c : BitVec 8) (i : Spec.Instr)
    (hp : Spec.Form.pat .BTST_I_AA8 op op2 0 0 0 = true)
    (hi : Spec.instrOf .BTST_I_AA8 op op2 0 0 0 = some i) (h : btstAbs false op op2 st = .ok c st') :
    st' = { st with regs := (specRegCcr i st).1, ccr := (specRegCcr i st).2 } := by
  bitr_abs Spec.instrOf_BTST_I_AA8 Spec.pat_BTST_I_AA8

/-- BLD on @aa:8: only the one flag changes; registers and memory are untouched -/
theorem BLD_AA8 (op op2 : BitVec 16) (st st' : Cpu) (c : BitVec 8) (i : Spec.Instr)
    (hp : Spec.Form.pat .BLD_AA8 op op2 0 0 0 = true)
    (hi : Spec.instrOf .BLD_AA8 op op2 0 0 0 = some i) (h : baccAbs .ld op op2 st = .ok c st') :
    st' = { st with regs := (specRegCcr i st).1, ccr := (specRegCcr i st).2 } := by
  bitr_abs Spec.instrOf_BLD_AA8 Spec.pat_BLD_AA8

/-- BILD on @aa:8: only the one flag changes; registers and memory are untouched -/
theorem BILD_AA8 (op op2 : BitVec 16) (st st' : Cpu) (c : BitVec 8) (i : Spec.Instr)
    (hp : Spec.Form.pat .BILD_AA8 op op2 0 0 0 = true)
    (hi : Spec.instrOf .BILD_AA8 op op2 0 0 0 = some i) (h : baccAbs .ild op op2 st = .ok c st') :
    st' = { st with regs := (specRegCcr i st).1, ccr := (specRegCcr i st).2 } := by
  bitr_abs Spec.instrOf_BILD_AA8 Spec.pat_BILD_AA8

/-- BAND on @aa:8: only the one flag changes; registers and memory are untouched -/
theorem BAND_AA8 (op op2 : BitVec 16) (st st' : Cpu) (c : BitVec 8) (i : Spec.Instr)
    (hp : Spec.Form.pat .BAND_AA8 op op2 0 0 0 = true)
    (hi : Spec.instrOf .BAND_AA8 op op2 0 0 0 = some i) (h : baccAbs .and op op2 st = .ok c st') :
    st' = { st with regs := (specRegCcr i st).1, ccr := (specRegCcr i st).2 } := by
  bitr_abs Spec.instrOf_BAND_AA8 Spec.pat_BAND_AA8

/-- BIAND on @aa:8: only the one flag changes; registers and memory are untouched -/
theorem BIAND_AA8 (op op2 : BitVec 16) (st st' : Cpu) (c : BitVec 8) (i : Spec.Instr)
    (hp : Spec.Form.pat .BIAND_AA8 op op2 0 0 0 = true)
    (hi : Spec.instrOf .BIAND_AA8 op op2 0 0 0 = some i) (h : baccAbs .iand op op2 st = .ok c st') :
    st' = { st with regs := (specRegCcr i st).1, ccr := (specRegCcr i st).2 } := by
  bitr_abs Spec.instrOf_BIAND_AA8 Spec.pat_BIAND_AA8

/-- BOR on @aa:8: only the one flag changes; registers and memory are untouched -/
theorem BOR_AA8 (op op2 : BitVec 16) (st st' : Cpu) (c : BitVec 8) (i : Spec.Instr)
    (hp : Spec.Form.pat .BOR_AA8 op op2 0 0 0 = true)
    (hi : Spec.instrOf .BOR_AA8 op op2 0 0 0 = some i) (h : baccAbs .or op op2 st = .ok c st') :
    st' = { st with regs := (specRegCcr i st).1, ccr := (specRegCcr i st).2 } := by
  bitr_abs Spec.instrOf_BOR_AA8 Spec.pat_BOR_AA8

/-- BIOR on @aa:8: only the one flag changes; registers and memory are untouched -/
theorem BIOR_AA8 (op op2 : BitVec 16) (st st' : Cpu) (c : BitVec 8) (i : Spec.Instr)
    (hp : Spec.Form.pat .BIOR_AA8 op op2 0 0 0 = true)
    (hi : Spec.instrOf .BIOR_AA8 op op2 0 0 0 = some i) (h : baccAbs .ior op op2 st = .ok c st') :
    st' = { st with regs := (specRegCcr i st).1, ccr := (specRegCcr i st).2 } := by
  bitr_abs Spec.instrOf_BIOR_AA8 Spec.pat_BIOR_AA8

/-- BXOR on @aa:8: only the one flag changes; registers and memory are untouched -/
theorem BXOR_AA8 (op op2 : BitVec 16) (st st' : Cpu) (c : BitVec 8) (i : Spec.Instr)
    (hp : Spec.Form.pat .BXOR_AA8 op op2 0 0 0 = true)
    (hi : Spec.instrOf .BXOR_AA8 op op2 0 0 0 = some i) (h : baccAbs .xor op op2 st = .ok c st') :
    st' = { st with regs := (specRegCcr i st).1, ccr := (specRegCcr i st).2 } := by
  bitr_abs Spec.instrOf_BXOR_AA8 Spec.pat_BXOR_AA8

/-- BIXOR on @aa:8: only the one flag changes; registers and memory are untouched -/
theorem BIXOR_AA8 (op op2 : BitVec 16) (st st' : Cpu) (c : BitVec 8) (i : Spec.Instr)
    (hp : Spec.Form.pat .BIXOR_AA8 op op2 0 0 0 = true)
    (hi : Spec.instrOf .BIXOR_AA8 op op2 0 0 0 = some i) (h : baccAbs .ixor op op2 st = .ok c st') :
    st' = { st with regs := (specRegCcr i st).1, ccr := (specRegCcr i st).2 } := by
  bitr_abs Spec.instrOf_BIXOR_AA8 Spec.pat_BIXOR_AA8

-- non-vacuity of the `hsfr` hypothesis: H'FFFF10 (on-chip RAM reached by @aa:8) is not a special-function register
example : Spec.isSfr (getAddrAbs8 0x10).toNat = false := by decide

end H8.Props.C04M
