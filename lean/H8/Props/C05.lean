/-
  C05 — Branches, jumps, calls and returns obey the condition table and stack discipline.
-/
import H8.Props.Common
import H8.Lemmas.Cost
namespace H8.Props.C05
open H8 H8.Lemmas H8.Props

/-- The 16 branch predicates of the code (on `read_ccr` bits) are exactly the manual's condition
    table, for all 16 conditions × all 256 CCR values. -/
theorem cond_table (c : BitVec 4) (ccr : BitVec 8) : bccTaken c ccr = Spec.cond c ccr := by
  have hc : c = 0 ∨ c = 1 ∨ c = 2 ∨ c = 3 ∨ c = 4 ∨ c = 5 ∨ c = 6 ∨ c = 7 ∨ c = 8 ∨ c = 9 ∨ c = 10 ∨ c = 11 ∨
      c = 12 ∨ c = 13 ∨ c = 14 ∨ c = 15 := by bv_decide
  rcases hc with h | h | h | h | h | h | h | h | h | h | h | h | h | h | h | h <;> subst h <;>
    simp only [bccTaken, Spec.cond, Spec.flag] <;> bv_decide

/-- Value-level content of call/return: the word pushed by BSR/JSR (`pc` as 32 bits, PC < 2^24)
    read back and masked by RTS is the return address. -/
theorem call_frame_roundtrip (pc : BitVec 32) (h : BitVec.ule pc 0xffffff#32 = true) :
    pc &&& ADDRESS_MASK = pc := by
  unfold ADDRESS_MASK; bv_decide

/-- A taken branch goes to next + sign-extended displacement; the 8-bit form sign-extends bit 7. -/
theorem disp8_sign_extend (d : BitVec 8) (pc : BitVec 32) :
    pc + d.signExtend 32 = pc + Spec.sx8 d := by
  simp [Spec.sx8]

/-! ### the branch handlers -/

theorem pcDisp_ok (d : BitVec 32) (s s' : Cpu) (h : pcDisp d s = .ok () s') :
    s' = { s with pc := s.pc + d } ∧ (s.pc + d).getLsbD 0 = false := by
  unfold pcDisp at h
  simp only at h
  split at h
  · simp at h
  · split at h
    · simp at h
    · rename_i hodd
      simp only [Res.ok.injEq, true_and] at h
      exact ⟨h.symm, by simpa using hodd⟩

/-- **Bcc d:8, all 16 conditions**: whenever the handler completes, PC is the address of the following
    instruction (the PC after the fetch) plus the sign-extended displacement if the manual's condition holds
    for the CCR, and unchanged otherwise; no flag, register or memory byte changes; an odd target is refused. -/
theorem bcc8_handler (c : BitVec 4) (op : BitVec 16) (st st' : Cpu) (cost : BitVec 8)
    (h : bcc8 c op st = .ok cost st') :
    st' = { st with pc := if Spec.cond c st.ccr then st.pc + Spec.sx8 (op.setWidth 8) else st.pc } ∧
    (Spec.cond c st.ccr = true → (st.pc + Spec.sx8 (op.setWidth 8)).getLsbD 0 = false) := by
  simp only [bcc8, bind_ok, get_ok] at h
  rw [cond_table] at h
  by_cases hc : Spec.cond c st.ccr = true
  · simp only [hc, if_true] at h ⊢
    simp only [bind_ok, pure_ok] at h
    split at h
    · rename_i u s1 h1
      obtain ⟨e1, e2⟩ := pcDisp_ok _ _ _ h1
      have := costI_state h; subst this
      subst e1
      exact ⟨by simp [Spec.sx8], fun _ => by simpa [Spec.sx8] using e2⟩
    · simp at h
    · simp at h
  · have hf : Spec.cond c st.ccr = false := by simpa using hc
    simp only [hf, Bool.false_eq_true, if_false, pure_ok] at h ⊢
    have := costI_state h; subst this
    exact ⟨rfl, fun h' => by cases h'⟩

-- `h : (match costI … with | ok c1 s1 => match calcState … s1 with …) = ok cost st'`  ⊢  closes `st' = <that state>`
set_option hygiene false in
local macro "cost2_inline" : tactic => `(tactic|
  (split at h
   · rename_i c1 sa h1; have := costI_state h1; subst this
     split at h
     · rename_i c2 sb h2; have := calcState_state h2; subst this; injection h with _ h; exact h.symm
     · simp at h
     · simp at h
   · simp at h
   · simp at h))

/-- **Bcc d:16**: the same, relative to the state after the displacement word has been fetched -/
theorem bcc16_handler (c : BitVec 4) (st s1 st' : Cpu) (op2 : BitVec 16) (cost : BitVec 8)
    (hf : fetch st = .ok op2 s1) (h : bcc16 c st = .ok cost st') :
    st' = { s1 with pc := if Spec.cond c s1.ccr then s1.pc + Spec.sx16 op2 else s1.pc } ∧
    (Spec.cond c s1.ccr = true → (s1.pc + Spec.sx16 op2).getLsbD 0 = false) := by
  simp only [bcc16, bind_ok, hf, get_ok] at h
  rw [cond_table] at h
  by_cases hc : Spec.cond c s1.ccr = true
  · simp only [hc, if_true] at h ⊢
    simp only [bind_ok, pure_ok] at h
    split at h
    · rename_i u s2 h1
      obtain ⟨e1, e2⟩ := pcDisp_ok _ _ _ h1
      have hs : st' = s2 := by cost2_inline
      subst hs
      subst e1
      exact ⟨by simp [Spec.sx16], fun _ => by simpa [Spec.sx16] using e2⟩
    · simp at h
    · simp at h
  · have hf' : Spec.cond c s1.ccr = false := by simpa using hc
    simp only [hf', Bool.false_eq_true, if_false, pure_ok] at h ⊢
    simp only [bind_ok, pure_ok] at h
    have hs : st' = s1 := by cost2_inline
    subst hs
    exact ⟨rfl, fun h' => by cases h'⟩

/-- **JMP @ERn**: PC := low 24 bits of ERn (the upper byte of the register is ignored), nothing else changes —
    for every register number and every register file -/
theorem JMP_REG_handler (op : BitVec 16) (st st' : Cpu) (cost : BitVec 8)
    (hp : Spec.Form.pat .JMP_REG op 0 0 0 0 = true) (h : jmpErn op st = .ok cost st') :
    st' = { st with pc := Spec.low24 (Spec.getER st.regs ((op.extractLsb' 4 3))) } := by
  rw [Spec.pat_JMP_REG] at hp; simp only [Bool.and_eq_true, beq_iff_eq] at hp
  have h3 : (nib op 3).ule 7#8 = true := by (simp only [nib]; bv_decide)
  simp only [jmpErn, bind_ok, readRnL_ok _ _ h3, modify_ok] at h
  have := costI_state h; subst this
  congr 1
  generalize st.regs = r
  simp only [Spec.low24, getER_eq, getEr, setEr, shOf, nib, ADDRESS_MASK, Spec.z4, Spec.lo3]
  bv_decide

-- non-vacuity of `cond_table`: BGT is taken for CCR = 0 and not for Z = 1
example : bccTaken 14 0x00 = true ∧ bccTaken 14 0x04 = false := by decide

end H8.Props.C05
