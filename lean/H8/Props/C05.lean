/-
  C05 — Branches, jumps, calls and returns obey the condition table and stack discipline.
-/
import H8.Props.Common
namespace H8.Props.C05
open H8 H8.Lemmas H8.Props

/-- The 16 branch predicates of the code (on `read_ccr` bits) are exactly the manual's condition
    table, for all 16 conditions × all 256 CCR values. -/
theorem cond_table (c : BitVec 4) (ccr : BitVec 8) : bccTaken c ccr = Spec.cond c ccr := by
  have hc : c = 0 ∨ c = 1 ∨ c = 2 ∨ c = 3 ∨ c = 4 ∨ c = 5 ∨ c = 6 ∨ c = 7 ∨ c = 8 ∨ c = 9 ∨ c = 10 ∨ c = 11 ∨
      c = 12 ∨ c = 13 ∨ c = 14 ∨ c = 15 := by bv_decide
  rcases hc with h | h | h | h | h | h | h | h | h | h | h | h | h | h | h | h <;> subst h <;>
    simp only [bccTaken, Spec.cond, Spec.flag] <;> bv_decide

/-- Value-level content of call/return: the word pushed by BSR/JSR (`pc` as 32 bits, PC < 2^24)
    read back and masked by RTS is the return address. -/
theorem call_frame_roundtrip (pc : BitVec 32) (h : BitVec.ule pc 0xffffff#32 = true) :
    pc &&& ADDRESS_MASK = pc := by
  unfold ADDRESS_MASK; bv_decide

/-- A taken branch goes to next + sign-extended displacement; the 8-bit form sign-extends bit 7. -/
theorem disp8_sign_extend (d : BitVec 8) (pc : BitVec 32) :
    pc + d.signExtend 32 = pc + Spec.sx8 d := by
  simp [Spec.sx8]

-- non-vacuity of `cond_table`: BGT is taken for CCR = 0 and not for Z = 1
example : bccTaken 14 0x00 = true ∧ bccTaken 14 0x04 = false := by decide

end H8.Props.C05
