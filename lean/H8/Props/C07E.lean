/-
  C07, part 4 — end to end: decode (regenerated dispatch) + handler (model) = the Spec's instruction.

  For every single-word form whose handler theorem is proved in C01–C04 (89 forms): for every word that matches the
  form, every register file and every CCR, if `Cpu::exec` (as modelled) completes, the state it leaves is the one
  the manual prescribes for exactly the instruction the word encodes — `exec_eq_F` composes the routing theorem of
  C07R with `leafHandler`, `F_exec` composes that with the handler theorem.
-/
import H8.Props.C07R
import H8.Props.C01
import H8.Props.C02
import H8.Props.C03
import H8.Props.C04H
namespace H8.Props.C07E
open H8 H8.Spec H8.Props H8.Lemmas

theorem runLeaf_some (n : Nat) (l : Gen.Leaf) (op op2 : BitVec 16) (h : M (BitVec 8))
    (hl : leafHandler l op op2 = some h) : runLeaf (n + 1) l op op2 = h := by
  unfold runLeaf; rw [hl]

/-- single-level dispatch: `exec_route` names a leaf that has a handler -/
theorem exec_of_leaf (op : BitVec 16) (l : Gen.Leaf) (h : M (BitVec 8))
    (h1 : Gen.exec_route op = l) (hl : leafHandler l op 0 = some h) : exec op = h := by
  show runLeaf (5 + 1) (Gen.exec_route op) op 0 = h
  rw [h1, runLeaf_some 5 l op 0 h hl]

theorem runLeaf_mov_b (n : Nat) (op op2 : BitVec 16) :
    runLeaf (n + 1) .mov_b__opcode op op2 = runLeaf n (Gen.mov_b_route op) op op2 := rfl
theorem exec_of_mov_b (op : BitVec 16) (l : Gen.Leaf) (h : M (BitVec 8))
    (h1 : Gen.exec_route op = .mov_b__opcode) (h2 : Gen.mov_b_route op = l)
    (hl : leafHandler l op 0 = some h) : exec op = h := by
  show runLeaf (5 + 1) (Gen.exec_route op) op 0 = h
  rw [h1, runLeaf_mov_b, h2, runLeaf_some 4 l op 0 h hl]

theorem runLeaf_mov_w (n : Nat) (op op2 : BitVec 16) :
    runLeaf (n + 1) .mov_w__opcode op op2 = runLeaf n (Gen.mov_w_route op) op op2 := rfl
theorem exec_of_mov_w (op : BitVec 16) (l : Gen.Leaf) (h : M (BitVec 8))
    (h1 : Gen.exec_route op = .mov_w__opcode) (h2 : Gen.mov_w_route op = l)
    (hl : leafHandler l op 0 = some h) : exec op = h := by
  show runLeaf (5 + 1) (Gen.exec_route op) op 0 = h
  rw [h1, runLeaf_mov_w, h2, runLeaf_some 4 l op 0 h hl]

theorem runLeaf_mov_l (n : Nat) (op op2 : BitVec 16) :
    runLeaf (n + 1) .mov_l__opcode op op2 = runLeaf n (Gen.mov_l_route op) op op2 := rfl
theorem exec_of_mov_l (op : BitVec 16) (l : Gen.Leaf) (h : M (BitVec 8))
    (h1 : Gen.exec_route op = .mov_l__opcode) (h2 : Gen.mov_l_route op = l)
    (hl : leafHandler l op 0 = some h) : exec op = h := by
  show runLeaf (5 + 1) (Gen.exec_route op) op 0 = h
  rw [h1, runLeaf_mov_l, h2, runLeaf_some 4 l op 0 h hl]

theorem runLeaf_add_b (n : Nat) (op op2 : BitVec 16) :
    runLeaf (n + 1) .add_b__opcode op op2 = runLeaf n (Gen.add_b_route op) op op2 := rfl
theorem exec_of_add_b (op : BitVec 16) (l : Gen.Leaf) (h : M (BitVec 8))
    (h1 : Gen.exec_route op = .add_b__opcode) (h2 : Gen.add_b_route op = l)
    (hl : leafHandler l op 0 = some h) : exec op = h := by
  show runLeaf (5 + 1) (Gen.exec_route op) op 0 = h
  rw [h1, runLeaf_add_b, h2, runLeaf_some 4 l op 0 h hl]

theorem runLeaf_add_w (n : Nat) (op op2 : BitVec 16) :
    runLeaf (n + 1) .add_w__opcode op op2 = runLeaf n (Gen.add_w_route op) op op2 := rfl
theorem exec_of_add_w (op : BitVec 16) (l : Gen.Leaf) (h : M (BitVec 8))
    (h1 : Gen.exec_route op = .add_w__opcode) (h2 : Gen.add_w_route op = l)
    (hl : leafHandler l op 0 = some h) : exec op = h := by
  show runLeaf (5 + 1) (Gen.exec_route op) op 0 = h
  rw [h1, runLeaf_add_w, h2, runLeaf_some 4 l op 0 h hl]

theorem runLeaf_add_l (n : Nat) (op op2 : BitVec 16) :
    runLeaf (n + 1) .add_l__opcode op op2 = runLeaf n (Gen.add_l_route op) op op2 := rfl
theorem exec_of_add_l (op : BitVec 16) (l : Gen.Leaf) (h : M (BitVec 8))
    (h1 : Gen.exec_route op = .add_l__opcode) (h2 : Gen.add_l_route op = l)
    (hl : leafHandler l op 0 = some h) : exec op = h := by
  show runLeaf (5 + 1) (Gen.exec_route op) op 0 = h
  rw [h1, runLeaf_add_l, h2, runLeaf_some 4 l op 0 h hl]

theorem runLeaf_sub_w (n : Nat) (op op2 : BitVec 16) :
    runLeaf (n + 1) .sub_w__opcode op op2 = runLeaf n (Gen.sub_w_route op) op op2 := rfl
theorem exec_of_sub_w (op : BitVec 16) (l : Gen.Leaf) (h : M (BitVec 8))
    (h1 : Gen.exec_route op = .sub_w__opcode) (h2 : Gen.sub_w_route op = l)
    (hl : leafHandler l op 0 = some h) : exec op = h := by
  show runLeaf (5 + 1) (Gen.exec_route op) op 0 = h
  rw [h1, runLeaf_sub_w, h2, runLeaf_some 4 l op 0 h hl]

theorem runLeaf_sub_l (n : Nat) (op op2 : BitVec 16) :
    runLeaf (n + 1) .sub_l__opcode op op2 = runLeaf n (Gen.sub_l_route op) op op2 := rfl
theorem exec_of_sub_l (op : BitVec 16) (l : Gen.Leaf) (h : M (BitVec 8))
    (h1 : Gen.exec_route op = .sub_l__opcode) (h2 : Gen.sub_l_route op = l)
    (hl : leafHandler l op 0 = some h) : exec op = h := by
  show runLeaf (5 + 1) (Gen.exec_route op) op 0 = h
  rw [h1, runLeaf_sub_l, h2, runLeaf_some 4 l op 0 h hl]

theorem runLeaf_bcc (n : Nat) (op op2 : BitVec 16) :
    runLeaf (n + 1) .bcc__opcode op op2 = runLeaf n (Gen.bcc_route op) op op2 := rfl
theorem exec_of_bcc (op : BitVec 16) (l : Gen.Leaf) (h : M (BitVec 8))
    (h1 : Gen.exec_route op = .bcc__opcode) (h2 : Gen.bcc_route op = l)
    (hl : leafHandler l op 0 = some h) : exec op = h := by
  show runLeaf (5 + 1) (Gen.exec_route op) op 0 = h
  rw [h1, runLeaf_bcc, h2, runLeaf_some 4 l op 0 h hl]

theorem runLeaf_jmp (n : Nat) (op op2 : BitVec 16) :
    runLeaf (n + 1) .jmp__opcode op op2 = runLeaf n (Gen.jmp_route op) op op2 := rfl
theorem exec_of_jmp (op : BitVec 16) (l : Gen.Leaf) (h : M (BitVec 8))
    (h1 : Gen.exec_route op = .jmp__opcode) (h2 : Gen.jmp_route op = l)
    (hl : leafHandler l op 0 = some h) : exec op = h := by
  show runLeaf (5 + 1) (Gen.exec_route op) op 0 = h
  rw [h1, runLeaf_jmp, h2, runLeaf_some 4 l op 0 h hl]

theorem runLeaf_jsr (n : Nat) (op op2 : BitVec 16) :
    runLeaf (n + 1) .jsr__opcode op op2 = runLeaf n (Gen.jsr_route op) op op2 := rfl
theorem exec_of_jsr (op : BitVec 16) (l : Gen.Leaf) (h : M (BitVec 8))
    (h1 : Gen.exec_route op = .jsr__opcode) (h2 : Gen.jsr_route op = l)
    (hl : leafHandler l op 0 = some h) : exec op = h := by
  show runLeaf (5 + 1) (Gen.exec_route op) op 0 = h
  rw [h1, runLeaf_jsr, h2, runLeaf_some 4 l op 0 h hl]

theorem exec_eq_MOV_B_RR (w0 : BitVec 16) (hp : Form.pat .MOV_B_RR w0 0 0 0 0 = true) : exec w0 = movRn .B w0 := by
  obtain ⟨h1, h2⟩ := C07R.route_MOV_B_RR w0 0 0 0 0 hp
  exact exec_of_mov_b w0 _ _ h1 h2 rfl

theorem MOV_B_RR_exec (w0 : BitVec 16) (st st' : Cpu) (c : BitVec 8) (i : Instr)
    (hp : Form.pat .MOV_B_RR w0 0 0 0 0 = true) (hi : instrOf .MOV_B_RR w0 0 0 0 0 = some i)
    (h : exec w0 st = .ok c st') :
    st' = { st with regs := (specRegCcr i st).1, ccr := (specRegCcr i st).2 } := by
  rw [exec_eq_MOV_B_RR w0 hp] at h
  exact C01.MOV_B_RR w0 st st' c i hi hp h

theorem exec_eq_MOV_W_RR (w0 : BitVec 16) (hp : Form.pat .MOV_W_RR w0 0 0 0 0 = true) : exec w0 = movRn .W w0 := by
  obtain ⟨h1, h2⟩ := C07R.route_MOV_W_RR w0 0 0 0 0 hp
  exact exec_of_mov_w w0 _ _ h1 h2 rfl

theorem MOV_W_RR_exec (w0 : BitVec 16) (st st' : Cpu) (c : BitVec 8) (i : Instr)
    (hp : Form.pat .MOV_W_RR w0 0 0 0 0 = true) (hi : instrOf .MOV_W_RR w0 0 0 0 0 = some i)
    (h : exec w0 st = .ok c st') :
    st' = { st with regs := (specRegCcr i st).1, ccr := (specRegCcr i st).2 } := by
  rw [exec_eq_MOV_W_RR w0 hp] at h
  exact C01.MOV_W_RR w0 st st' c i hi hp h

theorem exec_eq_MOV_L_RR (w0 : BitVec 16) (hp : Form.pat .MOV_L_RR w0 0 0 0 0 = true) : exec w0 = movRn .L w0 := by
  obtain ⟨h1, h2⟩ := C07R.route_MOV_L_RR w0 0 0 0 0 hp
  exact exec_of_mov_l w0 _ _ h1 h2 rfl

theorem MOV_L_RR_exec (w0 : BitVec 16) (st st' : Cpu) (c : BitVec 8) (i : Instr)
    (hp : Form.pat .MOV_L_RR w0 0 0 0 0 = true) (hi : instrOf .MOV_L_RR w0 0 0 0 0 = some i)
    (h : exec w0 st = .ok c st') :
    st' = { st with regs := (specRegCcr i st).1, ccr := (specRegCcr i st).2 } := by
  rw [exec_eq_MOV_L_RR w0 hp] at h
  exact C01.MOV_L_RR w0 st st' c i hi hp h

theorem exec_eq_MOV_B_IMM (w0 : BitVec 16) (hp : Form.pat .MOV_B_IMM w0 0 0 0 0 = true) : exec w0 = movImm .B w0 := by
  obtain ⟨h1, h2⟩ := C07R.route_MOV_B_IMM w0 0 0 0 0 hp
  exact exec_of_mov_b w0 _ _ h1 h2 rfl

theorem MOV_B_IMM_exec (w0 : BitVec 16) (st st' : Cpu) (c : BitVec 8) (i : Instr)
    (hp : Form.pat .MOV_B_IMM w0 0 0 0 0 = true) (hi : instrOf .MOV_B_IMM w0 0 0 0 0 = some i)
    (h : exec w0 st = .ok c st') :
    st' = { st with regs := (specRegCcr i st).1, ccr := (specRegCcr i st).2 } := by
  rw [exec_eq_MOV_B_IMM w0 hp] at h
  exact C01.MOV_B_IMM w0 st st' c i hi hp h

theorem exec_eq_ADD_B_RR (w0 : BitVec 16) (hp : Form.pat .ADD_B_RR w0 0 0 0 0 = true) : exec w0 = addBRn w0 := by
  obtain ⟨h1, h2⟩ := C07R.route_ADD_B_RR w0 0 0 0 0 hp
  exact exec_of_add_b w0 _ _ h1 h2 rfl

theorem ADD_B_RR_exec (w0 : BitVec 16) (st st' : Cpu) (c : BitVec 8) (i : Instr)
    (hp : Form.pat .ADD_B_RR w0 0 0 0 0 = true) (hi : instrOf .ADD_B_RR w0 0 0 0 0 = some i)
    (h : exec w0 st = .ok c st') :
    st' = { st with regs := (specRegCcr i st).1, ccr := (specRegCcr i st).2 } := by
  rw [exec_eq_ADD_B_RR w0 hp] at h
  exact C02.ADD_B_RR w0 st st' c i hi h

theorem exec_eq_ADD_W_RR (w0 : BitVec 16) (hp : Form.pat .ADD_W_RR w0 0 0 0 0 = true) : exec w0 = addWRn w0 := by
  obtain ⟨h1, h2⟩ := C07R.route_ADD_W_RR w0 0 0 0 0 hp
  exact exec_of_add_w w0 _ _ h1 h2 rfl

theorem ADD_W_RR_exec (w0 : BitVec 16) (st st' : Cpu) (c : BitVec 8) (i : Instr)
    (hp : Form.pat .ADD_W_RR w0 0 0 0 0 = true) (hi : instrOf .ADD_W_RR w0 0 0 0 0 = some i)
    (h : exec w0 st = .ok c st') :
    st' = { st with regs := (specRegCcr i st).1, ccr := (specRegCcr i st).2 } := by
  rw [exec_eq_ADD_W_RR w0 hp] at h
  exact C02.ADD_W_RR w0 st st' c i hi h

theorem exec_eq_SUB_B_RR (w0 : BitVec 16) (hp : Form.pat .SUB_B_RR w0 0 0 0 0 = true) : exec w0 = subB w0 := by
  exact exec_of_leaf w0 _ _ (C07R.route_SUB_B_RR w0 0 0 0 0 hp) rfl

theorem SUB_B_RR_exec (w0 : BitVec 16) (st st' : Cpu) (c : BitVec 8) (i : Instr)
    (hp : Form.pat .SUB_B_RR w0 0 0 0 0 = true) (hi : instrOf .SUB_B_RR w0 0 0 0 0 = some i)
    (h : exec w0 st = .ok c st') :
    st' = { st with regs := (specRegCcr i st).1, ccr := (specRegCcr i st).2 } := by
  rw [exec_eq_SUB_B_RR w0 hp] at h
  exact C02.SUB_B_RR w0 st st' c i hi h

theorem exec_eq_SUB_W_RR (w0 : BitVec 16) (hp : Form.pat .SUB_W_RR w0 0 0 0 0 = true) : exec w0 = subWRn w0 := by
  obtain ⟨h1, h2⟩ := C07R.route_SUB_W_RR w0 0 0 0 0 hp
  exact exec_of_sub_w w0 _ _ h1 h2 rfl

theorem SUB_W_RR_exec (w0 : BitVec 16) (st st' : Cpu) (c : BitVec 8) (i : Instr)
    (hp : Form.pat .SUB_W_RR w0 0 0 0 0 = true) (hi : instrOf .SUB_W_RR w0 0 0 0 0 = some i)
    (h : exec w0 st = .ok c st') :
    st' = { st with regs := (specRegCcr i st).1, ccr := (specRegCcr i st).2 } := by
  rw [exec_eq_SUB_W_RR w0 hp] at h
  exact C02.SUB_W_RR w0 st st' c i hi h

theorem exec_eq_CMP_B_RR (w0 : BitVec 16) (hp : Form.pat .CMP_B_RR w0 0 0 0 0 = true) : exec w0 = cmpBRn w0 := by
  exact exec_of_leaf w0 _ _ (C07R.route_CMP_B_RR w0 0 0 0 0 hp) rfl

theorem CMP_B_RR_exec (w0 : BitVec 16) (st st' : Cpu) (c : BitVec 8) (i : Instr)
    (hp : Form.pat .CMP_B_RR w0 0 0 0 0 = true) (hi : instrOf .CMP_B_RR w0 0 0 0 0 = some i)
    (h : exec w0 st = .ok c st') :
    st' = { st with regs := (specRegCcr i st).1, ccr := (specRegCcr i st).2 } := by
  rw [exec_eq_CMP_B_RR w0 hp] at h
  exact C02.CMP_B_RR w0 st st' c i hi h

theorem exec_eq_CMP_W_RR (w0 : BitVec 16) (hp : Form.pat .CMP_W_RR w0 0 0 0 0 = true) : exec w0 = cmpWRn w0 := by
  exact exec_of_leaf w0 _ _ (C07R.route_CMP_W_RR w0 0 0 0 0 hp) rfl

theorem CMP_W_RR_exec (w0 : BitVec 16) (st st' : Cpu) (c : BitVec 8) (i : Instr)
    (hp : Form.pat .CMP_W_RR w0 0 0 0 0 = true) (hi : instrOf .CMP_W_RR w0 0 0 0 0 = some i)
    (h : exec w0 st = .ok c st') :
    st' = { st with regs := (specRegCcr i st).1, ccr := (specRegCcr i st).2 } := by
  rw [exec_eq_CMP_W_RR w0 hp] at h
  exact C02.CMP_W_RR w0 st st' c i hi h

theorem exec_eq_ADDX_RR (w0 : BitVec 16) (hp : Form.pat .ADDX_RR w0 0 0 0 0 = true) : exec w0 = addxRn w0 := by
  exact exec_of_leaf w0 _ _ (C07R.route_ADDX_RR w0 0 0 0 0 hp) rfl

theorem ADDX_RR_exec (w0 : BitVec 16) (st st' : Cpu) (c : BitVec 8) (i : Instr)
    (hp : Form.pat .ADDX_RR w0 0 0 0 0 = true) (hi : instrOf .ADDX_RR w0 0 0 0 0 = some i)
    (h : exec w0 st = .ok c st') :
    st' = { st with regs := (specRegCcr i st).1, ccr := (specRegCcr i st).2 } := by
  rw [exec_eq_ADDX_RR w0 hp] at h
  exact C02.ADDX_RR w0 st st' c i hi h

theorem exec_eq_ADD_L_RR (w0 : BitVec 16) (hp : Form.pat .ADD_L_RR w0 0 0 0 0 = true) : exec w0 = addLRn w0 := by
  obtain ⟨h1, h2⟩ := C07R.route_ADD_L_RR w0 0 0 0 0 hp
  exact exec_of_add_l w0 _ _ h1 h2 rfl

theorem ADD_L_RR_exec (w0 : BitVec 16) (st st' : Cpu) (c : BitVec 8) (i : Instr)
    (hp : Form.pat .ADD_L_RR w0 0 0 0 0 = true) (hi : instrOf .ADD_L_RR w0 0 0 0 0 = some i)
    (h : exec w0 st = .ok c st') :
    st' = { st with regs := (specRegCcr i st).1, ccr := (specRegCcr i st).2 } := by
  rw [exec_eq_ADD_L_RR w0 hp] at h
  exact C02.ADD_L_RR w0 st st' c i hp hi h

theorem exec_eq_SUB_L_RR (w0 : BitVec 16) (hp : Form.pat .SUB_L_RR w0 0 0 0 0 = true) : exec w0 = subLRn w0 := by
  obtain ⟨h1, h2⟩ := C07R.route_SUB_L_RR w0 0 0 0 0 hp
  exact exec_of_sub_l w0 _ _ h1 h2 rfl

theorem SUB_L_RR_exec (w0 : BitVec 16) (st st' : Cpu) (c : BitVec 8) (i : Instr)
    (hp : Form.pat .SUB_L_RR w0 0 0 0 0 = true) (hi : instrOf .SUB_L_RR w0 0 0 0 0 = some i)
    (h : exec w0 st = .ok c st') :
    st' = { st with regs := (specRegCcr i st).1, ccr := (specRegCcr i st).2 } := by
  rw [exec_eq_SUB_L_RR w0 hp] at h
  exact C02.SUB_L_RR w0 st st' c i hp hi h

theorem exec_eq_CMP_L_RR (w0 : BitVec 16) (hp : Form.pat .CMP_L_RR w0 0 0 0 0 = true) : exec w0 = cmpLRn w0 := by
  exact exec_of_leaf w0 _ _ (C07R.route_CMP_L_RR w0 0 0 0 0 hp) rfl

theorem CMP_L_RR_exec (w0 : BitVec 16) (st st' : Cpu) (c : BitVec 8) (i : Instr)
    (hp : Form.pat .CMP_L_RR w0 0 0 0 0 = true) (hi : instrOf .CMP_L_RR w0 0 0 0 0 = some i)
    (h : exec w0 st = .ok c st') :
    st' = { st with regs := (specRegCcr i st).1, ccr := (specRegCcr i st).2 } := by
  rw [exec_eq_CMP_L_RR w0 hp] at h
  exact C02.CMP_L_RR w0 st st' c i hp hi h

theorem exec_eq_ADD_B_IMM (w0 : BitVec 16) (hp : Form.pat .ADD_B_IMM w0 0 0 0 0 = true) : exec w0 = addBImm w0 := by
  obtain ⟨h1, h2⟩ := C07R.route_ADD_B_IMM w0 0 0 0 0 hp
  exact exec_of_add_b w0 _ _ h1 h2 rfl

theorem ADD_B_IMM_exec (w0 : BitVec 16) (st st' : Cpu) (c : BitVec 8) (i : Instr)
    (hp : Form.pat .ADD_B_IMM w0 0 0 0 0 = true) (hi : instrOf .ADD_B_IMM w0 0 0 0 0 = some i)
    (h : exec w0 st = .ok c st') :
    st' = { st with regs := (specRegCcr i st).1, ccr := (specRegCcr i st).2 } := by
  rw [exec_eq_ADD_B_IMM w0 hp] at h
  exact C02.ADD_B_IMM w0 st st' c i hi h

theorem exec_eq_CMP_B_IMM (w0 : BitVec 16) (hp : Form.pat .CMP_B_IMM w0 0 0 0 0 = true) : exec w0 = cmpBImm w0 := by
  exact exec_of_leaf w0 _ _ (C07R.route_CMP_B_IMM w0 0 0 0 0 hp) rfl

theorem CMP_B_IMM_exec (w0 : BitVec 16) (st st' : Cpu) (c : BitVec 8) (i : Instr)
    (hp : Form.pat .CMP_B_IMM w0 0 0 0 0 = true) (hi : instrOf .CMP_B_IMM w0 0 0 0 0 = some i)
    (h : exec w0 st = .ok c st') :
    st' = { st with regs := (specRegCcr i st).1, ccr := (specRegCcr i st).2 } := by
  rw [exec_eq_CMP_B_IMM w0 hp] at h
  exact C02.CMP_B_IMM w0 st st' c i hi h

theorem exec_eq_ADDX_IMM (w0 : BitVec 16) (hp : Form.pat .ADDX_IMM w0 0 0 0 0 = true) : exec w0 = addxImm w0 := by
  exact exec_of_leaf w0 _ _ (C07R.route_ADDX_IMM w0 0 0 0 0 hp) rfl

theorem ADDX_IMM_exec (w0 : BitVec 16) (st st' : Cpu) (c : BitVec 8) (i : Instr)
    (hp : Form.pat .ADDX_IMM w0 0 0 0 0 = true) (hi : instrOf .ADDX_IMM w0 0 0 0 0 = some i)
    (h : exec w0 st = .ok c st') :
    st' = { st with regs := (specRegCcr i st).1, ccr := (specRegCcr i st).2 } := by
  rw [exec_eq_ADDX_IMM w0 hp] at h
  exact C02.ADDX_IMM w0 st st' c i hi h

theorem exec_eq_ADDS_1 (w0 : BitVec 16) (hp : Form.pat .ADDS_1 w0 0 0 0 0 = true) : exec w0 = addsSubs 1 w0 := by
  exact exec_of_leaf w0 _ _ (C07R.route_ADDS_1 w0 0 0 0 0 hp) rfl

theorem ADDS_1_exec (w0 : BitVec 16) (st st' : Cpu) (c : BitVec 8) (i : Instr)
    (hp : Form.pat .ADDS_1 w0 0 0 0 0 = true) (hi : instrOf .ADDS_1 w0 0 0 0 0 = some i)
    (h : exec w0 st = .ok c st') :
    st' = { st with regs := (specRegCcr i st).1, ccr := (specRegCcr i st).2 } := by
  rw [exec_eq_ADDS_1 w0 hp] at h
  exact C02.ADDS_1 w0 st st' c i hp hi h

theorem exec_eq_ADDS_2 (w0 : BitVec 16) (hp : Form.pat .ADDS_2 w0 0 0 0 0 = true) : exec w0 = addsSubs 2 w0 := by
  exact exec_of_leaf w0 _ _ (C07R.route_ADDS_2 w0 0 0 0 0 hp) rfl

theorem ADDS_2_exec (w0 : BitVec 16) (st st' : Cpu) (c : BitVec 8) (i : Instr)
    (hp : Form.pat .ADDS_2 w0 0 0 0 0 = true) (hi : instrOf .ADDS_2 w0 0 0 0 0 = some i)
    (h : exec w0 st = .ok c st') :
    st' = { st with regs := (specRegCcr i st).1, ccr := (specRegCcr i st).2 } := by
  rw [exec_eq_ADDS_2 w0 hp] at h
  exact C02.ADDS_2 w0 st st' c i hp hi h

theorem exec_eq_ADDS_4 (w0 : BitVec 16) (hp : Form.pat .ADDS_4 w0 0 0 0 0 = true) : exec w0 = addsSubs 4 w0 := by
  exact exec_of_leaf w0 _ _ (C07R.route_ADDS_4 w0 0 0 0 0 hp) rfl

theorem ADDS_4_exec (w0 : BitVec 16) (st st' : Cpu) (c : BitVec 8) (i : Instr)
    (hp : Form.pat .ADDS_4 w0 0 0 0 0 = true) (hi : instrOf .ADDS_4 w0 0 0 0 0 = some i)
    (h : exec w0 st = .ok c st') :
    st' = { st with regs := (specRegCcr i st).1, ccr := (specRegCcr i st).2 } := by
  rw [exec_eq_ADDS_4 w0 hp] at h
  exact C02.ADDS_4 w0 st st' c i hp hi h

theorem exec_eq_SUBS_1 (w0 : BitVec 16) (hp : Form.pat .SUBS_1 w0 0 0 0 0 = true) : exec w0 = addsSubs 0xffffffff w0 := by
  exact exec_of_leaf w0 _ _ (C07R.route_SUBS_1 w0 0 0 0 0 hp) rfl

theorem SUBS_1_exec (w0 : BitVec 16) (st st' : Cpu) (c : BitVec 8) (i : Instr)
    (hp : Form.pat .SUBS_1 w0 0 0 0 0 = true) (hi : instrOf .SUBS_1 w0 0 0 0 0 = some i)
    (h : exec w0 st = .ok c st') :
    st' = { st with regs := (specRegCcr i st).1, ccr := (specRegCcr i st).2 } := by
  rw [exec_eq_SUBS_1 w0 hp] at h
  exact C02.SUBS_1 w0 st st' c i hp hi h

theorem exec_eq_SUBS_2 (w0 : BitVec 16) (hp : Form.pat .SUBS_2 w0 0 0 0 0 = true) : exec w0 = addsSubs 0xfffffffe w0 := by
  exact exec_of_leaf w0 _ _ (C07R.route_SUBS_2 w0 0 0 0 0 hp) rfl

theorem SUBS_2_exec (w0 : BitVec 16) (st st' : Cpu) (c : BitVec 8) (i : Instr)
    (hp : Form.pat .SUBS_2 w0 0 0 0 0 = true) (hi : instrOf .SUBS_2 w0 0 0 0 0 = some i)
    (h : exec w0 st = .ok c st') :
    st' = { st with regs := (specRegCcr i st).1, ccr := (specRegCcr i st).2 } := by
  rw [exec_eq_SUBS_2 w0 hp] at h
  exact C02.SUBS_2 w0 st st' c i hp hi h

theorem exec_eq_SUBS_4 (w0 : BitVec 16) (hp : Form.pat .SUBS_4 w0 0 0 0 0 = true) : exec w0 = addsSubs 0xfffffffc w0 := by
  exact exec_of_leaf w0 _ _ (C07R.route_SUBS_4 w0 0 0 0 0 hp) rfl

theorem SUBS_4_exec (w0 : BitVec 16) (st st' : Cpu) (c : BitVec 8) (i : Instr)
    (hp : Form.pat .SUBS_4 w0 0 0 0 0 = true) (hi : instrOf .SUBS_4 w0 0 0 0 0 = some i)
    (h : exec w0 st = .ok c st') :
    st' = { st with regs := (specRegCcr i st).1, ccr := (specRegCcr i st).2 } := by
  rw [exec_eq_SUBS_4 w0 hp] at h
  exact C02.SUBS_4 w0 st st' c i hp hi h

theorem exec_eq_INC_B (w0 : BitVec 16) (hp : Form.pat .INC_B w0 0 0 0 0 = true) : exec w0 = inc .B 1 w0 := by
  exact exec_of_leaf w0 _ _ (C07R.route_INC_B w0 0 0 0 0 hp) rfl

theorem INC_B_exec (w0 : BitVec 16) (st st' : Cpu) (c : BitVec 8) (i : Instr)
    (hp : Form.pat .INC_B w0 0 0 0 0 = true) (hi : instrOf .INC_B w0 0 0 0 0 = some i)
    (h : exec w0 st = .ok c st') :
    st' = { st with regs := (specRegCcr i st).1, ccr := (specRegCcr i st).2 } := by
  rw [exec_eq_INC_B w0 hp] at h
  exact C02.INC_B w0 st st' c i hp hi h

theorem exec_eq_INC_W_1 (w0 : BitVec 16) (hp : Form.pat .INC_W_1 w0 0 0 0 0 = true) : exec w0 = inc .W 1 w0 := by
  exact exec_of_leaf w0 _ _ (C07R.route_INC_W_1 w0 0 0 0 0 hp) rfl

theorem INC_W_1_exec (w0 : BitVec 16) (st st' : Cpu) (c : BitVec 8) (i : Instr)
    (hp : Form.pat .INC_W_1 w0 0 0 0 0 = true) (hi : instrOf .INC_W_1 w0 0 0 0 0 = some i)
    (h : exec w0 st = .ok c st') :
    st' = { st with regs := (specRegCcr i st).1, ccr := (specRegCcr i st).2 } := by
  rw [exec_eq_INC_W_1 w0 hp] at h
  exact C02.INC_W_1 w0 st st' c i hp hi h

theorem exec_eq_INC_W_2 (w0 : BitVec 16) (hp : Form.pat .INC_W_2 w0 0 0 0 0 = true) : exec w0 = inc .W 2 w0 := by
  exact exec_of_leaf w0 _ _ (C07R.route_INC_W_2 w0 0 0 0 0 hp) rfl

theorem INC_W_2_exec (w0 : BitVec 16) (st st' : Cpu) (c : BitVec 8) (i : Instr)
    (hp : Form.pat .INC_W_2 w0 0 0 0 0 = true) (hi : instrOf .INC_W_2 w0 0 0 0 0 = some i)
    (h : exec w0 st = .ok c st') :
    st' = { st with regs := (specRegCcr i st).1, ccr := (specRegCcr i st).2 } := by
  rw [exec_eq_INC_W_2 w0 hp] at h
  exact C02.INC_W_2 w0 st st' c i hp hi h

theorem exec_eq_INC_L_1 (w0 : BitVec 16) (hp : Form.pat .INC_L_1 w0 0 0 0 0 = true) : exec w0 = inc .L 1 w0 := by
  exact exec_of_leaf w0 _ _ (C07R.route_INC_L_1 w0 0 0 0 0 hp) rfl

theorem INC_L_1_exec (w0 : BitVec 16) (st st' : Cpu) (c : BitVec 8) (i : Instr)
    (hp : Form.pat .INC_L_1 w0 0 0 0 0 = true) (hi : instrOf .INC_L_1 w0 0 0 0 0 = some i)
    (h : exec w0 st = .ok c st') :
    st' = { st with regs := (specRegCcr i st).1, ccr := (specRegCcr i st).2 } := by
  rw [exec_eq_INC_L_1 w0 hp] at h
  exact C02.INC_L_1 w0 st st' c i hp hi h

theorem exec_eq_INC_L_2 (w0 : BitVec 16) (hp : Form.pat .INC_L_2 w0 0 0 0 0 = true) : exec w0 = inc .L 2 w0 := by
  exact exec_of_leaf w0 _ _ (C07R.route_INC_L_2 w0 0 0 0 0 hp) rfl

theorem INC_L_2_exec (w0 : BitVec 16) (st st' : Cpu) (c : BitVec 8) (i : Instr)
    (hp : Form.pat .INC_L_2 w0 0 0 0 0 = true) (hi : instrOf .INC_L_2 w0 0 0 0 0 = some i)
    (h : exec w0 st = .ok c st') :
    st' = { st with regs := (specRegCcr i st).1, ccr := (specRegCcr i st).2 } := by
  rw [exec_eq_INC_L_2 w0 hp] at h
  exact C02.INC_L_2 w0 st st' c i hp hi h

theorem exec_eq_DEC_B (w0 : BitVec 16) (hp : Form.pat .DEC_B w0 0 0 0 0 = true) : exec w0 = dec .B 1 w0 := by
  exact exec_of_leaf w0 _ _ (C07R.route_DEC_B w0 0 0 0 0 hp) rfl

theorem DEC_B_exec (w0 : BitVec 16) (st st' : Cpu) (c : BitVec 8) (i : Instr)
    (hp : Form.pat .DEC_B w0 0 0 0 0 = true) (hi : instrOf .DEC_B w0 0 0 0 0 = some i)
    (h : exec w0 st = .ok c st') :
    st' = { st with regs := (specRegCcr i st).1, ccr := (specRegCcr i st).2 } := by
  rw [exec_eq_DEC_B w0 hp] at h
  exact C02.DEC_B w0 st st' c i hp hi h

theorem exec_eq_DEC_W_1 (w0 : BitVec 16) (hp : Form.pat .DEC_W_1 w0 0 0 0 0 = true) : exec w0 = dec .W 1 w0 := by
  exact exec_of_leaf w0 _ _ (C07R.route_DEC_W_1 w0 0 0 0 0 hp) rfl

theorem DEC_W_1_exec (w0 : BitVec 16) (st st' : Cpu) (c : BitVec 8) (i : Instr)
    (hp : Form.pat .DEC_W_1 w0 0 0 0 0 = true) (hi : instrOf .DEC_W_1 w0 0 0 0 0 = some i)
    (h : exec w0 st = .ok c st') :
    st' = { st with regs := (specRegCcr i st).1, ccr := (specRegCcr i st).2 } := by
  rw [exec_eq_DEC_W_1 w0 hp] at h
  exact C02.DEC_W_1 w0 st st' c i hp hi h

theorem exec_eq_DEC_W_2 (w0 : BitVec 16) (hp : Form.pat .DEC_W_2 w0 0 0 0 0 = true) : exec w0 = dec .W 2 w0 := by
  exact exec_of_leaf w0 _ _ (C07R.route_DEC_W_2 w0 0 0 0 0 hp) rfl

theorem DEC_W_2_exec (w0 : BitVec 16) (st st' : Cpu) (c : BitVec 8) (i : Instr)
    (hp : Form.pat .DEC_W_2 w0 0 0 0 0 = true) (hi : instrOf .DEC_W_2 w0 0 0 0 0 = some i)
    (h : exec w0 st = .ok c st') :
    st' = { st with regs := (specRegCcr i st).1, ccr := (specRegCcr i st).2 } := by
  rw [exec_eq_DEC_W_2 w0 hp] at h
  exact C02.DEC_W_2 w0 st st' c i hp hi h

theorem exec_eq_DEC_L_1 (w0 : BitVec 16) (hp : Form.pat .DEC_L_1 w0 0 0 0 0 = true) : exec w0 = dec .L 1 w0 := by
  exact exec_of_leaf w0 _ _ (C07R.route_DEC_L_1 w0 0 0 0 0 hp) rfl

theorem DEC_L_1_exec (w0 : BitVec 16) (st st' : Cpu) (c : BitVec 8) (i : Instr)
    (hp : Form.pat .DEC_L_1 w0 0 0 0 0 = true) (hi : instrOf .DEC_L_1 w0 0 0 0 0 = some i)
    (h : exec w0 st = .ok c st') :
    st' = { st with regs := (specRegCcr i st).1, ccr := (specRegCcr i st).2 } := by
  rw [exec_eq_DEC_L_1 w0 hp] at h
  exact C02.DEC_L_1 w0 st st' c i hp hi h

theorem exec_eq_DEC_L_2 (w0 : BitVec 16) (hp : Form.pat .DEC_L_2 w0 0 0 0 0 = true) : exec w0 = dec .L 2 w0 := by
  exact exec_of_leaf w0 _ _ (C07R.route_DEC_L_2 w0 0 0 0 0 hp) rfl

theorem DEC_L_2_exec (w0 : BitVec 16) (st st' : Cpu) (c : BitVec 8) (i : Instr)
    (hp : Form.pat .DEC_L_2 w0 0 0 0 0 = true) (hi : instrOf .DEC_L_2 w0 0 0 0 0 = some i)
    (h : exec w0 st = .ok c st') :
    st' = { st with regs := (specRegCcr i st).1, ccr := (specRegCcr i st).2 } := by
  rw [exec_eq_DEC_L_2 w0 hp] at h
  exact C02.DEC_L_2 w0 st st' c i hp hi h

theorem exec_eq_NEG_B (w0 : BitVec 16) (hp : Form.pat .NEG_B w0 0 0 0 0 = true) : exec w0 = unary .B negProc w0 := by
  exact exec_of_leaf w0 _ _ (C07R.route_NEG_B w0 0 0 0 0 hp) rfl

theorem NEG_B_exec (w0 : BitVec 16) (st st' : Cpu) (c : BitVec 8) (i : Instr)
    (hp : Form.pat .NEG_B w0 0 0 0 0 = true) (hi : instrOf .NEG_B w0 0 0 0 0 = some i)
    (h : exec w0 st = .ok c st') :
    st' = { st with regs := (specRegCcr i st).1, ccr := (specRegCcr i st).2 } := by
  rw [exec_eq_NEG_B w0 hp] at h
  exact C02.NEG_B w0 st st' c i hp hi h

theorem exec_eq_NEG_W (w0 : BitVec 16) (hp : Form.pat .NEG_W w0 0 0 0 0 = true) : exec w0 = unary .W negProc w0 := by
  exact exec_of_leaf w0 _ _ (C07R.route_NEG_W w0 0 0 0 0 hp) rfl

theorem NEG_W_exec (w0 : BitVec 16) (st st' : Cpu) (c : BitVec 8) (i : Instr)
    (hp : Form.pat .NEG_W w0 0 0 0 0 = true) (hi : instrOf .NEG_W w0 0 0 0 0 = some i)
    (h : exec w0 st = .ok c st') :
    st' = { st with regs := (specRegCcr i st).1, ccr := (specRegCcr i st).2 } := by
  rw [exec_eq_NEG_W w0 hp] at h
  exact C02.NEG_W w0 st st' c i hp hi h

theorem exec_eq_NEG_L (w0 : BitVec 16) (hp : Form.pat .NEG_L w0 0 0 0 0 = true) : exec w0 = unary .L negProc w0 := by
  exact exec_of_leaf w0 _ _ (C07R.route_NEG_L w0 0 0 0 0 hp) rfl

theorem NEG_L_exec (w0 : BitVec 16) (st st' : Cpu) (c : BitVec 8) (i : Instr)
    (hp : Form.pat .NEG_L w0 0 0 0 0 = true) (hi : instrOf .NEG_L w0 0 0 0 0 = some i)
    (h : exec w0 st = .ok c st') :
    st' = { st with regs := (specRegCcr i st).1, ccr := (specRegCcr i st).2 } := by
  rw [exec_eq_NEG_L w0 hp] at h
  exact C02.NEG_L w0 st st' c i hp hi h

theorem exec_eq_EXTU_W (w0 : BitVec 16) (hp : Form.pat .EXTU_W w0 0 0 0 0 = true) : exec w0 = extu .W w0 := by
  exact exec_of_leaf w0 _ _ (C07R.route_EXTU_W w0 0 0 0 0 hp) rfl

theorem EXTU_W_exec (w0 : BitVec 16) (st st' : Cpu) (c : BitVec 8) (i : Instr)
    (hp : Form.pat .EXTU_W w0 0 0 0 0 = true) (hi : instrOf .EXTU_W w0 0 0 0 0 = some i)
    (h : exec w0 st = .ok c st') :
    st' = { st with regs := (specRegCcr i st).1, ccr := (specRegCcr i st).2 } := by
  rw [exec_eq_EXTU_W w0 hp] at h
  exact C02.EXTU_W w0 st st' c i hp hi h

theorem exec_eq_EXTU_L (w0 : BitVec 16) (hp : Form.pat .EXTU_L w0 0 0 0 0 = true) : exec w0 = extu .L w0 := by
  exact exec_of_leaf w0 _ _ (C07R.route_EXTU_L w0 0 0 0 0 hp) rfl

theorem EXTU_L_exec (w0 : BitVec 16) (st st' : Cpu) (c : BitVec 8) (i : Instr)
    (hp : Form.pat .EXTU_L w0 0 0 0 0 = true) (hi : instrOf .EXTU_L w0 0 0 0 0 = some i)
    (h : exec w0 st = .ok c st') :
    st' = { st with regs := (specRegCcr i st).1, ccr := (specRegCcr i st).2 } := by
  rw [exec_eq_EXTU_L w0 hp] at h
  exact C02.EXTU_L w0 st st' c i hp hi h

theorem exec_eq_SHLL_B (w0 : BitVec 16) (hp : Form.pat .SHLL_B w0 0 0 0 0 = true) : exec w0 = shift .shll .B w0 := by
  exact exec_of_leaf w0 _ _ (C07R.route_SHLL_B w0 0 0 0 0 hp) rfl

theorem SHLL_B_exec (w0 : BitVec 16) (st st' : Cpu) (c : BitVec 8) (i : Instr)
    (hp : Form.pat .SHLL_B w0 0 0 0 0 = true) (hi : instrOf .SHLL_B w0 0 0 0 0 = some i)
    (h : exec w0 st = .ok c st') :
    st' = { st with regs := (specRegCcr i st).1, ccr := (specRegCcr i st).2 } := by
  rw [exec_eq_SHLL_B w0 hp] at h
  exact C03.SHLL_B w0 st st' c i hi hp h

theorem exec_eq_SHLL_W (w0 : BitVec 16) (hp : Form.pat .SHLL_W w0 0 0 0 0 = true) : exec w0 = shift .shll .W w0 := by
  exact exec_of_leaf w0 _ _ (C07R.route_SHLL_W w0 0 0 0 0 hp) rfl

theorem SHLL_W_exec (w0 : BitVec 16) (st st' : Cpu) (c : BitVec 8) (i : Instr)
    (hp : Form.pat .SHLL_W w0 0 0 0 0 = true) (hi : instrOf .SHLL_W w0 0 0 0 0 = some i)
    (h : exec w0 st = .ok c st') :
    st' = { st with regs := (specRegCcr i st).1, ccr := (specRegCcr i st).2 } := by
  rw [exec_eq_SHLL_W w0 hp] at h
  exact C03.SHLL_W w0 st st' c i hi hp h

theorem exec_eq_SHLL_L (w0 : BitVec 16) (hp : Form.pat .SHLL_L w0 0 0 0 0 = true) : exec w0 = shift .shll .L w0 := by
  exact exec_of_leaf w0 _ _ (C07R.route_SHLL_L w0 0 0 0 0 hp) rfl

theorem SHLL_L_exec (w0 : BitVec 16) (st st' : Cpu) (c : BitVec 8) (i : Instr)
    (hp : Form.pat .SHLL_L w0 0 0 0 0 = true) (hi : instrOf .SHLL_L w0 0 0 0 0 = some i)
    (h : exec w0 st = .ok c st') :
    st' = { st with regs := (specRegCcr i st).1, ccr := (specRegCcr i st).2 } := by
  rw [exec_eq_SHLL_L w0 hp] at h
  exact C03.SHLL_L w0 st st' c i hi hp h

theorem exec_eq_SHLR_B (w0 : BitVec 16) (hp : Form.pat .SHLR_B w0 0 0 0 0 = true) : exec w0 = shift .shlr .B w0 := by
  exact exec_of_leaf w0 _ _ (C07R.route_SHLR_B w0 0 0 0 0 hp) rfl

theorem SHLR_B_exec (w0 : BitVec 16) (st st' : Cpu) (c : BitVec 8) (i : Instr)
    (hp : Form.pat .SHLR_B w0 0 0 0 0 = true) (hi : instrOf .SHLR_B w0 0 0 0 0 = some i)
    (h : exec w0 st = .ok c st') :
    st' = { st with regs := (specRegCcr i st).1, ccr := (specRegCcr i st).2 } := by
  rw [exec_eq_SHLR_B w0 hp] at h
  exact C03.SHLR_B w0 st st' c i hi hp h

theorem exec_eq_SHLR_W (w0 : BitVec 16) (hp : Form.pat .SHLR_W w0 0 0 0 0 = true) : exec w0 = shift .shlr .W w0 := by
  exact exec_of_leaf w0 _ _ (C07R.route_SHLR_W w0 0 0 0 0 hp) rfl

theorem SHLR_W_exec (w0 : BitVec 16) (st st' : Cpu) (c : BitVec 8) (i : Instr)
    (hp : Form.pat .SHLR_W w0 0 0 0 0 = true) (hi : instrOf .SHLR_W w0 0 0 0 0 = some i)
    (h : exec w0 st = .ok c st') :
    st' = { st with regs := (specRegCcr i st).1, ccr := (specRegCcr i st).2 } := by
  rw [exec_eq_SHLR_W w0 hp] at h
  exact C03.SHLR_W w0 st st' c i hi hp h

theorem exec_eq_SHLR_L (w0 : BitVec 16) (hp : Form.pat .SHLR_L w0 0 0 0 0 = true) : exec w0 = shift .shlr .L w0 := by
  exact exec_of_leaf w0 _ _ (C07R.route_SHLR_L w0 0 0 0 0 hp) rfl

theorem SHLR_L_exec (w0 : BitVec 16) (st st' : Cpu) (c : BitVec 8) (i : Instr)
    (hp : Form.pat .SHLR_L w0 0 0 0 0 = true) (hi : instrOf .SHLR_L w0 0 0 0 0 = some i)
    (h : exec w0 st = .ok c st') :
    st' = { st with regs := (specRegCcr i st).1, ccr := (specRegCcr i st).2 } := by
  rw [exec_eq_SHLR_L w0 hp] at h
  exact C03.SHLR_L w0 st st' c i hi hp h

theorem exec_eq_SHAR_B (w0 : BitVec 16) (hp : Form.pat .SHAR_B w0 0 0 0 0 = true) : exec w0 = shift .shar .B w0 := by
  exact exec_of_leaf w0 _ _ (C07R.route_SHAR_B w0 0 0 0 0 hp) rfl

theorem SHAR_B_exec (w0 : BitVec 16) (st st' : Cpu) (c : BitVec 8) (i : Instr)
    (hp : Form.pat .SHAR_B w0 0 0 0 0 = true) (hi : instrOf .SHAR_B w0 0 0 0 0 = some i)
    (h : exec w0 st = .ok c st') :
    st' = { st with regs := (specRegCcr i st).1, ccr := (specRegCcr i st).2 } := by
  rw [exec_eq_SHAR_B w0 hp] at h
  exact C03.SHAR_B w0 st st' c i hi hp h

theorem exec_eq_SHAR_W (w0 : BitVec 16) (hp : Form.pat .SHAR_W w0 0 0 0 0 = true) : exec w0 = shift .shar .W w0 := by
  exact exec_of_leaf w0 _ _ (C07R.route_SHAR_W w0 0 0 0 0 hp) rfl

theorem SHAR_W_exec (w0 : BitVec 16) (st st' : Cpu) (c : BitVec 8) (i : Instr)
    (hp : Form.pat .SHAR_W w0 0 0 0 0 = true) (hi : instrOf .SHAR_W w0 0 0 0 0 = some i)
    (h : exec w0 st = .ok c st') :
    st' = { st with regs := (specRegCcr i st).1, ccr := (specRegCcr i st).2 } := by
  rw [exec_eq_SHAR_W w0 hp] at h
  exact C03.SHAR_W w0 st st' c i hi hp h

theorem exec_eq_SHAR_L (w0 : BitVec 16) (hp : Form.pat .SHAR_L w0 0 0 0 0 = true) : exec w0 = shift .shar .L w0 := by
  exact exec_of_leaf w0 _ _ (C07R.route_SHAR_L w0 0 0 0 0 hp) rfl

theorem SHAR_L_exec (w0 : BitVec 16) (st st' : Cpu) (c : BitVec 8) (i : Instr)
    (hp : Form.pat .SHAR_L w0 0 0 0 0 = true) (hi : instrOf .SHAR_L w0 0 0 0 0 = some i)
    (h : exec w0 st = .ok c st') :
    st' = { st with regs := (specRegCcr i st).1, ccr := (specRegCcr i st).2 } := by
  rw [exec_eq_SHAR_L w0 hp] at h
  exact C03.SHAR_L w0 st st' c i hi hp h

theorem exec_eq_ROTL_B (w0 : BitVec 16) (hp : Form.pat .ROTL_B w0 0 0 0 0 = true) : exec w0 = shift .rotl .B w0 := by
  exact exec_of_leaf w0 _ _ (C07R.route_ROTL_B w0 0 0 0 0 hp) rfl

theorem ROTL_B_exec (w0 : BitVec 16) (st st' : Cpu) (c : BitVec 8) (i : Instr)
    (hp : Form.pat .ROTL_B w0 0 0 0 0 = true) (hi : instrOf .ROTL_B w0 0 0 0 0 = some i)
    (h : exec w0 st = .ok c st') :
    st' = { st with regs := (specRegCcr i st).1, ccr := (specRegCcr i st).2 } := by
  rw [exec_eq_ROTL_B w0 hp] at h
  exact C03.ROTL_B w0 st st' c i hi hp h

theorem exec_eq_ROTL_W (w0 : BitVec 16) (hp : Form.pat .ROTL_W w0 0 0 0 0 = true) : exec w0 = shift .rotl .W w0 := by
  exact exec_of_leaf w0 _ _ (C07R.route_ROTL_W w0 0 0 0 0 hp) rfl

theorem ROTL_W_exec (w0 : BitVec 16) (st st' : Cpu) (c : BitVec 8) (i : Instr)
    (hp : Form.pat .ROTL_W w0 0 0 0 0 = true) (hi : instrOf .ROTL_W w0 0 0 0 0 = some i)
    (h : exec w0 st = .ok c st') :
    st' = { st with regs := (specRegCcr i st).1, ccr := (specRegCcr i st).2 } := by
  rw [exec_eq_ROTL_W w0 hp] at h
  exact C03.ROTL_W w0 st st' c i hi hp h

theorem exec_eq_ROTL_L (w0 : BitVec 16) (hp : Form.pat .ROTL_L w0 0 0 0 0 = true) : exec w0 = shift .rotl .L w0 := by
  exact exec_of_leaf w0 _ _ (C07R.route_ROTL_L w0 0 0 0 0 hp) rfl

theorem ROTL_L_exec (w0 : BitVec 16) (st st' : Cpu) (c : BitVec 8) (i : Instr)
    (hp : Form.pat .ROTL_L w0 0 0 0 0 = true) (hi : instrOf .ROTL_L w0 0 0 0 0 = some i)
    (h : exec w0 st = .ok c st') :
    st' = { st with regs := (specRegCcr i st).1, ccr := (specRegCcr i st).2 } := by
  rw [exec_eq_ROTL_L w0 hp] at h
  exact C03.ROTL_L w0 st st' c i hi hp h

theorem exec_eq_ROTR_B (w0 : BitVec 16) (hp : Form.pat .ROTR_B w0 0 0 0 0 = true) : exec w0 = shift .rotr .B w0 := by
  exact exec_of_leaf w0 _ _ (C07R.route_ROTR_B w0 0 0 0 0 hp) rfl

theorem ROTR_B_exec (w0 : BitVec 16) (st st' : Cpu) (c : BitVec 8) (i : Instr)
    (hp : Form.pat .ROTR_B w0 0 0 0 0 = true) (hi : instrOf .ROTR_B w0 0 0 0 0 = some i)
    (h : exec w0 st = .ok c st') :
    st' = { st with regs := (specRegCcr i st).1, ccr := (specRegCcr i st).2 } := by
  rw [exec_eq_ROTR_B w0 hp] at h
  exact C03.ROTR_B w0 st st' c i hi hp h

theorem exec_eq_ROTR_W (w0 : BitVec 16) (hp : Form.pat .ROTR_W w0 0 0 0 0 = true) : exec w0 = shift .rotr .W w0 := by
  exact exec_of_leaf w0 _ _ (C07R.route_ROTR_W w0 0 0 0 0 hp) rfl

theorem ROTR_W_exec (w0 : BitVec 16) (st st' : Cpu) (c : BitVec 8) (i : Instr)
    (hp : Form.pat .ROTR_W w0 0 0 0 0 = true) (hi : instrOf .ROTR_W w0 0 0 0 0 = some i)
    (h : exec w0 st = .ok c st') :
    st' = { st with regs := (specRegCcr i st).1, ccr := (specRegCcr i st).2 } := by
  rw [exec_eq_ROTR_W w0 hp] at h
  exact C03.ROTR_W w0 st st' c i hi hp h

theorem exec_eq_ROTR_L (w0 : BitVec 16) (hp : Form.pat .ROTR_L w0 0 0 0 0 = true) : exec w0 = shift .rotr .L w0 := by
  exact exec_of_leaf w0 _ _ (C07R.route_ROTR_L w0 0 0 0 0 hp) rfl

theorem ROTR_L_exec (w0 : BitVec 16) (st st' : Cpu) (c : BitVec 8) (i : Instr)
    (hp : Form.pat .ROTR_L w0 0 0 0 0 = true) (hi : instrOf .ROTR_L w0 0 0 0 0 = some i)
    (h : exec w0 st = .ok c st') :
    st' = { st with regs := (specRegCcr i st).1, ccr := (specRegCcr i st).2 } := by
  rw [exec_eq_ROTR_L w0 hp] at h
  exact C03.ROTR_L w0 st st' c i hi hp h

theorem exec_eq_ROTXL_B (w0 : BitVec 16) (hp : Form.pat .ROTXL_B w0 0 0 0 0 = true) : exec w0 = shift .rotxl .B w0 := by
  exact exec_of_leaf w0 _ _ (C07R.route_ROTXL_B w0 0 0 0 0 hp) rfl

theorem ROTXL_B_exec (w0 : BitVec 16) (st st' : Cpu) (c : BitVec 8) (i : Instr)
    (hp : Form.pat .ROTXL_B w0 0 0 0 0 = true) (hi : instrOf .ROTXL_B w0 0 0 0 0 = some i)
    (h : exec w0 st = .ok c st') :
    st' = { st with regs := (specRegCcr i st).1, ccr := (specRegCcr i st).2 } := by
  rw [exec_eq_ROTXL_B w0 hp] at h
  exact C03.ROTXL_B w0 st st' c i hi hp h

theorem exec_eq_ROTXL_W (w0 : BitVec 16) (hp : Form.pat .ROTXL_W w0 0 0 0 0 = true) : exec w0 = shift .rotxl .W w0 := by
  exact exec_of_leaf w0 _ _ (C07R.route_ROTXL_W w0 0 0 0 0 hp) rfl

theorem ROTXL_W_exec (w0 : BitVec 16) (st st' : Cpu) (c : BitVec 8) (i : Instr)
    (hp : Form.pat .ROTXL_W w0 0 0 0 0 = true) (hi : instrOf .ROTXL_W w0 0 0 0 0 = some i)
    (h : exec w0 st = .ok c st') :
    st' = { st with regs := (specRegCcr i st).1, ccr := (specRegCcr i st).2 } := by
  rw [exec_eq_ROTXL_W w0 hp] at h
  exact C03.ROTXL_W w0 st st' c i hi hp h

theorem exec_eq_ROTXL_L (w0 : BitVec 16) (hp : Form.pat .ROTXL_L w0 0 0 0 0 = true) : exec w0 = shift .rotxl .L w0 := by
  exact exec_of_leaf w0 _ _ (C07R.route_ROTXL_L w0 0 0 0 0 hp) rfl

theorem ROTXL_L_exec (w0 : BitVec 16) (st st' : Cpu) (c : BitVec 8) (i : Instr)
    (hp : Form.pat .ROTXL_L w0 0 0 0 0 = true) (hi : instrOf .ROTXL_L w0 0 0 0 0 = some i)
    (h : exec w0 st = .ok c st') :
    st' = { st with regs := (specRegCcr i st).1, ccr := (specRegCcr i st).2 } := by
  rw [exec_eq_ROTXL_L w0 hp] at h
  exact C03.ROTXL_L w0 st st' c i hi hp h

theorem exec_eq_ROTXR_B (w0 : BitVec 16) (hp : Form.pat .ROTXR_B w0 0 0 0 0 = true) : exec w0 = shift .rotxr .B w0 := by
  exact exec_of_leaf w0 _ _ (C07R.route_ROTXR_B w0 0 0 0 0 hp) rfl

theorem ROTXR_B_exec (w0 : BitVec 16) (st st' : Cpu) (c : BitVec 8) (i : Instr)
    (hp : Form.pat .ROTXR_B w0 0 0 0 0 = true) (hi : instrOf .ROTXR_B w0 0 0 0 0 = some i)
    (h : exec w0 st = .ok c st') :
    st' = { st with regs := (specRegCcr i st).1, ccr := (specRegCcr i st).2 } := by
  rw [exec_eq_ROTXR_B w0 hp] at h
  exact C03.ROTXR_B w0 st st' c i hi hp h

theorem exec_eq_ROTXR_W (w0 : BitVec 16) (hp : Form.pat .ROTXR_W w0 0 0 0 0 = true) : exec w0 = shift .rotxr .W w0 := by
  exact exec_of_leaf w0 _ _ (C07R.route_ROTXR_W w0 0 0 0 0 hp) rfl

theorem ROTXR_W_exec (w0 : BitVec 16) (st st' : Cpu) (c : BitVec 8) (i : Instr)
    (hp : Form.pat .ROTXR_W w0 0 0 0 0 = true) (hi : instrOf .ROTXR_W w0 0 0 0 0 = some i)
    (h : exec w0 st = .ok c st') :
    st' = { st with regs := (specRegCcr i st).1, ccr := (specRegCcr i st).2 } := by
  rw [exec_eq_ROTXR_W w0 hp] at h
  exact C03.ROTXR_W w0 st st' c i hi hp h

theorem exec_eq_ROTXR_L (w0 : BitVec 16) (hp : Form.pat .ROTXR_L w0 0 0 0 0 = true) : exec w0 = shift .rotxr .L w0 := by
  exact exec_of_leaf w0 _ _ (C07R.route_ROTXR_L w0 0 0 0 0 hp) rfl

theorem ROTXR_L_exec (w0 : BitVec 16) (st st' : Cpu) (c : BitVec 8) (i : Instr)
    (hp : Form.pat .ROTXR_L w0 0 0 0 0 = true) (hi : instrOf .ROTXR_L w0 0 0 0 0 = some i)
    (h : exec w0 st = .ok c st') :
    st' = { st with regs := (specRegCcr i st).1, ccr := (specRegCcr i st).2 } := by
  rw [exec_eq_ROTXR_L w0 hp] at h
  exact C03.ROTXR_L w0 st st' c i hi hp h

theorem exec_eq_NOT_B (w0 : BitVec 16) (hp : Form.pat .NOT_B w0 0 0 0 0 = true) : exec w0 = unary .B notProc w0 := by
  exact exec_of_leaf w0 _ _ (C07R.route_NOT_B w0 0 0 0 0 hp) rfl

theorem NOT_B_exec (w0 : BitVec 16) (st st' : Cpu) (c : BitVec 8) (i : Instr)
    (hp : Form.pat .NOT_B w0 0 0 0 0 = true) (hi : instrOf .NOT_B w0 0 0 0 0 = some i)
    (h : exec w0 st = .ok c st') :
    st' = { st with regs := (specRegCcr i st).1, ccr := (specRegCcr i st).2 } := by
  rw [exec_eq_NOT_B w0 hp] at h
  exact C03.NOT_B w0 st st' c i hp hi h

theorem exec_eq_NOT_W (w0 : BitVec 16) (hp : Form.pat .NOT_W w0 0 0 0 0 = true) : exec w0 = unary .W notProc w0 := by
  exact exec_of_leaf w0 _ _ (C07R.route_NOT_W w0 0 0 0 0 hp) rfl

theorem NOT_W_exec (w0 : BitVec 16) (st st' : Cpu) (c : BitVec 8) (i : Instr)
    (hp : Form.pat .NOT_W w0 0 0 0 0 = true) (hi : instrOf .NOT_W w0 0 0 0 0 = some i)
    (h : exec w0 st = .ok c st') :
    st' = { st with regs := (specRegCcr i st).1, ccr := (specRegCcr i st).2 } := by
  rw [exec_eq_NOT_W w0 hp] at h
  exact C03.NOT_W w0 st st' c i hp hi h

theorem exec_eq_NOT_L (w0 : BitVec 16) (hp : Form.pat .NOT_L w0 0 0 0 0 = true) : exec w0 = unary .L notProc w0 := by
  exact exec_of_leaf w0 _ _ (C07R.route_NOT_L w0 0 0 0 0 hp) rfl

theorem NOT_L_exec (w0 : BitVec 16) (st st' : Cpu) (c : BitVec 8) (i : Instr)
    (hp : Form.pat .NOT_L w0 0 0 0 0 = true) (hi : instrOf .NOT_L w0 0 0 0 0 = some i)
    (h : exec w0 st = .ok c st') :
    st' = { st with regs := (specRegCcr i st).1, ccr := (specRegCcr i st).2 } := by
  rw [exec_eq_NOT_L w0 hp] at h
  exact C03.NOT_L w0 st st' c i hp hi h

theorem exec_eq_AND_B_RR (w0 : BitVec 16) (hp : Form.pat .AND_B_RR w0 0 0 0 0 = true) : exec w0 = logicRn .and .B w0 1 := by
  exact exec_of_leaf w0 _ _ (C07R.route_AND_B_RR w0 0 0 0 0 hp) rfl

theorem AND_B_RR_exec (w0 : BitVec 16) (st st' : Cpu) (c : BitVec 8) (i : Instr)
    (hp : Form.pat .AND_B_RR w0 0 0 0 0 = true) (hi : instrOf .AND_B_RR w0 0 0 0 0 = some i)
    (h : exec w0 st = .ok c st') :
    st' = { st with regs := (specRegCcr i st).1, ccr := (specRegCcr i st).2 } := by
  rw [exec_eq_AND_B_RR w0 hp] at h
  exact C03.AND_B_RR w0 st st' c i hp hi h

theorem exec_eq_AND_W_RR (w0 : BitVec 16) (hp : Form.pat .AND_W_RR w0 0 0 0 0 = true) : exec w0 = logicRn .and .W w0 1 := by
  exact exec_of_leaf w0 _ _ (C07R.route_AND_W_RR w0 0 0 0 0 hp) rfl

theorem AND_W_RR_exec (w0 : BitVec 16) (st st' : Cpu) (c : BitVec 8) (i : Instr)
    (hp : Form.pat .AND_W_RR w0 0 0 0 0 = true) (hi : instrOf .AND_W_RR w0 0 0 0 0 = some i)
    (h : exec w0 st = .ok c st') :
    st' = { st with regs := (specRegCcr i st).1, ccr := (specRegCcr i st).2 } := by
  rw [exec_eq_AND_W_RR w0 hp] at h
  exact C03.AND_W_RR w0 st st' c i hp hi h

theorem exec_eq_AND_B_IMM (w0 : BitVec 16) (hp : Form.pat .AND_B_IMM w0 0 0 0 0 = true) : exec w0 = logicBImm .and w0 := by
  exact exec_of_leaf w0 _ _ (C07R.route_AND_B_IMM w0 0 0 0 0 hp) rfl

theorem AND_B_IMM_exec (w0 : BitVec 16) (st st' : Cpu) (c : BitVec 8) (i : Instr)
    (hp : Form.pat .AND_B_IMM w0 0 0 0 0 = true) (hi : instrOf .AND_B_IMM w0 0 0 0 0 = some i)
    (h : exec w0 st = .ok c st') :
    st' = { st with regs := (specRegCcr i st).1, ccr := (specRegCcr i st).2 } := by
  rw [exec_eq_AND_B_IMM w0 hp] at h
  exact C03.AND_B_IMM w0 st st' c i hp hi h

theorem exec_eq_OR_B_RR (w0 : BitVec 16) (hp : Form.pat .OR_B_RR w0 0 0 0 0 = true) : exec w0 = logicRn .or .B w0 1 := by
  exact exec_of_leaf w0 _ _ (C07R.route_OR_B_RR w0 0 0 0 0 hp) rfl

theorem OR_B_RR_exec (w0 : BitVec 16) (st st' : Cpu) (c : BitVec 8) (i : Instr)
    (hp : Form.pat .OR_B_RR w0 0 0 0 0 = true) (hi : instrOf .OR_B_RR w0 0 0 0 0 = some i)
    (h : exec w0 st = .ok c st') :
    st' = { st with regs := (specRegCcr i st).1, ccr := (specRegCcr i st).2 } := by
  rw [exec_eq_OR_B_RR w0 hp] at h
  exact C03.OR_B_RR w0 st st' c i hp hi h

theorem exec_eq_OR_W_RR (w0 : BitVec 16) (hp : Form.pat .OR_W_RR w0 0 0 0 0 = true) : exec w0 = logicRn .or .W w0 1 := by
  exact exec_of_leaf w0 _ _ (C07R.route_OR_W_RR w0 0 0 0 0 hp) rfl

theorem OR_W_RR_exec (w0 : BitVec 16) (st st' : Cpu) (c : BitVec 8) (i : Instr)
    (hp : Form.pat .OR_W_RR w0 0 0 0 0 = true) (hi : instrOf .OR_W_RR w0 0 0 0 0 = some i)
    (h : exec w0 st = .ok c st') :
    st' = { st with regs := (specRegCcr i st).1, ccr := (specRegCcr i st).2 } := by
  rw [exec_eq_OR_W_RR w0 hp] at h
  exact C03.OR_W_RR w0 st st' c i hp hi h

theorem exec_eq_OR_B_IMM (w0 : BitVec 16) (hp : Form.pat .OR_B_IMM w0 0 0 0 0 = true) : exec w0 = logicBImm .or w0 := by
  exact exec_of_leaf w0 _ _ (C07R.route_OR_B_IMM w0 0 0 0 0 hp) rfl

theorem OR_B_IMM_exec (w0 : BitVec 16) (st st' : Cpu) (c : BitVec 8) (i : Instr)
    (hp : Form.pat .OR_B_IMM w0 0 0 0 0 = true) (hi : instrOf .OR_B_IMM w0 0 0 0 0 = some i)
    (h : exec w0 st = .ok c st') :
    st' = { st with regs := (specRegCcr i st).1, ccr := (specRegCcr i st).2 } := by
  rw [exec_eq_OR_B_IMM w0 hp] at h
  exact C03.OR_B_IMM w0 st st' c i hp hi h

theorem exec_eq_XOR_B_RR (w0 : BitVec 16) (hp : Form.pat .XOR_B_RR w0 0 0 0 0 = true) : exec w0 = logicRn .xor .B w0 1 := by
  exact exec_of_leaf w0 _ _ (C07R.route_XOR_B_RR w0 0 0 0 0 hp) rfl

theorem XOR_B_RR_exec (w0 : BitVec 16) (st st' : Cpu) (c : BitVec 8) (i : Instr)
    (hp : Form.pat .XOR_B_RR w0 0 0 0 0 = true) (hi : instrOf .XOR_B_RR w0 0 0 0 0 = some i)
    (h : exec w0 st = .ok c st') :
    st' = { st with regs := (specRegCcr i st).1, ccr := (specRegCcr i st).2 } := by
  rw [exec_eq_XOR_B_RR w0 hp] at h
  exact C03.XOR_B_RR w0 st st' c i hp hi h

theorem exec_eq_XOR_W_RR (w0 : BitVec 16) (hp : Form.pat .XOR_W_RR w0 0 0 0 0 = true) : exec w0 = logicRn .xor .W w0 1 := by
  exact exec_of_leaf w0 _ _ (C07R.route_XOR_W_RR w0 0 0 0 0 hp) rfl

theorem XOR_W_RR_exec (w0 : BitVec 16) (st st' : Cpu) (c : BitVec 8) (i : Instr)
    (hp : Form.pat .XOR_W_RR w0 0 0 0 0 = true) (hi : instrOf .XOR_W_RR w0 0 0 0 0 = some i)
    (h : exec w0 st = .ok c st') :
    st' = { st with regs := (specRegCcr i st).1, ccr := (specRegCcr i st).2 } := by
  rw [exec_eq_XOR_W_RR w0 hp] at h
  exact C03.XOR_W_RR w0 st st' c i hp hi h

theorem exec_eq_XOR_B_IMM (w0 : BitVec 16) (hp : Form.pat .XOR_B_IMM w0 0 0 0 0 = true) : exec w0 = logicBImm .xor w0 := by
  exact exec_of_leaf w0 _ _ (C07R.route_XOR_B_IMM w0 0 0 0 0 hp) rfl

theorem XOR_B_IMM_exec (w0 : BitVec 16) (st st' : Cpu) (c : BitVec 8) (i : Instr)
    (hp : Form.pat .XOR_B_IMM w0 0 0 0 0 = true) (hi : instrOf .XOR_B_IMM w0 0 0 0 0 = some i)
    (h : exec w0 st = .ok c st') :
    st' = { st with regs := (specRegCcr i st).1, ccr := (specRegCcr i st).2 } := by
  rw [exec_eq_XOR_B_IMM w0 hp] at h
  exact C03.XOR_B_IMM w0 st st' c i hp hi h

theorem exec_eq_BSET_RR (w0 : BitVec 16) (hp : Form.pat .BSET_RR w0 0 0 0 0 = true) : exec w0 = bmodRnRn .set w0 := by
  exact exec_of_leaf w0 _ _ (C07R.route_BSET_RR w0 0 0 0 0 hp) rfl

theorem BSET_RR_exec (w0 : BitVec 16) (st st' : Cpu) (c : BitVec 8) (i : Instr)
    (hp : Form.pat .BSET_RR w0 0 0 0 0 = true) (hi : instrOf .BSET_RR w0 0 0 0 0 = some i)
    (h : exec w0 st = .ok c st') :
    st' = { st with regs := (specRegCcr i st).1, ccr := (specRegCcr i st).2 } := by
  rw [exec_eq_BSET_RR w0 hp] at h
  exact C04H.BSET_RR w0 st st' c i hp hi h

theorem exec_eq_BNOT_RR (w0 : BitVec 16) (hp : Form.pat .BNOT_RR w0 0 0 0 0 = true) : exec w0 = bmodRnRn .not_ w0 := by
  exact exec_of_leaf w0 _ _ (C07R.route_BNOT_RR w0 0 0 0 0 hp) rfl

theorem BNOT_RR_exec (w0 : BitVec 16) (st st' : Cpu) (c : BitVec 8) (i : Instr)
    (hp : Form.pat .BNOT_RR w0 0 0 0 0 = true) (hi : instrOf .BNOT_RR w0 0 0 0 0 = some i)
    (h : exec w0 st = .ok c st') :
    st' = { st with regs := (specRegCcr i st).1, ccr := (specRegCcr i st).2 } := by
  rw [exec_eq_BNOT_RR w0 hp] at h
  exact C04H.BNOT_RR w0 st st' c i hp hi h

theorem exec_eq_BCLR_RR (w0 : BitVec 16) (hp : Form.pat .BCLR_RR w0 0 0 0 0 = true) : exec w0 = bmodRnRn .clr w0 := by
  exact exec_of_leaf w0 _ _ (C07R.route_BCLR_RR w0 0 0 0 0 hp) rfl

theorem BCLR_RR_exec (w0 : BitVec 16) (st st' : Cpu) (c : BitVec 8) (i : Instr)
    (hp : Form.pat .BCLR_RR w0 0 0 0 0 = true) (hi : instrOf .BCLR_RR w0 0 0 0 0 = some i)
    (h : exec w0 st = .ok c st') :
    st' = { st with regs := (specRegCcr i st).1, ccr := (specRegCcr i st).2 } := by
  rw [exec_eq_BCLR_RR w0 hp] at h
  exact C04H.BCLR_RR w0 st st' c i hp hi h

theorem exec_eq_BTST_RR (w0 : BitVec 16) (hp : Form.pat .BTST_RR w0 0 0 0 0 = true) : exec w0 = btstRnRn w0 := by
  exact exec_of_leaf w0 _ _ (C07R.route_BTST_RR w0 0 0 0 0 hp) rfl

theorem BTST_RR_exec (w0 : BitVec 16) (st st' : Cpu) (c : BitVec 8) (i : Instr)
    (hp : Form.pat .BTST_RR w0 0 0 0 0 = true) (hi : instrOf .BTST_RR w0 0 0 0 0 = some i)
    (h : exec w0 st = .ok c st') :
    st' = { st with regs := (specRegCcr i st).1, ccr := (specRegCcr i st).2 } := by
  rw [exec_eq_BTST_RR w0 hp] at h
  exact C04H.BTST_RR w0 st st' c i hp hi h

theorem exec_eq_BST_R (w0 : BitVec 16) (hp : Form.pat .BST_R w0 0 0 0 0 = true) : exec w0 = bstRn false w0 := by
  exact exec_of_leaf w0 _ _ (C07R.route_BST_R w0 0 0 0 0 hp) rfl

theorem BST_R_exec (w0 : BitVec 16) (st st' : Cpu) (c : BitVec 8) (i : Instr)
    (hp : Form.pat .BST_R w0 0 0 0 0 = true) (hi : instrOf .BST_R w0 0 0 0 0 = some i)
    (h : exec w0 st = .ok c st') :
    st' = { st with regs := (specRegCcr i st).1, ccr := (specRegCcr i st).2 } := by
  rw [exec_eq_BST_R w0 hp] at h
  exact C04H.BST_R w0 st st' c i hp hi h

theorem exec_eq_BIST_R (w0 : BitVec 16) (hp : Form.pat .BIST_R w0 0 0 0 0 = true) : exec w0 = bstRn true w0 := by
  exact exec_of_leaf w0 _ _ (C07R.route_BIST_R w0 0 0 0 0 hp) rfl

theorem BIST_R_exec (w0 : BitVec 16) (st st' : Cpu) (c : BitVec 8) (i : Instr)
    (hp : Form.pat .BIST_R w0 0 0 0 0 = true) (hi : instrOf .BIST_R w0 0 0 0 0 = some i)
    (h : exec w0 st = .ok c st') :
    st' = { st with regs := (specRegCcr i st).1, ccr := (specRegCcr i st).2 } := by
  rw [exec_eq_BIST_R w0 hp] at h
  exact C04H.BIST_R w0 st st' c i hp hi h

theorem exec_eq_BSET_I (w0 : BitVec 16) (hp : Form.pat .BSET_I w0 0 0 0 0 = true) : exec w0 = bmodRnImm .set w0 := by
  exact exec_of_leaf w0 _ _ (C07R.route_BSET_I w0 0 0 0 0 hp) rfl

theorem BSET_I_exec (w0 : BitVec 16) (st st' : Cpu) (c : BitVec 8) (i : Instr)
    (hp : Form.pat .BSET_I w0 0 0 0 0 = true) (hi : instrOf .BSET_I w0 0 0 0 0 = some i)
    (h : exec w0 st = .ok c st') :
    st' = { st with regs := (specRegCcr i st).1, ccr := (specRegCcr i st).2 } := by
  rw [exec_eq_BSET_I w0 hp] at h
  exact C04H.BSET_I w0 st st' c i hp hi h

theorem exec_eq_BNOT_I (w0 : BitVec 16) (hp : Form.pat .BNOT_I w0 0 0 0 0 = true) : exec w0 = bmodRnImm .not_ w0 := by
  exact exec_of_leaf w0 _ _ (C07R.route_BNOT_I w0 0 0 0 0 hp) rfl

theorem BNOT_I_exec (w0 : BitVec 16) (st st' : Cpu) (c : BitVec 8) (i : Instr)
    (hp : Form.pat .BNOT_I w0 0 0 0 0 = true) (hi : instrOf .BNOT_I w0 0 0 0 0 = some i)
    (h : exec w0 st = .ok c st') :
    st' = { st with regs := (specRegCcr i st).1, ccr := (specRegCcr i st).2 } := by
  rw [exec_eq_BNOT_I w0 hp] at h
  exact C04H.BNOT_I w0 st st' c i hp hi h

theorem exec_eq_BCLR_I (w0 : BitVec 16) (hp : Form.pat .BCLR_I w0 0 0 0 0 = true) : exec w0 = bmodRnImm .clr w0 := by
  exact exec_of_leaf w0 _ _ (C07R.route_BCLR_I w0 0 0 0 0 hp) rfl

theorem BCLR_I_exec (w0 : BitVec 16) (st st' : Cpu) (c : BitVec 8) (i : Instr)
    (hp : Form.pat .BCLR_I w0 0 0 0 0 = true) (hi : instrOf .BCLR_I w0 0 0 0 0 = some i)
    (h : exec w0 st = .ok c st') :
    st' = { st with regs := (specRegCcr i st).1, ccr := (specRegCcr i st).2 } := by
  rw [exec_eq_BCLR_I w0 hp] at h
  exact C04H.BCLR_I w0 st st' c i hp hi h

theorem exec_eq_BTST_I (w0 : BitVec 16) (hp : Form.pat .BTST_I w0 0 0 0 0 = true) : exec w0 = btstImmRn w0 := by
  exact exec_of_leaf w0 _ _ (C07R.route_BTST_I w0 0 0 0 0 hp) rfl

theorem BTST_I_exec (w0 : BitVec 16) (st st' : Cpu) (c : BitVec 8) (i : Instr)
    (hp : Form.pat .BTST_I w0 0 0 0 0 = true) (hi : instrOf .BTST_I w0 0 0 0 0 = some i)
    (h : exec w0 st = .ok c st') :
    st' = { st with regs := (specRegCcr i st).1, ccr := (specRegCcr i st).2 } := by
  rw [exec_eq_BTST_I w0 hp] at h
  exact C04H.BTST_I w0 st st' c i hp hi h

theorem exec_eq_BOR_R (w0 : BitVec 16) (hp : Form.pat .BOR_R w0 0 0 0 0 = true) : exec w0 = baccRn .or w0 := by
  exact exec_of_leaf w0 _ _ (C07R.route_BOR_R w0 0 0 0 0 hp) rfl

theorem BOR_R_exec (w0 : BitVec 16) (st st' : Cpu) (c : BitVec 8) (i : Instr)
    (hp : Form.pat .BOR_R w0 0 0 0 0 = true) (hi : instrOf .BOR_R w0 0 0 0 0 = some i)
    (h : exec w0 st = .ok c st') :
    st' = { st with regs := (specRegCcr i st).1, ccr := (specRegCcr i st).2 } := by
  rw [exec_eq_BOR_R w0 hp] at h
  exact C04H.BOR_R w0 st st' c i hp hi h

theorem exec_eq_BIOR_R (w0 : BitVec 16) (hp : Form.pat .BIOR_R w0 0 0 0 0 = true) : exec w0 = baccRn .ior w0 := by
  exact exec_of_leaf w0 _ _ (C07R.route_BIOR_R w0 0 0 0 0 hp) rfl

theorem BIOR_R_exec (w0 : BitVec 16) (st st' : Cpu) (c : BitVec 8) (i : Instr)
    (hp : Form.pat .BIOR_R w0 0 0 0 0 = true) (hi : instrOf .BIOR_R w0 0 0 0 0 = some i)
    (h : exec w0 st = .ok c st') :
    st' = { st with regs := (specRegCcr i st).1, ccr := (specRegCcr i st).2 } := by
  rw [exec_eq_BIOR_R w0 hp] at h
  exact C04H.BIOR_R w0 st st' c i hp hi h

theorem exec_eq_BXOR_R (w0 : BitVec 16) (hp : Form.pat .BXOR_R w0 0 0 0 0 = true) : exec w0 = baccRn .xor w0 := by
  exact exec_of_leaf w0 _ _ (C07R.route_BXOR_R w0 0 0 0 0 hp) rfl

theorem BXOR_R_exec (w0 : BitVec 16) (st st' : Cpu) (c : BitVec 8) (i : Instr)
    (hp : Form.pat .BXOR_R w0 0 0 0 0 = true) (hi : instrOf .BXOR_R w0 0 0 0 0 = some i)
    (h : exec w0 st = .ok c st') :
    st' = { st with regs := (specRegCcr i st).1, ccr := (specRegCcr i st).2 } := by
  rw [exec_eq_BXOR_R w0 hp] at h
  exact C04H.BXOR_R w0 st st' c i hp hi h

theorem exec_eq_BIXOR_R (w0 : BitVec 16) (hp : Form.pat .BIXOR_R w0 0 0 0 0 = true) : exec w0 = baccRn .ixor w0 := by
  exact exec_of_leaf w0 _ _ (C07R.route_BIXOR_R w0 0 0 0 0 hp) rfl

theorem BIXOR_R_exec (w0 : BitVec 16) (st st' : Cpu) (c : BitVec 8) (i : Instr)
    (hp : Form.pat .BIXOR_R w0 0 0 0 0 = true) (hi : instrOf .BIXOR_R w0 0 0 0 0 = some i)
    (h : exec w0 st = .ok c st') :
    st' = { st with regs := (specRegCcr i st).1, ccr := (specRegCcr i st).2 } := by
  rw [exec_eq_BIXOR_R w0 hp] at h
  exact C04H.BIXOR_R w0 st st' c i hp hi h

theorem exec_eq_BAND_R (w0 : BitVec 16) (hp : Form.pat .BAND_R w0 0 0 0 0 = true) : exec w0 = baccRn .and w0 := by
  exact exec_of_leaf w0 _ _ (C07R.route_BAND_R w0 0 0 0 0 hp) rfl

theorem BAND_R_exec (w0 : BitVec 16) (st st' : Cpu) (c : BitVec 8) (i : Instr)
    (hp : Form.pat .BAND_R w0 0 0 0 0 = true) (hi : instrOf .BAND_R w0 0 0 0 0 = some i)
    (h : exec w0 st = .ok c st') :
    st' = { st with regs := (specRegCcr i st).1, ccr := (specRegCcr i st).2 } := by
  rw [exec_eq_BAND_R w0 hp] at h
  exact C04H.BAND_R w0 st st' c i hp hi h

theorem exec_eq_BIAND_R (w0 : BitVec 16) (hp : Form.pat .BIAND_R w0 0 0 0 0 = true) : exec w0 = baccRn .iand w0 := by
  exact exec_of_leaf w0 _ _ (C07R.route_BIAND_R w0 0 0 0 0 hp) rfl

theorem BIAND_R_exec (w0 : BitVec 16) (st st' : Cpu) (c : BitVec 8) (i : Instr)
    (hp : Form.pat .BIAND_R w0 0 0 0 0 = true) (hi : instrOf .BIAND_R w0 0 0 0 0 = some i)
    (h : exec w0 st = .ok c st') :
    st' = { st with regs := (specRegCcr i st).1, ccr := (specRegCcr i st).2 } := by
  rw [exec_eq_BIAND_R w0 hp] at h
  exact C04H.BIAND_R w0 st st' c i hp hi h

theorem exec_eq_BLD_R (w0 : BitVec 16) (hp : Form.pat .BLD_R w0 0 0 0 0 = true) : exec w0 = baccRn .ld w0 := by
  exact exec_of_leaf w0 _ _ (C07R.route_BLD_R w0 0 0 0 0 hp) rfl

theorem BLD_R_exec (w0 : BitVec 16) (st st' : Cpu) (c : BitVec 8) (i : Instr)
    (hp : Form.pat .BLD_R w0 0 0 0 0 = true) (hi : instrOf .BLD_R w0 0 0 0 0 = some i)
    (h : exec w0 st = .ok c st') :
    st' = { st with regs := (specRegCcr i st).1, ccr := (specRegCcr i st).2 } := by
  rw [exec_eq_BLD_R w0 hp] at h
  exact C04H.BLD_R w0 st st' c i hp hi h

theorem exec_eq_BILD_R (w0 : BitVec 16) (hp : Form.pat .BILD_R w0 0 0 0 0 = true) : exec w0 = baccRn .ild w0 := by
  exact exec_of_leaf w0 _ _ (C07R.route_BILD_R w0 0 0 0 0 hp) rfl

theorem BILD_R_exec (w0 : BitVec 16) (st st' : Cpu) (c : BitVec 8) (i : Instr)
    (hp : Form.pat .BILD_R w0 0 0 0 0 = true) (hi : instrOf .BILD_R w0 0 0 0 0 = some i)
    (h : exec w0 st = .ok c st') :
    st' = { st with regs := (specRegCcr i st).1, ccr := (specRegCcr i st).2 } := by
  rw [exec_eq_BILD_R w0 hp] at h
  exact C04H.BILD_R w0 st st' c i hp hi h

/-! ### one whole instruction step: fetch, then exec -/

theorem fetch_state (st s1 : Cpu) (op : BitVec 16) (hf : fetch st = .ok op s1) :
    s1 = { st with opc := st.pc &&& ~~~1#32, pc := st.pc + 2 } := by
  unfold fetch at hf
  simp only at hf
  split at hf
  · simp only [Res.ok.injEq] at hf; exact hf.2.symm
  · simp at hf

theorem step_eq (st s1 : Cpu) (op : BitVec 16) (hf : fetch st = .ok op s1) : step st = exec op s1 := by
  simp only [step, bind_ok, hf]

/-- MOV_B_RR: one step consumes exactly the one instruction word (PC + 2) and leaves the Spec's registers and CCR -/
theorem MOV_B_RR_step (st s1 st' : Cpu) (w0 : BitVec 16) (c : BitVec 8) (i : Instr)
    (hf : fetch st = .ok w0 s1) (hp : Form.pat .MOV_B_RR w0 0 0 0 0 = true) (hi : instrOf .MOV_B_RR w0 0 0 0 0 = some i)
    (h : step st = .ok c st') :
    st' = { st with regs := (specRegCcr i s1).1, ccr := (specRegCcr i s1).2, opc := st.pc &&& ~~~1#32, pc := st.pc + 2 } := by
  rw [step_eq st s1 w0 hf] at h
  rw [MOV_B_RR_exec w0 s1 st' c i hp hi h, fetch_state st s1 w0 hf]

/-- MOV_W_RR: one step consumes exactly the one instruction word (PC + 2) and leaves the Spec's registers and CCR -/
theorem MOV_W_RR_step (st s1 st' : Cpu) (w0 : BitVec 16) (c : BitVec 8) (i : Instr)
    (hf : fetch st = .ok w0 s1) (hp : Form.pat .MOV_W_RR w0 0 0 0 0 = true) (hi : instrOf .MOV_W_RR w0 0 0 0 0 = some i)
    (h : step st = .ok c st') :
    st' = { st with regs := (specRegCcr i s1).1, ccr := (specRegCcr i s1).2, opc := st.pc &&& ~~~1#32, pc := st.pc + 2 } := by
  rw [step_eq st s1 w0 hf] at h
  rw [MOV_W_RR_exec w0 s1 st' c i hp hi h, fetch_state st s1 w0 hf]

/-- MOV_L_RR: one step consumes exactly the one instruction word (PC + 2) and leaves the Spec's registers and CCR -/
theorem MOV_L_RR_step (st s1 st' : Cpu) (w0 : BitVec 16) (c : BitVec 8) (i : Instr)
    (hf : fetch st = .ok w0 s1) (hp : Form.pat .MOV_L_RR w0 0 0 0 0 = true) (hi : instrOf .MOV_L_RR w0 0 0 0 0 = some i)
    (h : step st = .ok c st') :
    st' = { st with regs := (specRegCcr i s1).1, ccr := (specRegCcr i s1).2, opc := st.pc &&& ~~~1#32, pc := st.pc + 2 } := by
  rw [step_eq st s1 w0 hf] at h
  rw [MOV_L_RR_exec w0 s1 st' c i hp hi h, fetch_state st s1 w0 hf]

/-- MOV_B_IMM: one step consumes exactly the one instruction word (PC + 2) and leaves the Spec's registers and CCR -/
theorem MOV_B_IMM_step (st s1 st' : Cpu) (w0 : BitVec 16) (c : BitVec 8) (i : Instr)
    (hf : fetch st = .ok w0 s1) (hp : Form.pat .MOV_B_IMM w0 0 0 0 0 = true) (hi : instrOf .MOV_B_IMM w0 0 0 0 0 = some i)
    (h : step st = .ok c st') :
    st' = { st with regs := (specRegCcr i s1).1, ccr := (specRegCcr i s1).2, opc := st.pc &&& ~~~1#32, pc := st.pc + 2 } := by
  rw [step_eq st s1 w0 hf] at h
  rw [MOV_B_IMM_exec w0 s1 st' c i hp hi h, fetch_state st s1 w0 hf]

/-- ADD_B_RR: one step consumes exactly the one instruction word (PC + 2) and leaves the Spec's registers and CCR -/
theorem ADD_B_RR_step (st s1 st' : Cpu) (w0 : BitVec 16) (c : BitVec 8) (i : Instr)
    (hf : fetch st = .ok w0 s1) (hp : Form.pat .ADD_B_RR w0 0 0 0 0 = true) (hi : instrOf .ADD_B_RR w0 0 0 0 0 = some i)
    (h : step st = .ok c st') :
    st' = { st with regs := (specRegCcr i s1).1, ccr := (specRegCcr i s1).2, opc := st.pc &&& ~~~1#32, pc := st.pc + 2 } := by
  rw [step_eq st s1 w0 hf] at h
  rw [ADD_B_RR_exec w0 s1 st' c i hp hi h, fetch_state st s1 w0 hf]

/-- ADD_W_RR: one step consumes exactly the one instruction word (PC + 2) and leaves the Spec's registers and CCR -/
theorem ADD_W_RR_step (st s1 st' : Cpu) (w0 : BitVec 16) (c : BitVec 8) (i : Instr)
    (hf : fetch st = .ok w0 s1) (hp : Form.pat .ADD_W_RR w0 0 0 0 0 = true) (hi : instrOf .ADD_W_RR w0 0 0 0 0 = some i)
    (h : step st = .ok c st') :
    st' = { st with regs := (specRegCcr i s1).1, ccr := (specRegCcr i s1).2, opc := st.pc &&& ~~~1#32, pc := st.pc + 2 } := by
  rw [step_eq st s1 w0 hf] at h
  rw [ADD_W_RR_exec w0 s1 st' c i hp hi h, fetch_state st s1 w0 hf]

/-- SUB_B_RR: one step consumes exactly the one instruction word (PC + 2) and leaves the Spec's registers and CCR -/
theorem SUB_B_RR_step (st s1 st' : Cpu) (w0 : BitVec 16) (c : BitVec 8) (i : Instr)
    (hf : fetch st = .ok w0 s1) (hp : Form.pat .SUB_B_RR w0 0 0 0 0 = true) (hi : instrOf .SUB_B_RR w0 0 0 0 0 = some i)
    (h : step st = .ok c st') :
    st' = { st with regs := (specRegCcr i s1).1, ccr := (specRegCcr i s1).2, opc := st.pc &&& ~~~1#32, pc := st.pc + 2 } := by
  rw [step_eq st s1 w0 hf] at h
  rw [SUB_B_RR_exec w0 s1 st' c i hp hi h, fetch_state st s1 w0 hf]

/-- SUB_W_RR: one step consumes exactly the one instruction word (PC + 2) and leaves the Spec's registers and CCR -/
theorem SUB_W_RR_step (st s1 st' : Cpu) (w0 : BitVec 16) (c : BitVec 8) (i : Instr)
    (hf : fetch st = .ok w0 s1) (hp : Form.pat .SUB_W_RR w0 0 0 0 0 = true) (hi : instrOf .SUB_W_RR w0 0 0 0 0 = some i)
    (h : step st = .ok c st') :
    st' = { st with regs := (specRegCcr i s1).1, ccr := (specRegCcr i s1).2, opc := st.pc &&& ~~~1#32, pc := st.pc + 2 } := by
  rw [step_eq st s1 w0 hf] at h
  rw [SUB_W_RR_exec w0 s1 st' c i hp hi h, fetch_state st s1 w0 hf]

/-- CMP_B_RR: one step consumes exactly the one instruction word (PC + 2) and leaves the Spec's registers and CCR -/
theorem CMP_B_RR_step (st s1 st' : Cpu) (w0 : BitVec 16) (c : BitVec 8) (i : Instr)
    (hf : fetch st = .ok w0 s1) (hp : Form.pat .CMP_B_RR w0 0 0 0 0 = true) (hi : instrOf .CMP_B_RR w0 0 0 0 0 = some i)
    (h : step st = .ok c st') :
    st' = { st with regs := (specRegCcr i s1).1, ccr := (specRegCcr i s1).2, opc := st.pc &&& ~~~1#32, pc := st.pc + 2 } := by
  rw [step_eq st s1 w0 hf] at h
  rw [CMP_B_RR_exec w0 s1 st' c i hp hi h, fetch_state st s1 w0 hf]

/-- CMP_W_RR: one step consumes exactly the one instruction word (PC + 2) and leaves the Spec's registers and CCR -/
theorem CMP_W_RR_step (st s1 st' : Cpu) (w0 : BitVec 16) (c : BitVec 8) (i : Instr)
    (hf : fetch st = .ok w0 s1) (hp : Form.pat .CMP_W_RR w0 0 0 0 0 = true) (hi : instrOf .CMP_W_RR w0 0 0 0 0 = some i)
    (h : step st = .ok c st') :
    st' = { st with regs := (specRegCcr i s1).1, ccr := (specRegCcr i s1).2, opc := st.pc &&& ~~~1#32, pc := st.pc + 2 } := by
  rw [step_eq st s1 w0 hf] at h
  rw [CMP_W_RR_exec w0 s1 st' c i hp hi h, fetch_state st s1 w0 hf]

/-- ADDX_RR: one step consumes exactly the one instruction word (PC + 2) and leaves the Spec's registers and CCR -/
theorem ADDX_RR_step (st s1 st' : Cpu) (w0 : BitVec 16) (c : BitVec 8) (i : Instr)
    (hf : fetch st = .ok w0 s1) (hp : Form.pat .ADDX_RR w0 0 0 0 0 = true) (hi : instrOf .ADDX_RR w0 0 0 0 0 = some i)
    (h : step st = .ok c st') :
    st' = { st with regs := (specRegCcr i s1).1, ccr := (specRegCcr i s1).2, opc := st.pc &&& ~~~1#32, pc := st.pc + 2 } := by
  rw [step_eq st s1 w0 hf] at h
  rw [ADDX_RR_exec w0 s1 st' c i hp hi h, fetch_state st s1 w0 hf]

/-- ADD_L_RR: one step consumes exactly the one instruction word (PC + 2) and leaves the Spec's registers and CCR -/
theorem ADD_L_RR_step (st s1 st' : Cpu) (w0 : BitVec 16) (c : BitVec 8) (i : Instr)
    (hf : fetch st = .ok w0 s1) (hp : Form.pat .ADD_L_RR w0 0 0 0 0 = true) (hi : instrOf .ADD_L_RR w0 0 0 0 0 = some i)
    (h : step st = .ok c st') :
    st' = { st with regs := (specRegCcr i s1).1, ccr := (specRegCcr i s1).2, opc := st.pc &&& ~~~1#32, pc := st.pc + 2 } := by
  rw [step_eq st s1 w0 hf] at h
  rw [ADD_L_RR_exec w0 s1 st' c i hp hi h, fetch_state st s1 w0 hf]

/-- SUB_L_RR: one step consumes exactly the one instruction word (PC + 2) and leaves the Spec's registers and CCR -/
theorem SUB_L_RR_step (st s1 st' : Cpu) (w0 : BitVec 16) (c : BitVec 8) (i : Instr)
    (hf : fetch st = .ok w0 s1) (hp : Form.pat .SUB_L_RR w0 0 0 0 0 = true) (hi : instrOf .SUB_L_RR w0 0 0 0 0 = some i)
    (h : step st = .ok c st') :
    st' = { st with regs := (specRegCcr i s1).1, ccr := (specRegCcr i s1).2, opc := st.pc &&& ~~~1#32, pc := st.pc + 2 } := by
  rw [step_eq st s1 w0 hf] at h
  rw [SUB_L_RR_exec w0 s1 st' c i hp hi h, fetch_state st s1 w0 hf]

/-- CMP_L_RR: one step consumes exactly the one instruction word (PC + 2) and leaves the Spec's registers and CCR -/
theorem CMP_L_RR_step (st s1 st' : Cpu) (w0 : BitVec 16) (c : BitVec 8) (i : Instr)
    (hf : fetch st = .ok w0 s1) (hp : Form.pat .CMP_L_RR w0 0 0 0 0 = true) (hi : instrOf .CMP_L_RR w0 0 0 0 0 = some i)
    (h : step st = .ok c st') :
    st' = { st with regs := (specRegCcr i s1).1, ccr := (specRegCcr i s1).2, opc := st.pc &&& ~~~1#32, pc := st.pc + 2 } := by
  rw [step_eq st s1 w0 hf] at h
  rw [CMP_L_RR_exec w0 s1 st' c i hp hi h, fetch_state st s1 w0 hf]

/-- ADD_B_IMM: one step consumes exactly the one instruction word (PC + 2) and leaves the Spec's registers and CCR -/
theorem ADD_B_IMM_step (st s1 st' : Cpu) (w0 : BitVec 16) (c : BitVec 8) (i : Instr)
    (hf : fetch st = .ok w0 s1) (hp : Form.pat .ADD_B_IMM w0 0 0 0 0 = true) (hi : instrOf .ADD_B_IMM w0 0 0 0 0 = some i)
    (h : step st = .ok c st') :
    st' = { st with regs := (specRegCcr i s1).1, ccr := (specRegCcr i s1).2, opc := st.pc &&& ~~~1#32, pc := st.pc + 2 } := by
  rw [step_eq st s1 w0 hf] at h
  rw [ADD_B_IMM_exec w0 s1 st' c i hp hi h, fetch_state st s1 w0 hf]

/-- CMP_B_IMM: one step consumes exactly the one instruction word (PC + 2) and leaves the Spec's registers and CCR -/
theorem CMP_B_IMM_step (st s1 st' : Cpu) (w0 : BitVec 16) (c : BitVec 8) (i : Instr)
    (hf : fetch st = .ok w0 s1) (hp : Form.pat .CMP_B_IMM w0 0 0 0 0 = true) (hi : instrOf .CMP_B_IMM w0 0 0 0 0 = some i)
    (h : step st = .ok c st') :
    st' = { st with regs := (specRegCcr i s1).1, ccr := (specRegCcr i s1).2, opc := st.pc &&& ~~~1#32, pc := st.pc + 2 } := by
  rw [step_eq st s1 w0 hf] at h
  rw [CMP_B_IMM_exec w0 s1 st' c i hp hi h, fetch_state st s1 w0 hf]

/-- ADDX_IMM: one step consumes exactly the one instruction word (PC + 2) and leaves the Spec's registers and CCR -/
theorem ADDX_IMM_step (st s1 st' : Cpu) (w0 : BitVec 16) (c : BitVec 8) (i : Instr)
    (hf : fetch st = .ok w0 s1) (hp : Form.pat .ADDX_IMM w0 0 0 0 0 = true) (hi : instrOf .ADDX_IMM w0 0 0 0 0 = some i)
    (h : step st = .ok c st') :
    st' = { st with regs := (specRegCcr i s1).1, ccr := (specRegCcr i s1).2, opc := st.pc &&& ~~~1#32, pc := st.pc + 2 } := by
  rw [step_eq st s1 w0 hf] at h
  rw [ADDX_IMM_exec w0 s1 st' c i hp hi h, fetch_state st s1 w0 hf]

/-- ADDS_1: one step consumes exactly the one instruction word (PC + 2) and leaves the Spec's registers and CCR -/
theorem ADDS_1_step (st s1 st' : Cpu) (w0 : BitVec 16) (c : BitVec 8) (i : Instr)
    (hf : fetch st = .ok w0 s1) (hp : Form.pat .ADDS_1 w0 0 0 0 0 = true) (hi : instrOf .ADDS_1 w0 0 0 0 0 = some i)
    (h : step st = .ok c st') :
    st' = { st with regs := (specRegCcr i s1).1, ccr := (specRegCcr i s1).2, opc := st.pc &&& ~~~1#32, pc := st.pc + 2 } := by
  rw [step_eq st s1 w0 hf] at h
  rw [ADDS_1_exec w0 s1 st' c i hp hi h, fetch_state st s1 w0 hf]

/-- ADDS_2: one step consumes exactly the one instruction word (PC + 2) and leaves the Spec's registers and CCR -/
theorem ADDS_2_step (st s1 st' : Cpu) (w0 : BitVec 16) (c : BitVec 8) (i : Instr)
    (hf : fetch st = .ok w0 s1) (hp : Form.pat .ADDS_2 w0 0 0 0 0 = true) (hi : instrOf .ADDS_2 w0 0 0 0 0 = some i)
    (h : step st = .ok c st') :
    st' = { st with regs := (specRegCcr i s1).1, ccr := (specRegCcr i s1).2, opc := st.pc &&& ~~~1#32, pc := st.pc + 2 } := by
  rw [step_eq st s1 w0 hf] at h
  rw [ADDS_2_exec w0 s1 st' c i hp hi h, fetch_state st s1 w0 hf]

/-- ADDS_4: one step consumes exactly the one instruction word (PC + 2) and leaves the Spec's registers and CCR -/
theorem ADDS_4_step (st s1 st' : Cpu) (w0 : BitVec 16) (c : BitVec 8) (i : Instr)
    (hf : fetch st = .ok w0 s1) (hp : Form.pat .ADDS_4 w0 0 0 0 0 = true) (hi : instrOf .ADDS_4 w0 0 0 0 0 = some i)
    (h : step st = .ok c st') :
    st' = { st with regs := (specRegCcr i s1).1, ccr := (specRegCcr i s1).2, opc := st.pc &&& ~~~1#32, pc := st.pc + 2 } := by
  rw [step_eq st s1 w0 hf] at h
  rw [ADDS_4_exec w0 s1 st' c i hp hi h, fetch_state st s1 w0 hf]

/-- SUBS_1: one step consumes exactly the one instruction word (PC + 2) and leaves the Spec's registers and CCR -/
theorem SUBS_1_step (st s1 st' : Cpu) (w0 : BitVec 16) (c : BitVec 8) (i : Instr)
    (hf : fetch st = .ok w0 s1) (hp : Form.pat .SUBS_1 w0 0 0 0 0 = true) (hi : instrOf .SUBS_1 w0 0 0 0 0 = some i)
    (h : step st = .ok c st') :
    st' = { st with regs := (specRegCcr i s1).1, ccr := (specRegCcr i s1).2, opc := st.pc &&& ~~~1#32, pc := st.pc + 2 } := by
  rw [step_eq st s1 w0 hf] at h
  rw [SUBS_1_exec w0 s1 st' c i hp hi h, fetch_state st s1 w0 hf]

/-- SUBS_2: one step consumes exactly the one instruction word (PC + 2) and leaves the Spec's registers and CCR -/
theorem SUBS_2_step (st s1 st' : Cpu) (w0 : BitVec 16) (c : BitVec 8) (i : Instr)
    (hf : fetch st = .ok w0 s1) (hp : Form.pat .SUBS_2 w0 0 0 0 0 = true) (hi : instrOf .SUBS_2 w0 0 0 0 0 = some i)
    (h : step st = .ok c st') :
    st' = { st with regs := (specRegCcr i s1).1, ccr := (specRegCcr i s1).2, opc := st.pc &&& ~~~1#32, pc := st.pc + 2 } := by
  rw [step_eq st s1 w0 hf] at h
  rw [SUBS_2_exec w0 s1 st' c i hp hi h, fetch_state st s1 w0 hf]

/-- SUBS_4: one step consumes exactly the one instruction word (PC + 2) and leaves the Spec's registers and CCR -/
theorem SUBS_4_step (st s1 st' : Cpu) (w0 : BitVec 16) (c : BitVec 8) (i : Instr)
    (hf : fetch st = .ok w0 s1) (hp : Form.pat .SUBS_4 w0 0 0 0 0 = true) (hi : instrOf .SUBS_4 w0 0 0 0 0 = some i)
    (h : step st = .ok c st') :
    st' = { st with regs := (specRegCcr i s1).1, ccr := (specRegCcr i s1).2, opc := st.pc &&& ~~~1#32, pc := st.pc + 2 } := by
  rw [step_eq st s1 w0 hf] at h
  rw [SUBS_4_exec w0 s1 st' c i hp hi h, fetch_state st s1 w0 hf]

/-- INC_B: one step consumes exactly the one instruction word (PC + 2) and leaves the Spec's registers and CCR -/
theorem INC_B_step (st s1 st' : Cpu) (w0 : BitVec 16) (c : BitVec 8) (i : Instr)
    (hf : fetch st = .ok w0 s1) (hp : Form.pat .INC_B w0 0 0 0 0 = true) (hi : instrOf .INC_B w0 0 0 0 0 = some i)
    (h : step st = .ok c st') :
    st' = { st with regs := (specRegCcr i s1).1, ccr := (specRegCcr i s1).2, opc := st.pc &&& ~~~1#32, pc := st.pc + 2 } := by
  rw [step_eq st s1 w0 hf] at h
  rw [INC_B_exec w0 s1 st' c i hp hi h, fetch_state st s1 w0 hf]

/-- INC_W_1: one step consumes exactly the one instruction word (PC + 2) and leaves the Spec's registers and CCR -/
theorem INC_W_1_step (st s1 st' : Cpu) (w0 : BitVec 16) (c : BitVec 8) (i : Instr)
    (hf : fetch st = .ok w0 s1) (hp : Form.pat .INC_W_1 w0 0 0 0 0 = true) (hi : instrOf .INC_W_1 w0 0 0 0 0 = some i)
    (h : step st = .ok c st') :
    st' = { st with regs := (specRegCcr i s1).1, ccr := (specRegCcr i s1).2, opc := st.pc &&& ~~~1#32, pc := st.pc + 2 } := by
  rw [step_eq st s1 w0 hf] at h
  rw [INC_W_1_exec w0 s1 st' c i hp hi h, fetch_state st s1 w0 hf]

/-- INC_W_2: one step consumes exactly the one instruction word (PC + 2) and leaves the Spec's registers and CCR -/
theorem INC_W_2_step (st s1 st' : Cpu) (w0 : BitVec 16) (c : BitVec 8) (i : Instr)
    (hf : fetch st = .ok w0 s1) (hp : Form.pat .INC_W_2 w0 0 0 0 0 = true) (hi : instrOf .INC_W_2 w0 0 0 0 0 = some i)
    (h : step st = .ok c st') :
    st' = { st with regs := (specRegCcr i s1).1, ccr := (specRegCcr i s1).2, opc := st.pc &&& ~~~1#32, pc := st.pc + 2 } := by
  rw [step_eq st s1 w0 hf] at h
  rw [INC_W_2_exec w0 s1 st' c i hp hi h, fetch_state st s1 w0 hf]

/-- INC_L_1: one step consumes exactly the one instruction word (PC + 2) and leaves the Spec's registers and CCR -/
theorem INC_L_1_step (st s1 st' : Cpu) (w0 : BitVec 16) (c : BitVec 8) (i : Instr)
    (hf : fetch st = .ok w0 s1) (hp : Form.pat .INC_L_1 w0 0 0 0 0 = true) (hi : instrOf .INC_L_1 w0 0 0 0 0 = some i)
    (h : step st = .ok c st') :
    st' = { st with regs := (specRegCcr i s1).1, ccr := (specRegCcr i s1).2, opc := st.pc &&& ~~~1#32, pc := st.pc + 2 } := by
  rw [step_eq st s1 w0 hf] at h
  rw [INC_L_1_exec w0 s1 st' c i hp hi h, fetch_state st s1 w0 hf]

/-- INC_L_2: one step consumes exactly the one instruction word (PC + 2) and leaves the Spec's registers and CCR -/
theorem INC_L_2_step (st s1 st' : Cpu) (w0 : BitVec 16) (c : BitVec 8) (i : Instr)
    (hf : fetch st = .ok w0 s1) (hp : Form.pat .INC_L_2 w0 0 0 0 0 = true) (hi : instrOf .INC_L_2 w0 0 0 0 0 = some i)
    (h : step st = .ok c st') :
    st' = { st with regs := (specRegCcr i s1).1, ccr := (specRegCcr i s1).2, opc := st.pc &&& ~~~1#32, pc := st.pc + 2 } := by
  rw [step_eq st s1 w0 hf] at h
  rw [INC_L_2_exec w0 s1 st' c i hp hi h, fetch_state st s1 w0 hf]

/-- DEC_B: one step consumes exactly the one instruction word (PC + 2) and leaves the Spec's registers and CCR -/
theorem DEC_B_step (st s1 st' : Cpu) (w0 : BitVec 16) (c : BitVec 8) (i : Instr)
    (hf : fetch st = .ok w0 s1) (hp : Form.pat .DEC_B w0 0 0 0 0 = true) (hi : instrOf .DEC_B w0 0 0 0 0 = some i)
    (h : step st = .ok c st') :
    st' = { st with regs := (specRegCcr i s1).1, ccr := (specRegCcr i s1).2, opc := st.pc &&& ~~~1#32, pc := st.pc + 2 } := by
  rw [step_eq st s1 w0 hf] at h
  rw [DEC_B_exec w0 s1 st' c i hp hi h, fetch_state st s1 w0 hf]

/-- DEC_W_1: one step consumes exactly the one instruction word (PC + 2) and leaves the Spec's registers and CCR -/
theorem DEC_W_1_step (st s1 st' : Cpu) (w0 : BitVec 16) (c : BitVec 8) (i : Instr)
    (hf : fetch st = .ok w0 s1) (hp : Form.pat .DEC_W_1 w0 0 0 0 0 = true) (hi : instrOf .DEC_W_1 w0 0 0 0 0 = some i)
    (h : step st = .ok c st') :
    st' = { st with regs := (specRegCcr i s1).1, ccr := (specRegCcr i s1).2, opc := st.pc &&& ~~~1#32, pc := st.pc + 2 } := by
  rw [step_eq st s1 w0 hf] at h
  rw [DEC_W_1_exec w0 s1 st' c i hp hi h, fetch_state st s1 w0 hf]

/-- DEC_W_2: one step consumes exactly the one instruction word (PC + 2) and leaves the Spec's registers and CCR -/
theorem DEC_W_2_step (st s1 st' : Cpu) (w0 : BitVec 16) (c : BitVec 8) (i : Instr)
    (hf : fetch st = .ok w0 s1) (hp : Form.pat .DEC_W_2 w0 0 0 0 0 = true) (hi : instrOf .DEC_W_2 w0 0 0 0 0 = some i)
    (h : step st = .ok c st') :
    st' = { st with regs := (specRegCcr i s1).1, ccr := (specRegCcr i s1).2, opc := st.pc &&& ~~~1#32, pc := st.pc + 2 } := by
  rw [step_eq st s1 w0 hf] at h
  rw [DEC_W_2_exec w0 s1 st' c i hp hi h, fetch_state st s1 w0 hf]

/-- DEC_L_1: one step consumes exactly the one instruction word (PC + 2) and leaves the Spec's registers and CCR -/
theorem DEC_L_1_step (st s1 st' : Cpu) (w0 : BitVec 16) (c : BitVec 8) (i : Instr)
    (hf : fetch st = .ok w0 s1) (hp : Form.pat .DEC_L_1 w0 0 0 0 0 = true) (hi : instrOf .DEC_L_1 w0 0 0 0 0 = some i)
    (h : step st = .ok c st') :
    st' = { st with regs := (specRegCcr i s1).1, ccr := (specRegCcr i s1).2, opc := st.pc &&& ~~~1#32, pc := st.pc + 2 } := by
  rw [step_eq st s1 w0 hf] at h
  rw [DEC_L_1_exec w0 s1 st' c i hp hi h, fetch_state st s1 w0 hf]

/-- DEC_L_2: one step consumes exactly the one instruction word (PC + 2) and leaves the Spec's registers and CCR -/
theorem DEC_L_2_step (st s1 st' : Cpu) (w0 : BitVec 16) (c : BitVec 8) (i : Instr)
    (hf : fetch st = .ok w0 s1) (hp : Form.pat .DEC_L_2 w0 0 0 0 0 = true) (hi : instrOf .DEC_L_2 w0 0 0 0 0 = some i)
    (h : step st = .ok c st') :
    st' = { st with regs := (specRegCcr i s1).1, ccr := (specRegCcr i s1).2, opc := st.pc &&& ~~~1#32, pc := st.pc + 2 } := by
  rw [step_eq st s1 w0 hf] at h
  rw [DEC_L_2_exec w0 s1 st' c i hp hi h, fetch_state st s1 w0 hf]

/-- NEG_B: one step consumes exactly the one instruction word (PC + 2) and leaves the Spec's registers and CCR -/
theorem NEG_B_step (st s1 st' : Cpu) (w0 : BitVec 16) (c : BitVec 8) (i : Instr)
    (hf : fetch st = .ok w0 s1) (hp : Form.pat .NEG_B w0 0 0 0 0 = true) (hi : instrOf .NEG_B w0 0 0 0 0 = some i)
    (h : step st = .ok c st') :
    st' = { st with regs := (specRegCcr i s1).1, ccr := (specRegCcr i s1).2, opc := st.pc &&& ~~~1#32, pc := st.pc + 2 } := by
  rw [step_eq st s1 w0 hf] at h
  rw [NEG_B_exec w0 s1 st' c i hp hi h, fetch_state st s1 w0 hf]

/-- NEG_W: one step consumes exactly the one instruction word (PC + 2) and leaves the Spec's registers and CCR -/
theorem NEG_W_step (st s1 st' : Cpu) (w0 : BitVec 16) (c : BitVec 8) (i : Instr)
    (hf : fetch st = .ok w0 s1) (hp : Form.pat .NEG_W w0 0 0 0 0 = true) (hi : instrOf .NEG_W w0 0 0 0 0 = some i)
    (h : step st = .ok c st') :
    st' = { st with regs := (specRegCcr i s1).1, ccr := (specRegCcr i s1).2, opc := st.pc &&& ~~~1#32, pc := st.pc + 2 } := by
  rw [step_eq st s1 w0 hf] at h
  rw [NEG_W_exec w0 s1 st' c i hp hi h, fetch_state st s1 w0 hf]

/-- NEG_L: one step consumes exactly the one instruction word (PC + 2) and leaves the Spec's registers and CCR -/
theorem NEG_L_step (st s1 st' : Cpu) (w0 : BitVec 16) (c : BitVec 8) (i : Instr)
    (hf : fetch st = .ok w0 s1) (hp : Form.pat .NEG_L w0 0 0 0 0 = true) (hi : instrOf .NEG_L w0 0 0 0 0 = some i)
    (h : step st = .ok c st') :
    st' = { st with regs := (specRegCcr i s1).1, ccr := (specRegCcr i s1).2, opc := st.pc &&& ~~~1#32, pc := st.pc + 2 } := by
  rw [step_eq st s1 w0 hf] at h
  rw [NEG_L_exec w0 s1 st' c i hp hi h, fetch_state st s1 w0 hf]

/-- EXTU_W: one step consumes exactly the one instruction word (PC + 2) and leaves the Spec's registers and CCR -/
theorem EXTU_W_step (st s1 st' : Cpu) (w0 : BitVec 16) (c : BitVec 8) (i : Instr)
    (hf : fetch st = .ok w0 s1) (hp : Form.pat .EXTU_W w0 0 0 0 0 = true) (hi : instrOf .EXTU_W w0 0 0 0 0 = some i)
    (h : step st = .ok c st') :
    st' = { st with regs := (specRegCcr i s1).1, ccr := (specRegCcr i s1).2, opc := st.pc &&& ~~~1#32, pc := st.pc + 2 } := by
  rw [step_eq st s1 w0 hf] at h
  rw [EXTU_W_exec w0 s1 st' c i hp hi h, fetch_state st s1 w0 hf]

/-- EXTU_L: one step consumes exactly the one instruction word (PC + 2) and leaves the Spec's registers and CCR -/
theorem EXTU_L_step (st s1 st' : Cpu) (w0 : BitVec 16) (c : BitVec 8) (i : Instr)
    (hf : fetch st = .ok w0 s1) (hp : Form.pat .EXTU_L w0 0 0 0 0 = true) (hi : instrOf .EXTU_L w0 0 0 0 0 = some i)
    (h : step st = .ok c st') :
    st' = { st with regs := (specRegCcr i s1).1, ccr := (specRegCcr i s1).2, opc := st.pc &&& ~~~1#32, pc := st.pc + 2 } := by
  rw [step_eq st s1 w0 hf] at h
  rw [EXTU_L_exec w0 s1 st' c i hp hi h, fetch_state st s1 w0 hf]

/-- SHLL_B: one step consumes exactly the one instruction word (PC + 2) and leaves the Spec's registers and CCR -/
theorem SHLL_B_step (st s1 st' : Cpu) (w0 : BitVec 16) (c : BitVec 8) (i : Instr)
    (hf : fetch st = .ok w0 s1) (hp : Form.pat .SHLL_B w0 0 0 0 0 = true) (hi : instrOf .SHLL_B w0 0 0 0 0 = some i)
    (h : step st = .ok c st') :
    st' = { st with regs := (specRegCcr i s1).1, ccr := (specRegCcr i s1).2, opc := st.pc &&& ~~~1#32, pc := st.pc + 2 } := by
  rw [step_eq st s1 w0 hf] at h
  rw [SHLL_B_exec w0 s1 st' c i hp hi h, fetch_state st s1 w0 hf]

/-- SHLL_W: one step consumes exactly the one instruction word (PC + 2) and leaves the Spec's registers and CCR -/
theorem SHLL_W_step (st s1 st' : Cpu) (w0 : BitVec 16) (c : BitVec 8) (i : Instr)
    (hf : fetch st = .ok w0 s1) (hp : Form.pat .SHLL_W w0 0 0 0 0 = true) (hi : instrOf .SHLL_W w0 0 0 0 0 = some i)
    (h : step st = .ok c st') :
    st' = { st with regs := (specRegCcr i s1).1, ccr := (specRegCcr i s1).2, opc := st.pc &&& ~~~1#32, pc := st.pc + 2 } := by
  rw [step_eq st s1 w0 hf] at h
  rw [SHLL_W_exec w0 s1 st' c i hp hi h, fetch_state st s1 w0 hf]

/-- SHLL_L: one step consumes exactly the one instruction word (PC + 2) and leaves the Spec's registers and CCR -/
theorem SHLL_L_step (st s1 st' : Cpu) (w0 : BitVec 16) (c : BitVec 8) (i : Instr)
    (hf : fetch st = .ok w0 s1) (hp : Form.pat .SHLL_L w0 0 0 0 0 = true) (hi : instrOf .SHLL_L w0 0 0 0 0 = some i)
    (h : step st = .ok c st') :
    st' = { st with regs := (specRegCcr i s1).1, ccr := (specRegCcr i s1).2, opc := st.pc &&& ~~~1#32, pc := st.pc + 2 } := by
  rw [step_eq st s1 w0 hf] at h
  rw [SHLL_L_exec w0 s1 st' c i hp hi h, fetch_state st s1 w0 hf]

/-- SHLR_B: one step consumes exactly the one instruction word (PC + 2) and leaves the Spec's registers and CCR -/
theorem SHLR_B_step (st s1 st' : Cpu) (w0 : BitVec 16) (c : BitVec 8) (i : Instr)
    (hf : fetch st = .ok w0 s1) (hp : Form.pat .SHLR_B w0 0 0 0 0 = true) (hi : instrOf .SHLR_B w0 0 0 0 0 = some i)
    (h : step st = .ok c st') :
    st' = { st with regs := (specRegCcr i s1).1, ccr := (specRegCcr i s1).2, opc := st.pc &&& ~~~1#32, pc := st.pc + 2 } := by
  rw [step_eq st s1 w0 hf] at h
  rw [SHLR_B_exec w0 s1 st' c i hp hi h, fetch_state st s1 w0 hf]

/-- SHLR_W: one step consumes exactly the one instruction word (PC + 2) and leaves the Spec's registers and CCR -/
theorem SHLR_W_step (st s1 st' : Cpu) (w0 : BitVec 16) (c : BitVec 8) (i : Instr)
    (hf : fetch st = .ok w0 s1) (hp : Form.pat .SHLR_W w0 0 0 0 0 = true) (hi : instrOf .SHLR_W w0 0 0 0 0 = some i)
    (h : step st = .ok c st') :
    st' = { st with regs := (specRegCcr i s1).1, ccr := (specRegCcr i s1).2, opc := st.pc &&& ~~~1#32, pc := st.pc + 2 } := by
  rw [step_eq st s1 w0 hf] at h
  rw [SHLR_W_exec w0 s1 st' c i hp hi h, fetch_state st s1 w0 hf]

/-- SHLR_L: one step consumes exactly the one instruction word (PC + 2) and leaves the Spec's registers and CCR -/
theorem SHLR_L_step (st s1 st' : Cpu) (w0 : BitVec 16) (c : BitVec 8) (i : Instr)
    (hf : fetch st = .ok w0 s1) (hp : Form.pat .SHLR_L w0 0 0 0 0 = true) (hi : instrOf .SHLR_L w0 0 0 0 0 = some i)
    (h : step st = .ok c st') :
    st' = { st with regs := (specRegCcr i s1).1, ccr := (specRegCcr i s1).2, opc := st.pc &&& ~~~1#32, pc := st.pc + 2 } := by
  rw [step_eq st s1 w0 hf] at h
  rw [SHLR_L_exec w0 s1 st' c i hp hi h, fetch_state st s1 w0 hf]

/-- SHAR_B: one step consumes exactly the one instruction word (PC + 2) and leaves the Spec's registers and CCR -/
theorem SHAR_B_step (st s1 st' : Cpu) (w0 : BitVec 16) (c : BitVec 8) (i : Instr)
    (hf : fetch st = .ok w0 s1) (hp : Form.pat .SHAR_B w0 0 0 0 0 = true) (hi : instrOf .SHAR_B w0 0 0 0 0 = some i)
    (h : step st = .ok c st') :
    st' = { st with regs := (specRegCcr i s1).1, ccr := (specRegCcr i s1).2, opc := st.pc &&& ~~~1#32, pc := st.pc + 2 } := by
  rw [step_eq st s1 w0 hf] at h
  rw [SHAR_B_exec w0 s1 st' c i hp hi h, fetch_state st s1 w0 hf]

/-- SHAR_W: one step consumes exactly the one instruction word (PC + 2) and leaves the Spec's registers and CCR -/
theorem SHAR_W_step (st s1 st' : Cpu) (w0 : BitVec 16) (c : BitVec 8) (i : Instr)
    (hf : fetch st = .ok w0 s1) (hp : Form.pat .SHAR_W w0 0 0 0 0 = true) (hi : instrOf .SHAR_W w0 0 0 0 0 = some i)
    (h : step st = .ok c st') :
    st' = { st with regs := (specRegCcr i s1).1, ccr := (specRegCcr i s1).2, opc := st.pc &&& ~~~1#32, pc := st.pc + 2 } := by
  rw [step_eq st s1 w0 hf] at h
  rw [SHAR_W_exec w0 s1 st' c i hp hi h, fetch_state st s1 w0 hf]

/-- SHAR_L: one step consumes exactly the one instruction word (PC + 2) and leaves the Spec's registers and CCR -/
theorem SHAR_L_step (st s1 st' : Cpu) (w0 : BitVec 16) (c : BitVec 8) (i : Instr)
    (hf : fetch st = .ok w0 s1) (hp : Form.pat .SHAR_L w0 0 0 0 0 = true) (hi : instrOf .SHAR_L w0 0 0 0 0 = some i)
    (h : step st = .ok c st') :
    st' = { st with regs := (specRegCcr i s1).1, ccr := (specRegCcr i s1).2, opc := st.pc &&& ~~~1#32, pc := st.pc + 2 } := by
  rw [step_eq st s1 w0 hf] at h
  rw [SHAR_L_exec w0 s1 st' c i hp hi h, fetch_state st s1 w0 hf]

/-- ROTL_B: one step consumes exactly the one instruction word (PC + 2) and leaves the Spec's registers and CCR -/
theorem ROTL_B_step (st s1 st' : Cpu) (w0 : BitVec 16) (c : BitVec 8) (i : Instr)
    (hf : fetch st = .ok w0 s1) (hp : Form.pat .ROTL_B w0 0 0 0 0 = true) (hi : instrOf .ROTL_B w0 0 0 0 0 = some i)
    (h : step st = .ok c st') :
    st' = { st with regs := (specRegCcr i s1).1, ccr := (specRegCcr i s1).2, opc := st.pc &&& ~~~1#32, pc := st.pc + 2 } := by
  rw [step_eq st s1 w0 hf] at h
  rw [ROTL_B_exec w0 s1 st' c i hp hi h, fetch_state st s1 w0 hf]

/-- ROTL_W: one step consumes exactly the one instruction word (PC + 2) and leaves the Spec's registers and CCR -/
theorem ROTL_W_step (st s1 st' : Cpu) (w0 : BitVec 16) (c : BitVec 8) (i : Instr)
    (hf : fetch st = .ok w0 s1) (hp : Form.pat .ROTL_W w0 0 0 0 0 = true) (hi : instrOf .ROTL_W w0 0 0 0 0 = some i)
    (h : step st = .ok c st') :
    st' = { st with regs := (specRegCcr i s1).1, ccr := (specRegCcr i s1).2, opc := st.pc &&& ~~~1#32, pc := st.pc + 2 } := by
  rw [step_eq st s1 w0 hf] at h
  rw [ROTL_W_exec w0 s1 st' c i hp hi h, fetch_state st s1 w0 hf]

/-- ROTL_L: one step consumes exactly the one instruction word (PC + 2) and leaves the Spec's registers and CCR -/
theorem ROTL_L_step (st s1 st' : Cpu) (w0 : BitVec 16) (c : BitVec 8) (i : Instr)
    (hf : fetch st = .ok w0 s1) (hp : Form.pat .ROTL_L w0 0 0 0 0 = true) (hi : instrOf .ROTL_L w0 0 0 0 0 = some i)
    (h : step st = .ok c st') :
    st' = { st with regs := (specRegCcr i s1).1, ccr := (specRegCcr i s1).2, opc := st.pc &&& ~~~1#32, pc := st.pc + 2 } := by
  rw [step_eq st s1 w0 hf] at h
  rw [ROTL_L_exec w0 s1 st' c i hp hi h, fetch_state st s1 w0 hf]

/-- ROTR_B: one step consumes exactly the one instruction word (PC + 2) and leaves the Spec's registers and CCR -/
theorem ROTR_B_step (st s1 st' : Cpu) (w0 : BitVec 16) (c : BitVec 8) (i : Instr)
    (hf : fetch st = .ok w0 s1) (hp : Form.pat .ROTR_B w0 0 0 0 0 = true) (hi : instrOf .ROTR_B w0 0 0 0 0 = some i)
    (h : step st = .ok c st') :
    st' = { st with regs := (specRegCcr i s1).1, ccr := (specRegCcr i s1).2, opc := st.pc &&& ~~~1#32, pc := st.pc + 2 } := by
  rw [step_eq st s1 w0 hf] at h
  rw [ROTR_B_exec w0 s1 st' c i hp hi h, fetch_state st s1 w0 hf]

/-- ROTR_W: one step consumes exactly the one instruction word (PC + 2) and leaves the Spec's registers and CCR -/
theorem ROTR_W_step (st s1 st' : Cpu) (w0 : BitVec 16) (c : BitVec 8) (i : Instr)
    (hf : fetch st = .ok w0 s1) (hp : Form.pat .ROTR_W w0 0 0 0 0 = true) (hi : instrOf .ROTR_W w0 0 0 0 0 = some i)
    (h : step st = .ok c st') :
    st' = { st with regs := (specRegCcr i s1).1, ccr := (specRegCcr i s1).2, opc := st.pc &&& ~~~1#32, pc := st.pc + 2 } := by
  rw [step_eq st s1 w0 hf] at h
  rw [ROTR_W_exec w0 s1 st' c i hp hi h, fetch_state st s1 w0 hf]

/-- ROTR_L: one step consumes exactly the one instruction word (PC + 2) and leaves the Spec's registers and CCR -/
theorem ROTR_L_step (st s1 st' : Cpu) (w0 : BitVec 16) (c : BitVec 8) (i : Instr)
    (hf : fetch st = .ok w0 s1) (hp : Form.pat .ROTR_L w0 0 0 0 0 = true) (hi : instrOf .ROTR_L w0 0 0 0 0 = some i)
    (h : step st = .ok c st') :
    st' = { st with regs := (specRegCcr i s1).1, ccr := (specRegCcr i s1).2, opc := st.pc &&& ~~~1#32, pc := st.pc + 2 } := by
  rw [step_eq st s1 w0 hf] at h
  rw [ROTR_L_exec w0 s1 st' c i hp hi h, fetch_state st s1 w0 hf]

/-- ROTXL_B: one step consumes exactly the one instruction word (PC + 2) and leaves the Spec's registers and CCR -/
theorem ROTXL_B_step (st s1 st' : Cpu) (w0 : BitVec 16) (c : BitVec 8) (i : Instr)
    (hf : fetch st = .ok w0 s1) (hp : Form.pat .ROTXL_B w0 0 0 0 0 = true) (hi : instrOf .ROTXL_B w0 0 0 0 0 = some i)
    (h : step st = .ok c st') :
    st' = { st with regs := (specRegCcr i s1).1, ccr := (specRegCcr i s1).2, opc := st.pc &&& ~~~1#32, pc := st.pc + 2 } := by
  rw [step_eq st s1 w0 hf] at h
  rw [ROTXL_B_exec w0 s1 st' c i hp hi h, fetch_state st s1 w0 hf]

/-- ROTXL_W: one step consumes exactly the one instruction word (PC + 2) and leaves the Spec's registers and CCR -/
theorem ROTXL_W_step (st s1 st' : Cpu) (w0 : BitVec 16) (c : BitVec 8) (i : Instr)
    (hf : fetch st = .ok w0 s1) (hp : Form.pat .ROTXL_W w0 0 0 0 0 = true) (hi : instrOf .ROTXL_W w0 0 0 0 0 = some i)
    (h : step st = .ok c st') :
    st' = { st with regs := (specRegCcr i s1).1, ccr := (specRegCcr i s1).2, opc := st.pc &&& ~~~1#32, pc := st.pc + 2 } := by
  rw [step_eq st s1 w0 hf] at h
  rw [ROTXL_W_exec w0 s1 st' c i hp hi h, fetch_state st s1 w0 hf]

/-- ROTXL_L: one step consumes exactly the one instruction word (PC + 2) and leaves the Spec's registers and CCR -/
theorem ROTXL_L_step (st s1 st' : Cpu) (w0 : BitVec 16) (c : BitVec 8) (i : Instr)
    (hf : fetch st = .ok w0 s1) (hp : Form.pat .ROTXL_L w0 0 0 0 0 = true) (hi : instrOf .ROTXL_L w0 0 0 0 0 = some i)
    (h : step st = .ok c st') :
    st' = { st with regs := (specRegCcr i s1).1, ccr := (specRegCcr i s1).2, opc := st.pc &&& ~~~1#32, pc := st.pc + 2 } := by
  rw [step_eq st s1 w0 hf] at h
  rw [ROTXL_L_exec w0 s1 st' c i hp hi h, fetch_state st s1 w0 hf]

/-- ROTXR_B: one step consumes exactly the one instruction word (PC + 2) and leaves the Spec's registers and CCR -/
theorem ROTXR_B_step (st s1 st' : Cpu) (w0 : BitVec 16) (c : BitVec 8) (i : Instr)
    (hf : fetch st = .ok w0 s1) (hp : Form.pat .ROTXR_B w0 0 0 0 0 = true) (hi : instrOf .ROTXR_B w0 0 0 0 0 = some i)
    (h : step st = .ok c st') :
    st' = { st with regs := (specRegCcr i s1).1, ccr := (specRegCcr i s1).2, opc := st.pc &&& ~~~1#32, pc := st.pc + 2 } := by
  rw [step_eq st s1 w0 hf] at h
  rw [ROTXR_B_exec w0 s1 st' c i hp hi h, fetch_state st s1 w0 hf]

/-- ROTXR_W: one step consumes exactly the one instruction word (PC + 2) and leaves the Spec's registers and CCR -/
theorem ROTXR_W_step (st s1 st' : Cpu) (w0 : BitVec 16) (c : BitVec 8) (i : Instr)
    (hf : fetch st = .ok w0 s1) (hp : Form.pat .ROTXR_W w0 0 0 0 0 = true) (hi : instrOf .ROTXR_W w0 0 0 0 0 = some i)
    (h : step st = .ok c st') :
    st' = { st with regs := (specRegCcr i s1).1, ccr := (specRegCcr i s1).2, opc := st.pc &&& ~~~1#32, pc := st.pc + 2 } := by
  rw [step_eq st s1 w0 hf] at h
  rw [ROTXR_W_exec w0 s1 st' c i hp hi h, fetch_state st s1 w0 hf]

/-- ROTXR_L: one step consumes exactly the one instruction word (PC + 2) and leaves the Spec's registers and CCR -/
theorem ROTXR_L_step (st s1 st' : Cpu) (w0 : BitVec 16) (c : BitVec 8) (i : Instr)
    (hf : fetch st = .ok w0 s1) (hp : Form.pat .ROTXR_L w0 0 0 0 0 = true) (hi : instrOf .ROTXR_L w0 0 0 0 0 = some i)
    (h : step st = .ok c st') :
    st' = { st with regs := (specRegCcr i s1).1, ccr := (specRegCcr i s1).2, opc := st.pc &&& ~~~1#32, pc := st.pc + 2 } := by
  rw [step_eq st s1 w0 hf] at h
  rw [ROTXR_L_exec w0 s1 st' c i hp hi h, fetch_state st s1 w0 hf]

/-- NOT_B: one step consumes exactly the one instruction word (PC + 2) and leaves the Spec's registers and CCR -/
theorem NOT_B_step (st s1 st' : Cpu) (w0 : BitVec 16) (c : BitVec 8) (i : Instr)
    (hf : fetch st = .ok w0 s1) (hp : Form.pat .NOT_B w0 0 0 0 0 = true) (hi : instrOf .NOT_B w0 0 0 0 0 = some i)
    (h : step st = .ok c st') :
    st' = { st with regs := (specRegCcr i s1).1, ccr := (specRegCcr i s1).2, opc := st.pc &&& ~~~1#32, pc := st.pc + 2 } := by
  rw [step_eq st s1 w0 hf] at h
  rw [NOT_B_exec w0 s1 st' c i hp hi h, fetch_state st s1 w0 hf]

/-- NOT_W: one step consumes exactly the one instruction word (PC + 2) and leaves the Spec's registers and CCR -/
theorem NOT_W_step (st s1 st' : Cpu) (w0 : BitVec 16) (c : BitVec 8) (i : Instr)
    (hf : fetch st = .ok w0 s1) (hp : Form.pat .NOT_W w0 0 0 0 0 = true) (hi : instrOf .NOT_W w0 0 0 0 0 = some i)
    (h : step st = .ok c st') :
    st' = { st with regs := (specRegCcr i s1).1, ccr := (specRegCcr i s1).2, opc := st.pc &&& ~~~1#32, pc := st.pc + 2 } := by
  rw [step_eq st s1 w0 hf] at h
  rw [NOT_W_exec w0 s1 st' c i hp hi h, fetch_state st s1 w0 hf]

/-- NOT_L: one step consumes exactly the one instruction word (PC + 2) and leaves the Spec's registers and CCR -/
theorem NOT_L_step (st s1 st' : Cpu) (w0 : BitVec 16) (c : BitVec 8) (i : Instr)
    (hf : fetch st = .ok w0 s1) (hp : Form.pat .NOT_L w0 0 0 0 0 = true) (hi : instrOf .NOT_L w0 0 0 0 0 = some i)
    (h : step st = .ok c st') :
    st' = { st with regs := (specRegCcr i s1).1, ccr := (specRegCcr i s1).2, opc := st.pc &&& ~~~1#32, pc := st.pc + 2 } := by
  rw [step_eq st s1 w0 hf] at h
  rw [NOT_L_exec w0 s1 st' c i hp hi h, fetch_state st s1 w0 hf]

/-- AND_B_RR: one step consumes exactly the one instruction word (PC + 2) and leaves the Spec's registers and CCR -/
theorem AND_B_RR_step (st s1 st' : Cpu) (w0 : BitVec 16) (c : BitVec 8) (i : Instr)
    (hf : fetch st = .ok w0 s1) (hp : Form.pat .AND_B_RR w0 0 0 0 0 = true) (hi : instrOf .AND_B_RR w0 0 0 0 0 = some i)
    (h : step st = .ok c st') :
    st' = { st with regs := (specRegCcr i s1).1, ccr := (specRegCcr i s1).2, opc := st.pc &&& ~~~1#32, pc := st.pc + 2 } := by
  rw [step_eq st s1 w0 hf] at h
  rw [AND_B_RR_exec w0 s1 st' c i hp hi h, fetch_state st s1 w0 hf]

/-- AND_W_RR: one step consumes exactly the one instruction word (PC + 2) and leaves the Spec's registers and CCR -/
theorem AND_W_RR_step (st s1 st' : Cpu) (w0 : BitVec 16) (c : BitVec 8) (i : Instr)
    (hf : fetch st = .ok w0 s1) (hp : Form.pat .AND_W_RR w0 0 0 0 0 = true) (hi : instrOf .AND_W_RR w0 0 0 0 0 = some i)
    (h : step st = .ok c st') :
    st' = { st with regs := (specRegCcr i s1).1, ccr := (specRegCcr i s1).2, opc := st.pc &&& ~~~1#32, pc := st.pc + 2 } := by
  rw [step_eq st s1 w0 hf] at h
  rw [AND_W_RR_exec w0 s1 st' c i hp hi h, fetch_state st s1 w0 hf]

/-- AND_B_IMM: one step consumes exactly the one instruction word (PC + 2) and leaves the Spec's registers and CCR -/
theorem AND_B_IMM_step (st s1 st' : Cpu) (w0 : BitVec 16) (c : BitVec 8) (i : Instr)
    (hf : fetch st = .ok w0 s1) (hp : Form.pat .AND_B_IMM w0 0 0 0 0 = true) (hi : instrOf .AND_B_IMM w0 0 0 0 0 = some i)
    (h : step st = .ok c st') :
    st' = { st with regs := (specRegCcr i s1).1, ccr := (specRegCcr i s1).2, opc := st.pc &&& ~~~1#32, pc := st.pc + 2 } := by
  rw [step_eq st s1 w0 hf] at h
  rw [AND_B_IMM_exec w0 s1 st' c i hp hi h, fetch_state st s1 w0 hf]

/-- OR_B_RR: one step consumes exactly the one instruction word (PC + 2) and leaves the Spec's registers and CCR -/
theorem OR_B_RR_step (st s1 st' : Cpu) (w0 : BitVec 16) (c : BitVec 8) (i : Instr)
    (hf : fetch st = .ok w0 s1) (hp : Form.pat .OR_B_RR w0 0 0 0 0 = true) (hi : instrOf .OR_B_RR w0 0 0 0 0 = some i)
    (h : step st = .ok c st') :
    st' = { st with regs := (specRegCcr i s1).1, ccr := (specRegCcr i s1).2, opc := st.pc &&& ~~~1#32, pc := st.pc + 2 } := by
  rw [step_eq st s1 w0 hf] at h
  rw [OR_B_RR_exec w0 s1 st' c i hp hi h, fetch_state st s1 w0 hf]

/-- OR_W_RR: one step consumes exactly the one instruction word (PC + 2) and leaves the Spec's registers and CCR -/
theorem OR_W_RR_step (st s1 st' : Cpu) (w0 : BitVec 16) (c : BitVec 8) (i : Instr)
    (hf : fetch st = .ok w0 s1) (hp : Form.pat .OR_W_RR w0 0 0 0 0 = true) (hi : instrOf .OR_W_RR w0 0 0 0 0 = some i)
    (h : step st = .ok c st') :
    st' = { st with regs := (specRegCcr i s1).1, ccr := (specRegCcr i s1).2, opc := st.pc &&& ~~~1#32, pc := st.pc + 2 } := by
  rw [step_eq st s1 w0 hf] at h
  rw [OR_W_RR_exec w0 s1 st' c i hp hi h, fetch_state st s1 w0 hf]

/-- OR_B_IMM: one step consumes exactly the one instruction word (PC + 2) and leaves the Spec's registers and CCR -/
theorem OR_B_IMM_step (st s1 st' : Cpu) (w0 : BitVec 16) (c : BitVec 8) (i : Instr)
    (hf : fetch st = .ok w0 s1) (hp : Form.pat .OR_B_IMM w0 0 0 0 0 = true) (hi : instrOf .OR_B_IMM w0 0 0 0 0 = some i)
    (h : step st = .ok c st') :
    st' = { st with regs := (specRegCcr i s1).1, ccr := (specRegCcr i s1).2, opc := st.pc &&& ~~~1#32, pc := st.pc + 2 } := by
  rw [step_eq st s1 w0 hf] at h
  rw [OR_B_IMM_exec w0 s1 st' c i hp hi h, fetch_state st s1 w0 hf]

/-- XOR_B_RR: one step consumes exactly the one instruction word (PC + 2) and leaves the Spec's registers and CCR -/
theorem XOR_B_RR_step (st s1 st' : Cpu) (w0 : BitVec 16) (c : BitVec 8) (i : Instr)
    (hf : fetch st = .ok w0 s1) (hp : Form.pat .XOR_B_RR w0 0 0 0 0 = true) (hi : instrOf .XOR_B_RR w0 0 0 0 0 = some i)
    (h : step st = .ok c st') :
    st' = { st with regs := (specRegCcr i s1).1, ccr := (specRegCcr i s1).2, opc := st.pc &&& ~~~1#32, pc := st.pc + 2 } := by
  rw [step_eq st s1 w0 hf] at h
  rw [XOR_B_RR_exec w0 s1 st' c i hp hi h, fetch_state st s1 w0 hf]

/-- XOR_W_RR: one step consumes exactly the one instruction word (PC + 2) and leaves the Spec's registers and CCR -/
theorem XOR_W_RR_step (st s1 st' : Cpu) (w0 : BitVec 16) (c : BitVec 8) (i : Instr)
    (hf : fetch st = .ok w0 s1) (hp : Form.pat .XOR_W_RR w0 0 0 0 0 = true) (hi : instrOf .XOR_W_RR w0 0 0 0 0 = some i)
    (h : step st = .ok c st') :
    st' = { st with regs := (specRegCcr i s1).1, ccr := (specRegCcr i s1).2, opc := st.pc &&& ~~~1#32, pc := st.pc + 2 } := by
  rw [step_eq st s1 w0 hf] at h
  rw [XOR_W_RR_exec w0 s1 st' c i hp hi h, fetch_state st s1 w0 hf]

/-- XOR_B_IMM: one step consumes exactly the one instruction word (PC + 2) and leaves the Spec's registers and CCR -/
theorem XOR_B_IMM_step (st s1 st' : Cpu) (w0 : BitVec 16) (c : BitVec 8) (i : Instr)
    (hf : fetch st = .ok w0 s1) (hp : Form.pat .XOR_B_IMM w0 0 0 0 0 = true) (hi : instrOf .XOR_B_IMM w0 0 0 0 0 = some i)
    (h : step st = .ok c st') :
    st' = { st with regs := (specRegCcr i s1).1, ccr := (specRegCcr i s1).2, opc := st.pc &&& ~~~1#32, pc := st.pc + 2 } := by
  rw [step_eq st s1 w0 hf] at h
  rw [XOR_B_IMM_exec w0 s1 st' c i hp hi h, fetch_state st s1 w0 hf]

/-- BSET_RR: one step consumes exactly the one instruction word (PC + 2) and leaves the Spec's registers and CCR -/
theorem BSET_RR_step (st s1 st' : Cpu) (w0 : BitVec 16) (c : BitVec 8) (i : Instr)
    (hf : fetch st = .ok w0 s1) (hp : Form.pat .BSET_RR w0 0 0 0 0 = true) (hi : instrOf .BSET_RR w0 0 0 0 0 = some i)
    (h : step st = .ok c st') :
    st' = { st with regs := (specRegCcr i s1).1, ccr := (specRegCcr i s1).2, opc := st.pc &&& ~~~1#32, pc := st.pc + 2 } := by
  rw [step_eq st s1 w0 hf] at h
  rw [BSET_RR_exec w0 s1 st' c i hp hi h, fetch_state st s1 w0 hf]

/-- BNOT_RR: one step consumes exactly the one instruction word (PC + 2) and leaves the Spec's registers and CCR -/
theorem BNOT_RR_step (st s1 st' : Cpu) (w0 : BitVec 16) (c : BitVec 8) (i : Instr)
    (hf : fetch st = .ok w0 s1) (hp : Form.pat .BNOT_RR w0 0 0 0 0 = true) (hi : instrOf .BNOT_RR w0 0 0 0 0 = some i)
    (h : step st = .ok c st') :
    st' = { st with regs := (specRegCcr i s1).1, ccr := (specRegCcr i s1).2, opc := st.pc &&& ~~~1#32, pc := st.pc + 2 } := by
  rw [step_eq st s1 w0 hf] at h
  rw [BNOT_RR_exec w0 s1 st' c i hp hi h, fetch_state st s1 w0 hf]

/-- BCLR_RR: one step consumes exactly the one instruction word (PC + 2) and leaves the Spec's registers and CCR -/
theorem BCLR_RR_step (st s1 st' : Cpu) (w0 : BitVec 16) (c : BitVec 8) (i : Instr)
    (hf : fetch st = .ok w0 s1) (hp : Form.pat .BCLR_RR w0 0 0 0 0 = true) (hi : instrOf .BCLR_RR w0 0 0 0 0 = some i)
    (h : step st = .ok c st') :
    st' = { st with regs := (specRegCcr i s1).1, ccr := (specRegCcr i s1).2, opc := st.pc &&& ~~~1#32, pc := st.pc + 2 } := by
  rw [step_eq st s1 w0 hf] at h
  rw [BCLR_RR_exec w0 s1 st' c i hp hi h, fetch_state st s1 w0 hf]

/-- BTST_RR: one step consumes exactly the one instruction word (PC + 2) and leaves the Spec's registers and CCR -/
theorem BTST_RR_step (st s1 st' : Cpu) (w0 : BitVec 16) (c : BitVec 8) (i : Instr)
    (hf : fetch st = .ok w0 s1) (hp : Form.pat .BTST_RR w0 0 0 0 0 = true) (hi : instrOf .BTST_RR w0 0 0 0 0 = some i)
    (h : step st = .ok c st') :
    st' = { st with regs := (specRegCcr i s1).1, ccr := (specRegCcr i s1).2, opc := st.pc &&& ~~~1#32, pc := st.pc + 2 } := by
  rw [step_eq st s1 w0 hf] at h
  rw [BTST_RR_exec w0 s1 st' c i hp hi h, fetch_state st s1 w0 hf]

/-- BST_R: one step consumes exactly the one instruction word (PC + 2) and leaves the Spec's registers and CCR -/
theorem BST_R_step (st s1 st' : Cpu) (w0 : BitVec 16) (c : BitVec 8) (i : Instr)
    (hf : fetch st = .ok w0 s1) (hp : Form.pat .BST_R w0 0 0 0 0 = true) (hi : instrOf .BST_R w0 0 0 0 0 = some i)
    (h : step st = .ok c st') :
    st' = { st with regs := (specRegCcr i s1).1, ccr := (specRegCcr i s1).2, opc := st.pc &&& ~~~1#32, pc := st.pc + 2 } := by
  rw [step_eq st s1 w0 hf] at h
  rw [BST_R_exec w0 s1 st' c i hp hi h, fetch_state st s1 w0 hf]

/-- BIST_R: one step consumes exactly the one instruction word (PC + 2) and leaves the Spec's registers and CCR -/
theorem BIST_R_step (st s1 st' : Cpu) (w0 : BitVec 16) (c : BitVec 8) (i : Instr)
    (hf : fetch st = .ok w0 s1) (hp : Form.pat .BIST_R w0 0 0 0 0 = true) (hi : instrOf .BIST_R w0 0 0 0 0 = some i)
    (h : step st = .ok c st') :
    st' = { st with regs := (specRegCcr i s1).1, ccr := (specRegCcr i s1).2, opc := st.pc &&& ~~~1#32, pc := st.pc + 2 } := by
  rw [step_eq st s1 w0 hf] at h
  rw [BIST_R_exec w0 s1 st' c i hp hi h, fetch_state st s1 w0 hf]

/-- BSET_I: one step consumes exactly the one instruction word (PC + 2) and leaves the Spec's registers and CCR -/
theorem BSET_I_step (st s1 st' : Cpu) (w0 : BitVec 16) (c : BitVec 8) (i : Instr)
    (hf : fetch st = .ok w0 s1) (hp : Form.pat .BSET_I w0 0 0 0 0 = true) (hi : instrOf .BSET_I w0 0 0 0 0 = some i)
    (h : step st = .ok c st') :
    st' = { st with regs := (specRegCcr i s1).1, ccr := (specRegCcr i s1).2, opc := st.pc &&& ~~~1#32, pc := st.pc + 2 } := by
  rw [step_eq st s1 w0 hf] at h
  rw [BSET_I_exec w0 s1 st' c i hp hi h, fetch_state st s1 w0 hf]

/-- BNOT_I: one step consumes exactly the one instruction word (PC + 2) and leaves the Spec's registers and CCR -/
theorem BNOT_I_step (st s1 st' : Cpu) (w0 : BitVec 16) (c : BitVec 8) (i : Instr)
    (hf : fetch st = .ok w0 s1) (hp : Form.pat .BNOT_I w0 0 0 0 0 = true) (hi : instrOf .BNOT_I w0 0 0 0 0 = some i)
    (h : step st = .ok c st') :
    st' = { st with regs := (specRegCcr i s1).1, ccr := (specRegCcr i s1).2, opc := st.pc &&& ~~~1#32, pc := st.pc + 2 } := by
  rw [step_eq st s1 w0 hf] at h
  rw [BNOT_I_exec w0 s1 st' c i hp hi h, fetch_state st s1 w0 hf]

/-- BCLR_I: one step consumes exactly the one instruction word (PC + 2) and leaves the Spec's registers and CCR -/
theorem BCLR_I_step (st s1 st' : Cpu) (w0 : BitVec 16) (c : BitVec 8) (i : Instr)
    (hf : fetch st = .ok w0 s1) (hp : Form.pat .BCLR_I w0 0 0 0 0 = true) (hi : instrOf .BCLR_I w0 0 0 0 0 = some i)
    (h : step st = .ok c st') :
    st' = { st with regs := (specRegCcr i s1).1, ccr := (specRegCcr i s1).2, opc := st.pc &&& ~~~1#32, pc := st.pc + 2 } := by
  rw [step_eq st s1 w0 hf] at h
  rw [BCLR_I_exec w0 s1 st' c i hp hi h, fetch_state st s1 w0 hf]

/-- BTST_I: one step consumes exactly the one instruction word (PC + 2) and leaves the Spec's registers and CCR -/
theorem BTST_I_step (st s1 st' : Cpu) (w0 : BitVec 16) (c : BitVec 8) (i : Instr)
    (hf : fetch st = .ok w0 s1) (hp : Form.pat .BTST_I w0 0 0 0 0 = true) (hi : instrOf .BTST_I w0 0 0 0 0 = some i)
    (h : step st = .ok c st') :
    st' = { st with regs := (specRegCcr i s1).1, ccr := (specRegCcr i s1).2, opc := st.pc &&& ~~~1#32, pc := st.pc + 2 } := by
  rw [step_eq st s1 w0 hf] at h
  rw [BTST_I_exec w0 s1 st' c i hp hi h, fetch_state st s1 w0 hf]

/-- BOR_R: one step consumes exactly the one instruction word (PC + 2) and leaves the Spec's registers and CCR -/
theorem BOR_R_step (st s1 st' : Cpu) (w0 : BitVec 16) (c : BitVec 8) (i : Instr)
    (hf : fetch st = .ok w0 s1) (hp : Form.pat .BOR_R w0 0 0 0 0 = true) (hi : instrOf .BOR_R w0 0 0 0 0 = some i)
    (h : step st = .ok c st') :
    st' = { st with regs := (specRegCcr i s1).1, ccr := (specRegCcr i s1).2, opc := st.pc &&& ~~~1#32, pc := st.pc + 2 } := by
  rw [step_eq st s1 w0 hf] at h
  rw [BOR_R_exec w0 s1 st' c i hp hi h, fetch_state st s1 w0 hf]

/-- BIOR_R: one step consumes exactly the one instruction word (PC + 2) and leaves the Spec's registers and CCR -/
theorem BIOR_R_step (st s1 st' : Cpu) (w0 : BitVec 16) (c : BitVec 8) (i : Instr)
    (hf : fetch st = .ok w0 s1) (hp : Form.pat .BIOR_R w0 0 0 0 0 = true) (hi : instrOf .BIOR_R w0 0 0 0 0 = some i)
    (h : step st = .ok c st') :
    st' = { st with regs := (specRegCcr i s1).1, ccr := (specRegCcr i s1).2, opc := st.pc &&& ~~~1#32, pc := st.pc + 2 } := by
  rw [step_eq st s1 w0 hf] at h
  rw [BIOR_R_exec w0 s1 st' c i hp hi h, fetch_state st s1 w0 hf]

/-- BXOR_R: one step consumes exactly the one instruction word (PC + 2) and leaves the Spec's registers and CCR -/
theorem BXOR_R_step (st s1 st' : Cpu) (w0 : BitVec 16) (c : BitVec 8) (i : Instr)
    (hf : fetch st = .ok w0 s1) (hp : Form.pat .BXOR_R w0 0 0 0 0 = true) (hi : instrOf .BXOR_R w0 0 0 0 0 = some i)
    (h : step st = .ok c st') :
    st' = { st with regs := (specRegCcr i s1).1, ccr := (specRegCcr i s1).2, opc := st.pc &&& ~~~1#32, pc := st.pc + 2 } := by
  rw [step_eq st s1 w0 hf] at h
  rw [BXOR_R_exec w0 s1 st' c i hp hi h, fetch_state st s1 w0 hf]

/-- BIXOR_R: one step consumes exactly the one instruction word (PC + 2) and leaves the Spec's registers and CCR -/
theorem BIXOR_R_step (st s1 st' : Cpu) (w0 : BitVec 16) (c : BitVec 8) (i : Instr)
    (hf : fetch st = .ok w0 s1) (hp : Form.pat .BIXOR_R w0 0 0 0 0 = true) (hi : instrOf .BIXOR_R w0 0 0 0 0 = some i)
    (h : step st = .ok c st') :
    st' = { st with regs := (specRegCcr i s1).1, ccr := (specRegCcr i s1).2, opc := st.pc &&& ~~~1#32, pc := st.pc + 2 } := by
  rw [step_eq st s1 w0 hf] at h
  rw [BIXOR_R_exec w0 s1 st' c i hp hi h, fetch_state st s1 w0 hf]

/-- BAND_R: one step consumes exactly the one instruction word (PC + 2) and leaves the Spec's registers and CCR -/
theorem BAND_R_step (st s1 st' : Cpu) (w0 : BitVec 16) (c : BitVec 8) (i : Instr)
    (hf : fetch st = .ok w0 s1) (hp : Form.pat .BAND_R w0 0 0 0 0 = true) (hi : instrOf .BAND_R w0 0 0 0 0 = some i)
    (h : step st = .ok c st') :
    st' = { st with regs := (specRegCcr i s1).1, ccr := (specRegCcr i s1).2, opc := st.pc &&& ~~~1#32, pc := st.pc + 2 } := by
  rw [step_eq st s1 w0 hf] at h
  rw [BAND_R_exec w0 s1 st' c i hp hi h, fetch_state st s1 w0 hf]

/-- BIAND_R: one step consumes exactly the one instruction word (PC + 2) and leaves the Spec's registers and CCR -/
theorem BIAND_R_step (st s1 st' : Cpu) (w0 : BitVec 16) (c : BitVec 8) (i : Instr)
    (hf : fetch st = .ok w0 s1) (hp : Form.pat .BIAND_R w0 0 0 0 0 = true) (hi : instrOf .BIAND_R w0 0 0 0 0 = some i)
    (h : step st = .ok c st') :
    st' = { st with regs := (specRegCcr i s1).1, ccr := (specRegCcr i s1).2, opc := st.pc &&& ~~~1#32, pc := st.pc + 2 } := by
  rw [step_eq st s1 w0 hf] at h
  rw [BIAND_R_exec w0 s1 st' c i hp hi h, fetch_state st s1 w0 hf]

/-- BLD_R: one step consumes exactly the one instruction word (PC + 2) and leaves the Spec's registers and CCR -/
theorem BLD_R_step (st s1 st' : Cpu) (w0 : BitVec 16) (c : BitVec 8) (i : Instr)
    (hf : fetch st = .ok w0 s1) (hp : Form.pat .BLD_R w0 0 0 0 0 = true) (hi : instrOf .BLD_R w0 0 0 0 0 = some i)
    (h : step st = .ok c st') :
    st' = { st with regs := (specRegCcr i s1).1, ccr := (specRegCcr i s1).2, opc := st.pc &&& ~~~1#32, pc := st.pc + 2 } := by
  rw [step_eq st s1 w0 hf] at h
  rw [BLD_R_exec w0 s1 st' c i hp hi h, fetch_state st s1 w0 hf]

/-- BILD_R: one step consumes exactly the one instruction word (PC + 2) and leaves the Spec's registers and CCR -/
theorem BILD_R_step (st s1 st' : Cpu) (w0 : BitVec 16) (c : BitVec 8) (i : Instr)
    (hf : fetch st = .ok w0 s1) (hp : Form.pat .BILD_R w0 0 0 0 0 = true) (hi : instrOf .BILD_R w0 0 0 0 0 = some i)
    (h : step st = .ok c st') :
    st' = { st with regs := (specRegCcr i s1).1, ccr := (specRegCcr i s1).2, opc := st.pc &&& ~~~1#32, pc := st.pc + 2 } := by
  rw [step_eq st s1 w0 hf] at h
  rw [BILD_R_exec w0 s1 st' c i hp hi h, fetch_state st s1 w0 hf]


end H8.Props.C07E
