/-
  C07, part 4 — end to end for representative register forms: decode (regenerated dispatch) + handler
  (model) = the Spec's instruction, for every encoding of the form, every register file, every CCR.

  `exec_eq_*` compose the routing theorems of C07R with `leafHandler`; the `*_exec` theorems then compose
  them with the handler theorems of C01–C03.  Together: if `Cpu::exec` (as modelled) completes on a word that
  matches the form, the state it leaves is the one the manual prescribes for exactly that instruction.
-/
import H8.Props.C07R
import H8.Props.C01
import H8.Props.C02
import H8.Props.C03
namespace H8.Props.C07E
open H8 H8.Spec H8.Props

theorem runLeaf_some (n : Nat) (l : Gen.Leaf) (op op2 : BitVec 16) (h : M (BitVec 8))
    (hl : leafHandler l op op2 = some h) : runLeaf (n + 1) l op op2 = h := by
  unfold runLeaf; rw [hl]

theorem runLeaf_add_b (n : Nat) (op op2 : BitVec 16) :
    runLeaf (n + 1) .add_b__opcode op op2 = runLeaf n (Gen.add_b_route op) op op2 := rfl

theorem runLeaf_mov_b (n : Nat) (op op2 : BitVec 16) :
    runLeaf (n + 1) .mov_b__opcode op op2 = runLeaf n (Gen.mov_b_route op) op op2 := rfl

/-- single-level dispatch: `exec_route` names a leaf that has a handler -/
theorem exec_of_leaf (op : BitVec 16) (l : Gen.Leaf) (h : M (BitVec 8))
    (h1 : Gen.exec_route op = l) (hl : leafHandler l op 0 = some h) : exec op = h := by
  show runLeaf (5 + 1) (Gen.exec_route op) op 0 = h
  rw [h1, runLeaf_some 5 l op 0 h hl]

/-- two-level dispatch through `add_b` -/
theorem exec_of_add_b (op : BitVec 16) (l : Gen.Leaf) (h : M (BitVec 8))
    (h1 : Gen.exec_route op = .add_b__opcode) (h2 : Gen.add_b_route op = l)
    (hl : leafHandler l op 0 = some h) : exec op = h := by
  show runLeaf (5 + 1) (Gen.exec_route op) op 0 = h
  rw [h1, runLeaf_add_b, h2, runLeaf_some 4 l op 0 h hl]

/-- two-level dispatch through `mov_b` -/
theorem exec_of_mov_b (op : BitVec 16) (l : Gen.Leaf) (h : M (BitVec 8))
    (h1 : Gen.exec_route op = .mov_b__opcode) (h2 : Gen.mov_b_route op = l)
    (hl : leafHandler l op 0 = some h) : exec op = h := by
  show runLeaf (5 + 1) (Gen.exec_route op) op 0 = h
  rw [h1, runLeaf_mov_b, h2, runLeaf_some 4 l op 0 h hl]

theorem exec_eq_ADD_B_RR (w0 : BitVec 16) (hp : Form.pat .ADD_B_RR w0 0 0 0 0 = true) : exec w0 = addBRn w0 := by
  obtain ⟨h1, h2⟩ := C07R.route_ADD_B_RR w0 0 0 0 0 hp
  exact exec_of_add_b w0 _ _ h1 h2 rfl

theorem exec_eq_MOV_B_RR (w0 : BitVec 16) (hp : Form.pat .MOV_B_RR w0 0 0 0 0 = true) : exec w0 = movRn .B w0 := by
  obtain ⟨h1, h2⟩ := C07R.route_MOV_B_RR w0 0 0 0 0 hp
  exact exec_of_mov_b w0 _ _ h1 h2 rfl

theorem exec_eq_SHLL_B (w0 : BitVec 16) (hp : Form.pat .SHLL_B w0 0 0 0 0 = true) : exec w0 = shift .shll .B w0 := by
  exact exec_of_leaf w0 _ _ (C07R.route_SHLL_B w0 0 0 0 0 hp) rfl

theorem exec_eq_NOT_B (w0 : BitVec 16) (hp : Form.pat .NOT_B w0 0 0 0 0 = true) : exec w0 = unary .B notProc w0 := by
  exact exec_of_leaf w0 _ _ (C07R.route_NOT_B w0 0 0 0 0 hp) rfl

theorem exec_eq_INC_B (w0 : BitVec 16) (hp : Form.pat .INC_B w0 0 0 0 0 = true) : exec w0 = inc .B 1 w0 := by
  exact exec_of_leaf w0 _ _ (C07R.route_INC_B w0 0 0 0 0 hp) rfl

/-- **ADD.B Rs,Rd, decode included**: any word matching the form, any state — if `exec` completes, registers
    and CCR are the Spec's for the instruction the word encodes, and nothing else changed. -/
theorem ADD_B_RR_exec (w0 : BitVec 16) (st st' : Cpu) (c : BitVec 8) (i : Instr)
    (hp : Form.pat .ADD_B_RR w0 0 0 0 0 = true) (hi : instrOf .ADD_B_RR w0 0 0 0 0 = some i)
    (h : exec w0 st = .ok c st') :
    st' = { st with regs := (specRegCcr i st).1, ccr := (specRegCcr i st).2 } := by
  rw [exec_eq_ADD_B_RR w0 hp] at h
  exact C02.ADD_B_RR w0 st st' c i hi h

theorem SHLL_B_exec (w0 : BitVec 16) (st st' : Cpu) (c : BitVec 8) (i : Instr)
    (hp : Form.pat .SHLL_B w0 0 0 0 0 = true) (hi : instrOf .SHLL_B w0 0 0 0 0 = some i)
    (h : exec w0 st = .ok c st') :
    st' = { st with regs := (specRegCcr i st).1, ccr := (specRegCcr i st).2 } := by
  rw [exec_eq_SHLL_B w0 hp] at h
  exact C03.SHLL_B w0 st st' c i hi hp h

theorem NOT_B_exec (w0 : BitVec 16) (st st' : Cpu) (c : BitVec 8) (i : Instr)
    (hp : Form.pat .NOT_B w0 0 0 0 0 = true) (hi : instrOf .NOT_B w0 0 0 0 0 = some i)
    (h : exec w0 st = .ok c st') :
    st' = { st with regs := (specRegCcr i st).1, ccr := (specRegCcr i st).2 } := by
  rw [exec_eq_NOT_B w0 hp] at h
  exact C03.NOT_B w0 st st' c i hp hi h

theorem INC_B_exec (w0 : BitVec 16) (st st' : Cpu) (c : BitVec 8) (i : Instr)
    (hp : Form.pat .INC_B w0 0 0 0 0 = true) (hi : instrOf .INC_B w0 0 0 0 0 = some i)
    (h : exec w0 st = .ok c st') :
    st' = { st with regs := (specRegCcr i st).1, ccr := (specRegCcr i st).2 } := by
  rw [exec_eq_INC_B w0 hp] at h
  exact C02.INC_B w0 st st' c i hp hi h

end H8.Props.C07E
