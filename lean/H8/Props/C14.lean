/-
  C14 — The MES system-call trap delivers console output and handler setup faithfully.
  Theorems about `trapaEmulateMes2` / `readBytes` / `interrupt` of Model/Cpu.lean.
-/
import H8.Props.Common
import H8.Lemmas.MemBE
namespace H8.Props.C14
open H8 H8.Lemmas H8.Props

/-- any call number other than 104 (write) and 113 (set_handler) stops execution with an error,
    whatever the rest of the state -/
theorem other_calls_fail (st : Cpu) (h104 : getEr st.regs 0 ≠ 104) (h113 : getEr st.regs 0 ≠ 113) :
    trapaEmulateMes2 st = .err := by
  have hr : readRnL 0 st = .ok (getEr st.regs 0) st := readRnL_ok 0 st (by decide)
  simp only [trapaEmulateMes2, bind_ok, beq_iff_eq]
  rw [hr]
  simp only
  rw [if_neg h113, if_neg h104]
  rfl

/-- `__write` reads exactly the `n` bytes at `a, a+1, …` in order, once, and leaves the state alone -/
theorem readBytes_spec (n : Nat) (a : BitVec 32) (acc : List (BitVec 8)) (st : Cpu) (bytes : List (BitVec 8))
    (hlen : bytes.length = n)
    (hread : ∀ k (hk : k < n), st.bus.read (a + BitVec.ofNat 32 k) = .ok (bytes[k]'(hlen ▸ hk))) :
    readBytes n a acc st = .ok (acc.reverse ++ bytes) st := by
  induction n generalizing a acc bytes with
  | zero =>
    have : bytes = [] := List.length_eq_zero_iff.mp hlen
    simp [readBytes, this]
  | succ n ih =>
    match bytes, hlen with
    | b :: rest, hlen =>
      have h0 := hread 0 (Nat.succ_pos n)
      simp only [BitVec.ofNat_eq_ofNat, BitVec.add_zero, List.getElem_cons_zero] at h0
      simp only [readBytes, bind_ok, busRead, h0]
      have hrest : rest.length = n := by simpa using hlen
      rw [ih (a + 1) (b :: acc) rest hrest]
      · simp
      · intro k hk
        have := hread (k + 1) (Nat.succ_lt_succ hk)
        have e : a + 1 + BitVec.ofNat 32 k = a + BitVec.ofNat 32 (k + 1) := by
          rw [BitVec.add_assoc]; congr 1
          apply BitVec.eq_of_toNat_eq
          simp [BitVec.toNat_add, BitVec.toNat_ofNat, Nat.add_comm]
        rw [e, this]
        simp

/-- set_handler stores `address + 0x5A000000`: the low 24 bits an interrupt entry later loads into PC are
    exactly the low 24 bits of `address`, whatever its top byte -/
theorem handler_word_low24 (addr : BitVec 32) : (addr + 0x5a000000#32) &&& ADDRESS_MASK = addr &&& ADDRESS_MASK := by
  unfold ADDRESS_MASK; bv_decide

/-- vectors outside 1–63 are ignored -/
theorem set_handler_ignores (v : BitVec 32) (h : v = 0 ∨ BitVec.ule 64#32 v = true) :
    (BitVec.ult v 1 ∨ BitVec.ule 64 v) := by
  rcases h with h | h
  · subst h; left; decide
  · right; simpa using h

/-- the vector slot 4·v of a vector in 1–63 lies in the vector area (plain storage), so the stored
    handler word reads back (frame_memory_roundtrip / long_roundtrip apply) -/
theorem vector_slot_plain (v : BitVec 32) (h1 : BitVec.ule 1#32 v = true) (h2 : BitVec.ult v 64#32 = true) (k : Nat) (hk : k < 4) :
    Spec.plain ((v * 4 + BitVec.ofNat 32 k).toNat) := by
  have hv : 1 ≤ v.toNat ∧ v.toNat < 64 := by
    constructor
    · have := BitVec.ule_iff_toNat_le.mp (by simpa using h1); simpa using this
    · have := BitVec.ult_iff_toNat_lt.mp (by simpa using h2); simpa using this
  have : (v * 4 + BitVec.ofNat 32 k).toNat = v.toNat * 4 + k := by
    simp [BitVec.toNat_add, BitVec.toNat_mul, BitVec.toNat_ofNat]
    omega
  rw [this]
  unfold Spec.plain Spec.accessible Spec.isDdr Spec.isDr
  omega

/-- **the write call (ER0 = 104)**: with the argument block (fd, buffer, length) readable at ER1 and the `length`
    bytes at `buffer` forming the UTF-8 text `str`, the call emits exactly `str` once — one console output, one
    `stdout:` message — and changes nothing else (registers, CCR, PC, memory).  Any length, any text. -/
theorem write_call (st : Cpu) (a0 buf len : BitVec 32) (bytes : List (BitVec 8)) (str : String)
    (hid : getEr st.regs 0 = 104)
    (hA0 : readAbs24L (getEr st.regs 1) st = .ok a0 st)
    (hA1 : readAbs24L (getEr st.regs 1 + 4) st = .ok buf st)
    (hA2 : readAbs24L (getEr st.regs 1 + 8) st = .ok len st)
    (hlen : bytes.length = len.toNat)
    (hread : ∀ k (hk : k < len.toNat), st.bus.read (buf + BitVec.ofNat 32 k) = .ok (bytes[k]'(hlen ▸ hk)))
    (hutf : String.fromUTF8? (ByteArray.mk (bytes.map (fun b => b.toNat.toUInt8)).toArray) = some str) :
    trapaEmulateMes2 st =
      .ok () { st with out := str :: st.out, bus := { st.bus with msgs := ("stdout:" ++ str) :: st.bus.msgs } } := by
  have hr0 : readRnL 0 st = .ok (getEr st.regs 0) st := readRnL_ok 0 st (by decide)
  have hr1 : readRnL 1 st = .ok (getEr st.regs 1) st := readRnL_ok 1 st (by decide)
  have hne : ((104 : BitVec 32) == 113) = false := by decide
  have hrb := readBytes_spec len.toNat buf [] st bytes hlen hread
  simp only [List.reverse_nil, List.nil_append] at hrb
  simp only [trapaEmulateMes2, bind_ok, hr0, hid, hne, Bool.false_eq_true, if_false, beq_self_eq_true, if_true, hr1, hA0, hA1,
    hA2, hrb, hutf, modify_ok]

/-- **set_handler (ER0 = 113) for a vector in 1–63**: the call is exactly two long stores — `address + H'5A000000` into
    the vector slot 4·vector and ER5 into the handler-context slot H'FFFD10 + 4·vector — nothing else; with
    `handler_word_low24` an interrupt of that vector later loads the low 24 bits of `address` into PC. -/
theorem set_handler_call (st : Cpu) (vec addr : BitVec 32)
    (hid : getEr st.regs 0 = 113)
    (hA0 : readAbs24L (getEr st.regs 1) st = .ok vec st)
    (hA1 : readAbs24L (getEr st.regs 1 + 4) st = .ok addr st)
    (h1 : BitVec.ult vec 1 = false) (h2 : BitVec.ule 64 vec = false) :
    trapaEmulateMes2 st =
      (do writeAbs24L (vec * 4) (addr + 0x5a000000)
          let s ← M.get
          writeAbs24L (0xfffd10 + vec * 4) (getEr s.regs 5)) st := by
  have hr0 : readRnL 0 st = .ok (getEr st.regs 0) st := readRnL_ok 0 st (by decide)
  have hr1 : readRnL 1 st = .ok (getEr st.regs 1) st := readRnL_ok 1 st (by decide)
  simp only [trapaEmulateMes2, bind_ok, hr0, hid, beq_self_eq_true, if_true, hr1, hA0, hA1, h1, h2, Bool.false_eq_true,
    or_self, if_false]

/-- … and for a vector outside 1–63 it does nothing at all -/
theorem set_handler_out_of_range (st : Cpu) (vec addr : BitVec 32)
    (hid : getEr st.regs 0 = 113)
    (hA0 : readAbs24L (getEr st.regs 1) st = .ok vec st)
    (hA1 : readAbs24L (getEr st.regs 1 + 4) st = .ok addr st)
    (h : BitVec.ult vec 1 = true ∨ BitVec.ule 64 vec = true) :
    trapaEmulateMes2 st = .ok () st := by
  have hr0 : readRnL 0 st = .ok (getEr st.regs 0) st := readRnL_ok 0 st (by decide)
  have hr1 : readRnL 1 st = .ok (getEr st.regs 1) st := readRnL_ok 1 st (by decide)
  simp only [trapaEmulateMes2, bind_ok, hr0, hid, beq_self_eq_true, if_true, hr1, hA0, hA1]
  rw [if_pos h]
  rfl

-- non-vacuity: call number 1 is neither write nor set_handler
example : getEr (1 : Regs) 0 ≠ 104 ∧ getEr (1 : Regs) 0 ≠ 113 := by decide

end H8.Props.C14
