/-
  C01 — MOV/PUSH/POP move the exact value to the exact place and touch nothing else.

  Register and immediate forms (this section): for every opcode word of the form, every register
  file and every CCR, the handler leaves the initial state with exactly the destination register and
  N, Z, V replaced as the Spec prescribes (value unchanged, N/Z from it, V := 0; C, H, U, UI, I kept).
  Memory forms: big-endian composition and effective addresses are in C08/C09; the per-form
  memory theorems are listed in DESIGN.md as future work and are covered by the correspondence run.
-/
import H8.Props.Common
namespace H8.Props.C01
open H8 H8.Lemmas H8.Props

theorem MOV_B_RR (op : BitVec 16) (st st' : Cpu) (c : BitVec 8) (i : Spec.Instr)
    (hi : Spec.instrOf .MOV_B_RR op 0 0 0 0 = some i) (hp : Spec.Form.pat .MOV_B_RR op 0 0 0 0 = true)
    (h : movRn .B op st = .ok c st') :
    st' = { st with regs := (specRegCcr i st).1, ccr := (specRegCcr i st).2 } := by
  mov_reg_handler Spec.instrOf_MOV_B_RR Spec.pat_MOV_B_RR

theorem MOV_W_RR (op : BitVec 16) (st st' : Cpu) (c : BitVec 8) (i : Spec.Instr)
    (hi : Spec.instrOf .MOV_W_RR op 0 0 0 0 = some i) (hp : Spec.Form.pat .MOV_W_RR op 0 0 0 0 = true)
    (h : movRn .W op st = .ok c st') :
    st' = { st with regs := (specRegCcr i st).1, ccr := (specRegCcr i st).2 } := by
  mov_reg_handler Spec.instrOf_MOV_W_RR Spec.pat_MOV_W_RR

theorem MOV_L_RR (op : BitVec 16) (st st' : Cpu) (c : BitVec 8) (i : Spec.Instr)
    (hi : Spec.instrOf .MOV_L_RR op 0 0 0 0 = some i) (hp : Spec.Form.pat .MOV_L_RR op 0 0 0 0 = true)
    (h : movRn .L op st = .ok c st') :
    st' = { st with regs := (specRegCcr i st).1, ccr := (specRegCcr i st).2 } := by
  mov_reg_handler Spec.instrOf_MOV_L_RR Spec.pat_MOV_L_RR

theorem MOV_B_IMM (op : BitVec 16) (st st' : Cpu) (c : BitVec 8) (i : Spec.Instr)
    (hi : Spec.instrOf .MOV_B_IMM op 0 0 0 0 = some i) (hp : Spec.Form.pat .MOV_B_IMM op 0 0 0 0 = true)
    (h : movImm .B op st = .ok c st') :
    st' = { st with regs := (specRegCcr i st).1, ccr := (specRegCcr i st).2 } := by
  mov_reg_handler Spec.instrOf_MOV_B_IMM Spec.pat_MOV_B_IMM

/-- Spec sanity: MOV changes only the destination, N, Z, V (never C, H, U, UI, I) -/
theorem mov_flags_frame (sz : Spec.Sz) (v : BitVec 32) (ccr : BitVec 8) :
    Spec.movFlags sz v ccr &&& 0xf1#8 = ccr &&& 0xf1#8 := by
  cases sz <;> simp only [Spec.movFlags, Spec.nzClearV, Spec.setFlag] <;> bv_decide

end H8.Props.C01
