/-
  C08 at handler level, long operands — MOV.L through `@(d:16,ERn)` and `@aa:16`, load and store (the handler runs on
  the second instruction word `op2` and fetches the displacement / address word itself): the long is the big-endian
  composition of the four bytes at the effective address the manual defines, a store exactly the Spec's four `poke`s.
-/
import H8.Props.C01L
import H8.Props.C08W
set_option linter.unusedSimpArgs false
namespace H8.Props.C08L
open H8 H8.Lemmas H8.Props H8.Props.C01M H8.Props.C01N H8.Props.C01L H8.Props.C08D H8.Props.C08W

set_option hygiene false in
local macro "movcost_subst" : tactic => `(tactic|
  (split at h
   case h_2 => simp at h
   case h_3 => simp at h
   rename_i c1 sa h1; have := costI_state h1; subst this
   split at h
   case h_2 => simp at h
   case h_3 => simp at h
   rename_i c2 sb2 h2; have := calcStateWithAddr_state h2; subst this
   injection h with _ h; subst h))

/-- MOV.L @(d:16,ERs),ERd -/
theorem MOV_L_LD_D16 (op op2 d : BitVec 16) (st s1 st' : Cpu) (c : BitVec 8) (i : Spec.Instr)
    (hp : Spec.Form.pat .MOV_L_LD_D16 op op2 d 0 0 = true)
    (hi : Spec.instrOf .MOV_L_LD_D16 op op2 d 0 0 = some i) (hf : fetch st = .ok d s1)
    (h : movDisp16 .L op2 st = .ok c st') :
    st' = { s1 with regs := (specRegCcr i s1).1, ccr := (specRegCcr i s1).2 } := by
  rw [Spec.instrOf_MOV_L_LD_D16] at hi; simp only [Option.some.injEq] at hi; subst hi
  rw [Spec.pat_MOV_L_LD_D16] at hp; simp only [Bool.and_eq_true, beq_iff_eq] at hp
  have hdir : (op2 &&& 0x0080 == 0) = true := by bv_decide
  have h3 : (nib op2 3).ule 7#8 = true := by (simp only [nib]; bv_decide)
  have h4 : (nib op2 4).ule 7#8 = true := by (simp only [nib]; bv_decide)
  simp only [movDisp16, bind_ok, hf, hdir, if_true, getAddrDisp16, readMem, pure_ok, readRnL_ok _ _ h3] at h
  split at h
  case h_2 => simp at h
  case h_3 => simp at h
  rename_i v s2 hrd
  obtain ⟨es, ev⟩ := readAbs24L_peek _ _ _ _ hrd
  subst es
  simp only [writeRn, movPccSz, movPcc, writeRnL_ok _ _ _ h4, bind_ok, pure_ok, changeCcr_ok, writeCcr_zero, iBase, Sz.dataKind,
    Sz.dataCount] at h
  movcost_subst
  simp only [specRegCcr, Spec.exec, Spec.getReg, Spec.setReg, Spec.movFlags, Spec.eaOf, Spec.eaRegs, getER_eq, setER_eq,
    Spec.Sz.bytes, x16]
  have hidx : (BitVec.setWidth 8 (BitVec.setWidth 3 (BitVec.extractLsb' 4 3 op2))) = nib op2 3 := by
    simp only [nib]; bv_decide
  have hd : (BitVec.setWidth 8 (Spec.lo3 (Spec.z4 (BitVec.setWidth 3 (BitVec.extractLsb' 0 3 op2))))) = nib op2 4 := by
    simp only [nib, Spec.lo3, Spec.z4]; bv_decide
  rw [hidx, hd, ← sum24, ← ev]
  generalize s2.regs = r; generalize s2.ccr = cc
  congr 1

/-- MOV.L ERs,@(d:16,ERd) -/
theorem MOV_L_ST_D16 (op op2 d : BitVec 16) (st s1 st' : Cpu) (c : BitVec 8) (i : Spec.Instr)
    (hp : Spec.Form.pat .MOV_L_ST_D16 op op2 d 0 0 = true)
    (hi : Spec.instrOf .MOV_L_ST_D16 op op2 d 0 0 = some i) (hf : fetch st = .ok d s1)
    (h : movDisp16 .L op2 st = .ok c st')
    (f0 : Spec.isSfr ((getEr s1.regs (nib op2 3 &&& 7) + d.signExtend 32) &&& ADDRESS_MASK).toNat = false)
    (f1 : Spec.isSfr (((getEr s1.regs (nib op2 3 &&& 7) + d.signExtend 32) &&& ADDRESS_MASK) + 1).toNat = false)
    (f2 : Spec.isSfr (((getEr s1.regs (nib op2 3 &&& 7) + d.signExtend 32) &&& ADDRESS_MASK) + 2).toNat = false)
    (f3 : Spec.isSfr (((getEr s1.regs (nib op2 3 &&& 7) + d.signExtend 32) &&& ADDRESS_MASK) + 2 + 1).toNat = false) :
    st' = { s1 with regs := (specRegCcrBus i s1).1, ccr := (specRegCcrBus i s1).2.1, bus := (specRegCcrBus i s1).2.2 } := by
  rw [Spec.instrOf_MOV_L_ST_D16] at hi; simp only [Option.some.injEq] at hi; subst hi
  rw [Spec.pat_MOV_L_ST_D16] at hp; simp only [Bool.and_eq_true, beq_iff_eq] at hp
  have hdir : (op2 &&& 0x0080 == 0) = false := by bv_decide
  have h3 : (nib op2 3 &&& 7).ule 7#8 = true := by (simp only [nib]; bv_decide)
  have h4 : (nib op2 4).ule 7#8 = true := by (simp only [nib]; bv_decide)
  simp only [movDisp16, bind_ok, hf, hdir, Bool.false_eq_true, if_false, getAddrDisp16, writeMem, readRn, pure_ok,
    readRnL_ok _ _ h3, readRnL_ok _ _ h4] at h
  split at h
  case h_2 => simp at h
  case h_3 => simp at h
  rename_i u s2 hw
  have ew := writeAbs24L_poke _ _ _ _ hw f0 f1 f2 f3
  subst ew
  simp only [movPccSz, movPcc, bind_ok, pure_ok, changeCcr_ok, writeCcr_zero, iBase, Sz.dataKind, Sz.dataCount] at h
  movcost_subst
  simp only [specRegCcrBus, Spec.exec, Spec.getReg, Spec.setReg, Spec.movFlags, Spec.eaOf, Spec.eaRegs, getER_eq, setER_eq,
    Spec.Sz.bytes, x16]
  have hidx : (BitVec.setWidth 8 (BitVec.setWidth 3 (BitVec.extractLsb' 4 3 op2))) = nib op2 3 &&& 7 := by
    simp only [nib]; bv_decide
  have hd : (BitVec.setWidth 8 (Spec.lo3 (Spec.z4 (BitVec.setWidth 3 (BitVec.extractLsb' 0 3 op2))))) = nib op2 4 := by
    simp only [nib, Spec.lo3, Spec.z4]; bv_decide
  rw [hidx, hd, ← sum24]
  generalize s1.regs = r; generalize s1.ccr = cc; generalize s1.bus = bus
  congr 1

theorem abs16_setWidth (a : BitVec 16) : getAddrAbs16 a = (getAddrAbs16 a) &&& ADDRESS_MASK := by
  unfold getAddrAbs16 ADDRESS_MASK
  split <;> rename_i hc <;> simp only [beq_iff_eq] at hc <;> bv_decide

theorem abs16_24 (a : BitVec 16) : (getAddrAbs16 a).setWidth 24 = a.signExtend 24 := by
  unfold getAddrAbs16
  split <;> rename_i hc <;> simp only [beq_iff_eq] at hc <;> bv_decide

/-- MOV.L @aa:16,ERd -/
theorem MOV_L_LD_AA16 (op op2 a : BitVec 16) (st s1 st' : Cpu) (c : BitVec 8) (i : Spec.Instr)
    (hp : Spec.Form.pat .MOV_L_LD_AA16 op op2 a 0 0 = true)
    (hi : Spec.instrOf .MOV_L_LD_AA16 op op2 a 0 0 = some i) (hf : fetch st = .ok a s1)
    (h : movAbs16 .L op2 st = .ok c st') :
    st' = { s1 with regs := (specRegCcr i s1).1, ccr := (specRegCcr i s1).2 } := by
  rw [Spec.instrOf_MOV_L_LD_AA16] at hi; simp only [Option.some.injEq] at hi; subst hi
  rw [Spec.pat_MOV_L_LD_AA16] at hp; simp only [Bool.and_eq_true, beq_iff_eq] at hp
  have htag : (op2 &&& 0xfff0 == 0x6b00) = true := by bv_decide
  have hsz : (Sz.L == Sz.B) = false := by decide
  have h4 : (nib op2 4).ule 7#8 = true := by (simp only [nib]; bv_decide)
  simp only [movAbs16, bind_ok, hf, hsz, Bool.false_eq_true, if_false, htag, if_true, readMem, pure_ok] at h
  rw [abs16_setWidth] at h
  split at h
  case h_2 => simp at h
  case h_3 => simp at h
  rename_i v s2 hrd
  obtain ⟨es, ev⟩ := readAbs24L_peek _ _ _ _ hrd
  subst es
  simp only [writeRn, movPccSz, movPcc, writeRnL_ok _ _ _ h4, bind_ok, pure_ok, changeCcr_ok, writeCcr_zero, iBase, Sz.dataKind,
    Sz.dataCount] at h
  movcost_subst
  simp only [specRegCcr, Spec.exec, Spec.getReg, Spec.setReg, Spec.movFlags, Spec.eaOf, Spec.eaRegs, getER_eq, setER_eq,
    Spec.Sz.bytes, x16]
  have hd : (BitVec.setWidth 8 (Spec.lo3 (Spec.z4 (BitVec.setWidth 3 (BitVec.extractLsb' 0 3 op2))))) = nib op2 4 := by
    simp only [nib, Spec.lo3, Spec.z4]; bv_decide
  rw [hd, ← abs16_24, ← ev]
  generalize s2.regs = r; generalize s2.ccr = cc
  congr 1

/-- MOV.L ERs,@aa:16 -/
theorem MOV_L_ST_AA16 (op op2 a : BitVec 16) (st s1 st' : Cpu) (c : BitVec 8) (i : Spec.Instr)
    (hp : Spec.Form.pat .MOV_L_ST_AA16 op op2 a 0 0 = true)
    (hi : Spec.instrOf .MOV_L_ST_AA16 op op2 a 0 0 = some i) (hf : fetch st = .ok a s1)
    (h : movAbs16 .L op2 st = .ok c st')
    (f0 : Spec.isSfr ((getAddrAbs16 a) &&& ADDRESS_MASK).toNat = false)
    (f1 : Spec.isSfr (((getAddrAbs16 a) &&& ADDRESS_MASK) + 1).toNat = false)
    (f2 : Spec.isSfr (((getAddrAbs16 a) &&& ADDRESS_MASK) + 2).toNat = false)
    (f3 : Spec.isSfr (((getAddrAbs16 a) &&& ADDRESS_MASK) + 2 + 1).toNat = false) :
    st' = { s1 with regs := (specRegCcrBus i s1).1, ccr := (specRegCcrBus i s1).2.1, bus := (specRegCcrBus i s1).2.2 } := by
  rw [Spec.instrOf_MOV_L_ST_AA16] at hi; simp only [Option.some.injEq] at hi; subst hi
  rw [Spec.pat_MOV_L_ST_AA16] at hp; simp only [Bool.and_eq_true, beq_iff_eq] at hp
  have htag : (op2 &&& 0xfff0 == 0x6b00) = false := by bv_decide
  have hsz : (Sz.L == Sz.B) = false := by decide
  have h4 : (nib op2 4).ule 7#8 = true := by (simp only [nib]; bv_decide)
  simp only [movAbs16, bind_ok, hf, hsz, htag, Bool.false_eq_true, if_false, writeMem, readRn, pure_ok, readRnL_ok _ _ h4] at h
  rw [abs16_setWidth] at h
  split at h
  case h_2 => simp at h
  case h_3 => simp at h
  rename_i u s2 hw
  have ew := writeAbs24L_poke _ _ _ _ hw f0 f1 f2 f3
  subst ew
  simp only [movPccSz, movPcc, bind_ok, pure_ok, changeCcr_ok, writeCcr_zero, iBase, Sz.dataKind, Sz.dataCount] at h
  movcost_subst
  simp only [specRegCcrBus, Spec.exec, Spec.getReg, Spec.setReg, Spec.movFlags, Spec.eaOf, Spec.eaRegs, getER_eq, setER_eq,
    Spec.Sz.bytes, x16]
  have hd : (BitVec.setWidth 8 (Spec.lo3 (Spec.z4 (BitVec.setWidth 3 (BitVec.extractLsb' 0 3 op2))))) = nib op2 4 := by
    simp only [nib, Spec.lo3, Spec.z4]; bv_decide
  rw [hd, ← abs16_24]
  generalize s1.regs = r; generalize s1.ccr = cc; generalize s1.bus = bus
  congr 1

/-! ### aa:24 (two address words) -/

theorem abs24_mask (hi lo : BitVec 16) (h0 : hi &&& 0xff00#16 = 0x0000#16) :
    (hi.setWidth 32 <<< 16) ||| lo.setWidth 32 = ((hi.setWidth 32 <<< 16) ||| lo.setWidth 32) &&& ADDRESS_MASK := by
  unfold ADDRESS_MASK; bv_decide

theorem abs24_24 (hi lo : BitVec 16) :
    ((hi.setWidth 32 <<< 16) ||| lo.setWidth 32).setWidth 24 =
      (BitVec.setWidth 24 (BitVec.extractLsb' 0 8 hi) <<< 16) ||| BitVec.setWidth 24 (BitVec.extractLsb' 0 16 lo) := by
  bv_decide

/-- MOV.L @aa:24,ERd -/
theorem MOV_L_LD_AA24 (op op2 hi lo : BitVec 16) (st s1 s2 st' : Cpu) (c : BitVec 8) (i : Spec.Instr)
    (hp : Spec.Form.pat .MOV_L_LD_AA24 op op2 hi lo 0 = true)
    (hi' : Spec.instrOf .MOV_L_LD_AA24 op op2 hi lo 0 = some i) (hf : fetch st = .ok hi s1) (hf2 : fetch s1 = .ok lo s2)
    (h : movAbs24 .L op2 st = .ok c st') :
    st' = { s2 with regs := (specRegCcr i s2).1, ccr := (specRegCcr i s2).2 } := by
  rw [Spec.instrOf_MOV_L_LD_AA24] at hi'; simp only [Option.some.injEq] at hi'; subst hi'
  rw [Spec.pat_MOV_L_LD_AA24] at hp; simp only [Bool.and_eq_true, beq_iff_eq] at hp
  have htag : (op2 &&& 0xfff0 == 0x6b20) = true := by bv_decide
  have hsz : (Sz.L == Sz.B) = false := by decide
  have h4 : (nib op2 4).ule 7#8 = true := by (simp only [nib]; bv_decide)
  simp only [movAbs24, bind_ok, C08D.fetch32_ok _ _ _ _ _ hf hf2, hsz, Bool.false_eq_true, if_false, htag, if_true, readMem,
    pure_ok] at h
  rw [abs24_mask hi lo hp.1.1.2] at h
  split at h
  case h_2 => simp at h
  case h_3 => simp at h
  rename_i v s3 hrd
  obtain ⟨es, ev⟩ := readAbs24L_peek _ _ _ _ hrd
  subst es
  simp only [writeRn, movPccSz, movPcc, writeRnL_ok _ _ _ h4, bind_ok, pure_ok, changeCcr_ok, writeCcr_zero, iBase, Sz.dataKind,
    Sz.dataCount] at h
  movcost_subst
  simp only [specRegCcr, Spec.exec, Spec.getReg, Spec.setReg, Spec.movFlags, Spec.eaOf, Spec.eaRegs, getER_eq, setER_eq,
    Spec.Sz.bytes]
  have hd : (BitVec.setWidth 8 (Spec.lo3 (Spec.z4 (BitVec.setWidth 3 (BitVec.extractLsb' 0 3 op2))))) = nib op2 4 := by
    simp only [nib, Spec.lo3, Spec.z4]; bv_decide
  rw [hd, ← abs24_24, ← ev]
  generalize s3.regs = r; generalize s3.ccr = cc
  congr 1

/-- MOV.L ERs,@aa:24 -/
theorem MOV_L_ST_AA24 (op op2 hi lo : BitVec 16) (st s1 s2 st' : Cpu) (c : BitVec 8) (i : Spec.Instr)
    (hp : Spec.Form.pat .MOV_L_ST_AA24 op op2 hi lo 0 = true)
    (hi' : Spec.instrOf .MOV_L_ST_AA24 op op2 hi lo 0 = some i) (hf : fetch st = .ok hi s1) (hf2 : fetch s1 = .ok lo s2)
    (h : movAbs24 .L op2 st = .ok c st')
    (f0 : Spec.isSfr (((hi.setWidth 32 <<< 16) ||| lo.setWidth 32) &&& ADDRESS_MASK).toNat = false)
    (f1 : Spec.isSfr ((((hi.setWidth 32 <<< 16) ||| lo.setWidth 32) &&& ADDRESS_MASK) + 1).toNat = false)
    (f2 : Spec.isSfr ((((hi.setWidth 32 <<< 16) ||| lo.setWidth 32) &&& ADDRESS_MASK) + 2).toNat = false)
    (f3 : Spec.isSfr ((((hi.setWidth 32 <<< 16) ||| lo.setWidth 32) &&& ADDRESS_MASK) + 2 + 1).toNat = false) :
    st' = { s2 with regs := (specRegCcrBus i s2).1, ccr := (specRegCcrBus i s2).2.1, bus := (specRegCcrBus i s2).2.2 } := by
  rw [Spec.instrOf_MOV_L_ST_AA24] at hi'; simp only [Option.some.injEq] at hi'; subst hi'
  rw [Spec.pat_MOV_L_ST_AA24] at hp; simp only [Bool.and_eq_true, beq_iff_eq] at hp
  have htag : (op2 &&& 0xfff0 == 0x6b20) = false := by bv_decide
  have hsz : (Sz.L == Sz.B) = false := by decide
  have h4 : (nib op2 4).ule 7#8 = true := by (simp only [nib]; bv_decide)
  simp only [movAbs24, bind_ok, C08D.fetch32_ok _ _ _ _ _ hf hf2, hsz, htag, Bool.false_eq_true, if_false, writeMem, readRn,
    pure_ok, readRnL_ok _ _ h4] at h
  rw [abs24_mask hi lo hp.1.1.2] at h
  split at h
  case h_2 => simp at h
  case h_3 => simp at h
  rename_i u s3 hw
  have ew := writeAbs24L_poke _ _ _ _ hw f0 f1 f2 f3
  subst ew
  simp only [movPccSz, movPcc, bind_ok, pure_ok, changeCcr_ok, writeCcr_zero, iBase, Sz.dataKind, Sz.dataCount] at h
  movcost_subst
  simp only [specRegCcrBus, Spec.exec, Spec.getReg, Spec.setReg, Spec.movFlags, Spec.eaOf, Spec.eaRegs, getER_eq, setER_eq,
    Spec.Sz.bytes]
  have hd : (BitVec.setWidth 8 (Spec.lo3 (Spec.z4 (BitVec.setWidth 3 (BitVec.extractLsb' 0 3 op2))))) = nib op2 4 := by
    simp only [nib, Spec.lo3, Spec.z4]; bv_decide
  rw [hd, ← abs24_24]
  generalize s2.regs = r; generalize s2.ccr = cc; generalize s2.bus = bus
  congr 1

end H8.Props.C08L
