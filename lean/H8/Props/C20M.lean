/-
  C20, multiply / divide — MULXU.B/W and DIVXU.B/W are charged one fetch cycle at the instruction's own address
  plus the manual's internal-operation count (12 for the byte forms, 20 for the word forms), both looked up
  with the bus settings in force.
-/
import H8.Props.C20R
import H8.Props.C02M
set_option linter.unusedSimpArgs false
namespace H8.Props.C20M
open H8 H8.Lemmas H8.Props

/-- internal-operation states are charged one state each, whatever the bus settings and the address: the
    *generated* cost function returns the count itself for kind N (or fails) -/
theorem internal_states (abwcr astcr wcrh wcrl drcra n : BitVec 8) (a : BitVec 32) :
    R8.val (Gen.calc_state_with_addr abwcr astcr wcrh wcrl drcra .N n a) = n := by
  simp only [Gen.calc_state_with_addr, Gen.get_area_index, Gen.check_dram_area, Gen.get_wait_state,
    Rbind_8_8, Rbind_1_8, R8.isErr, R8.val, reduceCtorEq, beq_self_eq_true, beq_iff_eq, ↓reduceIte, Bool.false_eq_true] at *
  bv_decide

/-- … so the N part of a charge is the manual's count -/
theorem calcState_N (n c : BitVec 8) (s s' : Cpu) (h : calcState .N n s = .ok c s') : c = n := by
  simp only [calcState, calcStateWithAddr, costAt] at h
  split at h
  · simp at h
  · split at h
    · rename_i c0 heq
      simp only [Res.ok.injEq] at h
      rw [← h.1]
      split at heq
      · split at heq
        · simp at heq
        · simp only [Option.some.injEq] at heq
          rw [← heq]
          exact internal_states _ _ _ _ _ _ _
      · simp at heq
    · simp at h

/-- `c` = `costI i` (looked up in a state with the instruction's address and the bus of `st`) + `n` internal states -/
def ChargedIN (i n : BitVec 8) (st : Cpu) (c : BitVec 8) : Prop :=
  ∃ s c1, costI i s = .ok c1 s ∧ s.opc = st.opc ∧ s.bus = st.bus ∧ c = c1 + n

set_option hygiene false in
local macro "cost_IN" : tactic => `(tactic|
  (split at h
   case h_2 => simp at h
   case h_3 => simp at h
   rename_i c1 sa h1; have := costI_state h1; subst this
   split at h
   case h_2 => simp at h
   case h_3 => simp at h
   rename_i c2 sb h2; have := calcState_state h2; subst this
   have hn := calcState_N _ _ _ _ h2; subst hn
   injection h with hc _
   exact ⟨_, c1, h1, rfl, rfl, hc.symm⟩))

theorem cost_MULXU_B (op : BitVec 16) (st st' : Cpu) (c : BitVec 8)
    (h : mulxuB op st = .ok c st') : ChargedIN 1 12 st c ∧ Spec.Form.mix .MULXU_B = { i := 1, n := 12 } := by
  refine ⟨?_, rfl⟩
  simp only [mulxuB, bind_ok, pure_ok, readRnB_nib, readRnW_nib, writeRnW_nib] at h
  cost_IN

theorem cost_MULXU_W (op : BitVec 16) (st st' : Cpu) (c : BitVec 8) (hp : Spec.Form.pat .MULXU_W op 0 0 0 0 = true)
    (h : mulxuW op st = .ok c st') : ChargedIN 1 20 st c ∧ Spec.Form.mix .MULXU_W = { i := 1, n := 20 } := by
  refine ⟨?_, rfl⟩
  rw [Spec.pat_MULXU_W] at hp; simp only [Bool.and_eq_true, beq_iff_eq] at hp
  have h4 : (nib op 4).ule 7#8 = true := by (simp only [nib]; bv_decide)
  simp only [mulxuW, bind_ok, pure_ok, readRnW_nib, readRnL_ok _ _ h4, writeRnL_ok _ _ _ h4] at h
  cost_IN

theorem cost_DIVXU_B (op : BitVec 16) (st st' : Cpu) (c : BitVec 8)
    (h : divxuB op st = .ok c st') : ChargedIN 1 12 st c ∧ Spec.Form.mix .DIVXU_B = { i := 1, n := 12 } := by
  refine ⟨?_, rfl⟩
  simp only [divxuB, bind_ok, pure_ok, readRnB_nib, readRnW_nib, writeRnW_nib, C02M.writeCcr_ite] at h
  cost_IN

theorem cost_DIVXU_W (op : BitVec 16) (st st' : Cpu) (c : BitVec 8)
    (h : divxuW op st = .ok c st') : ChargedIN 1 20 st c ∧ Spec.Form.mix .DIVXU_W = { i := 1, n := 20 } := by
  refine ⟨?_, rfl⟩
  have h4 : (nib op 4 &&& 0b111).ule 7#8 = true := by (simp only [nib]; bv_decide)
  simp only [divxuW, bind_ok, pure_ok, readRnW_nib, readRnL_ok _ _ h4, writeRnL_ok _ _ _ h4, C02M.writeCcr_ite] at h
  cost_IN

end H8.Props.C20M
