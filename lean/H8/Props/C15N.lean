/-
  C15 — no handler of the model that does not fetch further instruction words can end in a panic, from ANY
  state and for ANY opcode word: `NP (handler op)`.

  Generated skeleton (one theorem per `M`-valued definition of Model/Cpu.lean, in source order, each proved by
  unfolding and the `np_tac` closure rules of Lemmas/NoPanic.lean, with the theorems proved so far as lemmas);
  definitions that call `fetch` are absent: `fetch` is the one modelled panic site (`C15.fetch_panics_iff`).
-/
import Std.Tactic.BVDecide
import H8.Lemmas.NoPanic
import H8.Lemmas.Alu
import H8.Model.Exec
set_option linter.unusedVariables false
namespace H8.Props.C15N
open H8 H8.Lemmas

syntax "np_lem" : tactic
macro_rules | `(tactic| np_lem) => `(tactic| fail "np_lem: no lemma applies")

macro "np_step" : tactic => `(tactic| with_reducible first
  | np_lem
  | apply NP_bind | apply NP_ite | intro _
  | exact NP_pure _ | exact NP_get | exact NP_modify _ | exact NP_fail
  | exact NP_busRead _ | exact NP_busWrite _ _
  | exact NP_readRnB _ | exact NP_writeRnB _ _ | exact NP_readRnW _ | exact NP_writeRnW _ _
  | exact NP_readRnL _ | exact NP_writeRnL _ _ | exact NP_readRn _ _ | exact NP_writeRn _ _ _
  | exact NP_writeCcr_ite _ _ | exact NP_writeCcr_zero _ | exact NP_writeCcr_one _
  | exact NP_changeCcr _ _ | exact NP_readCcr _
  | exact NP_calcStateWithAddr _ _ _ | exact NP_calcState _ _ | exact NP_costI _
  | exact NP_pcDisp _
  | dsimp only
  | split)

macro "np_tac" : tactic => `(tactic| repeat' np_step)

/-! ### definitions by pattern matching -/

theorem NP_movPcc {n : Nat} (v : BitVec n) : NP (movPcc v) := by unfold movPcc; np_tac
macro_rules | `(tactic| np_lem) => `(tactic| with_reducible exact NP_movPcc ..)
theorem NP_movPccSz (sz : Sz) (v : BitVec 32) : NP (movPccSz sz v) := by cases sz <;> simp only [movPccSz] <;> np_tac
macro_rules | `(tactic| np_lem) => `(tactic| with_reducible exact NP_movPccSz ..)
theorem NP_readAbs24W (a : BitVec 32) : NP (readAbs24W a) := by unfold readAbs24W; np_tac
macro_rules | `(tactic| np_lem) => `(tactic| with_reducible exact NP_readAbs24W ..)
theorem NP_writeAbs24W (a : BitVec 32) (v : BitVec 16) : NP (writeAbs24W a v) := by unfold writeAbs24W; np_tac
macro_rules | `(tactic| np_lem) => `(tactic| with_reducible exact NP_writeAbs24W ..)
theorem NP_readAbs24L (a : BitVec 32) : NP (readAbs24L a) := by unfold readAbs24L; np_tac
macro_rules | `(tactic| np_lem) => `(tactic| with_reducible exact NP_readAbs24L ..)
theorem NP_writeAbs24L (a : BitVec 32) (v : BitVec 32) : NP (writeAbs24L a v) := by unfold writeAbs24L; np_tac
macro_rules | `(tactic| np_lem) => `(tactic| with_reducible exact NP_writeAbs24L ..)
theorem NP_readMem (sz : Sz) (a : BitVec 32) : NP (readMem sz a) := by cases sz <;> simp only [readMem] <;> np_tac
macro_rules | `(tactic| np_lem) => `(tactic| with_reducible exact NP_readMem ..)
theorem NP_writeMem (sz : Sz) (a v : BitVec 32) : NP (writeMem sz a v) := by cases sz <;> simp only [writeMem] <;> np_tac
macro_rules | `(tactic| np_lem) => `(tactic| with_reducible exact NP_writeMem ..)
theorem NP_logicFlags {n : Nat} (r : BitVec n) : NP (logicFlags r) := by unfold logicFlags; np_tac
macro_rules | `(tactic| np_lem) => `(tactic| with_reducible exact NP_logicFlags ..)
theorem NP_logicFlagsSz (sz : Sz) (v : BitVec 32) : NP (logicFlagsSz sz v) := by cases sz <;> simp only [logicFlagsSz] <;> np_tac
macro_rules | `(tactic| np_lem) => `(tactic| with_reducible exact NP_logicFlagsSz ..)

/-! ### procedures that take a procedure -/

theorem NP_atSz1 (sz : Sz) (f : {n : Nat} → BitVec n → M (BitVec n)) (hf : ∀ {n : Nat} (x : BitVec n), NP (f x))
    (a : BitVec 32) : NP (atSz1 sz f a) := by
  cases sz <;> simp only [atSz1]
  · exact NP_bind (hf _) (fun _ => NP_pure _)
  · exact NP_bind (hf _) (fun _ => NP_pure _)
  · exact hf _

theorem NP_aluImmB (proc : BitVec 8 → BitVec 8 → M (BitVec 8)) (hp : ∀ d s, NP (proc d s)) (wb : Bool) (op : BitVec 16) :
    NP (aluImmB proc wb op) := by
  cases wb <;> simp only [aluImmB, Bool.false_eq_true, if_false, if_true] <;>
    refine NP_bind (NP_readRnB _) (fun d => NP_bind (hp _ _) (fun res => ?_)) <;> np_tac

theorem NP_unary (sz : Sz) (proc : {n : Nat} → BitVec n → M (BitVec n)) (hp : ∀ {n : Nat} (x : BitVec n), NP (proc x))
    (op : BitVec 16) : NP (unary sz proc op) := by
  unfold unary
  refine NP_bind (NP_readRn _ _) (fun d => NP_bind (NP_atSz1 sz (fun {n} => proc) (fun {n} x => hp x) d) (fun res => ?_))
  exact NP_bind (NP_writeRn _ _ _) (fun _ => NP_costI _)

/-- the bit accumulators hand `write_ccr` a value computed from the operand bit and the carry just read: 0 or 1 -/
theorem bacc_value (o : BAcc) (v imm ccr : BitVec 8) :
    BAcc.ap o v imm ((ccr >>> 0) &&& 1) = 0 ∨ BAcc.ap o v imm ((ccr >>> 0) &&& 1) = 1 := by
  cases o <;> simp only [BAcc.ap] <;> bv_decide

theorem NP_bacc_tail {β} (o : BAcc) (v imm : BitVec 8) (k : Unit → M β) (hk : ∀ u, NP (k u)) :
    NP (readCcr 0 >>= fun c => writeCcr 0 (BAcc.ap o v imm c) >>= k) := by
  intro s
  simp only [bind_ok, readCcr_ok]
  rcases bacc_value o v imm s.ccr with h | h <;> rw [h]
  · rw [writeCcr_zero]; exact hk _ _
  · rw [writeCcr_one]; exact hk _ _

theorem NP_readBytes : ∀ (n : Nat) (a : BitVec 32) (acc : List (BitVec 8)), NP (readBytes n a acc)
  | 0, _, _ => by simp only [readBytes]; exact NP_pure _
  | n + 1, a, acc => by
    simp only [readBytes]
    exact NP_bind (NP_busRead _) (fun b => NP_readBytes n (a + 1) (b :: acc))
macro_rules | `(tactic| np_lem) => `(tactic| with_reducible exact NP_readBytes ..)

/-! ### one theorem per definition, in source order -/

theorem NP_getAddrErn (f : BitVec 8) : NP (getAddrErn f) := by unfold getAddrErn; np_tac
macro_rules | `(tactic| np_lem) => `(tactic| with_reducible exact NP_getAddrErn ..)
theorem NP_getAddrDisp16 (f : BitVec 8) (disp : BitVec 16) : NP (getAddrDisp16 f disp) := by unfold getAddrDisp16; np_tac
macro_rules | `(tactic| np_lem) => `(tactic| with_reducible exact NP_getAddrDisp16 ..)
theorem NP_getAddrDisp24 (f : BitVec 8) (disp : BitVec 32) : NP (getAddrDisp24 f disp) := by unfold getAddrDisp24; np_tac
macro_rules | `(tactic| np_lem) => `(tactic| with_reducible exact NP_getAddrDisp24 ..)
theorem NP_readIncErn (sz : Sz) (f : BitVec 8) : NP (readIncErn sz f) := by unfold readIncErn; np_tac
macro_rules | `(tactic| np_lem) => `(tactic| with_reducible exact NP_readIncErn ..)
theorem NP_writeIncErn (sz : Sz) (f : BitVec 8) (v : BitVec 32) : NP (writeIncErn sz f v) := by unfold writeIncErn; np_tac
macro_rules | `(tactic| np_lem) => `(tactic| with_reducible exact NP_writeIncErn ..)
theorem NP_writeDecErn (sz : Sz) (f : BitVec 8) (v : BitVec 32) : NP (writeDecErn sz f v) := by unfold writeDecErn; np_tac
macro_rules | `(tactic| np_lem) => `(tactic| with_reducible exact NP_writeDecErn ..)
theorem NP_addProc {n : Nat} (dest src : BitVec n) : NP (addProc dest src) := by unfold addProc; np_tac
macro_rules | `(tactic| np_lem) => `(tactic| with_reducible exact NP_addProc ..)
theorem NP_subCalc {n : Nat} (dest src : BitVec n) : NP (subCalc dest src) := by unfold subCalc; np_tac
macro_rules | `(tactic| np_lem) => `(tactic| with_reducible exact NP_subCalc ..)
theorem NP_addxProc (dest src : BitVec 8) : NP (addxProc dest src) := by unfold addxProc; np_tac
macro_rules | `(tactic| np_lem) => `(tactic| with_reducible exact NP_addxProc ..)
theorem NP_negProc {n : Nat} (value : BitVec n) : NP (negProc value) := by unfold negProc; np_tac
macro_rules | `(tactic| np_lem) => `(tactic| with_reducible exact NP_negProc ..)
theorem NP_movRn (sz : Sz) (op : BitVec 16) : NP (movRn sz op) := by unfold movRn; np_tac
macro_rules | `(tactic| np_lem) => `(tactic| with_reducible exact NP_movRn ..)
theorem NP_movImm_B (op : BitVec 16) : NP (movImm .B op) := by unfold movImm; np_tac
macro_rules | `(tactic| np_lem) => `(tactic| with_reducible exact NP_movImm_B ..)
theorem NP_movErn (sz : Sz) (w : BitVec 16) : NP (movErn sz w) := by unfold movErn; np_tac
macro_rules | `(tactic| np_lem) => `(tactic| with_reducible exact NP_movErn ..)
theorem NP_movIncOrDec (sz : Sz) (w : BitVec 16) : NP (movIncOrDec sz w) := by unfold movIncOrDec; np_tac
macro_rules | `(tactic| np_lem) => `(tactic| with_reducible exact NP_movIncOrDec ..)
theorem NP_movBAbs8 (op : BitVec 16) : NP (movBAbs8 op) := by unfold movBAbs8; np_tac
macro_rules | `(tactic| np_lem) => `(tactic| with_reducible exact NP_movBAbs8 ..)
theorem NP_addBImm (op : BitVec 16) : NP (addBImm op) := by unfold addBImm; exact NP_aluImmB _ (fun d s => NP_addProc d s) _ _
macro_rules | `(tactic| np_lem) => `(tactic| with_reducible exact NP_addBImm ..)
theorem NP_addBRn (op : BitVec 16) : NP (addBRn op) := by unfold addBRn; np_tac
macro_rules | `(tactic| np_lem) => `(tactic| with_reducible exact NP_addBRn ..)
theorem NP_addWRn (op : BitVec 16) : NP (addWRn op) := by unfold addWRn; np_tac
macro_rules | `(tactic| np_lem) => `(tactic| with_reducible exact NP_addWRn ..)
theorem NP_addLRn (op : BitVec 16) : NP (addLRn op) := by unfold addLRn; np_tac
macro_rules | `(tactic| np_lem) => `(tactic| with_reducible exact NP_addLRn ..)
theorem NP_subB (op : BitVec 16) : NP (subB op) := by unfold subB; np_tac
macro_rules | `(tactic| np_lem) => `(tactic| with_reducible exact NP_subB ..)
theorem NP_subWRn (op : BitVec 16) : NP (subWRn op) := by unfold subWRn; np_tac
macro_rules | `(tactic| np_lem) => `(tactic| with_reducible exact NP_subWRn ..)
theorem NP_subLRn (op : BitVec 16) : NP (subLRn op) := by unfold subLRn; np_tac
macro_rules | `(tactic| np_lem) => `(tactic| with_reducible exact NP_subLRn ..)
theorem NP_cmpBImm (op : BitVec 16) : NP (cmpBImm op) := by unfold cmpBImm; exact NP_aluImmB _ (fun d s => NP_subCalc d s) _ _
macro_rules | `(tactic| np_lem) => `(tactic| with_reducible exact NP_cmpBImm ..)
theorem NP_cmpBRn (op : BitVec 16) : NP (cmpBRn op) := by unfold cmpBRn; np_tac
macro_rules | `(tactic| np_lem) => `(tactic| with_reducible exact NP_cmpBRn ..)
theorem NP_cmpWRn (op : BitVec 16) : NP (cmpWRn op) := by unfold cmpWRn; np_tac
macro_rules | `(tactic| np_lem) => `(tactic| with_reducible exact NP_cmpWRn ..)
theorem NP_cmpLRn (op : BitVec 16) : NP (cmpLRn op) := by unfold cmpLRn; np_tac
macro_rules | `(tactic| np_lem) => `(tactic| with_reducible exact NP_cmpLRn ..)
theorem NP_addxImm (op : BitVec 16) : NP (addxImm op) := by unfold addxImm; exact NP_aluImmB _ (fun d s => NP_addxProc d s) _ _
macro_rules | `(tactic| np_lem) => `(tactic| with_reducible exact NP_addxImm ..)
theorem NP_addxRn (op : BitVec 16) : NP (addxRn op) := by unfold addxRn; np_tac
macro_rules | `(tactic| np_lem) => `(tactic| with_reducible exact NP_addxRn ..)
theorem NP_inc (sz : Sz) (k : Nat) (op : BitVec 16) : NP (inc sz k op) := by unfold inc; np_tac
macro_rules | `(tactic| np_lem) => `(tactic| with_reducible exact NP_inc ..)
theorem NP_dec (sz : Sz) (k : Nat) (op : BitVec 16) : NP (dec sz k op) := by unfold dec; np_tac
macro_rules | `(tactic| np_lem) => `(tactic| with_reducible exact NP_dec ..)
theorem NP_addsSubs (delta : BitVec 32) (op : BitVec 16) : NP (addsSubs delta op) := by unfold addsSubs; np_tac
macro_rules | `(tactic| np_lem) => `(tactic| with_reducible exact NP_addsSubs ..)
theorem NP_mulxuB (op : BitVec 16) : NP (mulxuB op) := by unfold mulxuB; np_tac
macro_rules | `(tactic| np_lem) => `(tactic| with_reducible exact NP_mulxuB ..)
theorem NP_mulxuW (op : BitVec 16) : NP (mulxuW op) := by unfold mulxuW; np_tac
macro_rules | `(tactic| np_lem) => `(tactic| with_reducible exact NP_mulxuW ..)
theorem NP_divxuB (op : BitVec 16) : NP (divxuB op) := by unfold divxuB; np_tac
macro_rules | `(tactic| np_lem) => `(tactic| with_reducible exact NP_divxuB ..)
theorem NP_divxuW (op : BitVec 16) : NP (divxuW op) := by unfold divxuW; np_tac
macro_rules | `(tactic| np_lem) => `(tactic| with_reducible exact NP_divxuW ..)
theorem NP_logicBImm (o : LOp) (op : BitVec 16) : NP (logicBImm o op) := by unfold logicBImm; np_tac
macro_rules | `(tactic| np_lem) => `(tactic| with_reducible exact NP_logicBImm ..)
theorem NP_logicRn (o : LOp) (sz : Sz) (w : BitVec 16) (icount : BitVec 8) : NP (logicRn o sz w icount) := by unfold logicRn; np_tac
macro_rules | `(tactic| np_lem) => `(tactic| with_reducible exact NP_logicRn ..)
theorem NP_notProc {n : Nat} (d : BitVec n) : NP (notProc d) := by unfold notProc; np_tac
macro_rules | `(tactic| np_lem) => `(tactic| with_reducible exact NP_notProc ..)
theorem NP_extu (sz : Sz) (op : BitVec 16) : NP (extu sz op) := by unfold extu; np_tac
macro_rules | `(tactic| np_lem) => `(tactic| with_reducible exact NP_extu ..)
theorem NP_shift (o : ShOp) (sz : Sz) (op : BitVec 16) : NP (shift o sz op) := by unfold shift; np_tac
macro_rules | `(tactic| np_lem) => `(tactic| with_reducible exact NP_shift ..)
theorem NP_bmodRnImm (m : BMod) (op : BitVec 16) : NP (bmodRnImm m op) := by unfold bmodRnImm; np_tac
macro_rules | `(tactic| np_lem) => `(tactic| with_reducible exact NP_bmodRnImm ..)
theorem NP_bmodRnRn (m : BMod) (op : BitVec 16) : NP (bmodRnRn m op) := by unfold bmodRnRn; np_tac
macro_rules | `(tactic| np_lem) => `(tactic| with_reducible exact NP_bmodRnRn ..)
theorem NP_bmodErn (m : BMod) (immTag rnTag : BitVec 16) (op op2 : BitVec 16) : NP (bmodErn m immTag rnTag op op2) := by unfold bmodErn; np_tac
macro_rules | `(tactic| np_lem) => `(tactic| with_reducible exact NP_bmodErn ..)
theorem NP_bmodAbs (m : BMod) (immTag rnTag : BitVec 16) (op op2 : BitVec 16) : NP (bmodAbs m immTag rnTag op op2) := by unfold bmodAbs; np_tac
macro_rules | `(tactic| np_lem) => `(tactic| with_reducible exact NP_bmodAbs ..)
theorem NP_bstRn (inv : Bool) (op : BitVec 16) : NP (bstRn inv op) := by unfold bstRn; np_tac
macro_rules | `(tactic| np_lem) => `(tactic| with_reducible exact NP_bstRn ..)
theorem NP_bstErn (inv : Bool) (op op2 : BitVec 16) : NP (bstErn inv op op2) := by unfold bstErn; np_tac
macro_rules | `(tactic| np_lem) => `(tactic| with_reducible exact NP_bstErn ..)
theorem NP_bstAbs (inv : Bool) (op op2 : BitVec 16) : NP (bstAbs inv op op2) := by unfold bstAbs; np_tac
macro_rules | `(tactic| np_lem) => `(tactic| with_reducible exact NP_bstAbs ..)
theorem NP_btstSet (v bit : BitVec 8) : NP (btstSet v bit) := by unfold btstSet; np_tac
macro_rules | `(tactic| np_lem) => `(tactic| with_reducible exact NP_btstSet ..)
theorem NP_btstImmRn (op : BitVec 16) : NP (btstImmRn op) := by unfold btstImmRn; np_tac
macro_rules | `(tactic| np_lem) => `(tactic| with_reducible exact NP_btstImmRn ..)
theorem NP_btstRnRn (op : BitVec 16) : NP (btstRnRn op) := by unfold btstRnRn; np_tac
macro_rules | `(tactic| np_lem) => `(tactic| with_reducible exact NP_btstRnRn ..)
theorem NP_btstErn (byReg : Bool) (op op2 : BitVec 16) : NP (btstErn byReg op op2) := by unfold btstErn; np_tac
macro_rules | `(tactic| np_lem) => `(tactic| with_reducible exact NP_btstErn ..)
theorem NP_btstAbs (byReg : Bool) (op op2 : BitVec 16) : NP (btstAbs byReg op op2) := by unfold btstAbs; np_tac
macro_rules | `(tactic| np_lem) => `(tactic| with_reducible exact NP_btstAbs ..)
theorem NP_baccRn (o : BAcc) (op : BitVec 16) : NP (baccRn o op) := by
  unfold baccRn
  refine NP_bind (NP_readRnB _) (fun v => ?_)
  exact NP_bacc_tail o v _ _ (fun _ => NP_costI _)
macro_rules | `(tactic| np_lem) => `(tactic| with_reducible exact NP_baccRn ..)
theorem NP_baccErn (o : BAcc) (op op2 : BitVec 16) : NP (baccErn o op op2) := by
  unfold baccErn
  refine NP_bind (NP_getAddrErn _) (fun a => NP_bind (NP_busRead _) (fun v => ?_))
  refine NP_bacc_tail o v _ _ (fun _ => ?_)
  np_tac
macro_rules | `(tactic| np_lem) => `(tactic| with_reducible exact NP_baccErn ..)
theorem NP_baccAbs (o : BAcc) (op op2 : BitVec 16) : NP (baccAbs o op op2) := by
  unfold baccAbs
  refine NP_bind (NP_busRead _) (fun v => ?_)
  refine NP_bacc_tail o v _ _ (fun _ => ?_)
  np_tac
macro_rules | `(tactic| np_lem) => `(tactic| with_reducible exact NP_baccAbs ..)
theorem NP_bcc8 (c : BitVec 4) (op : BitVec 16) : NP (bcc8 c op) := by unfold bcc8; np_tac
macro_rules | `(tactic| np_lem) => `(tactic| with_reducible exact NP_bcc8 ..)
theorem NP_bsrDisp8 (op : BitVec 16) : NP (bsrDisp8 op) := by unfold bsrDisp8; np_tac
macro_rules | `(tactic| np_lem) => `(tactic| with_reducible exact NP_bsrDisp8 ..)
theorem NP_jmpErn (op : BitVec 16) : NP (jmpErn op) := by unfold jmpErn; np_tac
macro_rules | `(tactic| np_lem) => `(tactic| with_reducible exact NP_jmpErn ..)
theorem NP_jmpIndirect (op : BitVec 16) : NP (jmpIndirect op) := by unfold jmpIndirect; np_tac
macro_rules | `(tactic| np_lem) => `(tactic| with_reducible exact NP_jmpIndirect ..)
theorem NP_jsrErn (op : BitVec 16) : NP (jsrErn op) := by unfold jsrErn; np_tac
macro_rules | `(tactic| np_lem) => `(tactic| with_reducible exact NP_jsrErn ..)
theorem NP_jsrIndirect (op : BitVec 16) : NP (jsrIndirect op) := by unfold jsrIndirect; np_tac
macro_rules | `(tactic| np_lem) => `(tactic| with_reducible exact NP_jsrIndirect ..)
theorem NP_rts  : NP (rts ) := by unfold rts; np_tac
macro_rules | `(tactic| np_lem) => `(tactic| with_reducible exact NP_rts ..)
theorem NP_rte  : NP (rte ) := by unfold rte; np_tac
macro_rules | `(tactic| np_lem) => `(tactic| with_reducible exact NP_rte ..)
theorem NP_trapaEmulateMes2  : NP (trapaEmulateMes2 ) := by unfold trapaEmulateMes2; np_tac
macro_rules | `(tactic| np_lem) => `(tactic| with_reducible exact NP_trapaEmulateMes2 ..)
theorem NP_trapa (op : BitVec 16) : NP (trapa op) := by unfold trapa; np_tac
macro_rules | `(tactic| np_lem) => `(tactic| with_reducible exact NP_trapa ..)
theorem NP_interrupt (vector : BitVec 8) : NP (interrupt vector) := by unfold interrupt; np_tac
macro_rules | `(tactic| np_lem) => `(tactic| with_reducible exact NP_interrupt ..)
theorem NP_tryInterrupt  : NP (tryInterrupt ) := by unfold tryInterrupt; np_tac
macro_rules | `(tactic| np_lem) => `(tactic| with_reducible exact NP_tryInterrupt ..)
theorem NP_stcB (op : BitVec 16) : NP (stcB op) := by unfold stcB; np_tac
macro_rules | `(tactic| np_lem) => `(tactic| with_reducible exact NP_stcB ..)
theorem NP_stcWErn (op2 : BitVec 16) : NP (stcWErn op2) := by unfold stcWErn; np_tac
macro_rules | `(tactic| np_lem) => `(tactic| with_reducible exact NP_stcWErn ..)
theorem NP_stcWIncErn (op2 : BitVec 16) : NP (stcWIncErn op2) := by unfold stcWIncErn; np_tac
macro_rules | `(tactic| np_lem) => `(tactic| with_reducible exact NP_stcWIncErn ..)

macro_rules | `(tactic| np_lem) => `(tactic| exact NP_unary _ _ (fun x => NP_negProc x) _)
macro_rules | `(tactic| np_lem) => `(tactic| exact NP_unary _ _ (fun x => NP_notProc x) _)

/-! ### lifted to the dispatch: every leaf whose handler does not fetch -/

/-- leaves whose handler reads further instruction words (`fetch`), hand-kept -/
def fetching : Gen.Leaf → Bool
  | .mov_b_disp16__opcode => true
  | .mov_b_abs16__opcode => true
  | .mov_b_abs24__opcode => true
  | .mov_b_disp24__opcode_opcode2 => true
  | .mov_w_imm__opcode => true
  | .mov_w_disp16__opcode => true
  | .mov_w_abs16__opcode => true
  | .mov_w_abs24__opcode => true
  | .mov_w_disp24__opcode_opcode2 => true
  | .mov_l_imm__opcode => true
  | .mov_l_disp16__opcode2 => true
  | .mov_l_disp24__opcode2 => true
  | .mov_l_abs16__opcode2 => true
  | .mov_l_abs24__opcode2 => true
  | .add_w_imm__opcode => true
  | .add_l_imm__opcode => true
  | .sub_w_imm__opcode => true
  | .sub_l_imm__opcode => true
  | .cmp_w_imm__opcode => true
  | .cmp_l_imm__opcode => true
  | .and_w_imm__opcode => true
  | .and_l_imm__opcode => true
  | .or_w_imm__opcode => true
  | .or_l_imm__opcode => true
  | .xor_w_imm__opcode => true
  | .xor_l_imm__opcode => true
  | .bra16__ => true
  | .brn16__ => true
  | .bhi16__ => true
  | .bls16__ => true
  | .bcc16__ => true
  | .bcs16__ => true
  | .bne16__ => true
  | .beq16__ => true
  | .bvc16__ => true
  | .bvs16__ => true
  | .bpl16__ => true
  | .bmi16__ => true
  | .bge16__ => true
  | .blt16__ => true
  | .bgt16__ => true
  | .ble16__ => true
  | .bsr_disp24__opcode => true
  | .jmp_abs__opcode => true
  | .jsr_abs__opcode => true
  | .stc_w_disp16__opcode2 => true
  | .stc_w_disp24__opcode2 => true
  | .stc_abs16__ => true
  | .stc_abs24__ => true
  | _ => false

/-- **Whatever the opcode words and whatever the state, the handler behind a non-fetching leaf cannot panic.**
    (Leaves without a handler are dispatchers or `unimpl` / `bail`, which `exec` turns into further routing or an
    error.)  With `C15.fetch_panics_iff`: the only way the model of `Cpu::exec` can panic is an instruction
    fetch from unmapped memory. -/
theorem leaf_no_panic (l : Gen.Leaf) (op op2 : BitVec 16) (h : M (BitVec 8))
    (hl : leafHandler l op op2 = some h) (hnf : fetching l = false) : NP h := by
  cases l <;> simp only [leafHandler, Option.some.injEq, reduceCtorEq] at hl <;>
    first
    | (exact absurd hnf (by decide))
    | (subst hl; np_tac; done)
    | (cases hl; np_tac; done)

/-- `Cpu::exec` on a first word that is routed directly to a non-fetching handler (the single-word instructions)
    cannot panic, whatever the machine state -/
theorem exec_no_panic_single (op : BitVec 16) (st : Cpu) (l : Gen.Leaf) (h : M (BitVec 8))
    (h1 : Gen.exec_route op = l) (hl : leafHandler l op 0 = some h) (hnf : fetching l = false) :
    exec op st ≠ .panic := by
  have e : exec op = h := by
    show runLeaf (5 + 1) (Gen.exec_route op) op 0 = h
    rw [h1]; unfold runLeaf; rw [hl]
  rw [e]
  exact leaf_no_panic l op 0 h hl hnf st

/-- non-vacuity: ADD.B R1H,R2L (0x081A) is routed through `add_b` … and a direct leaf exists, e.g. RTS -/
example : Gen.exec_route 0x5470#16 = .rts__ ∧ fetching .rts__ = false := by decide

end H8.Props.C15N
