/-
  Vocabulary shared by the per-property theorem files.
-/
import H8.Lemmas.Handlers
import H8.Model.Exec
set_option linter.unusedSimpArgs false
namespace H8.Props
open H8 H8.Lemmas

/-- (regs, ccr) the Spec prescribes for an instruction that touches only registers and flags -/
def specRegCcr (i : Spec.Instr) (st : Cpu) : Regs × BitVec 8 :=
  match Spec.exec .UNDEF i 0 0 st with
  | .valid _ e => (e.cpu.regs, e.cpu.ccr)
  | _ => (st.regs, st.ccr)

/-- closes the final `state = state` goal of a register-only handler theorem: both sides are
    records that differ only in `regs` and `ccr`, which are pure BitVec functions of
    (opcode words, register file, CCR) -/
macro "regs_ccr_decide" : tactic => `(tactic|
  (congr 1
   all_goals (
     simp only [nib, rdB, wrB, rdW, wrW, getEr, setEr, shOf, Spec.addFlags, Spec.subFlags, Spec.nzClearV, Spec.setFlag,
       Spec.flag, Spec.carryAt, Spec.borrowAt, Spec.z4, Spec.zx8, Spec.zx16, Spec.lo3, changeCcrV]
     bv_decide)))

/-- the handler's tail `let c1 ← costI a; let c2 ← calcState k n; pure (c1 + c2)` leaves the state alone -/
theorem cost2_state {a n : BitVec 8} {k : Kind} {s s' : Cpu} {c : BitVec 8}
    (h : (match costI a s with
          | .ok c1 s1 => (match calcState k n s1 with
              | .ok c2 s2 => Res.ok (c1 + c2) s2 | .err => .err | .panic => .panic)
          | .err => .err | .panic => .panic) = .ok c s') : s' = s := by
  split at h
  · rename_i c1 s1 h1
    have := costI_state h1; subst this
    split at h
    · rename_i c2 s2 h2
      have := calcState_state h2; subst this
      injection h with _ h; exact h.symm
    · simp at h
    · simp at h
  · simp at h
  · simp at h

-- Proof script shared by the 24 shift/rotate handler theorems (and reused for other unary forms).
-- Context: `hi : Spec.instrOf F op 0 0 0 0 = some i`, `hp : Form.pat F op 0 0 0 0 = true`, `h : handler op st = .ok c st'`.
set_option hygiene false in
macro "shift_handler" il:ident pl:ident : tactic => `(tactic|
  (rw [$il:ident] at hi; simp only [Option.some.injEq] at hi; subst hi
   rw [$pl:ident] at hp; simp only [Bool.and_eq_true, beq_iff_eq] at hp
   try (have h4 : (nib op 4).ule 7#8 = true := by (simp only [nib]; bv_decide))
   simp only [shift, readRn, writeRn, bind_ok, pure_ok, get_ok, readRnB_nib, writeRnB_nib, readRnW_nib, writeRnW_nib,
     writeCcr_ite] at h
   try (simp only [readRnL_ok _ _ h4, writeRnL_ok _ _ _ h4, bind_ok, pure_ok, get_ok, writeCcr_ite] at h)
   have := costI_state h; subst this
   simp only [specRegCcr, Spec.exec, Spec.alu1At, Spec.getReg, Spec.setReg, getR8_eq, setR8_eq, getR16_eq, setR16_eq,
     getER_eq, setER_eq]
   generalize st.regs = r; generalize st.ccr = cc
   congr 1
   all_goals (
     unfold shiftK Spec.alu1K
     simp only [nib, rdB, wrB, rdW, wrW, getEr, setEr, shOf, Spec.setFlag, Spec.flag, changeCcrV, Spec.z4, Spec.lo3]
     bv_decide)))

-- Proof script for register/immediate MOV forms (no memory operand).
set_option hygiene false in
macro "mov_reg_handler" il:ident pl:ident : tactic => `(tactic|
  (rw [$il:ident] at hi; simp only [Option.some.injEq] at hi; subst hi
   rw [$pl:ident] at hp; simp only [Bool.and_eq_true, beq_iff_eq] at hp
   try (have h4 : (nib op 4).ule 7#8 = true := by (simp only [nib]; bv_decide))
   try (have h3 : (nib op 3 &&& 7).ule 7#8 = true := by (simp only [nib]; bv_decide))
   simp only [movRn, movImm, movPccSz, movPcc, readRn, writeRn, bind_ok, pure_ok, readRnB_nib, writeRnB_nib, readRnW_nib,
     writeRnW_nib, changeCcr_ok, writeCcr_zero, reduceCtorEq, ↓reduceIte, beq_self_eq_true, beq_iff_eq] at h
   try (simp only [readRnL_ok _ _ h3, readRnL_ok _ _ h4, writeRnL_ok _ _ _ h4, bind_ok, pure_ok, changeCcr_ok, writeCcr_zero] at h)
   have := costI_state h; subst this
   simp only [specRegCcr, Spec.exec, Spec.getReg, Spec.setReg, Spec.movFlags, getR8_eq, setR8_eq, getR16_eq, setR16_eq,
     getER_eq, setER_eq]
   generalize st.regs = r; generalize st.ccr = cc
   congr 1
   all_goals (
     simp only [nib, rdB, wrB, rdW, wrW, getEr, setEr, shOf, Spec.nzClearV, Spec.setFlag, changeCcrV, Spec.z4, Spec.zx8, Spec.lo3]
     bv_decide)))

theorem logicFlags_ok {n : Nat} (r : BitVec n) (s : Cpu) :
    logicFlags r s = .ok () { s with ccr := changeCcrV (changeCcrV (changeCcrV s.ccr 3 r.msb) 2 (r == 0)) 1 false } := by
  unfold logicFlags
  simp only [bind_ok, writeCcr_ite, writeCcr_zero]

theorem szL_ne_W : (Sz.L == Sz.W) = false := by decide

-- Proof script for the unary register forms (INC, DEC, NEG, NOT, EXTU) and ADDS / SUBS.
set_option hygiene false in
macro "unary_handler" il:ident pl:ident : tactic => `(tactic|
  (rw [$il:ident] at hi; simp only [Option.some.injEq] at hi; subst hi
   rw [$pl:ident] at hp; simp only [Bool.and_eq_true, beq_iff_eq] at hp
   try (have h4 : (nib op 4).ule 7#8 = true := by (simp only [nib]; bv_decide))
   simp only [unary, atSz1, notProc, negProc, inc, dec, extu, addsSubs, readRn, writeRn, bind_ok, pure_ok, get_ok, readRnB_nib, writeRnB_nib,
     readRnW_nib, writeRnW_nib, writeCcr_ite, writeCcr_zero, writeCcr_one, changeCcr_ok, beq_self_eq_true, szL_ne_W, ↓reduceIte,
     Bool.false_eq_true] at h
   try (simp only [readRnL_ok _ _ h4, writeRnL_ok _ _ _ h4, bind_ok, pure_ok, get_ok, writeCcr_ite, writeCcr_zero, writeCcr_one,
     changeCcr_ok, beq_self_eq_true, szL_ne_W, ↓reduceIte, Bool.false_eq_true] at h)
   have := costI_state h; subst this
   simp only [specRegCcr, Spec.exec, Spec.alu1At, Spec.alu1K, Spec.getReg, Spec.setReg, getR8_eq, setR8_eq, getR16_eq, setR16_eq,
     getER_eq, setER_eq]
   generalize st.regs = r; generalize st.ccr = cc
   congr 1
   all_goals (
     simp only [nib, rdB, wrB, rdW, wrW, getEr, setEr, shOf, Spec.subFlags, Spec.nzClearV, Spec.setFlag, Spec.flag, Spec.borrowAt,
       changeCcrV, Spec.z4, Spec.lo3]
     bv_decide)))

-- Proof script for AND / OR / XOR register and byte-immediate forms.
set_option hygiene false in
macro "logic_handler" il:ident pl:ident : tactic => `(tactic|
  (rw [$il:ident] at hi; simp only [Option.some.injEq] at hi; subst hi
   rw [$pl:ident] at hp; simp only [Bool.and_eq_true, beq_iff_eq] at hp
   simp only [logicRn, logicBImm, logicFlagsSz, logicFlags_ok, LOp.ap, readRn, writeRn, bind_ok, pure_ok, get_ok, readRnB_nib, writeRnB_nib,
     readRnW_nib, writeRnW_nib, writeCcr_ite, writeCcr_zero, writeCcr_one, changeCcr_ok] at h
   have := costI_state h; subst this
   simp only [specRegCcr, Spec.exec, Spec.alu2At, Spec.alu2K, Spec.getReg, Spec.setReg, getR8_eq, setR8_eq, getR16_eq, setR16_eq,
     getER_eq, setER_eq, Option.map]
   generalize st.regs = r; generalize st.ccr = cc
   congr 1
   all_goals (
     simp only [nib, rdB, wrB, rdW, wrW, getEr, setEr, shOf, Spec.nzClearV, Spec.setFlag, Spec.flag,
       changeCcrV, Spec.z4, Spec.lo3, Spec.zx8, Spec.zx16]
     bv_decide)))

end H8.Props
