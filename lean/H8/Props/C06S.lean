/-
  C06 / C10 = the Spec — exception entry as an EQUALITY with the Spec's `interruptEntry`: for a vector v, the state
  after `Cpu::interrupt(v)` (as modelled) is exactly the machine the Spec prescribes — frame CCR ‖ PC24 stored by four
  `poke`s at the low 24 bits of SP − 4, SP − 4 on all 32 bits, I set, PC := low 24 bits of the long at 4·v — provided
  the frame does not lie on the vector that is read (the order of those two accesses is left open, `overlap`), the four
  frame bytes are not special-function registers, v ≤ 63 and PC is a 24-bit address.
-/
import H8.Props.C05S
set_option linter.unusedSimpArgs false
set_option linter.unusedVariables false
namespace H8.Props.C06S
open H8 H8.Lemmas H8.Props H8.Props.C01M H8.Props.C01N H8.Props.C01L H8.Props.C06H H8.Props.C05S

theorem region_bounds (a : Nat) :
    (Spec.regionOf a = .vec → a ≤ 0xff) ∧ (Spec.regionOf a = .dram → 0x400000 ≤ a ∧ a ≤ 0x5fffff) ∧
    (Spec.regionOf a = .io1 → 0xfee000 ≤ a ∧ a ≤ 0xfee0ff) ∧ (Spec.regionOf a = .ram → 0xffbf20 ≤ a ∧ a ≤ 0xffff1f) ∧
    (Spec.regionOf a = .io2 → 0xffff20 ≤ a ∧ a ≤ 0xffffe9) := by
  unfold Spec.regionOf
  by_cases a1 : a ≤ 0xff
  · simp [a1]
  · by_cases a2 : 0x400000 ≤ a ∧ a ≤ 0x5fffff
    · simp [a1, a2]
    · by_cases a3 : 0xfee000 ≤ a ∧ a ≤ 0xfee0ff
      · simp [a1, a2, a3]
      · by_cases a4 : 0xffbf20 ≤ a ∧ a ≤ 0xffff1f
        · simp [a1, a2, a3, a4]
        · by_cases a5 : 0xffff20 ≤ a ∧ a ≤ 0xffffe9
          · simp [a1, a2, a3, a4, a5]
          · simp [a1, a2, a3, a4, a5]

/-- a `poke` does not change what any other address reads -/
theorem peek_poke_ne (b : Bus) (a x : Nat) (v : BitVec 8) (h : a ≠ x) : Spec.peek (Spec.poke b a v) x = Spec.peek b x := by
  obtain ⟨av, ad, ai1, ar, ai2⟩ := region_bounds a
  obtain ⟨xv, xd, xi1, xr, xi2⟩ := region_bounds x
  unfold Spec.peek Spec.poke
  cases ha : Spec.regionOf a <;> cases hx : Spec.regionOf x <;> simp only [] <;> try rfl
  · exact Mem.get_set_ne _ _ _ _ h
  · have := ad ha; have := xd hx; exact Mem.get_set_ne _ _ _ _ (by omega)
  · have := ai1 ha; have := xi1 hx; exact Mem.get_set_ne _ _ _ _ (by omega)
  · have := ar ha; have := xr hx; exact Mem.get_set_ne _ _ _ _ (by omega)
  · have := ai2 ha; have := xi2 hx; exact Mem.get_set_ne _ _ _ _ (by omega)

/-- a long read does not see a long store to four other bytes -/
theorem loadBE_storeBE_disjoint (b : Bus) (a x : BitVec 24) (v : BitVec 32) (h : Spec.overlap4 a x = false) :
    Spec.loadBE (Spec.storeBE b a 4 v) x 4 = Spec.loadBE b x 4 := by
  simp only [Spec.overlap4, List.range, List.range.loop, List.any, Bool.or_false, Bool.or_eq_false_iff, beq_eq_false_iff_ne,
    ne_eq, Nat.add_zero] at h
  obtain ⟨⟨h00, h01, h02, h03⟩, ⟨h10, h11, h12, h13⟩, ⟨h20, h21, h22, h23⟩, ⟨h30, h31, h32, h33⟩⟩ := h
  rw [loadBE_four, loadBE_four, storeBE_four]
  simp only [Nat.add_zero] at *
  rw [peek_poke_ne _ _ _ _ h30, peek_poke_ne _ _ _ _ h20, peek_poke_ne _ _ _ _ h10, peek_poke_ne _ _ _ _ h00,
    peek_poke_ne _ _ _ _ h31, peek_poke_ne _ _ _ _ h21, peek_poke_ne _ _ _ _ h11, peek_poke_ne _ _ _ _ h01,
    peek_poke_ne _ _ _ _ h32, peek_poke_ne _ _ _ _ h22, peek_poke_ne _ _ _ _ h12, peek_poke_ne _ _ _ _ h02,
    peek_poke_ne _ _ _ _ h33, peek_poke_ne _ _ _ _ h23, peek_poke_ne _ _ _ _ h13, peek_poke_ne _ _ _ _ h03]

theorem vec24 (v : BitVec 8) (hv : v.ule 63#8 = true) :
    ((4#8 * v).setWidth 32 : BitVec 32).setWidth 24 = BitVec.ofNat 24 (4 * v.toNat) := by
  apply BitVec.eq_of_toNat_eq
  have h63 : v.toNat ≤ 63 := by
    have := BitVec.ule_iff_toNat_le.mp (by simpa using hv)
    simpa using this
  simp only [BitVec.toNat_setWidth, BitVec.toNat_mul, BitVec.toNat_ofNat]
  omega

theorem vec_mask (v : BitVec 8) : ((4#8 * v).setWidth 32 : BitVec 32) = ((4#8 * v).setWidth 32 : BitVec 32) &&& ADDRESS_MASK := by
  unfold ADDRESS_MASK; bv_decide

/-- **interrupt entry = the Spec's `interruptEntry`** -/
theorem interrupt_spec (v : BitVec 8) (st st' : Cpu)
    (h : interrupt v st = .ok () st')
    (hv : v.ule 63#8 = true) (hpc : BitVec.ule st.pc 0xffffff#32 = true)
    (f0 : Spec.isSfr ((getEr st.regs 7 - 4) &&& ADDRESS_MASK).toNat = false)
    (f1 : Spec.isSfr (((getEr st.regs 7 - 4) &&& ADDRESS_MASK) + 1).toNat = false)
    (f2 : Spec.isSfr (((getEr st.regs 7 - 4) &&& ADDRESS_MASK) + 2).toNat = false)
    (f3 : Spec.isSfr (((getEr st.regs 7 - 4) &&& ADDRESS_MASK) + 2 + 1).toNat = false)
    (hov : Spec.overlap4 ((getEr st.regs 7 - 4).setWidth 24) (BitVec.ofNat 24 (4 * v.toNat)) = false) :
    st' = (Spec.interruptEntry st v).cpu := by
  simp only [interrupt, bind_ok, get_ok, writeDecErn, writeMem, readRnL_ok _ _ seven_ok, Sz.bytes] at h
  split at h
  case h_2 => simp at h
  case h_3 => simp at h
  rename_i u s1 hpush
  split at hpush
  case h_2 => simp at hpush
  case h_3 => simp at hpush
  rename_i u0 s0 hw0
  have ew := writeAbs24L_poke _ _ _ _ hw0 f0 f1 f2 f3
  subst ew
  simp only [writeRnL_ok _ _ _ seven_ok, Res.ok.injEq, true_and] at hpush
  subst hpush
  rw [vec_mask] at h
  split at h
  case h_2 => simp at h
  case h_3 => simp at h
  rename_i dest s2 hrd
  obtain ⟨es, ev⟩ := readAbs24L_peek _ _ _ _ hrd
  subst es
  simp only [modify_ok, writeCcr_one, Res.ok.injEq, true_and] at h
  subst h
  simp only [vec24 v hv] at ev
  rw [loadBE_storeBE_disjoint _ _ _ _ hov] at ev
  simp only [Spec.interruptEntry, Spec.push32, getER_eq, setER_eq, Spec.low24]
  have e7 : (BitVec.setWidth 8 (7 : BitVec 3)) = (7 : BitVec 8) := by decide
  simp only [e7, ← ev]
  have hf : (st.ccr.setWidth 32 <<< 24) ||| st.pc = (st.ccr.setWidth 32 <<< 24) ||| (st.pc &&& 16777215#32) := by
    bv_decide
  rw [← hf]
  congr 1

/-- **C10: acceptance at an instruction boundary = the Spec's `boundary`** — with I clear and a request pending, the
    state after `try_interrupt` is the Spec's entry for the OLDEST request, which is gone from the queue -/
theorem try_interrupt_spec (st st' : Cpu) (v : BitVec 8) (rest : List (BitVec 8))
    (hI : ((st.ccr >>> cI) &&& 1 == 1) = false) (hp : st.pending = v :: rest)
    (h : tryInterrupt st = .ok () st')
    (hv : v.ule 63#8 = true) (hpc : BitVec.ule st.pc 0xffffff#32 = true)
    (f0 : Spec.isSfr ((getEr st.regs 7 - 4) &&& ADDRESS_MASK).toNat = false)
    (f1 : Spec.isSfr (((getEr st.regs 7 - 4) &&& ADDRESS_MASK) + 1).toNat = false)
    (f2 : Spec.isSfr (((getEr st.regs 7 - 4) &&& ADDRESS_MASK) + 2).toNat = false)
    (f3 : Spec.isSfr (((getEr st.regs 7 - 4) &&& ADDRESS_MASK) + 2 + 1).toNat = false)
    (hov : Spec.overlap4 ((getEr st.regs 7 - 4).setWidth 24) (BitVec.ofNat 24 (4 * v.toNat)) = false) :
    ∃ e, Spec.boundary st = some (v, e) ∧ st' = e.cpu := by
  have hflag : Spec.flag st.ccr 7 = false := by
    simp only [Spec.flag]
    have hI' : (st.ccr >>> 7 &&& 1 == 1) = false := hI
    generalize st.ccr = cc at hI' ⊢
    bv_decide
  have e : tryInterrupt st = interrupt v { st with pending := rest } := by
    simp only [tryInterrupt, bind_ok, readCcr_ok, hI, Bool.false_eq_true, if_false, get_ok, hp, modify_ok]
  rw [e] at h
  refine ⟨Spec.interruptEntry { st with pending := rest } v, ?_, ?_⟩
  · simp only [Spec.boundary, hp, hflag, Bool.false_eq_true, if_false]
  · exact interrupt_spec v { st with pending := rest } st' h hv hpc f0 f1 f2 f3 hov

/-- **JSR @@aa:8 = the Spec** (frame not on the vector that is read) -/
theorem JSR_MEMIND_spec (op : BitVec 16) (st st' : Cpu) (c : BitVec 8) (pc0 : BitVec 32) (len : Nat)
    (hpc : st.pc = pc0 + BitVec.ofNat 32 len)
    (h : jsrIndirect op st = .ok c st')
    (f0 : Spec.isSfr ((getEr st.regs 7 - 4) &&& ADDRESS_MASK).toNat = false)
    (f1 : Spec.isSfr (((getEr st.regs 7 - 4) &&& ADDRESS_MASK) + 1).toNat = false)
    (f2 : Spec.isSfr (((getEr st.regs 7 - 4) &&& ADDRESS_MASK) + 2).toNat = false)
    (f3 : Spec.isSfr (((getEr st.regs 7 - 4) &&& ADDRESS_MASK) + 2 + 1).toNat = false)
    (hov : Spec.overlap4 ((getEr st.regs 7 - 4).setWidth 24) (((op.extractLsb' 0 8).setWidth 8).setWidth 24) = false) :
    st' = specCpu .JSR_MEMIND (.jsr (.memind ((op.extractLsb' 0 8).setWidth 8))) pc0 len st := by
  have hm : (op &&& 0x00ff).setWidth 32 = ((op &&& 0x00ff).setWidth 32 : BitVec 32) &&& ADDRESS_MASK := by
    unfold ADDRESS_MASK; bv_decide
  simp only [jsrIndirect, bind_ok, readRnL_ok _ _ seven_ok, get_ok, writeDecErn, writeMem, Sz.bytes] at h
  split at h
  case h_2 => simp at h
  case h_3 => simp at h
  rename_i u s1 hpush
  split at hpush
  case h_2 => simp at hpush
  case h_3 => simp at hpush
  rename_i u0 s0 hw0
  have ew := writeAbs24L_poke _ _ _ _ hw0 f0 f1 f2 f3
  subst ew
  simp only [writeRnL_ok _ _ _ seven_ok, Res.ok.injEq, true_and] at hpush
  subst hpush
  rw [hm] at h
  split at h
  case h_2 => simp at h
  case h_3 => simp at h
  rename_i t s2 hrd
  obtain ⟨es, ev⟩ := readAbs24L_peek _ _ _ _ hrd
  subst es
  simp only [modify_ok, pure_ok] at h
  split at h
  case h_2 => simp at h
  case h_3 => simp at h
  rename_i c1 sa hc1; have := costI_state hc1; subst this
  split at h
  case h_2 => simp at h
  case h_3 => simp at h
  rename_i c2 sb hc2; have := calcStateWithAddr_state hc2; subst this
  split at h
  case h_2 => simp at h
  case h_3 => simp at h
  rename_i c3 sc hc3; have := calcStateWithAddr_state hc3; subst this
  injection h with _ h; subst h
  have e : BitVec.setWidth 24 (BitVec.setWidth 32 (op &&& 255#16)) = BitVec.setWidth 24 (BitVec.setWidth 8 (BitVec.extractLsb' 0 8 op)) := by
    bv_decide
  have ev' : t = Spec.loadBE (Spec.storeBE st.bus ((getEr st.regs 7 - 4).setWidth 24) 4 st.pc)
      (BitVec.setWidth 24 (BitVec.setWidth 8 (BitVec.extractLsb' 0 8 op))) 4 := by rw [← e]; exact ev
  rw [loadBE_storeBE_disjoint _ _ _ _ hov] at ev'
  simp only [specCpu, Spec.exec, Spec.push32, getER_eq, setER_eq, ← hpc, Spec.low24]
  have e7 : (BitVec.setWidth 8 (7 : BitVec 3)) = (7 : BitVec 8) := by decide
  simp only [e7, ← ev']
  congr 1

theorem trap_vec24 (op : BitVec 16) (hp : op &&& 0xffcf#16 = 0x5700#16) :
    ((0x20#8 + 4 * nib op 3).setWidth 32 : BitVec 32).setWidth 24 =
      BitVec.ofNat 24 (0x20 + 4 * ((op.extractLsb' 4 2).setWidth 2 : BitVec 2).toNat) := by
  have hn : nib op 3 = ((op.extractLsb' 4 2).setWidth 2 : BitVec 2).setWidth 8 := by simp only [nib]; bv_decide
  rw [hn]
  generalize ((op.extractLsb' 4 2).setWidth 2 : BitVec 2) = n
  have : n = 0 ∨ n = 1 ∨ n = 2 ∨ n = 3 := by bv_decide
  rcases this with h | h | h | h <;> subst h <;> decide

theorem trap_vec_mask (x : BitVec 8) : ((0x20#8 + 4 * x).setWidth 32 : BitVec 32) = ((0x20#8 + 4 * x).setWidth 32 : BitVec 32) &&& ADDRESS_MASK := by
  unfold ADDRESS_MASK; bv_decide

/-- **TRAPA #1–#3 = the Spec** -/
theorem TRAPA_spec (op : BitVec 16) (st st' : Cpu) (c : BitVec 8) (pc0 : BitVec 32) (len : Nat)
    (hp : Spec.Form.pat .TRAPA op 0 0 0 0 = true)
    (hpc : st.pc = pc0 + BitVec.ofNat 32 len) (hpc24 : BitVec.ule st.pc 0xffffff#32 = true)
    (h : trapa op st = .ok c st') (hn : (nib op 3 == 0) = false)
    (f0 : Spec.isSfr ((getEr st.regs 7 - 4) &&& ADDRESS_MASK).toNat = false)
    (f1 : Spec.isSfr (((getEr st.regs 7 - 4) &&& ADDRESS_MASK) + 1).toNat = false)
    (f2 : Spec.isSfr (((getEr st.regs 7 - 4) &&& ADDRESS_MASK) + 2).toNat = false)
    (f3 : Spec.isSfr (((getEr st.regs 7 - 4) &&& ADDRESS_MASK) + 2 + 1).toNat = false)
    (hov : Spec.overlap4 ((getEr st.regs 7 - 4).setWidth 24)
      (BitVec.ofNat 24 (0x20 + 4 * ((op.extractLsb' 4 2).setWidth 2 : BitVec 2).toNat)) = false) :
    st' = specCpu .TRAPA (.trapa ((op.extractLsb' 4 2).setWidth 2)) pc0 len st := by
  rw [Spec.pat_TRAPA] at hp; simp only [Bool.and_eq_true, beq_iff_eq] at hp
  have hn2 : (((op.extractLsb' 4 2).setWidth 2 : BitVec 2) == 0) = false := by
    simp only [nib] at hn; bv_decide
  simp only [trapa, bind_ok, readRnL_ok _ _ seven_ok, hn, Bool.false_eq_true, if_false, get_ok, writeDecErn, writeMem,
    Sz.bytes] at h
  split at h
  case h_2 => simp at h
  case h_3 => simp at h
  rename_i u s1 hpush
  split at hpush
  case h_2 => simp at hpush
  case h_3 => simp at hpush
  rename_i u0 s0 hw0
  have ew := writeAbs24L_poke _ _ _ _ hw0 f0 f1 f2 f3
  subst ew
  simp only [writeRnL_ok _ _ _ seven_ok, Res.ok.injEq, true_and] at hpush
  subst hpush
  rw [trap_vec_mask] at h
  split at h
  case h_2 => simp at h
  case h_3 => simp at h
  rename_i dest s2 hrd
  obtain ⟨es, ev⟩ := readAbs24L_peek _ _ _ _ hrd
  subst es
  simp only [modify_ok, writeCcr_one, pure_ok] at h
  split at h
  case h_2 => simp at h
  case h_3 => simp at h
  rename_i c1 sa hc1; have := costI_state hc1; subst this
  split at h
  case h_2 => simp at h
  case h_3 => simp at h
  rename_i c2 sb hc2; have := calcStateWithAddr_state hc2; subst this
  split at h
  case h_2 => simp at h
  case h_3 => simp at h
  rename_i c3 sc hc3; have := calcStateWithAddr_state hc3; subst this
  split at h
  case h_2 => simp at h
  case h_3 => simp at h
  rename_i c4 sd hc4; have := calcState_state hc4; subst this
  injection h with _ h; subst h
  simp only [trap_vec24 op hp.1.1.1.1] at ev
  rw [loadBE_storeBE_disjoint _ _ _ _ hov] at ev
  simp only [specCpu, Spec.exec, hn2, Bool.false_eq_true, if_false, Spec.push32, getER_eq, setER_eq, ← hpc, Spec.low24]
  have e7 : (BitVec.setWidth 8 (7 : BitVec 3)) = (7 : BitVec 8) := by decide
  simp only [e7, ← ev]
  have hf : (st.ccr.setWidth 32 <<< 24) ||| st.pc = (st.ccr.setWidth 32 <<< 24) ||| (st.pc &&& 16777215#32) := by
    bv_decide
  rw [← hf]
  congr 1

end H8.Props.C06S
