/-
  C07 — Every opcode is executed as exactly the instruction it encodes, or rejected.

  Part 1 (this section): the Spec's opcode table is unambiguous — the fixed bits of any two rows
  conflict, so a word sequence matches at most one row and `classify` returns it.
-/
import H8.Props.C07R.Base
import H8.Props.Common
import H8.Gen.Dispatch
namespace H8.Props.C07
open H8 H8.Spec

/-- two (mask, value) pairs conflict if they demand different values on a common fixed bit -/
def conflict (a b : BitVec 16 × BitVec 16) : Bool := (a.2 &&& b.1) != (b.2 &&& a.1)

def conflictRows : List (BitVec 16 × BitVec 16) → List (BitVec 16 × BitVec 16) → Bool
  | a :: as, b :: bs => conflict a b || conflictRows as bs
  | _, _ => false

/-- all 234·233/2 pairs of rows of spec/isa.tbl conflict (computed by the kernel over the table data) -/
theorem rows_disjoint :
    allForms.all (fun f => allForms.all (fun g => f == g || conflictRows f.row g.row)) = true := by
  decide +kernel

theorem conflict_sound (w m1 v1 m2 v2 : BitVec 16) (h : conflict (m1, v1) (m2, v2) = true) :
    ¬ ((w &&& m1 == v1) = true ∧ (w &&& m2 == v2) = true) := by
  simp only [conflict] at h
  bv_decide

theorem rows_len5 : allForms.all (fun f => f.row.length == 5) = true := by decide +kernel

theorem conflictRows_sound (r1 r2 : List (BitVec 16 × BitVec 16)) (h1 : r1.length = 5) (h2 : r2.length = 5)
    (hc : conflictRows r1 r2 = true) (w0 w1 w2 w3 w4 : BitVec 16) :
    ¬ (matchRow r1 w0 w1 w2 w3 w4 = true ∧ matchRow r2 w0 w1 w2 w3 w4 = true) := by
  match r1, r2, h1, h2 with
  | [(m0, v0), (m1, v1), (m2, v2), (m3, v3), (m4, v4)], [(n0, u0), (n1, u1), (n2, u2), (n3, u3), (n4, u4)], _, _ =>
    simp only [conflictRows, Bool.or_eq_true, Bool.or_false] at hc
    simp only [matchRow, Bool.and_eq_true]
    rintro ⟨⟨⟨⟨⟨a0, a1⟩, a2⟩, a3⟩, a4⟩, ⟨⟨⟨⟨b0, b1⟩, b2⟩, b3⟩, b4⟩⟩
    rcases hc with hc | hc | hc | hc | hc
    · exact conflict_sound w0 m0 v0 n0 u0 hc ⟨a0, b0⟩
    · exact conflict_sound w1 m1 v1 n1 u1 hc ⟨a1, b1⟩
    · exact conflict_sound w2 m2 v2 n2 u2 hc ⟨a2, b2⟩
    · exact conflict_sound w3 m3 v3 n3 u3 hc ⟨a3, b3⟩
    · exact conflict_sound w4 m4 v4 n4 u4 hc ⟨a4, b4⟩

/-- A word sequence matches at most one row of the table: "that instruction and no other". -/
theorem pat_unique (f g : Form) (hf : f ∈ allForms) (hg : g ∈ allForms) (w0 w1 w2 w3 w4 : BitVec 16)
    (h1 : f.pat w0 w1 w2 w3 w4 = true) (h2 : g.pat w0 w1 w2 w3 w4 = true) : f = g := by
  refine Decidable.byContradiction fun hne => ?_
  have hd := rows_disjoint
  rw [List.all_eq_true] at hd
  have hd1 := hd f hf
  rw [List.all_eq_true] at hd1
  have hd2 := hd1 g hg
  have hl := rows_len5
  rw [List.all_eq_true] at hl
  have hfl : f.row.length = 5 := by simpa using hl f hf
  have hgl : g.row.length = 5 := by simpa using hl g hg
  have hfg : (f == g) = false := by simpa using hne
  rw [hfg, Bool.false_or] at hd2
  exact conflictRows_sound f.row g.row hfl hgl hd2 w0 w1 w2 w3 w4 ⟨h1, h2⟩

/-- `classify` returns the matching row. -/
theorem classify_of_pat (f : Form) (hf : f ∈ allForms) (w0 w1 w2 w3 w4 : BitVec 16)
    (h : f.pat w0 w1 w2 w3 w4 = true) : classify w0 w1 w2 w3 w4 = f := by
  unfold classify
  cases hfind : allForms.find? (fun f => f.pat w0 w1 w2 w3 w4) with
  | none =>
    rw [List.find?_eq_none] at hfind
    exact absurd h (by simpa using hfind f hf)
  | some g =>
    have hg : g ∈ allForms := List.mem_of_find?_eq_some hfind
    have hp : g.pat w0 w1 w2 w3 w4 = true := by simpa using List.find?_some hfind
    simp [pat_unique g f hg hf w0 w1 w2 w3 w4 hp h]

/-- …and nothing else: if `classify` names a row, the words match that row's fixed bits. -/
theorem pat_of_classify (f : Form) (hne : f ≠ .UNDEF) (w0 w1 w2 w3 w4 : BitVec 16)
    (h : classify w0 w1 w2 w3 w4 = f) : f.pat w0 w1 w2 w3 w4 = true := by
  unfold classify at h
  cases hfind : allForms.find? (fun f => f.pat w0 w1 w2 w3 w4) with
  | none => rw [hfind] at h; exact absurd h.symm hne
  | some g =>
    rw [hfind] at h
    simp only [Option.getD_some] at h
    subst h
    simpa using List.find?_some hfind


/-!
  Part 2: instructions of the H8/300H the emulator does not implement are rejected.  The decision
  trees are `Gen.exec_route …`, regenerated from `Cpu::exec` and the second-level dispatchers on
  every run; `Model.exec` interprets a leaf `unimpl` / `bail` as an error.
-/

-- `route_tac` comes from C07R/Base.lean (shared with the routing theorems of the valid forms)
open H8.Props.C07R in
theorem NOP_rejected (w0 w1 w2 w3 w4 : BitVec 16) (hp : Form.pat .NOP w0 w1 w2 w3 w4 = true) :
    Gen.exec_route w0 = .unimpl := by route_tac pat_NOP
theorem SLEEP_rejected (w0 w1 w2 w3 w4 : BitVec 16) (hp : Form.pat .SLEEP w0 w1 w2 w3 w4 = true) :
    Gen.exec_route w0 = .unimpl := by route_tac pat_SLEEP
theorem MULXS_B_rejected (w0 w1 w2 w3 w4 : BitVec 16) (hp : Form.pat .MULXS_B w0 w1 w2 w3 w4 = true) :
    Gen.exec_route w0 = .unimpl := by route_tac pat_MULXS_B
theorem MULXS_W_rejected (w0 w1 w2 w3 w4 : BitVec 16) (hp : Form.pat .MULXS_W w0 w1 w2 w3 w4 = true) :
    Gen.exec_route w0 = .unimpl := by route_tac pat_MULXS_W
theorem DIVXS_B_rejected (w0 w1 w2 w3 w4 : BitVec 16) (hp : Form.pat .DIVXS_B w0 w1 w2 w3 w4 = true) :
    Gen.exec_route w0 = .unimpl := by route_tac pat_DIVXS_B
theorem DIVXS_W_rejected (w0 w1 w2 w3 w4 : BitVec 16) (hp : Form.pat .DIVXS_W w0 w1 w2 w3 w4 = true) :
    Gen.exec_route w0 = .unimpl := by route_tac pat_DIVXS_W
theorem LDC_B_rejected (w0 w1 w2 w3 w4 : BitVec 16) (hp : Form.pat .LDC_B w0 w1 w2 w3 w4 = true) :
    Gen.exec_route w0 = .unimpl := by route_tac pat_LDC_B
theorem ORC_rejected (w0 w1 w2 w3 w4 : BitVec 16) (hp : Form.pat .ORC w0 w1 w2 w3 w4 = true) :
    Gen.exec_route w0 = .unimpl := by route_tac pat_ORC
theorem XORC_rejected (w0 w1 w2 w3 w4 : BitVec 16) (hp : Form.pat .XORC w0 w1 w2 w3 w4 = true) :
    Gen.exec_route w0 = .unimpl := by route_tac pat_XORC
theorem ANDC_rejected (w0 w1 w2 w3 w4 : BitVec 16) (hp : Form.pat .ANDC w0 w1 w2 w3 w4 = true) :
    Gen.exec_route w0 = .unimpl := by route_tac pat_ANDC
theorem LDC_IMM_rejected (w0 w1 w2 w3 w4 : BitVec 16) (hp : Form.pat .LDC_IMM w0 w1 w2 w3 w4 = true) :
    Gen.exec_route w0 = .unimpl := by route_tac pat_LDC_IMM
theorem DAA_rejected (w0 w1 w2 w3 w4 : BitVec 16) (hp : Form.pat .DAA w0 w1 w2 w3 w4 = true) :
    Gen.exec_route w0 = .unimpl := by route_tac pat_DAA
theorem EXTS_W_rejected (w0 w1 w2 w3 w4 : BitVec 16) (hp : Form.pat .EXTS_W w0 w1 w2 w3 w4 = true) :
    Gen.exec_route w0 = .unimpl := by route_tac pat_EXTS_W
theorem EXTS_L_rejected (w0 w1 w2 w3 w4 : BitVec 16) (hp : Form.pat .EXTS_L w0 w1 w2 w3 w4 = true) :
    Gen.exec_route w0 = .unimpl := by route_tac pat_EXTS_L
theorem SUBX_RR_rejected (w0 w1 w2 w3 w4 : BitVec 16) (hp : Form.pat .SUBX_RR w0 w1 w2 w3 w4 = true) :
    Gen.exec_route w0 = .unimpl := by route_tac pat_SUBX_RR
theorem DAS_rejected (w0 w1 w2 w3 w4 : BitVec 16) (hp : Form.pat .DAS w0 w1 w2 w3 w4 = true) :
    Gen.exec_route w0 = .unimpl := by route_tac pat_DAS
theorem EEPMOV_B_rejected (w0 w1 w2 w3 w4 : BitVec 16) (hp : Form.pat .EEPMOV_B w0 w1 w2 w3 w4 = true) :
    Gen.exec_route w0 = .unimpl := by route_tac pat_EEPMOV_B
theorem EEPMOV_W_rejected (w0 w1 w2 w3 w4 : BitVec 16) (hp : Form.pat .EEPMOV_W w0 w1 w2 w3 w4 = true) :
    Gen.exec_route w0 = .unimpl := by route_tac pat_EEPMOV_W
theorem SUBX_IMM_rejected (w0 w1 w2 w3 w4 : BitVec 16) (hp : Form.pat .SUBX_IMM w0 w1 w2 w3 w4 = true) :
    Gen.exec_route w0 = .unimpl := by route_tac pat_SUBX_IMM
theorem LDC_W_IND_rejected (w0 w1 w2 w3 w4 : BitVec 16) (hp : Form.pat .LDC_W_IND w0 w1 w2 w3 w4 = true) :
    Gen.exec_route w0 = .pfx_exec_route_0 ∧ Gen.exec_route_0 w0 w1 = .unimpl := by
  constructor <;> route_tac pat_LDC_W_IND
theorem LDC_W_AA16_rejected (w0 w1 w2 w3 w4 : BitVec 16) (hp : Form.pat .LDC_W_AA16 w0 w1 w2 w3 w4 = true) :
    Gen.exec_route w0 = .pfx_exec_route_0 ∧ Gen.exec_route_0 w0 w1 = .unimpl := by
  constructor <;> route_tac pat_LDC_W_AA16
theorem LDC_W_AA24_rejected (w0 w1 w2 w3 w4 : BitVec 16) (hp : Form.pat .LDC_W_AA24 w0 w1 w2 w3 w4 = true) :
    Gen.exec_route w0 = .pfx_exec_route_0 ∧ Gen.exec_route_0 w0 w1 = .unimpl := by
  constructor <;> route_tac pat_LDC_W_AA24
theorem LDC_W_POSTINC_rejected (w0 w1 w2 w3 w4 : BitVec 16) (hp : Form.pat .LDC_W_POSTINC w0 w1 w2 w3 w4 = true) :
    Gen.exec_route w0 = .pfx_exec_route_0 ∧ Gen.exec_route_0 w0 w1 = .unimpl := by
  constructor <;> route_tac pat_LDC_W_POSTINC
theorem LDC_W_D16_rejected (w0 w1 w2 w3 w4 : BitVec 16) (hp : Form.pat .LDC_W_D16 w0 w1 w2 w3 w4 = true) :
    Gen.exec_route w0 = .pfx_exec_route_0 ∧ Gen.exec_route_0 w0 w1 = .unimpl := by
  constructor <;> route_tac pat_LDC_W_D16

/-- LDC.W @(d:24,ERs): routed to the STC.W d:24 handler, which rejects every third word but 0x6BA0 -/
theorem LDC_W_D24_rejected (w0 w1 w2 w3 w4 : BitVec 16) (hp : Form.pat .LDC_W_D24 w0 w1 w2 w3 w4 = true) :
    Gen.exec_route w0 = .pfx_exec_route_0 ∧ Gen.exec_route_0 w0 w1 = .stc_w_disp24__opcode2 ∧ w2 ≠ 0x6ba0#16 := by
  refine ⟨?_, ?_, ?_⟩
  · route_tac pat_LDC_W_D24
  · route_tac pat_LDC_W_D24
  · rw [pat_LDC_W_D24] at hp; simp only [Bool.and_eq_true, beq_iff_eq] at hp; bv_decide

/-- MOVFPE / MOVTPE: mov_b → mov_b_abs_16_or_24 → `bail!` -/
theorem MOVFPE_rejected (w0 w1 w2 w3 w4 : BitVec 16) (hp : Form.pat .MOVFPE w0 w1 w2 w3 w4 = true) :
    Gen.exec_route w0 = .mov_b__opcode ∧ Gen.mov_b_route w0 = .mov_b_abs_16_or_24__opcode ∧
      Gen.mov_b_abs_16_or_24_route w0 = .bail := by
  refine ⟨?_, ?_, ?_⟩ <;> route_tac pat_MOVFPE
theorem MOVTPE_rejected (w0 w1 w2 w3 w4 : BitVec 16) (hp : Form.pat .MOVTPE w0 w1 w2 w3 w4 = true) :
    Gen.exec_route w0 = .mov_b__opcode ∧ Gen.mov_b_route w0 = .mov_b_abs_16_or_24__opcode ∧
      Gen.mov_b_abs_16_or_24_route w0 = .bail := by
  refine ⟨?_, ?_, ?_⟩ <;> route_tac pat_MOVTPE

/-- a leaf `unimpl` / `bail` is an error of `exec`, whatever the state -/
theorem unimpl_leaf_fails (op : BitVec 16) (st : Cpu) (h : Gen.exec_route op = .unimpl) : exec op st = .err := by
  simp [exec, runLeaf, leafHandler, h, M.fail]

/-- the STC.W d:24 handler fails unless the third word is 0x6BA0 -/
theorem stcWDisp24_rejects (op2 w2 : BitVec 16) (st st1 : Cpu) (hf : fetch st = .ok w2 st1) (hw : w2 ≠ 0x6ba0#16) :
    stcWDisp24 op2 st = .err := by
  simp [stcWDisp24, Lemmas.bind_ok, hf, hw, M.fail]

-- non-vacuity: ADD.B R0H,R1L
example : classify 0x0809 0 0 0 0 = .ADD_B_RR :=
  classify_of_pat .ADD_B_RR (by decide) _ _ _ _ _ (by decide)

end H8.Props.C07
