/-
  C01, long memory forms — MOV.L @ERs,ERd, MOV.L ERs,@ERd, MOV.L @ERs+,ERd (POP.L for s = 7) and MOV.L ERs,@-ERd
  (PUSH.L for d = 7) at handler level: the long moved is the big-endian composition of the four bytes at the
  effective address as the Spec's memory view sees them; a store changes exactly those four bytes; the address
  register changes by four on all 32 bits; N, Z from the value, V cleared, nothing else changes.  For every encoding
  of the second instruction word, every register file, CCR and memory content.
-/
import H8.Props.C01N
set_option linter.unusedSimpArgs false
namespace H8.Props.C01L
open H8 H8.Lemmas H8.Props H8.Props.C01M H8.Props.C01N

/-- k-th byte behind a masked address, when it is mapped -/
theorem addrk_toNat (x : BitVec 32) (k : Nat) (hk : k < 4)
    (hm : Spec.regionOf ((x &&& ADDRESS_MASK) + BitVec.ofNat 32 k).toNat ≠ .none) :
    ((x &&& ADDRESS_MASK) + BitVec.ofNat 32 k).toNat = ((x.setWidth 24).toNat + k) % 2 ^ 24 := by
  have hlt := regionOf_lt _ hm
  have e : x &&& ADDRESS_MASK = (x.setWidth 24).setWidth 32 := by unfold ADDRESS_MASK; bv_decide
  rw [e] at hlt ⊢
  have hy := (x.setWidth 24).isLt
  simp only [BitVec.toNat_add, BitVec.toNat_setWidth, BitVec.toNat_ofNat] at hlt ⊢
  have : k % 2 ^ 32 = k := Nat.mod_eq_of_lt (by omega)
  rw [this] at hlt ⊢
  omega

theorem loadBE_four (b : Bus) (a : BitVec 24) :
    Spec.loadBE b a 4 =
      ((((Spec.peek b ((a.toNat + 0) % 2 ^ 24)).setWidth 32 <<< 8 ||| (Spec.peek b ((a.toNat + 1) % 2 ^ 24)).setWidth 32) <<< 8 |||
        (Spec.peek b ((a.toNat + 2) % 2 ^ 24)).setWidth 32) <<< 8) ||| (Spec.peek b ((a.toNat + 3) % 2 ^ 24)).setWidth 32 := by
  simp [Spec.loadBE, Spec.bytesAt, List.range, List.range.loop]

/-- a long read that succeeded: the state is unchanged and the value is the big-endian composition of four `peek`s -/
theorem readAbs24L_peek (x : BitVec 32) (s s' : Cpu) (v : BitVec 32)
    (h : readAbs24L (x &&& ADDRESS_MASK) s = .ok v s') :
    s' = s ∧ v = Spec.loadBE s.bus (x.setWidth 24) 4 := by
  simp only [readAbs24L, readAbs24W, bind_ok, pure_ok] at h
  split at h
  case h_2 => simp at h
  case h_3 => simp at h
  rename_i whi s1 hhi
  split at hhi
  case h_2 => simp at hhi
  case h_3 => simp at hhi
  rename_i b0 t0 hb0
  obtain ⟨e0, v0, _⟩ := busRead_peek _ _ _ _ hb0
  subst e0
  split at hhi
  case h_2 => simp at hhi
  case h_3 => simp at hhi
  rename_i b1 t1 hb1
  obtain ⟨e1, v1, m1⟩ := busRead_peek _ _ _ _ hb1
  subst e1
  simp only [Res.ok.injEq] at hhi
  obtain ⟨hw, hs1⟩ := hhi
  subst hs1
  split at h
  case h_2 => simp at h
  case h_3 => simp at h
  rename_i wlo s2 hlo
  split at hlo
  case h_2 => simp at hlo
  case h_3 => simp at hlo
  rename_i b2 t2 hb2
  obtain ⟨e2, v2, m2⟩ := busRead_peek _ _ _ _ hb2
  subst e2
  split at hlo
  case h_2 => simp at hlo
  case h_3 => simp at hlo
  rename_i b3 t3 hb3
  obtain ⟨e3, v3, m3⟩ := busRead_peek _ _ _ _ hb3
  subst e3
  simp only [Res.ok.injEq] at hlo
  obtain ⟨hw2, hs2⟩ := hlo
  subst hs2
  simp only [Res.ok.injEq] at h
  obtain ⟨hv, hs⟩ := h
  refine ⟨hs.symm, ?_⟩
  have a1 : (x &&& ADDRESS_MASK) + 1 = (x &&& ADDRESS_MASK) + BitVec.ofNat 32 1 := rfl
  have a2 : (x &&& ADDRESS_MASK) + 2 = (x &&& ADDRESS_MASK) + BitVec.ofNat 32 2 := rfl
  have a3 : (x &&& ADDRESS_MASK) + 2 + 1 = (x &&& ADDRESS_MASK) + BitVec.ofNat 32 3 := by
    rw [BitVec.add_assoc]; rfl
  rw [a1] at m1 v1; rw [a2] at m2 v2; rw [a3] at m3 v3
  rw [addr_toNat] at v0
  rw [addrk_toNat x 1 (by omega) m1] at v1
  rw [addrk_toNat x 2 (by omega) m2] at v2
  rw [addrk_toNat x 3 (by omega) m3] at v3
  rw [loadBE_four, ← v0, ← v1, ← v2, ← v3, ← hv, ← hw, ← hw2]
  bv_decide

-- tail of a memory MOV: two / three cost lookups that leave the state alone
set_option hygiene false in
local macro "movcost_subst" : tactic => `(tactic|
  (split at h
   case h_2 => simp at h
   case h_3 => simp at h
   rename_i c1 sa h1; have := costI_state h1; subst this
   split at h
   case h_2 => simp at h
   case h_3 => simp at h
   rename_i c2 sb2 h2; have := calcStateWithAddr_state h2; subst this
   injection h with _ h; subst h))

set_option hygiene false in
local macro "movcost3_subst" : tactic => `(tactic|
  (split at h
   case h_2 => simp at h
   case h_3 => simp at h
   rename_i c1 sa h1; have := costI_state h1; subst this
   split at h
   case h_2 => simp at h
   case h_3 => simp at h
   rename_i c2 sb2 h2; have := calcStateWithAddr_state h2; subst this
   split at h
   case h_2 => simp at h
   case h_3 => simp at h
   rename_i c3 sb3 h3; have := calcState_state h3; subst this
   injection h with _ h; subst h))

/-- MOV.L @ERs,ERd (second word `op2` = 69sd) -/
theorem MOV_L_LD_IND (op op2 : BitVec 16) (st st' : Cpu) (c : BitVec 8) (i : Spec.Instr)
    (hp : Spec.Form.pat .MOV_L_LD_IND op op2 0 0 0 = true)
    (hi : Spec.instrOf .MOV_L_LD_IND op op2 0 0 0 = some i) (h : movErn .L op2 st = .ok c st') :
    st' = { st with regs := (specRegCcr i st).1, ccr := (specRegCcr i st).2 } := by
  rw [Spec.instrOf_MOV_L_LD_IND] at hi; simp only [Option.some.injEq] at hi; subst hi
  rw [Spec.pat_MOV_L_LD_IND] at hp; simp only [Bool.and_eq_true, beq_iff_eq] at hp
  have hdir : (op2 &&& 0x0080 == 0) = true := by bv_decide
  have h3 : (nib op2 3).ule 7#8 = true := by (simp only [nib]; bv_decide)
  have h4 : (nib op2 4).ule 7#8 = true := by (simp only [nib]; bv_decide)
  simp only [movErn, hdir, if_true, getAddrErn, readMem, bind_ok, pure_ok, readRnL_ok _ _ h3] at h
  split at h
  case h_2 => simp at h
  case h_3 => simp at h
  rename_i v s1 hrd
  obtain ⟨es, ev⟩ := readAbs24L_peek _ _ _ _ hrd
  subst es
  simp only [writeRn, movPccSz, movPcc, writeRnL_ok _ _ _ h4, bind_ok, pure_ok, changeCcr_ok, writeCcr_zero, iBase, Sz.dataKind,
    Sz.dataCount] at h
  movcost_subst
  simp only [specRegCcr, Spec.exec, Spec.getReg, Spec.setReg, Spec.movFlags, Spec.eaOf, Spec.eaRegs, getER_eq, setER_eq,
    Spec.Sz.bytes]
  have hidx : (BitVec.setWidth 8 (BitVec.setWidth 3 (BitVec.extractLsb' 4 3 op2))) = nib op2 3 := by
    simp only [nib]; bv_decide
  have hd : (BitVec.setWidth 8 (Spec.lo3 (Spec.z4 (BitVec.setWidth 3 (BitVec.extractLsb' 0 3 op2))))) = nib op2 4 := by
    simp only [nib, Spec.lo3, Spec.z4]; bv_decide
  rw [hidx, hd, ← ev]
  generalize s1.regs = r; generalize s1.ccr = cc
  congr 1

/-- MOV.L @ERs+,ERd (POP.L ERd for s = 7): as above, and ERs + 4 on all 32 bits (before the destination is written,
    so `MOV.L @ERn+,ERn` leaves the loaded value) -/
theorem MOV_L_LD_POSTINC (op op2 : BitVec 16) (st st' : Cpu) (c : BitVec 8) (i : Spec.Instr)
    (hp : Spec.Form.pat .MOV_L_LD_POSTINC op op2 0 0 0 = true)
    (hi : Spec.instrOf .MOV_L_LD_POSTINC op op2 0 0 0 = some i) (h : movIncOrDec .L op2 st = .ok c st') :
    st' = { st with regs := (specRegCcr i st).1, ccr := (specRegCcr i st).2 } := by
  rw [Spec.instrOf_MOV_L_LD_POSTINC] at hi; simp only [Option.some.injEq] at hi; subst hi
  rw [Spec.pat_MOV_L_LD_POSTINC] at hp; simp only [Bool.and_eq_true, beq_iff_eq] at hp
  have hdir : (op2 &&& 0x0080 == 0) = true := by bv_decide
  have h3 : (nib op2 3).ule 7#8 = true := by (simp only [nib]; bv_decide)
  have h4 : (nib op2 4).ule 7#8 = true := by (simp only [nib]; bv_decide)
  simp only [movIncOrDec, hdir, if_true, readIncErn, readMem, bind_ok, pure_ok, readRnL_ok _ _ h3] at h
  split at h
  case h_2 => simp at h
  case h_3 => simp at h
  rename_i v s1 hb
  split at hb
  case h_2 => simp at hb
  case h_3 => simp at hb
  rename_i v0 s0 hrd
  obtain ⟨es, ev⟩ := readAbs24L_peek _ _ _ _ hrd
  subst es
  simp only [writeRnL_ok _ _ _ h3, Res.ok.injEq, Sz.bytes] at hb
  obtain ⟨hv, hs1⟩ := hb
  subst hv; subst hs1
  simp only [writeRn, movPccSz, movPcc, writeRnL_ok _ _ _ h4, bind_ok, pure_ok, changeCcr_ok, writeCcr_zero, iBase, Sz.dataKind,
    Sz.dataCount] at h
  movcost3_subst
  simp only [specRegCcr, Spec.exec, Spec.getReg, Spec.setReg, Spec.movFlags, Spec.eaOf, Spec.eaRegs, getER_eq, setER_eq,
    Spec.Sz.bytes]
  have hidx : (BitVec.setWidth 8 (BitVec.setWidth 3 (BitVec.extractLsb' 4 3 op2))) = nib op2 3 := by
    simp only [nib]; bv_decide
  have hd : (BitVec.setWidth 8 (Spec.lo3 (Spec.z4 (BitVec.setWidth 3 (BitVec.extractLsb' 0 3 op2))))) = nib op2 4 := by
    simp only [nib, Spec.lo3, Spec.z4]; bv_decide
  rw [hidx, hd, ← ev]
  generalize s0.regs = r; generalize s0.ccr = cc
  congr 1

/-! ### long stores: four byte stores, most significant byte first -/

theorem storeBE_four (b : Bus) (a : BitVec 24) (v : BitVec 32) :
    Spec.storeBE b a 4 v =
      Spec.poke (Spec.poke (Spec.poke (Spec.poke b ((a.toNat + 0) % 2 ^ 24) ((v >>> 24).setWidth 8))
        ((a.toNat + 1) % 2 ^ 24) ((v >>> 16).setWidth 8)) ((a.toNat + 2) % 2 ^ 24) ((v >>> 8).setWidth 8))
        ((a.toNat + 3) % 2 ^ 24) (v.setWidth 8) := by
  simp [Spec.storeBE, Spec.bytesAt, List.zipIdx, List.range, List.range.loop]

/-- a long store that succeeded, none of the four bytes a special-function register: exactly the Spec's `storeBE` -/
theorem writeAbs24L_poke (x : BitVec 32) (v : BitVec 32) (s s' : Cpu)
    (h : writeAbs24L (x &&& ADDRESS_MASK) v s = .ok () s')
    (f0 : Spec.isSfr (x &&& ADDRESS_MASK).toNat = false)
    (f1 : Spec.isSfr ((x &&& ADDRESS_MASK) + 1).toNat = false)
    (f2 : Spec.isSfr ((x &&& ADDRESS_MASK) + 2).toNat = false)
    (f3 : Spec.isSfr ((x &&& ADDRESS_MASK) + 2 + 1).toNat = false) :
    s' = { s with bus := Spec.storeBE s.bus (x.setWidth 24) 4 v } := by
  simp only [writeAbs24L, writeAbs24W, bind_ok] at h
  split at h
  case h_2 => simp at h
  case h_3 => simp at h
  rename_i u1 s1 hw01
  split at hw01
  case h_2 => simp at hw01
  case h_3 => simp at hw01
  rename_i u0 t0 hw0
  have e0 := busWrite_poke _ _ _ _ hw0 f0
  subst e0
  have m1 := busWrite_mapped _ _ _ _ hw01
  have e1 := busWrite_poke _ _ _ _ hw01 f1
  subst e1
  split at h
  case h_2 => simp at h
  case h_3 => simp at h
  rename_i u2 t2 hw2
  have m2 := busWrite_mapped _ _ _ _ hw2
  have e2 := busWrite_poke _ _ _ _ hw2 f2
  subst e2
  have m3 := busWrite_mapped _ _ _ _ h
  have e3 := busWrite_poke _ _ _ _ h f3
  subst e3
  have a1 : (x &&& ADDRESS_MASK) + 1 = (x &&& ADDRESS_MASK) + BitVec.ofNat 32 1 := rfl
  have a2 : (x &&& ADDRESS_MASK) + 2 = (x &&& ADDRESS_MASK) + BitVec.ofNat 32 2 := rfl
  have a3 : (x &&& ADDRESS_MASK) + 2 + 1 = (x &&& ADDRESS_MASK) + BitVec.ofNat 32 3 := by
    rw [BitVec.add_assoc]; rfl
  rw [a1] at m1; rw [a2] at m2; rw [a3] at m3
  rw [storeBE_four, ← addr_toNat, ← addrk_toNat x 1 (by omega) m1, ← addrk_toNat x 2 (by omega) m2,
    ← addrk_toNat x 3 (by omega) m3, ← a1, ← a2, ← a3]
  have b0 : BitVec.setWidth 8 (BitVec.setWidth 16 (v >>> 16) >>> 8) = BitVec.setWidth 8 (v >>> 24) := by bv_decide
  have b1 : BitVec.setWidth 8 (BitVec.setWidth 16 (v >>> 16)) = BitVec.setWidth 8 (v >>> 16) := by bv_decide
  have b2 : BitVec.setWidth 8 (BitVec.setWidth 16 v >>> 8) = BitVec.setWidth 8 (v >>> 8) := by bv_decide
  have b3 : BitVec.setWidth 8 (BitVec.setWidth 16 v) = BitVec.setWidth 8 v := by bv_decide
  simp only [b0, b1, b2, b3]

/-- MOV.L ERs,@ERd with none of the four bytes a special-function register -/
theorem MOV_L_ST_IND (op op2 : BitVec 16) (st st' : Cpu) (c : BitVec 8) (i : Spec.Instr)
    (hp : Spec.Form.pat .MOV_L_ST_IND op op2 0 0 0 = true)
    (hi : Spec.instrOf .MOV_L_ST_IND op op2 0 0 0 = some i) (h : movErn .L op2 st = .ok c st')
    (f0 : Spec.isSfr (getEr st.regs (nib op2 3 &&& 7) &&& ADDRESS_MASK).toNat = false)
    (f1 : Spec.isSfr ((getEr st.regs (nib op2 3 &&& 7) &&& ADDRESS_MASK) + 1).toNat = false)
    (f2 : Spec.isSfr ((getEr st.regs (nib op2 3 &&& 7) &&& ADDRESS_MASK) + 2).toNat = false)
    (f3 : Spec.isSfr ((getEr st.regs (nib op2 3 &&& 7) &&& ADDRESS_MASK) + 2 + 1).toNat = false) :
    st' = { st with regs := (specRegCcrBus i st).1, ccr := (specRegCcrBus i st).2.1, bus := (specRegCcrBus i st).2.2 } := by
  rw [Spec.instrOf_MOV_L_ST_IND] at hi; simp only [Option.some.injEq] at hi; subst hi
  rw [Spec.pat_MOV_L_ST_IND] at hp; simp only [Bool.and_eq_true, beq_iff_eq] at hp
  have hdir : (op2 &&& 0x0080 == 0) = false := by bv_decide
  have h3 : (nib op2 3 &&& 7).ule 7#8 = true := by (simp only [nib]; bv_decide)
  have h4 : (nib op2 4).ule 7#8 = true := by (simp only [nib]; bv_decide)
  simp only [movErn, hdir, Bool.false_eq_true, if_false, getAddrErn, writeMem, readRn, bind_ok, pure_ok, readRnL_ok _ _ h3,
    readRnL_ok _ _ h4] at h
  split at h
  case h_2 => simp at h
  case h_3 => simp at h
  rename_i u s1 hw
  have ew := writeAbs24L_poke _ _ _ _ hw f0 f1 f2 f3
  subst ew
  simp only [movPccSz, movPcc, bind_ok, pure_ok, changeCcr_ok, writeCcr_zero, iBase, Sz.dataKind, Sz.dataCount] at h
  movcost_subst
  simp only [specRegCcrBus, Spec.exec, Spec.getReg, Spec.setReg, Spec.movFlags, Spec.eaOf, Spec.eaRegs, getER_eq, setER_eq,
    Spec.Sz.bytes]
  have hidx : (BitVec.setWidth 8 (BitVec.setWidth 3 (BitVec.extractLsb' 4 3 op2))) = nib op2 3 &&& 7 := by
    simp only [nib]; bv_decide
  have hd : (BitVec.setWidth 8 (Spec.lo3 (Spec.z4 (BitVec.setWidth 3 (BitVec.extractLsb' 0 3 op2))))) = nib op2 4 := by
    simp only [nib, Spec.lo3, Spec.z4]; bv_decide
  rw [hidx, hd]
  generalize st.regs = r; generalize st.ccr = cc; generalize st.bus = bus
  congr 1

/-- MOV.L ERs,@-ERd (PUSH.L ERs for d = 7): ERd − 4 on all 32 bits, the value ERs had *before* the decrement is
    stored at the new low 24 bits -/
theorem MOV_L_ST_PREDEC (op op2 : BitVec 16) (st st' : Cpu) (c : BitVec 8) (i : Spec.Instr)
    (hp : Spec.Form.pat .MOV_L_ST_PREDEC op op2 0 0 0 = true)
    (hi : Spec.instrOf .MOV_L_ST_PREDEC op op2 0 0 0 = some i) (h : movIncOrDec .L op2 st = .ok c st')
    (f0 : Spec.isSfr ((getEr st.regs (nib op2 3 &&& 7) - 4) &&& ADDRESS_MASK).toNat = false)
    (f1 : Spec.isSfr (((getEr st.regs (nib op2 3 &&& 7) - 4) &&& ADDRESS_MASK) + 1).toNat = false)
    (f2 : Spec.isSfr (((getEr st.regs (nib op2 3 &&& 7) - 4) &&& ADDRESS_MASK) + 2).toNat = false)
    (f3 : Spec.isSfr (((getEr st.regs (nib op2 3 &&& 7) - 4) &&& ADDRESS_MASK) + 2 + 1).toNat = false) :
    st' = { st with regs := (specRegCcrBus i st).1, ccr := (specRegCcrBus i st).2.1, bus := (specRegCcrBus i st).2.2 } := by
  rw [Spec.instrOf_MOV_L_ST_PREDEC] at hi; simp only [Option.some.injEq] at hi; subst hi
  rw [Spec.pat_MOV_L_ST_PREDEC] at hp; simp only [Bool.and_eq_true, beq_iff_eq] at hp
  have hdir : (op2 &&& 0x0080 == 0) = false := by bv_decide
  have h3 : (nib op2 3 &&& 7).ule 7#8 = true := by (simp only [nib]; bv_decide)
  have h4 : (nib op2 4).ule 7#8 = true := by (simp only [nib]; bv_decide)
  simp only [movIncOrDec, hdir, Bool.false_eq_true, if_false, writeDecErn, writeMem, readRn, bind_ok, pure_ok,
    readRnL_ok _ _ h3, readRnL_ok _ _ h4, Sz.bytes] at h
  split at h
  case h_2 => simp at h
  case h_3 => simp at h
  rename_i u s1 hw
  split at hw
  case h_2 => simp at hw
  case h_3 => simp at hw
  rename_i u0 s0 hw0
  have ew := writeAbs24L_poke _ _ _ _ hw0 f0 f1 f2 f3
  subst ew
  simp only [writeRnL_ok _ _ _ h3, Res.ok.injEq, true_and] at hw
  subst hw
  simp only [movPccSz, movPcc, bind_ok, pure_ok, changeCcr_ok, writeCcr_zero, iBase, Sz.dataKind, Sz.dataCount] at h
  movcost3_subst
  simp only [specRegCcrBus, Spec.exec, Spec.getReg, Spec.setReg, Spec.movFlags, Spec.eaOf, Spec.eaRegs, getER_eq, setER_eq,
    Spec.Sz.bytes]
  have hidx : (BitVec.setWidth 8 (BitVec.setWidth 3 (BitVec.extractLsb' 4 3 op2))) = nib op2 3 &&& 7 := by
    simp only [nib]; bv_decide
  have hd : (BitVec.setWidth 8 (Spec.lo3 (Spec.z4 (BitVec.setWidth 3 (BitVec.extractLsb' 0 3 op2))))) = nib op2 4 := by
    simp only [nib, Spec.lo3, Spec.z4]; bv_decide
  have hfour : (BitVec.ofNat 32 4) = 4#32 := rfl
  rw [hidx, hd, hfour]
  generalize st.regs = r; generalize st.ccr = cc; generalize st.bus = bus
  congr 1

end H8.Props.C01L
