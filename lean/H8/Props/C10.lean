/-
  C10 — Interrupts are delivered exactly once, only when unmasked, between instructions.

  `tryInterrupt` (the code's try_interrupt, called by run() before every fetch) is characterised
  exactly; then, for ANY interleaving of requests, instruction boundaries and arbitrary changes of
  the mask bit (handlers, RTE), the requests entered so far followed by the pending queue are the
  requests raised so far, in order: none lost, duplicated, reordered or redirected.
-/
import H8.Props.Common
namespace H8.Props.C10
open H8 H8.Lemmas H8.Props

/-- masked: nothing happens, the queue is kept -/
theorem tryInterrupt_masked (st : Cpu) (h : (st.ccr >>> cI) &&& 1 = 1) : tryInterrupt st = .ok () st := by
  simp only [tryInterrupt, bind_ok, readCcr_ok, beq_iff_eq]
  rw [if_pos h]; rfl

/-- unmasked, nothing pending: nothing happens -/
theorem tryInterrupt_idle (st : Cpu) (h : (st.ccr >>> cI) &&& 1 ≠ 1) (hp : st.pending = []) :
    tryInterrupt st = .ok () st := by
  simp only [tryInterrupt, bind_ok, readCcr_ok, beq_iff_eq]
  rw [if_neg h]
  simp only [bind_ok, get_ok, hp]; rfl

/-- unmasked with a pending request: the OLDEST request is removed from the queue and entered through
    `interrupt` with its own number -/
theorem tryInterrupt_accept (st : Cpu) (v : BitVec 8) (rest : List (BitVec 8))
    (h : (st.ccr >>> cI) &&& 1 ≠ 1) (hp : st.pending = v :: rest) :
    tryInterrupt st = interrupt v { st with pending := rest } := by
  simp only [tryInterrupt, bind_ok, readCcr_ok, beq_iff_eq]
  rw [if_neg h]
  simp only [bind_ok, get_ok, hp, modify_ok]

/-! ### abstract delivery discipline -/

structure Q where
  masked : Bool := false
  pending : List Nat := []
  entered : List Nat := []
  requested : List Nat := []

inductive Ev where
  | request (v : Nat)       -- a peripheral raises a request (push_back)
  | boundary                -- instruction boundary: try_interrupt
  | setMask (b : Bool)      -- anything the program does to CCR.I (entry sets it; RTE restores it)

/-- one event; `boundary` is `try_interrupt` as characterised above (entry sets I) -/
def Q.step (q : Q) : Ev → Q
  | .request v => { q with pending := q.pending ++ [v], requested := q.requested ++ [v] }
  | .boundary =>
    if q.masked then q else
    match q.pending with
    | [] => q
    | v :: rest => { q with pending := rest, entered := q.entered ++ [v], masked := true }
  | .setMask b => { q with masked := b }

def Q.run (q : Q) (evs : List Ev) : Q := evs.foldl Q.step q

def Conserved (q : Q) : Prop := q.entered ++ q.pending = q.requested

theorem conserved_step (q : Q) (e : Ev) (h : Conserved q) : Conserved (q.step e) := by
  unfold Conserved at *
  cases e with
  | request v => simp [Q.step, ← h, List.append_assoc]
  | setMask b => simpa [Q.step] using h
  | boundary =>
    simp only [Q.step]
    split
    · exact h
    · split
      · exact h
      · rename_i v rest hp
        simp only
        rw [← h, hp]
        simp

/-- Every request is entered exactly once, in order, or is still pending — for every event history. -/
theorem irq_conservation (evs : List Ev) (q : Q) (h : Conserved q) : Conserved (q.run evs) := by
  induction evs generalizing q with
  | nil => exact h
  | cons e es ih => exact ih _ (conserved_step q e h)

/-- an entry only ever happens at a boundary at which the mask is clear -/
theorem irq_masked (q : Q) (h : q.masked = true) : (q.step .boundary).entered = q.entered := by
  simp [Q.step, h]

/-- a request raised while masked stays pending until the mask is cleared, and is then the next one
    entered if it is the oldest -/
theorem irq_pending_until_unmasked (q : Q) (v : Nat) (h : q.masked = true) (hp : q.pending = []) :
    ((q.step (.request v)).step .boundary).pending = [v] ∧
    ((((q.step (.request v)).step .boundary).step (.setMask false)).step .boundary).entered = q.entered ++ [v] := by
  simp [Q.step, h, hp]

-- non-vacuity
example : Conserved {} := rfl
example : (Q.run {} [.request 36, .request 37, .boundary, .boundary, .setMask false, .boundary]).entered = [36, 37] := by decide

end H8.Props.C10
