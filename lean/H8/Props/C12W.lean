/-
  C12, word splitting — the loader's `args.split_whitespace()` (modelled by `Elf.splitWsL`; the library function itself
  is assumed, and exercised by the correspondence check): every word is non-empty and free of whitespace, the words in
  order are exactly the non-whitespace characters of the argument string, a string without whitespace is one word, and
  on argument strings whose only whitespace is blank / tab the Model's words are the Spec's.
-/
import H8.Model.Elf
import H8.Spec.Elf
namespace H8.Props.C12W
open H8 H8.Elf

/-- general form over the word being read -/
theorem splitWsL_words (cs cur : List Char) (hc : ∀ c ∈ cur, isWs c = false) :
    ∀ w ∈ splitWsL cs cur, w ≠ [] ∧ ∀ c ∈ w, isWs c = false := by
  induction cs generalizing cur with
  | nil =>
    intro w hw
    simp only [splitWsL] at hw
    split at hw
    · simp at hw
    · rename_i hne
      simp only [List.mem_singleton] at hw
      subst hw
      refine ⟨?_, ?_⟩
      · intro h; apply hne; simpa using h
      · intro c hcm; exact hc c (by simpa using hcm)
  | cons c cs ih =>
    intro w hw
    simp only [splitWsL] at hw
    split at hw
    · split at hw
      · exact ih [] (by simp) w hw
      · rename_i hne
        simp only [List.mem_cons] at hw
        rcases hw with hw | hw
        · subst hw
          refine ⟨?_, ?_⟩
          · intro h; apply hne; simpa using h
          · intro c' hcm; exact hc c' (by simpa using hcm)
        · exact ih [] (by simp) w hw
    · rename_i hws
      apply ih (c :: cur) _ w hw
      intro c' hc'
      simp only [List.mem_cons] at hc'
      rcases hc' with h | h
      · subst h; simpa using hws
      · exact hc c' h

/-- **every word is non-empty and contains no whitespace** -/
theorem words_nonempty_nows (cs : List Char) : ∀ w ∈ splitWsL cs [], w ≠ [] ∧ ∀ c ∈ w, isWs c = false :=
  splitWsL_words cs [] (by simp)

/-- general form: the characters of the words, in order = the pending word + the non-whitespace characters -/
theorem splitWsL_flatten (cs cur : List Char) :
    (splitWsL cs cur).flatten = cur.reverse ++ cs.filter (fun c => !isWs c) := by
  induction cs generalizing cur with
  | nil =>
    simp only [splitWsL]
    split
    · rename_i h; simp at h; subst h; simp
    · simp
  | cons c cs ih =>
    simp only [splitWsL]
    split
    · rename_i hws
      split
      · rename_i h; simp at h; subst h
        rw [ih]; simp [hws]
      · simp only [List.flatten_cons, ih]; simp [hws]
    · rename_i hws
      rw [ih]
      have : isWs c = false := by simpa using hws
      simp [this]

/-- **nothing is lost, added or reordered**: the words concatenated are the argument string without its whitespace -/
theorem words_flatten (cs : List Char) : (splitWsL cs []).flatten = cs.filter (fun c => !isWs c) := by
  simpa using splitWsL_flatten cs []

/-- **the empty string and all-whitespace strings give no word** (argc = 1) -/
theorem words_of_blank (cs : List Char) (h : ∀ c ∈ cs, isWs c = true) : splitWsL cs [] = [] := by
  induction cs with
  | nil => simp [splitWsL]
  | cons c cs ih =>
    have hc : isWs c = true := h c (by simp)
    simp only [splitWsL, hc, if_true, List.isEmpty_nil]
    exact ih (fun c' hc' => h c' (by simp [hc']))

/-- **a string without whitespace is one word** -/
theorem words_of_graphic (cs cur : List Char) (h : ∀ c ∈ cs, isWs c = false) (hne : cur.reverse ++ cs ≠ []) :
    splitWsL cs cur = [cur.reverse ++ cs] := by
  induction cs generalizing cur with
  | nil =>
    simp only [splitWsL]
    split
    · rename_i he; simp at he; subst he; simp at hne
    · simp
  | cons c cs ih =>
    have hc : isWs c = false := h c (by simp)
    simp only [splitWsL, hc, Bool.false_eq_true, if_false]
    rw [ih (c :: cur) (fun c' hc' => h c' (by simp [hc'])) (by simp)]
    simp

/-- the Spec's accumulator loop computes the Model's words when the only whitespace is what the Spec calls blank -/
theorem spec_go (cs cur : List Char) (acc : List String) (h : ∀ c ∈ cs, isWs c = Spec.Elf.isBlank c) :
    Spec.Elf.words.go cs cur acc = acc.reverse ++ (splitWsL cs cur).map String.ofList := by
  induction cs generalizing cur acc with
  | nil =>
    simp only [Spec.Elf.words.go, splitWsL]
    split <;> simp
  | cons c cs ih =>
    have hc : isWs c = Spec.Elf.isBlank c := h c (by simp)
    have ht : ∀ c' ∈ cs, isWs c' = Spec.Elf.isBlank c' := fun c' hc' => h c' (by simp [hc'])
    simp only [Spec.Elf.words.go, splitWsL, hc]
    split
    · split
      · rw [ih [] acc ht]
      · rw [ih [] _ ht]; simp
    · rw [ih (c :: cur) acc ht]

/-- **Model = Spec on the argument strings of C12** (whitespace = blanks and tabs): the words the loader's model copies
    are the words the Spec expects -/
theorem splitWs_eq_spec (s : String) (h : ∀ c ∈ s.toList, isWs c = Spec.Elf.isBlank c) :
    splitWs s = Spec.Elf.words s := by
  simp only [splitWs, Spec.Elf.words]
  rw [spec_go s.toList [] [] h]
  simp

/-- premises satisfiable: a concrete argument string, its words -/
example : splitWsL "  a\tbc  d ".toList [] = ["a".toList, "bc".toList, "d".toList] := by decide

end H8.Props.C12W
