/-
  C17 — The 8-bit timer counts elapsed states exactly; flags and interrupts fire once.

  Theorems about `Bus.updateModules` / `Bus.timerTick` / `Timer.updateTcr` of Model/Bus.lean
  (the code's update_timer8_0 / update_tcr), for every divisor 8 / 64 / 8192:
    * `residual_lt_after_charge`, `residual_lt_after_tcr` — the residual is always below the divisor
      in every reachable state (established by TCR writes since the clock-change repair, preserved
      by every charge);
    * `charge_split` — charging a+c states at once = charging a then c (same registers, same
      request list): no tick is lost, gained or bunched at instruction boundaries;
    * `partition_invariant` — hence every partition of the same elapsed time gives the same result;
    * `count_formula` — the number of counts after E states with residual r is ⌊(r+E)/div⌋;
    * `spec_states_count` — the tick-by-tick reference counts the same number of times;
    * `tick_eq_spec` — one count of the code (TCNT+1, OVF, CMFA/CMFB, clear, requests) is one `Spec.tick`.
-/
import H8.Model.Bus
import H8.Spec.Timer
import Std.Tactic.BVDecide
namespace H8.Props.C17
open H8

def ValidDiv (p : Nat) : Prop := p = 8 ∨ p = 64 ∨ p = 8192

/-! ### the tick loop -/

theorem timerTick_timer (b : Bus) : (b.timerTick).1.timer = b.timer := by
  simp [Bus.timerTick]

theorem timerTicks_timer (n : Nat) (b : Bus) (acc : List (BitVec 8)) :
    (Bus.timerTicks n b acc).1.timer = b.timer := by
  induction n generalizing b acc with
  | zero => rfl
  | succ n ih => simp only [Bus.timerTicks]; rw [ih]; exact timerTick_timer b

theorem timerTicks_add (n m : Nat) (b : Bus) (acc : List (BitVec 8)) :
    Bus.timerTicks (n + m) b acc = Bus.timerTicks m (Bus.timerTicks n b acc).1 (Bus.timerTicks n b acc).2 := by
  induction n generalizing b acc with
  | zero => simp [Bus.timerTicks]
  | succ n ih =>
    rw [Nat.add_right_comm]
    simp only [Bus.timerTicks]
    exact ih _ _

/-- the tick loop only ever appends to the request list -/
theorem timerTicks_acc (n : Nat) (b : Bus) (acc : List (BitVec 8)) :
    (Bus.timerTicks n b acc).2 = acc ++ (Bus.timerTicks n b []).2 ∧
    (Bus.timerTicks n b acc).1 = (Bus.timerTicks n b []).1 := by
  induction n generalizing b acc with
  | zero => simp [Bus.timerTicks]
  | succ n ih =>
    simp only [Bus.timerTicks]
    obtain ⟨h1, h2⟩ := ih (b.timerTick).1 (acc ++ (b.timerTick).2)
    obtain ⟨h3, h4⟩ := ih (b.timerTick).1 ([] ++ (b.timerTick).2)
    constructor
    · rw [h1, h3]; simp
    · rw [h2, h4]

/-- the residual field plays no part in a tick -/
def setResidual (b : Bus) (s : Nat) : Bus := { b with timer := { b.timer with state := s } }

theorem timerTick_setResidual (b : Bus) (s : Nat) :
    (setResidual b s).timerTick = (setResidual (b.timerTick).1 s, (b.timerTick).2) := by
  simp [Bus.timerTick, setResidual]

theorem timerTicks_setResidual (n : Nat) (b : Bus) (s : Nat) (acc : List (BitVec 8)) :
    Bus.timerTicks n (setResidual b s) acc =
      (setResidual (Bus.timerTicks n b acc).1 s, (Bus.timerTicks n b acc).2) := by
  induction n generalizing b acc with
  | zero => rfl
  | succ n ih =>
    simp only [Bus.timerTicks, timerTick_setResidual]
    exact ih _ _

theorem setResidual_setResidual (b : Bus) (s t : Nat) : setResidual (setResidual b s) t = setResidual b t := by
  simp [setResidual]

/-! ### arithmetic of the prescaler -/

theorem div_split (p r a c : Nat) (hp : ValidDiv p) :
    (r + a) / p + ((r + a) - p * ((r + a) / p) + c) / p = (r + (a + c)) / p ∧
    ((r + a) - p * ((r + a) / p) + c) - p * (((r + a) - p * ((r + a) / p) + c) / p) = (r + (a + c)) - p * ((r + (a + c)) / p) := by
  rcases hp with rfl | rfl | rfl <;> omega

theorem residual_lt (p x : Nat) (hp : ValidDiv p) : x - p * (x / p) < p := by
  rcases hp with rfl | rfl | rfl <;> omega

/-! ### charges -/

/-- after any charge the residual is below the divisor -/
theorem residual_lt_after_charge (b : Bus) (a : Nat) (hp : ValidDiv b.timer.prescaler) :
    (b.updateModules a).1.timer.state < (b.updateModules a).1.timer.prescaler := by
  have hp0 : b.timer.prescaler ≠ 0 := by rcases hp with h | h | h <;> omega
  simp only [Bus.updateModules, hp0, ↓reduceIte]
  rw [timerTicks_timer]
  exact residual_lt _ _ hp

theorem newPrescaler_cases (old : Nat) (cks : BitVec 8) :
    newPrescaler old cks = 0 ∨ ValidDiv (newPrescaler old cks) ∨ newPrescaler old cks = old := by
  unfold newPrescaler ValidDiv
  repeat' split
  all_goals simp

/-- reachable timer states: stopped, or a valid divisor with the residual below it -/
def TimerInv (t : Timer) : Prop := t.prescaler = 0 ∨ (ValidDiv t.prescaler ∧ t.state < t.prescaler)

/-- a TCR write re-establishes the invariant (this is what the clock-change repair guarantees) -/
theorem inv_after_tcr (t : Timer) (v : BitVec 8) (h : TimerInv t) : TimerInv (t.updateTcr v) := by
  simp only [Timer.updateTcr, TimerInv]
  rcases newPrescaler_cases t.prescaler (v &&& 7#8) with h0 | hv | ho
  · left; exact h0
  · right
    refine ⟨hv, ?_⟩
    by_cases hne : newPrescaler t.prescaler (v &&& 7#8) = t.prescaler
    · simp only [hne, bne_self_eq_false, Bool.false_eq_true, ↓reduceIte]
      rcases h with h | ⟨_, h⟩
      · rw [hne] at hv; rcases hv with x | x | x <;> omega
      · exact h
    · have : (newPrescaler t.prescaler (v &&& 7#8) != t.prescaler) = true := by simpa using hne
      simp only [this, ↓reduceIte]
      rcases hv with x | x | x <;> omega
  · rw [ho]
    simp only [bne_self_eq_false, Bool.false_eq_true, ↓reduceIte]
    exact h

theorem inv_init : TimerInv {} := Or.inl rfl

/-- `update_timer8_0` in terms of `setResidual` -/
theorem updateModules_eq (b : Bus) (a : Nat) (hp0 : b.timer.prescaler ≠ 0) :
    b.updateModules a =
      Bus.timerTicks ((b.timer.state + a) / b.timer.prescaler)
        (setResidual b (b.timer.state + a - b.timer.prescaler * ((b.timer.state + a) / b.timer.prescaler))) [] := by
  simp [Bus.updateModules, hp0, setResidual]

theorem setResidual_timer (b : Bus) (s : Nat) :
    (setResidual b s).timer.prescaler = b.timer.prescaler ∧ (setResidual b s).timer.state = s := ⟨rfl, rfl⟩

/-- Charging a+c states at once is charging a states and then c states: same bus, same requests. -/
theorem charge_split (b : Bus) (a c : Nat) (hp : ValidDiv b.timer.prescaler) :
    b.updateModules (a + c) =
      (((b.updateModules a).1.updateModules c).1, (b.updateModules a).2 ++ ((b.updateModules a).1.updateModules c).2) := by
  have hp0 : b.timer.prescaler ≠ 0 := by rcases hp with h | h | h <;> omega
  obtain ⟨hd1, hd2⟩ := div_split b.timer.prescaler b.timer.state a c hp
  -- names for the quantities involved
  generalize hc1 : (b.timer.state + a) / b.timer.prescaler = c1 at hd1 hd2
  generalize hr1 : b.timer.state + a - b.timer.prescaler * c1 = r1 at hd1 hd2
  generalize hc2 : (r1 + c) / b.timer.prescaler = c2 at hd1 hd2
  generalize hC : (b.timer.state + (a + c)) / b.timer.prescaler = C at hd1 hd2
  generalize hR : b.timer.state + (a + c) - b.timer.prescaler * C = R at hd2
  -- first charge
  have e1 : b.updateModules a = (setResidual (Bus.timerTicks c1 b []).1 r1, (Bus.timerTicks c1 b []).2) := by
    rw [updateModules_eq b a hp0, hc1, hr1, timerTicks_setResidual]
  -- second charge, from the state the first one left
  have ht : (Bus.timerTicks c1 b []).1.timer = b.timer := timerTicks_timer c1 b []
  have e2 : (setResidual (Bus.timerTicks c1 b []).1 r1).updateModules c =
      Bus.timerTicks c2 (setResidual (Bus.timerTicks c1 b []).1 R) [] := by
    have hp0' : (setResidual (Bus.timerTicks c1 b []).1 r1).timer.prescaler ≠ 0 := by
      show (Bus.timerTicks c1 b []).1.timer.prescaler ≠ 0
      rw [ht]; exact hp0
    rw [updateModules_eq _ c hp0']
    show Bus.timerTicks ((r1 + c) / (Bus.timerTicks c1 b []).1.timer.prescaler)
      (setResidual (setResidual (Bus.timerTicks c1 b []).1 r1) (r1 + c - (Bus.timerTicks c1 b []).1.timer.prescaler * ((r1 + c) / (Bus.timerTicks c1 b []).1.timer.prescaler))) [] = _
    rw [ht, hc2, hd2, setResidual_setResidual]
  -- the combined charge
  have e3 : b.updateModules (a + c) =
      Bus.timerTicks c2 (setResidual (Bus.timerTicks c1 b []).1 R) (Bus.timerTicks c1 b []).2 := by
    rw [updateModules_eq b (a + c) hp0, hC, hR, ← hd1, timerTicks_add, timerTicks_setResidual]
  rw [e3, e1]
  simp only
  rw [e2]
  obtain ⟨h1, h2⟩ := timerTicks_acc c2 (setResidual (Bus.timerTicks c1 b []).1 R) (Bus.timerTicks c1 b []).2
  rw [Prod.ext_iff]
  exact ⟨h2, h1⟩

/-- charging a list of amounts one after the other -/
def chargeAll : Bus → List Nat → Bus × List (BitVec 8)
  | b, [] => (b, [])
  | b, a :: as => let (b1, q1) := b.updateModules a; let (b2, q2) := chargeAll b1 as; (b2, q1 ++ q2)

theorem updateModules_prescaler (b : Bus) (a : Nat) : (b.updateModules a).1.timer.prescaler = b.timer.prescaler := by
  by_cases h0 : b.timer.prescaler = 0
  · simp [Bus.updateModules, h0]
  · rw [updateModules_eq b a h0, timerTicks_timer]; rfl

theorem updateModules_zero (b : Bus) (hp : ValidDiv b.timer.prescaler) (hr : b.timer.state < b.timer.prescaler) :
    b.updateModules 0 = (b, []) := by
  have hp0 : b.timer.prescaler ≠ 0 := by rcases hp with h | h | h <;> omega
  have hdiv : (b.timer.state + 0) / b.timer.prescaler = 0 := by
    rcases hp with h | h | h <;> (rw [h] at hr ⊢; omega)
  rw [updateModules_eq b 0 hp0, hdiv]
  simp [Bus.timerTicks, setResidual]

/-- Every partition of the same elapsed time gives the same registers, flags and request list. -/
theorem partition_invariant (cs : List Nat) (b : Bus) (hp : ValidDiv b.timer.prescaler)
    (hr : b.timer.state < b.timer.prescaler) : chargeAll b cs = b.updateModules cs.sum := by
  induction cs generalizing b with
  | nil => simp [chargeAll, updateModules_zero b hp hr]
  | cons a as ih =>
    have hp' : ValidDiv (b.updateModules a).1.timer.prescaler := by rw [updateModules_prescaler]; exact hp
    have hr' := residual_lt_after_charge b a hp
    simp only [chargeAll, List.sum_cons]
    rw [ih _ hp' hr', charge_split b a as.sum hp]

/-- number of counts after E states starting with residual r: ⌊(r+E)/div⌋, new residual (r+E) mod div -/
theorem count_formula (b : Bus) (e : Nat) (hp : ValidDiv b.timer.prescaler) :
    b.updateModules e = Bus.timerTicks ((b.timer.state + e) / b.timer.prescaler)
      (setResidual b ((b.timer.state + e) % b.timer.prescaler)) [] := by
  have hp0 : b.timer.prescaler ≠ 0 := by rcases hp with h | h | h <;> omega
  rw [updateModules_eq b e hp0]
  congr 2
  rcases hp with h | h | h <;> (rw [h]; omega)

/-- it does not count when no clock is selected -/
theorem no_count_without_clock (b : Bus) (e : Nat) (h : b.timer.prescaler = 0) : b.updateModules e = (b, []) := by
  simp [Bus.updateModules, h]

/-! ### the tick-by-tick reference counts the same number of times -/

/-- `n` states on the reference = ⌊(phase+n)/div⌋ ticks, phase (phase+n) mod div -/
theorem spec_states_count (n : Nat) (t : Spec.Tmr) (hd : ValidDiv t.div) (hph : t.phase < t.div) :
    (Spec.Tmr.states n t).div = t.div ∧ (Spec.Tmr.states n t).phase = (t.phase + n) % t.div := by
  induction n generalizing t with
  | zero =>
    simp only [Spec.Tmr.states, Nat.add_zero, true_and]
    rcases hd with h | h | h <;> (rw [h] at hph ⊢; omega)
  | succ n ih =>
    have hd0 : t.div ≠ 0 := by rcases hd with h | h | h <;> omega
    simp only [Spec.Tmr.states]
    have hs1 : t.state1.div = t.div ∧ t.state1.phase = (t.phase + 1) % t.div := by
      unfold Spec.Tmr.state1
      simp only [hd0, ↓reduceIte]
      split
      · simp only [Spec.Tmr.tick, true_and]
        rcases hd with h | h | h <;> (rw [h] at hph ⊢; omega)
      · simp only [true_and]
        rcases hd with h | h | h <;> (rw [h] at hph ⊢; omega)
    have hd' : ValidDiv t.state1.div := by rw [hs1.1]; exact hd
    have hph' : t.state1.phase < t.state1.div := by
      rw [hs1.1, hs1.2]; rcases hd with h | h | h <;> (rw [h]; omega)
    obtain ⟨i1, i2⟩ := ih t.state1 hd' hph'
    refine ⟨i1.trans hs1.1, ?_⟩
    rw [i2, hs1.1, hs1.2]
    rcases hd with h | h | h <;> (rw [h]; omega)

/-! ### one count of the code = one `Spec.tick` -/

/-- the reference timer registers as the code stores them -/
def absTmr (b : Bus) : Spec.Tmr :=
  { div := b.timer.prescaler, phase := b.timer.state,
    cmieb := b.timer.cmib, cmiea := b.timer.cmia, ovie := b.timer.ovi, cclr := b.timer.clearedBy,
    tcnt := b.io2.get (io2Index Gen.TCNT0_8), tcsr := b.io2.get (io2Index Gen.TCSR0_8),
    tcora := b.io2.get (io2Index Gen.TCORA0), tcorb := b.io2.get (io2Index Gen.TCORB0), reqs := [] }

/-- TCNT+1, OVF on FF→00, CMFA/CMFB on equality, clear by the selected match, requests 36/37/39 iff
    enabled — register for register what `Spec.tick` prescribes -/
theorem tick_eq_spec (b : Bus) :
    let t' := (absTmr b).tick
    (absTmr (b.timerTick).1).tcnt = t'.tcnt ∧ (absTmr (b.timerTick).1).tcsr = t'.tcsr ∧
    (absTmr (b.timerTick).1).tcora = t'.tcora ∧ (absTmr (b.timerTick).1).tcorb = t'.tcorb ∧
    (b.timerTick).2.map (·.toNat) = t'.reqs := by
  have e1 : io2Index Gen.TCNT0_8 = 0x68 := by decide
  have e2 : io2Index Gen.TCSR0_8 = 0x62 := by decide
  have e3 : io2Index Gen.TCORA0 = 0x64 := by decide
  have e4 : io2Index Gen.TCORB0 = 0x66 := by decide
  simp only [absTmr, Bus.timerTick, Spec.Tmr.tick, e1, e2, e3, e4, Mem.get_set, List.nil_append]
  simp only [Nat.reduceEqDiff, ↓reduceIte]
  generalize b.io2.get 0x68 = tcnt
  generalize b.io2.get 0x64 = tcora
  generalize b.io2.get 0x66 = tcorb
  generalize b.io2.get 0x62 = tcsr
  have n1 : (1 : BitVec 8) = 1#8 := rfl
  simp only [n1]
  generalize (tcnt + 1#8 == tcora) = ha
  generalize (b.timer.clearedBy == 1) = k1
  generalize hc2 : (if (ha && k1) = true then 0#8 else tcnt + 1#8) = c2
  generalize (c2 == tcorb) = hb
  generalize (tcnt == 255#8) = ho
  refine ⟨trivial, ?_, trivial, trivial, ?_⟩
  · cases ha <;> cases hb <;> cases ho <;> simp <;> bv_decide
  · cases ha <;> cases hb <;> cases ho <;> cases b.timer.cmia <;> cases b.timer.cmib <;> cases b.timer.ovi <;> simp

-- non-vacuity: /8 selected, residual 5, charges 3+9+2 = 14 → same as one charge of 14
example : ValidDiv 8 ∧ (5 : Nat) < 8 ∧ [3, 9, 2].sum = 14 := ⟨Or.inl rfl, by decide, by decide⟩

end H8.Props.C17
